/-
  C53 — hand-written executable model (core Lean only) of the 1D axisymmetric finite elements of
  PipeTest, operation for operation as written in

    mtest/src/PipeLinearElement.cxx      (namespace `Lin`)
    mtest/src/PipeQuadraticElement.cxx   (namespace `Quad`)
    mtest/src/PipeCubicElement.cxx       (namespace `Cub`)
    mtest/src/PipeTest.cxx               (`ext`, `resid`, `stiff`: computeStiffnessMatrixAndResidual,
                                          small strain, imposed inner/outer pressure, end cap effect)

  The definitions are polymorphic over the arithmetic (`[Add α] [Sub α] [Mul α] [Div α] [Neg α]`,
  integer literals and `size_t → double` conversions through the explicit `nat : Nat → α`):
  on `Float` (= C `double`, same operation order, the harness is built with -ffp-contract=off) they
  are compared bit for bit with the real code on every run; over a field they are the object of the
  theorems of Props.lean.

  The constitutive law is not part of the anchored code: it is a linear law `s = D e`
  (rows/columns rr, zz, tt — the storage order of PipeTest), the mock behaviour of the harness.
  The Gauss points/weights are *inputs* of the model (`Gauss`): the values used by the code are
  dumped from the code on every run (they are `constexpr` values computed by the compiler).
-/
namespace TfelVerif.C53

/-- applies `f 0`, `f 1`, …, `f (n-1)` in this order -/
def foldRange {β : Type} (f : Nat → β → β) (init : β) : Nat → β
  | 0 => init
  | n + 1 => f n (foldRange f init n)

/-- the mesh: number of elements, inner radius, outer radius -/
structure Mesh (α : Type) where
  ne : Nat
  Ri : α
  Re : α

/-- tangent operator of the linear law, rows/columns (rr, zz, tt) -/
structure Stiff (α : Type) where
  d00 : α
  d01 : α
  d02 : α
  d10 : α
  d11 : α
  d12 : α
  d20 : α
  d21 : α
  d22 : α

/-- strain or stress at a Gauss point: (rr, zz, tt) -/
structure V3 (α : Type) where
  rr : α
  zz : α
  tt : α

/-- Gauss rule: position and weight of the point `g` -/
structure Gauss (α : Type) where
  pt : Nat → α
  wt : Nat → α
  tag : Unit := ()

section
variable {α : Type} [Add α] [Sub α] [Mul α] [Div α] [Neg α] (nat : Nat → α)

/-- `s.s1[i] = D(i,0)*e[0] + D(i,1)*e[1] + D(i,2)*e[2]` (the mock behaviour of the harness) -/
def Stiff.apply (D : Stiff α) (e : V3 α) : V3 α :=
  { rr := D.d00 * e.rr + D.d01 * e.zz + D.d02 * e.tt
    zz := D.d10 * e.rr + D.d11 * e.zz + D.d12 * e.tt
    tt := D.d20 * e.rr + D.d21 * e.zz + D.d22 * e.tt }

/-- `dr = (Re - Ri) / ne` -/
def Mesh.dr (m : Mesh α) : α := (m.Re - m.Ri) / nat m.ne

/-- `r0 = Ri + dr * i` -/
def Mesh.node0 (m : Mesh α) (i : Nat) : α := m.Ri + m.dr nat * nat i

/-! ## PipeLinearElement -/
namespace Lin

/-- `interpolate(v0, v1, x) = 0.5 * ((1 - x) * v0 + (1 + x) * v1)` -/
def interp (v0 v1 x : α) : α := (nat 1 / nat 2) * ((nat 1 - x) * v0 + (nat 1 + x) * v1)

/-- `r1 = Ri + dr * (i + 1)` -/
def r1 (m : Mesh α) (i : Nat) : α := m.Ri + m.dr nat * nat (i + 1)

/-- radial position of the Gauss point `g` of element `i` -/
def rg (G : Gauss α) (m : Mesh α) (i g : Nat) : α := interp nat (m.node0 nat i) (r1 nat m i) (G.pt g)

/-- number of nodes -/
def nn (m : Mesh α) : Nat := m.ne + 1

/-- `computeStrain`: `e[0] = (ur1 - ur0) / dr; e[1] = ezz; e[2] = interpolate(ur0, ur1, pg) / rg` -/
def strain (G : Gauss α) (m : Mesh α) (u : Nat → α) (i g : Nat) : V3 α :=
  { rr := (u (i + 1) - u i) / m.dr nat
    zz := u (m.ne + 1)
    tt := interp nat (u i) (u (i + 1)) (G.pt g) / rg nat G m i g }

/-- `w = 2 * pi * wg * J` with `J = dr / 2` -/
def w (pi : α) (G : Gauss α) (m : Mesh α) (g : Nat) : α := nat 2 * pi * G.wt g * (m.dr nat / nat 2)

/-- `(-rg / dr)` for the first node, `(rg / dr)` for the second one -/
def bt (G : Gauss α) (m : Mesh α) (i g a : Nat) : α :=
  if a = 0 then (-(rg nat G m i g)) / m.dr nat else rg nat G m i g / m.dr nat

/-- `(1 - pg)` for the first node, `(1 + pg)` for the second one -/
def nv (G : Gauss α) (g a : Nat) : α := if a = 0 then nat 1 - G.pt g else nat 1 + G.pt g

/-- value added to `r[i + a]` (`a = 0, 1`) at the Gauss point `g`:
`w * (pi_rr * (∓rg / dr) + pi_tt * (1 ∓ pg) / 2)` -/
def force (pi : α) (G : Gauss α) (m : Mesh α) (s : V3 α) (i g a : Nat) : α :=
  w nat pi G m g * (s.rr * bt nat G m i g a + s.tt * nv nat G g a / nat 2)

/-- value added to `r[n]`: `w * rg * pi_zz` -/
def axial (pi : α) (G : Gauss α) (m : Mesh α) (s : V3 α) (i g : Nat) : α :=
  w nat pi G m g * rg nat G m i g * s.zz

/-- `de10_dur = ∓1 / dr` -/
def de0 (m : Mesh α) (b : Nat) : α := if b = 0 then (-(nat 1)) / m.dr nat else nat 1 / m.dr nat

/-- `de12_dur = (1 ∓ pg) / (2 * rg)` -/
def de2 (G : Gauss α) (m : Mesh α) (i g b : Nat) : α := nv nat G g b / (nat 2 * rg nat G m i g)

/-- value added to `k(i + a, i + b)` -/
def kab (pi : α) (G : Gauss α) (m : Mesh α) (D : Stiff α) (i g a b : Nat) : α :=
  w nat pi G m g *
    (D.d00 * de0 nat m b * bt nat G m i g a + D.d02 * de2 nat G m i g b * bt nat G m i g a +
      D.d20 * de0 nat m b * nv nat G g a / nat 2 + D.d22 * de2 nat G m i g b * nv nat G g a / nat 2)

/-- value added to `k(i + a, n)` -/
def kan (pi : α) (G : Gauss α) (m : Mesh α) (D : Stiff α) (i g a : Nat) : α :=
  w nat pi G m g * (D.d01 * bt nat G m i g a + D.d21 * nv nat G g a / nat 2)

/-- value added to `k(n, i + b)` -/
def knb (pi : α) (G : Gauss α) (m : Mesh α) (D : Stiff α) (i g b : Nat) : α :=
  w nat pi G m g * rg nat G m i g * (D.d10 * de0 nat m b + D.d12 * de2 nat G m i g b)

/-- value added to `k(n, n)` -/
def knn (pi : α) (G : Gauss α) (m : Mesh α) (D : Stiff α) (i g : Nat) : α :=
  w nat pi G m g * rg nat G m i g * D.d11

end Lin

/-! ## PipeQuadraticElement -/
namespace Quad

/-- `interpolate(v0, v1, v2, x) = (-(1. - x) * x * v0 + (1 + x) * x * v2) / 2 + (1. + x) * (1. - x) * v1` -/
def interp (v0 v1 v2 x : α) : α :=
  (-(nat 1 - x) * x * v0 + (nat 1 + x) * x * v2) / nat 2 + (nat 1 + x) * (nat 1 - x) * v1

/-- `r1 = r0 + dr / 2` -/
def r1 (m : Mesh α) (i : Nat) : α := m.node0 nat i + m.dr nat / nat 2
/-- `r2 = r0 + dr` -/
def r2 (m : Mesh α) (i : Nat) : α := m.node0 nat i + m.dr nat

def rg (G : Gauss α) (m : Mesh α) (i g : Nat) : α :=
  interp nat (m.node0 nat i) (r1 nat m i) (r2 nat m i) (G.pt g)

/-- `J = r0 * (pg - 0.5) + r2 * (pg + 0.5) - 2 * r1 * pg` -/
def jac (G : Gauss α) (m : Mesh α) (i g : Nat) : α :=
  m.node0 nat i * (G.pt g - nat 1 / nat 2) + r2 nat m i * (G.pt g + nat 1 / nat 2) -
    nat 2 * r1 nat m i * G.pt g

def nn (m : Mesh α) : Nat := 2 * m.ne + 1

/-- `sf[3] = {-0.5 * (1. - pg) * pg, (1. + pg) * (1. - pg), 0.5 * (1 + pg) * pg}` -/
def sf (x : α) (a : Nat) : α :=
  if a = 0 then -(nat 1 / nat 2) * (nat 1 - x) * x
  else if a = 1 then (nat 1 + x) * (nat 1 - x)
  else nat 1 / nat 2 * (nat 1 + x) * x

/-- `dsf[3] = {pg - 0.5, -2. * pg, pg + 0.5}` -/
def dsf (x : α) (a : Nat) : α :=
  if a = 0 then x - nat 1 / nat 2
  else if a = 1 then -(nat 2) * x
  else x + nat 1 / nat 2

/-- `computeStrain`:
`e[0] = ((pg - 0.5) * ur0 + (pg + 0.5) * ur2 - 2. * pg * ur1) * iJ; e[2] = interpolate(ur0, ur1, ur2, pg) / rg` -/
def strain (G : Gauss α) (m : Mesh α) (u : Nat → α) (i g : Nat) : V3 α :=
  let pg := G.pt g
  { rr := ((pg - nat 1 / nat 2) * u (2 * i) + (pg + nat 1 / nat 2) * u (2 * i + 2) -
            nat 2 * pg * u (2 * i + 1)) * (nat 1 / jac nat G m i g)
    zz := u (2 * m.ne + 1)
    tt := interp nat (u (2 * i)) (u (2 * i + 1)) (u (2 * i + 2)) pg / rg nat G m i g }

/-- `w = 2 * pi * wg[g] * J` -/
def w (pi : α) (G : Gauss α) (m : Mesh α) (i g : Nat) : α := nat 2 * pi * G.wt g * jac nat G m i g

/-- value added to `r[2 * i + a]`: `w * (rg * pi_rr * dsf[j] / J + pi_tt * sf[j])` -/
def force (pi : α) (G : Gauss α) (m : Mesh α) (s : V3 α) (i g a : Nat) : α :=
  w nat pi G m i g *
    (rg nat G m i g * s.rr * dsf nat (G.pt g) a / jac nat G m i g + s.tt * sf nat (G.pt g) a)

def axial (pi : α) (G : Gauss α) (m : Mesh α) (s : V3 α) (i g : Nat) : α :=
  w nat pi G m i g * rg nat G m i g * s.zz

def de0 (G : Gauss α) (m : Mesh α) (i g b : Nat) : α := dsf nat (G.pt g) b / jac nat G m i g
def de2 (G : Gauss α) (m : Mesh α) (i g b : Nat) : α := sf nat (G.pt g) b / rg nat G m i g

/-- `k(2i+l, 2i+j) += w * (rg * dsf[l] / J * (bk00 * de0_du + bk02 * de2_du) + sf[l] * (bk20 * de0_du + bk22 * de2_du))` -/
def kab (pi : α) (G : Gauss α) (m : Mesh α) (D : Stiff α) (i g a b : Nat) : α :=
  w nat pi G m i g *
    (rg nat G m i g * dsf nat (G.pt g) a / jac nat G m i g *
        (D.d00 * de0 nat G m i g b + D.d02 * de2 nat G m i g b) +
      sf nat (G.pt g) a * (D.d20 * de0 nat G m i g b + D.d22 * de2 nat G m i g b))

/-- `k(2i+l, n) += w * (rg * dsf[l] / J * bk01 + bk21 * sf[l])` -/
def kan (pi : α) (G : Gauss α) (m : Mesh α) (D : Stiff α) (i g a : Nat) : α :=
  w nat pi G m i g *
    (rg nat G m i g * dsf nat (G.pt g) a / jac nat G m i g * D.d01 + D.d21 * sf nat (G.pt g) a)

/-- `k(n, 2i+j) += w * rg * (bk10 * de0_du + bk12 * de2_du)` -/
def knb (pi : α) (G : Gauss α) (m : Mesh α) (D : Stiff α) (i g b : Nat) : α :=
  w nat pi G m i g * rg nat G m i g * (D.d10 * de0 nat G m i g b + D.d12 * de2 nat G m i g b)

def knn (pi : α) (G : Gauss α) (m : Mesh α) (D : Stiff α) (i g : Nat) : α :=
  w nat pi G m i g * rg nat G m i g * D.d11

end Quad

/-! ## PipeCubicElement -/
namespace Cub

/-- `one_third = real{1} / real{3}` -/
def ot : α := nat 1 / nat 3
/-- `cste = real{9} / real{16}` -/
def cste : α := nat 9 / nat 16
/-- `cste2 = real{27} / real{16}` -/
def cste2 : α := nat 27 / nat 16

/-- `sf0 .. sf3` -/
def sf (x : α) (a : Nat) : α :=
  if a = 0 then cste nat * (nat 1 - x) * (x - ot nat) * (x + ot nat)
  else if a = 1 then cste2 nat * (x - nat 1) * (x + nat 1) * (x - ot nat)
  else if a = 2 then cste2 nat * (nat 1 - x) * (x + nat 1) * (x + ot nat)
  else cste nat * (nat 1 + x) * (x - ot nat) * (x + ot nat)

/-- `dsf0 .. dsf3` -/
def dsf (x : α) (a : Nat) : α :=
  if a = 0 then cste nat / nat 9 * ((-(nat 27) * x + nat 18) * x + nat 1)
  else if a = 1 then cste2 nat / nat 3 * ((nat 9 * x - nat 2) * x - nat 3)
  else if a = 2 then cste2 nat / nat 3 * (nat 3 - (nat 9 * x + nat 2) * x)
  else cste nat / nat 9 * ((nat 27 * x + nat 18) * x - nat 1)

/-- `interpolate(v0, v1, v2, v3, x) = v0 * sf0(x) + v1 * sf1(x) + v2 * sf2(x) + v3 * sf3(x)` -/
def interp (v0 v1 v2 v3 x : α) : α :=
  v0 * sf nat x 0 + v1 * sf nat x 1 + v2 * sf nat x 2 + v3 * sf nat x 3

/-- `jacobian(r0, r1, r2, r3, x) = r0 * dsf0(x) + r1 * dsf1(x) + r2 * dsf2(x) + r3 * dsf3(x)` -/
def jacobian (v0 v1 v2 v3 x : α) : α :=
  v0 * dsf nat x 0 + v1 * dsf nat x 1 + v2 * dsf nat x 2 + v3 * dsf nat x 3

/-- `r1 = r0 + dr / 3` -/
def r1 (m : Mesh α) (i : Nat) : α := m.node0 nat i + m.dr nat / nat 3
/-- `r2 = r0 + 2 * dr / 3` -/
def r2 (m : Mesh α) (i : Nat) : α := m.node0 nat i + nat 2 * m.dr nat / nat 3
/-- `r3 = r0 + dr` -/
def r3 (m : Mesh α) (i : Nat) : α := m.node0 nat i + m.dr nat

/-- `s.position` (setGaussPointsPositions) -/
def rg (G : Gauss α) (m : Mesh α) (i g : Nat) : α :=
  interp nat (m.node0 nat i) (r1 nat m i) (r2 nat m i) (r3 nat m i) (G.pt g)

def jac (G : Gauss α) (m : Mesh α) (i g : Nat) : α :=
  jacobian nat (m.node0 nat i) (r1 nat m i) (r2 nat m i) (r3 nat m i) (G.pt g)

def nn (m : Mesh α) : Nat := 3 * m.ne + 1

/-- `computeStrain` -/
def strain (G : Gauss α) (m : Mesh α) (u : Nat → α) (i g : Nat) : V3 α :=
  let pg := G.pt g
  { rr := (u (3 * i) * dsf nat pg 0 + u (3 * i + 1) * dsf nat pg 1 + u (3 * i + 2) * dsf nat pg 2 +
            u (3 * i + 3) * dsf nat pg 3) * (nat 1 / jac nat G m i g)
    zz := u (3 * m.ne + 1)
    tt := interp nat (u (3 * i)) (u (3 * i + 1)) (u (3 * i + 2)) (u (3 * i + 3)) pg / rg nat G m i g }

def w (pi : α) (G : Gauss α) (m : Mesh α) (i g : Nat) : α := nat 2 * pi * G.wt g * jac nat G m i g

/-- value added to `r[3 * i + a]`: `w * (rg * pi_rr * dsfv[j] / J + pi_tt * sfv[j])`, the shape
functions and their derivatives being taken at the Gauss point `pg` of the reference element -/
def force (pi : α) (G : Gauss α) (m : Mesh α) (s : V3 α) (i g a : Nat) : α :=
  w nat pi G m i g *
    (rg nat G m i g * s.rr * dsf nat (G.pt g) a / jac nat G m i g + s.tt * sf nat (G.pt g) a)

def axial (pi : α) (G : Gauss α) (m : Mesh α) (s : V3 α) (i g : Nat) : α :=
  w nat pi G m i g * rg nat G m i g * s.zz

def de0 (G : Gauss α) (m : Mesh α) (i g b : Nat) : α := dsf nat (G.pt g) b / jac nat G m i g
def de2 (G : Gauss α) (m : Mesh α) (i g b : Nat) : α := sf nat (G.pt g) b / rg nat G m i g

def kab (pi : α) (G : Gauss α) (m : Mesh α) (D : Stiff α) (i g a b : Nat) : α :=
  w nat pi G m i g *
    (rg nat G m i g * dsf nat (G.pt g) a / jac nat G m i g *
        (D.d00 * de0 nat G m i g b + D.d02 * de2 nat G m i g b) +
      sf nat (G.pt g) a * (D.d20 * de0 nat G m i g b + D.d22 * de2 nat G m i g b))

def kan (pi : α) (G : Gauss α) (m : Mesh α) (D : Stiff α) (i g a : Nat) : α :=
  w nat pi G m i g *
    (rg nat G m i g * dsf nat (G.pt g) a / jac nat G m i g * D.d01 + D.d21 * sf nat (G.pt g) a)

def knb (pi : α) (G : Gauss α) (m : Mesh α) (D : Stiff α) (i g b : Nat) : α :=
  w nat pi G m i g * rg nat G m i g * (D.d10 * de0 nat G m i g b + D.d12 * de2 nat G m i g b)

def knn (pi : α) (G : Gauss α) (m : Mesh α) (D : Stiff α) (i g : Nat) : α :=
  w nat pi G m i g * rg nat G m i g * D.d11

end Cub

/-! ## The three elements behind one interface, and the assembly of PipeTest -/

/-- element order: 1 linear, 2 quadratic, 3 cubic (anything else is treated as cubic) -/
abbrev Order := Nat

/-- number of nodes of the mesh: `order * ne + 1` -/
def nnodes (p : Order) (m : Mesh α) : Nat := p * m.ne + 1

def strain (p : Order) (G : Gauss α) (m : Mesh α) (u : Nat → α) (i g : Nat) : V3 α :=
  if p = 1 then Lin.strain nat G m u i g
  else if p = 2 then Quad.strain nat G m u i g
  else Cub.strain nat G m u i g

/-- stress at the Gauss point `g` of the element `i` -/
def stress (p : Order) (G : Gauss α) (m : Mesh α) (D : Stiff α) (u : Nat → α) (i g : Nat) : V3 α :=
  D.apply (strain nat p G m u i g)

def force (p : Order) (pi : α) (G : Gauss α) (m : Mesh α) (s : V3 α) (i g a : Nat) : α :=
  if p = 1 then Lin.force nat pi G m s i g a
  else if p = 2 then Quad.force nat pi G m s i g a
  else Cub.force nat pi G m s i g a

def axial (p : Order) (pi : α) (G : Gauss α) (m : Mesh α) (s : V3 α) (i g : Nat) : α :=
  if p = 1 then Lin.axial nat pi G m s i g
  else if p = 2 then Quad.axial nat pi G m s i g
  else Cub.axial nat pi G m s i g

def kab (p : Order) (pi : α) (G : Gauss α) (m : Mesh α) (D : Stiff α) (i g a b : Nat) : α :=
  if p = 1 then Lin.kab nat pi G m D i g a b
  else if p = 2 then Quad.kab nat pi G m D i g a b
  else Cub.kab nat pi G m D i g a b

def kan (p : Order) (pi : α) (G : Gauss α) (m : Mesh α) (D : Stiff α) (i g a : Nat) : α :=
  if p = 1 then Lin.kan nat pi G m D i g a
  else if p = 2 then Quad.kan nat pi G m D i g a
  else Cub.kan nat pi G m D i g a

def knb (p : Order) (pi : α) (G : Gauss α) (m : Mesh α) (D : Stiff α) (i g b : Nat) : α :=
  if p = 1 then Lin.knb nat pi G m D i g b
  else if p = 2 then Quad.knb nat pi G m D i g b
  else Cub.knb nat pi G m D i g b

def knn (p : Order) (pi : α) (G : Gauss α) (m : Mesh α) (D : Stiff α) (i g : Nat) : α :=
  if p = 1 then Lin.knn nat pi G m D i g
  else if p = 2 then Quad.knn nat pi G m D i g
  else Cub.knn nat pi G m D i g

/-- the loading of the model: inner and outer pressure, end cap effect or no axial force -/
structure Load (α : Type) where
  Pi : α
  Pe : α
  endcap : Bool

/-- external forces (`impose_inner_pressure`, outer pressure), as accumulated in `r` before the loop over
the elements (small strain): `r(0) -= 2 * pi * P * Ri; r(n) -= pi * Ri * Ri * Pi;
r(ln) += 2 * pi * Pe * Re; r(n) += pi * Re * Re * Pe` starting from `r = 0` -/
def ext (p : Order) (pi : α) (m : Mesh α) (L : Load α) (j : Nat) : α :=
  let n := nnodes p m
  let z : α := nat 0
  let a := if j = 0 then z - nat 2 * pi * (L.Pi + nat 0) * m.Ri else z
  let a := if j = n ∧ L.endcap then a - pi * m.Ri * m.Ri * L.Pi else a
  let a := if j = n - 1 then a + nat 2 * pi * L.Pe * m.Re else a
  if j = n ∧ L.endcap then a + pi * m.Re * m.Re * L.Pe else a

/-- what the Gauss point `g` of the element `i` adds to the entry `j` of the residual (an entry receives
at most one nodal force and, for `j = n`, the axial force per Gauss point, so that the order of the
floating-point additions into `r[j]` is the order of the elements and of the Gauss points) -/
def gaussForce (p : Order) (pi : α) (G : Gauss α) (m : Mesh α) (D : Stiff α) (u : Nat → α)
    (j i g : Nat) (acc : α) : α :=
  let s := stress nat p G m D u i g
  let acc := if p * i ≤ j ∧ j ≤ p * i + p then acc + force nat p pi G m s i g (j - p * i) else acc
  if j = nnodes p m then acc + axial nat p pi G m s i g else acc

/-- entry `j` of the residual of `PipeTest::computeStiffnessMatrixAndResidual` -/
def resid (p : Order) (pi : α) (G : Gauss α) (m : Mesh α) (D : Stiff α) (L : Load α) (u : Nat → α)
    (j : Nat) : α :=
  foldRange (fun i acc => foldRange (fun g acc => gaussForce nat p pi G m D u j i g acc) acc (p + 1))
    (ext nat p pi m L j) m.ne

/-- what the Gauss point `g` of the element `i` adds to the entry `(l, c)` of the stiffness matrix
(loop order of the code: for the linear element `k(i,i), k(i,i+1), k(i,n), k(i+1,i), …, k(n,n)`;
each entry receives at most one addition per Gauss point, so only the order of the Gauss points and of
the elements matters) -/
def gaussStiff (p : Order) (pi : α) (G : Gauss α) (m : Mesh α) (D : Stiff α)
    (l c i g : Nat) (acc : α) : α :=
  let n := nnodes p m
  if l = n then
    if c = n then acc + knn nat p pi G m D i g
    else if p * i ≤ c ∧ c ≤ p * i + p then acc + knb nat p pi G m D i g (c - p * i) else acc
  else if p * i ≤ l ∧ l ≤ p * i + p then
    if c = n then acc + kan nat p pi G m D i g (l - p * i)
    else if p * i ≤ c ∧ c ≤ p * i + p then acc + kab nat p pi G m D i g (l - p * i) (c - p * i) else acc
  else acc

/-- entry `(l, c)` of the stiffness matrix (small strain: the pressure terms do not contribute) -/
def stiff (p : Order) (pi : α) (G : Gauss α) (m : Mesh α) (D : Stiff α) (l c : Nat) : α :=
  foldRange (fun i acc => foldRange (fun g acc => gaussStiff nat p pi G m D l c i g acc) acc (p + 1))
    (nat 0) m.ne

end

end TfelVerif.C53
