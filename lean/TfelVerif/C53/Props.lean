/-
  C53 — "PipeTest reproduces the elastic thick-walled cylinder solution": property theorems.

  Objects: the executable model `TfelVerif.C53` (Model.lean: PipeLinearElement / PipeQuadraticElement /
  PipeCubicElement and the assembly of PipeTest::computeStiffnessMatrixAndResidual, operation for
  operation) over an arbitrary field `K` of characteristic zero (exact arithmetic, `nat := Nat.cast`).
  The model is tied to the code by the bit-exact `Float` correspondence of checks/C53.py on every run;
  the Gauss points and weights of the code are dumped on every run into `GenGauss.lean`.

  * `partition_of_unity`, `nodal_interpolation`, `interpolation_is_linear_combination`,
    `shape_derivative`                      shape functions of the three elements
  * `geometry_affine`, `jacobian_constant`  equally spaced nodes: affine map, `J = dr / 2`
  * `strain_operator`                       `(ε_rr, ε_zz, ε_θθ) = (u', ε_zz, u / r)` for every displacement
                                            field of the element space (polynomials of degree ≤ order)
  * `gauss2_exact`, `gauss3_exact`, `gauss4_exact`, `quadrature_exact_of_moments`, `code_gauss_moments`
                                            the n-point rules at the Legendre roots integrate degree 2n-1
                                            exactly; the constants of the code satisfy the moment equations
                                            to 2e-15
  * `tangent_consistency`, `element_stiffness_symmetric`, `stiffness_symmetric`
  * `patch_test_inner_forces`, `patch_test`  for the dilation `u = A r`, every mesh, every element order:
                                            assembled inner forces = pressure loading, identically.

  Partial (see checks/meta/C53.json): the convergence towards the Lamé field `A r + B / r` under mesh
  refinement is numerical analysis and is not proved here (implementation-side convergence table in the
  evidence); rounding is not modelled in the theorems.
-/
import Mathlib.Algebra.Polynomial.Derivative
import Mathlib.Algebra.Polynomial.Eval.Defs
import Mathlib.Algebra.Order.Field.Rat
import Mathlib.Tactic.NormNum
import Mathlib.Tactic.IntervalCases
import TfelVerif.C53.Patch
import TfelVerif.C53.GenGauss

namespace TfelVerif.C53

set_option linter.unusedSectionVars false
set_option linter.unusedVariables false

variable {K : Type} [Field K] [CharZero K]

/-! ## Shape functions -/

/-- the shape function `a` of the element of order `p`: `interpolate` applied to the unit vector `e_a` -/
def shape (p a : ℕ) (x : K) : K :=
  let e (k : ℕ) : K := if k = a then 1 else 0
  if p = 1 then Lin.interp nc (e 0) (e 1) x
  else if p = 2 then Quad.interp nc (e 0) (e 1) (e 2) x
  else Cub.interp nc (e 0) (e 1) (e 2) (e 3) x

/-- the derivative used by the code: `∓1/2` (linear element: `e_rr = (u1 - u0) / dr`, `J = dr / 2`),
`dsf[a]` (quadratic), `dsf0 … dsf3` (cubic) -/
def dshape (p a : ℕ) (x : K) : K :=
  if p = 1 then (if a = 0 then -1 / 2 else 1 / 2)
  else if p = 2 then Quad.dsf nc x a
  else Cub.dsf nc x a

/-- node `b` of the reference element of order `p`: `-1 + 2 b / p` -/
def refNode (p b : ℕ) : K := -1 + 2 * (b : K) / (p : K)

theorem shape_closed_forms (x : K) :
    (shape 1 0 x = (1 - x) / 2 ∧ shape 1 1 x = (1 + x) / 2) ∧
    (shape 2 0 x = (x ^ 2 - x) / 2 ∧ shape 2 1 x = 1 - x ^ 2 ∧ shape 2 2 x = (x ^ 2 + x) / 2) ∧
    (shape 3 0 x = (-1 + x + 9 * x ^ 2 - 9 * x ^ 3) / 16 ∧
     shape 3 1 x = (9 - 27 * x - 9 * x ^ 2 + 27 * x ^ 3) / 16 ∧
     shape 3 2 x = (9 + 27 * x - 9 * x ^ 2 - 27 * x ^ 3) / 16 ∧
     shape 3 3 x = (-1 - x + 9 * x ^ 2 + 9 * x ^ 3) / 16) := by
  refine ⟨⟨?_, ?_⟩, ⟨?_, ?_, ?_⟩, ⟨?_, ?_, ?_, ?_⟩⟩ <;>
    simp [shape, Lin.interp_eq, Quad.interp_eq, Cub.interp_eq] <;> ring

/-- partition of unity: the shape functions of each element sum to one everywhere -/
theorem partition_of_unity (p : ℕ) (hp : p = 1 ∨ p = 2 ∨ p = 3) (x : K) :
    sumRange (fun a => shape p a x) (p + 1) = 1 := by
  obtain ⟨⟨l0, l1⟩, ⟨q0, q1, q2⟩, ⟨c0, c1, c2, c3⟩⟩ := shape_closed_forms x
  rcases hp with rfl | rfl | rfl
  · rw [sumRange_two, l0, l1]; ring
  · rw [sumRange_three, q0, q1, q2]; ring
  · rw [sumRange_four, c0, c1, c2, c3]; ring

/-- nodal interpolation property: `N_a(ξ_b) = δ_ab` at the nodes `ξ_b = -1 + 2 b / p` -/
theorem nodal_interpolation (p : ℕ) (hp : p = 1 ∨ p = 2 ∨ p = 3) (a b : ℕ) (ha : a ≤ p) (hb : b ≤ p) :
    shape p a (refNode p b : K) = if a = b then 1 else 0 := by
  rcases hp with rfl | rfl | rfl
  · obtain ⟨⟨l0, l1⟩, _, _⟩ := shape_closed_forms (refNode 1 b : K)
    interval_cases a <;> interval_cases b <;>
      first | (rw [l0]; norm_num [refNode]) | (rw [l1]; norm_num [refNode])
  · obtain ⟨_, ⟨q0, q1, q2⟩, _⟩ := shape_closed_forms (refNode 2 b : K)
    interval_cases a <;> interval_cases b <;>
      first | (rw [q0]; norm_num [refNode]) | (rw [q1]; norm_num [refNode]) | (rw [q2]; norm_num [refNode])
  · obtain ⟨_, _, ⟨c0, c1, c2, c3⟩⟩ := shape_closed_forms (refNode 3 b : K)
    interval_cases a <;> interval_cases b <;>
      first | (rw [c0]; norm_num [refNode]) | (rw [c1]; norm_num [refNode]) | (rw [c2]; norm_num [refNode]) |
        (rw [c3]; norm_num [refNode])

/-- `interpolate` is the linear combination of the nodal values with the shape functions -/
theorem interpolation_is_linear_combination (v0 v1 v2 v3 x : K) :
    Lin.interp nc v0 v1 x = v0 * shape 1 0 x + v1 * shape 1 1 x ∧
    Quad.interp nc v0 v1 v2 x = v0 * shape 2 0 x + v1 * shape 2 1 x + v2 * shape 2 2 x ∧
    Cub.interp nc v0 v1 v2 v3 x =
      v0 * shape 3 0 x + v1 * shape 3 1 x + v2 * shape 3 2 x + v3 * shape 3 3 x := by
  obtain ⟨⟨l0, l1⟩, ⟨q0, q1, q2⟩, ⟨c0, c1, c2, c3⟩⟩ := shape_closed_forms x
  refine ⟨?_, ?_, ?_⟩
  · rw [Lin.interp_eq, l0, l1]; ring
  · rw [Quad.interp_eq, q0, q1, q2]; ring
  · rw [Cub.interp_eq, c0, c1, c2, c3]; ring

open Polynomial in
/-- the derivatives used by the code are the formal derivatives of the shape functions: each shape
function is a polynomial `P` and the code's derivative is `P.derivative` -/
theorem shape_derivative (p : ℕ) (hp : p = 1 ∨ p = 2 ∨ p = 3) (a : ℕ) (ha : a ≤ p) :
    ∃ P : K[X], (∀ x, P.eval x = shape p a x) ∧ (∀ x, (derivative P).eval x = dshape p a x) := by
  rcases hp with rfl | rfl | rfl
  · interval_cases a
    · refine ⟨C (1 / 2) - C (1 / 2) * X, fun x => ?_, fun x => ?_⟩
      · rw [(shape_closed_forms x).1.1]; simp; ring
      · simp [dshape]; ring
    · refine ⟨C (1 / 2) + C (1 / 2) * X, fun x => ?_, fun x => ?_⟩
      · rw [(shape_closed_forms x).1.2]; simp; ring
      · simp [dshape]
  · interval_cases a
    · refine ⟨C (1 / 2) * X ^ 2 - C (1 / 2) * X, fun x => ?_, fun x => ?_⟩
      · rw [(shape_closed_forms x).2.1.1]; simp; ring
      · simp [dshape, (Quad.dsf_eq x).1]; ring
    · refine ⟨C 1 - X ^ 2, fun x => ?_, fun x => ?_⟩
      · rw [(shape_closed_forms x).2.1.2.1]; simp
      · simp [dshape, (Quad.dsf_eq x).2.1]
        first | done | (left; norm_num)
    · refine ⟨C (1 / 2) * X ^ 2 + C (1 / 2) * X, fun x => ?_, fun x => ?_⟩
      · rw [(shape_closed_forms x).2.1.2.2]; simp; ring
      · simp [dshape, (Quad.dsf_eq x).2.2]; ring
  · interval_cases a
    · refine ⟨C (-1 / 16) + C (1 / 16) * X + C (9 / 16) * X ^ 2 - C (9 / 16) * X ^ 3, fun x => ?_, fun x => ?_⟩
      · rw [(shape_closed_forms x).2.2.1]; simp; ring
      · simp [dshape, (Cub.dsf_eq x).1]; ring
    · refine ⟨C (9 / 16) - C (27 / 16) * X - C (9 / 16) * X ^ 2 + C (27 / 16) * X ^ 3, fun x => ?_, fun x => ?_⟩
      · rw [(shape_closed_forms x).2.2.2.1]; simp; ring
      · simp [dshape, (Cub.dsf_eq x).2.1]; ring
    · refine ⟨C (9 / 16) + C (27 / 16) * X - C (9 / 16) * X ^ 2 - C (27 / 16) * X ^ 3, fun x => ?_, fun x => ?_⟩
      · rw [(shape_closed_forms x).2.2.2.2.1]; simp; ring
      · simp [dshape, (Cub.dsf_eq x).2.2.1]; ring
    · refine ⟨C (-1 / 16) - C (1 / 16) * X + C (9 / 16) * X ^ 2 + C (9 / 16) * X ^ 3, fun x => ?_, fun x => ?_⟩
      · rw [(shape_closed_forms x).2.2.2.2.2]; simp; ring
      · simp [dshape, (Cub.dsf_eq x).2.2.2]; ring

/-! ## Geometry -/

/-- equally spaced nodes: the map reference element → element `i` is affine,
`r(ξ) = r0 + dr / 2 (1 + ξ)` with `r0 = Ri + dr i` -/
theorem geometry_affine (p : ℕ) (G : Gauss K) (m : Mesh K) (i g : ℕ) :
    gaussRadius p G m i g = m.Ri + m.dr nc * (i : K) + m.dr nc / 2 * (1 + G.pt g) := by
  unfold gaussRadius
  split_ifs
  · rw [Lin.rg_eq]; rfl
  · rw [Quad.rg_eq]; rfl
  · rw [Cub.rg_eq]; rfl

/-- the jacobian of the quadratic and cubic elements is the constant `dr / 2` (the one the linear
element uses) -/
theorem jacobian_constant (G : Gauss K) (m : Mesh K) (i g : ℕ) :
    Quad.jac nc G m i g = m.dr nc / 2 ∧ Cub.jac nc G m i g = m.dr nc / 2 :=
  ⟨Quad.jac_eq G m i g, Cub.jac_eq G m i g⟩

/-! ## Strain operator -/

/-- a displacement field of the element space: polynomial of degree ≤ 3 in `r` -/
def field (c0 c1 c2 c3 r : K) : K := c0 + c1 * r + c2 * r ^ 2 + c3 * r ^ 3
/-- its derivative -/
def dfield (c1 c2 c3 r : K) : K := c1 + 2 * c2 * r + 3 * c3 * r ^ 2

/-- `computeStrain`: for every nodal displacement sampled from a polynomial field `f` of degree at
most the order of the element (and any axial strain `u[n]`), the strain at every Gauss point of every
element is `(ε_rr, ε_zz, ε_θθ) = (f'(r_g), u[n], f(r_g) / r_g)` — for any position of the Gauss points. -/
theorem strain_operator (p : ℕ) (hp : p = 1 ∨ p = 2 ∨ p = 3) (G : Gauss K) (m : Mesh K) (u : ℕ → K)
    (i g : ℕ) (c0 c1 c2 c3 : K) (hc2 : p < 2 → c2 = 0) (hc3 : p < 3 → c3 = 0) (hh : m.dr nc ≠ 0)
    (hu : ∀ a, a ≤ p → u (p * i + a) = field c0 c1 c2 c3 (m.node0 nc i + m.dr nc * (a : K) / (p : K))) :
    (strain nc p G m u i g).rr = dfield c1 c2 c3 (gaussRadius p G m i g) ∧
    (strain nc p G m u i g).zz = u (p * m.ne + 1) ∧
    (strain nc p G m u i g).tt = field c0 c1 c2 c3 (gaussRadius p G m i g) / gaussRadius p G m i g := by
  have hh' : m.h ≠ 0 := hh
  rcases hp with rfl | rfl | rfl
  · have h2 := hc2 (by norm_num)
    have h3 := hc3 (by norm_num)
    subst h2 h3
    have u0 := hu 0 (by norm_num)
    have u1 := hu 1 (by norm_num)
    simp only [Nat.one_mul, Nat.add_zero, Nat.cast_zero, Nat.cast_one, mul_zero, zero_div, add_zero,
      mul_one, div_one, field] at u0 u1
    refine ⟨?_, ?_, ?_⟩
    · show (u (i + 1) - u i) / m.h = _
      rw [u0, u1]
      simp only [dfield]
      field_simp
      ring
    · show u (m.ne + 1) = u (1 * m.ne + 1)
      rw [Nat.one_mul]
    · show Lin.interp nc (u i) (u (i + 1)) (G.pt g) / Lin.rg nc G m i g = _
      rw [u0, u1]
      congr 1
      simp only [gaussRadius, if_true, Lin.rg_eq, Lin.interp_eq, field]
      ring
  · have h3 := hc3 (by norm_num)
    subst h3
    have u0 := hu 0 (by norm_num)
    have u1 := hu 1 (by norm_num)
    have u2 := hu 2 (by norm_num)
    have e22 : m.dr nc * ((2 : ℕ) : K) / ((2 : ℕ) : K) = m.dr nc := by push_cast; field_simp
    simp only [Nat.add_zero, Nat.cast_zero, Nat.cast_one, mul_zero, zero_div, add_zero, mul_one, e22] at u0 u1 u2
    refine ⟨?_, rfl, ?_⟩
    · show ((G.pt g - nc 1 / nc 2) * u (2 * i) + (G.pt g + nc 1 / nc 2) * u (2 * i + 2) -
          nc 2 * G.pt g * u (2 * i + 1)) * (nc 1 / Quad.jac nc G m i g) = _
      rw [u0, u1, u2, Quad.jac_eq]
      have : gaussRadius 2 G m i g = Quad.rg nc G m i g := rfl
      rw [this, Quad.rg_eq]
      simp only [nc, field, dfield]
      push_cast
      field_simp
      ring
    · show Quad.interp nc (u (2 * i)) (u (2 * i + 1)) (u (2 * i + 2)) (G.pt g) / Quad.rg nc G m i g = _
      rw [u0, u1, u2]
      have : gaussRadius 2 G m i g = Quad.rg nc G m i g := rfl
      rw [this]
      congr 1
      rw [Quad.rg_eq, Quad.interp_eq]
      simp only [field]
      push_cast
      ring
  · have u0 := hu 0 (by norm_num)
    have u1 := hu 1 (by norm_num)
    have u2 := hu 2 (by norm_num)
    have u3 := hu 3 (by norm_num)
    have e33 : m.dr nc * ((3 : ℕ) : K) / ((3 : ℕ) : K) = m.dr nc := by push_cast; field_simp
    simp only [Nat.add_zero, Nat.cast_zero, Nat.cast_one, mul_zero, zero_div, add_zero, mul_one, e33] at u0 u1 u2 u3
    obtain ⟨d0, d1, d2, d3⟩ := Cub.dsf_eq (G.pt g)
    refine ⟨?_, rfl, ?_⟩
    · show (u (3 * i) * Cub.dsf nc (G.pt g) 0 + u (3 * i + 1) * Cub.dsf nc (G.pt g) 1 +
          u (3 * i + 2) * Cub.dsf nc (G.pt g) 2 + u (3 * i + 3) * Cub.dsf nc (G.pt g) 3) *
          (nc 1 / Cub.jac nc G m i g) = _
      rw [u0, u1, u2, u3, Cub.jac_eq, d0, d1, d2, d3]
      have : gaussRadius 3 G m i g = Cub.rg nc G m i g := rfl
      rw [this, Cub.rg_eq]
      simp only [nc, field, dfield]
      push_cast
      field_simp
      ring
    · show Cub.interp nc (u (3 * i)) (u (3 * i + 1)) (u (3 * i + 2)) (u (3 * i + 3)) (G.pt g) /
          Cub.rg nc G m i g = _
      rw [u0, u1, u2, u3]
      have : gaussRadius 3 G m i g = Cub.rg nc G m i g := rfl
      rw [this]
      congr 1
      rw [Cub.rg_eq, Cub.interp_eq]
      simp only [field]
      push_cast
      ring

/-! ## Quadrature -/

/-- two points at the roots `±a` of the Legendre polynomial `3 ξ² - 1`, unit weights: degree 3 -/
theorem gauss2_exact (a : K) (ha : a * a = 1 / 3) :
    ExactTo 1 ({ pt := fun g => if g = 0 then -a else a, wt := fun _ => 1 } : Gauss K) 3 := by
  intro k hk
  interval_cases k <;> simp [moment, sumRange_two, idealMoment] <;> norm_num
  · linear_combination 2 * ha
  · ring

/-- three points at the roots `0, ±a` of `5 ξ³ - 3 ξ`, weights `5/9, 8/9, 5/9`: degree 5 -/
theorem gauss3_exact (a : K) (ha : a * a = 3 / 5) :
    ExactTo 2 ({ pt := fun g => if g = 0 then -a else if g = 1 then 0 else a,
                 wt := fun g => if g = 1 then 8 / 9 else 5 / 9 } : Gauss K) 5 := by
  intro k hk
  interval_cases k <;> simp [moment, sumRange_three, idealMoment] <;> norm_num
  · linear_combination (10 / 9 : K) * ha
  · ring
  · linear_combination (10 / 9 : K) * (a * a + 3 / 5) * ha
  · ring

/-- four points `±a, ±b` at the roots of `35 ξ⁴ - 30 ξ² + 3` (`a² + b² = 6/7`, `a² b² = 3/35`) with
the interpolatory weights (`w_a + w_b = 1`, `w_a a² + w_b b² = 1/3`): degree 7 -/
theorem gauss4_exact (a b wa wb : K) (hsum : a ^ 2 + b ^ 2 = 6 / 7) (hprod : a ^ 2 * b ^ 2 = 3 / 35)
    (hw0 : wa + wb = 1) (hw2 : wa * a ^ 2 + wb * b ^ 2 = 1 / 3) :
    ExactTo 3 ({ pt := fun g => if g = 0 then -b else if g = 1 then -a else if g = 2 then a else b,
                 wt := fun g => if g = 0 then wb else if g = 1 then wa else if g = 2 then wa else wb } :
               Gauss K) 7 := by
  have h4 : wa * a ^ 4 + wb * b ^ 4 = 1 / 5 := by
    linear_combination (a ^ 2 + b ^ 2) * hw2 + (1 / 3 : K) * hsum - (wa + wb) * hprod - (3 / 35 : K) * hw0
  have h6 : wa * a ^ 6 + wb * b ^ 6 = 1 / 7 := by
    linear_combination (a ^ 2 + b ^ 2) * h4 + (1 / 5 : K) * hsum - (a ^ 2 * b ^ 2) * hw2 - (1 / 3 : K) * hprod
  intro k hk
  have e0 : wb * 2 + wa * 2 = 2 := by linear_combination 2 * hw0
  have e2 : wb * b ^ 2 * 2 + wa * a ^ 2 * 2 = 2 / 3 := by linear_combination 2 * hw2
  have e4 : wb * b ^ 4 * 2 + wa * a ^ 4 * 2 = 2 / 5 := by linear_combination 2 * h4
  have e6 : wb * b ^ 6 * 2 + wa * a ^ 6 * 2 = 2 / 7 := by linear_combination 2 * h6
  interval_cases k <;> simp [moment, sumRange_four, idealMoment] <;> (try norm_num) <;>
    first | ring1 | linear_combination e0 | linear_combination e2 | linear_combination e4 | linear_combination e6

/-- a rule which integrates the monomials of degree `≤ d` exactly integrates every polynomial
`Σ_{k ≤ d} c_k ξ^k` exactly -/
theorem quadrature_exact_of_moments (p : ℕ) (G : Gauss K) (d : ℕ) (h : ExactTo p G d) (c : ℕ → K) :
    sumRange (fun g => G.wt g * sumRange (fun k => c k * G.pt g ^ k) (d + 1)) (p + 1) =
      sumRange (fun k => c k * idealMoment k) (d + 1) := by
  induction d with
  | zero =>
    have h0 := h 0 (Nat.le_refl 0)
    have e : ∀ g, G.wt g * sumRange (fun k => c k * G.pt g ^ k) (0 + 1) = c 0 * (G.wt g * G.pt g ^ 0) := by
      intro g
      rw [sumRange_succ, sumRange_zero]
      ring
    have e2 := sumRange_congr (fun g => G.wt g * sumRange (fun k => c k * G.pt g ^ k) (0 + 1))
      (fun g => c 0 * (G.wt g * G.pt g ^ 0)) (p + 1) (fun g _ => e g)
    rw [e2, sumRange_mul_left]
    show c 0 * moment p G 0 = 0 + c 0 * idealMoment 0
    rw [h0, zero_add]
  | succ d ih =>
    have hd := h (d + 1) (Nat.le_refl _)
    have ih' := ih (fun k hk => h k (Nat.le_succ_of_le hk))
    have e : ∀ g, G.wt g * sumRange (fun k => c k * G.pt g ^ k) (d + 1 + 1) =
        G.wt g * sumRange (fun k => c k * G.pt g ^ k) (d + 1) + c (d + 1) * (G.wt g * G.pt g ^ (d + 1)) := by
      intro g
      rw [sumRange_succ]
      ring
    have e2 := sumRange_congr (fun g => G.wt g * sumRange (fun k => c k * G.pt g ^ k) (d + 1 + 1))
      (fun g => G.wt g * sumRange (fun k => c k * G.pt g ^ k) (d + 1) +
        c (d + 1) * (G.wt g * G.pt g ^ (d + 1))) (p + 1) (fun g _ => e g)
    rw [e2, sumRange_add, ih', sumRange_mul_left]
    show _ + c (d + 1) * moment p G (d + 1) =
      sumRange (fun k => c k * idealMoment k) (d + 1) + c (d + 1) * idealMoment (d + 1)
    rw [hd]

/-- the Gauss points and weights of the code (dumped on every run into `GenGauss.lean`, exact binary
values of the `constexpr` doubles) satisfy the moment equations of the degree they claim (`2 p + 1`)
to `2e-15` -/
theorem code_gauss_moments :
    (∀ k, k ≤ 3 → |moment 1 Gen.gauss1 k - idealMoment k| ≤ (1 : ℚ) / (5 * 10 ^ 14)) ∧
    (∀ k, k ≤ 5 → |moment 2 Gen.gauss2 k - idealMoment k| ≤ (1 : ℚ) / (5 * 10 ^ 14)) ∧
    (∀ k, k ≤ 7 → |moment 3 Gen.gauss3 k - idealMoment k| ≤ (1 : ℚ) / (5 * 10 ^ 14)) := by
  refine ⟨?_, ?_, ?_⟩ <;> intro k hk <;> interval_cases k <;>
    simp [moment, sumRange_two, sumRange_three, sumRange_four, idealMoment, Gen.gauss1, Gen.gauss2, Gen.gauss3] <;>
    norm_num [abs_le]

/-! ## Tangent operator -/

/-- the stiffness of a linear law is symmetric in the sense needed below -/
def Stiff.Symm (D : Stiff K) : Prop := D.d01 = D.d10 ∧ D.d02 = D.d20 ∧ D.d12 = D.d21

/-- consistency of the tangent: for the linear law, the nodal and axial forces added at a Gauss point
are the stiffness terms added at that Gauss point applied to the displacements of the element -/
theorem tangent_consistency (p : ℕ) (hp : p = 1 ∨ p = 2 ∨ p = 3) (π : K) (G : Gauss K) (m : Mesh K)
    (D : Stiff K) (u : ℕ → K) (i g a : ℕ) :
    force nc p π G m (stress nc p G m D u i g) i g a =
      sumRange (fun b => kab nc p π G m D i g a b * u (p * i + b)) (p + 1) +
        kan nc p π G m D i g a * u (p * m.ne + 1) ∧
    axial nc p π G m (stress nc p G m D u i g) i g =
      sumRange (fun b => knb nc p π G m D i g b * u (p * i + b)) (p + 1) +
        knn nc p π G m D i g * u (p * m.ne + 1) := by
  rcases hp with rfl | rfl | rfl
  · have h10 : ¬ ((1 : ℕ) = 0) := by decide
    constructor
    · show Lin.force nc π G m (D.apply (Lin.strain nc G m u i g)) i g a = _
      rw [sumRange_two]
      show _ = Lin.kab nc π G m D i g a 0 * u (1 * i + 0) + Lin.kab nc π G m D i g a 1 * u (1 * i + 1) +
        Lin.kan nc π G m D i g a * u (1 * m.ne + 1)
      simp only [Nat.one_mul, Nat.add_zero, Lin.force, Lin.kab, Lin.kan, Stiff.apply, Lin.strain, Lin.de0,
        Lin.de2, Lin.nv, Lin.interp, h10, if_true, if_false]
      ring
    · show Lin.axial nc π G m (D.apply (Lin.strain nc G m u i g)) i g = _
      rw [sumRange_two]
      show _ = Lin.knb nc π G m D i g 0 * u (1 * i + 0) + Lin.knb nc π G m D i g 1 * u (1 * i + 1) +
        Lin.knn nc π G m D i g * u (1 * m.ne + 1)
      simp only [Nat.one_mul, Nat.add_zero, Lin.axial, Lin.knb, Lin.knn, Stiff.apply, Lin.strain, Lin.de0,
        Lin.de2, Lin.nv, Lin.interp, h10, if_true, if_false]
      ring
  · have h10 : ¬ ((1 : ℕ) = 0) := by decide
    have h20 : ¬ ((2 : ℕ) = 0) := by decide
    have h21 : ¬ ((2 : ℕ) = 1) := by decide
    constructor
    · show Quad.force nc π G m (D.apply (Quad.strain nc G m u i g)) i g a = _
      rw [sumRange_three]
      show _ = Quad.kab nc π G m D i g a 0 * u (2 * i + 0) + Quad.kab nc π G m D i g a 1 * u (2 * i + 1) +
        Quad.kab nc π G m D i g a 2 * u (2 * i + 2) + Quad.kan nc π G m D i g a * u (2 * m.ne + 1)
      simp only [Nat.add_zero, Quad.force, Quad.kab, Quad.kan, Stiff.apply, Quad.strain, Quad.de0, Quad.de2,
        Quad.interp, Quad.sf, Quad.dsf, h10, h20, h21, if_true, if_false]
      ring
    · show Quad.axial nc π G m (D.apply (Quad.strain nc G m u i g)) i g = _
      rw [sumRange_three]
      show _ = Quad.knb nc π G m D i g 0 * u (2 * i + 0) + Quad.knb nc π G m D i g 1 * u (2 * i + 1) +
        Quad.knb nc π G m D i g 2 * u (2 * i + 2) + Quad.knn nc π G m D i g * u (2 * m.ne + 1)
      simp only [Nat.add_zero, Quad.axial, Quad.knb, Quad.knn, Stiff.apply, Quad.strain, Quad.de0, Quad.de2,
        Quad.interp, Quad.sf, Quad.dsf, h10, h20, h21, if_true, if_false]
      ring
  · constructor
    · show Cub.force nc π G m (D.apply (Cub.strain nc G m u i g)) i g a = _
      rw [sumRange_four]
      show _ = Cub.kab nc π G m D i g a 0 * u (3 * i + 0) + Cub.kab nc π G m D i g a 1 * u (3 * i + 1) +
        Cub.kab nc π G m D i g a 2 * u (3 * i + 2) + Cub.kab nc π G m D i g a 3 * u (3 * i + 3) +
        Cub.kan nc π G m D i g a * u (3 * m.ne + 1)
      simp only [Nat.add_zero, Cub.force, Cub.kab, Cub.kan, Stiff.apply, Cub.strain, Cub.de0, Cub.de2,
        Cub.interp]
      ring
    · show Cub.axial nc π G m (D.apply (Cub.strain nc G m u i g)) i g = _
      rw [sumRange_four]
      show _ = Cub.knb nc π G m D i g 0 * u (3 * i + 0) + Cub.knb nc π G m D i g 1 * u (3 * i + 1) +
        Cub.knb nc π G m D i g 2 * u (3 * i + 2) + Cub.knb nc π G m D i g 3 * u (3 * i + 3) +
        Cub.knn nc π G m D i g * u (3 * m.ne + 1)
      simp only [Nat.add_zero, Cub.axial, Cub.knb, Cub.knn, Stiff.apply, Cub.strain, Cub.de0, Cub.de2,
        Cub.interp]
      ring

/-- the element stiffness added at a Gauss point is symmetric when the tangent of the law is -/
theorem element_stiffness_symmetric (p : ℕ) (hp : p = 1 ∨ p = 2 ∨ p = 3) (π : K) (G : Gauss K)
    (m : Mesh K) (D : Stiff K) (hD : D.Symm) (i g a b : ℕ) (hr : gaussRadius p G m i g ≠ 0) :
    kab nc p π G m D i g a b = kab nc p π G m D i g b a ∧
    kan nc p π G m D i g a = knb nc p π G m D i g a := by
  obtain ⟨h01, h02, h12⟩ := hD
  rcases hp with rfl | rfl | rfl
  · have hr' : Lin.rg nc G m i g ≠ 0 := hr
    constructor
    · show Lin.kab nc π G m D i g a b = Lin.kab nc π G m D i g b a
      simp only [Lin.kab, Lin.de0, Lin.de2, Lin.bt, Lin.nv, h02]
      split_ifs <;> field_simp <;> ring
    · show Lin.kan nc π G m D i g a = Lin.knb nc π G m D i g a
      simp only [Lin.kan, Lin.knb, Lin.de0, Lin.de2, Lin.bt, Lin.nv, h01, h12]
      split_ifs <;> field_simp <;> ring
  · have hr' : Quad.rg nc G m i g ≠ 0 := hr
    constructor
    · show Quad.kab nc π G m D i g a b = Quad.kab nc π G m D i g b a
      simp only [Quad.kab, Quad.de0, Quad.de2, h02]
      field_simp
      ring
    · show Quad.kan nc π G m D i g a = Quad.knb nc π G m D i g a
      simp only [Quad.kan, Quad.knb, Quad.de0, Quad.de2, h01, h12]
      field_simp
  · have hr' : Cub.rg nc G m i g ≠ 0 := hr
    constructor
    · show Cub.kab nc π G m D i g a b = Cub.kab nc π G m D i g b a
      simp only [Cub.kab, Cub.de0, Cub.de2, h02]
      field_simp
      ring
    · show Cub.kan nc π G m D i g a = Cub.knb nc π G m D i g a
      simp only [Cub.kan, Cub.knb, Cub.de0, Cub.de2, h01, h12]
      field_simp

/-- the assembled stiffness matrix of `PipeTest::computeStiffnessMatrixAndResidual` is symmetric when the
tangent of the law is (every mesh, every element order, Gauss points off the axis) -/
theorem stiffness_symmetric (p : ℕ) (hp : p = 1 ∨ p = 2 ∨ p = 3) (π : K) (G : Gauss K) (m : Mesh K)
    (D : Stiff K) (hD : D.Symm) (hr : ∀ i g, i < m.ne → g ≤ p → gaussRadius p G m i g ≠ 0) (l c : ℕ) :
    stiff nc p π G m D l c = stiff nc p π G m D c l := by
  unfold stiff
  refine foldRange_congr _ _ _ _ (fun i hi acc => ?_)
  refine foldRange_congr _ _ _ _ (fun g hg acc' => ?_)
  rw [gaussStiff_eq, gaussStiff_eq]
  congr 1
  have hs := fun a b => element_stiffness_symmetric p hp π G m D hD i g a b (hr i g hi (Nat.lt_succ_iff.mp hg))
  unfold gaussStiffContribution
  split_ifs <;> first | rfl | exact (hs _ _).1 | exact (hs _ 0).2 | exact ((hs _ 0).2).symm | omega

/-! ## Patch test -/

/-- **Patch test, inner forces.** For the dilation `u = A r` (any axial strain), a linear law whose
radial and hoop responses coincide on such states (isotropic laws do), a Gauss rule exact to the degree
of the element, every mesh and every element order: the assembled residual is the external loading plus
`2π σ (Re δ_{j,last} - Ri δ_{j,0})` on the nodes and `π z (Re² - Ri²)` on the axial unknown, where
`σ = σ_rr = σ_θθ` and `z = σ_zz` are the uniform stresses. -/
theorem patch_test_inner_forces (p : ℕ) (hp : p = 1 ∨ p = 2 ∨ p = 3) (π : K) (G : Gauss K)
    (hG : ExactTo p G p) (m : Mesh K) (hne : m.ne ≠ 0) (hR : m.Re ≠ m.Ri) (D : Stiff K)
    (hD : D.d00 + D.d02 = D.d20 + D.d22 ∧ D.d01 = D.d21) (A ezz : K) (u : ℕ → K)
    (hu : Dilation p m A ezz u) (hr : ∀ i g, i < m.ne → g ≤ p → gaussRadius p G m i g ≠ 0)
    (σ z : K) (hσ : σ = (D.d00 + D.d02) * A + D.d01 * ezz) (hz : z = (D.d10 + D.d12) * A + D.d11 * ezz)
    (L : Load K) (j : ℕ) :
    resid nc p π G m D L u j =
      ext nc p π m L j +
        (2 * π * σ * ((if j = p * m.ne then m.Re else 0) - (if j = 0 then m.Ri else 0)) +
          (if j = p * m.ne + 1 then π * z * (m.Re ^ 2 - m.Ri ^ 2) else 0)) := by
  have hh : m.dr nc ≠ 0 := by
    show (m.Re - m.Ri) / ((m.ne : ℕ) : K) ≠ 0
    exact div_ne_zero (sub_ne_zero.mpr hR) (Nat.cast_ne_zero.mpr hne)
  rw [resid_eq_sum]
  congr 1
  have e1 : ∀ i, i < m.ne →
      sumRange (fun g => gaussContribution p π G m (stress nc p G m D u i g) j i g) (p + 1) =
        2 * π * σ * ((if j = p * i + p then m.x0 i + m.h else 0) - (if j = p * i then m.x0 i else 0)) +
          (if j = nnodes p m then π * z * ((m.x0 i + m.h) ^ 2 - m.x0 i ^ 2) else 0) := by
    intro i hi
    have e0 : ∀ g, g < p + 1 → gaussContribution p π G m (stress nc p G m D u i g) j i g =
        gaussContribution p π G m ⟨σ, z, σ⟩ j i g := by
      intro g hg
      rw [stress_dilation p hp G m D hD A ezz u hu hh i g hi (hr i g hi (Nat.lt_succ_iff.mp hg)), ← hσ, ← hz]
    rw [sumRange_congr _ _ (p + 1) e0]
    exact element_sum p hp π G hG m hh σ z j i
  rw [sumRange_congr _ _ m.ne e1, telescope, node0_zero, node0_ne m hne]
  rfl

/-- **Patch test.** With the pressures in equilibrium with the uniform stress (`Pi = Pe = -σ`) and the
axial stress in equilibrium with the axial loading (`σ_zz = σ` with the end cap effect, `σ_zz = 0`
without axial force), the residual of the dilation field vanishes identically: every entry, every mesh,
every element order. -/
theorem patch_test (p : ℕ) (hp : p = 1 ∨ p = 2 ∨ p = 3) (π : K) (G : Gauss K)
    (hG : ExactTo p G p) (m : Mesh K) (hne : m.ne ≠ 0) (hR : m.Re ≠ m.Ri) (D : Stiff K)
    (hD : D.d00 + D.d02 = D.d20 + D.d22 ∧ D.d01 = D.d21) (A ezz : K) (u : ℕ → K)
    (hu : Dilation p m A ezz u) (hr : ∀ i g, i < m.ne → g ≤ p → gaussRadius p G m i g ≠ 0)
    (σ z : K) (hσ : σ = (D.d00 + D.d02) * A + D.d01 * ezz) (hz : z = (D.d10 + D.d12) * A + D.d11 * ezz)
    (L : Load K) (hPi : L.Pi = -σ) (hPe : L.Pe = -σ) (hz1 : L.endcap = true → z = σ)
    (hz0 : L.endcap = false → z = 0) (j : ℕ) :
    resid nc p π G m D L u j = 0 := by
  rw [patch_test_inner_forces p hp π G hG m hne hR D hD A ezz u hu hr σ z hσ hz L j]
  have hp0 : p ≠ 0 := by rcases hp with rfl | rfl | rfl <;> decide
  have hpn : p * m.ne ≠ 0 := Nat.mul_ne_zero hp0 hne
  cases hE : L.endcap
  · rw [hz0 hE]
    simp only [ext, nnodes, Nat.add_sub_cancel, nc, hPi, hPe, hE, and_false, Bool.false_eq_true, if_false]
    push_cast
    split_ifs <;> first | contradiction | omega | ring
  · rw [hz1 hE]
    simp only [ext, nnodes, Nat.add_sub_cancel, nc, hPi, hPe, hE, and_true, if_true]
    push_cast
    split_ifs <;> first | contradiction | omega | ring


end TfelVerif.C53
