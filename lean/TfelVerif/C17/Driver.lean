/- line-protocol driver of the C17 index-map model: one request per line, one answer per line.
   policy syntax (prefix): S | V n s | M n m s | X stride <pol> <pol>
   requests:  idx <pol> ; i j ..   min <pol>   size <pol>   contig <pol>   arity <pol>   wf <pol>
              varr <stride> <pol> ; i l..      sco <stride> <pol> ; l..
              row m i j ; k     col m i j ; k     sub m i j ; r c -/
import TfelVerif.C17.Model
open TfelVerif.C17

partial def parsePol : List String → Option (Pol × List String)
  | "S" :: r => some (.scalar, r)
  | "V" :: n :: s :: r => do some (.vec (← n.toNat?) (← s.toNat?), r)
  | "M" :: n :: m :: s :: r => do some (.mat (← n.toNat?) (← m.toNat?) (← s.toNat?), r)
  | "X" :: st :: r => do
      let st ← st.toNat?
      let (p1, r1) ← parsePol r
      let (p2, r2) ← parsePol r1
      some (.prod p1 p2 st, r2)
  | _ => none

def nats (l : List String) : Option (List Nat) := l.mapM (·.toNat?)

def pol1 (l : List String) : Option Pol :=
  match parsePol l with
  | some (p, []) => some p
  | _ => none

def answer (line : String) : String :=
  let toks := (line.trimAscii.toString.splitOn " ").filter (· ≠ "")
  let (head, tail) := toks.span (· ≠ ";")
  let args := tail.drop 1
  let r : Option String :=
    match head with
    | "idx" :: p => do
        let p ← pol1 p
        let l ← nats args
        if l.length ≠ p.arity then none
        some (toString (p.index l))
    | "min" :: p => (pol1 p).map fun p => toString p.minSize
    | "size" :: p => (pol1 p).map fun p => toString p.size
    | "arity" :: p => (pol1 p).map fun p => toString p.arity
    | "wf" :: p => (pol1 p).map fun p => if p.wfb then "1" else "0"
    | "contig" :: p => (pol1 p).map fun p => if p.contiguous then "1" else "0"
    | "varr" :: st :: p => do
        let st ← st.toNat?
        let p ← pol1 p
        match ← nats args with
        | i :: l => if l.length ≠ p.arity then none else some (toString (viewsArrayCell 0 st p i l))
        | [] => none
    | "sco" :: st :: p => do
        let st ← st.toNat?
        let p ← pol1 p
        let l ← nats args
        if l.length ≠ p.arity then none
        some (toString (stridedCoalescedCell 0 st p l))
    | ["row", m, i, j] => do
        let [k] ← nats args | none
        some (toString (rowViewCell (← m.toNat?) (← i.toNat?) (← j.toNat?) k))
    | ["col", m, i, j] => do
        let [k] ← nats args | none
        some (toString (colViewCell (← m.toNat?) (← i.toNat?) (← j.toNat?) k))
    | ["sub", m, i, j] => do
        let [r, c] ← nats args | none
        some (toString (subViewCell (← m.toNat?) (← i.toNat?) (← j.toNat?) r c))
    | _ => none
  r.getD "bad-op"

partial def loop (h : IO.FS.Stream) : IO Unit := do
  let line ← h.getLine
  if line.isEmpty then return ()
  IO.println (answer line)
  loop h

def main : IO Unit := do loop (← IO.getStdin)
