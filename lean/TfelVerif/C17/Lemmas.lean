/-
  C17 — helper definitions and lemmas for the index-map theorems (Props.lean).
-/
import TfelVerif.C17.Model
import Mathlib.Data.List.Forall2

namespace TfelVerif.C17
namespace Pol

/-- well-formed policies: what the C++ `static_assert`s are meant to guarantee (positive extents,
`Stride >= M` for matrices, `Stride >= getUnderlyingArrayMinimalSize<P2>()` for products) -/
def WF : Pol → Prop
  | scalar => True
  | vec n s => 1 ≤ n ∧ 1 ≤ s
  | mat n m s => 1 ≤ n ∧ 1 ≤ m ∧ m ≤ s
  | prod p1 p2 st => p1.WF ∧ p2.WF ∧ p2.minSize ≤ st

theorem wfb_iff (p : Pol) : p.wfb = true ↔ p.WF := by
  induction p with
  | scalar => simp [wfb, WF]
  | vec n s => simp [wfb, WF]
  | mat n m s => simp [wfb, WF, and_assoc]
  | prod p1 p2 st ih1 ih2 => simp [wfb, WF, ih1, ih2, and_assoc]

/-- the index domain, by recursion on the policy (an index tuple of a product is the concatenation of an index
tuple of each factor); `inDom_iff` shows it is "every index below the extent of its dimension" -/
def InDom : Pol → List Nat → Prop
  | scalar, l => l = []
  | vec n _, l => ∃ i, l = [i] ∧ i < n
  | mat n m _, l => ∃ i j, l = [i, j] ∧ i < n ∧ j < m
  | prod p1 p2 _, l => ∃ l1 l2, l = l1 ++ l2 ∧ p1.InDom l1 ∧ p2.InDom l2

theorem dims_length (p : Pol) : p.dims.length = p.arity := by
  induction p with
  | scalar => rfl
  | vec => rfl
  | mat => rfl
  | prod p1 p2 st ih1 ih2 => simp [dims, arity, ih1, ih2]

theorem InDom.length {p : Pol} {l : List Nat} (h : p.InDom l) : l.length = p.arity := by
  induction p generalizing l with
  | scalar => simp [InDom] at h; simp [h, arity]
  | vec n s => obtain ⟨i, rfl, _⟩ := h; rfl
  | mat n m s => obtain ⟨i, j, rfl, _⟩ := h; rfl
  | prod p1 p2 st ih1 ih2 =>
    obtain ⟨l1, l2, rfl, h1, h2⟩ := h
    simp [arity, ih1 h1, ih2 h2]

theorem inDom_iff (p : Pol) (l : List Nat) : p.InDom l ↔ List.Forall₂ (· < ·) l p.dims := by
  induction p generalizing l with
  | scalar => simp [InDom, dims]
  | vec n s =>
    constructor
    · rintro ⟨i, rfl, hi⟩; exact List.Forall₂.cons hi List.Forall₂.nil
    · intro h
      cases h with
      | cons hi ht => cases ht; exact ⟨_, rfl, hi⟩
  | mat n m s =>
    constructor
    · rintro ⟨i, j, rfl, hi, hj⟩
      exact List.Forall₂.cons hi (List.Forall₂.cons hj List.Forall₂.nil)
    · intro h
      cases h with
      | cons hi ht =>
        cases ht with
        | cons hj ht2 => cases ht2; exact ⟨_, _, rfl, hi, hj⟩
  | prod p1 p2 st ih1 ih2 =>
    constructor
    · rintro ⟨l1, l2, rfl, h1, h2⟩
      exact List.rel_append ((ih1 l1).1 h1) ((ih2 l2).1 h2)
    · intro h
      refine ⟨l.take p1.dims.length, l.drop p1.dims.length, (List.take_append_drop _ _).symm, ?_, ?_⟩
      · have := List.forall₂_take p1.dims.length h
        simp only [dims, List.take_left'] at this
        exact (ih1 _).2 this
      · have := List.forall₂_drop p1.dims.length h
        simp only [dims, List.drop_left'] at this
        exact (ih2 _).2 this

/-- policies without index: one cell -/
theorem minSize_of_arity_zero {p : Pol} (ha : p.arity = 0) : p.minSize = 1 := by
  induction p with
  | scalar => rfl
  | vec => simp [arity] at ha
  | mat => simp [arity] at ha
  | prod p1 p2 st ih1 ih2 =>
    simp only [arity, Nat.add_eq_zero_iff] at ha
    simp [minSize, ha.1, ih2 ha.2]

theorem index_of_arity_zero {p : Pol} (ha : p.arity = 0) (l : List Nat) : p.index l = 0 := by
  induction p generalizing l with
  | scalar => rfl
  | vec => simp [arity] at ha
  | mat => simp [arity] at ha
  | prod p1 p2 st ih1 ih2 =>
    simp only [arity, Nat.add_eq_zero_iff] at ha
    simp [index, ha.1, ih2 ha.2]

theorem nil_of_arity_zero {p : Pol} {l : List Nat} (h : p.InDom l) (ha : p.arity = 0) : l = [] := by
  have := h.length
  rw [ha] at this
  exact List.length_eq_zero_iff.mp this

theorem index_prod_def (p1 p2 : Pol) (st : Nat) (l : List Nat) :
    (prod p1 p2 st).index l =
      if p1.arity = 0 then p2.index l
      else if p2.arity = 0 then p1.index l * st
      else p1.index (l.take p1.arity) * st + p2.index (l.drop p1.arity) := by
  conv_lhs => rw [index]

theorem minSize_prod_def (p1 p2 : Pol) (st : Nat) :
    (prod p1 p2 st).minSize =
      if p1.arity = 0 then p2.minSize
      else if p2.arity = 0 then (p1.minSize - 1) * st + 1
      else (p1.minSize - 1) * st + p2.minSize := by
  conv_lhs => rw [minSize]

/-- the uniform reading of the product formulas: `index = i1 * stride + i2`, whatever the arities -/
theorem index_prod (p1 p2 : Pol) (st : Nat) {l1 l2 : List Nat} (h1 : p1.InDom l1) (h2 : p2.InDom l2) :
    (prod p1 p2 st).index (l1 ++ l2) = p1.index l1 * st + p2.index l2 := by
  rw [index_prod_def]
  by_cases ha1 : p1.arity = 0
  · have : l1 = [] := nil_of_arity_zero h1 ha1
    subst this
    simp [ha1, index_of_arity_zero ha1]
  · by_cases ha2 : p2.arity = 0
    · have : l2 = [] := nil_of_arity_zero h2 ha2
      subst this
      simp [ha1, ha2, index_of_arity_zero ha2]
    · have hl : l1.length = p1.arity := h1.length
      rw [if_neg ha1, if_neg ha2, ← hl]
      simp

/-- the uniform reading of the minimal size of a product -/
theorem minSize_prod (p1 p2 : Pol) (st : Nat) :
    (prod p1 p2 st).minSize = (p1.minSize - 1) * st + p2.minSize := by
  rw [minSize_prod_def]
  by_cases ha1 : p1.arity = 0
  · simp [ha1, minSize_of_arity_zero ha1]
  · by_cases ha2 : p2.arity = 0
    · simp [ha1, ha2, minSize_of_arity_zero ha2]
    · simp [ha1, ha2]

theorem minSize_vec (n s : Nat) (hn : 1 ≤ n) : (vec n s).minSize = (n - 1) * s + 1 := by
  unfold minSize
  split
  · next h => subst h; omega
  · rfl

theorem index_vec (n s i : Nat) : (vec n s).index [i] = i * s := by
  unfold index
  split
  · next h => subst h; omega
  · rfl

theorem minSize_mat (n m s : Nat) (hn : 1 ≤ n) : (mat n m s).minSize = (n - 1) * s + m := by
  unfold minSize
  split
  · next h =>
    subst h
    obtain ⟨k, rfl⟩ : ∃ k, n = k + 1 := ⟨n - 1, by omega⟩
    simp [Nat.succ_mul]
  · rfl

/-- lexicographic packing: `a * st + b` with `b < st` determines `a` and `b` -/
theorem pack_inj {a b a' b' st : Nat} (hb : b < st) (hb' : b' < st) (h : a * st + b = a' * st + b') :
    a = a' ∧ b = b' := by
  have hst : 0 < st := by omega
  have h1 : (a * st + b) / st = a := by
    rw [Nat.add_comm, Nat.add_mul_div_right _ _ hst, Nat.div_eq_of_lt hb, Nat.zero_add]
  have h2 : (a' * st + b') / st = a' := by
    rw [Nat.add_comm, Nat.add_mul_div_right _ _ hst, Nat.div_eq_of_lt hb', Nat.zero_add]
  have ha : a = a' := by rw [← h1, ← h2, h]
  subst ha
  exact ⟨rfl, by omega⟩

theorem pack_lt {a b A B st : Nat} (ha : a < A) (hb : b < B) : a * st + b < (A - 1) * st + B := by
  have : a * st ≤ (A - 1) * st := Nat.mul_le_mul_right st (by omega)
  omega

end Pol
end TfelVerif.C17
