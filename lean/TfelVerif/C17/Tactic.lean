/-
  C17 (b) — the tactic closing the generated per-program obligations (GenP*.lean):
  `Gen.prog_k_all inputs = [eager value of every storage cell]`.
  Unfold the traced let-chains, split the list equality into one goal per cell, close each by `ring`
  (commutative-ring normalisation in the field `K`; division by a scalar is multiplication by its inverse,
  no side condition is needed because lazy and eager code divide by the same scalars).
-/
import Mathlib.Tactic.Ring
import TfelVerif.Common.Sym

namespace TfelVerif.C17

macro "c17_eager" : tactic =>
  `(tactic| (
      simp only [gen_simp, List.cons.injEq, and_true, true_and]
      first
        | done
        | (repeat' apply And.intro
           all_goals (first | rfl | trivial | ring1))))

end TfelVerif.C17
