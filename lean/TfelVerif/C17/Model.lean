/-
  C17 — executable model of the TFEL indexing policies and of the cell maps of views
  (include/TFEL/Math/Array/FixedSizeIndexingPolicies.hxx, RuntimeIndexingPolicies.hxx, View.hxx,
  ViewsArray.hxx, CoalescedView.hxx, StridedCoalescedView.hxx, Matrix/tmatrix.ixx row/column/submatrix views).

  Core Lean only (the driver links it). The same definitions are the object of the theorems in Props.lean.

  A policy is a term of `Pol`:
    scalar                      ScalarIndexingPolicy
    vec n s                     FixedSizeVectorIndexingPolicy<_, n, s>   (RuntimeVectorIndexingPolicy(n) = vec n 1)
    mat n m s                   FixedSizeRowMajorMatrixIndexingPolicy<_, n, m, s>
                                (RuntimeRowMajorMatrixIndexingPolicy(r, c) = mat r c c)
    prod p1 p2 st               FixedSizeIndexingPoliciesCartesianProduct<p1, p2, st>
  `index` follows the case analysis of the C++ `getIndex` overloads (arity of the first / second policy equal to
  zero), `minSize` follows `getUnderlyingArrayMinimalSize`; for the row-major matrix policy with a non default stride the
  model has the value required by the property, `(n-1)*s + m` (see Props.lean and the correspondence in
  checks/C17.py, which reports a library that returns anything else).
-/
namespace TfelVerif.C17

inductive Pol where
  | scalar : Pol
  | vec (n s : Nat) : Pol
  | mat (n m s : Nat) : Pol
  | prod (p1 p2 : Pol) (stride : Nat) : Pol
  deriving Repr, Inhabited

namespace Pol

/-- number of indices -/
def arity : Pol → Nat
  | scalar => 0
  | vec _ _ => 1
  | mat _ _ _ => 2
  | prod p1 p2 _ => p1.arity + p2.arity

/-- logical extent of every dimension (`size(i)`) -/
def dims : Pol → List Nat
  | scalar => []
  | vec n _ => [n]
  | mat n m _ => [n, m]
  | prod p1 p2 _ => p1.dims ++ p2.dims

/-- logical size (`size()`) -/
def size : Pol → Nat
  | scalar => 1
  | vec n _ => n
  | mat n m _ => n * m
  | prod p1 p2 _ => p1.size * p2.size

/-- `getUnderlyingArrayMinimalSize` -/
def minSize : Pol → Nat
  | scalar => 1
  | vec n s => if s = 1 then n else (n - 1) * s + 1
  | mat n m s => if s = m then n * m else (n - 1) * s + m
  | prod p1 p2 st =>
    if p1.arity = 0 then p2.minSize
    else if p2.arity = 0 then (p1.minSize - 1) * st + 1
    else (p1.minSize - 1) * st + p2.minSize

/-- `getIndex(i...)`; the list carries `arity` indices (anything else: 0) -/
def index : Pol → List Nat → Nat
  | scalar, _ => 0
  | vec _ s, [i] => if s = 1 then i else i * s
  | vec _ _, _ => 0
  | mat _ _ s, [i, j] => i * s + j
  | mat _ _ _, _ => 0
  | prod p1 p2 st, l =>
    if p1.arity = 0 then p2.index l
    else if p2.arity = 0 then p1.index l * st
    else p1.index (l.take p1.arity) * st + p2.index (l.drop p1.arity)

/-- `areDataContiguous` -/
def contiguous : Pol → Bool
  | scalar => true
  | vec _ s => s == 1
  | mat _ m s => s == m
  | prod p1 p2 st => st == p2.minSize && p1.contiguous && p2.contiguous

/-- executable form of the well-formedness predicate `Pol.WF` of Lemmas.lean (`wfb_iff`): positive extents,
`Stride >= M` for matrices, `Stride >= getUnderlyingArrayMinimalSize<P2>()` for products -/
def wfb : Pol → Bool
  | scalar => true
  | vec n s => decide (1 ≤ n) && decide (1 ≤ s)
  | mat n m s => decide (1 ≤ n) && decide (1 ≤ m) && decide (m ≤ s)
  | prod p1 p2 st => p1.wfb && p2.wfb && decide (p2.minSize ≤ st)

end Pol

/-! ## cell maps of views (offsets in scalar cells from the pointer the view was built on) -/

/-- `View<T, p>` built on `base`: cell of logical index `l` -/
def viewCell (base : Nat) (p : Pol) (l : List Nat) : Nat := base + p.index l

/-- `ViewsArray<T, FixedSizeVectorIndexingPolicy<_, N, stride>, pv>` built on `base`:
cell `l` of the `i`-th mapped object -/
def viewsArrayCell (base stride : Nat) (pv : Pol) (i : Nat) (l : List Nat) : Nat :=
  base + i * stride + pv.index l

/-- `StridedCoalescedView<T, p>` built on `(base, stride)`: `ptr[getIndex(l) * stride]` -/
def stridedCoalescedCell (base stride : Nat) (p : Pol) (l : List Nat) : Nat :=
  base + p.index l * stride

/-- `CoalescedView<T, p>` built on the pointer table `ptrs`: `*ptrs[getIndex(l)]` -/
def coalescedCell (ptrs : List Nat) (p : Pol) (l : List Nat) : Nat :=
  ptrs.getD (p.index l) 0

/-- storage of `tmatrix<N, M>` -/
def tmat (n m : Nat) : Pol := .mat n m m

/-- `tmatrix<N,M>::row_view<I, J, K>()` (`row_view<I>()` is `J = 0, K = M`): cell `k` -/
def rowViewCell (m i j k : Nat) : Nat := viewCell (i * m + j) (.vec 0 1) [k]
/-- `tmatrix<N,M>::column_view<I, J, K>()` (`column_view<I>()` is `J = 0, K = N`): cell `k` -/
def colViewCell (m i j k : Nat) : Nat := viewCell (j * m + i) (.vec 0 m) [k]
/-- `tmatrix<N,M>::submatrix_view<I, J, R, C>()`: cell `(r, c)` -/
def subViewCell (m i j r c : Nat) : Nat := viewCell (i * m + j) (.mat 0 0 m) [r, c]

end TfelVerif.C17
