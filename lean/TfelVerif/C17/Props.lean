/-
  C17 (a) — the index maps of the indexing policies and views address exactly the intended storage cells.

  Property theorems only. `Pol` (Model.lean) is the executable model of the TFEL indexing policies
  (scalar, fixed-size/runtime vector with stride, row-major matrix with stride, cartesian products nested at will);
  it is tied to the real classes on every run by the exhaustive enumeration of harness/C17/indices.cxx
  (every index tuple of 500+ instantiated policies and views, integers, exact).

  All theorems hold for every policy term (structural induction: every nesting depth, every size, stride, offset).
  `WF` = the constraints the C++ `static_assert`s are meant to impose; `InDom p l` = `l` is an index tuple of `p`
  (`inDom_iff`: every index is below the extent of its dimension).

  Model vs code: the model's `minSize` of a row-major matrix policy with a non default stride is `(N-1)*Stride+M`,
  the only value for which the theorems below hold. When this check was written the shipped
  `FixedSizeRowMajorMatrixIndexingPolicy::getUnderlyingArrayMinimalSize` returned `(N-1)*Stride+N`
  (`code_formula_not_in_range`); the correspondence of checks/C17.py evaluates "in range / injective / tight / both
  getIndex overloads agree" on the implementation's own answers and reports any difference with a failing input.
-/
import TfelVerif.C17.Lemmas

namespace TfelVerif.C17.Props
open TfelVerif.C17 TfelVerif.C17.Pol

/-- the index domain is what it should be: one index per dimension, each below the extent -/
theorem inDom_iff (p : Pol) (l : List Nat) : p.InDom l ↔ List.Forall₂ (· < ·) l p.dims :=
  Pol.inDom_iff p l

/-- **in range**: every index tuple is mapped below the minimal size of the underlying array -/
theorem index_lt_minSize {p : Pol} (hp : p.WF) {l : List Nat} (hl : p.InDom l) :
    p.index l < p.minSize := by
  induction p generalizing l with
  | scalar => simp [index, minSize]
  | vec n s =>
    obtain ⟨i, rfl, hi⟩ := hl
    rw [index_vec, minSize_vec n s hp.1]
    have : i * s ≤ (n - 1) * s := Nat.mul_le_mul_right s (by omega)
    omega
  | mat n m s =>
    obtain ⟨i, j, rfl, hi, hj⟩ := hl
    rw [minSize_mat n m s hp.1]
    show i * s + j < _
    exact pack_lt hi hj
  | prod p1 p2 st ih1 ih2 =>
    obtain ⟨l1, l2, rfl, h1, h2⟩ := hl
    rw [index_prod p1 p2 st h1 h2, minSize_prod]
    exact pack_lt (ih1 hp.1 h1) (ih2 hp.2.1 h2)

/-- **injective**: two distinct index tuples never share a storage cell -/
theorem index_injective {p : Pol} (hp : p.WF) {l l' : List Nat} (hl : p.InDom l) (hl' : p.InDom l')
    (h : p.index l = p.index l') : l = l' := by
  induction p generalizing l l' with
  | scalar => simp [InDom] at hl hl'; rw [hl, hl']
  | vec n s =>
    obtain ⟨i, rfl, hi⟩ := hl
    obtain ⟨i', rfl, hi'⟩ := hl'
    rw [index_vec, index_vec] at h
    have : i = i' := Nat.eq_of_mul_eq_mul_right (show 0 < s from hp.2) h
    rw [this]
  | mat n m s =>
    obtain ⟨i, j, rfl, hi, hj⟩ := hl
    obtain ⟨i', j', rfl, hi', hj'⟩ := hl'
    have h' : i * s + j = i' * s + j' := h
    obtain ⟨rfl, rfl⟩ := pack_inj (Nat.lt_of_lt_of_le hj hp.2.2) (Nat.lt_of_lt_of_le hj' hp.2.2) h'
    rfl
  | prod p1 p2 st ih1 ih2 =>
    obtain ⟨l1, l2, rfl, h1, h2⟩ := hl
    obtain ⟨l1', l2', rfl, h1', h2'⟩ := hl'
    rw [index_prod p1 p2 st h1 h2, index_prod p1 p2 st h1' h2'] at h
    have b := index_lt_minSize hp.2.1 h2
    have b' := index_lt_minSize hp.2.1 h2'
    obtain ⟨e1, e2⟩ := pack_inj (Nat.lt_of_lt_of_le b hp.2.2) (Nat.lt_of_lt_of_le b' hp.2.2) h
    rw [ih1 hp.1 h1 h1' e1, ih2 hp.2.1 h2 h2' e2]

/-- **exactly**: the minimal size is attained (the last cell is addressed), so `minSize` is the least bound -/
theorem minSize_attained {p : Pol} (hp : p.WF) : ∃ l, p.InDom l ∧ p.index l + 1 = p.minSize := by
  induction p with
  | scalar => exact ⟨[], rfl, rfl⟩
  | vec n s =>
    refine ⟨[n - 1], ⟨n - 1, rfl, by have := hp.1; omega⟩, ?_⟩
    rw [index_vec, minSize_vec n s hp.1]
  | mat n m s =>
    refine ⟨[n - 1, m - 1], ⟨n - 1, m - 1, rfl, by have := hp.1; omega, by have := hp.2.1; omega⟩, ?_⟩
    rw [minSize_mat n m s hp.1]
    show (n - 1) * s + (m - 1) + 1 = _
    have := hp.2.1
    omega
  | prod p1 p2 st ih1 ih2 =>
    obtain ⟨l1, h1, e1⟩ := ih1 hp.1
    obtain ⟨l2, h2, e2⟩ := ih2 hp.2.1
    refine ⟨l1 ++ l2, ⟨l1, l2, rfl, h1, h2⟩, ?_⟩
    rw [index_prod p1 p2 st h1 h2, minSize_prod, ← e1, ← e2]
    simp only [Nat.add_sub_cancel]
    omega

/-- contiguous policies (`areDataContiguous`) use exactly `size()` cells: no gap -/
theorem minSize_eq_size_of_contiguous {p : Pol} (hp : p.WF) (hc : p.contiguous = true) :
    p.minSize = p.size := by
  induction p with
  | scalar => rfl
  | vec n s =>
    simp only [contiguous, beq_iff_eq] at hc
    subst hc
    simp [minSize, size]
  | mat n m s =>
    simp only [contiguous, beq_iff_eq] at hc
    subst hc
    simp [minSize, size]
  | prod p1 p2 st ih1 ih2 =>
    simp only [contiguous, Bool.and_eq_true, beq_iff_eq] at hc
    obtain ⟨⟨hst, c1⟩, c2⟩ := hc
    rw [minSize_prod, ih1 hp.1 c1, hst, ih2 hp.2.1 c2]
    have h1 : 1 ≤ p1.size := by
      rw [← ih1 hp.1 c1]
      have := index_lt_minSize hp.1 (minSize_attained hp.1).choose_spec.1
      omega
    show (p1.size - 1) * p2.size + p2.size = p1.size * p2.size
    obtain ⟨k, hk⟩ : ∃ k, p1.size = k + 1 := ⟨p1.size - 1, by omega⟩
    rw [hk, Nat.add_sub_cancel, Nat.succ_mul]

/-! ## views -/

/-- a `View` built on `base` addresses exactly cells of `[base, base + minSize)`, injectively -/
theorem viewCell_range {p : Pol} (hp : p.WF) {l : List Nat} (hl : p.InDom l) (base : Nat) :
    base ≤ viewCell base p l ∧ viewCell base p l < base + p.minSize := by
  have := index_lt_minSize hp hl
  unfold viewCell
  omega

theorem viewCell_injective {p : Pol} (hp : p.WF) {l l' : List Nat} (hl : p.InDom l) (hl' : p.InDom l')
    (base : Nat) (h : viewCell base p l = viewCell base p l') : l = l' :=
  index_injective hp hl hl' (by unfold viewCell at h; omega)

/-- distinct sub-objects of a views-array are disjoint (stride at least the minimal size of the mapped object,
as `ViewsFixedSizeVectorIndexingPolicy` asserts) -/
theorem viewsArray_disjoint {pv : Pol} (hp : pv.WF) {stride : Nat} (hs : pv.minSize ≤ stride)
    {l l' : List Nat} (hl : pv.InDom l) (hl' : pv.InDom l') (base i i' : Nat) (hi : i ≠ i') :
    viewsArrayCell base stride pv i l ≠ viewsArrayCell base stride pv i' l' := by
  intro h
  have b := index_lt_minSize hp hl
  have b' := index_lt_minSize hp hl'
  unfold viewsArrayCell at h
  have h' : i * stride + pv.index l = i' * stride + pv.index l' := by omega
  exact hi (pack_inj (Nat.lt_of_lt_of_le b hs) (Nat.lt_of_lt_of_le b' hs) h').1

/-- the `i`-th object of a views-array of `n` objects lies inside `[base, base + (n-1)*stride + minSize)` -/
theorem viewsArray_range {pv : Pol} (hp : pv.WF) {stride : Nat} {l : List Nat} (hl : pv.InDom l)
    (base n i : Nat) (hi : i < n) :
    base ≤ viewsArrayCell base stride pv i l ∧
      viewsArrayCell base stride pv i l < base + ((n - 1) * stride + pv.minSize) := by
  have := pack_lt (st := stride) hi (index_lt_minSize hp hl)
  unfold viewsArrayCell
  omega

/-- row views of `tmatrix<N,M>`: `row_view<I,J,K>()[k]` is the matrix cell `(I, J+k)` -/
theorem rowView_cell (n m i j k : Nat) : rowViewCell m i j k = (tmat n m).index [i, j + k] := by
  simp [rowViewCell, viewCell, tmat, index]; omega

/-- column views: `column_view<I,J,K>()[k]` is the matrix cell `(J+k, I)` -/
theorem colView_cell (n m i j k : Nat) : colViewCell m i j k = (tmat n m).index [j + k, i] := by
  have h : (vec 0 m).index [k] = k * m := index_vec 0 m k
  simp only [colViewCell, viewCell, h, tmat]
  show j * m + i + k * m = (j + k) * m + i
  rw [Nat.add_mul]; omega

/-- sub-matrix views: `submatrix_view<I,J,R,C>()(r,c)` is the matrix cell `(I+r, J+c)` -/
theorem subView_cell (n m i j r c : Nat) : subViewCell m i j r c = (tmat n m).index [i + r, j + c] := by
  simp only [subViewCell, viewCell, tmat]
  show i * m + j + (r * m + c) = (i + r) * m + (j + c)
  rw [Nat.add_mul]; omega

/-- two different rows never share a cell; a row and a column share exactly the crossing cell -/
theorem rowViews_disjoint (n m i i' k k' : Nat) (hm : 1 ≤ m) (hi : i < n) (hi' : i' < n) (hk : k < m)
    (hk' : k' < m) (hne : i ≠ i') : rowViewCell m i 0 k ≠ rowViewCell m i' 0 k' := by
  rw [rowView_cell n, rowView_cell n]
  intro h
  have := index_injective (p := tmat n m) ⟨by omega, hm, Nat.le_refl m⟩
    ⟨i, 0 + k, rfl, hi, by omega⟩ ⟨i', 0 + k', rfl, hi', by omega⟩ h
  simp at this
  exact hne this.1

theorem row_col_meet (n m i j k k' : Nat) (hm : 1 ≤ m) (hi : i < n) (hj : j < m) (hk : k < m) (hk' : k' < n) :
    rowViewCell m i 0 k = colViewCell m j 0 k' ↔ (k = j ∧ k' = i) := by
  rw [rowView_cell n, colView_cell n]
  constructor
  · intro h
    have := index_injective (p := tmat n m) ⟨by omega, hm, Nat.le_refl m⟩
      ⟨i, 0 + k, rfl, hi, by omega⟩ ⟨0 + k', j, rfl, by omega, hj⟩ h
    simp at this
    exact ⟨this.2, this.1.symm⟩
  · rintro ⟨rfl, rfl⟩; simp

/-- strided coalesced views in a structure-of-arrays layout (`stride` objects interleaved, object `o` built on
`base + o`): distinct objects are disjoint, and each view is injective -/
theorem stridedCoalesced_disjoint (p : Pol) (base stride o o' : Nat) (l l' : List Nat) (ho : o < stride)
    (ho' : o' < stride) (hne : o ≠ o') :
    stridedCoalescedCell (base + o) stride p l ≠ stridedCoalescedCell (base + o') stride p l' := by
  intro h
  unfold stridedCoalescedCell at h
  have h' : p.index l * stride + o = p.index l' * stride + o' := by omega
  exact hne (pack_inj ho ho' h').2

theorem stridedCoalesced_injective {p : Pol} (hp : p.WF) {l l' : List Nat} (hl : p.InDom l)
    (hl' : p.InDom l') (base stride : Nat) (hs : 1 ≤ stride)
    (h : stridedCoalescedCell base stride p l = stridedCoalescedCell base stride p l') : l = l' := by
  unfold stridedCoalescedCell at h
  exact index_injective hp hl hl' (Nat.eq_of_mul_eq_mul_right (show 0 < stride from hs) (by omega))

/-- a coalesced view over a contiguous policy reads its pointer table inside its bounds, each entry once -/
theorem coalesced_in_table {p : Pol} (hp : p.WF) (hc : p.contiguous = true) {l : List Nat} (hl : p.InDom l)
    (ptrs : List Nat) (hn : ptrs.length = p.size) :
    ∃ h : p.index l < ptrs.length, coalescedCell ptrs p l = ptrs[p.index l] := by
  have hlt : p.index l < ptrs.length := by
    rw [hn, ← minSize_eq_size_of_contiguous hp hc]; exact index_lt_minSize hp hl
  exact ⟨hlt, by simp [coalescedCell, List.getD, hlt]⟩

/-! ## non-vacuity, and the value returned by the shipped matrix policy -/

example : (prod (vec 3 2) (mat 2 3 4) 9).WF := by simp [WF, minSize]
example : (prod (vec 3 2) (mat 2 3 4) 9).InDom [2, 1, 2] := ⟨[2], [1, 2], rfl, ⟨2, rfl, by decide⟩, ⟨1, 2, rfl, by decide, by decide⟩⟩
example : (prod (vec 3 2) (mat 2 3 4) 9).index [2, 1, 2] = 42 := by decide
example : (prod (vec 3 2) (mat 2 3 4) 9).minSize = 43 := by decide

/-- the formula shipped in `FixedSizeRowMajorMatrixIndexingPolicy::getUnderlyingArrayMinimalSize`
(`(N-1)*Stride+N` for `Stride != M`) is not an upper bound of the index map: `N=2, M=3, Stride=4`, cell `(1,2)` -/
theorem code_formula_not_in_range : ¬ ((mat 2 3 4).index [1, 2] < (2 - 1) * 4 + 2) := by decide

end TfelVerif.C17.Props
