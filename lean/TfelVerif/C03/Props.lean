/-
  C03 — Symmetric eigen-solvers return a valid spectral decomposition.

  Property theorems only (exact arithmetic). `Gen.*` are regenerated on every run by instantiating the real
  solvers on the recording scalar (harness/C03/trace.cxx); `sqrt`, `cos`, `sin`, `atan2` are uninterpreted and the
  laws used about them are explicit hypotheses.

  (a) Jacobi (FSES `syevj3`): the update performed for the pair (p,q) — traced for the three pairs and both signs of
      theta, the other off-diagonal entries being arbitrary symbols — is the orthogonal similarity by the plane
      rotation `G_pq(c,s)`: `Q = G`, `A' = Gᵀ A G`, `c² + s² = 1` (`jacobi_*`). `Lemmas.inv_step/inv_steps/inv_exit`:
      the invariant `A₀ = V A_k Vᵀ ∧ VᵀV = 1` is preserved by any sequence of such steps (any number of sweeps) and on
      exit with a diagonal `A_k` gives `A₀ = V diag(w) Vᵀ`, `VᵀV = 1`, `A₀ V = V diag(w)` (`jacobi_decomposition`).
  (b) Householder tridiagonalisation (FSES `sytrd3`, first stage of `syevq3`/`syevd3`): `Q` is symmetric, orthogonal and
      `Qᵀ A Q` is the tridiagonal matrix `(d, e)` (`sytrd3_*`).
  (c) Cardano (FSES `syevc3`): the three returned values satisfy Vieta's relations of the characteristic polynomial
      (`syevc3_vieta`), hence are its roots (`syevc3_roots`), given `sqrt(|p|)² = p`, `cos² + sin² = 1` and the triple
      angle / atan2 law in the form `sqrt(p)³ (4 cos³φ − 3 cos φ) = q`.
  (d) eigenvector of the default solver (`stensor::computeEigenVector`, three branches): `(A − λ) v = 0` when
      `det(A − λ) = 0`, and `|v| = 1` (`eigvec_*`).

  PARTIAL. The property also asks for solver specific tolerances, finiteness of the outputs and convergence of the
  iterations: floating point facts outside exact arithmetic. They are not proved; the check measures them on the
  real code (residual report of every EigenSolver on degenerate/ill scaled spectra, violation above 1e-6 or on a
  non finite output). Not traced: the `is_negligible` shortcuts (`t = A_pq/h`), the QL sweeps, Cuppen's divide and
  conquer, the Gte and Harari solvers, the default solver's eigenvalues (CubicRoots, property C10).
-/
import TfelVerif.Common.M3
import TfelVerif.Common.Model
import TfelVerif.C03.Lemmas
import TfelVerif.C03.Gen
import Mathlib.Tactic.FieldSimp
import Mathlib.Tactic.LinearCombination

namespace TfelVerif.C03.Props
open TfelVerif TfelVerif.Mandel TfelVerif.C03
set_option linter.unusedVariables false
set_option linter.unusedSectionVars false
set_option linter.unusedSimpArgs false
set_option maxHeartbeats 1000000
set_option linter.unusedTactic false

variable {K : Type} [Field K] (c c3 : K) (fn : Fns K)

/-- split a conjunction of polynomial identities and close each -/
macro "c03_close" : tactic =>
  `(tactic| ((try (repeat' apply And.intro)); all_goals (first | trivial | rfl | ring1)))

/-! ## (a) one Jacobi rotation is an orthogonal similarity -/
/-- pair (0,1), theta ≥ 0 -/
theorem jacobi_01_pos (a00 a11 a22 a01 a02 a12 : K) (h2 : (2 : K) ≠ 0) (ha : a01 ≠ 0)
    (hr1 : Gen.jacobi_01_pos_r1 c c3 fn a00 a11 a22 a01 a02 a12 * Gen.jacobi_01_pos_r1 c c3 fn a00 a11 a22 a01 a02 a12 = 1 + Gen.jacobi_01_pos_th c c3 fn a00 a11 a22 a01 a02 a12 * Gen.jacobi_01_pos_th c c3 fn a00 a11 a22 a01 a02 a12)
    (hd : Gen.jacobi_01_pos_r1 c c3 fn a00 a11 a22 a01 a02 a12 + Gen.jacobi_01_pos_th c c3 fn a00 a11 a22 a01 a02 a12 ≠ 0)
    (hr2 : Gen.jacobi_01_pos_r2 c c3 fn a00 a11 a22 a01 a02 a12 * Gen.jacobi_01_pos_r2 c c3 fn a00 a11 a22 a01 a02 a12 = 1 + Gen.jacobi_01_pos_t c c3 fn a00 a11 a22 a01 a02 a12 * Gen.jacobi_01_pos_t c c3 fn a00 a11 a22 a01 a02 a12)
    (hr2n : Gen.jacobi_01_pos_r2 c c3 fn a00 a11 a22 a01 a02 a12 ≠ 0) :
    Gen.jacobi_01_pos_cc c c3 fn a00 a11 a22 a01 a02 a12 * Gen.jacobi_01_pos_cc c c3 fn a00 a11 a22 a01 a02 a12 + Gen.jacobi_01_pos_ss c c3 fn a00 a11 a22 a01 a02 a12 * Gen.jacobi_01_pos_ss c c3 fn a00 a11 a22 a01 a02 a12 = 1
    ∧ (⟨Gen.jacobi_01_pos_q0_0 c c3 fn a00 a11 a22 a01 a02 a12, Gen.jacobi_01_pos_q0_1 c c3 fn a00 a11 a22 a01 a02 a12, Gen.jacobi_01_pos_q0_2 c c3 fn a00 a11 a22 a01 a02 a12,
        Gen.jacobi_01_pos_q1_0 c c3 fn a00 a11 a22 a01 a02 a12, Gen.jacobi_01_pos_q1_1 c c3 fn a00 a11 a22 a01 a02 a12, Gen.jacobi_01_pos_q1_2 c c3 fn a00 a11 a22 a01 a02 a12,
        Gen.jacobi_01_pos_q2_0 c c3 fn a00 a11 a22 a01 a02 a12, Gen.jacobi_01_pos_q2_1 c c3 fn a00 a11 a22 a01 a02 a12, Gen.jacobi_01_pos_q2_2 c c3 fn a00 a11 a22 a01 a02 a12⟩ : M3 K)
      = G01 (Gen.jacobi_01_pos_cc c c3 fn a00 a11 a22 a01 a02 a12) (Gen.jacobi_01_pos_ss c c3 fn a00 a11 a22 a01 a02 a12)
    ∧ M3.sym (Gen.jacobi_01_pos_w0 c c3 fn a00 a11 a22 a01 a02 a12) (Gen.jacobi_01_pos_w1 c c3 fn a00 a11 a22 a01 a02 a12) (Gen.jacobi_01_pos_w2 c c3 fn a00 a11 a22 a01 a02 a12) (Gen.jacobi_01_pos_b01 c c3 fn a00 a11 a22 a01 a02 a12) (Gen.jacobi_01_pos_b02 c c3 fn a00 a11 a22 a01 a02 a12) (Gen.jacobi_01_pos_b12 c c3 fn a00 a11 a22 a01 a02 a12)
      = (G01 (Gen.jacobi_01_pos_cc c c3 fn a00 a11 a22 a01 a02 a12) (Gen.jacobi_01_pos_ss c c3 fn a00 a11 a22 a01 a02 a12)).transpose * M3.sym a00 a11 a22 a01 a02 a12 * G01 (Gen.jacobi_01_pos_cc c c3 fn a00 a11 a22 a01 a02 a12) (Gen.jacobi_01_pos_ss c c3 fn a00 a11 a22 a01 a02 a12) := by
  simp only [gen_simp] at hr1 hd hr2 hr2n
  obtain ⟨k1, k2⟩ := jacobi_params_pos (a := a01) (h := a11 - a00) ha hr1 hd h2 hr2 hr2n
  have k1' : Gen.jacobi_01_pos_cc c c3 fn a00 a11 a22 a01 a02 a12 * Gen.jacobi_01_pos_cc c c3 fn a00 a11 a22 a01 a02 a12 + Gen.jacobi_01_pos_ss c c3 fn a00 a11 a22 a01 a02 a12 * Gen.jacobi_01_pos_ss c c3 fn a00 a11 a22 a01 a02 a12 = 1 := by
    simp only [gen_simp]; exact k1
  have hs : Gen.jacobi_01_pos_ss c c3 fn a00 a11 a22 a01 a02 a12 = Gen.jacobi_01_pos_t c c3 fn a00 a11 a22 a01 a02 a12 * Gen.jacobi_01_pos_cc c c3 fn a00 a11 a22 a01 a02 a12 := by simp only [gen_simp]
  have k2' : a01 * Gen.jacobi_01_pos_t c c3 fn a00 a11 a22 a01 a02 a12 * Gen.jacobi_01_pos_t c c3 fn a00 a11 a22 a01 a02 a12 + (a11 - a00) * Gen.jacobi_01_pos_t c c3 fn a00 a11 a22 a01 a02 a12 - a01 = 0 := by
    simp only [gen_simp]; exact k2
  refine ⟨k1', ?_, ?_⟩
  · simp only [G01, gen_simp, M3.mk.injEq]
    c03_close
  · rw [rot01_similarity k1' hs k2']
    simp only [gen_simp, M3.sym, M3.mk.injEq]
    c03_close

/-- pair (0,1), theta < 0 -/
theorem jacobi_01_neg (a00 a11 a22 a01 a02 a12 : K) (h2 : (2 : K) ≠ 0) (ha : a01 ≠ 0)
    (hr1 : Gen.jacobi_01_neg_r1 c c3 fn a00 a11 a22 a01 a02 a12 * Gen.jacobi_01_neg_r1 c c3 fn a00 a11 a22 a01 a02 a12 = 1 + Gen.jacobi_01_neg_th c c3 fn a00 a11 a22 a01 a02 a12 * Gen.jacobi_01_neg_th c c3 fn a00 a11 a22 a01 a02 a12)
    (hd : Gen.jacobi_01_neg_r1 c c3 fn a00 a11 a22 a01 a02 a12 - Gen.jacobi_01_neg_th c c3 fn a00 a11 a22 a01 a02 a12 ≠ 0)
    (hr2 : Gen.jacobi_01_neg_r2 c c3 fn a00 a11 a22 a01 a02 a12 * Gen.jacobi_01_neg_r2 c c3 fn a00 a11 a22 a01 a02 a12 = 1 + Gen.jacobi_01_neg_t c c3 fn a00 a11 a22 a01 a02 a12 * Gen.jacobi_01_neg_t c c3 fn a00 a11 a22 a01 a02 a12)
    (hr2n : Gen.jacobi_01_neg_r2 c c3 fn a00 a11 a22 a01 a02 a12 ≠ 0) :
    Gen.jacobi_01_neg_cc c c3 fn a00 a11 a22 a01 a02 a12 * Gen.jacobi_01_neg_cc c c3 fn a00 a11 a22 a01 a02 a12 + Gen.jacobi_01_neg_ss c c3 fn a00 a11 a22 a01 a02 a12 * Gen.jacobi_01_neg_ss c c3 fn a00 a11 a22 a01 a02 a12 = 1
    ∧ (⟨Gen.jacobi_01_neg_q0_0 c c3 fn a00 a11 a22 a01 a02 a12, Gen.jacobi_01_neg_q0_1 c c3 fn a00 a11 a22 a01 a02 a12, Gen.jacobi_01_neg_q0_2 c c3 fn a00 a11 a22 a01 a02 a12,
        Gen.jacobi_01_neg_q1_0 c c3 fn a00 a11 a22 a01 a02 a12, Gen.jacobi_01_neg_q1_1 c c3 fn a00 a11 a22 a01 a02 a12, Gen.jacobi_01_neg_q1_2 c c3 fn a00 a11 a22 a01 a02 a12,
        Gen.jacobi_01_neg_q2_0 c c3 fn a00 a11 a22 a01 a02 a12, Gen.jacobi_01_neg_q2_1 c c3 fn a00 a11 a22 a01 a02 a12, Gen.jacobi_01_neg_q2_2 c c3 fn a00 a11 a22 a01 a02 a12⟩ : M3 K)
      = G01 (Gen.jacobi_01_neg_cc c c3 fn a00 a11 a22 a01 a02 a12) (Gen.jacobi_01_neg_ss c c3 fn a00 a11 a22 a01 a02 a12)
    ∧ M3.sym (Gen.jacobi_01_neg_w0 c c3 fn a00 a11 a22 a01 a02 a12) (Gen.jacobi_01_neg_w1 c c3 fn a00 a11 a22 a01 a02 a12) (Gen.jacobi_01_neg_w2 c c3 fn a00 a11 a22 a01 a02 a12) (Gen.jacobi_01_neg_b01 c c3 fn a00 a11 a22 a01 a02 a12) (Gen.jacobi_01_neg_b02 c c3 fn a00 a11 a22 a01 a02 a12) (Gen.jacobi_01_neg_b12 c c3 fn a00 a11 a22 a01 a02 a12)
      = (G01 (Gen.jacobi_01_neg_cc c c3 fn a00 a11 a22 a01 a02 a12) (Gen.jacobi_01_neg_ss c c3 fn a00 a11 a22 a01 a02 a12)).transpose * M3.sym a00 a11 a22 a01 a02 a12 * G01 (Gen.jacobi_01_neg_cc c c3 fn a00 a11 a22 a01 a02 a12) (Gen.jacobi_01_neg_ss c c3 fn a00 a11 a22 a01 a02 a12) := by
  simp only [gen_simp] at hr1 hd hr2 hr2n
  obtain ⟨k1, k2⟩ := jacobi_params_neg (a := a01) (h := a11 - a00) ha hr1 hd h2 hr2 hr2n
  have k1' : Gen.jacobi_01_neg_cc c c3 fn a00 a11 a22 a01 a02 a12 * Gen.jacobi_01_neg_cc c c3 fn a00 a11 a22 a01 a02 a12 + Gen.jacobi_01_neg_ss c c3 fn a00 a11 a22 a01 a02 a12 * Gen.jacobi_01_neg_ss c c3 fn a00 a11 a22 a01 a02 a12 = 1 := by
    simp only [gen_simp]; exact k1
  have hs : Gen.jacobi_01_neg_ss c c3 fn a00 a11 a22 a01 a02 a12 = Gen.jacobi_01_neg_t c c3 fn a00 a11 a22 a01 a02 a12 * Gen.jacobi_01_neg_cc c c3 fn a00 a11 a22 a01 a02 a12 := by simp only [gen_simp]
  have k2' : a01 * Gen.jacobi_01_neg_t c c3 fn a00 a11 a22 a01 a02 a12 * Gen.jacobi_01_neg_t c c3 fn a00 a11 a22 a01 a02 a12 + (a11 - a00) * Gen.jacobi_01_neg_t c c3 fn a00 a11 a22 a01 a02 a12 - a01 = 0 := by
    simp only [gen_simp]; exact k2
  refine ⟨k1', ?_, ?_⟩
  · simp only [G01, gen_simp, M3.mk.injEq]
    c03_close
  · rw [rot01_similarity k1' hs k2']
    simp only [gen_simp, M3.sym, M3.mk.injEq]
    c03_close

/-- pair (0,2), theta ≥ 0 -/
theorem jacobi_02_pos (a00 a11 a22 a01 a02 a12 : K) (h2 : (2 : K) ≠ 0) (ha : a02 ≠ 0)
    (hr1 : Gen.jacobi_02_pos_r1 c c3 fn a00 a11 a22 a01 a02 a12 * Gen.jacobi_02_pos_r1 c c3 fn a00 a11 a22 a01 a02 a12 = 1 + Gen.jacobi_02_pos_th c c3 fn a00 a11 a22 a01 a02 a12 * Gen.jacobi_02_pos_th c c3 fn a00 a11 a22 a01 a02 a12)
    (hd : Gen.jacobi_02_pos_r1 c c3 fn a00 a11 a22 a01 a02 a12 + Gen.jacobi_02_pos_th c c3 fn a00 a11 a22 a01 a02 a12 ≠ 0)
    (hr2 : Gen.jacobi_02_pos_r2 c c3 fn a00 a11 a22 a01 a02 a12 * Gen.jacobi_02_pos_r2 c c3 fn a00 a11 a22 a01 a02 a12 = 1 + Gen.jacobi_02_pos_t c c3 fn a00 a11 a22 a01 a02 a12 * Gen.jacobi_02_pos_t c c3 fn a00 a11 a22 a01 a02 a12)
    (hr2n : Gen.jacobi_02_pos_r2 c c3 fn a00 a11 a22 a01 a02 a12 ≠ 0) :
    Gen.jacobi_02_pos_cc c c3 fn a00 a11 a22 a01 a02 a12 * Gen.jacobi_02_pos_cc c c3 fn a00 a11 a22 a01 a02 a12 + Gen.jacobi_02_pos_ss c c3 fn a00 a11 a22 a01 a02 a12 * Gen.jacobi_02_pos_ss c c3 fn a00 a11 a22 a01 a02 a12 = 1
    ∧ (⟨Gen.jacobi_02_pos_q0_0 c c3 fn a00 a11 a22 a01 a02 a12, Gen.jacobi_02_pos_q0_1 c c3 fn a00 a11 a22 a01 a02 a12, Gen.jacobi_02_pos_q0_2 c c3 fn a00 a11 a22 a01 a02 a12,
        Gen.jacobi_02_pos_q1_0 c c3 fn a00 a11 a22 a01 a02 a12, Gen.jacobi_02_pos_q1_1 c c3 fn a00 a11 a22 a01 a02 a12, Gen.jacobi_02_pos_q1_2 c c3 fn a00 a11 a22 a01 a02 a12,
        Gen.jacobi_02_pos_q2_0 c c3 fn a00 a11 a22 a01 a02 a12, Gen.jacobi_02_pos_q2_1 c c3 fn a00 a11 a22 a01 a02 a12, Gen.jacobi_02_pos_q2_2 c c3 fn a00 a11 a22 a01 a02 a12⟩ : M3 K)
      = G02 (Gen.jacobi_02_pos_cc c c3 fn a00 a11 a22 a01 a02 a12) (Gen.jacobi_02_pos_ss c c3 fn a00 a11 a22 a01 a02 a12)
    ∧ M3.sym (Gen.jacobi_02_pos_w0 c c3 fn a00 a11 a22 a01 a02 a12) (Gen.jacobi_02_pos_w1 c c3 fn a00 a11 a22 a01 a02 a12) (Gen.jacobi_02_pos_w2 c c3 fn a00 a11 a22 a01 a02 a12) (Gen.jacobi_02_pos_b01 c c3 fn a00 a11 a22 a01 a02 a12) (Gen.jacobi_02_pos_b02 c c3 fn a00 a11 a22 a01 a02 a12) (Gen.jacobi_02_pos_b12 c c3 fn a00 a11 a22 a01 a02 a12)
      = (G02 (Gen.jacobi_02_pos_cc c c3 fn a00 a11 a22 a01 a02 a12) (Gen.jacobi_02_pos_ss c c3 fn a00 a11 a22 a01 a02 a12)).transpose * M3.sym a00 a11 a22 a01 a02 a12 * G02 (Gen.jacobi_02_pos_cc c c3 fn a00 a11 a22 a01 a02 a12) (Gen.jacobi_02_pos_ss c c3 fn a00 a11 a22 a01 a02 a12) := by
  simp only [gen_simp] at hr1 hd hr2 hr2n
  obtain ⟨k1, k2⟩ := jacobi_params_pos (a := a02) (h := a22 - a00) ha hr1 hd h2 hr2 hr2n
  have k1' : Gen.jacobi_02_pos_cc c c3 fn a00 a11 a22 a01 a02 a12 * Gen.jacobi_02_pos_cc c c3 fn a00 a11 a22 a01 a02 a12 + Gen.jacobi_02_pos_ss c c3 fn a00 a11 a22 a01 a02 a12 * Gen.jacobi_02_pos_ss c c3 fn a00 a11 a22 a01 a02 a12 = 1 := by
    simp only [gen_simp]; exact k1
  have hs : Gen.jacobi_02_pos_ss c c3 fn a00 a11 a22 a01 a02 a12 = Gen.jacobi_02_pos_t c c3 fn a00 a11 a22 a01 a02 a12 * Gen.jacobi_02_pos_cc c c3 fn a00 a11 a22 a01 a02 a12 := by simp only [gen_simp]
  have k2' : a02 * Gen.jacobi_02_pos_t c c3 fn a00 a11 a22 a01 a02 a12 * Gen.jacobi_02_pos_t c c3 fn a00 a11 a22 a01 a02 a12 + (a22 - a00) * Gen.jacobi_02_pos_t c c3 fn a00 a11 a22 a01 a02 a12 - a02 = 0 := by
    simp only [gen_simp]; exact k2
  refine ⟨k1', ?_, ?_⟩
  · simp only [G02, gen_simp, M3.mk.injEq]
    c03_close
  · rw [rot02_similarity k1' hs k2']
    simp only [gen_simp, M3.sym, M3.mk.injEq]
    c03_close

/-- pair (0,2), theta < 0 -/
theorem jacobi_02_neg (a00 a11 a22 a01 a02 a12 : K) (h2 : (2 : K) ≠ 0) (ha : a02 ≠ 0)
    (hr1 : Gen.jacobi_02_neg_r1 c c3 fn a00 a11 a22 a01 a02 a12 * Gen.jacobi_02_neg_r1 c c3 fn a00 a11 a22 a01 a02 a12 = 1 + Gen.jacobi_02_neg_th c c3 fn a00 a11 a22 a01 a02 a12 * Gen.jacobi_02_neg_th c c3 fn a00 a11 a22 a01 a02 a12)
    (hd : Gen.jacobi_02_neg_r1 c c3 fn a00 a11 a22 a01 a02 a12 - Gen.jacobi_02_neg_th c c3 fn a00 a11 a22 a01 a02 a12 ≠ 0)
    (hr2 : Gen.jacobi_02_neg_r2 c c3 fn a00 a11 a22 a01 a02 a12 * Gen.jacobi_02_neg_r2 c c3 fn a00 a11 a22 a01 a02 a12 = 1 + Gen.jacobi_02_neg_t c c3 fn a00 a11 a22 a01 a02 a12 * Gen.jacobi_02_neg_t c c3 fn a00 a11 a22 a01 a02 a12)
    (hr2n : Gen.jacobi_02_neg_r2 c c3 fn a00 a11 a22 a01 a02 a12 ≠ 0) :
    Gen.jacobi_02_neg_cc c c3 fn a00 a11 a22 a01 a02 a12 * Gen.jacobi_02_neg_cc c c3 fn a00 a11 a22 a01 a02 a12 + Gen.jacobi_02_neg_ss c c3 fn a00 a11 a22 a01 a02 a12 * Gen.jacobi_02_neg_ss c c3 fn a00 a11 a22 a01 a02 a12 = 1
    ∧ (⟨Gen.jacobi_02_neg_q0_0 c c3 fn a00 a11 a22 a01 a02 a12, Gen.jacobi_02_neg_q0_1 c c3 fn a00 a11 a22 a01 a02 a12, Gen.jacobi_02_neg_q0_2 c c3 fn a00 a11 a22 a01 a02 a12,
        Gen.jacobi_02_neg_q1_0 c c3 fn a00 a11 a22 a01 a02 a12, Gen.jacobi_02_neg_q1_1 c c3 fn a00 a11 a22 a01 a02 a12, Gen.jacobi_02_neg_q1_2 c c3 fn a00 a11 a22 a01 a02 a12,
        Gen.jacobi_02_neg_q2_0 c c3 fn a00 a11 a22 a01 a02 a12, Gen.jacobi_02_neg_q2_1 c c3 fn a00 a11 a22 a01 a02 a12, Gen.jacobi_02_neg_q2_2 c c3 fn a00 a11 a22 a01 a02 a12⟩ : M3 K)
      = G02 (Gen.jacobi_02_neg_cc c c3 fn a00 a11 a22 a01 a02 a12) (Gen.jacobi_02_neg_ss c c3 fn a00 a11 a22 a01 a02 a12)
    ∧ M3.sym (Gen.jacobi_02_neg_w0 c c3 fn a00 a11 a22 a01 a02 a12) (Gen.jacobi_02_neg_w1 c c3 fn a00 a11 a22 a01 a02 a12) (Gen.jacobi_02_neg_w2 c c3 fn a00 a11 a22 a01 a02 a12) (Gen.jacobi_02_neg_b01 c c3 fn a00 a11 a22 a01 a02 a12) (Gen.jacobi_02_neg_b02 c c3 fn a00 a11 a22 a01 a02 a12) (Gen.jacobi_02_neg_b12 c c3 fn a00 a11 a22 a01 a02 a12)
      = (G02 (Gen.jacobi_02_neg_cc c c3 fn a00 a11 a22 a01 a02 a12) (Gen.jacobi_02_neg_ss c c3 fn a00 a11 a22 a01 a02 a12)).transpose * M3.sym a00 a11 a22 a01 a02 a12 * G02 (Gen.jacobi_02_neg_cc c c3 fn a00 a11 a22 a01 a02 a12) (Gen.jacobi_02_neg_ss c c3 fn a00 a11 a22 a01 a02 a12) := by
  simp only [gen_simp] at hr1 hd hr2 hr2n
  obtain ⟨k1, k2⟩ := jacobi_params_neg (a := a02) (h := a22 - a00) ha hr1 hd h2 hr2 hr2n
  have k1' : Gen.jacobi_02_neg_cc c c3 fn a00 a11 a22 a01 a02 a12 * Gen.jacobi_02_neg_cc c c3 fn a00 a11 a22 a01 a02 a12 + Gen.jacobi_02_neg_ss c c3 fn a00 a11 a22 a01 a02 a12 * Gen.jacobi_02_neg_ss c c3 fn a00 a11 a22 a01 a02 a12 = 1 := by
    simp only [gen_simp]; exact k1
  have hs : Gen.jacobi_02_neg_ss c c3 fn a00 a11 a22 a01 a02 a12 = Gen.jacobi_02_neg_t c c3 fn a00 a11 a22 a01 a02 a12 * Gen.jacobi_02_neg_cc c c3 fn a00 a11 a22 a01 a02 a12 := by simp only [gen_simp]
  have k2' : a02 * Gen.jacobi_02_neg_t c c3 fn a00 a11 a22 a01 a02 a12 * Gen.jacobi_02_neg_t c c3 fn a00 a11 a22 a01 a02 a12 + (a22 - a00) * Gen.jacobi_02_neg_t c c3 fn a00 a11 a22 a01 a02 a12 - a02 = 0 := by
    simp only [gen_simp]; exact k2
  refine ⟨k1', ?_, ?_⟩
  · simp only [G02, gen_simp, M3.mk.injEq]
    c03_close
  · rw [rot02_similarity k1' hs k2']
    simp only [gen_simp, M3.sym, M3.mk.injEq]
    c03_close

/-- pair (1,2), theta ≥ 0 -/
theorem jacobi_12_pos (a00 a11 a22 a01 a02 a12 : K) (h2 : (2 : K) ≠ 0) (ha : a12 ≠ 0)
    (hr1 : Gen.jacobi_12_pos_r1 c c3 fn a00 a11 a22 a01 a02 a12 * Gen.jacobi_12_pos_r1 c c3 fn a00 a11 a22 a01 a02 a12 = 1 + Gen.jacobi_12_pos_th c c3 fn a00 a11 a22 a01 a02 a12 * Gen.jacobi_12_pos_th c c3 fn a00 a11 a22 a01 a02 a12)
    (hd : Gen.jacobi_12_pos_r1 c c3 fn a00 a11 a22 a01 a02 a12 + Gen.jacobi_12_pos_th c c3 fn a00 a11 a22 a01 a02 a12 ≠ 0)
    (hr2 : Gen.jacobi_12_pos_r2 c c3 fn a00 a11 a22 a01 a02 a12 * Gen.jacobi_12_pos_r2 c c3 fn a00 a11 a22 a01 a02 a12 = 1 + Gen.jacobi_12_pos_t c c3 fn a00 a11 a22 a01 a02 a12 * Gen.jacobi_12_pos_t c c3 fn a00 a11 a22 a01 a02 a12)
    (hr2n : Gen.jacobi_12_pos_r2 c c3 fn a00 a11 a22 a01 a02 a12 ≠ 0) :
    Gen.jacobi_12_pos_cc c c3 fn a00 a11 a22 a01 a02 a12 * Gen.jacobi_12_pos_cc c c3 fn a00 a11 a22 a01 a02 a12 + Gen.jacobi_12_pos_ss c c3 fn a00 a11 a22 a01 a02 a12 * Gen.jacobi_12_pos_ss c c3 fn a00 a11 a22 a01 a02 a12 = 1
    ∧ (⟨Gen.jacobi_12_pos_q0_0 c c3 fn a00 a11 a22 a01 a02 a12, Gen.jacobi_12_pos_q0_1 c c3 fn a00 a11 a22 a01 a02 a12, Gen.jacobi_12_pos_q0_2 c c3 fn a00 a11 a22 a01 a02 a12,
        Gen.jacobi_12_pos_q1_0 c c3 fn a00 a11 a22 a01 a02 a12, Gen.jacobi_12_pos_q1_1 c c3 fn a00 a11 a22 a01 a02 a12, Gen.jacobi_12_pos_q1_2 c c3 fn a00 a11 a22 a01 a02 a12,
        Gen.jacobi_12_pos_q2_0 c c3 fn a00 a11 a22 a01 a02 a12, Gen.jacobi_12_pos_q2_1 c c3 fn a00 a11 a22 a01 a02 a12, Gen.jacobi_12_pos_q2_2 c c3 fn a00 a11 a22 a01 a02 a12⟩ : M3 K)
      = G12 (Gen.jacobi_12_pos_cc c c3 fn a00 a11 a22 a01 a02 a12) (Gen.jacobi_12_pos_ss c c3 fn a00 a11 a22 a01 a02 a12)
    ∧ M3.sym (Gen.jacobi_12_pos_w0 c c3 fn a00 a11 a22 a01 a02 a12) (Gen.jacobi_12_pos_w1 c c3 fn a00 a11 a22 a01 a02 a12) (Gen.jacobi_12_pos_w2 c c3 fn a00 a11 a22 a01 a02 a12) (Gen.jacobi_12_pos_b01 c c3 fn a00 a11 a22 a01 a02 a12) (Gen.jacobi_12_pos_b02 c c3 fn a00 a11 a22 a01 a02 a12) (Gen.jacobi_12_pos_b12 c c3 fn a00 a11 a22 a01 a02 a12)
      = (G12 (Gen.jacobi_12_pos_cc c c3 fn a00 a11 a22 a01 a02 a12) (Gen.jacobi_12_pos_ss c c3 fn a00 a11 a22 a01 a02 a12)).transpose * M3.sym a00 a11 a22 a01 a02 a12 * G12 (Gen.jacobi_12_pos_cc c c3 fn a00 a11 a22 a01 a02 a12) (Gen.jacobi_12_pos_ss c c3 fn a00 a11 a22 a01 a02 a12) := by
  simp only [gen_simp] at hr1 hd hr2 hr2n
  obtain ⟨k1, k2⟩ := jacobi_params_pos (a := a12) (h := a22 - a11) ha hr1 hd h2 hr2 hr2n
  have k1' : Gen.jacobi_12_pos_cc c c3 fn a00 a11 a22 a01 a02 a12 * Gen.jacobi_12_pos_cc c c3 fn a00 a11 a22 a01 a02 a12 + Gen.jacobi_12_pos_ss c c3 fn a00 a11 a22 a01 a02 a12 * Gen.jacobi_12_pos_ss c c3 fn a00 a11 a22 a01 a02 a12 = 1 := by
    simp only [gen_simp]; exact k1
  have hs : Gen.jacobi_12_pos_ss c c3 fn a00 a11 a22 a01 a02 a12 = Gen.jacobi_12_pos_t c c3 fn a00 a11 a22 a01 a02 a12 * Gen.jacobi_12_pos_cc c c3 fn a00 a11 a22 a01 a02 a12 := by simp only [gen_simp]
  have k2' : a12 * Gen.jacobi_12_pos_t c c3 fn a00 a11 a22 a01 a02 a12 * Gen.jacobi_12_pos_t c c3 fn a00 a11 a22 a01 a02 a12 + (a22 - a11) * Gen.jacobi_12_pos_t c c3 fn a00 a11 a22 a01 a02 a12 - a12 = 0 := by
    simp only [gen_simp]; exact k2
  refine ⟨k1', ?_, ?_⟩
  · simp only [G12, gen_simp, M3.mk.injEq]
    c03_close
  · rw [rot12_similarity k1' hs k2']
    simp only [gen_simp, M3.sym, M3.mk.injEq]
    c03_close

/-- pair (1,2), theta < 0 -/
theorem jacobi_12_neg (a00 a11 a22 a01 a02 a12 : K) (h2 : (2 : K) ≠ 0) (ha : a12 ≠ 0)
    (hr1 : Gen.jacobi_12_neg_r1 c c3 fn a00 a11 a22 a01 a02 a12 * Gen.jacobi_12_neg_r1 c c3 fn a00 a11 a22 a01 a02 a12 = 1 + Gen.jacobi_12_neg_th c c3 fn a00 a11 a22 a01 a02 a12 * Gen.jacobi_12_neg_th c c3 fn a00 a11 a22 a01 a02 a12)
    (hd : Gen.jacobi_12_neg_r1 c c3 fn a00 a11 a22 a01 a02 a12 - Gen.jacobi_12_neg_th c c3 fn a00 a11 a22 a01 a02 a12 ≠ 0)
    (hr2 : Gen.jacobi_12_neg_r2 c c3 fn a00 a11 a22 a01 a02 a12 * Gen.jacobi_12_neg_r2 c c3 fn a00 a11 a22 a01 a02 a12 = 1 + Gen.jacobi_12_neg_t c c3 fn a00 a11 a22 a01 a02 a12 * Gen.jacobi_12_neg_t c c3 fn a00 a11 a22 a01 a02 a12)
    (hr2n : Gen.jacobi_12_neg_r2 c c3 fn a00 a11 a22 a01 a02 a12 ≠ 0) :
    Gen.jacobi_12_neg_cc c c3 fn a00 a11 a22 a01 a02 a12 * Gen.jacobi_12_neg_cc c c3 fn a00 a11 a22 a01 a02 a12 + Gen.jacobi_12_neg_ss c c3 fn a00 a11 a22 a01 a02 a12 * Gen.jacobi_12_neg_ss c c3 fn a00 a11 a22 a01 a02 a12 = 1
    ∧ (⟨Gen.jacobi_12_neg_q0_0 c c3 fn a00 a11 a22 a01 a02 a12, Gen.jacobi_12_neg_q0_1 c c3 fn a00 a11 a22 a01 a02 a12, Gen.jacobi_12_neg_q0_2 c c3 fn a00 a11 a22 a01 a02 a12,
        Gen.jacobi_12_neg_q1_0 c c3 fn a00 a11 a22 a01 a02 a12, Gen.jacobi_12_neg_q1_1 c c3 fn a00 a11 a22 a01 a02 a12, Gen.jacobi_12_neg_q1_2 c c3 fn a00 a11 a22 a01 a02 a12,
        Gen.jacobi_12_neg_q2_0 c c3 fn a00 a11 a22 a01 a02 a12, Gen.jacobi_12_neg_q2_1 c c3 fn a00 a11 a22 a01 a02 a12, Gen.jacobi_12_neg_q2_2 c c3 fn a00 a11 a22 a01 a02 a12⟩ : M3 K)
      = G12 (Gen.jacobi_12_neg_cc c c3 fn a00 a11 a22 a01 a02 a12) (Gen.jacobi_12_neg_ss c c3 fn a00 a11 a22 a01 a02 a12)
    ∧ M3.sym (Gen.jacobi_12_neg_w0 c c3 fn a00 a11 a22 a01 a02 a12) (Gen.jacobi_12_neg_w1 c c3 fn a00 a11 a22 a01 a02 a12) (Gen.jacobi_12_neg_w2 c c3 fn a00 a11 a22 a01 a02 a12) (Gen.jacobi_12_neg_b01 c c3 fn a00 a11 a22 a01 a02 a12) (Gen.jacobi_12_neg_b02 c c3 fn a00 a11 a22 a01 a02 a12) (Gen.jacobi_12_neg_b12 c c3 fn a00 a11 a22 a01 a02 a12)
      = (G12 (Gen.jacobi_12_neg_cc c c3 fn a00 a11 a22 a01 a02 a12) (Gen.jacobi_12_neg_ss c c3 fn a00 a11 a22 a01 a02 a12)).transpose * M3.sym a00 a11 a22 a01 a02 a12 * G12 (Gen.jacobi_12_neg_cc c c3 fn a00 a11 a22 a01 a02 a12) (Gen.jacobi_12_neg_ss c c3 fn a00 a11 a22 a01 a02 a12) := by
  simp only [gen_simp] at hr1 hd hr2 hr2n
  obtain ⟨k1, k2⟩ := jacobi_params_neg (a := a12) (h := a22 - a11) ha hr1 hd h2 hr2 hr2n
  have k1' : Gen.jacobi_12_neg_cc c c3 fn a00 a11 a22 a01 a02 a12 * Gen.jacobi_12_neg_cc c c3 fn a00 a11 a22 a01 a02 a12 + Gen.jacobi_12_neg_ss c c3 fn a00 a11 a22 a01 a02 a12 * Gen.jacobi_12_neg_ss c c3 fn a00 a11 a22 a01 a02 a12 = 1 := by
    simp only [gen_simp]; exact k1
  have hs : Gen.jacobi_12_neg_ss c c3 fn a00 a11 a22 a01 a02 a12 = Gen.jacobi_12_neg_t c c3 fn a00 a11 a22 a01 a02 a12 * Gen.jacobi_12_neg_cc c c3 fn a00 a11 a22 a01 a02 a12 := by simp only [gen_simp]
  have k2' : a12 * Gen.jacobi_12_neg_t c c3 fn a00 a11 a22 a01 a02 a12 * Gen.jacobi_12_neg_t c c3 fn a00 a11 a22 a01 a02 a12 + (a22 - a11) * Gen.jacobi_12_neg_t c c3 fn a00 a11 a22 a01 a02 a12 - a12 = 0 := by
    simp only [gen_simp]; exact k2
  refine ⟨k1', ?_, ?_⟩
  · simp only [G12, gen_simp, M3.mk.injEq]
    c03_close
  · rw [rot12_similarity k1' hs k2']
    simp only [gen_simp, M3.sym, M3.mk.injEq]
    c03_close

/-- The Jacobi solver as a whole, in exact arithmetic: whatever the rotations performed (each an orthogonal
similarity: theorems above), if the iteration exits with a diagonal matrix then the accumulated `V` and the diagonal
`w` are a spectral decomposition of the input. -/
theorem jacobi_decomposition (A0 : M3 K) (Rs : List (M3 K)) (hR : ∀ R ∈ Rs, Orth R) (w0 w1 w2 : K)
    (hexit : (steps Rs (1, A0)).2 = M3.diag w0 w1 w2) :
    A0 = (steps Rs (1, A0)).1 * M3.diag w0 w1 w2 * (steps Rs (1, A0)).1.transpose
    ∧ Orth (steps Rs (1, A0)).1
    ∧ A0 * (steps Rs (1, A0)).1 = (steps Rs (1, A0)).1 * M3.diag w0 w1 w2 := by
  have h := inv_steps A0 Rs 1 A0 hR (inv_init A0)
  rw [hexit] at h
  exact inv_exit h

/-- non-vacuity: a plane rotation over ℚ (3-4-5) -/
example : Orth (G01 (3/5 : ℚ) (4/5)) := orth_G01 (by norm_num)


/-! The remaining theorems are stated for fields of characteristic 0 (ℝ, ℚ(√2), …). -/
section char0
variable [CharZero K]

/-- close a goal that is a power-of-two multiple of the determinant hypothesis, or an identity -/
macro "c03_det" h:term : tactic =>
  `(tactic| (first
      | ring1
      | (linear_combination ($h))
      | (linear_combination (-1) * ($h))
      | (linear_combination (2) * ($h))
      | (linear_combination (-2) * ($h))
      | (linear_combination (4) * ($h))
      | (linear_combination (-4) * ($h))
      | (linear_combination (8) * ($h))
      | (linear_combination (-8) * ($h))
      | (linear_combination (16) * ($h))
      | (linear_combination (-16) * ($h))
      | (linear_combination (32) * ($h))
      | (linear_combination (-32) * ($h))
      | (linear_combination (64) * ($h))
      | (linear_combination (-64) * ($h))
      ))

/-! ## (d) eigenvector of the default solver: `(A − vp) v = 0` when `det(A − vp) = 0`, `|v| = 1`

Inputs are the stored components `s` (so `A_01 = s3/√2 = s3 (c/2)` …) and the eigenvalue `vp`. -/
/-- branch `det3` (the largest 2×2 minor of `A − vp` is the one used as divisor) -/
theorem eigvec_det3 (s0 s1 s2 s3 s4 s5 vp : K) (h2 : (2 : K) ≠ 0)
    (hdet : (M3.sym s0 s1 s2 (s3 * (1 / 2 * c)) (s4 * (1 / 2 * c)) (s5 * (1 / 2 * c)) - vp • (1 : M3 K)).det = 0)
    (hm : Gen.eigvec_det3_minor c c3 fn s0 s1 s2 s3 s4 s5 vp ≠ 0) (hn : Gen.eigvec_det3_nr c c3 fn s0 s1 s2 s3 s4 s5 vp ≠ 0)
    (hsq : Gen.eigvec_det3_nr c c3 fn s0 s1 s2 s3 s4 s5 vp * Gen.eigvec_det3_nr c c3 fn s0 s1 s2 s3 s4 s5 vp = Gen.eigvec_det3_nr2 c c3 fn s0 s1 s2 s3 s4 s5 vp) :
    (s0 - vp) * Gen.eigvec_det3_v0 c c3 fn s0 s1 s2 s3 s4 s5 vp + (s3 * (1 / 2 * c)) * Gen.eigvec_det3_v1 c c3 fn s0 s1 s2 s3 s4 s5 vp + (s4 * (1 / 2 * c)) * Gen.eigvec_det3_v2 c c3 fn s0 s1 s2 s3 s4 s5 vp = 0
    ∧ (s3 * (1 / 2 * c)) * Gen.eigvec_det3_v0 c c3 fn s0 s1 s2 s3 s4 s5 vp + (s1 - vp) * Gen.eigvec_det3_v1 c c3 fn s0 s1 s2 s3 s4 s5 vp + (s5 * (1 / 2 * c)) * Gen.eigvec_det3_v2 c c3 fn s0 s1 s2 s3 s4 s5 vp = 0
    ∧ (s4 * (1 / 2 * c)) * Gen.eigvec_det3_v0 c c3 fn s0 s1 s2 s3 s4 s5 vp + (s5 * (1 / 2 * c)) * Gen.eigvec_det3_v1 c c3 fn s0 s1 s2 s3 s4 s5 vp + (s2 - vp) * Gen.eigvec_det3_v2 c c3 fn s0 s1 s2 s3 s4 s5 vp = 0
    ∧ Gen.eigvec_det3_v0 c c3 fn s0 s1 s2 s3 s4 s5 vp * Gen.eigvec_det3_v0 c c3 fn s0 s1 s2 s3 s4 s5 vp + Gen.eigvec_det3_v1 c c3 fn s0 s1 s2 s3 s4 s5 vp * Gen.eigvec_det3_v1 c c3 fn s0 s1 s2 s3 s4 s5 vp + Gen.eigvec_det3_v2 c c3 fn s0 s1 s2 s3 s4 s5 vp * Gen.eigvec_det3_v2 c c3 fn s0 s1 s2 s3 s4 s5 vp = 1
    ∧ Gen.eigvec_det3_ok c c3 fn s0 s1 s2 s3 s4 s5 vp = 1 := by
  simp only [gen_simp] at hm hn hsq
  simp only [M3.sym, M3.det, M3.sub_def, M3.sub, M3.smul_def, M3.smul, M3.one_def, M3.one] at hdet
  simp only [gen_simp]
  generalize fn.sqrt _ = r at *
  generalize hD : (s0 - vp) * (s1 - vp) - _ = D at *
  refine ⟨?_, ?_, ?_, ?_, trivial⟩
  · field_simp; subst hD; c03_det hdet
  · field_simp; subst hD; c03_det hdet
  · field_simp; subst hD; c03_det hdet
  · field_simp at hsq ⊢
    first | linear_combination hsq | linear_combination (-1 : K) * hsq

/-- branch `det1` (the largest 2×2 minor of `A − vp` is the one used as divisor) -/
theorem eigvec_det1 (s0 s1 s2 s3 s4 s5 vp : K) (h2 : (2 : K) ≠ 0)
    (hdet : (M3.sym s0 s1 s2 (s3 * (1 / 2 * c)) (s4 * (1 / 2 * c)) (s5 * (1 / 2 * c)) - vp • (1 : M3 K)).det = 0)
    (hm : Gen.eigvec_det1_minor c c3 fn s0 s1 s2 s3 s4 s5 vp ≠ 0) (hn : Gen.eigvec_det1_nr c c3 fn s0 s1 s2 s3 s4 s5 vp ≠ 0)
    (hsq : Gen.eigvec_det1_nr c c3 fn s0 s1 s2 s3 s4 s5 vp * Gen.eigvec_det1_nr c c3 fn s0 s1 s2 s3 s4 s5 vp = Gen.eigvec_det1_nr2 c c3 fn s0 s1 s2 s3 s4 s5 vp) :
    (s0 - vp) * Gen.eigvec_det1_v0 c c3 fn s0 s1 s2 s3 s4 s5 vp + (s3 * (1 / 2 * c)) * Gen.eigvec_det1_v1 c c3 fn s0 s1 s2 s3 s4 s5 vp + (s4 * (1 / 2 * c)) * Gen.eigvec_det1_v2 c c3 fn s0 s1 s2 s3 s4 s5 vp = 0
    ∧ (s3 * (1 / 2 * c)) * Gen.eigvec_det1_v0 c c3 fn s0 s1 s2 s3 s4 s5 vp + (s1 - vp) * Gen.eigvec_det1_v1 c c3 fn s0 s1 s2 s3 s4 s5 vp + (s5 * (1 / 2 * c)) * Gen.eigvec_det1_v2 c c3 fn s0 s1 s2 s3 s4 s5 vp = 0
    ∧ (s4 * (1 / 2 * c)) * Gen.eigvec_det1_v0 c c3 fn s0 s1 s2 s3 s4 s5 vp + (s5 * (1 / 2 * c)) * Gen.eigvec_det1_v1 c c3 fn s0 s1 s2 s3 s4 s5 vp + (s2 - vp) * Gen.eigvec_det1_v2 c c3 fn s0 s1 s2 s3 s4 s5 vp = 0
    ∧ Gen.eigvec_det1_v0 c c3 fn s0 s1 s2 s3 s4 s5 vp * Gen.eigvec_det1_v0 c c3 fn s0 s1 s2 s3 s4 s5 vp + Gen.eigvec_det1_v1 c c3 fn s0 s1 s2 s3 s4 s5 vp * Gen.eigvec_det1_v1 c c3 fn s0 s1 s2 s3 s4 s5 vp + Gen.eigvec_det1_v2 c c3 fn s0 s1 s2 s3 s4 s5 vp * Gen.eigvec_det1_v2 c c3 fn s0 s1 s2 s3 s4 s5 vp = 1
    ∧ Gen.eigvec_det1_ok c c3 fn s0 s1 s2 s3 s4 s5 vp = 1 := by
  simp only [gen_simp] at hm hn hsq
  simp only [M3.sym, M3.det, M3.sub_def, M3.sub, M3.smul_def, M3.smul, M3.one_def, M3.one] at hdet
  simp only [gen_simp]
  generalize fn.sqrt _ = r at *
  generalize hD : (s1 - vp) * (s2 - vp) - _ = D at *
  refine ⟨?_, ?_, ?_, ?_, trivial⟩
  · field_simp; subst hD; c03_det hdet
  · field_simp; subst hD; c03_det hdet
  · field_simp; subst hD; c03_det hdet
  · field_simp at hsq ⊢
    first | linear_combination hsq | linear_combination (-1 : K) * hsq

/-- branch `det2` (the largest 2×2 minor of `A − vp` is the one used as divisor) -/
theorem eigvec_det2 (s0 s1 s2 s3 s4 s5 vp : K) (h2 : (2 : K) ≠ 0)
    (hdet : (M3.sym s0 s1 s2 (s3 * (1 / 2 * c)) (s4 * (1 / 2 * c)) (s5 * (1 / 2 * c)) - vp • (1 : M3 K)).det = 0)
    (hm : Gen.eigvec_det2_minor c c3 fn s0 s1 s2 s3 s4 s5 vp ≠ 0) (hn : Gen.eigvec_det2_nr c c3 fn s0 s1 s2 s3 s4 s5 vp ≠ 0)
    (hsq : Gen.eigvec_det2_nr c c3 fn s0 s1 s2 s3 s4 s5 vp * Gen.eigvec_det2_nr c c3 fn s0 s1 s2 s3 s4 s5 vp = Gen.eigvec_det2_nr2 c c3 fn s0 s1 s2 s3 s4 s5 vp) :
    (s0 - vp) * Gen.eigvec_det2_v0 c c3 fn s0 s1 s2 s3 s4 s5 vp + (s3 * (1 / 2 * c)) * Gen.eigvec_det2_v1 c c3 fn s0 s1 s2 s3 s4 s5 vp + (s4 * (1 / 2 * c)) * Gen.eigvec_det2_v2 c c3 fn s0 s1 s2 s3 s4 s5 vp = 0
    ∧ (s3 * (1 / 2 * c)) * Gen.eigvec_det2_v0 c c3 fn s0 s1 s2 s3 s4 s5 vp + (s1 - vp) * Gen.eigvec_det2_v1 c c3 fn s0 s1 s2 s3 s4 s5 vp + (s5 * (1 / 2 * c)) * Gen.eigvec_det2_v2 c c3 fn s0 s1 s2 s3 s4 s5 vp = 0
    ∧ (s4 * (1 / 2 * c)) * Gen.eigvec_det2_v0 c c3 fn s0 s1 s2 s3 s4 s5 vp + (s5 * (1 / 2 * c)) * Gen.eigvec_det2_v1 c c3 fn s0 s1 s2 s3 s4 s5 vp + (s2 - vp) * Gen.eigvec_det2_v2 c c3 fn s0 s1 s2 s3 s4 s5 vp = 0
    ∧ Gen.eigvec_det2_v0 c c3 fn s0 s1 s2 s3 s4 s5 vp * Gen.eigvec_det2_v0 c c3 fn s0 s1 s2 s3 s4 s5 vp + Gen.eigvec_det2_v1 c c3 fn s0 s1 s2 s3 s4 s5 vp * Gen.eigvec_det2_v1 c c3 fn s0 s1 s2 s3 s4 s5 vp + Gen.eigvec_det2_v2 c c3 fn s0 s1 s2 s3 s4 s5 vp * Gen.eigvec_det2_v2 c c3 fn s0 s1 s2 s3 s4 s5 vp = 1
    ∧ Gen.eigvec_det2_ok c c3 fn s0 s1 s2 s3 s4 s5 vp = 1 := by
  simp only [gen_simp] at hm hn hsq
  simp only [M3.sym, M3.det, M3.sub_def, M3.sub, M3.smul_def, M3.smul, M3.one_def, M3.one] at hdet
  simp only [gen_simp]
  generalize fn.sqrt _ = r at *
  generalize hD : (s0 - vp) * (s2 - vp) - _ = D at *
  refine ⟨?_, ?_, ?_, ?_, trivial⟩
  · field_simp; subst hD; c03_det hdet
  · field_simp; subst hD; c03_det hdet
  · field_simp; subst hD; c03_det hdet
  · field_simp at hsq ⊢
    first | linear_combination hsq | linear_combination (-1 : K) * hsq


/-! ## (b) Householder tridiagonalisation (`sytrd3`): `Q` symmetric orthogonal, `Qᵀ A Q` tridiagonal

`g = ∓sqrt(h)`, `h = a01² + a02²` (hypothesis `hg`: the square root law), `ω = 1/(h − g a01)`. -/
theorem sytrd3_pos (a00 a11 a22 a01 a02 a12 : K) (h2 : (2 : K) ≠ 0)
    (hg : Gen.sytrd3_pos_g c c3 fn a00 a11 a22 a01 a02 a12 * Gen.sytrd3_pos_g c c3 fn a00 a11 a22 a01 a02 a12 = Gen.sytrd3_pos_h c c3 fn a00 a11 a22 a01 a02 a12)
    (hw : Gen.sytrd3_pos_h c c3 fn a00 a11 a22 a01 a02 a12 - Gen.sytrd3_pos_g c c3 fn a00 a11 a22 a01 a02 a12 * a01 ≠ 0) :
    (⟨Gen.sytrd3_pos_q0_0 c c3 fn a00 a11 a22 a01 a02 a12, Gen.sytrd3_pos_q0_1 c c3 fn a00 a11 a22 a01 a02 a12, Gen.sytrd3_pos_q0_2 c c3 fn a00 a11 a22 a01 a02 a12,
      Gen.sytrd3_pos_q1_0 c c3 fn a00 a11 a22 a01 a02 a12, Gen.sytrd3_pos_q1_1 c c3 fn a00 a11 a22 a01 a02 a12, Gen.sytrd3_pos_q1_2 c c3 fn a00 a11 a22 a01 a02 a12,
      Gen.sytrd3_pos_q2_0 c c3 fn a00 a11 a22 a01 a02 a12, Gen.sytrd3_pos_q2_1 c c3 fn a00 a11 a22 a01 a02 a12, Gen.sytrd3_pos_q2_2 c c3 fn a00 a11 a22 a01 a02 a12⟩ : M3 K).transpose
      = ⟨Gen.sytrd3_pos_q0_0 c c3 fn a00 a11 a22 a01 a02 a12, Gen.sytrd3_pos_q0_1 c c3 fn a00 a11 a22 a01 a02 a12, Gen.sytrd3_pos_q0_2 c c3 fn a00 a11 a22 a01 a02 a12,
      Gen.sytrd3_pos_q1_0 c c3 fn a00 a11 a22 a01 a02 a12, Gen.sytrd3_pos_q1_1 c c3 fn a00 a11 a22 a01 a02 a12, Gen.sytrd3_pos_q1_2 c c3 fn a00 a11 a22 a01 a02 a12,
      Gen.sytrd3_pos_q2_0 c c3 fn a00 a11 a22 a01 a02 a12, Gen.sytrd3_pos_q2_1 c c3 fn a00 a11 a22 a01 a02 a12, Gen.sytrd3_pos_q2_2 c c3 fn a00 a11 a22 a01 a02 a12⟩
    ∧ Orth (⟨Gen.sytrd3_pos_q0_0 c c3 fn a00 a11 a22 a01 a02 a12, Gen.sytrd3_pos_q0_1 c c3 fn a00 a11 a22 a01 a02 a12, Gen.sytrd3_pos_q0_2 c c3 fn a00 a11 a22 a01 a02 a12,
      Gen.sytrd3_pos_q1_0 c c3 fn a00 a11 a22 a01 a02 a12, Gen.sytrd3_pos_q1_1 c c3 fn a00 a11 a22 a01 a02 a12, Gen.sytrd3_pos_q1_2 c c3 fn a00 a11 a22 a01 a02 a12,
      Gen.sytrd3_pos_q2_0 c c3 fn a00 a11 a22 a01 a02 a12, Gen.sytrd3_pos_q2_1 c c3 fn a00 a11 a22 a01 a02 a12, Gen.sytrd3_pos_q2_2 c c3 fn a00 a11 a22 a01 a02 a12⟩ : M3 K)
    ∧ (⟨Gen.sytrd3_pos_q0_0 c c3 fn a00 a11 a22 a01 a02 a12, Gen.sytrd3_pos_q0_1 c c3 fn a00 a11 a22 a01 a02 a12, Gen.sytrd3_pos_q0_2 c c3 fn a00 a11 a22 a01 a02 a12,
      Gen.sytrd3_pos_q1_0 c c3 fn a00 a11 a22 a01 a02 a12, Gen.sytrd3_pos_q1_1 c c3 fn a00 a11 a22 a01 a02 a12, Gen.sytrd3_pos_q1_2 c c3 fn a00 a11 a22 a01 a02 a12,
      Gen.sytrd3_pos_q2_0 c c3 fn a00 a11 a22 a01 a02 a12, Gen.sytrd3_pos_q2_1 c c3 fn a00 a11 a22 a01 a02 a12, Gen.sytrd3_pos_q2_2 c c3 fn a00 a11 a22 a01 a02 a12⟩ : M3 K).transpose * M3.sym a00 a11 a22 a01 a02 a12
        * ⟨Gen.sytrd3_pos_q0_0 c c3 fn a00 a11 a22 a01 a02 a12, Gen.sytrd3_pos_q0_1 c c3 fn a00 a11 a22 a01 a02 a12, Gen.sytrd3_pos_q0_2 c c3 fn a00 a11 a22 a01 a02 a12,
      Gen.sytrd3_pos_q1_0 c c3 fn a00 a11 a22 a01 a02 a12, Gen.sytrd3_pos_q1_1 c c3 fn a00 a11 a22 a01 a02 a12, Gen.sytrd3_pos_q1_2 c c3 fn a00 a11 a22 a01 a02 a12,
      Gen.sytrd3_pos_q2_0 c c3 fn a00 a11 a22 a01 a02 a12, Gen.sytrd3_pos_q2_1 c c3 fn a00 a11 a22 a01 a02 a12, Gen.sytrd3_pos_q2_2 c c3 fn a00 a11 a22 a01 a02 a12⟩
      = M3.sym (Gen.sytrd3_pos_d0 c c3 fn a00 a11 a22 a01 a02 a12) (Gen.sytrd3_pos_d1 c c3 fn a00 a11 a22 a01 a02 a12) (Gen.sytrd3_pos_d2 c c3 fn a00 a11 a22 a01 a02 a12) (Gen.sytrd3_pos_e0 c c3 fn a00 a11 a22 a01 a02 a12) 0 (Gen.sytrd3_pos_e1 c c3 fn a00 a11 a22 a01 a02 a12) := by
  simp only [gen_simp] at hg hw
  unfold Orth
  c03_unfold
  generalize fn.sqrt _ = r at *
  generalize hD : a01 * a01 + a02 * a02 - _ = D at *
  have e2 : a02 ^ 2 = r ^ 2 - a01 ^ 2 := by linear_combination (-1 : K) * hg
  have e3 : a02 ^ 3 = a02 * (r ^ 2 - a01 ^ 2) := by rw [← e2]; ring
  have e4 : a02 ^ 4 = (r ^ 2 - a01 ^ 2) ^ 2 := by rw [← e2]; ring
  have e5 : a02 ^ 5 = a02 * (r ^ 2 - a01 ^ 2) ^ 2 := by rw [← e2]; ring
  have e6 : a02 ^ 6 = (r ^ 2 - a01 ^ 2) ^ 3 := by rw [← e2]; ring
  refine ⟨?_, ?_, ?_⟩
  · c03_close
  · (repeat' apply And.intro) <;> (field_simp; subst hD; ring_nf; (try simp only [e2, e3, e4, e5, e6]); (try ring1))
  · (repeat' apply And.intro) <;> (field_simp; subst hD; ring_nf; (try simp only [e2, e3, e4, e5, e6]); (try ring1))

theorem sytrd3_neg (a00 a11 a22 a01 a02 a12 : K) (h2 : (2 : K) ≠ 0)
    (hg : Gen.sytrd3_neg_g c c3 fn a00 a11 a22 a01 a02 a12 * Gen.sytrd3_neg_g c c3 fn a00 a11 a22 a01 a02 a12 = Gen.sytrd3_neg_h c c3 fn a00 a11 a22 a01 a02 a12)
    (hw : Gen.sytrd3_neg_h c c3 fn a00 a11 a22 a01 a02 a12 - Gen.sytrd3_neg_g c c3 fn a00 a11 a22 a01 a02 a12 * a01 ≠ 0) :
    (⟨Gen.sytrd3_neg_q0_0 c c3 fn a00 a11 a22 a01 a02 a12, Gen.sytrd3_neg_q0_1 c c3 fn a00 a11 a22 a01 a02 a12, Gen.sytrd3_neg_q0_2 c c3 fn a00 a11 a22 a01 a02 a12,
      Gen.sytrd3_neg_q1_0 c c3 fn a00 a11 a22 a01 a02 a12, Gen.sytrd3_neg_q1_1 c c3 fn a00 a11 a22 a01 a02 a12, Gen.sytrd3_neg_q1_2 c c3 fn a00 a11 a22 a01 a02 a12,
      Gen.sytrd3_neg_q2_0 c c3 fn a00 a11 a22 a01 a02 a12, Gen.sytrd3_neg_q2_1 c c3 fn a00 a11 a22 a01 a02 a12, Gen.sytrd3_neg_q2_2 c c3 fn a00 a11 a22 a01 a02 a12⟩ : M3 K).transpose
      = ⟨Gen.sytrd3_neg_q0_0 c c3 fn a00 a11 a22 a01 a02 a12, Gen.sytrd3_neg_q0_1 c c3 fn a00 a11 a22 a01 a02 a12, Gen.sytrd3_neg_q0_2 c c3 fn a00 a11 a22 a01 a02 a12,
      Gen.sytrd3_neg_q1_0 c c3 fn a00 a11 a22 a01 a02 a12, Gen.sytrd3_neg_q1_1 c c3 fn a00 a11 a22 a01 a02 a12, Gen.sytrd3_neg_q1_2 c c3 fn a00 a11 a22 a01 a02 a12,
      Gen.sytrd3_neg_q2_0 c c3 fn a00 a11 a22 a01 a02 a12, Gen.sytrd3_neg_q2_1 c c3 fn a00 a11 a22 a01 a02 a12, Gen.sytrd3_neg_q2_2 c c3 fn a00 a11 a22 a01 a02 a12⟩
    ∧ Orth (⟨Gen.sytrd3_neg_q0_0 c c3 fn a00 a11 a22 a01 a02 a12, Gen.sytrd3_neg_q0_1 c c3 fn a00 a11 a22 a01 a02 a12, Gen.sytrd3_neg_q0_2 c c3 fn a00 a11 a22 a01 a02 a12,
      Gen.sytrd3_neg_q1_0 c c3 fn a00 a11 a22 a01 a02 a12, Gen.sytrd3_neg_q1_1 c c3 fn a00 a11 a22 a01 a02 a12, Gen.sytrd3_neg_q1_2 c c3 fn a00 a11 a22 a01 a02 a12,
      Gen.sytrd3_neg_q2_0 c c3 fn a00 a11 a22 a01 a02 a12, Gen.sytrd3_neg_q2_1 c c3 fn a00 a11 a22 a01 a02 a12, Gen.sytrd3_neg_q2_2 c c3 fn a00 a11 a22 a01 a02 a12⟩ : M3 K)
    ∧ (⟨Gen.sytrd3_neg_q0_0 c c3 fn a00 a11 a22 a01 a02 a12, Gen.sytrd3_neg_q0_1 c c3 fn a00 a11 a22 a01 a02 a12, Gen.sytrd3_neg_q0_2 c c3 fn a00 a11 a22 a01 a02 a12,
      Gen.sytrd3_neg_q1_0 c c3 fn a00 a11 a22 a01 a02 a12, Gen.sytrd3_neg_q1_1 c c3 fn a00 a11 a22 a01 a02 a12, Gen.sytrd3_neg_q1_2 c c3 fn a00 a11 a22 a01 a02 a12,
      Gen.sytrd3_neg_q2_0 c c3 fn a00 a11 a22 a01 a02 a12, Gen.sytrd3_neg_q2_1 c c3 fn a00 a11 a22 a01 a02 a12, Gen.sytrd3_neg_q2_2 c c3 fn a00 a11 a22 a01 a02 a12⟩ : M3 K).transpose * M3.sym a00 a11 a22 a01 a02 a12
        * ⟨Gen.sytrd3_neg_q0_0 c c3 fn a00 a11 a22 a01 a02 a12, Gen.sytrd3_neg_q0_1 c c3 fn a00 a11 a22 a01 a02 a12, Gen.sytrd3_neg_q0_2 c c3 fn a00 a11 a22 a01 a02 a12,
      Gen.sytrd3_neg_q1_0 c c3 fn a00 a11 a22 a01 a02 a12, Gen.sytrd3_neg_q1_1 c c3 fn a00 a11 a22 a01 a02 a12, Gen.sytrd3_neg_q1_2 c c3 fn a00 a11 a22 a01 a02 a12,
      Gen.sytrd3_neg_q2_0 c c3 fn a00 a11 a22 a01 a02 a12, Gen.sytrd3_neg_q2_1 c c3 fn a00 a11 a22 a01 a02 a12, Gen.sytrd3_neg_q2_2 c c3 fn a00 a11 a22 a01 a02 a12⟩
      = M3.sym (Gen.sytrd3_neg_d0 c c3 fn a00 a11 a22 a01 a02 a12) (Gen.sytrd3_neg_d1 c c3 fn a00 a11 a22 a01 a02 a12) (Gen.sytrd3_neg_d2 c c3 fn a00 a11 a22 a01 a02 a12) (Gen.sytrd3_neg_e0 c c3 fn a00 a11 a22 a01 a02 a12) 0 (Gen.sytrd3_neg_e1 c c3 fn a00 a11 a22 a01 a02 a12) := by
  simp only [gen_simp] at hg hw
  unfold Orth
  c03_unfold
  generalize fn.sqrt _ = r at *
  generalize hD : a01 * a01 + a02 * a02 - _ = D at *
  have e2 : a02 ^ 2 = r ^ 2 - a01 ^ 2 := by linear_combination (-1 : K) * hg
  have e3 : a02 ^ 3 = a02 * (r ^ 2 - a01 ^ 2) := by rw [← e2]; ring
  have e4 : a02 ^ 4 = (r ^ 2 - a01 ^ 2) ^ 2 := by rw [← e2]; ring
  have e5 : a02 ^ 5 = a02 * (r ^ 2 - a01 ^ 2) ^ 2 := by rw [← e2]; ring
  have e6 : a02 ^ 6 = (r ^ 2 - a01 ^ 2) ^ 3 := by rw [← e2]; ring
  refine ⟨?_, ?_, ?_⟩
  · c03_close
  · (repeat' apply And.intro) <;> (field_simp; subst hD; ring_nf; (try simp only [e2, e3, e4, e5, e6]); (try ring1))
  · (repeat' apply And.intro) <;> (field_simp; subst hD; ring_nf; (try simp only [e2, e3, e4, e5, e6]); (try ring1))

/-- degenerate branch (`a01 = a02 = 0` makes `ω ≤ 0`): nothing to do, `Q = 1`, `d = diag A`, `e = (g, a12)` -/
theorem sytrd3_diag (a00 a11 a22 a01 a02 a12 : K) :
    (⟨Gen.sytrd3_diag_q0_0 c c3 fn a00 a11 a22 a01 a02 a12, Gen.sytrd3_diag_q0_1 c c3 fn a00 a11 a22 a01 a02 a12, Gen.sytrd3_diag_q0_2 c c3 fn a00 a11 a22 a01 a02 a12,
      Gen.sytrd3_diag_q1_0 c c3 fn a00 a11 a22 a01 a02 a12, Gen.sytrd3_diag_q1_1 c c3 fn a00 a11 a22 a01 a02 a12, Gen.sytrd3_diag_q1_2 c c3 fn a00 a11 a22 a01 a02 a12,
      Gen.sytrd3_diag_q2_0 c c3 fn a00 a11 a22 a01 a02 a12, Gen.sytrd3_diag_q2_1 c c3 fn a00 a11 a22 a01 a02 a12, Gen.sytrd3_diag_q2_2 c c3 fn a00 a11 a22 a01 a02 a12⟩ : M3 K) = 1
    ∧ Gen.sytrd3_diag_d0 c c3 fn a00 a11 a22 a01 a02 a12 = a00 ∧ Gen.sytrd3_diag_d1 c c3 fn a00 a11 a22 a01 a02 a12 = a11
    ∧ Gen.sytrd3_diag_d2 c c3 fn a00 a11 a22 a01 a02 a12 = a22 ∧ Gen.sytrd3_diag_e1 c c3 fn a00 a11 a22 a01 a02 a12 = a12 := by
  c03_unfold
  c03_close


/-! ## (c) Cardano's closed form (`syevc3`): Vieta's relations (fields of characteristic 0) -/
set_option maxRecDepth 100000

/-- what the traced intermediate quantities are: trace, coefficients of the characteristic polynomial
`det(x − A) = x³ − m x² + c1 x + c0`, `p = m² − 3 c1`, `q = m(p − 3/2 c1) − 27/2 c0` -/
theorem syevc3_charpoly (a00 a11 a22 a01 a02 a12 x : K) :
    (x • (1 : M3 K) - M3.sym a00 a11 a22 a01 a02 a12).det
      = x * x * x - Gen.syevc3_m c c3 fn a00 a11 a22 a01 a02 a12 * (x * x) + Gen.syevc3_c1 c c3 fn a00 a11 a22 a01 a02 a12 * x + Gen.syevc3_c0 c c3 fn a00 a11 a22 a01 a02 a12 := by
  c03_unfold; ring1

/-- Vieta: sum, sum of pairwise products and product of the three returned values, given
`sqrt(|p|)² = p` (p ≥ 0 for a real symmetric matrix), `cos² + sin² = 1`, `√3² = 3` and
`sqrt(p)³ (4 cos³φ − 3 cos φ) = q` (triple angle formula with `cos 3φ = q/p^{3/2}`, which is what
`3φ = atan2(sqrt(27(…)), q)` means since `27(…) = p³ − q²`: `syevc3_discriminant`). -/
theorem syevc3_vieta (a00 a11 a22 a01 a02 a12 : K) (h3 : (3 : K) ≠ 0) (h2 : (2 : K) ≠ 0) (hc3 : c3 * c3 = 3)
    (hR : Gen.syevc3_sqrtp c c3 fn a00 a11 a22 a01 a02 a12 * Gen.syevc3_sqrtp c c3 fn a00 a11 a22 a01 a02 a12 = Gen.syevc3_p c c3 fn a00 a11 a22 a01 a02 a12)
    (hCS : Gen.syevc3_cosphi c c3 fn a00 a11 a22 a01 a02 a12 * Gen.syevc3_cosphi c c3 fn a00 a11 a22 a01 a02 a12 + Gen.syevc3_sinphi c c3 fn a00 a11 a22 a01 a02 a12 * Gen.syevc3_sinphi c c3 fn a00 a11 a22 a01 a02 a12 = 1)
    (hq : Gen.syevc3_sqrtp c c3 fn a00 a11 a22 a01 a02 a12 * Gen.syevc3_sqrtp c c3 fn a00 a11 a22 a01 a02 a12 * Gen.syevc3_sqrtp c c3 fn a00 a11 a22 a01 a02 a12
          * (4 * (Gen.syevc3_cosphi c c3 fn a00 a11 a22 a01 a02 a12 * Gen.syevc3_cosphi c c3 fn a00 a11 a22 a01 a02 a12 * Gen.syevc3_cosphi c c3 fn a00 a11 a22 a01 a02 a12) - 3 * Gen.syevc3_cosphi c c3 fn a00 a11 a22 a01 a02 a12) = Gen.syevc3_q c c3 fn a00 a11 a22 a01 a02 a12) :
    Gen.syevc3_w0 c c3 fn a00 a11 a22 a01 a02 a12 + Gen.syevc3_w1 c c3 fn a00 a11 a22 a01 a02 a12 + Gen.syevc3_w2 c c3 fn a00 a11 a22 a01 a02 a12 = Gen.syevc3_m c c3 fn a00 a11 a22 a01 a02 a12
    ∧ Gen.syevc3_w0 c c3 fn a00 a11 a22 a01 a02 a12 * Gen.syevc3_w1 c c3 fn a00 a11 a22 a01 a02 a12 + Gen.syevc3_w0 c c3 fn a00 a11 a22 a01 a02 a12 * Gen.syevc3_w2 c c3 fn a00 a11 a22 a01 a02 a12 + Gen.syevc3_w1 c c3 fn a00 a11 a22 a01 a02 a12 * Gen.syevc3_w2 c c3 fn a00 a11 a22 a01 a02 a12 = Gen.syevc3_c1 c c3 fn a00 a11 a22 a01 a02 a12
    ∧ Gen.syevc3_w0 c c3 fn a00 a11 a22 a01 a02 a12 * Gen.syevc3_w1 c c3 fn a00 a11 a22 a01 a02 a12 * Gen.syevc3_w2 c c3 fn a00 a11 a22 a01 a02 a12 = -Gen.syevc3_c0 c c3 fn a00 a11 a22 a01 a02 a12 := by
  simp only [gen_simp] at hR hCS hq ⊢
  generalize fn.cos _ = C at *
  generalize fn.sin _ = S at *
  generalize fn.sqrt _ = R at *
  refine ⟨?_, ?_, ?_⟩
  · ring1
  · linear_combination (-(1 : K) / 3) * hR + (-(R * R) / 3) * hCS + (-(R * R * S * S) / 9) * hc3
  · linear_combination (2 / 27 : K) * hq + ((2 / 9) * R * C - ((a00 + a11 + a22) + 2 * R * C) / 9) * hR
      - (((a00 + a11 + a22) + 2 * R * C) / 9 * (R * R)) * hCS
      - (((a00 + a11 + a22) + 2 * R * C) / 9 * (R * R * S * S / 3)) * hc3

/-- the argument of the square root in `phi` is `p³ − q²` (a polynomial identity), so that
`cos(3φ) = q / p^(3/2)` for `3φ = atan2(sqrt(p³ − q²), q)` -/
theorem syevc3_discriminant (a00 a11 a22 a01 a02 a12 : K) (h2 : (2 : K) ≠ 0) :
    4 * (27 * ((1 / 4) * (Gen.syevc3_c1 c c3 fn a00 a11 a22 a01 a02 a12 * Gen.syevc3_c1 c c3 fn a00 a11 a22 a01 a02 a12) * (Gen.syevc3_p c c3 fn a00 a11 a22 a01 a02 a12 - Gen.syevc3_c1 c c3 fn a00 a11 a22 a01 a02 a12)
          + Gen.syevc3_c0 c c3 fn a00 a11 a22 a01 a02 a12 * (Gen.syevc3_q c c3 fn a00 a11 a22 a01 a02 a12 + (27 / 4) * Gen.syevc3_c0 c c3 fn a00 a11 a22 a01 a02 a12)))
      = 4 * (Gen.syevc3_p c c3 fn a00 a11 a22 a01 a02 a12 * Gen.syevc3_p c c3 fn a00 a11 a22 a01 a02 a12 * Gen.syevc3_p c c3 fn a00 a11 a22 a01 a02 a12 - Gen.syevc3_q c c3 fn a00 a11 a22 a01 a02 a12 * Gen.syevc3_q c c3 fn a00 a11 a22 a01 a02 a12) := by
  simp only [gen_simp]; ring1

/-- hence each returned value is a root of the characteristic polynomial, i.e. an eigenvalue -/
theorem syevc3_roots (a00 a11 a22 a01 a02 a12 : K) (h3 : (3 : K) ≠ 0) (h2 : (2 : K) ≠ 0) (hc3 : c3 * c3 = 3)
    (hR : Gen.syevc3_sqrtp c c3 fn a00 a11 a22 a01 a02 a12 * Gen.syevc3_sqrtp c c3 fn a00 a11 a22 a01 a02 a12 = Gen.syevc3_p c c3 fn a00 a11 a22 a01 a02 a12)
    (hCS : Gen.syevc3_cosphi c c3 fn a00 a11 a22 a01 a02 a12 * Gen.syevc3_cosphi c c3 fn a00 a11 a22 a01 a02 a12 + Gen.syevc3_sinphi c c3 fn a00 a11 a22 a01 a02 a12 * Gen.syevc3_sinphi c c3 fn a00 a11 a22 a01 a02 a12 = 1)
    (hq : Gen.syevc3_sqrtp c c3 fn a00 a11 a22 a01 a02 a12 * Gen.syevc3_sqrtp c c3 fn a00 a11 a22 a01 a02 a12 * Gen.syevc3_sqrtp c c3 fn a00 a11 a22 a01 a02 a12
          * (4 * (Gen.syevc3_cosphi c c3 fn a00 a11 a22 a01 a02 a12 * Gen.syevc3_cosphi c c3 fn a00 a11 a22 a01 a02 a12 * Gen.syevc3_cosphi c c3 fn a00 a11 a22 a01 a02 a12) - 3 * Gen.syevc3_cosphi c c3 fn a00 a11 a22 a01 a02 a12) = Gen.syevc3_q c c3 fn a00 a11 a22 a01 a02 a12) :
    (Gen.syevc3_w0 c c3 fn a00 a11 a22 a01 a02 a12 • (1 : M3 K) - M3.sym a00 a11 a22 a01 a02 a12).det = 0
    ∧ (Gen.syevc3_w1 c c3 fn a00 a11 a22 a01 a02 a12 • (1 : M3 K) - M3.sym a00 a11 a22 a01 a02 a12).det = 0
    ∧ (Gen.syevc3_w2 c c3 fn a00 a11 a22 a01 a02 a12 • (1 : M3 K) - M3.sym a00 a11 a22 a01 a02 a12).det = 0 := by
  obtain ⟨v1, v2, v3⟩ := syevc3_vieta c c3 fn a00 a11 a22 a01 a02 a12 h3 h2 hc3 hR hCS hq
  rw [syevc3_charpoly, syevc3_charpoly, syevc3_charpoly, ← v1, ← v2]
  have v3' : Gen.syevc3_c0 c c3 fn a00 a11 a22 a01 a02 a12 = -(Gen.syevc3_w0 c c3 fn a00 a11 a22 a01 a02 a12 * Gen.syevc3_w1 c c3 fn a00 a11 a22 a01 a02 a12 * Gen.syevc3_w2 c c3 fn a00 a11 a22 a01 a02 a12) := by rw [v3]; ring
  rw [v3']
  generalize Gen.syevc3_w0 c c3 fn a00 a11 a22 a01 a02 a12 = x0
  generalize Gen.syevc3_w1 c c3 fn a00 a11 a22 a01 a02 a12 = x1
  generalize Gen.syevc3_w2 c c3 fn a00 a11 a22 a01 a02 a12 = x2
  refine ⟨by ring, by ring, by ring⟩

end char0

end TfelVerif.C03.Props
