/-
  C03 — helper lemmas: orthogonal similarities of explicit 3×3 matrices, the invariant of the iterative
  solvers and its induction, plane rotations, Householder reflections.
-/
import TfelVerif.Common.M3
import Mathlib.LinearAlgebra.Matrix.NonsingularInverse
import Mathlib.Tactic.Linarith

namespace TfelVerif.C03
open TfelVerif TfelVerif.Mandel
variable {K : Type} [Field K]
set_option linter.unusedSectionVars false
set_option linter.unusedVariables false
set_option linter.unusedSimpArgs false

/-- unfold generated code and explicit matrices down to field expressions -/
macro "c03_unfold" : tactic =>
  `(tactic| simp only [gen_simp, M3.sym, M3.diag, M3.mul_def, M3.mul, M3.one_def, M3.one, M3.add_def, M3.add,
      M3.sub_def, M3.sub, M3.smul_def, M3.smul, M3.transpose, M3.outer, M3.trace, M3.det, M3.frob, M3.mk.injEq,
      List.cons.injEq, and_true, true_and])

macro "m3_ring" : tactic =>
  `(tactic| ((try c03_unfold); (repeat' apply And.intro); all_goals (first | trivial | rfl | ring1)))

theorem m3_mul_assoc (A B C : M3 K) : A * B * C = A * (B * C) := by m3_ring
theorem m3_mul_one (A : M3 K) : A * 1 = A := by cases A; m3_ring
theorem m3_one_mul (A : M3 K) : 1 * A = A := by cases A; m3_ring
theorem m3_transpose_mul (A B : M3 K) : (A * B).transpose = B.transpose * A.transpose := by m3_ring
theorem m3_transpose_one : (1 : M3 K).transpose = 1 := rfl

/-- `V` orthogonal (as polynomial equations): `Vᵀ V = 1` -/
def Orth (V : M3 K) : Prop := V.transpose * V = 1

theorem orth_right {M : M3 K} (h : Orth M) : M * M.transpose = 1 := by
  unfold Orth at h
  apply M3.toMatrix_injective
  have h' : M.transpose.toMatrix * M.toMatrix = 1 := by
    rw [← M3.toMatrix_mul, h, M3.toMatrix_one]
  rw [M3.toMatrix_mul, M3.toMatrix_one]
  exact mul_eq_one_comm.mp h'

theorem orth_one : Orth (1 : M3 K) := by unfold Orth; rw [m3_transpose_one, m3_one_mul]

theorem orth_mul {V R : M3 K} (hV : Orth V) (hR : Orth R) : Orth (V * R) := by
  unfold Orth at *
  rw [m3_transpose_mul]
  calc R.transpose * V.transpose * (V * R) = R.transpose * (V.transpose * V) * R := by simp only [m3_mul_assoc]
    _ = 1 := by rw [hV, m3_mul_one, hR]

/-- invariant of the iterative solvers (Jacobi, tridiagonalisation + QL): the current matrix `A` is the
original `A0` in the orthonormal basis accumulated in `V` -/
def Inv (A0 V A : M3 K) : Prop := A0 = V * A * V.transpose ∧ Orth V

theorem inv_init (A0 : M3 K) : Inv A0 1 A0 :=
  ⟨by rw [m3_transpose_one, m3_one_mul, m3_mul_one], orth_one⟩

/-- one step: replacing `A` by `Rᵀ A R` and `V` by `V R` with `R` orthogonal preserves the invariant -/
theorem inv_step {A0 V A R : M3 K} (h : Inv A0 V A) (hR : Orth R) :
    Inv A0 (V * R) (R.transpose * A * R) := by
  obtain ⟨h1, h2⟩ := h
  refine ⟨?_, orth_mul h2 hR⟩
  have hr := orth_right hR
  rw [m3_transpose_mul, h1]
  calc V * A * V.transpose = V * ((R * R.transpose) * A * (R * R.transpose)) * V.transpose := by
        rw [hr, m3_one_mul, m3_mul_one]
    _ = V * R * (R.transpose * A * R) * (R.transpose * V.transpose) := by simp only [m3_mul_assoc]

/-- any number of steps (any sequence of orthogonal `R`s: rotations of any sweeps, reflections) -/
def steps : List (M3 K) → M3 K × M3 K → M3 K × M3 K
  | [], s => s
  | R :: Rs, (V, A) => steps Rs (V * R, R.transpose * A * R)

theorem inv_steps (A0 : M3 K) : ∀ (Rs : List (M3 K)) (V A : M3 K), (∀ R ∈ Rs, Orth R) → Inv A0 V A →
    Inv A0 (steps Rs (V, A)).1 (steps Rs (V, A)).2
  | [], V, A, _, h => h
  | R :: Rs, V, A, hR, h => by
      simp only [steps]
      exact inv_steps A0 Rs _ _ (fun R' hR' => hR R' (List.mem_cons_of_mem _ hR'))
        (inv_step h (hR R (List.mem_cons_self)))

/-- on exit with a diagonal matrix: spectral decomposition, orthonormal eigenvectors, eigen-equation -/
theorem inv_exit {A0 V : M3 K} {w0 w1 w2 : K} (h : Inv A0 V (M3.diag w0 w1 w2)) :
    A0 = V * M3.diag w0 w1 w2 * V.transpose ∧ Orth V ∧ A0 * V = V * M3.diag w0 w1 w2 := by
  obtain ⟨h1, h2⟩ := h
  refine ⟨h1, h2, ?_⟩
  have : V.transpose * V = 1 := h2
  rw [h1, m3_mul_assoc, this, m3_mul_one]

/-! ### plane rotations (`Q' = Q G`: column p ← c·col p − s·col q, column q ← s·col p + c·col q) -/
def G01 (c s : K) : M3 K := ⟨c, s, 0, -s, c, 0, 0, 0, 1⟩
def G02 (c s : K) : M3 K := ⟨c, 0, s, 0, 1, 0, -s, 0, c⟩
def G12 (c s : K) : M3 K := ⟨1, 0, 0, 0, c, s, 0, -s, c⟩

theorem orth_G01 {c s : K} (h : c * c + s * s = 1) : Orth (G01 c s) := by
  unfold Orth G01; c03_unfold; (repeat' apply And.intro) <;> first | ring1 | linear_combination h
theorem orth_G02 {c s : K} (h : c * c + s * s = 1) : Orth (G02 c s) := by
  unfold Orth G02; c03_unfold; (repeat' apply And.intro) <;> first | ring1 | linear_combination h
theorem orth_G12 {c s : K} (h : c * c + s * s = 1) : Orth (G12 c s) := by
  unfold Orth G12; c03_unfold; (repeat' apply And.intro) <;> first | ring1 | linear_combination h

/-- the Jacobi parameters: with `θ = (h/2)/a`, `r1² = 1 + θ²`, `t = ±1/(r1 ± θ)`, `r2² = 1 + t²`, `c = 1/r2`,
`s = t c`: `c² + s² = 1` and `t` annihilates the off-diagonal entry: `a t² + h t − a = 0` -/
theorem jacobi_params_pos {a h r1 r2 : K} (ha : a ≠ 0) (hr1 : r1 * r1 = 1 + ((1 / 2 * h) / a) * ((1 / 2 * h) / a))
    (hd : r1 + (1 / 2 * h) / a ≠ 0) (h2 : (2 : K) ≠ 0)
    (hr2 : r2 * r2 = 1 + (1 / (r1 + (1 / 2 * h) / a)) * (1 / (r1 + (1 / 2 * h) / a))) (hr2n : r2 ≠ 0) :
    (1 / r2) * (1 / r2) + (1 / (r1 + (1 / 2 * h) / a) * (1 / r2)) * (1 / (r1 + (1 / 2 * h) / a) * (1 / r2)) = 1
    ∧ a * (1 / (r1 + (1 / 2 * h) / a)) * (1 / (r1 + (1 / 2 * h) / a)) + h * (1 / (r1 + (1 / 2 * h) / a)) - a = 0 := by
  generalize hθ : (1 / 2 * h) / a = θ at *
  have hh : h = 2 * a * θ := by rw [← hθ]; field_simp
  generalize ht : 1 / (r1 + θ) = t at *
  have ht' : t * (r1 + θ) = 1 := by rw [← ht]; field_simp
  constructor
  · field_simp
    linear_combination (-1 : K) * hr2
  · subst hh
    have : t * t * (r1 * r1 - θ * θ) = t * (r1 - θ) := by
      have := congrArg (fun x => x * (t * (r1 - θ))) ht'
      simp only [one_mul] at this
      linear_combination this
    rw [hr1] at this
    linear_combination a * this + a * ht'

theorem jacobi_params_neg {a h r1 r2 : K} (ha : a ≠ 0) (hr1 : r1 * r1 = 1 + ((1 / 2 * h) / a) * ((1 / 2 * h) / a))
    (hd : r1 - (1 / 2 * h) / a ≠ 0) (h2 : (2 : K) ≠ 0)
    (hr2 : r2 * r2 = 1 + (-1 / (r1 - (1 / 2 * h) / a)) * (-1 / (r1 - (1 / 2 * h) / a))) (hr2n : r2 ≠ 0) :
    (1 / r2) * (1 / r2) + (-1 / (r1 - (1 / 2 * h) / a) * (1 / r2)) * (-1 / (r1 - (1 / 2 * h) / a) * (1 / r2)) = 1
    ∧ a * (-1 / (r1 - (1 / 2 * h) / a)) * (-1 / (r1 - (1 / 2 * h) / a)) + h * (-1 / (r1 - (1 / 2 * h) / a)) - a = 0 := by
  generalize hθ : (1 / 2 * h) / a = θ at *
  have hh : h = 2 * a * θ := by rw [← hθ]; field_simp
  generalize ht : -1 / (r1 - θ) = t at *
  have ht' : t * (r1 - θ) = -1 := by rw [← ht]; field_simp
  constructor
  · field_simp
    linear_combination (-1 : K) * hr2
  · subst hh
    have : t * t * (r1 * r1 - θ * θ) = -(t * (r1 + θ)) := by
      have := congrArg (fun x => x * (t * (r1 + θ))) ht'
      simp only [neg_mul, one_mul] at this
      linear_combination this
    rw [hr1] at this
    linear_combination a * this - a * ht'

/-- the update performed by the rotation code on the pair (0,1) is the similarity by `G01 c s`, provided
`c² + s² = 1`, `s = t c` and `a01 t² + (a11 − a00) t − a01 = 0` -/
theorem rot01_similarity {a00 a11 a22 a01 a02 a12 c s t : K} (hcs : c * c + s * s = 1) (hs : s = t * c)
    (ht : a01 * t * t + (a11 - a00) * t - a01 = 0) :
    (G01 c s).transpose * M3.sym a00 a11 a22 a01 a02 a12 * G01 c s
      = M3.sym (a00 - t * a01) (a11 + t * a01) a22 0 (c * a02 - s * a12) (s * a02 + c * a12) := by
  subst hs
  unfold G01; c03_unfold
  refine ⟨?_, ?_, ?_, ?_, ?_, ?_, ?_, ?_, ?_⟩
  · linear_combination (a00 - t * a01) * hcs + c * c * t * ht
  · linear_combination (-(c * c)) * ht
  · ring1
  · linear_combination (-(c * c)) * ht
  · linear_combination (a11 + t * a01) * hcs - c * c * t * ht
  · ring1
  · ring1
  · ring1
  · ring1

theorem rot02_similarity {a00 a11 a22 a01 a02 a12 c s t : K} (hcs : c * c + s * s = 1) (hs : s = t * c)
    (ht : a02 * t * t + (a22 - a00) * t - a02 = 0) :
    (G02 c s).transpose * M3.sym a00 a11 a22 a01 a02 a12 * G02 c s
      = M3.sym (a00 - t * a02) a11 (a22 + t * a02) (c * a01 - s * a12) 0 (s * a01 + c * a12) := by
  subst hs
  unfold G02; c03_unfold
  refine ⟨?_, ?_, ?_, ?_, ?_, ?_, ?_, ?_, ?_⟩
  · linear_combination (a00 - t * a02) * hcs + c * c * t * ht
  · ring1
  · linear_combination (-(c * c)) * ht
  · ring1
  · ring1
  · ring1
  · linear_combination (-(c * c)) * ht
  · ring1
  · linear_combination (a22 + t * a02) * hcs - c * c * t * ht

theorem rot12_similarity {a00 a11 a22 a01 a02 a12 c s t : K} (hcs : c * c + s * s = 1) (hs : s = t * c)
    (ht : a12 * t * t + (a22 - a11) * t - a12 = 0) :
    (G12 c s).transpose * M3.sym a00 a11 a22 a01 a02 a12 * G12 c s
      = M3.sym a00 (a11 - t * a12) (a22 + t * a12) (c * a01 - s * a02) (s * a01 + c * a02) 0 := by
  subst hs
  unfold G12; c03_unfold
  refine ⟨?_, ?_, ?_, ?_, ?_, ?_, ?_, ?_, ?_⟩
  · ring1
  · ring1
  · ring1
  · ring1
  · linear_combination (a11 - t * a12) * hcs + c * c * t * ht
  · linear_combination (-(c * c)) * ht
  · ring1
  · linear_combination (-(c * c)) * ht
  · linear_combination (a22 + t * a12) * hcs - c * c * t * ht

end TfelVerif.C03
