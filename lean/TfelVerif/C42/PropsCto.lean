/-
  C42/PropsCto.lean — the operator computed by the generated `computeConsistentTangentOperator` of the behaviour
  generated from mfront/tests/behaviours/ImplicitNorton.mfront (`@TangentOperator` block), 3D and plane stress.

  Units (harness/C41/trace_implicit.cxx):
  `IN_<H>_ela`: `computeConsistentTangentOperator(ELASTIC)`: the (altered) elastic stiffness (C21's tensors);
  `IN_<H>_cto`: `computeConsistentTangentOperator(CONSISTENTTANGENTOPERATOR)` with the LU kernels answered by an oracle
     returning the columns of a symbolic matrix `iJ` (inputs `iJ<a>_<b>`; the inverse of the jacobian, C07): the
     operator is `Hooke · (iJ)_{εel,εel}`, the upper-left block of the inverse jacobian times the elastic stiffness —
     the expression the implicit function theorem gives (PropsIFT.lean).
  Property theorems only.
-/
import TfelVerif.C42.GenCto
import TfelVerif.C41.Spec
import Mathlib.Tactic.FieldSimp
import Mathlib.Tactic.Ring
import Mathlib.Tactic.NormNum

namespace TfelVerif.C42
open TfelVerif TfelVerif.C41 TfelVerif.C42.GenCto
set_option linter.unusedVariables false
set_option linter.unusedSectionVars false

variable {K : Type} [Field K] (c c3 : K) (fn : Fns K)

local macro "t_close" : tactic =>
  `(tactic| (simp only [gen_simp, stiff, hooke, lam, mu, List.map, List.cons.injEq, and_true, List.range, List.range.loop,
      List.flatMap_cons, List.flatMap_nil, List.append_nil, List.cons_append, List.nil_append, List.getD_cons_zero, List.getD_cons_succ]
             ; all_goals (repeat' apply And.intro) ; all_goals (first | rfl | ring1 | (norm_num <;> ring1))))

theorem IN_3D_ela_stiffness (i : IN_3D_ela_In K) :
    IN_3D_ela_Dt_list c c3 fn i = stiff (lam i.young i.nu) (mu i.young i.nu) 6 := by t_close

/-- plane stress: the altered stiffness (condensed on zz) -/
theorem IN_PSTRESS_ela_stiffness (i : IN_PSTRESS_ela_In K)
    (h3 : lam i.young i.nu + 2 * mu i.young i.nu ≠ 0) :
    let l := lam i.young i.nu
    let m := mu i.young i.nu
    IN_PSTRESS_ela_Dt_list c c3 fn i =
      [4 * m * (l + m) / (l + 2 * m), 2 * m * l / (l + 2 * m), 0, 0,
       2 * m * l / (l + 2 * m), 4 * m * (l + m) / (l + 2 * m), 0, 0,
       0, 0, 0, 0,
       0, 0, 0, 2 * m] := by
  intro l m
  simp only [l, m, gen_simp, lam, mu, List.cons.injEq, and_true]
  all_goals (repeat' apply And.intro)
  all_goals (first | rfl | ring1)

/-- every column `b` of the operator is Hooke's law (`λ 1⊗1 + 2μ I`) applied to column `b` of the `εel,εel` block
of the inverse jacobian, i.e. `Dt = Hooke · iJ_{εel,εel}` -/
theorem IN_3D_cto_operator (i : IN_3D_cto_In K) :
    [IN_3D_cto_Dt0_0 c c3 fn i, IN_3D_cto_Dt1_0 c c3 fn i, IN_3D_cto_Dt2_0 c c3 fn i, IN_3D_cto_Dt3_0 c c3 fn i, IN_3D_cto_Dt4_0 c c3 fn i, IN_3D_cto_Dt5_0 c c3 fn i] = hooke (lam i.young i.nu) (mu i.young i.nu) [i.iJ0_0, i.iJ1_0, i.iJ2_0, i.iJ3_0, i.iJ4_0, i.iJ5_0]
    ∧ [IN_3D_cto_Dt0_1 c c3 fn i, IN_3D_cto_Dt1_1 c c3 fn i, IN_3D_cto_Dt2_1 c c3 fn i, IN_3D_cto_Dt3_1 c c3 fn i, IN_3D_cto_Dt4_1 c c3 fn i, IN_3D_cto_Dt5_1 c c3 fn i] = hooke (lam i.young i.nu) (mu i.young i.nu) [i.iJ0_1, i.iJ1_1, i.iJ2_1, i.iJ3_1, i.iJ4_1, i.iJ5_1]
    ∧ [IN_3D_cto_Dt0_2 c c3 fn i, IN_3D_cto_Dt1_2 c c3 fn i, IN_3D_cto_Dt2_2 c c3 fn i, IN_3D_cto_Dt3_2 c c3 fn i, IN_3D_cto_Dt4_2 c c3 fn i, IN_3D_cto_Dt5_2 c c3 fn i] = hooke (lam i.young i.nu) (mu i.young i.nu) [i.iJ0_2, i.iJ1_2, i.iJ2_2, i.iJ3_2, i.iJ4_2, i.iJ5_2]
    ∧ [IN_3D_cto_Dt0_3 c c3 fn i, IN_3D_cto_Dt1_3 c c3 fn i, IN_3D_cto_Dt2_3 c c3 fn i, IN_3D_cto_Dt3_3 c c3 fn i, IN_3D_cto_Dt4_3 c c3 fn i, IN_3D_cto_Dt5_3 c c3 fn i] = hooke (lam i.young i.nu) (mu i.young i.nu) [i.iJ0_3, i.iJ1_3, i.iJ2_3, i.iJ3_3, i.iJ4_3, i.iJ5_3]
    ∧ [IN_3D_cto_Dt0_4 c c3 fn i, IN_3D_cto_Dt1_4 c c3 fn i, IN_3D_cto_Dt2_4 c c3 fn i, IN_3D_cto_Dt3_4 c c3 fn i, IN_3D_cto_Dt4_4 c c3 fn i, IN_3D_cto_Dt5_4 c c3 fn i] = hooke (lam i.young i.nu) (mu i.young i.nu) [i.iJ0_4, i.iJ1_4, i.iJ2_4, i.iJ3_4, i.iJ4_4, i.iJ5_4]
    ∧ [IN_3D_cto_Dt0_5 c c3 fn i, IN_3D_cto_Dt1_5 c c3 fn i, IN_3D_cto_Dt2_5 c c3 fn i, IN_3D_cto_Dt3_5 c c3 fn i, IN_3D_cto_Dt4_5 c c3 fn i, IN_3D_cto_Dt5_5 c c3 fn i] = hooke (lam i.young i.nu) (mu i.young i.nu) [i.iJ0_5, i.iJ1_5, i.iJ2_5, i.iJ3_5, i.iJ4_5, i.iJ5_5] := by
  refine ⟨?_, ?_, ?_, ?_, ?_, ?_⟩ <;> t_close

/-- every column `b` of the operator is Hooke's law (`λ 1⊗1 + 2μ I`) applied to column `b` of the `εel,εel` block
of the inverse jacobian, i.e. `Dt = Hooke · iJ_{εel,εel}` -/
theorem IN_PSTRESS_cto_operator (i : IN_PSTRESS_cto_In K) :
    [IN_PSTRESS_cto_Dt0_0 c c3 fn i, IN_PSTRESS_cto_Dt1_0 c c3 fn i, IN_PSTRESS_cto_Dt2_0 c c3 fn i, IN_PSTRESS_cto_Dt3_0 c c3 fn i] = hooke (lam i.young i.nu) (mu i.young i.nu) [i.iJ0_0, i.iJ1_0, i.iJ2_0, i.iJ3_0]
    ∧ [IN_PSTRESS_cto_Dt0_1 c c3 fn i, IN_PSTRESS_cto_Dt1_1 c c3 fn i, IN_PSTRESS_cto_Dt2_1 c c3 fn i, IN_PSTRESS_cto_Dt3_1 c c3 fn i] = hooke (lam i.young i.nu) (mu i.young i.nu) [i.iJ0_1, i.iJ1_1, i.iJ2_1, i.iJ3_1]
    ∧ [IN_PSTRESS_cto_Dt0_2 c c3 fn i, IN_PSTRESS_cto_Dt1_2 c c3 fn i, IN_PSTRESS_cto_Dt2_2 c c3 fn i, IN_PSTRESS_cto_Dt3_2 c c3 fn i] = hooke (lam i.young i.nu) (mu i.young i.nu) [i.iJ0_2, i.iJ1_2, i.iJ2_2, i.iJ3_2]
    ∧ [IN_PSTRESS_cto_Dt0_3 c c3 fn i, IN_PSTRESS_cto_Dt1_3 c c3 fn i, IN_PSTRESS_cto_Dt2_3 c c3 fn i, IN_PSTRESS_cto_Dt3_3 c c3 fn i] = hooke (lam i.young i.nu) (mu i.young i.nu) [i.iJ0_3, i.iJ1_3, i.iJ2_3, i.iJ3_3] := by
  refine ⟨?_, ?_, ?_, ?_⟩ <;> t_close

end TfelVerif.C42
