/-
  C42/Lemmas.lean — the implicit function argument in algebraic form.

  If the residuals `F_r(Y, ε)` vanish along the solution (`D F_r = 0`), `D F_r = Σ_b J_rb D Y_b - D E_r` (jacobian
  theorems, C43 form) and `iJ` is a left inverse of `J`, then `D Y_a = Σ_r iJ_ar D E_r`.
-/
import Mathlib.Algebra.BigOperators.Fin
import Mathlib.Algebra.BigOperators.Ring.Finset
import Mathlib.Tactic.Ring

namespace TfelVerif.C42
open Finset
variable {K : Type} [Field K]

theorem implicit_function {n : ℕ} (J iJ : Fin n → Fin n → K) (dY dE : Fin n → K)
    (hinv : ∀ a b, ∑ r, iJ a r * J r b = if a = b then 1 else 0)
    (hrow : ∀ r, ∑ b, J r b * dY b = dE r) (a : Fin n) : dY a = ∑ r, iJ a r * dE r := by
  calc dY a = ∑ b, (if a = b then (1 : K) else 0) * dY b := by simp
    _ = ∑ b, (∑ r, iJ a r * J r b) * dY b := by simp_rw [hinv]
    _ = ∑ b, ∑ r, iJ a r * (J r b * dY b) := by
        refine Finset.sum_congr rfl (fun b _ => ?_)
        rw [Finset.sum_mul]
        exact Finset.sum_congr rfl (fun r _ => by ring)
    _ = ∑ r, ∑ b, iJ a r * (J r b * dY b) := Finset.sum_comm
    _ = ∑ r, iJ a r * ∑ b, J r b * dY b := by simp_rw [Finset.mul_sum]
    _ = ∑ r, iJ a r * dE r := by simp_rw [hrow]

end TfelVerif.C42
