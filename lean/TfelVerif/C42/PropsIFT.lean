/-
  C42/PropsIFT.lean — "the returned operator equals the derivative of the integrated stress with respect to the
  strain": implicit function form, behaviour generated from mfront/tests/behaviours/ImplicitNorton.mfront, 3D.

  Ingredients, all about traced code: (1) C42/PropsFdF.lean: `D F_r = Σ_b J_rb D Y_b - D Δε_r` for the traced residual
  and jacobian of `computeFdF`; (2) C41/PropsI.lean `IN_3D_step_update`: the returned stress is Hooke's law at
  `eel + Δeel`; (3) PropsCto.lean `IN_3D_cto_operator`: the operator is `Hooke · iJ_{εel,εel}`.
  Theorem: along any family of converged solutions (`D F_r = 0` for the 7 residuals), with `iJ` a left inverse of the
  traced jacobian, the derivative of the returned stress is `(Hooke · iJ_{εel,εel}) · D Δε` — the operator of (3).
  Property theorems only.
-/
import TfelVerif.C42.PropsFdF
import TfelVerif.C42.Lemmas
import TfelVerif.C41.Spec
import Mathlib.Data.Fin.VecNotation
import Mathlib.Tactic.FinCases
import Mathlib.Tactic.LinearCombination

namespace TfelVerif.C42
open TfelVerif TfelVerif.C41 TfelVerif.C43 TfelVerif.C42.GenFdF Finset
set_option linter.unusedVariables false
set_option linter.unusedSectionVars false

variable {K : Type} [Field K] [CharZero K] (c c3 : K) (fn : Fns K) (D : Derivation ℤ K K)

/-- the traced jacobian as a matrix -/
def jac3D (i : IN_3D_fdf_In K) : Fin 7 → Fin 7 → K :=
  ![![IN_3D_fdf_J0_0 c c3 fn i, IN_3D_fdf_J0_1 c c3 fn i, IN_3D_fdf_J0_2 c c3 fn i, IN_3D_fdf_J0_3 c c3 fn i, IN_3D_fdf_J0_4 c c3 fn i, IN_3D_fdf_J0_5 c c3 fn i, IN_3D_fdf_J0_6 c c3 fn i],
      ![IN_3D_fdf_J1_0 c c3 fn i, IN_3D_fdf_J1_1 c c3 fn i, IN_3D_fdf_J1_2 c c3 fn i, IN_3D_fdf_J1_3 c c3 fn i, IN_3D_fdf_J1_4 c c3 fn i, IN_3D_fdf_J1_5 c c3 fn i, IN_3D_fdf_J1_6 c c3 fn i],
      ![IN_3D_fdf_J2_0 c c3 fn i, IN_3D_fdf_J2_1 c c3 fn i, IN_3D_fdf_J2_2 c c3 fn i, IN_3D_fdf_J2_3 c c3 fn i, IN_3D_fdf_J2_4 c c3 fn i, IN_3D_fdf_J2_5 c c3 fn i, IN_3D_fdf_J2_6 c c3 fn i],
      ![IN_3D_fdf_J3_0 c c3 fn i, IN_3D_fdf_J3_1 c c3 fn i, IN_3D_fdf_J3_2 c c3 fn i, IN_3D_fdf_J3_3 c c3 fn i, IN_3D_fdf_J3_4 c c3 fn i, IN_3D_fdf_J3_5 c c3 fn i, IN_3D_fdf_J3_6 c c3 fn i],
      ![IN_3D_fdf_J4_0 c c3 fn i, IN_3D_fdf_J4_1 c c3 fn i, IN_3D_fdf_J4_2 c c3 fn i, IN_3D_fdf_J4_3 c c3 fn i, IN_3D_fdf_J4_4 c c3 fn i, IN_3D_fdf_J4_5 c c3 fn i, IN_3D_fdf_J4_6 c c3 fn i],
      ![IN_3D_fdf_J5_0 c c3 fn i, IN_3D_fdf_J5_1 c c3 fn i, IN_3D_fdf_J5_2 c c3 fn i, IN_3D_fdf_J5_3 c c3 fn i, IN_3D_fdf_J5_4 c c3 fn i, IN_3D_fdf_J5_5 c c3 fn i, IN_3D_fdf_J5_6 c c3 fn i],
      ![IN_3D_fdf_J6_0 c c3 fn i, IN_3D_fdf_J6_1 c c3 fn i, IN_3D_fdf_J6_2 c c3 fn i, IN_3D_fdf_J6_3 c c3 fn i, IN_3D_fdf_J6_4 c c3 fn i, IN_3D_fdf_J6_5 c c3 fn i, IN_3D_fdf_J6_6 c c3 fn i]]

/-- returned stress (C41 `IN_3D_step_update`): Hooke's law at `eel + Δeel` -/
def sigEnd (i : IN_3D_fdf_In K) : List K := hooke (lam i.young i.nu) (mu i.young i.nu)
  [i.eel0 + i.deel0, i.eel1 + i.deel1, i.eel2 + i.deel2, i.eel3 + i.deel3, i.eel4 + i.deel4, i.eel5 + i.deel5]

set_option maxHeartbeats 4000000 in
theorem IN_3D_consistent_tangent (i : IN_3D_fdf_In K) (iJ : Fin 7 → Fin 7 → K)
    (hsqrt : ∀ x, D (fn.sqrt x) = D x / (2 * fn.sqrt x)) (hpow : ∀ x a, D a = 0 → D (fn.pow x a) = a * fn.pow x a / x * D x)
    (hmax2 : IN_3D_fdf_fn2 c c3 fn i = IN_3D_fdf_fn2_a c c3 fn i)
    (hnz0 : IN_3D_fdf_fn0 c c3 fn i ≠ 0) (hnz1 : IN_3D_fdf_fn1_a c c3 fn i ≠ 0)
    (h1 : 1 + i.nu ≠ 0) (h2 : 1 - 2 * i.nu ≠ 0)
    (hc_dt : D i.dt = 0) (hc_young : D i.young = 0) (hc_nu : D i.nu = 0) (hc_eel0 : D i.eel0 = 0) (hc_eel1 : D i.eel1 = 0) (hc_eel2 : D i.eel2 = 0) (hc_eel3 : D i.eel3 = 0) (hc_eel4 : D i.eel4 = 0) (hc_eel5 : D i.eel5 = 0) (hc_p : D i.p = 0) (hc_theta : D i.theta = 0)
    (hinv : ∀ a b, ∑ r, iJ a r * jac3D c c3 fn i r b = if a = b then 1 else 0)
    (hF : D (IN_3D_fdf_F0 c c3 fn i) = 0 ∧ D (IN_3D_fdf_F1 c c3 fn i) = 0 ∧ D (IN_3D_fdf_F2 c c3 fn i) = 0
      ∧ D (IN_3D_fdf_F3 c c3 fn i) = 0 ∧ D (IN_3D_fdf_F4 c c3 fn i) = 0 ∧ D (IN_3D_fdf_F5 c c3 fn i) = 0
      ∧ D (IN_3D_fdf_F6 c c3 fn i) = 0) :
    let dE : Fin 7 → K := ![D i.deto0, D i.deto1, D i.deto2, D i.deto3, D i.deto4, D i.deto5, 0]
    let dEel : Fin 7 → K := fun a => ∑ r, iJ a r * dE r
    [D ((sigEnd i).getD 0 0), D ((sigEnd i).getD 1 0), D ((sigEnd i).getD 2 0),
     D ((sigEnd i).getD 3 0), D ((sigEnd i).getD 4 0), D ((sigEnd i).getD 5 0)]
    = hooke (lam i.young i.nu) (mu i.young i.nu) [dEel 0, dEel 1, dEel 2, dEel 3, dEel 4, dEel 5] := by
  intro dE dEel
  obtain ⟨f0, f1, f2, f3, f4, f5, f6⟩ := hF
  have r0 := IN_3D_fdf_row0 c c3 fn D i hsqrt hpow hmax2 hnz0 hnz1 h1 h2 hc_dt hc_young hc_nu hc_eel0 hc_eel1 hc_eel2 hc_eel3 hc_eel4 hc_eel5 hc_p hc_theta
  have r1 := IN_3D_fdf_row1 c c3 fn D i hsqrt hpow hmax2 hnz0 hnz1 h1 h2 hc_dt hc_young hc_nu hc_eel0 hc_eel1 hc_eel2 hc_eel3 hc_eel4 hc_eel5 hc_p hc_theta
  have r2 := IN_3D_fdf_row2 c c3 fn D i hsqrt hpow hmax2 hnz0 hnz1 h1 h2 hc_dt hc_young hc_nu hc_eel0 hc_eel1 hc_eel2 hc_eel3 hc_eel4 hc_eel5 hc_p hc_theta
  have r3 := IN_3D_fdf_row3 c c3 fn D i hsqrt hpow hmax2 hnz0 hnz1 h1 h2 hc_dt hc_young hc_nu hc_eel0 hc_eel1 hc_eel2 hc_eel3 hc_eel4 hc_eel5 hc_p hc_theta
  have r4 := IN_3D_fdf_row4 c c3 fn D i hsqrt hpow hmax2 hnz0 hnz1 h1 h2 hc_dt hc_young hc_nu hc_eel0 hc_eel1 hc_eel2 hc_eel3 hc_eel4 hc_eel5 hc_p hc_theta
  have r5 := IN_3D_fdf_row5 c c3 fn D i hsqrt hpow hmax2 hnz0 hnz1 h1 h2 hc_dt hc_young hc_nu hc_eel0 hc_eel1 hc_eel2 hc_eel3 hc_eel4 hc_eel5 hc_p hc_theta
  have r6 := IN_3D_fdf_row6 c c3 fn D i hsqrt hpow hmax2 hnz0 hnz1 h1 h2 hc_dt hc_young hc_nu hc_eel0 hc_eel1 hc_eel2 hc_eel3 hc_eel4 hc_eel5 hc_p hc_theta
  rw [f0] at r0; rw [f1] at r1; rw [f2] at r2; rw [f3] at r3; rw [f4] at r4; rw [f5] at r5; rw [f6] at r6
  let dY : Fin 7 → K := ![D i.deel0, D i.deel1, D i.deel2, D i.deel3, D i.deel4, D i.deel5, D i.dp]
  have hrow : ∀ r, ∑ b, jac3D c c3 fn i r b * dY b = dE r := by
    intro r
    fin_cases r <;> simp [Fin.sum_univ_succ, jac3D, dY, dE]
    · linear_combination -r0
    · linear_combination -r1
    · linear_combination -r2
    · linear_combination -r3
    · linear_combination -r4
    · linear_combination -r5
    · linear_combination -r6
  have key := implicit_function (jac3D c c3 fn i) iJ dY dE hinv hrow
  have k0 := key 0; have k1 := key 1; have k2 := key 2; have k3 := key 3; have k4 := key 4; have k5 := key 5
  simp only [dY, Matrix.cons_val_zero, Matrix.cons_val_one, Matrix.cons_val] at k0 k1 k2 k3 k4 k5
  have hl := D_lam D i.young i.nu hc_young hc_nu
  have hm := D_mu D i.young i.nu hc_young hc_nu
  simp only [sigEnd, hooke, lam, mu, List.map, List.getD_cons_zero, List.getD_cons_succ, List.cons.injEq, and_true, dEel]
  simp only [Derivation.leibniz, map_add, hl, hm, D_ofNat, hc_eel0, hc_eel1, hc_eel2, hc_eel3, hc_eel4, hc_eel5,
    smul_eq_mul, mul_zero, zero_mul, add_zero, zero_add]
  rw [← k0, ← k1, ← k2, ← k3, ← k4, ← k5]
  refine ⟨?_, ?_, ?_, ?_, ?_, ?_⟩ <;> ring1

end TfelVerif.C42
