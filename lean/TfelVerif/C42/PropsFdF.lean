/-
  C42/PropsFdF.lean — hand-written analytical jacobian of mfront/tests/behaviours/ImplicitNorton.mfront (Implicit DSL, 3D)
  Unit `IN_3D_fdf`. One theorem per residual `F<r>`: `D (F_r) = Σ_k J_r_k · D (y_k) - D (deto_r)` for every derivation `D` killing
  the parameters and the state at the beginning of the time step and obeying the chain rules of the function symbols
  (see C43/Lemmas.lean), in the regime where the regularisations `max(σeq, tiny)` are inactive (`hmax*`) and the
  quantities the code divides by do not vanish. The increment of total strain `deto*` is left free: its
  contribution `- D deto_r` is what C42 uses. Property theorems only.
-/
import TfelVerif.C42.GenFdF
import TfelVerif.C43.Lemmas
import Mathlib.Tactic.FieldSimp
import Mathlib.Tactic.Ring

namespace TfelVerif.C42
open TfelVerif TfelVerif.C43 TfelVerif.C42.GenFdF
set_option linter.unusedVariables false
set_option linter.unusedSectionVars false
set_option linter.unusedSimpArgs false
set_option linter.unusedTactic false
set_option linter.unreachableTactic false

variable {K : Type} [Field K] [CharZero K] (c c3 : K) (fn : Fns K) (D : Derivation ℤ K K)

set_option maxHeartbeats 8000000 in
theorem IN_3D_fdf_row0 (i : IN_3D_fdf_In K)
    (hsqrt : ∀ x, D (fn.sqrt x) = D x / (2 * fn.sqrt x)) (hpow : ∀ x a, D a = 0 → D (fn.pow x a) = a * fn.pow x a / x * D x)
    (hmax2 : IN_3D_fdf_fn2 c c3 fn i = IN_3D_fdf_fn2_a c c3 fn i)
    (hnz0 : IN_3D_fdf_fn0 c c3 fn i ≠ 0) (hnz1 : IN_3D_fdf_fn1_a c c3 fn i ≠ 0)
    (h1 : 1 + i.nu ≠ 0) (h2 : 1 - 2 * i.nu ≠ 0) 
    (hc_dt : D i.dt = 0) (hc_young : D i.young = 0) (hc_nu : D i.nu = 0) (hc_eel0 : D i.eel0 = 0) (hc_eel1 : D i.eel1 = 0) (hc_eel2 : D i.eel2 = 0) (hc_eel3 : D i.eel3 = 0) (hc_eel4 : D i.eel4 = 0) (hc_eel5 : D i.eel5 = 0) (hc_p : D i.p = 0) (hc_theta : D i.theta = 0) :
    D (IN_3D_fdf_F0 c c3 fn i) = IN_3D_fdf_J0_0 c c3 fn i * D i.deel0 + IN_3D_fdf_J0_1 c c3 fn i * D i.deel1 + IN_3D_fdf_J0_2 c c3 fn i * D i.deel2 + IN_3D_fdf_J0_3 c c3 fn i * D i.deel3 + IN_3D_fdf_J0_4 c c3 fn i * D i.deel4 + IN_3D_fdf_J0_5 c c3 fn i * D i.deel5 + IN_3D_fdf_J0_6 c c3 fn i * D i.dp - D i.deto0 := by
  have hl := D_lam D i.young i.nu hc_young hc_nu
  have hm := D_mu D i.young i.nu hc_young hc_nu
  obtain ⟨q0, hq0⟩ : ∃ q, IN_3D_fdf_fn0 c c3 fn i = q := ⟨_, rfl⟩
  obtain ⟨q1, hq1⟩ : ∃ q, IN_3D_fdf_fn1 c c3 fn i = q := ⟨_, rfl⟩
  simp only [gen_simp, mul_zero, zero_mul, add_zero, zero_add, mul_one, one_mul, sub_zero, zero_sub, zero_div, neg_zero] at hmax2 hq0 hq1 hnz0 hnz1 ⊢
  generalize i.nu * i.young / ((1 + i.nu) * (1 - 2 * i.nu)) = l at hl hmax2 hq0 hq1 hnz0 hnz1 ⊢
  generalize i.young / (2 * (1 + i.nu)) = m at hm hmax2 hq0 hq1 hnz0 hnz1 ⊢
  try simp only [hmax2] at hq0 hq1 hnz0 hnz1 ⊢
  simp only [Derivation.leibniz_div, Derivation.leibniz, map_add, map_sub, map_neg, map_zero, hsqrt, hpow, D_ofNat, D_one, hl, hm,
    hc_dt, hc_young, hc_nu, hc_eel0, hc_eel1, hc_eel2, hc_eel3, hc_eel4, hc_eel5, hc_p, hc_theta,
    smul_eq_mul, mul_zero, zero_mul, add_zero, zero_add, mul_one, one_mul, sub_zero, zero_sub, zero_div, neg_zero]
  try simp only [hq0] at hq1 hnz0 hnz1 ⊢
  try simp only [hq1] at hnz0 hnz1 ⊢
  field_simp
  ring1

set_option maxHeartbeats 8000000 in
theorem IN_3D_fdf_row1 (i : IN_3D_fdf_In K)
    (hsqrt : ∀ x, D (fn.sqrt x) = D x / (2 * fn.sqrt x)) (hpow : ∀ x a, D a = 0 → D (fn.pow x a) = a * fn.pow x a / x * D x)
    (hmax2 : IN_3D_fdf_fn2 c c3 fn i = IN_3D_fdf_fn2_a c c3 fn i)
    (hnz0 : IN_3D_fdf_fn0 c c3 fn i ≠ 0) (hnz1 : IN_3D_fdf_fn1_a c c3 fn i ≠ 0)
    (h1 : 1 + i.nu ≠ 0) (h2 : 1 - 2 * i.nu ≠ 0) 
    (hc_dt : D i.dt = 0) (hc_young : D i.young = 0) (hc_nu : D i.nu = 0) (hc_eel0 : D i.eel0 = 0) (hc_eel1 : D i.eel1 = 0) (hc_eel2 : D i.eel2 = 0) (hc_eel3 : D i.eel3 = 0) (hc_eel4 : D i.eel4 = 0) (hc_eel5 : D i.eel5 = 0) (hc_p : D i.p = 0) (hc_theta : D i.theta = 0) :
    D (IN_3D_fdf_F1 c c3 fn i) = IN_3D_fdf_J1_0 c c3 fn i * D i.deel0 + IN_3D_fdf_J1_1 c c3 fn i * D i.deel1 + IN_3D_fdf_J1_2 c c3 fn i * D i.deel2 + IN_3D_fdf_J1_3 c c3 fn i * D i.deel3 + IN_3D_fdf_J1_4 c c3 fn i * D i.deel4 + IN_3D_fdf_J1_5 c c3 fn i * D i.deel5 + IN_3D_fdf_J1_6 c c3 fn i * D i.dp - D i.deto1 := by
  have hl := D_lam D i.young i.nu hc_young hc_nu
  have hm := D_mu D i.young i.nu hc_young hc_nu
  obtain ⟨q0, hq0⟩ : ∃ q, IN_3D_fdf_fn0 c c3 fn i = q := ⟨_, rfl⟩
  obtain ⟨q1, hq1⟩ : ∃ q, IN_3D_fdf_fn1 c c3 fn i = q := ⟨_, rfl⟩
  simp only [gen_simp, mul_zero, zero_mul, add_zero, zero_add, mul_one, one_mul, sub_zero, zero_sub, zero_div, neg_zero] at hmax2 hq0 hq1 hnz0 hnz1 ⊢
  generalize i.nu * i.young / ((1 + i.nu) * (1 - 2 * i.nu)) = l at hl hmax2 hq0 hq1 hnz0 hnz1 ⊢
  generalize i.young / (2 * (1 + i.nu)) = m at hm hmax2 hq0 hq1 hnz0 hnz1 ⊢
  try simp only [hmax2] at hq0 hq1 hnz0 hnz1 ⊢
  simp only [Derivation.leibniz_div, Derivation.leibniz, map_add, map_sub, map_neg, map_zero, hsqrt, hpow, D_ofNat, D_one, hl, hm,
    hc_dt, hc_young, hc_nu, hc_eel0, hc_eel1, hc_eel2, hc_eel3, hc_eel4, hc_eel5, hc_p, hc_theta,
    smul_eq_mul, mul_zero, zero_mul, add_zero, zero_add, mul_one, one_mul, sub_zero, zero_sub, zero_div, neg_zero]
  try simp only [hq0] at hq1 hnz0 hnz1 ⊢
  try simp only [hq1] at hnz0 hnz1 ⊢
  field_simp
  ring1

set_option maxHeartbeats 8000000 in
theorem IN_3D_fdf_row2 (i : IN_3D_fdf_In K)
    (hsqrt : ∀ x, D (fn.sqrt x) = D x / (2 * fn.sqrt x)) (hpow : ∀ x a, D a = 0 → D (fn.pow x a) = a * fn.pow x a / x * D x)
    (hmax2 : IN_3D_fdf_fn2 c c3 fn i = IN_3D_fdf_fn2_a c c3 fn i)
    (hnz0 : IN_3D_fdf_fn0 c c3 fn i ≠ 0) (hnz1 : IN_3D_fdf_fn1_a c c3 fn i ≠ 0)
    (h1 : 1 + i.nu ≠ 0) (h2 : 1 - 2 * i.nu ≠ 0) 
    (hc_dt : D i.dt = 0) (hc_young : D i.young = 0) (hc_nu : D i.nu = 0) (hc_eel0 : D i.eel0 = 0) (hc_eel1 : D i.eel1 = 0) (hc_eel2 : D i.eel2 = 0) (hc_eel3 : D i.eel3 = 0) (hc_eel4 : D i.eel4 = 0) (hc_eel5 : D i.eel5 = 0) (hc_p : D i.p = 0) (hc_theta : D i.theta = 0) :
    D (IN_3D_fdf_F2 c c3 fn i) = IN_3D_fdf_J2_0 c c3 fn i * D i.deel0 + IN_3D_fdf_J2_1 c c3 fn i * D i.deel1 + IN_3D_fdf_J2_2 c c3 fn i * D i.deel2 + IN_3D_fdf_J2_3 c c3 fn i * D i.deel3 + IN_3D_fdf_J2_4 c c3 fn i * D i.deel4 + IN_3D_fdf_J2_5 c c3 fn i * D i.deel5 + IN_3D_fdf_J2_6 c c3 fn i * D i.dp - D i.deto2 := by
  have hl := D_lam D i.young i.nu hc_young hc_nu
  have hm := D_mu D i.young i.nu hc_young hc_nu
  obtain ⟨q0, hq0⟩ : ∃ q, IN_3D_fdf_fn0 c c3 fn i = q := ⟨_, rfl⟩
  obtain ⟨q1, hq1⟩ : ∃ q, IN_3D_fdf_fn1 c c3 fn i = q := ⟨_, rfl⟩
  simp only [gen_simp, mul_zero, zero_mul, add_zero, zero_add, mul_one, one_mul, sub_zero, zero_sub, zero_div, neg_zero] at hmax2 hq0 hq1 hnz0 hnz1 ⊢
  generalize i.nu * i.young / ((1 + i.nu) * (1 - 2 * i.nu)) = l at hl hmax2 hq0 hq1 hnz0 hnz1 ⊢
  generalize i.young / (2 * (1 + i.nu)) = m at hm hmax2 hq0 hq1 hnz0 hnz1 ⊢
  try simp only [hmax2] at hq0 hq1 hnz0 hnz1 ⊢
  simp only [Derivation.leibniz_div, Derivation.leibniz, map_add, map_sub, map_neg, map_zero, hsqrt, hpow, D_ofNat, D_one, hl, hm,
    hc_dt, hc_young, hc_nu, hc_eel0, hc_eel1, hc_eel2, hc_eel3, hc_eel4, hc_eel5, hc_p, hc_theta,
    smul_eq_mul, mul_zero, zero_mul, add_zero, zero_add, mul_one, one_mul, sub_zero, zero_sub, zero_div, neg_zero]
  try simp only [hq0] at hq1 hnz0 hnz1 ⊢
  try simp only [hq1] at hnz0 hnz1 ⊢
  field_simp
  ring1

set_option maxHeartbeats 8000000 in
theorem IN_3D_fdf_row3 (i : IN_3D_fdf_In K)
    (hsqrt : ∀ x, D (fn.sqrt x) = D x / (2 * fn.sqrt x)) (hpow : ∀ x a, D a = 0 → D (fn.pow x a) = a * fn.pow x a / x * D x)
    (hmax2 : IN_3D_fdf_fn2 c c3 fn i = IN_3D_fdf_fn2_a c c3 fn i)
    (hnz0 : IN_3D_fdf_fn0 c c3 fn i ≠ 0) (hnz1 : IN_3D_fdf_fn1_a c c3 fn i ≠ 0)
    (h1 : 1 + i.nu ≠ 0) (h2 : 1 - 2 * i.nu ≠ 0) 
    (hc_dt : D i.dt = 0) (hc_young : D i.young = 0) (hc_nu : D i.nu = 0) (hc_eel0 : D i.eel0 = 0) (hc_eel1 : D i.eel1 = 0) (hc_eel2 : D i.eel2 = 0) (hc_eel3 : D i.eel3 = 0) (hc_eel4 : D i.eel4 = 0) (hc_eel5 : D i.eel5 = 0) (hc_p : D i.p = 0) (hc_theta : D i.theta = 0) :
    D (IN_3D_fdf_F3 c c3 fn i) = IN_3D_fdf_J3_0 c c3 fn i * D i.deel0 + IN_3D_fdf_J3_1 c c3 fn i * D i.deel1 + IN_3D_fdf_J3_2 c c3 fn i * D i.deel2 + IN_3D_fdf_J3_3 c c3 fn i * D i.deel3 + IN_3D_fdf_J3_4 c c3 fn i * D i.deel4 + IN_3D_fdf_J3_5 c c3 fn i * D i.deel5 + IN_3D_fdf_J3_6 c c3 fn i * D i.dp - D i.deto3 := by
  have hl := D_lam D i.young i.nu hc_young hc_nu
  have hm := D_mu D i.young i.nu hc_young hc_nu
  obtain ⟨q0, hq0⟩ : ∃ q, IN_3D_fdf_fn0 c c3 fn i = q := ⟨_, rfl⟩
  obtain ⟨q1, hq1⟩ : ∃ q, IN_3D_fdf_fn1 c c3 fn i = q := ⟨_, rfl⟩
  simp only [gen_simp, mul_zero, zero_mul, add_zero, zero_add, mul_one, one_mul, sub_zero, zero_sub, zero_div, neg_zero] at hmax2 hq0 hq1 hnz0 hnz1 ⊢
  generalize i.nu * i.young / ((1 + i.nu) * (1 - 2 * i.nu)) = l at hl hmax2 hq0 hq1 hnz0 hnz1 ⊢
  generalize i.young / (2 * (1 + i.nu)) = m at hm hmax2 hq0 hq1 hnz0 hnz1 ⊢
  try simp only [hmax2] at hq0 hq1 hnz0 hnz1 ⊢
  simp only [Derivation.leibniz_div, Derivation.leibniz, map_add, map_sub, map_neg, map_zero, hsqrt, hpow, D_ofNat, D_one, hl, hm,
    hc_dt, hc_young, hc_nu, hc_eel0, hc_eel1, hc_eel2, hc_eel3, hc_eel4, hc_eel5, hc_p, hc_theta,
    smul_eq_mul, mul_zero, zero_mul, add_zero, zero_add, mul_one, one_mul, sub_zero, zero_sub, zero_div, neg_zero]
  try simp only [hq0] at hq1 hnz0 hnz1 ⊢
  try simp only [hq1] at hnz0 hnz1 ⊢
  field_simp
  ring1

set_option maxHeartbeats 8000000 in
theorem IN_3D_fdf_row4 (i : IN_3D_fdf_In K)
    (hsqrt : ∀ x, D (fn.sqrt x) = D x / (2 * fn.sqrt x)) (hpow : ∀ x a, D a = 0 → D (fn.pow x a) = a * fn.pow x a / x * D x)
    (hmax2 : IN_3D_fdf_fn2 c c3 fn i = IN_3D_fdf_fn2_a c c3 fn i)
    (hnz0 : IN_3D_fdf_fn0 c c3 fn i ≠ 0) (hnz1 : IN_3D_fdf_fn1_a c c3 fn i ≠ 0)
    (h1 : 1 + i.nu ≠ 0) (h2 : 1 - 2 * i.nu ≠ 0) 
    (hc_dt : D i.dt = 0) (hc_young : D i.young = 0) (hc_nu : D i.nu = 0) (hc_eel0 : D i.eel0 = 0) (hc_eel1 : D i.eel1 = 0) (hc_eel2 : D i.eel2 = 0) (hc_eel3 : D i.eel3 = 0) (hc_eel4 : D i.eel4 = 0) (hc_eel5 : D i.eel5 = 0) (hc_p : D i.p = 0) (hc_theta : D i.theta = 0) :
    D (IN_3D_fdf_F4 c c3 fn i) = IN_3D_fdf_J4_0 c c3 fn i * D i.deel0 + IN_3D_fdf_J4_1 c c3 fn i * D i.deel1 + IN_3D_fdf_J4_2 c c3 fn i * D i.deel2 + IN_3D_fdf_J4_3 c c3 fn i * D i.deel3 + IN_3D_fdf_J4_4 c c3 fn i * D i.deel4 + IN_3D_fdf_J4_5 c c3 fn i * D i.deel5 + IN_3D_fdf_J4_6 c c3 fn i * D i.dp - D i.deto4 := by
  have hl := D_lam D i.young i.nu hc_young hc_nu
  have hm := D_mu D i.young i.nu hc_young hc_nu
  obtain ⟨q0, hq0⟩ : ∃ q, IN_3D_fdf_fn0 c c3 fn i = q := ⟨_, rfl⟩
  obtain ⟨q1, hq1⟩ : ∃ q, IN_3D_fdf_fn1 c c3 fn i = q := ⟨_, rfl⟩
  simp only [gen_simp, mul_zero, zero_mul, add_zero, zero_add, mul_one, one_mul, sub_zero, zero_sub, zero_div, neg_zero] at hmax2 hq0 hq1 hnz0 hnz1 ⊢
  generalize i.nu * i.young / ((1 + i.nu) * (1 - 2 * i.nu)) = l at hl hmax2 hq0 hq1 hnz0 hnz1 ⊢
  generalize i.young / (2 * (1 + i.nu)) = m at hm hmax2 hq0 hq1 hnz0 hnz1 ⊢
  try simp only [hmax2] at hq0 hq1 hnz0 hnz1 ⊢
  simp only [Derivation.leibniz_div, Derivation.leibniz, map_add, map_sub, map_neg, map_zero, hsqrt, hpow, D_ofNat, D_one, hl, hm,
    hc_dt, hc_young, hc_nu, hc_eel0, hc_eel1, hc_eel2, hc_eel3, hc_eel4, hc_eel5, hc_p, hc_theta,
    smul_eq_mul, mul_zero, zero_mul, add_zero, zero_add, mul_one, one_mul, sub_zero, zero_sub, zero_div, neg_zero]
  try simp only [hq0] at hq1 hnz0 hnz1 ⊢
  try simp only [hq1] at hnz0 hnz1 ⊢
  field_simp
  ring1

set_option maxHeartbeats 8000000 in
theorem IN_3D_fdf_row5 (i : IN_3D_fdf_In K)
    (hsqrt : ∀ x, D (fn.sqrt x) = D x / (2 * fn.sqrt x)) (hpow : ∀ x a, D a = 0 → D (fn.pow x a) = a * fn.pow x a / x * D x)
    (hmax2 : IN_3D_fdf_fn2 c c3 fn i = IN_3D_fdf_fn2_a c c3 fn i)
    (hnz0 : IN_3D_fdf_fn0 c c3 fn i ≠ 0) (hnz1 : IN_3D_fdf_fn1_a c c3 fn i ≠ 0)
    (h1 : 1 + i.nu ≠ 0) (h2 : 1 - 2 * i.nu ≠ 0) 
    (hc_dt : D i.dt = 0) (hc_young : D i.young = 0) (hc_nu : D i.nu = 0) (hc_eel0 : D i.eel0 = 0) (hc_eel1 : D i.eel1 = 0) (hc_eel2 : D i.eel2 = 0) (hc_eel3 : D i.eel3 = 0) (hc_eel4 : D i.eel4 = 0) (hc_eel5 : D i.eel5 = 0) (hc_p : D i.p = 0) (hc_theta : D i.theta = 0) :
    D (IN_3D_fdf_F5 c c3 fn i) = IN_3D_fdf_J5_0 c c3 fn i * D i.deel0 + IN_3D_fdf_J5_1 c c3 fn i * D i.deel1 + IN_3D_fdf_J5_2 c c3 fn i * D i.deel2 + IN_3D_fdf_J5_3 c c3 fn i * D i.deel3 + IN_3D_fdf_J5_4 c c3 fn i * D i.deel4 + IN_3D_fdf_J5_5 c c3 fn i * D i.deel5 + IN_3D_fdf_J5_6 c c3 fn i * D i.dp - D i.deto5 := by
  have hl := D_lam D i.young i.nu hc_young hc_nu
  have hm := D_mu D i.young i.nu hc_young hc_nu
  obtain ⟨q0, hq0⟩ : ∃ q, IN_3D_fdf_fn0 c c3 fn i = q := ⟨_, rfl⟩
  obtain ⟨q1, hq1⟩ : ∃ q, IN_3D_fdf_fn1 c c3 fn i = q := ⟨_, rfl⟩
  simp only [gen_simp, mul_zero, zero_mul, add_zero, zero_add, mul_one, one_mul, sub_zero, zero_sub, zero_div, neg_zero] at hmax2 hq0 hq1 hnz0 hnz1 ⊢
  generalize i.nu * i.young / ((1 + i.nu) * (1 - 2 * i.nu)) = l at hl hmax2 hq0 hq1 hnz0 hnz1 ⊢
  generalize i.young / (2 * (1 + i.nu)) = m at hm hmax2 hq0 hq1 hnz0 hnz1 ⊢
  try simp only [hmax2] at hq0 hq1 hnz0 hnz1 ⊢
  simp only [Derivation.leibniz_div, Derivation.leibniz, map_add, map_sub, map_neg, map_zero, hsqrt, hpow, D_ofNat, D_one, hl, hm,
    hc_dt, hc_young, hc_nu, hc_eel0, hc_eel1, hc_eel2, hc_eel3, hc_eel4, hc_eel5, hc_p, hc_theta,
    smul_eq_mul, mul_zero, zero_mul, add_zero, zero_add, mul_one, one_mul, sub_zero, zero_sub, zero_div, neg_zero]
  try simp only [hq0] at hq1 hnz0 hnz1 ⊢
  try simp only [hq1] at hnz0 hnz1 ⊢
  field_simp
  ring1

set_option maxHeartbeats 8000000 in
theorem IN_3D_fdf_row6 (i : IN_3D_fdf_In K)
    (hsqrt : ∀ x, D (fn.sqrt x) = D x / (2 * fn.sqrt x)) (hpow : ∀ x a, D a = 0 → D (fn.pow x a) = a * fn.pow x a / x * D x)
    (hmax2 : IN_3D_fdf_fn2 c c3 fn i = IN_3D_fdf_fn2_a c c3 fn i)
    (hnz0 : IN_3D_fdf_fn0 c c3 fn i ≠ 0) (hnz1 : IN_3D_fdf_fn1_a c c3 fn i ≠ 0)
    (h1 : 1 + i.nu ≠ 0) (h2 : 1 - 2 * i.nu ≠ 0) 
    (hc_dt : D i.dt = 0) (hc_young : D i.young = 0) (hc_nu : D i.nu = 0) (hc_eel0 : D i.eel0 = 0) (hc_eel1 : D i.eel1 = 0) (hc_eel2 : D i.eel2 = 0) (hc_eel3 : D i.eel3 = 0) (hc_eel4 : D i.eel4 = 0) (hc_eel5 : D i.eel5 = 0) (hc_p : D i.p = 0) (hc_theta : D i.theta = 0) :
    D (IN_3D_fdf_F6 c c3 fn i) = IN_3D_fdf_J6_0 c c3 fn i * D i.deel0 + IN_3D_fdf_J6_1 c c3 fn i * D i.deel1 + IN_3D_fdf_J6_2 c c3 fn i * D i.deel2 + IN_3D_fdf_J6_3 c c3 fn i * D i.deel3 + IN_3D_fdf_J6_4 c c3 fn i * D i.deel4 + IN_3D_fdf_J6_5 c c3 fn i * D i.deel5 + IN_3D_fdf_J6_6 c c3 fn i * D i.dp := by
  have hl := D_lam D i.young i.nu hc_young hc_nu
  have hm := D_mu D i.young i.nu hc_young hc_nu
  obtain ⟨q0, hq0⟩ : ∃ q, IN_3D_fdf_fn0 c c3 fn i = q := ⟨_, rfl⟩
  obtain ⟨q1, hq1⟩ : ∃ q, IN_3D_fdf_fn1 c c3 fn i = q := ⟨_, rfl⟩
  simp only [gen_simp, mul_zero, zero_mul, add_zero, zero_add, mul_one, one_mul, sub_zero, zero_sub, zero_div, neg_zero] at hmax2 hq0 hq1 hnz0 hnz1 ⊢
  generalize i.nu * i.young / ((1 + i.nu) * (1 - 2 * i.nu)) = l at hl hmax2 hq0 hq1 hnz0 hnz1 ⊢
  generalize i.young / (2 * (1 + i.nu)) = m at hm hmax2 hq0 hq1 hnz0 hnz1 ⊢
  try simp only [hmax2] at hq0 hq1 hnz0 hnz1 ⊢
  simp only [Derivation.leibniz_div, Derivation.leibniz, map_add, map_sub, map_neg, map_zero, hsqrt, hpow, D_ofNat, D_one, hl, hm,
    hc_dt, hc_young, hc_nu, hc_eel0, hc_eel1, hc_eel2, hc_eel3, hc_eel4, hc_eel5, hc_p, hc_theta,
    smul_eq_mul, mul_zero, zero_mul, add_zero, zero_add, mul_one, one_mul, sub_zero, zero_sub, zero_div, neg_zero]
  try simp only [hq0] at hq1 hnz0 hnz1 ⊢
  try simp only [hq1] at hnz0 hnz1 ⊢
  field_simp
  ring1

end TfelVerif.C42
