/-
  C20 — Physical quantities: dimension checking is sound and transparent.

  Objects: Model.lean — exponent pairs and their arithmetic (`unit::add/subtract/multiply`), unit
  types (`UnitRebind`), the typing judgement `typeOf` / `step` / `runQ` for straight-line programs over
  `qt<U,double>`, the values they compute, the erased `double` programs (`erase`, `runD`);
  Table.lean / GenTable.lean — the named units dumped from the headers on every run.

  The denotation of a unit is a vector of ℚ⁷ (`Exps.toQ`); a `double` is dimensionless.
    §1 the normalised pairs implement the group ℚ⁷ faithfully (injective homomorphism; group laws;
       `power` is a ℚ-action);
    §2 unit of a product / quotient / power;
    §3 soundness: whatever `typeOf`/`step` accept adds, subtracts, compares, assigns, converts
       operands of equal units only;
    §4 completeness: on canonical unit types (what declarations through named units or the
       `quantity<>` alias and every `* / power` produce) equal units are always accepted;
    §5 erasure (transparency): an accepted program computes exactly what the unit-erased `double`
       program computes, operation for operation;
    §6 the generated table; §7 `power<N>` computes the N-th power.

  The compile-time behaviour of the real templates is tied to this model by correspondence only
  (checks/C20.py): a `static_assert` / deleted overload cannot be traced.
-/
import Mathlib.Tactic.IntervalCases
import TfelVerif.C20.Lemmas
import TfelVerif.C20.Table

namespace TfelVerif.C20

variable {α : Type}

/-! ## denotations -/

/-- the unit of a type as a vector of ℚ⁷; a `double` is dimensionless -/
def Ty.units : Ty → List ℚ
  | .scalar => List.replicate 7 0
  | .qty u => Exps.toQ u.e

def Ty.valid : Ty → Prop
  | .scalar => True
  | .qty u => Exps.valid u.e = true

def Ty.canon (tbl : List Exps) : Ty → Prop
  | .scalar => True
  | .qty u => u.canonical tbl = true

def CtxValid (ctx : List UT) : Prop := ∀ u ∈ ctx, Exps.valid u.e = true
def CtxCanon (tbl : List Exps) (ctx : List UT) : Prop := ∀ u ∈ ctx, u.canonical tbl = true

/-- every explicit construction `qt<U>(…)` in the expression names a canonical unit type -/
def Expr.canonMk (tbl : List Exps) : Expr α → Prop
  | .lit _ => True
  | .var _ => True
  | .neg e => e.canonMk tbl
  | .add a b => a.canonMk tbl ∧ b.canonMk tbl
  | .sub a b => a.canonMk tbl ∧ b.canonMk tbl
  | .mul a b => a.canonMk tbl ∧ b.canonMk tbl
  | .div a b => a.canonMk tbl ∧ b.canonMk tbl
  | .pow _ _ e => e.canonMk tbl
  | .mk u e => u.canonical tbl = true ∧ e.canonMk tbl
  | .val e => e.canonMk tbl

/-! ## §1 the exponent pairs are the group ℚ⁷ -/

/-- `toQ` is a homomorphism for `add`, `subtract` and the scaling used by `power` … -/
theorem units_homomorphism (a b : Exps) (ha : Exps.valid a = true) (hb : Exps.valid b = true)
    (n : Int) (d : Nat) (hd : d ≠ 0) :
    Exps.toQ (a.add b) = List.zipWith (· + ·) (Exps.toQ a) (Exps.toQ b) ∧
    Exps.toQ (a.sub b) = List.zipWith (· - ·) (Exps.toQ a) (Exps.toQ b) ∧
    Exps.toQ (a.pow n d) = (Exps.toQ a).map (· * ((n : ℚ) / (d : ℚ))) ∧
    Exps.toQ noUnit = List.replicate 7 0 :=
  ⟨Exps.add_toQ a b ha hb, Exps.sub_toQ a b ha hb, Exps.pow_toQ a n d ha hd, noUnit_toQ⟩

/-- … valid (normalised) exponents are closed under these operations … -/
theorem units_closed (a b : Exps) (ha : Exps.valid a = true) (hb : Exps.valid b = true)
    (n : Int) (d : Nat) (hd : d ≠ 0) :
    Exps.valid (a.add b) = true ∧ Exps.valid (a.sub b) = true ∧ Exps.valid (a.pow n d) = true ∧
    Exps.valid noUnit = true :=
  ⟨Exps.add_valid a b ha hb, Exps.sub_valid a b ha hb, Exps.pow_valid a n d ha hd, noUnit_valid⟩

/-- … and it is injective on them: structural equality of the pairs (what `areUnitsEqual`, i.e.
`operator==` on `UnitExponents`, tests) is equality of the units -/
theorem units_equal_iff (a b : Exps) (ha : Exps.valid a = true) (hb : Exps.valid b = true) :
    a = b ↔ Exps.toQ a = Exps.toQ b := Exps.eq_iff_toQ_eq a b ha hb

/-- abelian group laws on the normalised representation itself -/
theorem units_group_laws (a b c : Exps) (ha : Exps.valid a = true) (hb : Exps.valid b = true)
    (hc : Exps.valid c = true) :
    a.add b = b.add a ∧ (a.add b).add c = a.add (b.add c) ∧ a.add noUnit = a ∧ a.sub a = noUnit ∧
    (a.sub b).add b = a := by
  have hlen : a.length = 7 := ((Exps.valid_iff a).mp ha).1
  refine ⟨?_, ?_, ?_, ?_, ?_⟩
  · rw [units_equal_iff _ _ (Exps.add_valid a b ha hb) (Exps.add_valid b a hb ha),
      Exps.add_toQ a b ha hb, Exps.add_toQ b a hb ha, zipWith_add_comm]
  · rw [units_equal_iff _ _ (Exps.add_valid _ c (Exps.add_valid a b ha hb) hc)
        (Exps.add_valid a _ ha (Exps.add_valid b c hb hc)),
      Exps.add_toQ _ c (Exps.add_valid a b ha hb) hc, Exps.add_toQ a b ha hb,
      Exps.add_toQ a _ ha (Exps.add_valid b c hb hc), Exps.add_toQ b c hb hc, zipWith_add_assoc]
  · rw [units_equal_iff _ _ (Exps.add_valid a noUnit ha noUnit_valid) ha,
      Exps.add_toQ a noUnit ha noUnit_valid, noUnit_toQ]
    exact zipWith_add_zero _ 7 (by rw [toQ_length, hlen])
  · rw [units_equal_iff _ _ (Exps.sub_valid a a ha ha) noUnit_valid, Exps.sub_toQ a a ha ha,
      noUnit_toQ, zipWith_sub_self, toQ_length, hlen]
  · rw [units_equal_iff _ _ (Exps.add_valid _ b (Exps.sub_valid a b ha hb) hb) ha,
      Exps.add_toQ _ b (Exps.sub_valid a b ha hb) hb, Exps.sub_toQ a b ha hb]
    have hl : (Exps.toQ a).length = (Exps.toQ b).length := by
      rw [toQ_length, toQ_length, hlen, ((Exps.valid_iff b).mp hb).1]
    generalize Exps.toQ a = A at hl ⊢
    generalize Exps.toQ b = B at hl ⊢
    induction A generalizing B with
    | nil => simp
    | cons x xs ih =>
      cases B with
      | nil => simp at hl
      | cons y ys => simp [ih ys (by simpa using hl)]

/-- `power` is an action of ℚ: `(u^{n/d})^{n'/d'} = u^{nn'/dd'}`, `u^{1/1} = u`, `u^{0/d} = 1`,
`(uv)^{n/d} = u^{n/d} v^{n/d}` -/
theorem units_power_action (a b : Exps) (ha : Exps.valid a = true) (hb : Exps.valid b = true)
    (n n' : Int) (d d' : Nat) (hd : d ≠ 0) (hd' : d' ≠ 0) :
    (a.pow n d).pow n' d' = a.pow (n * n') (d * d') ∧ a.pow 1 1 = a ∧ a.pow 0 d = noUnit ∧
    (a.add b).pow n d = (a.pow n d).add (b.pow n d) := by
  have hlen : a.length = 7 := ((Exps.valid_iff a).mp ha).1
  have hdd : d * d' ≠ 0 := Nat.mul_ne_zero hd hd'
  have hdq : (d : ℚ) ≠ 0 := by exact_mod_cast hd
  have hdq' : (d' : ℚ) ≠ 0 := by exact_mod_cast hd'
  refine ⟨?_, ?_, ?_, ?_⟩
  · rw [units_equal_iff _ _ (Exps.pow_valid _ n' d' (Exps.pow_valid a n d ha hd) hd')
        (Exps.pow_valid a _ _ ha hdd),
      Exps.pow_toQ _ n' d' (Exps.pow_valid a n d ha hd) hd', Exps.pow_toQ a n d ha hd,
      Exps.pow_toQ a _ _ ha hdd, List.map_map]
    apply List.map_congr_left
    intro x _
    simp only [Function.comp]
    push_cast
    field_simp
  · rw [units_equal_iff _ _ (Exps.pow_valid a 1 1 ha (by decide)) ha, Exps.pow_toQ a 1 1 ha (by decide)]
    simp
  · rw [units_equal_iff _ _ (Exps.pow_valid a 0 d ha hd) noUnit_valid, Exps.pow_toQ a 0 d ha hd,
      noUnit_toQ]
    simp only [Int.cast_zero, zero_div, mul_zero]
    rw [List.map_const', toQ_length, hlen]
  · rw [units_equal_iff _ _ (Exps.pow_valid _ n d (Exps.add_valid a b ha hb) hd)
        (Exps.add_valid _ _ (Exps.pow_valid a n d ha hd) (Exps.pow_valid b n d hb hd)),
      Exps.pow_toQ _ n d (Exps.add_valid a b ha hb) hd, Exps.add_toQ a b ha hb,
      Exps.add_toQ _ _ (Exps.pow_valid a n d ha hd) (Exps.pow_valid b n d hb hd),
      Exps.pow_toQ a n d ha hd, Exps.pow_toQ b n d hb hd]
    generalize Exps.toQ a = A
    generalize Exps.toQ b = B
    induction A generalizing B with
    | nil => simp
    | cons x xs ih =>
      cases B with
      | nil => simp
      | cons y ys => simp [ih ys, add_mul]

/-! ## inversion of the typing judgement -/

theorem typeOf_bin_inv (tbl : List Exps) (ctx : List UT) (a b : Expr α) (t : Ty) :
    (typeOf tbl ctx (.add a b) = some t → ∃ ta tb, typeOf tbl ctx a = some ta ∧ typeOf tbl ctx b = some tb ∧ addTy tbl ta tb = some t) ∧
    (typeOf tbl ctx (.sub a b) = some t → ∃ ta tb, typeOf tbl ctx a = some ta ∧ typeOf tbl ctx b = some tb ∧ addTy tbl ta tb = some t) ∧
    (typeOf tbl ctx (.mul a b) = some t → ∃ ta tb, typeOf tbl ctx a = some ta ∧ typeOf tbl ctx b = some tb ∧ mulTy tbl ta tb = some t) ∧
    (typeOf tbl ctx (.div a b) = some t → ∃ ta tb, typeOf tbl ctx a = some ta ∧ typeOf tbl ctx b = some tb ∧ divTy tbl ta tb = some t) := by
  refine ⟨?_, ?_, ?_, ?_⟩ <;>
  · intro h
    cases ha : typeOf tbl ctx a with
    | none => simp [typeOf, ha] at h
    | some ta =>
      cases hb : typeOf tbl ctx b with
      | none => simp [typeOf, ha, hb] at h
      | some tb => exact ⟨ta, tb, rfl, rfl, by simpa [typeOf, ha, hb] using h⟩

theorem typeOf_un_inv (tbl : List Exps) (ctx : List UT) (e : Expr α) (t : Ty) :
    (∀ n d, typeOf tbl ctx (.pow n d e) = some t → ∃ te, typeOf tbl ctx e = some te ∧ powTy tbl n d te = some t) ∧
    (∀ u, typeOf tbl ctx (.mk u e) = some t → ∃ te, typeOf tbl ctx e = some te ∧ mkTy tbl u te = some t) ∧
    (typeOf tbl ctx (.val e) = some t → ∃ te, typeOf tbl ctx e = some te ∧ t = .scalar) := by
  refine ⟨?_, ?_, ?_⟩
  · intro n d h
    cases he : typeOf tbl ctx e with
    | none => simp [typeOf, he] at h
    | some te => exact ⟨te, rfl, by simpa [typeOf, he] using h⟩
  · intro u h
    cases he : typeOf tbl ctx e with
    | none => simp [typeOf, he] at h
    | some te => exact ⟨te, rfl, by simpa [typeOf, he] using h⟩
  · intro h
    cases he : typeOf tbl ctx e with
    | none => simp [typeOf, he] at h
    | some te => exact ⟨te, rfl, by simpa [typeOf, he] using h.symm⟩

/-- every typed expression has valid (normalised) exponents -/
theorem typeOf_valid (tbl : List Exps) (ctx : List UT) (hctx : CtxValid ctx) :
    ∀ (e : Expr α) (t : Ty), typeOf tbl ctx e = some t → t.valid := by
  intro e
  induction e with
  | lit x => intro t h; simp [typeOf] at h; subst h; trivial
  | var i =>
    intro t h
    simp only [typeOf, Option.map_eq_some_iff] at h
    obtain ⟨u, hu, rfl⟩ := h
    exact hctx u (List.mem_of_getElem? hu)
  | neg e ih => intro t h; exact ih t (by simpa [typeOf] using h)
  | add a b iha ihb =>
    intro t h
    obtain ⟨ta, tb, ha, hb, hab⟩ := (typeOf_bin_inv tbl ctx a b t).1 h
    have va := iha ta ha
    cases ta <;> cases tb <;> simp only [addTy] at hab
    · cases hab; trivial
    · split_ifs at hab; cases hab; exact noUnit_valid
    · split_ifs at hab; cases hab; exact noUnit_valid
    · split_ifs at hab; cases hab; exact va
  | sub a b iha ihb =>
    intro t h
    obtain ⟨ta, tb, ha, hb, hab⟩ := (typeOf_bin_inv tbl ctx a b t).2.1 h
    have va := iha ta ha
    cases ta <;> cases tb <;> simp only [addTy] at hab
    · cases hab; trivial
    · split_ifs at hab; cases hab; exact noUnit_valid
    · split_ifs at hab; cases hab; exact noUnit_valid
    · split_ifs at hab; cases hab; exact va
  | mul a b iha ihb =>
    intro t h
    obtain ⟨ta, tb, ha, hb, hab⟩ := (typeOf_bin_inv tbl ctx a b t).2.2.1 h
    have va := iha ta ha
    have vb := ihb tb hb
    cases ta <;> cases tb <;> simp only [mulTy] at hab <;> cases hab
    · trivial
    · exact vb
    · exact va
    · exact Exps.add_valid _ _ va vb
  | div a b iha ihb =>
    intro t h
    obtain ⟨ta, tb, ha, hb, hab⟩ := (typeOf_bin_inv tbl ctx a b t).2.2.2 h
    have va := iha ta ha
    have vb := ihb tb hb
    cases ta <;> cases tb <;> simp only [divTy] at hab <;> cases hab
    · trivial
    · exact Exps.sub_valid _ _ noUnit_valid vb
    · exact va
    · exact Exps.sub_valid _ _ va vb
  | pow n d e ih =>
    intro t h
    obtain ⟨te, he, hp⟩ := (typeOf_un_inv tbl ctx e t).1 n d h
    have ve := ih te he
    cases te <;> simp only [powTy] at hp <;> split_ifs at hp with hd <;> cases hp
    · trivial
    · exact Exps.pow_valid _ n d ve hd
  | mk u e ih =>
    intro t h
    obtain ⟨te, he, hm⟩ := (typeOf_un_inv tbl ctx e t).2.1 u h
    cases te <;> simp only [mkTy] at hm <;> split_ifs at hm with hw <;> cases hm
    · simp only [UT.wf, Bool.and_eq_true] at hw; exact hw.1
    · simp only [UT.wf, Bool.and_eq_true] at hw; exact hw.1.1
  | val e ih =>
    intro t h
    obtain ⟨te, _, rfl⟩ := (typeOf_un_inv tbl ctx e t).2.2 h
    trivial

/-! ## §2 the unit of a product, quotient or power -/

theorem product_units (tbl : List Exps) (ctx : List UT) (hctx : CtxValid ctx) (a b : Expr α) (t : Ty)
    (h : typeOf tbl ctx (.mul a b) = some t) :
    ∃ ta tb, typeOf tbl ctx a = some ta ∧ typeOf tbl ctx b = some tb ∧
      t.units = List.zipWith (· + ·) ta.units tb.units := by
  obtain ⟨ta, tb, ha, hb, hab⟩ := (typeOf_bin_inv tbl ctx a b t).2.2.1 h
  refine ⟨ta, tb, ha, hb, ?_⟩
  have va := typeOf_valid tbl ctx hctx a ta ha
  have vb := typeOf_valid tbl ctx hctx b tb hb
  cases ta <;> cases tb <;> simp only [mulTy] at hab <;> cases hab <;> simp only [Ty.units, rebind_e]
  · simp
  · rename_i u
    exact (zipWith_zero_add _ 7 (by rw [toQ_length]; exact ((Exps.valid_iff u.e).mp vb).1)).symm
  · rename_i u
    exact (zipWith_add_zero _ 7 (by rw [toQ_length]; exact ((Exps.valid_iff u.e).mp va).1)).symm
  · exact Exps.add_toQ _ _ va vb

theorem quotient_units (tbl : List Exps) (ctx : List UT) (hctx : CtxValid ctx) (a b : Expr α) (t : Ty)
    (h : typeOf tbl ctx (.div a b) = some t) :
    ∃ ta tb, typeOf tbl ctx a = some ta ∧ typeOf tbl ctx b = some tb ∧
      t.units = List.zipWith (· - ·) ta.units tb.units := by
  obtain ⟨ta, tb, ha, hb, hab⟩ := (typeOf_bin_inv tbl ctx a b t).2.2.2 h
  refine ⟨ta, tb, ha, hb, ?_⟩
  have va := typeOf_valid tbl ctx hctx a ta ha
  have vb := typeOf_valid tbl ctx hctx b tb hb
  cases ta <;> cases tb <;> simp only [divTy] at hab <;> cases hab <;> simp only [Ty.units, rebind_e]
  · simp
  · rw [Exps.sub_toQ _ _ noUnit_valid vb, noUnit_toQ]
  · rename_i u
    have hl : (Exps.toQ u.e).length = 7 := by rw [toQ_length]; exact ((Exps.valid_iff u.e).mp va).1
    generalize Exps.toQ u.e = A at hl
    match A, hl with
    | [_, _, _, _, _, _, _], _ => simp [List.replicate]
  · exact Exps.sub_toQ _ _ va vb

theorem power_units (tbl : List Exps) (ctx : List UT) (hctx : CtxValid ctx) (n : Int) (d : Nat)
    (e : Expr α) (t : Ty) (h : typeOf tbl ctx (.pow n d e) = some t) :
    d ≠ 0 ∧ ∃ te, typeOf tbl ctx e = some te ∧ t.units = te.units.map (· * ((n : ℚ) / (d : ℚ))) := by
  obtain ⟨te, he, hp⟩ := (typeOf_un_inv tbl ctx e t).1 n d h
  have ve := typeOf_valid tbl ctx hctx e te he
  cases te <;> simp only [powTy] at hp <;> split_ifs at hp with hd <;> cases hp
  · exact ⟨hd, _, he, by simp [Ty.units]⟩
  · exact ⟨hd, _, he, by simpa [Ty.units, rebind_e] using Exps.pow_toQ _ n d ve hd⟩

/-! ## §3 soundness: only equal units are added, subtracted, compared, assigned, converted -/

theorem addTy_sound (tbl : List Exps) (ta tb t : Ty) (h : addTy tbl ta tb = some t) :
    ta.units = tb.units ∧ t.units = ta.units := by
  cases ta <;> cases tb <;> simp only [addTy] at h
  · cases h; exact ⟨rfl, rfl⟩
  · split_ifs at h with hn; cases h
    simp only [UT.isNoUnit, beq_iff_eq] at hn
    simp [Ty.units, rebind_e, hn, noUnit_toQ]
  · split_ifs at h with hn; cases h
    simp only [UT.isNoUnit, beq_iff_eq] at hn
    simp [Ty.units, rebind_e, hn, noUnit_toQ]
  · split_ifs at h with huv; cases h; subst huv; exact ⟨rfl, rfl⟩

/-- an accepted sum or difference has operands of equal units, and that unit -/
theorem sum_sound (tbl : List Exps) (ctx : List UT) (a b : Expr α) (t : Ty)
    (h : typeOf tbl ctx (.add a b) = some t ∨ typeOf tbl ctx (.sub a b) = some t) :
    ∃ ta tb, typeOf tbl ctx a = some ta ∧ typeOf tbl ctx b = some tb ∧ ta.units = tb.units ∧
      t.units = ta.units := by
  rcases h with h | h
  · obtain ⟨ta, tb, ha, hb, hab⟩ := (typeOf_bin_inv tbl ctx a b t).1 h
    exact ⟨ta, tb, ha, hb, addTy_sound tbl ta tb t hab⟩
  · obtain ⟨ta, tb, ha, hb, hab⟩ := (typeOf_bin_inv tbl ctx a b t).2.1 h
    exact ⟨ta, tb, ha, hb, addTy_sound tbl ta tb t hab⟩

/-- an explicit construction `qt<U>(e)` is accepted from a value of unit `U` or from a dimensionless
value (a `double` or a dimensionless quantity, which converts implicitly to `double`) only -/
theorem construction_sound (tbl : List Exps) (ctx : List UT) (u : UT) (e : Expr α) (t : Ty)
    (h : typeOf tbl ctx (.mk u e) = some t) :
    t = .qty u ∧ ∃ te, typeOf tbl ctx e = some te ∧
      (te.units = (Ty.qty u).units ∨ te.units = List.replicate 7 0) := by
  obtain ⟨te, he, hm⟩ := (typeOf_un_inv tbl ctx e t).2.1 u h
  cases te <;> simp only [mkTy] at hm <;> split_ifs at hm with hw <;> cases hm
  · exact ⟨rfl, _, he, Or.inr rfl⟩
  · refine ⟨rfl, _, he, ?_⟩
    simp only [Bool.and_eq_true, Bool.or_eq_true, beq_iff_eq, UT.isNoUnit] at hw
    rcases hw.2 with h1 | h1
    · left; simp [Ty.units, h1]
    · right; simp [Ty.units, h1, noUnit_toQ]

theorem assignable_sound (u : UT) (t : Ty) (h : assignable u t = true) : t.units = (Ty.qty u).units := by
  cases t <;> simp only [assignable, beq_iff_eq, UT.isNoUnit] at h
  · simp [Ty.units, h, noUnit_toQ]
  · simp [Ty.units, h]

theorem comparable_sound (ta tb : Ty) (h : comparable ta tb = true) : ta.units = tb.units := by
  cases ta <;> cases tb <;> simp only [comparable, decide_eq_true_eq, UT.isNoUnit, beq_iff_eq] at h
  · rfl
  · simp [Ty.units, h, noUnit_toQ]
  · simp [Ty.units, h, noUnit_toQ]
  · rw [h]

theorem dimensionless_sound (t : Ty) (h : convertsToDouble t = true ∨ scalable t = true) :
    t.units = List.replicate 7 0 := by
  cases t
  · rfl
  · rcases h with h | h <;> simp only [convertsToDouble, scalable, UT.isNoUnit, beq_iff_eq] at h <;>
      simp [Ty.units, h, noUnit_toQ]

/-- **statement-level soundness**: a statement that compiles assigns (`=`, `+=`, `-=`) a value of the
unit of its target, scales (`*=`, `/=`) by a dimensionless value, compares operands of equal units,
converts to `double` a dimensionless value only, and initialises a declaration as `qt<U>(e)` -/
theorem step_sound (tbl : List Exps) (o : Ops α) (r : Rel α) (dflt : α) (s s' : State α) :
    (∀ i e, (step tbl o r dflt s (.assign i e) = some s' ∨ step tbl o r dflt s (.addA i e) = some s' ∨
        step tbl o r dflt s (.subA i e) = some s') →
      ∃ u t, s.ctx[i]? = some u ∧ typeOf tbl s.ctx e = some t ∧ t.units = (Ty.qty u).units) ∧
    (∀ i e, (step tbl o r dflt s (.mulA i e) = some s' ∨ step tbl o r dflt s (.divA i e) = some s') →
      ∃ t, typeOf tbl s.ctx e = some t ∧ t.units = List.replicate 7 0) ∧
    (∀ c a b, step tbl o r dflt s (.cmp c a b) = some s' →
      ∃ ta tb, typeOf tbl s.ctx a = some ta ∧ typeOf tbl s.ctx b = some tb ∧ ta.units = tb.units) ∧
    (∀ e, step tbl o r dflt s (.toD e) = some s' →
      ∃ t, typeOf tbl s.ctx e = some t ∧ t.units = List.replicate 7 0) ∧
    (∀ u e, step tbl o r dflt s (.decl u e) = some s' → typeOf tbl s.ctx (.mk u e) = some (.qty u)) := by
  refine ⟨?_, ?_, ?_, ?_, ?_⟩
  · intro i e h
    have key : ∀ (st : Stmt α), (st = .assign i e ∨ st = .addA i e ∨ st = .subA i e) →
        step tbl o r dflt s st = some s' →
        ∃ u t, s.ctx[i]? = some u ∧ typeOf tbl s.ctx e = some t ∧ t.units = (Ty.qty u).units := by
      intro st hst hs
      cases hu : s.ctx[i]? with
      | none => rcases hst with rfl | rfl | rfl <;> simp [step, hu] at hs
      | some u =>
        cases ht : typeOf tbl s.ctx e with
        | none => rcases hst with rfl | rfl | rfl <;> simp [step, hu, ht] at hs
        | some t =>
          refine ⟨u, t, rfl, rfl, ?_⟩
          apply assignable_sound
          rcases hst with rfl | rfl | rfl <;>
          · by_cases ha : assignable u t = true
            · exact ha
            · simp [step, hu, ht, ha] at hs
    rcases h with h | h | h
    · exact key _ (Or.inl rfl) h
    · exact key _ (Or.inr (Or.inl rfl)) h
    · exact key _ (Or.inr (Or.inr rfl)) h
  · intro i e h
    have key : ∀ (st : Stmt α), (st = .mulA i e ∨ st = .divA i e) → step tbl o r dflt s st = some s' →
        ∃ t, typeOf tbl s.ctx e = some t ∧ t.units = List.replicate 7 0 := by
      intro st hst hs
      cases hu : s.ctx[i]? with
      | none => rcases hst with rfl | rfl <;> simp [step, hu] at hs
      | some u =>
        cases ht : typeOf tbl s.ctx e with
        | none => rcases hst with rfl | rfl <;> simp [step, hu, ht] at hs
        | some t =>
          refine ⟨t, rfl, dimensionless_sound t (Or.inr ?_)⟩
          rcases hst with rfl | rfl <;>
          · by_cases ha : scalable t = true
            · exact ha
            · simp [step, hu, ht, ha] at hs
    rcases h with h | h
    · exact key _ (Or.inl rfl) h
    · exact key _ (Or.inr rfl) h
  · intro c a b hs
    cases ha : typeOf tbl s.ctx a with
    | none => simp [step, ha] at hs
    | some ta =>
      cases hb : typeOf tbl s.ctx b with
      | none => simp [step, ha, hb] at hs
      | some tb =>
        refine ⟨ta, tb, rfl, rfl, comparable_sound ta tb ?_⟩
        by_cases hc : comparable ta tb = true
        · exact hc
        · simp [step, ha, hb, hc] at hs
  · intro e hs
    cases ht : typeOf tbl s.ctx e with
    | none => simp [step, ht] at hs
    | some t =>
      refine ⟨t, rfl, dimensionless_sound t (Or.inl ?_)⟩
      by_cases hc : convertsToDouble t = true
      · exact hc
      · simp [step, ht, hc] at hs
  · intro u e hs
    cases ht : typeOf tbl s.ctx (Expr.mk u e) with
    | none => simp [step, ht] at hs
    | some t =>
      have := (construction_sound tbl s.ctx u e t ht).1
      rw [this]

/-! ## §4 completeness on canonical unit types -/

/-- the type of every expression is canonical when the declared variables and the explicit
constructions are (in particular the result of every `*`, `/`, `power` is) -/
theorem typeOf_canonical (tbl : List Exps) (ctx : List UT) (hctx : CtxCanon tbl ctx) :
    ∀ (e : Expr α) (t : Ty), e.canonMk tbl → typeOf tbl ctx e = some t → t.canon tbl := by
  intro e
  induction e with
  | lit x => intro t _ h; simp [typeOf] at h; subst h; trivial
  | var i =>
    intro t _ h
    simp only [typeOf, Option.map_eq_some_iff] at h
    obtain ⟨u, hu, rfl⟩ := h
    exact hctx u (List.mem_of_getElem? hu)
  | neg e ih => intro t hc h; exact ih t hc (by simpa [typeOf] using h)
  | add a b iha ihb =>
    intro t hc h
    obtain ⟨ta, tb, ha, hb, hab⟩ := (typeOf_bin_inv tbl ctx a b t).1 h
    have ca := iha ta hc.1 ha
    cases ta <;> cases tb <;> simp only [addTy] at hab
    · cases hab; trivial
    · split_ifs at hab; cases hab; exact rebind_canonical tbl _
    · split_ifs at hab; cases hab; exact rebind_canonical tbl _
    · split_ifs at hab; cases hab; exact ca
  | sub a b iha ihb =>
    intro t hc h
    obtain ⟨ta, tb, ha, hb, hab⟩ := (typeOf_bin_inv tbl ctx a b t).2.1 h
    have ca := iha ta hc.1 ha
    cases ta <;> cases tb <;> simp only [addTy] at hab
    · cases hab; trivial
    · split_ifs at hab; cases hab; exact rebind_canonical tbl _
    · split_ifs at hab; cases hab; exact rebind_canonical tbl _
    · split_ifs at hab; cases hab; exact ca
  | mul a b iha ihb =>
    intro t hc h
    obtain ⟨ta, tb, ha, hb, hab⟩ := (typeOf_bin_inv tbl ctx a b t).2.2.1 h
    have ca := iha ta hc.1 ha
    have cb := ihb tb hc.2 hb
    cases ta <;> cases tb <;> simp only [mulTy] at hab <;> cases hab
    · trivial
    · exact cb
    · exact ca
    · exact rebind_canonical tbl _
  | div a b iha ihb =>
    intro t hc h
    obtain ⟨ta, tb, ha, hb, hab⟩ := (typeOf_bin_inv tbl ctx a b t).2.2.2 h
    have ca := iha ta hc.1 ha
    cases ta <;> cases tb <;> simp only [divTy] at hab <;> cases hab
    · trivial
    · exact rebind_canonical tbl _
    · exact ca
    · exact rebind_canonical tbl _
  | pow n d e ih =>
    intro t hc h
    obtain ⟨te, he, hp⟩ := (typeOf_un_inv tbl ctx e t).1 n d h
    cases te <;> simp only [powTy] at hp <;> split_ifs at hp <;> cases hp
    · trivial
    · exact rebind_canonical tbl _
  | mk u e ih =>
    intro t hc h
    obtain ⟨te, he, hm⟩ := (typeOf_un_inv tbl ctx e t).2.1 u h
    cases te <;> simp only [mkTy] at hm <;> split_ifs at hm <;> cases hm <;> exact hc.1
  | val e ih =>
    intro t _ h
    obtain ⟨te, _, rfl⟩ := (typeOf_un_inv tbl ctx e t).2.2 h
    trivial

/-- operands of equal units with canonical types can always be added, subtracted, compared -/
theorem sum_complete (tbl : List Exps) (ta tb : Ty) (va : ta.valid) (vb : tb.valid)
    (ca : ta.canon tbl) (cb : tb.canon tbl) (h : ta.units = tb.units) :
    (addTy tbl ta tb).isSome = true ∧ comparable ta tb = true := by
  cases ta <;> cases tb
  · exact ⟨rfl, rfl⟩
  · rename_i u
    have := isNoUnit_of_units u vb (by simpa [Ty.units] using h.symm)
    simp [addTy, comparable, this]
  · rename_i u
    have := isNoUnit_of_units u va (by simpa [Ty.units] using h)
    simp [addTy, comparable, this]
  · rename_i u v
    have he : u.e = v.e := (units_equal_iff _ _ va vb).mpr (by simpa [Ty.units] using h)
    have huv : u = v := (canonical_eq_iff tbl u v ca cb).mpr he
    simp [addTy, comparable, huv]

/-- a value of the unit of the target can always be assigned (whatever the unit *types*), a
dimensionless value can always be converted to `double` or used in `*=`, `/=` -/
theorem assign_complete (u : UT) (t : Ty) (vu : Exps.valid u.e = true) (vt : t.valid)
    (h : t.units = (Ty.qty u).units) : assignable u t = true := by
  cases t
  · have := isNoUnit_of_units u vu (by simpa [Ty.units] using h.symm)
    simpa [assignable] using this
  · rename_i v
    have he : v.e = u.e := (units_equal_iff _ _ vt vu).mpr (by simpa [Ty.units] using h)
    simp [assignable, he]

theorem dimensionless_complete (t : Ty) (vt : t.valid) (h : t.units = List.replicate 7 0) :
    convertsToDouble t = true ∧ scalable t = true := by
  cases t
  · exact ⟨rfl, rfl⟩
  · rename_i u
    have := isNoUnit_of_units u vt (by simpa [Ty.units] using h)
    simp [convertsToDouble, scalable, this]

/-! ## §5 erasure: the values are those of the unit-erased `double` program -/

/-- the value of an expression over quantities is the value of its erasure, operation for operation
(no hypothesis: units never reach the arithmetic) -/
theorem erasure_expr (o : Ops α) (env : List α) (dflt : α) :
    ∀ e : Expr α, value o env dflt e = evalD o env dflt (erase e) := by
  intro e
  induction e with
  | lit x => rfl
  | var i => rfl
  | neg e ih => simp [value, erase, evalD, ih]
  | add a b iha ihb => simp [value, erase, evalD, iha, ihb]
  | sub a b iha ihb => simp [value, erase, evalD, iha, ihb]
  | mul a b iha ihb => simp [value, erase, evalD, iha, ihb]
  | div a b iha ihb => simp [value, erase, evalD, iha, ihb]
  | pow n d e ih => simp [value, erase, evalD, ih]
  | mk u e ih => simp [value, erase, ih]
  | val e ih => simp [value, erase, ih]

theorem evalQ_erasure (tbl : List Exps) (o : Ops α) (ctx : List UT) (env : List α) (dflt : α)
    (e : Expr α) (t : Ty) (v : α) (h : evalQ tbl o ctx env dflt e = some (t, v)) :
    typeOf tbl ctx e = some t ∧ v = evalD o env dflt (erase e) := by
  simp only [evalQ, Option.map_eq_some_iff, Prod.mk.injEq] at h
  obtain ⟨t', ht, rfl, rfl⟩ := h
  exact ⟨ht, erasure_expr o env dflt e⟩

/-- the erased state -/
def State.erase (s : State α) : DState α := ⟨s.env, s.outs.map Out.erase⟩

theorem erasure_step (tbl : List Exps) (o : Ops α) (r : Rel α) (dflt : α) (s s' : State α)
    (st : Stmt α) (h : step tbl o r dflt s st = some s') :
    stepD o r dflt s.erase (eraseS st) = s'.erase := by
  cases st with
  | decl u e =>
    cases ht : typeOf tbl s.ctx (Expr.mk u e) with
    | none => simp [step, ht] at h
    | some t =>
      simp only [step, ht, Option.some.injEq] at h
      subst h
      simp [stepD, eraseS, State.erase, erasure_expr]
  | assign i e =>
    cases hu : s.ctx[i]? with
    | none => simp [step, hu] at h
    | some u =>
      cases ht : typeOf tbl s.ctx e with
      | none => simp [step, hu, ht] at h
      | some t =>
        by_cases ha : assignable u t = true
        · simp [step, hu, ht, ha] at h; subst h
          simp [stepD, eraseS, State.erase, erasure_expr]
        · simp [step, hu, ht, ha] at h
  | addA i e =>
    cases hu : s.ctx[i]? with
    | none => simp [step, hu] at h
    | some u =>
      cases ht : typeOf tbl s.ctx e with
      | none => simp [step, hu, ht] at h
      | some t =>
        by_cases ha : assignable u t = true
        · simp [step, hu, ht, ha] at h; subst h
          simp [stepD, eraseS, State.erase, erasure_expr]
        · simp [step, hu, ht, ha] at h
  | subA i e =>
    cases hu : s.ctx[i]? with
    | none => simp [step, hu] at h
    | some u =>
      cases ht : typeOf tbl s.ctx e with
      | none => simp [step, hu, ht] at h
      | some t =>
        by_cases ha : assignable u t = true
        · simp [step, hu, ht, ha] at h; subst h
          simp [stepD, eraseS, State.erase, erasure_expr]
        · simp [step, hu, ht, ha] at h
  | mulA i e =>
    cases hu : s.ctx[i]? with
    | none => simp [step, hu] at h
    | some u =>
      cases ht : typeOf tbl s.ctx e with
      | none => simp [step, hu, ht] at h
      | some t =>
        by_cases ha : scalable t = true
        · simp [step, hu, ht, ha] at h; subst h
          simp [stepD, eraseS, State.erase, erasure_expr]
        · simp [step, hu, ht, ha] at h
  | divA i e =>
    cases hu : s.ctx[i]? with
    | none => simp [step, hu] at h
    | some u =>
      cases ht : typeOf tbl s.ctx e with
      | none => simp [step, hu, ht] at h
      | some t =>
        by_cases ha : scalable t = true
        · simp [step, hu, ht, ha] at h; subst h
          simp [stepD, eraseS, State.erase, erasure_expr]
        · simp [step, hu, ht, ha] at h
  | cmp c a b =>
    cases ha : typeOf tbl s.ctx a with
    | none => simp [step, ha] at h
    | some ta =>
      cases hb : typeOf tbl s.ctx b with
      | none => simp [step, ha, hb] at h
      | some tb =>
        by_cases hc : comparable ta tb = true
        · simp [step, ha, hb, hc] at h; subst h
          simp [stepD, eraseS, State.erase, erasure_expr, Out.erase]
        · simp [step, ha, hb, hc] at h
  | out e =>
    cases ht : typeOf tbl s.ctx e with
    | none => simp [step, ht] at h
    | some t =>
      simp [step, ht] at h; subst h
      simp [stepD, eraseS, State.erase, erasure_expr, Out.erase]
  | toD e =>
    cases ht : typeOf tbl s.ctx e with
    | none => simp [step, ht] at h
    | some t =>
      by_cases hc : convertsToDouble t = true
      · simp [step, ht, hc] at h; subst h
        simp [stepD, eraseS, State.erase, erasure_expr, Out.erase]
      · simp [step, ht, hc] at h

/-- **transparency**: every program that compiles leaves the same variables and prints the same
values and comparison results as the same statements run on the underlying `double`s -/
theorem erasure_program (tbl : List Exps) (o : Ops α) (r : Rel α) (dflt : α) :
    ∀ (prog : List (Stmt α)) (s s' : State α), runQ tbl o r dflt s prog = some s' →
      runD o r dflt s.erase (prog.map eraseS) = s'.erase := by
  intro prog
  induction prog with
  | nil => intro s s' h; simp [runQ] at h; subst h; rfl
  | cons st rest ih =>
    intro s s' h
    cases hs : step tbl o r dflt s st with
    | none => simp [runQ, hs] at h
    | some s1 =>
      simp only [runQ, hs, Option.bind_some] at h
      simp only [List.map_cons, runD, erasure_step tbl o r dflt s s1 st hs]
      exact ih s1 s' h

/-! ## §6 the named units of the current headers -/

/-- every named unit is what `UnitRebind` returns for its exponents, has valid exponents, and no two
named units share their exponents (so `canonTag` finds each of them at its own index) -/
theorem named_units_canonical :
    Gen.units.all (fun u => u.2.1) = true ∧ tbl.all Exps.valid = true ∧
    (List.range tbl.length).all (fun k => canonTag tbl (tbl.getD k []) == Tag.named k) = true := by
  decide

/-- consistency of the named mechanical units: Force = Mass·Acceleration, Energy = Force·Length,
Stress = Force/Length², StressRate = Stress/Time, Speed = Length/Time, Momentum = Mass·Speed,
Frequency = 1/Time, Density = Mass/Length³ -/
theorem named_units_consistent :
    let u := fun (name : String) => tbl.getD ((unitIdx name).getD 0) []
    u "Force" = (u "Mass").add (u "Acceleration") ∧ u "Energy" = (u "Force").add (u "Length") ∧
    u "Stress" = (u "Force").sub ((u "Length").pow 2 1) ∧ u "StressRate" = (u "Stress").sub (u "Time") ∧
    u "Speed" = (u "Length").sub (u "Time") ∧ u "Momentum" = (u "Mass").add (u "Speed") ∧
    u "Frequency" = noUnit.sub (u "Time") ∧ u "Density" = (u "Mass").sub ((u "Length").pow 3 1) ∧
    u "NoUnit" = noUnit := by
  decide

/-! ## §7 `power<N>(x)` is the N-th power -/

theorem power_int {K : Type} [Field K] (sqrt : K → K) (stdpow : K → Int → Nat → K) (x : K) (n : Nat)
    (hn : n ≤ 100) :
    powerD sqrt stdpow (n : Int) 1 x = x ^ n ∧
    (0 < n → powerD sqrt stdpow (-(n : Int)) 1 x = (1 / x) ^ n) := by
  constructor
  · simp only [powerD, if_true, Int.natAbs_natCast]
    rw [if_neg (by omega), if_neg (by omega), powerPos_eq_pow]
  · intro hpos
    simp only [powerD, if_true, Int.natAbs_neg, Int.natAbs_natCast]
    rw [if_neg (by omega), if_pos (by omega), powerPos_eq_pow]

/-! ## non-vacuity -/

/-- the named unit type `name` -/
def named (name : String) : UT := ⟨.named ((unitIdx name).getD 0), tbl.getD ((unitIdx name).getD 0) []⟩

-- `force + mass * acceleration` is accepted, with the unit type Force
example : typeOf tbl [named "Force", named "Mass", named "Acceleration"]
    (Expr.add (.var 0) (.mul (.var 1) (.var 2)) : Expr Nat) = some (.qty (named "Force")) := by decide

-- `force + mass` is rejected, so is `force < mass`, `force = mass`, `double d = force`
example : typeOf tbl [named "Force", named "Mass"] (Expr.add (.var 0) (.var 1) : Expr Nat) = none := by
  decide

-- same exponents, different unit *type* (a hand-written StandardUnit<1,1,-2,…>): `+` is rejected
-- (is_same_v) although assignment is accepted (areUnitsEqual) — the reason why completeness is stated
-- on canonical types
example : typeOf tbl [named "Force", ⟨.std, (named "Force").e⟩] (Expr.add (.var 0) (.var 1) : Expr Nat) = none
    ∧ assignable (named "Force") (.qty ⟨.std, (named "Force").e⟩) = true := by decide

-- the hypotheses of the theorems are satisfiable
example : CtxValid [named "Force", named "Mass"] ∧ CtxCanon tbl [named "Force", named "Mass"] := by
  constructor <;> intro u hu <;> simp only [List.mem_cons, List.not_mem_nil, or_false] at hu <;>
    rcases hu with rfl | rfl <;> decide

end TfelVerif.C20
