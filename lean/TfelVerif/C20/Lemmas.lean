/-
  C20 — helper lemmas: the normalised exponent pairs are a faithful representation of ℚ
  (`toQ` is an injective homomorphism on valid pairs), lists of 7 exponents likewise, facts on
  `rebind`, `powerPos`.
-/
import Mathlib.Data.Rat.Defs
import Mathlib.Algebra.Order.Field.Rat
import Mathlib.Data.Int.GCD
import Mathlib.Data.Nat.GCD.Basic
import Mathlib.Tactic.Ring
import Mathlib.Tactic.FieldSimp
import Mathlib.Tactic.Linarith
import Mathlib.Tactic.NormNum
import Mathlib.Tactic.Push
import TfelVerif.C20.Model

namespace TfelVerif.C20

/-- the rational number an exponent pair denotes -/
def UExp.toQ (e : UExp) : ℚ := (e.num : ℚ) / (e.den : ℚ)

theorem UExp.valid_iff (e : UExp) : e.valid = true ↔ e.den ≠ 0 ∧ Nat.gcd e.num.natAbs e.den = 1 := by
  simp [UExp.valid]

private theorem gcd_pos_of_den (n : Int) (d : Nat) (hd : d ≠ 0) : 0 < Nat.gcd n.natAbs d :=
  Nat.gcd_pos_of_pos_right _ (Nat.pos_of_ne_zero hd)

/-- `reduce n d = ⟨n', d'⟩` with `n = g n'`, `d = g d'`, `g = gcd |n| d > 0` -/
theorem reduce_spec (n : Int) (d : Nat) (hd : d ≠ 0) :
    ∃ g : Nat, 0 < g ∧ n = (g : Int) * (reduce n d).num ∧ d = g * (reduce n d).den ∧
      Nat.gcd (reduce n d).num.natAbs (reduce n d).den = 1 := by
  have hg := gcd_pos_of_den n d hd
  refine ⟨Nat.gcd n.natAbs d, hg, ?_, ?_, ?_⟩
  · have hdvd : ((Nat.gcd n.natAbs d : Nat) : Int) ∣ n := Int.natCast_dvd.mpr (Nat.gcd_dvd_left _ _)
    simp only [reduce]
    exact (Int.mul_ediv_cancel' hdvd).symm
  · simp only [reduce]
    exact (Nat.mul_div_cancel' (Nat.gcd_dvd_right _ _)).symm
  · simp only [reduce]
    have hdvd : ((Nat.gcd n.natAbs d : Nat) : Int) ∣ n := Int.natCast_dvd.mpr (Nat.gcd_dvd_left _ _)
    rw [Int.natAbs_ediv_of_dvd hdvd, Int.natAbs_natCast]
    exact Nat.coprime_div_gcd_div_gcd hg

theorem reduce_valid (n : Int) (d : Nat) (hd : d ≠ 0) : (reduce n d).valid = true := by
  obtain ⟨g, hg, _, h2, h3⟩ := reduce_spec n d hd
  rw [UExp.valid_iff]
  refine ⟨?_, h3⟩
  intro h0
  rw [h0, Nat.mul_zero] at h2
  exact hd h2

theorem reduce_toQ (n : Int) (d : Nat) (hd : d ≠ 0) : (reduce n d).toQ = (n : ℚ) / (d : ℚ) := by
  obtain ⟨g, hg, h1, h2, _⟩ := reduce_spec n d hd
  have hden : (reduce n d).den ≠ 0 := by
    intro h0; rw [h0, Nat.mul_zero] at h2; exact hd h2
  have hgq : (g : ℚ) ≠ 0 := by exact_mod_cast (Nat.pos_iff_ne_zero.mp hg)
  have hdq : ((reduce n d).den : ℚ) ≠ 0 := by exact_mod_cast hden
  have e1 : (n : ℚ) = (g : ℚ) * ((reduce n d).num : ℚ) := by exact_mod_cast h1
  have e2 : (d : ℚ) = (g : ℚ) * ((reduce n d).den : ℚ) := by exact_mod_cast h2
  unfold UExp.toQ
  rw [e1, e2]
  field_simp

/-- normal forms are unique: two valid pairs denoting the same rational are equal -/
theorem UExp.eq_of_toQ_eq (a b : UExp) (ha : a.valid = true) (hb : b.valid = true)
    (h : a.toQ = b.toQ) : a = b := by
  rw [UExp.valid_iff] at ha hb
  obtain ⟨had, hag⟩ := ha
  obtain ⟨hbd, hbg⟩ := hb
  have hadq : (a.den : ℚ) ≠ 0 := by exact_mod_cast had
  have hbdq : (b.den : ℚ) ≠ 0 := by exact_mod_cast hbd
  unfold UExp.toQ at h
  rw [div_eq_div_iff hadq hbdq] at h
  have hz : a.num * (b.den : Int) = b.num * (a.den : Int) := by exact_mod_cast h
  -- a.den ∣ b.den and b.den ∣ a.den by coprimality
  have hn : a.num.natAbs * b.den = b.num.natAbs * a.den := by
    have := congrArg Int.natAbs hz
    simpa [Int.natAbs_mul] using this
  have h1 : a.den ∣ b.den := by
    have hc : Nat.Coprime a.den a.num.natAbs := by
      unfold Nat.Coprime; rw [Nat.gcd_comm]; exact hag
    exact hc.dvd_of_dvd_mul_left ⟨b.num.natAbs, by rw [hn]; ring⟩
  have h2 : b.den ∣ a.den := by
    have hc : Nat.Coprime b.den b.num.natAbs := by
      unfold Nat.Coprime; rw [Nat.gcd_comm]; exact hbg
    exact hc.dvd_of_dvd_mul_left ⟨a.num.natAbs, by rw [← hn]; ring⟩
  have hden : a.den = b.den := Nat.dvd_antisymm h1 h2
  have hnum : a.num = b.num := by
    rw [hden] at hz
    have hb0 : (b.den : Int) ≠ 0 := by exact_mod_cast hbd
    exact mul_right_cancel₀ hb0 hz
  cases a; cases b; simp_all

theorem UExp.den_ne_zero (a : UExp) (h : a.valid = true) : a.den ≠ 0 := ((UExp.valid_iff a).mp h).1

private theorem mul_den_ne (a b : UExp) (ha : a.valid = true) (hb : b.valid = true) : a.den * b.den ≠ 0 :=
  Nat.mul_ne_zero (a.den_ne_zero ha) (b.den_ne_zero hb)

theorem UExp.add_valid (a b : UExp) (ha : a.valid = true) (hb : b.valid = true) : (a.add b).valid = true :=
  reduce_valid _ _ (mul_den_ne a b ha hb)
theorem UExp.sub_valid (a b : UExp) (ha : a.valid = true) (hb : b.valid = true) : (a.sub b).valid = true :=
  reduce_valid _ _ (mul_den_ne a b ha hb)
/-- the second factor (`N/D` of `power<N,D>`) need not be reduced, only `D ≠ 0` -/
theorem UExp.mul_valid (a b : UExp) (ha : a.valid = true) (hb : b.den ≠ 0) : (a.mul b).valid = true :=
  reduce_valid _ _ (Nat.mul_ne_zero (a.den_ne_zero ha) hb)

theorem UExp.add_toQ (a b : UExp) (ha : a.valid = true) (hb : b.valid = true) :
    (a.add b).toQ = a.toQ + b.toQ := by
  have had : (a.den : ℚ) ≠ 0 := by exact_mod_cast a.den_ne_zero ha
  have hbd : (b.den : ℚ) ≠ 0 := by exact_mod_cast b.den_ne_zero hb
  unfold UExp.add
  rw [reduce_toQ _ _ (mul_den_ne a b ha hb)]
  unfold UExp.toQ
  push_cast
  field_simp

theorem UExp.sub_toQ (a b : UExp) (ha : a.valid = true) (hb : b.valid = true) :
    (a.sub b).toQ = a.toQ - b.toQ := by
  have had : (a.den : ℚ) ≠ 0 := by exact_mod_cast a.den_ne_zero ha
  have hbd : (b.den : ℚ) ≠ 0 := by exact_mod_cast b.den_ne_zero hb
  unfold UExp.sub
  rw [reduce_toQ _ _ (mul_den_ne a b ha hb)]
  unfold UExp.toQ
  push_cast
  field_simp

theorem UExp.mul_toQ (a b : UExp) (ha : a.valid = true) (hb : b.den ≠ 0) :
    (a.mul b).toQ = a.toQ * b.toQ := by
  have had : (a.den : ℚ) ≠ 0 := by exact_mod_cast a.den_ne_zero ha
  have hbd : (b.den : ℚ) ≠ 0 := by exact_mod_cast hb
  unfold UExp.mul
  rw [reduce_toQ _ _ (Nat.mul_ne_zero (a.den_ne_zero ha) hb)]
  unfold UExp.toQ
  push_cast
  field_simp

/-! ### lists of exponents -/

/-- the vector of ℚ⁷ a unit denotes -/
def Exps.toQ (e : Exps) : List ℚ := e.map UExp.toQ

theorem Exps.valid_iff (e : Exps) : Exps.valid e = true ↔ e.length = 7 ∧ ∀ x ∈ e, x.valid = true := by
  simp [Exps.valid]

theorem noUnit_valid : Exps.valid noUnit = true := by decide

theorem noUnit_toQ : Exps.toQ noUnit = List.replicate 7 0 := by
  simp [Exps.toQ, noUnit, UExp.toQ]

/-- pointwise facts on two lists of the same length -/
theorem zipWith_forall {f : UExp → UExp → UExp} {P : UExp → Prop} :
    ∀ (a b : Exps), a.length = b.length → (∀ x ∈ a, ∀ y ∈ b, P (f x y)) → ∀ z ∈ List.zipWith f a b, P z := by
  intro a
  induction a with
  | nil => intro b _ _ z hz; simp at hz
  | cons x xs ih =>
    intro b hl h z hz
    cases b with
    | nil => simp at hz
    | cons y ys =>
      simp only [List.zipWith_cons_cons, List.mem_cons] at hz
      rcases hz with rfl | hz
      · exact h x (by simp) y (by simp)
      · exact ih ys (by simpa using hl) (fun x' hx y' hy => h x' (by simp [hx]) y' (by simp [hy])) z hz

theorem Exps.add_valid (a b : Exps) (ha : Exps.valid a = true) (hb : Exps.valid b = true) :
    Exps.valid (a.add b) = true := by
  rw [Exps.valid_iff] at *
  refine ⟨by simp [Exps.add, ha.1, hb.1], ?_⟩
  exact zipWith_forall a b (by rw [ha.1, hb.1]) (fun x hx y hy => UExp.add_valid x y (ha.2 x hx) (hb.2 y hy))

theorem Exps.sub_valid (a b : Exps) (ha : Exps.valid a = true) (hb : Exps.valid b = true) :
    Exps.valid (a.sub b) = true := by
  rw [Exps.valid_iff] at *
  refine ⟨by simp [Exps.sub, ha.1, hb.1], ?_⟩
  exact zipWith_forall a b (by rw [ha.1, hb.1]) (fun x hx y hy => UExp.sub_valid x y (ha.2 x hx) (hb.2 y hy))

theorem Exps.pow_valid (a : Exps) (n : Int) (d : Nat) (ha : Exps.valid a = true) (hd : d ≠ 0) :
    Exps.valid (a.pow n d) = true := by
  rw [Exps.valid_iff] at *
  refine ⟨by simp [Exps.pow, ha.1], ?_⟩
  intro z hz
  simp only [Exps.pow, List.mem_map] at hz
  obtain ⟨x, hx, rfl⟩ := hz
  exact UExp.mul_valid x ⟨n, d⟩ (ha.2 x hx) hd

theorem zipWith_toQ {f : UExp → UExp → UExp} {g : ℚ → ℚ → ℚ} :
    ∀ (a b : Exps), (∀ x ∈ a, ∀ y ∈ b, (f x y).toQ = g x.toQ y.toQ) →
      Exps.toQ (List.zipWith f a b) = List.zipWith g (Exps.toQ a) (Exps.toQ b) := by
  intro a
  induction a with
  | nil => intro b _; simp [Exps.toQ]
  | cons x xs ih =>
    intro b h
    cases b with
    | nil => simp [Exps.toQ]
    | cons y ys =>
      have := ih ys (fun x' hx y' hy => h x' (by simp [hx]) y' (by simp [hy]))
      simp only [Exps.toQ, List.zipWith_cons_cons, List.map_cons] at *
      rw [h x (by simp) y (by simp), this]

/-- the unit of a product is the sum of the units … -/
theorem Exps.add_toQ (a b : Exps) (ha : Exps.valid a = true) (hb : Exps.valid b = true) :
    Exps.toQ (a.add b) = List.zipWith (· + ·) (Exps.toQ a) (Exps.toQ b) := by
  rw [Exps.valid_iff] at *
  exact zipWith_toQ a b (fun x hx y hy => UExp.add_toQ x y (ha.2 x hx) (hb.2 y hy))

/-- … of a quotient the difference … -/
theorem Exps.sub_toQ (a b : Exps) (ha : Exps.valid a = true) (hb : Exps.valid b = true) :
    Exps.toQ (a.sub b) = List.zipWith (· - ·) (Exps.toQ a) (Exps.toQ b) := by
  rw [Exps.valid_iff] at *
  exact zipWith_toQ a b (fun x hx y hy => UExp.sub_toQ x y (ha.2 x hx) (hb.2 y hy))

/-- … of a power `N/D` the unit scaled by `N/D` -/
theorem Exps.pow_toQ (a : Exps) (n : Int) (d : Nat) (ha : Exps.valid a = true) (hd : d ≠ 0) :
    Exps.toQ (a.pow n d) = (Exps.toQ a).map (· * ((n : ℚ) / (d : ℚ))) := by
  rw [Exps.valid_iff] at ha
  simp only [Exps.toQ, Exps.pow, List.map_map]
  apply List.map_congr_left
  intro x hx
  simp only [Function.comp]
  rw [UExp.mul_toQ x ⟨n, d⟩ (ha.2 x hx) hd]
  rfl

/-- normal forms: valid exponent lists denoting the same vector are equal -/
theorem Exps.eq_of_toQ_eq : ∀ (a b : Exps), (∀ x ∈ a, x.valid = true) → (∀ y ∈ b, y.valid = true) →
    a.length = b.length → Exps.toQ a = Exps.toQ b → a = b := by
  intro a
  induction a with
  | nil => intro b _ _ hl _; cases b with
    | nil => rfl
    | cons _ _ => simp at hl
  | cons x xs ih =>
    intro b ha hb hl h
    cases b with
    | nil => simp at hl
    | cons y ys =>
      simp only [Exps.toQ, List.map_cons, List.cons.injEq] at h
      have hxy := UExp.eq_of_toQ_eq x y (ha x (by simp)) (hb y (by simp)) h.1
      have := ih ys (fun x' hx => ha x' (by simp [hx])) (fun y' hy => hb y' (by simp [hy]))
        (by simpa using hl) h.2
      rw [hxy, this]

theorem Exps.eq_iff_toQ_eq (a b : Exps) (ha : Exps.valid a = true) (hb : Exps.valid b = true) :
    a = b ↔ Exps.toQ a = Exps.toQ b := by
  constructor
  · intro h; rw [h]
  · intro h
    rw [Exps.valid_iff] at ha hb
    exact Exps.eq_of_toQ_eq a b ha.2 hb.2 (by rw [ha.1, hb.1]) h

/-! ### lists of rationals -/

theorem zipWith_add_comm : ∀ (a b : List ℚ), List.zipWith (· + ·) a b = List.zipWith (· + ·) b a
  | [], [] => rfl
  | [], _ :: _ => rfl
  | _ :: _, [] => rfl
  | x :: xs, y :: ys => by simp [zipWith_add_comm xs ys, add_comm]

theorem zipWith_add_assoc : ∀ (a b c : List ℚ),
    List.zipWith (· + ·) (List.zipWith (· + ·) a b) c = List.zipWith (· + ·) a (List.zipWith (· + ·) b c)
  | [], _, _ => by simp
  | _ :: _, [], _ => by simp
  | _ :: _, _ :: _, [] => by simp
  | x :: xs, y :: ys, z :: zs => by simp [zipWith_add_assoc xs ys zs, add_assoc]

theorem zipWith_add_zero : ∀ (a : List ℚ) (n : Nat), a.length = n →
    List.zipWith (· + ·) a (List.replicate n 0) = a
  | [], _, _ => by simp
  | x :: xs, n, h => by
    cases n with
    | zero => simp at h
    | succ m => simp [List.replicate_succ, zipWith_add_zero xs m (by simpa using h)]

theorem zipWith_zero_add (a : List ℚ) (n : Nat) (h : a.length = n) :
    List.zipWith (· + ·) (List.replicate n 0) a = a := by
  rw [zipWith_add_comm]; exact zipWith_add_zero a n h

theorem zipWith_sub_self : ∀ (a : List ℚ), List.zipWith (· - ·) a a = List.replicate a.length 0
  | [] => rfl
  | x :: xs => by simp [List.replicate_succ, zipWith_sub_self xs]

theorem toQ_length (a : Exps) : (Exps.toQ a).length = a.length := by simp [Exps.toQ]


/-! ### unit types -/

theorem rebind_e (tbl : List Exps) (e : Exps) : (rebind tbl e).e = e := rfl

theorem rebind_canonical (tbl : List Exps) (e : Exps) : (rebind tbl e).canonical tbl = true := by
  simp [UT.canonical, rebind]

/-- on canonical unit types, identity of the types is equality of the exponents -/
theorem canonical_eq_iff (tbl : List Exps) (u v : UT) (hu : u.canonical tbl = true)
    (hv : v.canonical tbl = true) : u = v ↔ u.e = v.e := by
  constructor
  · intro h; rw [h]
  · intro h
    simp only [UT.canonical, beq_iff_eq] at hu hv
    cases u; cases v
    simp only at h hu hv
    subst h
    simp [hu, hv]

theorem isNoUnit_of_units (u : UT) (hv : Exps.valid u.e = true)
    (h : Exps.toQ u.e = List.replicate 7 0) : u.isNoUnit = true := by
  simp only [UT.isNoUnit, beq_iff_eq]
  exact (Exps.eq_iff_toQ_eq _ _ hv noUnit_valid).mpr (by rw [h, noUnit_toQ])


/-! ### `PowerPos` computes the power -/

theorem powerPos_eq_pow {K : Type} [CommMonoid K] (x : K) : ∀ n : Nat, powerPos x n = x ^ n := by
  intro n
  induction n using Nat.strong_induction_on with
  | _ n ih =>
    match n with
    | 0 => simp [powerPos]
    | 1 => simp [powerPos]
    | 2 => simp [powerPos, pow_two]
    | 3 => simp [powerPos, pow_succ]
    | m + 4 =>
      rw [powerPos]
      have hq : (m + 4) / 4 < m + 4 := Nat.div_lt_self (by omega) (by omega)
      have hr : (m + 4) % 4 < m + 4 := Nat.lt_of_lt_of_le (Nat.mod_lt _ (by omega)) (by omega)
      simp only [ih _ hq, ih _ hr]
      have hdm : m + 4 = 4 * ((m + 4) / 4) + (m + 4) % 4 := (Nat.div_add_mod (m + 4) 4).symm
      split_ifs with h0
      · conv_rhs => rw [hdm, h0, Nat.add_zero]
        rw [pow_mul']
        simp [pow_succ, mul_assoc]
      · conv_rhs => rw [hdm]
        rw [pow_add, pow_mul']
        simp [pow_succ, mul_assoc]

end TfelVerif.C20
