/- line-protocol driver of the C20 model on `Float` (= C double).
   One program per line, tokens separated by blanks, prefix notation:
     stmt  := D <utype> <expr> | A <i> <expr> | PA <i> <expr> | MA <i> <expr> | TA <i> <expr>
            | DA <i> <expr> | C <lt|le|gt|ge|eq|ne> <expr> <expr> | O <expr> | X <expr>
     utype := N <k> | S n1..n7 | U n1..n7 d1..d7 | Q n1..n7 d1..d7     (Q: the `quantity<>` alias = UnitRebind)
     expr  := v<i> | l<16 hex digits> | neg e | add e e | sub e e | mul e e | div e e
            | pow <n> <d> e | mk <utype> e | val e
   answer: accept {q <tag> n1/d1 .. n7/d7 <hex> | s <hex> | b <0|1>}*      (one item per printing statement)
           reject <index of the first statement that does not compile>
   The table of named units is the generated TfelVerif.C20.GenTable (dumped from the headers). -/
import TfelVerif.C20.Table
open TfelVerif.C20

def hexVal (c : Char) : Option UInt64 :=
  if '0' ≤ c ∧ c ≤ '9' then some (c.toNat - '0'.toNat).toUInt64
  else if 'a' ≤ c ∧ c ≤ 'f' then some (c.toNat - 'a'.toNat + 10).toUInt64
  else none

def parseHex (s : String) : Option Float :=
  if s.length ≠ 16 then none
  else (s.foldl (fun acc c => match acc, hexVal c with
      | some a, some v => some (a * 16 + v)
      | _, _ => none) (some (0 : UInt64))).map Float.ofBits

def hexDigit (v : UInt64) : Char :=
  let n := v.toNat
  if n < 10 then Char.ofNat (n + '0'.toNat) else Char.ofNat (n - 10 + 'a'.toNat)

def showHex (x : Float) : String :=
  if x.isNaN then "nan"
  else
    let b := x.toBits
    String.ofList ((List.range 16).map fun i => hexDigit ((b >>> (4 * (15 - i)).toUInt64) &&& 15))

def opsF : Ops Float :=
  { add := (· + ·), sub := (· - ·), mul := (· * ·), div := (· / ·), neg := fun x => -x,
    pw := powerD Float.sqrt (fun x n d => Float.pow x (Float.ofInt n / Float.ofNat d)) }

def relF : Rel Float :=
  { lt := fun x y => decide (x < y), le := fun x y => decide (x ≤ y), eq := fun x y => x == y }

abbrev Toks := List String

def takeInts : Nat → Toks → Option (List Int × Toks)
  | 0, ts => some ([], ts)
  | k + 1, t :: ts => do
      let v ← t.toInt?
      let (r, rest) ← takeInts k ts
      pure (v :: r, rest)
  | _, [] => none

def parseUT : Toks → Option (UT × Toks)
  | "N" :: k :: ts => do
      let k ← k.toNat?
      let e ← tbl[k]?
      pure (⟨.named k, e⟩, ts)
  | "S" :: ts => do
      let (ns, rest) ← takeInts 7 ts
      pure (⟨.std, ns.map fun n => ⟨n, 1⟩⟩, rest)
  | "U" :: ts => do
      let (ns, r1) ← takeInts 7 ts
      let (ds, r2) ← takeInts 7 r1
      if ds.any (· < 0) then none
      else pure (⟨.frac, List.zipWith (fun n d => (⟨n, d.toNat⟩ : UExp)) ns ds⟩, r2)
  | "Q" :: ts => do
      let (ns, r1) ← takeInts 7 ts
      let (ds, r2) ← takeInts 7 r1
      if ds.any (· < 0) then none
      else pure (rebind tbl (List.zipWith (fun n d => (⟨n, d.toNat⟩ : UExp)) ns ds), r2)
  | _ => none

def parseExpr : Nat → Toks → Option (Expr Float × Toks)
  | 0, _ => none
  | fuel + 1, t :: ts =>
    let bin (f : Expr Float → Expr Float → Expr Float) : Option (Expr Float × Toks) := do
      let (a, r1) ← parseExpr fuel ts
      let (b, r2) ← parseExpr fuel r1
      pure (f a b, r2)
    match t with
    | "neg" => do let (a, r) ← parseExpr fuel ts; pure (.neg a, r)
    | "val" => do let (a, r) ← parseExpr fuel ts; pure (.val a, r)
    | "add" => bin .add
    | "sub" => bin .sub
    | "mul" => bin .mul
    | "div" => bin .div
    | "pow" =>
      match ts with
      | n :: d :: r0 => do
        let n ← n.toInt?
        let d ← d.toNat?
        let (a, r) ← parseExpr fuel r0
        pure (.pow n d a, r)
      | _ => none
    | "mk" => do
      let (u, r0) ← parseUT ts
      let (a, r) ← parseExpr fuel r0
      pure (.mk u a, r)
    | _ =>
      if t.startsWith "v" then (t.drop 1).toString.toNat?.map fun i => (.var i, ts)
      else if t.startsWith "l" then (parseHex (t.drop 1).toString).map fun x => (.lit x, ts)
      else none
  | _, [] => none

def parseCmp : String → Option Cmp
  | "lt" => some .lt | "le" => some .le | "gt" => some .gt | "ge" => some .ge
  | "eq" => some .eq | "ne" => some .ne | _ => none

def parseStmts : Nat → Toks → Option (List (Stmt Float))
  | _, [] => some []
  | 0, _ => none
  | fuel + 1, t :: ts => do
    let withVar (f : Nat → Expr Float → Stmt Float) : Option (Stmt Float × Toks) :=
      match ts with
      | i :: r0 => do
        let i ← i.toNat?
        let (e, r) ← parseExpr (r0.length + 1) r0
        pure (f i e, r)
      | [] => none
    let (s, rest) ← (match t with
      | "D" => do
        let (u, r0) ← parseUT ts
        let (e, r) ← parseExpr (r0.length + 1) r0
        pure (Stmt.decl u e, r)
      | "A" => withVar .assign
      | "PA" => withVar .addA
      | "MA" => withVar .subA
      | "TA" => withVar .mulA
      | "DA" => withVar .divA
      | "C" =>
        match ts with
        | c :: r0 => do
          let c ← parseCmp c
          let (a, r1) ← parseExpr (r0.length + 1) r0
          let (b, r2) ← parseExpr (r1.length + 1) r1
          pure (Stmt.cmp c a b, r2)
        | [] => none
      | "O" => do let (e, r) ← parseExpr (ts.length + 1) ts; pure (Stmt.out e, r)
      | "X" => do let (e, r) ← parseExpr (ts.length + 1) ts; pure (Stmt.toD e, r)
      | _ => none : Option (Stmt Float × Toks))
    let more ← parseStmts fuel rest
    pure (s :: more)

def showTag : Tag → String
  | .named k => s!"N{k}"
  | .std => "S"
  | .frac => "U"

def showOut : Out Float → String
  | .value (.qty u) x => s!"q {showTag u.tag} {" ".intercalate (u.e.map fun e => s!"{e.num}/{e.den}")} {showHex x}"
  | .value .scalar x => s!"s {showHex x}"
  | .flag b => if b then "b 1" else "b 0"

def answer (line : String) : String :=
  let toks := (line.trimAscii.toString.splitOn " ").filter (· ≠ "")
  match parseStmts (toks.length + 1) toks with
  | none => "bad-op"
  | some prog =>
    let s0 : State Float := { ctx := [], env := [], outs := [] }
    match runQ tbl opsF relF 0.0 s0 prog with
    | some s => " ".intercalate ("accept" :: s.outs.map showOut)
    | none =>
      match firstBad tbl opsF relF 0.0 s0 prog 0 with
      | some k => s!"reject {k}"
      | none => "reject ?"

partial def loop (h : IO.FS.Stream) : IO Unit := do
  let line ← h.getLine
  if line.isEmpty then return ()
  IO.println (answer line)
  loop h

def main : IO Unit := do loop (← IO.getStdin)
