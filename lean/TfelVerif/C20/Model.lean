/-
  C20 — hand-written executable model (core Lean only) of the compile-time unit checking of
  `tfel::math::qt<Unit, double>` and of the values it computes.

    * unit exponents as normalised numerator/denominator pairs and their arithmetic
      (`unit::add / subtract / multiply`, Quantity/Unit.hxx);
    * unit *types*: the C++ checks `+ - < <= > >= == !=` with `std::is_same_v` on the unit type and
      assignments / constructions with `areUnitsEqual` (equality of exponents).  Results of `* /
      power` are rebuilt by `UnitRebind` (Forward/Unit.hxx): the named unit having these exponents if
      there is one, else `StandardUnit<…>` when all denominators are 1, else `Unit<…>`;
    * a typing judgement `typeOf` for expressions and `runQ` for straight-line programs over
      quantities, which also computes the values; `runD` for the unit-erased `double` program.

  Everything is polymorphic in the value type `α` (`Float` in the driver, a field in the theorems).
-/
namespace TfelVerif.C20

/-! ## unit exponents -/

/-- `unit::UnitExponent` -/
structure UExp where
  num : Int
  den : Nat
deriving DecidableEq, Repr, Inhabited

/-- `isValid(e) && isIrreductible(e)` -/
def UExp.valid (e : UExp) : Bool := e.den != 0 && Nat.gcd e.num.natAbs e.den == 1

/-- `g = gcd(numerator, denominator); {numerator / g, denominator / g}` -/
def reduce (n : Int) (d : Nat) : UExp :=
  let g := Nat.gcd n.natAbs d
  ⟨n / (g : Int), d / g⟩

def UExp.add (a b : UExp) : UExp := reduce (a.num * b.den + b.num * a.den) (a.den * b.den)
def UExp.sub (a b : UExp) : UExp := reduce (a.num * b.den - b.num * a.den) (a.den * b.den)
def UExp.mul (a b : UExp) : UExp := reduce (a.num * b.num) (a.den * b.den)

/-- `unit::UnitExponents`: the 7 exponents (kg, m, s, A, K, cd, mol) -/
abbrev Exps := List UExp

def Exps.valid (a : Exps) : Bool := a.length == 7 && a.all UExp.valid
def Exps.add (a b : Exps) : Exps := List.zipWith UExp.add a b
def Exps.sub (a b : Exps) : Exps := List.zipWith UExp.sub a b
/-- `PowerUnit<N,D,U>`: every exponent multiplied by `N/D` (not reduced beforehand) -/
def Exps.pow (a : Exps) (n : Int) (d : Nat) : Exps := a.map (fun e => e.mul ⟨n, d⟩)
def noUnit : Exps := List.replicate 7 ⟨0, 1⟩
def allDenOne (e : Exps) : Bool := e.all (fun x => x.den == 1)

/-! ## unit types -/

/-- which C++ type carries the exponents: a named struct (`Mass`, `Force`, … index in the table),
`StandardUnit<N…>` or `Unit<N…,D…>` -/
inductive Tag
  | named (k : Nat)
  | std
  | frac
deriving DecidableEq, Repr

structure UT where
  tag : Tag
  e : Exps
deriving DecidableEq, Repr

/-- the tag `UnitRebind<e>` chooses; `tbl` = exponents of the named units, in table order -/
def canonTag (tbl : List Exps) (e : Exps) : Tag :=
  match tbl.findIdx? (fun t => t == e) with
  | some k => .named k
  | none => if allDenOne e then .std else .frac

/-- `UnitRebind<e>::type` -/
def rebind (tbl : List Exps) (e : Exps) : UT := ⟨canonTag tbl e, e⟩

def UT.canonical (tbl : List Exps) (u : UT) : Bool := u.tag == canonTag tbl u.e

/-- a unit type that can be written down: valid exponents, and the tag agrees with them -/
def UT.wf (tbl : List Exps) (u : UT) : Bool :=
  u.e.valid &&
  match u.tag with
  | .named k => tbl[k]? == some u.e
  | .std => allDenOne u.e
  | .frac => true

/-- `areUnitsEqual<U, NoUnit>` -/
def UT.isNoUnit (u : UT) : Bool := u.e == noUnit

/-! ## expressions -/

inductive Ty
  | scalar
  | qty (u : UT)
deriving DecidableEq, Repr

inductive Expr (α : Type)
  | lit (x : α)                       -- a `double` literal
  | var (i : Nat)                     -- a declared quantity
  | neg (e : Expr α)
  | add (a b : Expr α)
  | sub (a b : Expr α)
  | mul (a b : Expr α)
  | div (a b : Expr α)
  | pow (n : Int) (d : Nat) (e : Expr α)   -- `power<N,D>(e)`
  | mk (u : UT) (e : Expr α)          -- `qt<U>(e)`
  | val (e : Expr α)                  -- `base_type_cast(e)`

variable {α : Type}

/-- type of `a + b` / `a - b` -/
def addTy (tbl : List Exps) : Ty → Ty → Option Ty
  | .scalar, .scalar => some .scalar
  | .qty u, .qty v => if u = v then some (.qty u) else none            -- `is_same_v`, else `= delete`
  | .qty u, .scalar => if u.isNoUnit then some (.qty (rebind tbl noUnit)) else none
  | .scalar, .qty u => if u.isNoUnit then some (.qty (rebind tbl noUnit)) else none

def mulTy (tbl : List Exps) : Ty → Ty → Option Ty
  | .scalar, .scalar => some .scalar
  | .qty u, .qty v => some (.qty (rebind tbl (u.e.add v.e)))
  | .qty u, .scalar => some (.qty u)
  | .scalar, .qty u => some (.qty u)

def divTy (tbl : List Exps) : Ty → Ty → Option Ty
  | .scalar, .scalar => some .scalar
  | .qty u, .qty v => some (.qty (rebind tbl (u.e.sub v.e)))
  | .qty u, .scalar => some (.qty u)
  | .scalar, .qty u => some (.qty (rebind tbl (noUnit.sub u.e)))

def powTy (tbl : List Exps) (n : Int) (d : Nat) : Ty → Option Ty
  | .scalar => if d = 0 then none else some .scalar
  | .qty u => if d = 0 then none else some (.qty (rebind tbl (u.e.pow n d)))

/-- `qt<U>(e)`: from a `double` (explicit constructor), from a quantity with equal exponents
(`areUnitsEqual`), or from a dimensionless quantity (it converts implicitly to `double`) -/
def mkTy (tbl : List Exps) (u : UT) : Ty → Option Ty
  | .scalar => if u.wf tbl then some (.qty u) else none
  | .qty v => if u.wf tbl && (v.e == u.e || v.isNoUnit) then some (.qty u) else none

def typeOf (tbl : List Exps) (ctx : List UT) : Expr α → Option Ty
  | .lit _ => some .scalar
  | .var i => (ctx[i]?).map .qty
  | .neg e => typeOf tbl ctx e
  | .add a b => do addTy tbl (← typeOf tbl ctx a) (← typeOf tbl ctx b)
  | .sub a b => do addTy tbl (← typeOf tbl ctx a) (← typeOf tbl ctx b)
  | .mul a b => do mulTy tbl (← typeOf tbl ctx a) (← typeOf tbl ctx b)
  | .div a b => do divTy tbl (← typeOf tbl ctx a) (← typeOf tbl ctx b)
  | .pow n d e => do powTy tbl n d (← typeOf tbl ctx e)
  | .mk u e => do mkTy tbl u (← typeOf tbl ctx e)
  | .val e => do let _ ← typeOf tbl ctx e; pure .scalar

/-! ## values -/

/-- the arithmetic of the value type; `pw n d x` is `tfel::math::power<N,D>(x)` -/
structure Ops (α : Type) where
  add : α → α → α
  sub : α → α → α
  mul : α → α → α
  div : α → α → α
  neg : α → α
  pw : Int → Nat → α → α

/-- the computation on the underlying values, as the quantity operators perform it
(`base_type_cast(a) Op base_type_cast(b)`) -/
def value (o : Ops α) (env : List α) (dflt : α) : Expr α → α
  | .lit x => x
  | .var i => env.getD i dflt
  | .neg e => o.neg (value o env dflt e)
  | .add a b => o.add (value o env dflt a) (value o env dflt b)
  | .sub a b => o.sub (value o env dflt a) (value o env dflt b)
  | .mul a b => o.mul (value o env dflt a) (value o env dflt b)
  | .div a b => o.div (value o env dflt a) (value o env dflt b)
  | .pow n d e => o.pw n d (value o env dflt e)
  | .mk _ e => value o env dflt e
  | .val e => value o env dflt e

/-- typed evaluation: unit type and value, `none` when the expression does not compile -/
def evalQ (tbl : List Exps) (o : Ops α) (ctx : List UT) (env : List α) (dflt : α) (e : Expr α) :
    Option (Ty × α) :=
  (typeOf tbl ctx e).map fun t => (t, value o env dflt e)

/-- the unit-erased program: plain `double` expressions -/
inductive SExpr (α : Type)
  | lit (x : α)
  | var (i : Nat)
  | neg (e : SExpr α)
  | add (a b : SExpr α)
  | sub (a b : SExpr α)
  | mul (a b : SExpr α)
  | div (a b : SExpr α)
  | pow (n : Int) (d : Nat) (e : SExpr α)

def erase : Expr α → SExpr α
  | .lit x => .lit x
  | .var i => .var i
  | .neg e => .neg (erase e)
  | .add a b => .add (erase a) (erase b)
  | .sub a b => .sub (erase a) (erase b)
  | .mul a b => .mul (erase a) (erase b)
  | .div a b => .div (erase a) (erase b)
  | .pow n d e => .pow n d (erase e)
  | .mk _ e => erase e
  | .val e => erase e

def evalD (o : Ops α) (env : List α) (dflt : α) : SExpr α → α
  | .lit x => x
  | .var i => env.getD i dflt
  | .neg e => o.neg (evalD o env dflt e)
  | .add a b => o.add (evalD o env dflt a) (evalD o env dflt b)
  | .sub a b => o.sub (evalD o env dflt a) (evalD o env dflt b)
  | .mul a b => o.mul (evalD o env dflt a) (evalD o env dflt b)
  | .div a b => o.div (evalD o env dflt a) (evalD o env dflt b)
  | .pow n d e => o.pw n d (evalD o env dflt e)

/-! ## straight-line programs -/

inductive Cmp | lt | le | gt | ge | eq | ne
deriving DecidableEq, Repr

inductive Stmt (α : Type)
  | decl (u : UT) (e : Expr α)        -- `qt<U> v_k(e);`  (k = number of variables declared so far)
  | assign (i : Nat) (e : Expr α)     -- `v_i = e;`
  | addA (i : Nat) (e : Expr α)       -- `v_i += e;`
  | subA (i : Nat) (e : Expr α)       -- `v_i -= e;`
  | mulA (i : Nat) (e : Expr α)       -- `v_i *= e;`
  | divA (i : Nat) (e : Expr α)       -- `v_i /= e;`
  | cmp (c : Cmp) (a b : Expr α)      -- prints `a c b`
  | out (e : Expr α)                  -- prints the unit and the value of `e`
  | toD (e : Expr α)                  -- `double d = e;` prints `d`

/-- may a value of type `t` be assigned (`=`, `+=`, `-=`) to a variable of unit type `u`?
quantity: `areUnitsEqual`; `double`: only into a dimensionless quantity -/
def assignable (u : UT) : Ty → Bool
  | .qty v => v.e == u.e
  | .scalar => u.isNoUnit

/-- may `v *= t` / `v /= t` be written? a `double` or a dimensionless quantity -/
def scalable : Ty → Bool
  | .qty v => v.isNoUnit
  | .scalar => true

/-- comparison of two operands: same unit *type*, or a dimensionless quantity against a `double` -/
def comparable : Ty → Ty → Bool
  | .qty u, .qty v => u = v
  | .qty u, .scalar => u.isNoUnit
  | .scalar, .qty u => u.isNoUnit
  | .scalar, .scalar => true

/-- implicit conversion to `double`: dimensionless quantities only -/
def convertsToDouble : Ty → Bool
  | .qty u => u.isNoUnit
  | .scalar => true

inductive Out (α : Type)
  | value (t : Ty) (x : α)
  | flag (b : Bool)

structure State (α : Type) where
  ctx : List UT
  env : List α
  outs : List (Out α)

/-- comparisons on the value type -/
structure Rel (α : Type) where
  lt : α → α → Bool
  le : α → α → Bool
  eq : α → α → Bool

def Rel.test (r : Rel α) : Cmp → α → α → Bool
  | .lt, x, y => r.lt x y
  | .le, x, y => r.le x y
  | .gt, x, y => r.lt y x
  | .ge, x, y => r.le y x
  | .eq, x, y => r.eq x y
  | .ne, x, y => !(r.eq x y)

def setAt (l : List α) (i : Nat) (x : α) : List α := l.set i x

/-- one statement: `none` = does not compile -/
def step (tbl : List Exps) (o : Ops α) (r : Rel α) (dflt : α) (s : State α) : Stmt α → Option (State α)
  | .decl u e =>
      match typeOf tbl s.ctx (Expr.mk u e) with
      | some _ => some { s with ctx := s.ctx ++ [u], env := s.env ++ [value o s.env dflt e] }
      | none => none
  | .assign i e => do
      let u ← s.ctx[i]?
      let t ← typeOf tbl s.ctx e
      if assignable u t then pure { s with env := setAt s.env i (value o s.env dflt e) } else none
  | .addA i e => do
      let u ← s.ctx[i]?
      let t ← typeOf tbl s.ctx e
      if assignable u t then
        pure { s with env := setAt s.env i (o.add (s.env.getD i dflt) (value o s.env dflt e)) }
      else none
  | .subA i e => do
      let u ← s.ctx[i]?
      let t ← typeOf tbl s.ctx e
      if assignable u t then
        pure { s with env := setAt s.env i (o.sub (s.env.getD i dflt) (value o s.env dflt e)) }
      else none
  | .mulA i e => do
      let _ ← s.ctx[i]?
      let t ← typeOf tbl s.ctx e
      if scalable t then
        pure { s with env := setAt s.env i (o.mul (s.env.getD i dflt) (value o s.env dflt e)) }
      else none
  | .divA i e => do
      let _ ← s.ctx[i]?
      let t ← typeOf tbl s.ctx e
      if scalable t then
        pure { s with env := setAt s.env i (o.div (s.env.getD i dflt) (value o s.env dflt e)) }
      else none
  | .cmp c a b => do
      let ta ← typeOf tbl s.ctx a
      let tb ← typeOf tbl s.ctx b
      if comparable ta tb then
        pure { s with outs := s.outs ++ [Out.flag (r.test c (value o s.env dflt a) (value o s.env dflt b))] }
      else none
  | .out e => do
      let t ← typeOf tbl s.ctx e
      pure { s with outs := s.outs ++ [Out.value t (value o s.env dflt e)] }
  | .toD e => do
      let t ← typeOf tbl s.ctx e
      if convertsToDouble t then
        pure { s with outs := s.outs ++ [Out.value .scalar (value o s.env dflt e)] }
      else none

/-- a program; `none` = some statement does not compile (index reported by `firstBad`) -/
def runQ (tbl : List Exps) (o : Ops α) (r : Rel α) (dflt : α) : State α → List (Stmt α) → Option (State α)
  | s, [] => some s
  | s, st :: rest => (step tbl o r dflt s st).bind fun s' => runQ tbl o r dflt s' rest

/-- index of the first statement that does not compile -/
def firstBad (tbl : List Exps) (o : Ops α) (r : Rel α) (dflt : α) : State α → List (Stmt α) → Nat → Option Nat
  | _, [], _ => none
  | s, st :: rest, k =>
    match step tbl o r dflt s st with
    | none => some k
    | some s' => firstBad tbl o r dflt s' rest (k + 1)

/-! ### the erased program on plain values -/

inductive SStmt (α : Type)
  | decl (e : SExpr α)
  | assign (i : Nat) (e : SExpr α)
  | addA (i : Nat) (e : SExpr α)
  | subA (i : Nat) (e : SExpr α)
  | mulA (i : Nat) (e : SExpr α)
  | divA (i : Nat) (e : SExpr α)
  | cmp (c : Cmp) (a b : SExpr α)
  | out (e : SExpr α)

def eraseS : Stmt α → SStmt α
  | .decl _ e => .decl (erase e)
  | .assign i e => .assign i (erase e)
  | .addA i e => .addA i (erase e)
  | .subA i e => .subA i (erase e)
  | .mulA i e => .mulA i (erase e)
  | .divA i e => .divA i (erase e)
  | .cmp c a b => .cmp c (erase a) (erase b)
  | .out e => .out (erase e)
  | .toD e => .out (erase e)

inductive DOut (α : Type)
  | value (x : α)
  | flag (b : Bool)

structure DState (α : Type) where
  env : List α
  outs : List (DOut α)

def stepD (o : Ops α) (r : Rel α) (dflt : α) (s : DState α) : SStmt α → DState α
  | .decl e => { s with env := s.env ++ [evalD o s.env dflt e] }
  | .assign i e => { s with env := setAt s.env i (evalD o s.env dflt e) }
  | .addA i e => { s with env := setAt s.env i (o.add (s.env.getD i dflt) (evalD o s.env dflt e)) }
  | .subA i e => { s with env := setAt s.env i (o.sub (s.env.getD i dflt) (evalD o s.env dflt e)) }
  | .mulA i e => { s with env := setAt s.env i (o.mul (s.env.getD i dflt) (evalD o s.env dflt e)) }
  | .divA i e => { s with env := setAt s.env i (o.div (s.env.getD i dflt) (evalD o s.env dflt e)) }
  | .cmp c a b => { s with outs := s.outs ++ [DOut.flag (r.test c (evalD o s.env dflt a) (evalD o s.env dflt b))] }
  | .out e => { s with outs := s.outs ++ [DOut.value (evalD o s.env dflt e)] }

def runD (o : Ops α) (r : Rel α) (dflt : α) : DState α → List (SStmt α) → DState α
  | s, [] => s
  | s, st :: rest => runD o r dflt (stepD o r dflt s st) rest

def Out.erase : Out α → DOut α
  | .value _ x => .value x
  | .flag b => .flag b

/-! ## `tfel::math::power<N,D>` on a floating-point value (power.ixx) -/
section power
variable [OfNat α 1] [Mul α] [Div α]

/-- `PowerPos<N>::exe` : `N < 4` explicit products, else `t = PowerPos<N/4>(x)`,
`t2 = PowerPos<N%4>(x)`, `t*t*t*t*t2` (without the last factor when `N%4 = 0`) -/
def powerPos (x : α) : Nat → α
  | 0 => 1
  | 1 => x
  | 2 => x * x
  | 3 => x * x * x
  | n + 4 =>
    let t := powerPos x ((n + 4) / 4)
    if (n + 4) % 4 = 0 then t * t * t * t
    else t * t * t * t * powerPos x ((n + 4) % 4)
decreasing_by all_goals omega

/-- `power<N,D>(x)` (`PowerImplSelector`): `D = 1`: `PowerPos<N>` / `PowerPos<-N>(1/x)`; `D = 2`:
`sqrt` of it (both *without* reducing `N/D`: the partial specialisations match first); any other `D`:
`N/D` is reduced (`std::ratio`) and the choice is made again, `std::pow(x, N/D)` when the reduced
denominator is neither 1 nor 2; `|N| > 100` always goes to `std::pow` -/
def powerD (sqrt : α → α) (stdpow : α → Int → Nat → α) (n : Int) (d : Nat) (x : α) : α :=
  let sel1 (m : Int) : α :=
    if m.natAbs > 100 then stdpow x m 1
    else if m < 0 then powerPos (1 / x) m.natAbs else powerPos x m.natAbs
  let sel2 (m : Int) : α :=
    if m.natAbs > 100 then stdpow x m 2
    else if m < 0 then sqrt (powerPos (1 / x) m.natAbs) else sqrt (powerPos x m.natAbs)
  if d = 1 then sel1 n
  else if d = 2 then sel2 n
  else
    let r := reduce n d
    if r.den = 1 then sel1 r.num
    else if r.den = 2 then sel2 r.num
    else stdpow x r.num r.den

end power

end TfelVerif.C20
