/- the named units of the current headers (generated GenTable.lean) as the table of the model -/
import TfelVerif.C20.Model
import TfelVerif.C20.GenTable
namespace TfelVerif.C20

/-- exponents of the named units, in the order of harness/C20/table.cxx -/
def tbl : List Exps := Gen.units.map fun u => u.2.2.map fun p => (⟨p.1, p.2⟩ : UExp)

/-- index of a named unit -/
def unitIdx (name : String) : Option Nat := Gen.units.findIdx? fun u => u.1 == name

end TfelVerif.C20
