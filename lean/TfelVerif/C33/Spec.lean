/-
  C33 — reference definitions (core Lean only): UTF-8 decoding of one code point, the four
  upper-case hexadecimal digits of a code point, the mangling prefix.  Bytes are `Nat`s.
-/
namespace TfelVerif.C33

/-- continuation byte `10xxxxxx` -/
def isCont (b : Nat) : Bool := 0x80 ≤ b && b ≤ 0xBF

/-- strict decoding of exactly one UTF-8 encoded code point (shortest form only, no surrogates,
at most U+10FFFF) -/
def utf8Decode : List Nat → Option Nat
  | [a] => if a < 0x80 then some a else none
  | [a, b] =>
    if 0xC2 ≤ a && a ≤ 0xDF && isCont b then some ((a - 0xC0) * 64 + (b - 0x80)) else none
  | [a, b, c] =>
    if 0xE0 ≤ a && a ≤ 0xEF && isCont b && isCont c then
      let cp := (a - 0xE0) * 4096 + (b - 0x80) * 64 + (c - 0x80)
      if 0x800 ≤ cp && !(0xD800 ≤ cp && cp ≤ 0xDFFF) then some cp else none
    else none
  | [a, b, c, d] =>
    if 0xF0 ≤ a && a ≤ 0xF4 && isCont b && isCont c && isCont d then
      let cp := (a - 0xF0) * 262144 + (b - 0x80) * 4096 + (c - 0x80) * 64 + (d - 0x80)
      if 0x10000 ≤ cp && cp ≤ 0x10FFFF then some cp else none
    else none
  | _ => none

/-- ASCII code of an upper-case hexadecimal digit -/
def hexDigit (n : Nat) : Nat := if n < 10 then 48 + n else 55 + n

/-- the four hexadecimal digits of `n < 65536`, most significant first -/
def hex4 (n : Nat) : List Nat :=
  [hexDigit (n / 4096 % 16), hexDigit (n / 256 % 16), hexDigit (n / 16 % 16), hexDigit (n % 16)]

/-- `"tfel_unicode_mangling_"` -/
def pfx : List Nat := "tfel_unicode_mangling_".toList.map Char.toNat

/-- the UTF-8 bytes Lean's own encoder produces for the code point `cp` -/
def leanUtf8 (cp : Nat) : List Nat := (String.singleton (Char.ofNat cp)).toUTF8.toList.map UInt8.toNat

end TfelVerif.C33
