/-
  C33 — hand-written executable model (core Lean only) of Unicode mangling.

    * `seqReplace rules s` — one `replace_all(r, pattern, replacement)` per table entry, in table
      order, each on the result of the previous one.  This is the loop of
      `tfel::unicode::getMangledString` (src/UnicodeSupport/UnicodeSupport.cxx, with its local
      `replace_all` lambda) for `rules = table`, and the loop of `process` in
      tfel-unicode-filt/src/tfel-unicode-filt.cxx (which calls `tfel::utilities::replace_all`)
      for `rules = swap table`.  `replace_all` is the model of C32 (`C32.replaceAll`).
    * `sim rules s` — the reference meaning: one left-to-right scan replacing, at each position, the
      pattern of the table that starts there (if any) and copying the byte otherwise.
  Strings are lists over any alphabet with decidable equality (bytes as `Nat` in the driver and in
  the generated table).  The table itself is NOT written here: `GenTable.lean` is regenerated on
  every run from the compiled `getSupportedUnicodeCharactersDescriptions()`.
-/
import TfelVerif.C32.Model

namespace TfelVerif.C33
open TfelVerif

variable {α : Type} [DecidableEq α]

/-- the sequential loop over the table -/
def seqReplace (rules : List (List α × List α)) (s : List α) : List α :=
  rules.foldl (fun r e => C32.replaceAll r e.1 e.2) s

/-- entries exchanged: the filter replaces mangled names by characters -/
def swap (rules : List (List α × List α)) : List (List α × List α) :=
  rules.map (fun e => (e.2, e.1))

/-- first rule whose pattern starts the string -/
def findRule (rules : List (List α × List α)) (s : List α) : Option (List α × List α) :=
  rules.find? (fun e => e.1.isPrefixOf s)

/-- simultaneous replacement by one left-to-right scan -/
def sim (rules : List (List α × List α)) : List α → List α
  | [] => []
  | b :: x =>
    match findRule rules (b :: x) with
    | some e => e.2 ++ sim rules (x.drop (e.1.length - 1))
    | none => b :: sim rules x
termination_by s => s.length
decreasing_by
  all_goals simp only [List.length_cons, List.length_drop]
  all_goals omega

/-- `getMangledString` for a given table -/
def mangle (table : List (List α × List α)) (s : List α) : List α := seqReplace table s

/-- `tfel-unicode-filt`'s `process` for a given table (without the final newline) -/
def demangle (table : List (List α × List α)) (s : List α) : List α := seqReplace (swap table) s

end TfelVerif.C33
