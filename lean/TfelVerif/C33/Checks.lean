/-
  C33 — Boolean checks evaluated on the generated table (core Lean only, so that every instance in
  them is the core one and kernel evaluation is fast).  Their meaning is established by the
  soundness lemmas of Lemmas.lean; Props.lean evaluates them on `Gen.table`.
-/
import TfelVerif.C33.Model
import TfelVerif.C33.Spec

namespace TfelVerif.C33

/-- bytes `>= 128`: what the characters of the table are made of -/
def high (c : Nat) : Bool := Nat.ble 128 c
/-- bytes `< 128` (ASCII): what the mangled names are made of -/
def low (c : Nat) : Bool := !Nat.ble 128 c
/-- lead bytes of the characters: `11xxxxxx`; the other bytes of a character are `10xxxxxx` -/
def ucLead (c : Nat) : Bool := Nat.ble 192 c
/-- length of a UTF-8 sequence, from its lead byte -/
def ucLen (c : Nat) : Nat := if Nat.ble 224 c then (if Nat.ble 240 c then 4 else 3) else 2
/-- lead byte of the mangled names: `t`, which occurs nowhere else in a name -/
def nameLead (c : Nat) : Bool := Nat.beq c 116
/-- common length of the mangled names -/
def nameLen : Nat := 26

variable {α : Type}

/-- every pattern is a lead byte followed by non-lead bytes, its length given by the lead byte -/
def leadB (L : α → Bool) (len : α → Nat) (rules : List (List α × List α)) : Bool :=
  rules.all fun e =>
    match e.1 with
    | [] => false
    | h :: t => L h && t.all (fun c => !L c) && Nat.beq e.1.length (len h)

/-- bytes of patterns in `h`, replacements non-empty and outside `h` -/
def classesB (h : α → Bool) (rules : List (List α × List α)) : Bool :=
  rules.all fun e => !e.1.isEmpty && e.1.all h && !e.2.isEmpty && e.2.all (fun c => !h c)

/-- duplicate detection with a bit set: `seen` has bit `k` set iff key `k` was met -/
def noDupGo : List Nat → Nat → Bool
  | [], _ => true
  | k :: ks, seen => !seen.testBit k && noDupGo ks (seen ||| (1 <<< k))

def noDupKeys (keys : List Nat) : Bool := noDupGo keys 0

/-- numeric key of a character: its code point (0 if ill-formed) -/
def ucKey (uc : List Nat) : Nat := (utf8Decode uc).getD 0

/-- numeric key of a mangled name: its last four bytes read as hexadecimal digits (a number below
`16 * 65536` whatever the bytes are) -/
def nameKey (m : List Nat) : Nat :=
  ((m.drop 22).take 4).foldl (fun a b => a * 16 + (if Nat.ble 58 b then (b - 55) % 16 else (b - 48) % 16)) 0

/-- list equality on bytes with the core comparison -/
def eqBytes : List Nat → List Nat → Bool
  | [], [] => true
  | a :: as, b :: bs => Nat.beq a b && eqBytes as bs
  | _, _ => false

/-- entry-wise: one well-formed code point below U+10000, same bytes from Lean's encoder, mangled
name = prefix ++ four hexadecimal digits of the code point -/
def encodesB (t : List (List Nat × List Nat)) : Bool :=
  t.all fun e =>
    match utf8Decode e.1 with
    | some cp => !Nat.ble 65536 cp && eqBytes (leanUtf8 cp) e.1 && eqBytes e.2 (pfx ++ hex4 cp)
    | none => false

/-- all names start with the prefix and have the common length -/
def shapesB (t : List (List Nat × List Nat)) : Bool :=
  t.all fun e => Nat.beq e.2.length nameLen && eqBytes (e.2.take 22) pfx

end TfelVerif.C33
