/- line-protocol driver of the C33 model: `mangle <hex>` / `demangle <hex>` (hex-encoded bytes,
   `-` = empty) answered by `s <hex>`; the table is the generated one. -/
import TfelVerif.C33.Model
import TfelVerif.C33.GenTable
open TfelVerif.C33

def hexDigit? (c : Char) : Option Nat :=
  if '0' ≤ c && c ≤ '9' then some (c.toNat - '0'.toNat)
  else if 'a' ≤ c && c ≤ 'f' then some (c.toNat - 'a'.toNat + 10)
  else none

def unhexAux : List Char → List Nat → Option (List Nat)
  | [], acc => some acc.reverse
  | [_], _ => none
  | a :: b :: r, acc =>
    match hexDigit? a, hexDigit? b with
    | some x, some y => unhexAux r ((16 * x + y) :: acc)
    | _, _ => none

def unhex (s : String) : Option (List Nat) :=
  if s = "-" then some [] else unhexAux s.toList []

def hexChar (n : Nat) : Char := "0123456789abcdef".toList.getD n '?'

def hex (s : List Nat) : String :=
  if s.isEmpty then "-"
  else String.ofList (s.flatMap fun c => [hexChar (c / 16), hexChar (c % 16)])

def answer (line : String) : String :=
  match (line.trimAscii.toString.splitOn " ") with
  | ["mangle", s] =>
    match unhex s with
    | some s => "s " ++ hex (mangle Gen.table s)
    | none => "bad-op"
  | ["demangle", s] =>
    match unhex s with
    | some s => "s " ++ hex (demangle Gen.table s)
    | none => "bad-op"
  | ["sim", s] =>
    match unhex s with
    | some s => "s " ++ hex (sim Gen.table s)
    | none => "bad-op"
  | _ => "bad-op"

partial def loop (hin : IO.FS.Stream) (hout : IO.FS.Stream) : IO Unit := do
  let line ← hin.getLine
  if line.isEmpty then return ()
  hout.putStrLn (answer line)
  loop hin hout

def main : IO Unit := do
  loop (← IO.getStdin) (← IO.getStdout)
