/-
  C33 — general lemmas: for a rule table whose patterns live in a byte class `H`, whose replacements
  avoid `H`, and whose patterns cannot start inside one another, the sequential loop of
  `replace_all` calls equals one simultaneous left-to-right scan (`seqReplace = sim`), no pattern is
  left, and scanning back with the exchanged table is the identity on strings that do not contain
  the mangling prefix.  Everything is proved for arbitrary tables and alphabets; Props.lean
  instantiates it with the generated table after checking the hypotheses by evaluation.
-/
import Mathlib.Data.List.Basic
import Mathlib.Data.List.Infix
import Mathlib.Data.List.Nodup
import Mathlib.Tactic.Common
import TfelVerif.C32.Lemmas
import TfelVerif.C33.Model
import TfelVerif.C33.Checks

namespace TfelVerif.C33
open TfelVerif TfelVerif.C32

variable {α : Type} [DecidableEq α]
set_option linter.unusedSectionVars false
set_option linter.unusedSimpArgs false
set_option linter.unusedVariables false

/-! ### hypotheses on a rule table -/

/-- comparable for the prefix order: both can start the same string -/
def Compat (a b : List α) : Prop := a <+: b ∨ b <+: a

/-- no occurrence of `p` can start at a position covered by a leading `q` -/
def NoStart (p q : List α) : Prop := ∀ k, k < q.length → ¬ Compat p (q.drop k)

/-- patterns are non-empty and made of `H` bytes, replacements are non-empty and avoid `H`,
and no pattern can start inside (or at the start of) another one -/
structure Good (H : α → Prop) (rules : List (List α × List α)) : Prop where
  pat : ∀ e ∈ rules, e.1 ≠ [] ∧ ∀ c ∈ e.1, H c
  rep : ∀ e ∈ rules, e.2 ≠ [] ∧ ∀ c ∈ e.2, ¬ H c
  apart : rules.Pairwise (fun a b => NoStart a.1 b.1 ∧ NoStart b.1 a.1)

theorem Good.tail {H : α → Prop} {e : List α × List α} {rest : List (List α × List α)}
    (g : Good H (e :: rest)) : Good H rest :=
  ⟨fun x hx => g.pat x (List.mem_cons_of_mem _ hx), fun x hx => g.rep x (List.mem_cons_of_mem _ hx),
   (List.pairwise_cons.mp g.apart).2⟩

theorem compat_of_prefixes {a b s : List α} (ha : a <+: s) (hb : b <+: s) : Compat a b := by
  rcases Nat.le_total a.length b.length with h | h
  · exact Or.inl (List.prefix_of_prefix_length_le ha hb h)
  · exact Or.inr (List.prefix_of_prefix_length_le hb ha h)

/-! ### replace_all: unfolding -/

theorem replaceAll_none {s p m : List α} (h : firstOcc p s = none) : replaceAll s p m = s := by
  unfold replaceAll
  split
  · rfl
  · rename_i h1; exact replaceGo_none h1 h

theorem replaceAll_some {s p m u r : List α} (hp : p ≠ []) (h : firstOcc p s = some (u, r)) :
    replaceAll s p m = u ++ m ++ replaceAll r p m := by
  unfold replaceAll
  rw [dif_neg hp, dif_neg hp]
  exact replaceGo_some hp h

theorem replaceAll_nil (p m : List α) : replaceAll [] p m = [] := by
  by_cases hp : p = []
  · subst hp; simp [replaceAll]
  · exact replaceAll_none (by simp [firstOcc, hp])

/-- the pattern does not start here: the byte is copied -/
theorem replaceAll_cons_of_not_prefix {p m : List α} {c : α} {y : List α} (h : ¬ p <+: c :: y) :
    replaceAll (c :: y) p m = c :: replaceAll y p m := by
  have hp : p ≠ [] := by rintro rfl; exact h (List.nil_prefix)
  have hb : p.isPrefixOf (c :: y) = false := by
    rw [Bool.eq_false_iff]; intro e; exact h (List.isPrefixOf_iff_prefix.mp e)
  cases hy : firstOcc p y with
  | none =>
    have : firstOcc p (c :: y) = none := by simp [firstOcc, hb, hy]
    rw [replaceAll_none this, replaceAll_none hy]
  | some q =>
    obtain ⟨u, r⟩ := q
    have : firstOcc p (c :: y) = some (c :: u, r) := by simp [firstOcc, hb, hy]
    rw [replaceAll_some hp this, replaceAll_some hp hy]
    simp

/-- the pattern starts here: it is replaced and the scan resumes after it -/
theorem replaceAll_pattern_append {p m : List α} (hp : p ≠ []) (x : List α) :
    replaceAll (p ++ x) p m = m ++ replaceAll x p m := by
  have : firstOcc p (p ++ x) = some ([], x) := by
    cases hpx : p ++ x with
    | nil => simp at hpx; exact absurd hpx.1 hp
    | cons c y =>
      have hb : p.isPrefixOf (c :: y) = true := by
        rw [← hpx]; exact List.isPrefixOf_iff_prefix.mpr (List.prefix_append p x)
      have hd : (c :: y).drop p.length = x := by rw [← hpx]; simp
      simp [firstOcc, hb, hd]
  rw [replaceAll_some hp this]; simp

/-- a leading block inside which the pattern cannot start is copied -/
theorem replaceAll_skip {p m : List α} (q x : List α)
    (h : ∀ k, k < q.length → ¬ p <+: q.drop k ++ x) :
    replaceAll (q ++ x) p m = q ++ replaceAll x p m := by
  induction q with
  | nil => rfl
  | cons c q ih =>
    have h0 := h 0 (by simp)
    simp only [List.drop_zero, List.cons_append] at h0
    rw [List.cons_append, replaceAll_cons_of_not_prefix h0, ih]
    · rfl
    · intro k hk
      have := h (k + 1) (by simp; omega)
      simpa using this

theorem not_prefix_of_noStart {p q : List α} (h : NoStart p q) (x : List α) :
    ∀ k, k < q.length → ¬ p <+: q.drop k ++ x := by
  intro k hk hp
  exact h k hk (compat_of_prefixes hp (List.prefix_append _ _))

/-- an all-`H` string cannot reach past a non-`H` byte -/
theorem prefix_stops {H : α → Prop} {q u t : List α} {h : α} (hq : ∀ c ∈ q, H c) (hh : ¬ H h)
    (hp : q <+: u ++ h :: t) : q <+: u := by
  obtain ⟨z, hz⟩ := hp
  rcases List.append_eq_append_iff.mp hz with ⟨a', hu, _⟩ | ⟨c', hq', hc⟩
  · exact ⟨a', hu.symm⟩
  · cases c' with
    | nil => simp at hq'; rw [hq']
    | cons y ys =>
      simp only [List.cons_append, List.cons.injEq] at hc
      exfalso; apply hh
      rw [hc.1]
      exact hq y (by rw [hq']; simp)

/-- replacing cannot create an all-`H` prefix that was not there -/
theorem prefix_of_replaceAll {H : α → Prop} {q p m y : List α} (hq : ∀ c ∈ q, H c)
    (hp : p ≠ []) (hm : m ≠ []) (hmH : ∀ c ∈ m, ¬ H c) (h : q <+: replaceAll y p m) : q <+: y := by
  cases hy : firstOcc p y with
  | none => rwa [replaceAll_none hy] at h
  | some w =>
    obtain ⟨u, r⟩ := w
    rw [replaceAll_some hp hy] at h
    obtain ⟨e, _⟩ := firstOcc_some hy
    cases m with
    | nil => exact absurd rfl hm
    | cons h0 t =>
      have : q <+: u := by
        apply prefix_stops hq (hmH h0 (by simp)) (t := t ++ replaceAll r p (h0 :: t))
        simpa using h
      rw [e]
      exact this.trans (by simp [List.append_assoc])

/-! ### the scan: unfolding -/

theorem sim_nil (rules : List (List α × List α)) : sim rules [] = [] := by
  rw [sim]

theorem sim_cons_none {rules : List (List α × List α)} {b : α} {x : List α}
    (h : findRule rules (b :: x) = none) : sim rules (b :: x) = b :: sim rules x := by
  rw [sim]; simp [h]

theorem sim_cons_some {rules : List (List α × List α)} {b : α} {x : List α} {e : List α × List α}
    (h : findRule rules (b :: x) = some e) :
    sim rules (b :: x) = e.2 ++ sim rules (x.drop (e.1.length - 1)) := by
  rw [sim]; simp [h]

theorem sim_pattern_append {rules : List (List α × List α)} {e : List α × List α} {x : List α}
    (hp : e.1 ≠ []) (h : findRule rules (e.1 ++ x) = some e) :
    sim rules (e.1 ++ x) = e.2 ++ sim rules x := by
  cases hp1 : e.1 with
  | nil => exact absurd hp1 hp
  | cons c p' =>
    rw [hp1] at h
    rw [List.cons_append] at h ⊢
    rw [sim_cons_some h, hp1]
    simp

theorem findRule_some {rules : List (List α × List α)} {s : List α} {e : List α × List α}
    (h : findRule rules s = some e) : e ∈ rules ∧ e.1 <+: s := by
  unfold findRule at h
  exact ⟨List.mem_of_find?_eq_some h, by
    have := List.find?_some h
    exact List.isPrefixOf_iff_prefix.mp this⟩

theorem findRule_none {rules : List (List α × List α)} {s : List α}
    (h : findRule rules s = none) : ∀ e ∈ rules, ¬ e.1 <+: s := by
  unfold findRule at h
  intro e he hp
  have := List.find?_eq_none.mp h e he
  exact this (by simpa using List.isPrefixOf_iff_prefix.mpr hp)

theorem findRule_eq_none_of {rules : List (List α × List α)} {s : List α}
    (h : ∀ e ∈ rules, ¬ e.1 <+: s) : findRule rules s = none := by
  unfold findRule
  rw [List.find?_eq_none]
  intro e he hp
  exact h e he (List.isPrefixOf_iff_prefix.mp (by simpa using hp))

theorem findRule_cons (e : List α × List α) (rest : List (List α × List α)) (s : List α) :
    findRule (e :: rest) s = if e.1 <+: s then some e else findRule rest s := by
  unfold findRule
  rw [List.find?_cons]
  by_cases h : e.1 <+: s
  · rw [if_pos h]; simp [List.isPrefixOf_iff_prefix.mpr h]
  · rw [if_neg h]
    have : e.1.isPrefixOf s = false := by
      rw [Bool.eq_false_iff]; intro e'; exact h (List.isPrefixOf_iff_prefix.mp e')
    simp [this]

/-- the matching rule is unique: patterns that start the same string are the same entry -/
theorem findRule_unique {rules : List (List α × List α)} {s : List α} {e : List α × List α}
    (hne : ∀ x ∈ rules, x.1 ≠ [])
    (hap : rules.Pairwise (fun a b => NoStart a.1 b.1 ∧ NoStart b.1 a.1))
    (he : e ∈ rules) (hp : e.1 <+: s) : findRule rules s = some e := by
  induction rules with
  | nil => cases he
  | cons a l ih =>
    obtain ⟨ha, hl⟩ := List.pairwise_cons.mp hap
    rw [findRule_cons]
    by_cases hpa : a.1 <+: s
    · rw [if_pos hpa]
      rcases List.mem_cons.mp he with h | h
      · rw [h]
      · exfalso
        have hlen : 0 < e.1.length := List.length_pos_of_ne_nil (hne e he)
        have := (ha e h).1 0 hlen
        simp only [List.drop_zero] at this
        exact this (compat_of_prefixes hpa hp)
    · rw [if_neg hpa]
      rcases List.mem_cons.mp he with h | h
      · rw [h] at hp; exact absurd hp hpa
      · exact ih (fun x hx => hne x (List.mem_cons_of_mem _ hx)) hl h

/-- a block of non-`H` bytes is copied by the scan -/
theorem sim_append_of_not_H {H : α → Prop} {rules : List (List α × List α)}
    (hpat : ∀ e ∈ rules, e.1 ≠ [] ∧ ∀ c ∈ e.1, H c) (a y : List α) (ha : ∀ c ∈ a, ¬ H c) :
    sim rules (a ++ y) = a ++ sim rules y := by
  induction a with
  | nil => rfl
  | cons c a ih =>
    have hnone : findRule rules (c :: (a ++ y)) = none := by
      apply findRule_eq_none_of
      intro e he hp
      obtain ⟨hne, hH⟩ := hpat e he
      cases h1 : e.1 with
      | nil => exact hne h1
      | cons h0 t =>
        rw [h1] at hp
        have : h0 = c := by
          obtain ⟨z, hz⟩ := hp
          simp at hz; exact hz.1
        exact ha c (by simp) (this ▸ hH h0 (by rw [h1]; simp))
    rw [List.cons_append, sim_cons_none hnone, ih (fun c' hc' => ha c' (List.mem_cons_of_mem _ hc'))]
    rfl

/-! ### sequential = simultaneous -/

/-- replacing the first rule's pattern everywhere and then scanning with the other rules is the
scan with all the rules -/
theorem sim_replaceAll {H : α → Prop} {e : List α × List α} {rest : List (List α × List α)}
    (g : Good H (e :: rest)) (s : List α) :
    sim rest (replaceAll s e.1 e.2) = sim (e :: rest) s := by
  obtain ⟨hpe, hpH⟩ := g.pat e (by simp)
  obtain ⟨hme, hmH⟩ := g.rep e (by simp)
  have grest := g.tail
  obtain ⟨hapE, hapR⟩ := List.pairwise_cons.mp g.apart
  induction hn : s.length using Nat.strongRecOn generalizing s with
  | _ n ih =>
    cases s with
    | nil => rw [replaceAll_nil, sim_nil, sim_nil]
    | cons b x =>
      cases hf : findRule (e :: rest) (b :: x) with
      | none =>
        have hnone := findRule_none hf
        have h0 : ¬ e.1 <+: b :: x := hnone e (by simp)
        rw [replaceAll_cons_of_not_prefix h0]
        have hnone' : findRule rest (b :: replaceAll x e.1 e.2) = none := by
          apply findRule_eq_none_of
          intro e' he' hp'
          rw [← replaceAll_cons_of_not_prefix (m := e.2) h0] at hp'
          exact hnone e' (List.mem_cons_of_mem _ he')
            (prefix_of_replaceAll (grest.pat e' he').2 hpe hme hmH hp')
        rw [sim_cons_none hnone', sim_cons_none hf]
        rw [ih x.length (by rw [← hn]; simp) x rfl]
      | some e0 =>
        obtain ⟨he0, hp0⟩ := findRule_some hf
        obtain ⟨x', hx'⟩ := hp0
        have hne0 : e0.1 ≠ [] := (g.pat e0 he0).1
        have hlen : x'.length < n := by
          rw [← hn, ← hx']
          have := List.length_pos_of_ne_nil hne0
          simp; omega
        rw [findRule_cons] at hf
        by_cases hpe' : e.1 <+: b :: x
        · -- the first rule matches here
          rw [if_pos hpe'] at hf
          injection hf with hf
          subst hf
          rw [← hx', replaceAll_pattern_append hpe,
            sim_append_of_not_H grest.pat _ _ hmH, ih x'.length hlen x' rfl]
          rw [sim_pattern_append hpe (by rw [findRule_cons, if_pos (List.prefix_append _ _)])]
        · -- another rule matches here: the first rule's pattern cannot start inside it
          rw [if_neg hpe'] at hf
          obtain ⟨he0r, _⟩ := findRule_some hf
          have hns : NoStart e.1 e0.1 := (hapE e0 he0r).1
          rw [← hx', replaceAll_skip _ _ (not_prefix_of_noStart hns x')]
          have hfr : findRule rest (e0.1 ++ replaceAll x' e.1 e.2) = some e0 :=
            findRule_unique (fun y hy => (grest.pat y hy).1) hapR he0r (List.prefix_append _ _)
          rw [sim_pattern_append hne0 hfr, ih x'.length hlen x' rfl]
          have hfa : findRule (e :: rest) (e0.1 ++ x') = some e0 := by
            rw [findRule_cons, if_neg (by rw [hx']; exact hpe'), hx']; exact hf
          rw [sim_pattern_append hne0 hfa]

theorem sim_no_rules (s : List α) : sim ([] : List (List α × List α)) s = s := by
  induction s with
  | nil => exact sim_nil _
  | cons b x ih => rw [sim_cons_none (by simp [findRule]), ih]

/-- the loop of `replace_all` calls over a good table is one simultaneous scan -/
theorem seqReplace_eq_sim {H : α → Prop} {rules : List (List α × List α)} (g : Good H rules)
    (s : List α) : seqReplace rules s = sim rules s := by
  induction rules generalizing s with
  | nil => simp [seqReplace, sim_no_rules]
  | cons e rest ih =>
    have : seqReplace (e :: rest) s = seqReplace rest (replaceAll s e.1 e.2) := by
      simp [seqReplace]
    rw [this, ih g.tail, sim_replaceAll g]

/-! ### consequences for the scan -/

/-- a string none of whose bytes can start a replacement: if it starts the scanned string it
starts the input -/
theorem prefix_of_sim {rules : List (List α × List α)} (hrep : ∀ e ∈ rules, e.2 ≠ [])
    (q : List α) (hq : ∀ c ∈ q, ∀ e ∈ rules, e.2.head? ≠ some c) :
    ∀ x, q <+: sim rules x → q <+: x := by
  induction q with
  | nil => intro x _; exact List.nil_prefix
  | cons c q ih =>
    intro x h
    cases x with
    | nil => rw [sim_nil] at h; simp at h
    | cons b x =>
      cases hf : findRule rules (b :: x) with
      | some e =>
        exfalso
        obtain ⟨he, _⟩ := findRule_some hf
        rw [sim_cons_some hf] at h
        cases h2 : e.2 with
        | nil => exact hrep e he h2
        | cons h0 t =>
          rw [h2] at h
          obtain ⟨z, hz⟩ := h
          simp at hz
          exact hq c (by simp) e he (by rw [h2, hz.1]; rfl)
      | none =>
        rw [sim_cons_none hf] at h
        obtain ⟨z, hz⟩ := h
        simp only [List.cons_append, List.cons.injEq] at hz
        have := ih (fun c' hc' => hq c' (List.mem_cons_of_mem _ hc')) x ⟨z, hz.2⟩
        obtain ⟨z', hz'⟩ := this
        exact ⟨z', by rw [hz.1, ← hz']; rfl⟩

/-- an all-`H` non-empty string that occurs in `a ++ y`, `a` without `H` bytes, occurs in `y` -/
theorem infix_skip_not_H {H : α → Prop} {p : List α} (hp : p ≠ []) (hpH : ∀ c ∈ p, H c)
    (a y : List α) (ha : ∀ c ∈ a, ¬ H c) (h : p <:+: a ++ y) : p <:+: y := by
  induction a with
  | nil => exact h
  | cons c a ih =>
    rw [List.cons_append, List.infix_cons_iff] at h
    rcases h with h | h
    · exfalso
      cases p with
      | nil => exact hp rfl
      | cons h0 t =>
        obtain ⟨z, hz⟩ := h
        simp at hz
        exact ha c (by simp) (hz.1 ▸ hpH h0 (by simp))
    · exact ih (fun c' hc' => ha c' (List.mem_cons_of_mem _ hc')) h

/-- after the scan no pattern of the table occurs any more -/
theorem no_pattern_in_sim {H : α → Prop} {rules : List (List α × List α)} (g : Good H rules)
    (s : List α) : ∀ e ∈ rules, ¬ e.1 <:+: sim rules s := by
  have hhead : ∀ e ∈ rules, ∀ c ∈ e.1, ∀ e' ∈ rules, e'.2.head? ≠ some c := by
    intro e he c hc e' he' hh
    obtain ⟨hne, hnH⟩ := g.rep e' he'
    cases h2 : e'.2 with
    | nil => exact hne h2
    | cons h0 t =>
      rw [h2] at hh; simp at hh
      exact hnH h0 (by rw [h2]; simp) (hh ▸ (g.pat e he).2 c hc)
  induction hn : s.length using Nat.strongRecOn generalizing s with
  | _ n ih =>
    intro e he hin
    cases s with
    | nil =>
      rw [sim_nil] at hin
      exact (g.pat e he).1 (List.eq_nil_of_infix_nil hin)
    | cons b x =>
      cases hf : findRule rules (b :: x) with
      | some e0 =>
        obtain ⟨he0, ⟨x', hx'⟩⟩ := findRule_some hf
        rw [← hx', sim_pattern_append (g.pat e0 he0).1 (by rw [hx']; exact hf)] at hin
        have := infix_skip_not_H (g.pat e he).1 (g.pat e he).2 _ _ (g.rep e0 he0).2 hin
        have hlen : x'.length < n := by
          rw [← hn, ← hx']
          have := List.length_pos_of_ne_nil (g.pat e0 he0).1
          simp; omega
        exact ih x'.length hlen x' rfl e he this
      | none =>
        rw [sim_cons_none hf, List.infix_cons_iff] at hin
        rcases hin with hin | hin
        · -- the pattern would start at this position of the input
          apply findRule_none hf e he
          cases h1 : e.1 with
          | nil => exact absurd h1 (g.pat e he).1
          | cons c q =>
            rw [h1] at hin
            obtain ⟨z, hz⟩ := hin
            simp only [List.cons_append, List.cons.injEq] at hz
            have hq : q <+: x := prefix_of_sim (fun e' he' => (g.rep e' he').1) q
              (fun c' hc' => hhead e he c' (by rw [h1]; exact List.mem_cons_of_mem _ hc')) x ⟨z, hz.2⟩
            obtain ⟨z', hz'⟩ := hq
            exact ⟨z', by rw [hz.1, ← hz']; rfl⟩
        · exact ih x.length (by rw [← hn]; simp) x rfl e he hin

/-- a string in which no pattern occurs is left unchanged -/
theorem sim_of_no_pattern {rules : List (List α × List α)} (s : List α)
    (h : ∀ e ∈ rules, ¬ e.1 <:+: s) : sim rules s = s := by
  induction s with
  | nil => exact sim_nil _
  | cons b x ih =>
    have hnone : findRule rules (b :: x) = none :=
      findRule_eq_none_of (fun e he hp => h e he hp.isInfix)
    rw [sim_cons_none hnone, ih (fun e he hin => h e he (hin.trans (List.suffix_cons b x).isInfix))]

/-- scanning back with the exchanged table undoes the scan, provided the input does not contain
`pfx`, a common prefix `t :: pfx'` of all mangled names whose first byte `t` occurs nowhere else
in it -/
theorem sim_swap_sim {H H' : α → Prop} {table : List (List α × List α)} (g : Good H table)
    (g' : Good H' (swap table)) (t : α) (pfx' : List α) (ht : t ∉ pfx')
    (hpfx : ∀ e ∈ table, (t :: pfx') <+: e.2) (s : List α) (hs : ¬ (t :: pfx') <:+: s) :
    sim (swap table) (sim table s) = s := by
  have hmem : ∀ e ∈ table, (e.2, e.1) ∈ swap table := by
    intro e he; unfold swap; exact List.mem_map.mpr ⟨e, he, rfl⟩
  have hhead : ∀ c ∈ pfx', ∀ e ∈ table, e.2.head? ≠ some c := by
    intro c hc e he hh
    obtain ⟨z, hz⟩ := hpfx e he
    rw [← hz] at hh; simp at hh
    exact ht (hh ▸ hc)
  induction hn : s.length using Nat.strongRecOn generalizing s with
  | _ n ih =>
    cases s with
    | nil => rw [sim_nil, sim_nil]
    | cons b x =>
      cases hf : findRule table (b :: x) with
      | some e0 =>
        obtain ⟨he0, ⟨x', hx'⟩⟩ := findRule_some hf
        have hne0 := (g.pat e0 he0).1
        rw [← hx', sim_pattern_append hne0 (by rw [hx']; exact hf)]
        have hfr : findRule (swap table) (e0.2 ++ sim table x') = some (e0.2, e0.1) :=
          findRule_unique (fun y hy => (g'.pat y hy).1) g'.apart (hmem e0 he0) (List.prefix_append _ _)
        have := sim_pattern_append (rules := swap table) (e := (e0.2, e0.1)) (x := sim table x')
          (g.rep e0 he0).1 hfr
        simp only at this
        rw [this]
        have hlen : x'.length < n := by
          rw [← hn, ← hx']
          have := List.length_pos_of_ne_nil hne0
          simp; omega
        rw [ih x'.length hlen x' (fun hin => hs (by
          rw [← hx']; exact hin.trans (List.suffix_append _ _).isInfix)) rfl]
      | none =>
        rw [sim_cons_none hf]
        have hnone : findRule (swap table) (b :: sim table x) = none := by
          apply findRule_eq_none_of
          intro e' he' hp'
          unfold swap at he'
          obtain ⟨e, he, hee⟩ := List.mem_map.mp he'
          subst hee
          simp only at hp'
          have hp : (t :: pfx') <+: b :: sim table x := (hpfx e he).trans hp'
          obtain ⟨z, hz⟩ := hp
          simp only [List.cons_append, List.cons.injEq] at hz
          have hq : pfx' <+: x :=
            prefix_of_sim (fun e' he' => (g.rep e' he').1) pfx' hhead x ⟨z, hz.2⟩
          obtain ⟨z', hz'⟩ := hq
          exact hs (List.IsPrefix.isInfix ⟨z', by rw [hz.1, ← hz']; rfl⟩)
        rw [sim_cons_none hnone]
        rw [ih x.length (by rw [← hn]; simp) x (fun hin => hs (hin.trans (List.suffix_cons b x).isInfix)) rfl]

/-! ### a cheap sufficient condition: lead bytes

If every pattern is a *lead* byte followed by non-lead bytes, and the lead byte determines the
length of the pattern, then distinct patterns can neither start inside nor occur inside one
another (this is the self-synchronisation of UTF-8, and it also fits the mangled names: `t`
followed by bytes other than `t`, all of the same length). -/

structure LeadCode (L : α → Prop) (len : α → Nat) (rules : List (List α × List α)) : Prop where
  shape : ∀ e ∈ rules, ∃ h t, e.1 = h :: t ∧ L h ∧ (∀ c ∈ t, ¬ L c) ∧ e.1.length = len h
  nodup : (rules.map Prod.fst).Nodup

theorem head_eq_of_compat {h c : α} {t r : List α} (hc : Compat (h :: t) (c :: r)) : h = c := by
  rcases hc with hc | hc
  · exact (List.cons_prefix_cons.mp hc).1
  · exact ((List.cons_prefix_cons.mp hc).1).symm

theorem noStart_of_lead {L : α → Prop} {len : α → Nat} {p q : List α} {h h' : α} {t t' : List α}
    (hp : p = h :: t) (hL : L h) (hlp : p.length = len h)
    (hq : q = h' :: t') (hq' : ∀ c ∈ t', ¬ L c) (hlq : q.length = len h') (hne : p ≠ q) :
    NoStart p q := by
  intro k hk hc
  cases k with
  | zero =>
    rw [List.drop_zero] at hc
    have hh : h = h' := by rw [hp, hq] at hc; exact head_eq_of_compat hc
    have hlen : p.length = q.length := by rw [hlp, hlq, hh]
    rcases hc with hc | hc
    · exact hne (hc.eq_of_length hlen)
    · exact hne (hc.eq_of_length hlen.symm).symm
  | succ k =>
    rw [hq] at hk hc
    simp only [List.length_cons, List.drop_succ_cons] at hk hc
    have hk' : k < t'.length := by omega
    have hd : t'.drop k = t'[k] :: t'.drop (k + 1) := (List.drop_eq_getElem_cons hk')
    rw [hd, hp] at hc
    have := head_eq_of_compat hc
    exact hq' _ (List.getElem_mem hk') (this ▸ hL)

theorem apart_of_leadCode {L : α → Prop} {len : α → Nat} {rules : List (List α × List α)}
    (lc : LeadCode L len rules) :
    rules.Pairwise (fun a b => NoStart a.1 b.1 ∧ NoStart b.1 a.1) := by
  have hp : rules.Pairwise (fun a b => a.1 ≠ b.1) := List.pairwise_map.mp lc.nodup
  refine hp.imp_of_mem ?_
  intro a b ha hb hne
  obtain ⟨h, t, e1, hL, ht, hl⟩ := lc.shape a ha
  obtain ⟨h', t', e1', hL', ht', hl'⟩ := lc.shape b hb
  exact ⟨noStart_of_lead e1 hL hl e1' ht' hl' hne, noStart_of_lead e1' hL' hl' e1 ht hl (Ne.symm hne)⟩

/-- a pattern that occurs inside another pattern is that pattern -/
theorem eq_of_infix_of_leadCode {L : α → Prop} {len : α → Nat} {rules : List (List α × List α)}
    (lc : LeadCode L len rules) : ∀ a ∈ rules, ∀ b ∈ rules, a.1 <:+: b.1 → a.1 = b.1 := by
  intro a ha b hb hin
  obtain ⟨h, t, e1, hL, ht, hl⟩ := lc.shape a ha
  obtain ⟨h', t', e1', hL', ht', hl'⟩ := lc.shape b hb
  obtain ⟨u, v, e⟩ := hin
  -- the occurrence starts at the lead byte of `b`
  cases u with
  | nil =>
    have hpre : a.1 <+: b.1 := ⟨v, by simpa using e⟩
    have hh : h = h' := by
      rw [e1, e1'] at hpre; exact (List.cons_prefix_cons.mp hpre).1
    exact hpre.eq_of_length (by rw [hl, hl', hh])
  | cons c u =>
    exfalso
    rw [e1, e1'] at e
    simp only [List.cons_append, List.cons.injEq] at e
    have : h ∈ t' := by rw [← e.2]; simp
    exact ht' h this hL

theorem leadCode_of_leadB {L : α → Bool} {len : α → Nat} {rules : List (List α × List α)}
    (h : leadB L len rules = true) (hnd : (rules.map Prod.fst).Nodup) :
    LeadCode (fun c => L c = true) len rules := by
  refine ⟨?_, hnd⟩
  intro e he
  unfold leadB at h
  have := List.all_eq_true.mp h e he
  cases h1 : e.1 with
  | nil => rw [h1] at this; cases this
  | cons h0 t =>
    simp only [h1] at this
    simp only [Bool.and_eq_true, List.all_eq_true, Bool.not_eq_true'] at this
    exact ⟨h0, t, rfl, this.1.1, fun c hc => by simp [this.1.2 c hc], Nat.eq_of_beq_eq_true this.2⟩

theorem good_of_checks {h L : α → Bool} {len : α → Nat} {rules : List (List α × List α)}
    (hc : classesB h rules = true) (hl : leadB L len rules = true)
    (hnd : (rules.map Prod.fst).Nodup) : Good (fun c => h c = true) rules := by
  unfold classesB at hc
  have key : ∀ e ∈ rules, (e.1 ≠ [] ∧ ∀ c ∈ e.1, h c = true) ∧ (e.2 ≠ [] ∧ ∀ c ∈ e.2, ¬ h c = true) := by
    intro e he
    have := List.all_eq_true.mp hc e he
    simp only [Bool.and_eq_true, Bool.not_eq_true', List.isEmpty_eq_false_iff, List.all_eq_true] at this
    obtain ⟨⟨⟨h1, h2⟩, h3⟩, h4⟩ := this
    exact ⟨⟨h1, h2⟩, h3, fun c hc => by simp [h4 c hc]⟩
  exact ⟨fun e he => (key e he).1, fun e he => (key e he).2,
    apart_of_leadCode (leadCode_of_leadB hl hnd)⟩

/-! ### duplicate detection with a bit set -/

theorem nodup_of_noDupGo : ∀ (l : List Nat) (seen : Nat), noDupGo l seen = true →
    l.Nodup ∧ ∀ k ∈ l, seen.testBit k = false := by
  intro l
  induction l with
  | nil => intro seen _; exact ⟨List.nodup_nil, fun k hk => by cases hk⟩
  | cons k ks ih =>
    intro seen h
    unfold noDupGo at h
    rw [Bool.and_eq_true, Bool.not_eq_true'] at h
    obtain ⟨hk, hrest⟩ := h
    obtain ⟨hnd, hseen⟩ := ih _ hrest
    have hbit : ∀ j ∈ ks, j ≠ k ∧ seen.testBit j = false := by
      intro j hj
      have := hseen j hj
      rw [Nat.testBit_or, Bool.or_eq_false_iff] at this
      refine ⟨?_, this.1⟩
      intro e
      have h2 := this.2
      rw [e, Nat.one_shiftLeft, Nat.testBit_two_pow_self] at h2
      cases h2
    refine ⟨List.nodup_cons.mpr ⟨fun hmem => (hbit k hmem).1 rfl, hnd⟩, ?_⟩
    intro j hj
    rcases List.mem_cons.mp hj with e | e
    · rw [e]; exact hk
    · exact (hbit j e).2

theorem nodup_of_noDupKeys {β : Type} (f : β → Nat) (l : List β)
    (h : noDupKeys (l.map f) = true) : l.Nodup :=
  List.Nodup.of_map f (nodup_of_noDupGo _ 0 h).1

theorem eq_of_eqBytes : ∀ (a b : List Nat), eqBytes a b = true → a = b := by
  intro a
  induction a with
  | nil => intro b h; cases b with
    | nil => rfl
    | cons _ _ => simp [eqBytes] at h
  | cons x xs ih =>
    intro b h
    cases b with
    | nil => simp [eqBytes] at h
    | cons y ys =>
      simp only [eqBytes, Bool.and_eq_true] at h
      rw [Nat.eq_of_beq_eq_true h.1, ih ys h.2]

end TfelVerif.C33
