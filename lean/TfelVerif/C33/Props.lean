/-
  C33 — Unicode mangling is faithful and reversible.

  `Gen.table` is regenerated on every run from the compiled
  `tfel::unicode::getSupportedUnicodeCharactersDescriptions()` (harness/C33/dump.cxx): one pair
  (UTF-8 bytes of the character, bytes of its mangled name) per entry, in table order.
  `mangle Gen.table` is the model of `getMangledString`, `demangle Gen.table` the model of
  `tfel-unicode-filt` (Model.lean; both are the sequential loop of `replace_all` calls of the
  C++, tied to it by the correspondence of checks/C33.py).

  Part 1: facts about the whole table, by evaluation in the kernel.
  Part 2: theorems for *every* byte string, obtained from the general lemmas of Lemmas.lean
  (which hold for any table satisfying the evaluated hypotheses).
-/
import TfelVerif.C33.Lemmas
import TfelVerif.C33.Spec
import TfelVerif.C33.GenTable

namespace TfelVerif.C33.Props
open TfelVerif.C33

/-! ## Part 1 — the table (all entries, by evaluation)

The Boolean checks of Checks.lean are evaluated by the kernel on the generated table
(`decide +kernel`: no compiler, no axiom); their meaning comes from the soundness lemmas. -/

/-- the table has the announced number of entries and is not empty -/
theorem table_size : Gen.table.length = Gen.size ∧ 0 < Gen.size := by decide +kernel

/-- every entry: the character is one well-formed UTF-8 encoded code point below U+10000, Lean's
own UTF-8 encoder maps that code point to the same bytes, and the mangled name is the prefix
followed by the four upper-case hexadecimal digits of the code point -/
theorem table_names_encode_code_points :
    ∀ e ∈ Gen.table, ∃ cp, utf8Decode e.1 = some cp ∧ cp < 65536 ∧ leanUtf8 cp = e.1 ∧
      e.2 = pfx ++ hex4 cp := by
  have h : encodesB Gen.table = true := by decide +kernel
  intro e he
  have := List.all_eq_true.mp h e he
  split at this
  · rename_i cp hcp
    simp only [Bool.and_eq_true, Bool.not_eq_true'] at this
    refine ⟨cp, hcp, ?_, eq_of_eqBytes _ _ this.1.2, eq_of_eqBytes _ _ this.2⟩
    have := this.1.1
    rw [← Bool.not_eq_true, Nat.ble_eq] at this
    omega
  · cases this

/-- the characters are pairwise distinct, and so are the mangled names -/
theorem table_entries_distinct :
    (Gen.table.map Prod.fst).Nodup ∧ (Gen.table.map Prod.snd).Nodup := by
  constructor
  · exact nodup_of_noDupKeys ucKey _ (by decide +kernel)
  · exact nodup_of_noDupKeys nameKey _ (by decide +kernel)

/-- all mangled names have the same length (prefix + 4), start with the prefix and are ASCII; all
characters are made of bytes `>= 128` -/
theorem table_shapes :
    ∀ e ∈ Gen.table, e.2.length = pfx.length + 4 ∧ pfx <+: e.2 ∧ (∀ c ∈ e.2, c < 128) ∧
      (∀ c ∈ e.1, 128 ≤ c) := by
  have h1 : shapesB Gen.table = true := by decide +kernel
  have h2 : classesB high Gen.table = true := by decide +kernel
  intro e he
  have a := List.all_eq_true.mp h1 e he
  have b := List.all_eq_true.mp h2 e he
  simp only [Bool.and_eq_true] at a b
  have hl : e.2.length = 26 := Nat.eq_of_beq_eq_true a.1
  have hp : e.2.take 22 = pfx := eq_of_eqBytes _ _ a.2
  refine ⟨by rw [hl]; rfl, ?_, ?_, ?_⟩
  · rw [← hp]; exact List.take_prefix _ _
  · intro c hc
    have := List.all_eq_true.mp b.2 c hc
    simp only [high, Bool.not_eq_true'] at this
    rw [← Bool.not_eq_true, Nat.ble_eq] at this
    omega
  · intro c hc
    have := List.all_eq_true.mp b.1.1.2 c hc
    simp only [high, Nat.ble_eq] at this
    exact this

/-- each character is a lead byte followed by continuation bytes, its length being determined by
the lead byte (UTF-8 self-synchronisation); the characters are pairwise distinct -/
theorem table_lead_code : LeadCode (fun c => ucLead c = true) ucLen Gen.table :=
  leadCode_of_leadB (by decide +kernel) table_entries_distinct.1

theorem swap_fst : (swap Gen.table).map Prod.fst = Gen.table.map Prod.snd := by
  unfold swap; rw [List.map_map]; rfl

/-- each mangled name is `t` followed by bytes other than `t`, all names have the same length and
are pairwise distinct -/
theorem table_lead_code_swap :
    LeadCode (fun c => nameLead c = true) (fun _ => nameLen) (swap Gen.table) := by
  refine leadCode_of_leadB (by decide +kernel) ?_
  rw [swap_fst]; exact table_entries_distinct.2

/-- no character of the table is a substring of another one, and no mangled name is a substring
of another one -/
theorem table_no_substring :
    (∀ a ∈ Gen.table, ∀ b ∈ Gen.table, a.1 <:+: b.1 → a.1 = b.1) ∧
    (∀ a ∈ Gen.table, ∀ b ∈ Gen.table, a.2 <:+: b.2 → a.2 = b.2) := by
  refine ⟨eq_of_infix_of_leadCode table_lead_code, ?_⟩
  intro a ha b hb hin
  have hm : ∀ e ∈ Gen.table, (e.2, e.1) ∈ swap Gen.table := by
    intro e he; unfold swap; exact List.mem_map.mpr ⟨e, he, rfl⟩
  exact eq_of_infix_of_leadCode table_lead_code_swap _ (hm a ha) _ (hm b hb) hin

/-- hypotheses of the general lemmas for mangling: characters are non-empty and made of high
bytes, names are non-empty ASCII, no character can start inside (or together with) another -/
theorem table_good : Good (fun c => high c = true) Gen.table :=
  good_of_checks (h := high) (L := ucLead) (len := ucLen) (by decide +kernel) (by decide +kernel)
    table_entries_distinct.1

/-- … and for demangling: no mangled name can start inside (or together with) another -/
theorem table_good_swap : Good (fun c => low c = true) (swap Gen.table) :=
  good_of_checks (h := low) (L := nameLead) (len := fun _ => nameLen)
    (by decide +kernel) (by decide +kernel) table_lead_code_swap.nodup

/-- every mangled name starts with the prefix; the prefix is `t` followed by bytes other than `t` -/
theorem table_prefix :
    (∀ e ∈ Gen.table, pfx <+: e.2) ∧ ∃ t pfx', pfx = t :: pfx' ∧ t ∉ pfx' :=
  ⟨fun e he => (table_shapes e he).2.1, 116, pfx.tail, by decide, by decide⟩

/-! ## Part 2 — every string -/

/-- `getMangledString` (the sequential loop) is one simultaneous left-to-right scan: at each
position the supported character that starts there is replaced by its name, any other byte is
copied.  In particular the result does not depend on the order of the table, and bytes that are
not part of a supported character are unchanged. -/
theorem mangle_is_simultaneous_scan (s : List Nat) : mangle Gen.table s = sim Gen.table s :=
  seqReplace_eq_sim table_good s

/-- likewise for `tfel-unicode-filt` -/
theorem demangle_is_simultaneous_scan (s : List Nat) :
    demangle Gen.table s = sim (swap Gen.table) s :=
  seqReplace_eq_sim table_good_swap s

/-- mangling replaces every supported character: none occurs in the result -/
theorem mangle_replaces_every_supported_character (s : List Nat) :
    ∀ e ∈ Gen.table, ¬ e.1 <:+: mangle Gen.table s := by
  rw [mangle_is_simultaneous_scan]
  exact no_pattern_in_sim table_good s

/-- a string without supported character is unchanged -/
theorem mangle_identity_without_supported_character (s : List Nat)
    (h : ∀ e ∈ Gen.table, ¬ e.1 <:+: s) : mangle Gen.table s = s := by
  rw [mangle_is_simultaneous_scan]
  exact sim_of_no_pattern s h

/-- strings made of supported characters and ASCII bytes -/
inductive Clean : List Nat → Prop
  | nil : Clean []
  | ascii (b : Nat) (x : List Nat) : b < 128 → Clean x → Clean (b :: x)
  | supported (e : List Nat × List Nat) (x : List Nat) : e ∈ Gen.table → Clean x → Clean (e.1 ++ x)

/-- the mangled string is ASCII when the other characters of the input are ASCII -/
theorem mangle_ascii (s : List Nat) (h : Clean s) : ∀ c ∈ mangle Gen.table s, c < 128 := by
  rw [mangle_is_simultaneous_scan]
  induction h with
  | nil => rw [sim_nil]; intro c hc; cases hc
  | ascii b x hb _ ih =>
    have hnone : findRule Gen.table (b :: x) = none := by
      apply findRule_eq_none_of
      intro e he hp
      obtain ⟨hne, hH⟩ := table_good.pat e he
      cases h1 : e.1 with
      | nil => exact hne h1
      | cons h0 t =>
        rw [h1] at hp
        obtain ⟨z, hz⟩ := hp
        simp only [List.cons_append, List.cons.injEq] at hz
        have := hH h0 (by rw [h1]; simp)
        rw [hz.1] at this
        simp only [high, Nat.ble_eq] at this
        omega
    rw [sim_cons_none hnone]
    intro c hc
    rcases List.mem_cons.mp hc with h | h
    · rw [h]; exact hb
    · exact ih c h
  | supported e x he _ ih =>
    have hf : findRule Gen.table (e.1 ++ x) = some e :=
      findRule_unique (fun y hy => (table_good.pat y hy).1) table_good.apart he (List.prefix_append _ _)
    rw [sim_pattern_append (table_good.pat e he).1 hf]
    intro c hc
    rcases List.mem_append.mp hc with h | h
    · exact (table_shapes e he).2.2.1 c h
    · exact ih c h

/-- a supported character at the head of the string is replaced by its mangled name -/
theorem mangle_supported_character (e : List Nat × List Nat) (he : e ∈ Gen.table) (x : List Nat) :
    mangle Gen.table (e.1 ++ x) = e.2 ++ mangle Gen.table x := by
  rw [mangle_is_simultaneous_scan, mangle_is_simultaneous_scan]
  exact sim_pattern_append (table_good.pat e he).1
    (findRule_unique (fun y hy => (table_good.pat y hy).1) table_good.apart he (List.prefix_append _ _))

/-- `tfel-unicode-filt` maps the mangled string back to the original, for every byte string that
does not itself contain the mangling prefix -/
theorem demangle_mangle (s : List Nat) (h : ¬ pfx <:+: s) :
    demangle Gen.table (mangle Gen.table s) = s := by
  rw [demangle_is_simultaneous_scan, mangle_is_simultaneous_scan]
  obtain ⟨hall, t, pfx', hp, ht⟩ := table_prefix
  rw [hp] at hall h
  exact sim_swap_sim table_good table_good_swap t pfx' ht hall s h

/-- the hypothesis cannot be dropped: a string that is itself a mangled name is left unchanged by
mangling and is turned into the character by the filter (sharpness of the hypothesis) -/
theorem demangle_mangle_needs_hypothesis :
    ∃ s, pfx <:+: s ∧ demangle Gen.table (mangle Gen.table s) ≠ s := by
  have hmem : ([206, 177], pfx ++ hex4 0x3B1) ∈ Gen.table := by decide +kernel
  refine ⟨pfx ++ hex4 0x3B1, List.IsPrefix.isInfix (List.prefix_append _ _), ?_⟩
  have h1 : mangle Gen.table (pfx ++ hex4 0x3B1) = pfx ++ hex4 0x3B1 := by
    apply mangle_identity_without_supported_character
    intro e he hin
    obtain ⟨hne, hH⟩ := table_good.pat e he
    cases h1 : e.1 with
    | nil => exact hne h1
    | cons h0 t =>
      have hmem0 : h0 ∈ pfx ++ hex4 0x3B1 := hin.subset (by rw [h1]; simp)
      have hhigh := hH h0 (by rw [h1]; simp)
      have hlow : ∀ c ∈ pfx ++ hex4 0x3B1, c < 128 := by decide
      have := hlow h0 hmem0
      simp only [high, Nat.ble_eq] at hhigh
      omega
  rw [h1, demangle_is_simultaneous_scan]
  have hsw : (pfx ++ hex4 0x3B1, [206, 177]) ∈ swap Gen.table := by
    unfold swap; exact List.mem_map.mpr ⟨_, hmem, rfl⟩
  have hf := findRule_unique (s := (pfx ++ hex4 0x3B1) ++ [])
    (fun y hy => (table_good_swap.pat y hy).1) table_good_swap.apart hsw (List.prefix_append _ _)
  have := sim_pattern_append (rules := swap Gen.table) (e := (pfx ++ hex4 0x3B1, [206, 177]))
    (x := []) (by decide) hf
  simp only [List.append_nil] at this
  rw [this, sim_nil]
  decide

example : ¬ pfx <:+: [206, 177, 61, 49] ∧ Clean [206, 177, 61, 49] := by
  refine ⟨by decide, ?_⟩
  have : ([206, 177], pfx ++ hex4 0x3B1) ∈ Gen.table := by decide +kernel
  exact Clean.supported _ [61, 49] this (.ascii 61 _ (by decide) (.ascii 49 _ (by decide) .nil))

end TfelVerif.C33.Props
