/- line-protocol driver of the C34 model over the dumped table: same requests and answers as
   harness/C34/harness.cxx in `query` mode (strings hex-encoded, prefixed by `x`) -/
import TfelVerif.C34.Model
import TfelVerif.C34.GenTable
open TfelVerif.C34

def hexVal (c : Char) : Option Nat :=
  if '0' ≤ c && c ≤ '9' then some (c.toNat - 48)
  else if 'a' ≤ c && c ≤ 'f' then some (c.toNat - 87)
  else none

def unhexAux : List Char → List Nat → Option (List Nat)
  | [], acc => some acc.reverse
  | a :: b :: r, acc =>
    match hexVal a, hexVal b with
    | some x, some y => unhexAux r ((16 * x + y) :: acc)
    | _, _ => none
  | _, _ => none

def unhex (s : String) : Option Str :=
  match s.toList with
  | 'x' :: r => unhexAux r []
  | _ => none

def hexDigit (n : Nat) : Char := if n < 10 then Char.ofNat (48 + n) else Char.ofNat (87 + n)

def hex (s : Str) : String :=
  String.ofList ('x' :: s.flatMap (fun b => [hexDigit (b / 16), hexDigit (b % 16)]))

/-- `k` pairs of hex strings -/
def takePairs : Nat → List String → Option (List (Str × Str) × List String)
  | 0, r => some ([], r)
  | k + 1, a :: b :: r =>
    match unhex a, unhex b, takePairs k r with
    | some x, some y, some (ps, r') => some ((x, y) :: ps, r')
    | _, _, _ => none
  | _, _ => none

def answer (line : String) : String :=
  match (line.trimAscii.toString.splitOn " ").filter (· ≠ "") with
  | ["contains", h] =>
    match unhex h with
    | some n => if contains Gen.entries n then "1" else "0"
    | none => "bad-op"
  | ["get", h] =>
    match unhex h with
    | some n =>
      match getGlossaryEntry Gen.entries n with
      | some e => "key " ++ hex e.key
      | none => "raise"
    | none => "bad-op"
  | ["find", h] =>
    match unhex h with
    | some n =>
      match findPos Gen.entries n, find Gen.entries n with
      | some i, some e => s!"pos {i} " ++ hex e.key
      | _, _ => "end"
    | none => "bad-op"
  | "bounds" :: "L" :: kl :: rest =>
    match kl.toNat? with
    | some k =>
      match takePairs k rest with
      | some (lo, "U" :: ku :: rest2) =>
        match ku.toNat? with
        | some k2 =>
          match takePairs k2 rest2 with
          | some (up, []) => if boundsAccepted lo up then "ok" else "bad"
          | _ => "bad-op"
        | none => "bad-op"
      | _ => "bad-op"
    | none => "bad-op"
  | _ => "bad-op"

partial def loop (h : IO.FS.Stream) : IO Unit := do
  let line ← h.getLine
  if line.isEmpty then return ()
  IO.println (answer line)
  loop h

def main : IO Unit := do loop (← IO.getStdin)
