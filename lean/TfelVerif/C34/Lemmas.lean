/-
  C34 — general lemmas about the lookup model (any table), and the Boolean checkers (plain structural
  recursion, evaluated by the kernel on the dumped table) with their soundness proofs.
-/
import TfelVerif.C34.Model

namespace TfelVerif.C34

/-! ### string equality / membership -/

theorem beqStr_iff {a b : Str} : beqStr a b = true ↔ a = b := by
  induction a generalizing b with
  | nil => cases b <;> simp [beqStr]
  | cons x l ih =>
    cases b with
    | nil => simp [beqStr]
    | cons y m => simp [beqStr, ih]

theorem memStr_iff {x : Str} {l : List Str} : memStr x l = true ↔ x ∈ l := by
  induction l with
  | nil => simp [memStr]
  | cons y l ih =>
    simp only [memStr, Bool.or_eq_true, ih, beqStr_iff, List.mem_cons]
    constructor
    · rintro (h | h)
      · exact Or.inl h.symm
      · exact Or.inr h
    · rintro (h | h)
      · exact Or.inl h.symm
      · exact Or.inr h

/-! ### the lookup -/

/-- everything an entry answers to: its key and its alternative names -/
def Entry.labels (e : Entry) : List Str := e.key :: e.names

/-- no string is a label (key or name) of two entries of the table -/
def Unambiguous (es : List Entry) : Prop :=
  es.Pairwise (fun a b => ∀ x ∈ a.labels, x ∉ b.labels)

theorem answersTo_iff (e : Entry) (n : Str) : e.answersTo n = true ↔ n ∈ e.labels := by
  simp only [Entry.answersTo, Entry.labels, Bool.or_eq_true, beqStr_iff, memStr_iff, List.mem_cons]
  constructor
  · rintro (h | h)
    · exact Or.inl h.symm
    · exact Or.inr h
  · rintro (h | h)
    · exact Or.inl h.symm
    · exact Or.inr h

theorem find_isSome_iff (es : List Entry) (n : Str) :
    (find es n).isSome = true ↔ ∃ e ∈ es, n ∈ e.labels := by
  induction es with
  | nil => simp [find]
  | cons a l ih =>
    by_cases ha : a.answersTo n = true
    · simp only [find, ha, if_true, Option.isSome_some, true_iff]
      exact ⟨a, List.mem_cons_self, (answersTo_iff a n).1 ha⟩
    · have hn : n ∉ a.labels := fun h => ha ((answersTo_iff a n).2 h)
      simp only [find, ha, Bool.false_eq_true, if_false, ih, List.mem_cons]
      constructor
      · rintro ⟨e, he, h⟩; exact ⟨e, Or.inr he, h⟩
      · rintro ⟨e, rfl | he, h⟩
        · exact absurd h hn
        · exact ⟨e, he, h⟩

theorem find_some_mem {es : List Entry} {n : Str} {e : Entry} (h : find es n = some e) :
    e ∈ es ∧ n ∈ e.labels := by
  induction es with
  | nil => simp [find] at h
  | cons a l ih =>
    by_cases ha : a.answersTo n = true
    · simp only [find, ha, if_true, Option.some.injEq] at h
      subst h
      exact ⟨List.mem_cons_self, (answersTo_iff _ n).1 ha⟩
    · simp only [find, ha, Bool.false_eq_true, if_false] at h
      exact ⟨List.mem_cons_of_mem _ (ih h).1, (ih h).2⟩

/-- in an unambiguous table the first match is the only match -/
theorem find_eq_of_mem {es : List Entry} (hu : Unambiguous es) {e : Entry} (he : e ∈ es)
    {n : Str} (hn : n ∈ e.labels) : find es n = some e := by
  induction es with
  | nil => cases he
  | cons a l ih =>
    have hp := List.pairwise_cons.1 hu
    by_cases ha : a.answersTo n = true
    · rcases List.mem_cons.1 he with rfl | hl
      · simp [find, ha]
      · exact absurd hn (hp.1 e hl n ((answersTo_iff a n).1 ha))
    · rcases List.mem_cons.1 he with rfl | hl
      · exact absurd ((answersTo_iff _ n).2 hn) ha
      · simp only [find, ha, Bool.false_eq_true, if_false]
        exact ih hp.2 hl

/-- two entries of an unambiguous table answering to the same string are the same entry -/
theorem owner_unique {es : List Entry} (hu : Unambiguous es) {e e' : Entry} (he : e ∈ es)
    (he' : e' ∈ es) {n : Str} (hn : n ∈ e.labels) (hn' : n ∈ e'.labels) : e = e' := by
  have h1 := find_eq_of_mem hu he hn
  have h2 := find_eq_of_mem hu he' hn'
  exact Option.some.inj (h1.symm.trans h2)

/-- in an unambiguous table the answer does not depend on the order in which the container is scanned -/
theorem find_perm {es es' : List Entry} (hu : Unambiguous es) (hu' : Unambiguous es')
    (hp : ∀ e, e ∈ es ↔ e ∈ es') (n : Str) : find es n = find es' n := by
  cases h : find es n with
  | none =>
    cases h' : find es' n with
    | none => rfl
    | some e' =>
      have := find_some_mem h'
      have := find_eq_of_mem hu ((hp e').2 this.1) this.2
      rw [h] at this; cases this
  | some e =>
    have := find_some_mem h
    exact (find_eq_of_mem hu' ((hp e).1 this.1) this.2).symm

/-- `findPos` is the position of the entry returned by `find` -/
theorem findPos_spec (es : List Entry) (n : Str) :
    (findPos es n).bind (fun i => es[i]?) = find es n := by
  induction es with
  | nil => simp [findPos, find]
  | cons a l ih =>
    by_cases ha : a.answersTo n = true
    · simp [findPos, find, ha]
    · simp only [findPos, find, ha, Bool.false_eq_true, if_false, ← ih]
      cases findPos l n <;> simp

/-- keys of an unambiguous table are pairwise distinct -/
theorem keys_nodup {es : List Entry} (hu : Unambiguous es) : (es.map (·.key)).Nodup := by
  unfold List.Nodup
  rw [List.pairwise_map]
  refine List.Pairwise.imp ?_ hu
  intro a b h hk
  exact h a.key (by simp [Entry.labels]) (by simp [Entry.labels, hk])

/-! ### Boolean checkers evaluated on the dumped table -/

def disjointLabels (a b : Entry) : Bool :=
  a.labels.all (fun x => !memStr x b.labels)

def unambiguousB : List Entry → Bool
  | [] => true
  | a :: l => l.all (fun b => disjointLabels a b) && unambiguousB l

theorem unambiguousB_sound {es : List Entry} (h : unambiguousB es = true) : Unambiguous es := by
  induction es with
  | nil => exact List.Pairwise.nil
  | cons a l ih =>
    simp only [unambiguousB, Bool.and_eq_true, List.all_eq_true] at h
    refine List.Pairwise.cons ?_ (ih h.2)
    intro b hb x hx hx'
    have := h.1 b hb
    simp only [disjointLabels, List.all_eq_true, Bool.not_eq_true'] at this
    have := this x hx
    rw [← Bool.not_eq_true, memStr_iff] at this
    exact this hx'

def nodupStrB : List Str → Bool
  | [] => true
  | x :: l => !memStr x l && nodupStrB l

theorem nodupStrB_sound {l : List Str} (h : nodupStrB l = true) : l.Nodup := by
  induction l with
  | nil => exact List.Pairwise.nil
  | cons x l ih =>
    simp only [nodupStrB, Bool.and_eq_true, Bool.not_eq_true'] at h
    refine List.nodup_cons.2 ⟨?_, ih h.2⟩
    intro hx
    have := memStr_iff.2 hx
    rw [h.1] at this; cases this

/-- list equality from an element equality test -/
def beqList {α : Type} (f : α → α → Bool) : List α → List α → Bool
  | [], [] => true
  | a :: l, b :: m => f a b && beqList f l m
  | _, _ => false

theorem beqList_sound {α : Type} {f : α → α → Bool} (hf : ∀ a b, f a b = true → a = b) :
    ∀ {l m : List α}, beqList f l m = true → l = m
  | [], [], _ => rfl
  | a :: l, b :: m, h => by
    simp only [beqList, Bool.and_eq_true] at h
    rw [hf a b h.1, beqList_sound hf h.2]
  | [], _ :: _, h => by simp [beqList] at h
  | _ :: _, [], h => by simp [beqList] at h

def beqPair (p q : Str × Str) : Bool := beqStr p.1 q.1 && beqStr p.2 q.2

theorem beqPair_sound (p q : Str × Str) (h : beqPair p q = true) : p = q := by
  simp only [beqPair, Bool.and_eq_true, beqStr_iff] at h
  exact Prod.ext h.1 h.2

def Entry.same (a b : Entry) : Bool :=
  beqStr a.key b.key && beqList beqStr a.names b.names && beqList beqPair a.units b.units &&
  beqStr a.type b.type && beqList beqPair a.lower b.lower && beqList beqPair a.upper b.upper

theorem Entry.same_sound {a b : Entry} (h : a.same b = true) : a = b := by
  simp only [Entry.same, Bool.and_eq_true, beqStr_iff] at h
  obtain ⟨⟨⟨⟨⟨h1, h2⟩, h3⟩, h4⟩, h5⟩, h6⟩ := h
  have h2 := beqList_sound (fun a b h => beqStr_iff.1 h) h2
  have h3 := beqList_sound beqPair_sound h3
  have h5 := beqList_sound beqPair_sound h5
  have h6 := beqList_sound beqPair_sound h6
  cases a; cases b; simp_all

/-- member check: key = identifier, and the lookup of the identifier gives an identical entry -/
def memberOk (es : List Entry) (m : Member) : Bool :=
  beqStr m.entry.key m.id &&
    match getGlossaryEntry es m.id with
    | some e => e.same m.entry
    | none => false

theorem memberOk_sound {es : List Entry} {m : Member} (h : memberOk es m = true) :
    m.entry.key = m.id ∧ getGlossaryEntry es m.id = some m.entry := by
  simp only [memberOk, Bool.and_eq_true, beqStr_iff] at h
  refine ⟨h.1, ?_⟩
  cases hg : getGlossaryEntry es m.id with
  | none => rw [hg] at h; simp at h
  | some e => rw [hg] at h; rw [Entry.same_sound h.2]

/-- is `e` (up to `Entry.same`) in the list -/
def memEntry (e : Entry) : List Entry → Bool
  | [] => false
  | a :: l => e.same a || memEntry e l

theorem memEntry_sound {e : Entry} {l : List Entry} (h : memEntry e l = true) : e ∈ l := by
  induction l with
  | nil => simp [memEntry] at h
  | cons a l ih =>
    simp only [memEntry, Bool.or_eq_true] at h
    rcases h with h | h
    · rw [Entry.same_sound h]; exact List.mem_cons_self
    · exact List.mem_cons_of_mem _ (ih h)

theorem all_sound {α : Type} {p : α → Bool} {l : List α} (h : l.all p = true) : ∀ x ∈ l, p x = true :=
  List.all_eq_true.1 h

end TfelVerif.C34
