/-
  C34 — Glossary lookups are consistent and unambiguous.

  `Gen.entries`, `Gen.keys`, `Gen.members` (GenTable.lean) are dumped on every run from the glossary
  compiled from the current tree (T2). The `table_*` theorems are decided by the kernel over the whole
  table (`decide +kernel`, no `native_decide`); the other theorems are general (any string, any
  unambiguous table) and are then instantiated to the dumped table.
-/
import TfelVerif.C34.Lemmas
import TfelVerif.C34.NumLemmas
import TfelVerif.C34.GenTable

namespace TfelVerif.C34.Props
open TfelVerif.C34

/-! ### decided on the whole dumped table

Each statement is reduced (soundness lemmas of Lemmas.lean) to a Boolean checker written by plain
structural recursion, which the kernel evaluates on the table. -/

/-- no string is a key or an alternative name of two different entries: keys are pairwise distinct, an
alternative name belongs to one entry only and equals no other entry's key -/
theorem table_unambiguous : Unambiguous Gen.entries :=
  unambiguousB_sound (by decide +kernel)

/-- keys are pairwise distinct -/
theorem table_keys_nodup : (Gen.entries.map (·.key)).Nodup :=
  keys_nodup table_unambiguous

/-- `getKeys()` lists exactly the keys of the entries, each once -/
theorem table_keys_list : Gen.keys.Nodup ∧ (∀ k ∈ Gen.keys, k ∈ Gen.entries.map (·.key)) ∧
    (∀ k ∈ Gen.entries.map (·.key), k ∈ Gen.keys) := by
  have h1 : nodupStrB Gen.keys = true := by decide +kernel
  have h2 : Gen.keys.all (fun k => memStr k (Gen.entries.map (·.key))) = true := by decide +kernel
  have h3 : (Gen.entries.map (·.key)).all (fun k => memStr k Gen.keys) = true := by decide +kernel
  exact ⟨nodupStrB_sound h1, fun k hk => memStr_iff.1 (all_sound h2 k hk),
    fun k hk => memStr_iff.1 (all_sound h3 k hk)⟩

/-- "scalar", "vector", "symmetric tensor", "tensor" -/
def supportedTypes : List Str :=
  [[115, 99, 97, 108, 97, 114], [118, 101, 99, 116, 111, 114],
   [115, 121, 109, 109, 101, 116, 114, 105, 99, 32, 116, 101, 110, 115, 111, 114],
   [116, 101, 110, 115, 111, 114]]

/-- every entry has at least one name and one of the four supported types -/
theorem table_names_types : ∀ e ∈ Gen.entries, e.names ≠ [] ∧ e.type ∈ supportedTypes := by
  have h : Gen.entries.all (fun e => !e.names.isEmpty && memStr e.type supportedTypes) = true := by
    decide +kernel
  intro e he
  have := all_sound h e he
  simp only [Bool.and_eq_true, Bool.not_eq_true', memStr_iff] at this
  refine ⟨?_, this.2⟩
  intro hn; rw [hn] at this; simp at this

/-- each static member `Glossary::X` has key `X`, and looking `X` up in the glossary yields an entry
identical to the member (key, names, units, type, bounds) -/
theorem table_members : ∀ m ∈ Gen.members,
    m.entry.key = m.id ∧ getGlossaryEntry Gen.entries m.id = some m.entry := by
  have h : Gen.members.all (memberOk Gen.entries) = true := by decide +kernel
  exact fun m hm => memberOk_sound (all_sound h m hm)

/-- conversely every entry of the glossary is held by a static member -/
theorem table_entries_are_members : ∀ e ∈ Gen.entries, e ∈ Gen.members.map (·.entry) := by
  have h : Gen.entries.all (fun e => memEntry e (Gen.members.map (·.entry))) = true := by
    decide +kernel
  exact fun e he => memEntry_sound (all_sound h e he)

/-- every physical bound parses with the numeric grammar and, per unit system, lower ≤ upper -/
theorem table_bounds : ∀ e ∈ Gen.entries, e.boundsOk = true :=
  all_sound (by decide +kernel)

/-- the same, spelt out: each bound string denotes a rational number and, for every unit system having
both bounds, lower ≤ upper in ℚ -/
theorem table_bounds_rational : ∀ e ∈ Gen.entries,
    (∀ p ∈ e.lower, ∃ x, parseNum p.2 = some x) ∧ (∀ q ∈ e.upper, ∃ y, parseNum q.2 = some y) ∧
    ∀ p ∈ e.lower, ∀ q ∈ e.upper, p.1 = q.1 →
      ∃ x y, parseNum p.2 = some x ∧ parseNum q.2 = some y ∧ x.toRat ≤ y.toRat :=
  fun e he => boundsOk_spec (table_bounds e he)

/-- within an entry no unit system is given two bounds of the same kind (nor two units) -/
theorem table_bound_systems : ∀ e ∈ Gen.entries,
    (e.lower.map (·.1)).Nodup ∧ (e.upper.map (·.1)).Nodup ∧ (e.units.map (·.1)).Nodup := by
  have h : Gen.entries.all (fun e => nodupStrB (e.lower.map (·.1)) && nodupStrB (e.upper.map (·.1)) &&
      nodupStrB (e.units.map (·.1))) = true := by decide +kernel
  intro e he
  have := all_sound h e he
  simp only [Bool.and_eq_true] at this
  exact ⟨nodupStrB_sound this.1.1, nodupStrB_sound this.1.2, nodupStrB_sound this.2⟩

/-! ### general statements (arbitrary strings) -/

/-- `contains n` holds exactly when `n` is the key or an alternative name of some entry (any table) -/
theorem contains_iff (es : List Entry) (n : Str) :
    contains es n = true ↔ ∃ e ∈ es, n = e.key ∨ n ∈ e.names := by
  simpa [contains, Entry.labels] using find_isSome_iff es n

/-- `getGlossaryEntry` succeeds exactly when `contains` holds (any table) -/
theorem get_isSome_iff_contains (es : List Entry) (n : Str) :
    (getGlossaryEntry es n).isSome = contains es n := rfl

/-- whatever `getGlossaryEntry n` returns is an entry of the table answering to `n` (any table) -/
theorem get_sound {es : List Entry} {n : Str} {e : Entry} (h : getGlossaryEntry es n = some e) :
    e ∈ es ∧ (n = e.key ∨ n ∈ e.names) := by
  simpa [Entry.labels] using find_some_mem h

/-- in an unambiguous table the entry resolved from a key is that entry: it reports that key -/
theorem get_key {es : List Entry} (hu : Unambiguous es) {e : Entry} (he : e ∈ es) :
    getGlossaryEntry es e.key = some e :=
  find_eq_of_mem hu he (by simp [Entry.labels])

/-- in an unambiguous table an alternative name resolves to its owner -/
theorem get_name {es : List Entry} (hu : Unambiguous es) {e : Entry} (he : e ∈ es) {n : Str}
    (hn : n ∈ e.names) : getGlossaryEntry es n = some e :=
  find_eq_of_mem hu he (by simp [Entry.labels, hn])

/-- ... and that owner is the only entry answering to the string -/
theorem resolves_to_exactly_one {es : List Entry} (hu : Unambiguous es) {e : Entry} (he : e ∈ es)
    {n : Str} (hn : n = e.key ∨ n ∈ e.names) :
    ∀ e' ∈ es, (n = e'.key ∨ n ∈ e'.names) → e' = e := by
  intro e' he' hn'
  exact owner_unique hu he' he (by simpa [Entry.labels] using hn') (by simpa [Entry.labels] using hn)

/-- the scan order of the container is irrelevant for an unambiguous table -/
theorem get_order_independent {es es' : List Entry} (hu : Unambiguous es) (hu' : Unambiguous es')
    (hp : ∀ e, e ∈ es ↔ e ∈ es') (n : Str) : getGlossaryEntry es n = getGlossaryEntry es' n :=
  find_perm hu hu' hp n

/-! ### the property on the dumped glossary -/

/-- for every string `n`: `contains n` iff `n` is a key or an alternative name of the glossary -/
theorem glossary_contains_iff (n : Str) :
    contains Gen.entries n = true ↔ ∃ e ∈ Gen.entries, n = e.key ∨ n ∈ e.names :=
  contains_iff _ n

/-- every key resolves, through `contains` and `getGlossaryEntry`, to exactly one entry, which
reports that key -/
theorem glossary_key_resolves (k : Str) (hk : k ∈ Gen.entries.map (·.key)) :
    contains Gen.entries k = true ∧
    ∃ e, getGlossaryEntry Gen.entries k = some e ∧ e.key = k ∧
      ∀ e' ∈ Gen.entries, (k = e'.key ∨ k ∈ e'.names) → e' = e := by
  obtain ⟨e, he, rfl⟩ := List.mem_map.1 hk
  have hg := get_key table_unambiguous he
  refine ⟨by simp [contains, getGlossaryEntry] at hg ⊢; simp [hg], e, hg, rfl, ?_⟩
  exact resolves_to_exactly_one table_unambiguous he (Or.inl rfl)

/-- every alternative name resolves to exactly one entry: the one declaring it -/
theorem glossary_name_resolves (e : Entry) (he : e ∈ Gen.entries) (n : Str) (hn : n ∈ e.names) :
    contains Gen.entries n = true ∧ getGlossaryEntry Gen.entries n = some e ∧
      ∀ e' ∈ Gen.entries, (n = e'.key ∨ n ∈ e'.names) → e' = e := by
  have hg := get_name table_unambiguous he hn
  refine ⟨by simp [contains, getGlossaryEntry] at hg ⊢; simp [hg], hg, ?_⟩
  exact resolves_to_exactly_one table_unambiguous he (Or.inr hn)

/-- a string that is neither a key nor a name is rejected by both functions -/
theorem glossary_non_entry (n : Str) (h : ∀ e ∈ Gen.entries, n ≠ e.key ∧ n ∉ e.names) :
    contains Gen.entries n = false ∧ getGlossaryEntry Gen.entries n = none := by
  have : ¬ contains Gen.entries n = true := by
    rw [contains_iff]
    rintro ⟨e, he, hk | hn⟩
    · exact (h e he).1 hk
    · exact (h e he).2 hn
  have hc : contains Gen.entries n = false := by simpa using this
  refine ⟨hc, ?_⟩
  have := get_isSome_iff_contains Gen.entries n
  rw [hc] at this
  simpa using this

/-- each static member `Glossary::X` is the entry named `X`: the glossary resolves `X` to an entry
identical to the member, and that entry reports the key `X` -/
theorem glossary_member_is_entry (m : Member) (hm : m ∈ Gen.members) :
    getGlossaryEntry Gen.entries m.id = some m.entry ∧ m.entry.key = m.id :=
  ⟨(table_members m hm).2, (table_members m hm).1⟩

-- non-vacuity: the table is not empty, and the general hypotheses are satisfiable
example : Gen.entries.length ≥ 1 ∧ Gen.members.length ≥ 1 := by decide +kernel
example : Gen.entries.any (fun e => !e.lower.isEmpty && !e.upper.isEmpty) = true := by decide +kernel

end TfelVerif.C34.Props
