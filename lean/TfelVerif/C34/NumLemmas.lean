/-
  C34 — the exact comparison `Num.le` of the numeric model is the order of the rational values.
-/
import Mathlib.Algebra.Order.Field.Basic
import Mathlib.Algebra.Order.Field.Rat
import Mathlib.Algebra.Order.Field.Power
import Mathlib.Tactic.Positivity
import Mathlib.Tactic.Linarith
import Mathlib.Tactic.SplitIfs
import Mathlib.Tactic.Ring
import TfelVerif.C34.Lemmas

namespace TfelVerif.C34

/-- the rational number denoted by a decimal literal -/
def Num.toRat (x : Num) : ℚ :=
  (if x.neg then -(x.mant : ℚ) else (x.mant : ℚ)) * (10 : ℚ) ^ x.exp

theorem Num.scaled_cast (x : Num) (m : Int) (h : m ≤ x.exp) :
    ((x.scaled m : Int) : ℚ) = x.toRat * (10 : ℚ) ^ (-m) := by
  unfold Num.scaled Num.toRat
  have h10 : (10 : ℚ) ≠ 0 := by norm_num
  have e : ((10 : ℚ) ^ (x.exp - m).toNat) = (10 : ℚ) ^ x.exp * (10 : ℚ) ^ (-m) := by
    rw [← zpow_natCast, Int.toNat_of_nonneg (by omega), ← zpow_add₀ h10]
    congr 1
  split_ifs <;> push_cast <;> rw [e] <;> ring

/-- `Num.le` decides the order of the denoted rationals -/
theorem Num.le_iff (x y : Num) : x.le y = true ↔ x.toRat ≤ y.toRat := by
  unfold Num.le
  simp only [decide_eq_true_eq]
  have hx := Num.scaled_cast x (min x.exp y.exp) (min_le_left _ _)
  have hy := Num.scaled_cast y (min x.exp y.exp) (min_le_right _ _)
  have hpos : (0 : ℚ) < (10 : ℚ) ^ (-(min x.exp y.exp)) := by positivity
  rw [← Int.cast_le (R := ℚ), hx, hy]
  exact mul_le_mul_iff_of_pos_right hpos

/-- what `Entry.boundsOk` means: every bound string is a number of the grammar, and for each unit
system with both bounds the lower value does not exceed the upper value (as rationals) -/
theorem boundsOk_spec {e : Entry} (h : e.boundsOk = true) :
    (∀ p ∈ e.lower, ∃ x, parseNum p.2 = some x) ∧ (∀ q ∈ e.upper, ∃ y, parseNum q.2 = some y) ∧
    ∀ p ∈ e.lower, ∀ q ∈ e.upper, p.1 = q.1 →
      ∃ x y, parseNum p.2 = some x ∧ parseNum q.2 = some y ∧ x.toRat ≤ y.toRat := by
  simp only [Entry.boundsOk, Bool.and_eq_true, List.all_eq_true, Bool.or_eq_true,
    Bool.not_eq_true'] at h
  obtain ⟨⟨hl, hu⟩, hc⟩ := h
  refine ⟨fun p hp => Option.isSome_iff_exists.1 (hl p hp),
    fun q hq => Option.isSome_iff_exists.1 (hu q hq), ?_⟩
  intro p hp q hq hs
  obtain ⟨x, hx⟩ := Option.isSome_iff_exists.1 (hl p hp)
  obtain ⟨y, hy⟩ := Option.isSome_iff_exists.1 (hu q hq)
  refine ⟨x, y, hx, hy, ?_⟩
  rcases hc p hp q hq with h1 | h1
  · have : beqStr p.1 q.1 = true := beqStr_iff.2 hs
    rw [this] at h1; cases h1
  · rw [hx, hy] at h1
    exact (Num.le_iff x y).1 h1

end TfelVerif.C34
