/-
  C34 — executable model (core Lean only) of the TFEL glossary lookups and of the numeric grammar
  used by `GlossaryEntry::check` for the physical bounds.

  * a `std::string` is modelled as its sequence of bytes (`Str := List Nat`): `std::string::operator==`
    compares bytes, and queries need not be valid UTF-8. (Lists of arbitrary naturals are a superset of
    byte strings; every theorem quantifying over `Str` covers all byte strings.)
  * `Glossary::findGlossaryEntry` (src/Glossary/Glossary.cxx): linear scan of `std::set<GlossaryEntry>`
    in container order, returning the first entry whose key equals the argument or whose `names`
    contain it. `contains n` is `find ≠ end`, `getGlossaryEntry n` dereferences it or raises.
  * `GlossaryEntry::check` (src/Glossary/GlossaryEntry.cxx) converts each bound with
    `std::istringstream >> double` in the "C" locale and requires `!fail && !bad && eof`; then
    `lower > upper` raises for each unit system that has both.

  The data (entries in container order, key list, static members) is NOT written here: it is dumped
  from the compiled sources of the current tree on every run into `GenTable.lean` (T2).
  The lookup functions below are tied to the real ones by the differential correspondence of
  checks/C34.py (all keys, all names, all member identifiers, seeded random non-entries).
-/
namespace TfelVerif.C34

/-- a `std::string`: its bytes -/
abbrev Str := List Nat

/-- one `GlossaryEntry` as observed through its public interface (plus the bound maps) -/
structure Entry where
  key : Str
  names : List Str
  /-- unit per unit system (`getUnits()`), in map order -/
  units : List (Str × Str)
  type : Str
  /-- lower physical bound strings per unit system, in map order -/
  lower : List (Str × Str)
  /-- upper physical bound strings per unit system, in map order -/
  upper : List (Str × Str)
  deriving DecidableEq, Repr

/-- a static member `Glossary::<id>` together with the entry it holds -/
structure Member where
  id : Str
  entry : Entry
  deriving DecidableEq, Repr

/-- `std::string::operator==`: same length and same bytes (plain structural recursion, so that the
kernel evaluates it quickly on the dumped table) -/
def beqStr : Str → Str → Bool
  | [], [] => true
  | a :: l, b :: m => Nat.beq a b && beqStr l m
  | _, _ => false

/-- `std::find(v.begin(), v.end(), x) != v.end()` -/
def memStr (x : Str) : List Str → Bool
  | [] => false
  | y :: l => beqStr y x || memStr x l

/-- the test of the loop body of `findGlossaryEntry`: `p->getKey() == n || find(names, n) != end` -/
def Entry.answersTo (e : Entry) (n : Str) : Bool :=
  beqStr e.key n || memStr n e.names

/-- `Glossary::findGlossaryEntry`: first match in container order (`none` = `entries.end()`) -/
def find : List Entry → Str → Option Entry
  | [], _ => none
  | e :: l, n => if e.answersTo n then some e else find l n

/-- position of the iterator returned by `findGlossaryEntry` (`none` = `end()`) -/
def findPos : List Entry → Str → Option Nat
  | [], _ => none
  | e :: l, n => if e.answersTo n then some 0 else (findPos l n).map (· + 1)

/-- `Glossary::contains` -/
def contains (es : List Entry) (n : Str) : Bool :=
  (find es n).isSome

/-- `Glossary::getGlossaryEntry` (`none` = the exception raised when nothing matches) -/
def getGlossaryEntry (es : List Entry) (n : Str) : Option Entry :=
  find es n

/-! ### numeric grammar of the bounds -/

/-- a decimal literal: value `(-1)^neg * mant * 10^exp` -/
structure Num where
  neg : Bool
  mant : Nat
  exp : Int
  deriving DecidableEq, Repr

def isDigit (c : Nat) : Bool := 48 ≤ c && c ≤ 57

/-- white space of the "C" locale, skipped by the `istream` sentry -/
def isSpace (c : Nat) : Bool := c == 32 || (9 ≤ c && c ≤ 13)

/-- read a run of digits: accumulated value, number of digits read, rest -/
def digits : List Nat → Nat → Nat → Nat × Nat × List Nat
  | [], acc, k => (acc, k, [])
  | c :: r, acc, k => if isDigit c then digits r (acc * 10 + (c - 48)) (k + 1) else (acc, k, c :: r)

/-- optional sign: (negative?, rest) -/
def sign : List Nat → Bool × List Nat
  | 43 :: r => (false, r)
  | 45 :: r => (true, r)
  | s => (false, s)

def skipSpaces : List Nat → List Nat
  | [] => []
  | c :: r => if isSpace c then skipSpaces r else c :: r

/-- exponent part after the mantissa; `nf` = number of fraction digits already read -/
def exponent (neg : Bool) (m nf : Nat) : List Nat → Option Num
  | [] => some ⟨neg, m, -(nf : Int)⟩
  | c :: r =>
    if c == 101 || c == 69 then
      let (eneg, r1) := sign r
      let (e, ne, r2) := digits r1 0 0
      if ne == 0 || !r2.isEmpty then none
      else some ⟨neg, m, (if eneg then -(e : Int) else (e : Int)) - (nf : Int)⟩
    else none

/-- what `num_get<char>::do_get(double&)` + `strtod` accept with nothing left over:
`ws* [+-]? (digit+ ('.' digit*)? | '.' digit+) ([eE] [+-]? digit+)?` -/
def parseDecimal (s : Str) : Option Num :=
  let (neg, s1) := sign (skipSpaces s)
  let (ip, ni, s2) := digits s1 0 0
  match s2 with
  | 46 :: r =>
    let (m, nf, s3) := digits r ip 0
    if ni + nf == 0 then none else exponent neg m nf s3
  | _ => if ni == 0 then none else exponent neg ip 0 s2

/-- smallest magnitude that `strtod` rounds to infinity (round to nearest even): `2^1024 - 2^970`;
libstdc++ then sets `failbit` -/
def overflowThreshold : Nat := 2 ^ 1024 - 2 ^ 970

def Num.overflows (x : Num) : Bool :=
  match x.exp with
  | Int.ofNat e => overflowThreshold ≤ x.mant * 10 ^ e
  | Int.negSucc e => overflowThreshold * 10 ^ (e + 1) ≤ x.mant

/-- the `convert` lambda of `GlossaryEntry::check`: `none` = raises -/
def parseNum (s : Str) : Option Num :=
  match parseDecimal s with
  | some x => if x.overflows then none else some x
  | none => none

/-- signed mantissa scaled to the exponent `m` (`m ≤ x.exp`) -/
def Num.scaled (x : Num) (m : Int) : Int :=
  (if x.neg then -(x.mant : Int) else (x.mant : Int)) * (10 : Int) ^ (x.exp - m).toNat

/-- exact comparison of the values: `x ≤ y` -/
def Num.le (x y : Num) : Bool :=
  let m := min x.exp y.exp
  decide (x.scaled m ≤ y.scaled m)

/-- the bound conditions of `GlossaryEntry::check` on one entry: every bound string converts, and for
each unit system having both bounds the lower one does not exceed the upper one -/
def Entry.boundsOk (e : Entry) : Bool :=
  e.lower.all (fun p => (parseNum p.2).isSome) &&
  e.upper.all (fun p => (parseNum p.2).isSome) &&
  e.lower.all (fun p => e.upper.all (fun q =>
    !(beqStr p.1 q.1) ||
      match parseNum p.2, parseNum q.2 with
      | some x, some y => x.le y
      | _, _ => false))

/-- would a `GlossaryEntry` with these bound maps pass `check()` (the other fields being valid) -/
def boundsAccepted (lower upper : List (Str × Str)) : Bool :=
  Entry.boundsOk { key := [], names := [[]], units := [], type := [], lower := lower, upper := upper }

end TfelVerif.C34
