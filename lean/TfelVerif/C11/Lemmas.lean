import Mathlib.Algebra.Order.Field.Basic
import Mathlib.Tactic.Ring
import Mathlib.Tactic.FieldSimp
import Mathlib.Tactic.Linarith
import Mathlib.Tactic.SplitIfs
import TfelVerif.C11.Model

namespace TfelVerif.C11
end TfelVerif.C11
