/-
  C11 — helper lemmas for Props.lean: semantics of the searches (`findIndex`, `lower_bound`), the
  affine pieces of the linear interpolation, the local cubic (Hermite conditions, formal
  derivatives), the Thomas algorithm invariant, the loop invariant of `buildInterpolation`, the
  natural-spline equations, positivity of the pivots, and the primitive of the extrapolated spline
  used to characterise `computeIntegral`.
-/
import Mathlib.Algebra.Order.Field.Basic
import Mathlib.Tactic.Ring
import Mathlib.Tactic.FieldSimp
import Mathlib.Tactic.Linarith
import Mathlib.Tactic.LinearCombination
import Mathlib.Tactic.SplitIfs
import TfelVerif.C11.Model

set_option linter.unusedSectionVars false
set_option linter.unusedVariables false
set_option linter.unusedTactic false
set_option linter.unreachableTactic false

namespace TfelVerif.C11

variable {K : Type} [Field K] [LinearOrder K] [IsStrictOrderedRing K]

theorem Vec.ext' {α : Type} {x x' : Vec α} (h : ∀ a, x.get a = x'.get a) : x = x' := by
  cases x; cases x'; simp only [Vec.mk.injEq, and_true]; funext a; exact h a

@[simp] theorem Vec.tab_eq {α : Type} (n : Nat) (x : Vec α) : x.tab n = x := by
  apply Vec.ext'
  intro a
  simp only [Vec.tab]
  split_ifs with h1
  · simp
  · rfl

/-- the first `n` abscissae are strictly increasing -/
def StrictInc (x : Vec K) (n : Nat) : Prop := ∀ i, i + 1 < n → x.get i < x.get (i + 1)

theorem StrictInc.lt {x : Vec K} {n : Nat} (h : StrictInc x n) :
    ∀ {i j : Nat}, i < j → j < n → x.get i < x.get j := by
  intro i j hij
  induction j with
  | zero => omega
  | succ j ih =>
    intro hj
    rcases Nat.lt_succ_iff_lt_or_eq.mp hij with h1 | h1
    · exact lt_trans (ih h1 (by omega)) (h j hj)
    · subst h1; exact h i hj

theorem StrictInc.le {x : Vec K} {n : Nat} (h : StrictInc x n) {i j : Nat} (hij : i ≤ j) (hj : j < n) :
    x.get i ≤ x.get j := by
  rcases Nat.lt_or_eq_of_le hij with h1 | h1
  · exact le_of_lt (h.lt h1 hj)
  · subst h1; exact le_refl _

theorem StrictInc.lt_imp {x : Vec K} {n : Nat} (h : StrictInc x n) {i j : Nat} (hi : i < n)
    (hlt : x.get i < x.get j) : i < j := by
  by_contra hc
  have := h.le (Nat.le_of_not_lt hc) hi
  exact absurd hlt (not_lt.mpr this)

theorem findIndexFrom_spec (x : Vec K) (s : Nat) (a : K) :
    ∀ fuel i, s ≤ i + fuel + 1 → i < s → (∀ j, j < i → x.get (j + 1) < a) →
      i ≤ findIndexFrom x s a fuel i ∧ findIndexFrom x s a fuel i < s ∧
      (∀ j, j < findIndexFrom x s a fuel i → x.get (j + 1) < a) ∧
      (findIndexFrom x s a fuel i + 1 = s ∨ a ≤ x.get (findIndexFrom x s a fuel i + 1)) := by
  intro fuel
  induction fuel with
  | zero =>
    intro i h1 h2 h3
    simp only [findIndexFrom]
    exact ⟨le_refl _, h2, h3, Or.inl (by omega)⟩
  | succ f ih =>
    intro i h1 h2 h3
    simp only [findIndexFrom]
    split_ifs with c1 c2
    · exact ⟨le_refl _, h2, h3, Or.inl c1⟩
    · have := ih (i + 1) (by omega) (by omega) (by
        intro j hj
        rcases Nat.lt_succ_iff_lt_or_eq.mp hj with h | h
        · exact h3 j h
        · subst h; exact c2)
      exact ⟨by omega, this.2.1, this.2.2.1, this.2.2.2⟩
    · exact ⟨le_refl _, h2, h3, Or.inr (not_lt.mp c2)⟩


/-- slope of the linear piece `i` -/
def slope (x y : Vec K) (i : Nat) : K := (y.get (i + 1) - y.get i) / (x.get (i + 1) - x.get i)

theorem linPiece_eq (x y : Vec K) (a : K) (i : Nat) :
    linPiece x y a i = (y.get i + slope x y i * (a - x.get i), slope x y i) := rfl

theorem findIndex_interior {x : Vec K} {n : Nat} (hx : StrictInc x n) {a : K}
    (h0 : x.get 0 < a) (h1 : a < x.get (n - 1)) :
    findIndex x n a + 1 < n ∧ x.get (findIndex x n a) < a ∧ a ≤ x.get (findIndex x n a + 1) := by
  have hn : 2 ≤ n := by
    by_contra hc
    have : n - 1 = 0 := by omega
    rw [this] at h1
    exact absurd (lt_trans h0 h1) (lt_irrefl _)
  obtain ⟨-, r2, r3, r4⟩ := findIndexFrom_spec x n a n 0 (by omega) (by omega) (by intro j hj; omega)
  change findIndex x n a < n at r2
  change ∀ j, j < findIndex x n a → x.get (j + 1) < a at r3
  change findIndex x n a + 1 = n ∨ a ≤ x.get (findIndex x n a + 1) at r4
  generalize findIndex x n a = r at *
  have hlt : x.get r < a := by
    rcases Nat.eq_zero_or_pos r with h | h
    · subst h; exact h0
    · have := r3 (r - 1) (by omega)
      rwa [Nat.sub_add_cancel h] at this
  rcases r4 with h | h
  · exfalso
    have : r = n - 1 := by omega
    subst this
    exact absurd (lt_trans hlt h1) (lt_irrefl _)
  · refine ⟨?_, hlt, h⟩
    by_contra hc
    have : r = n - 1 := by omega
    subst this
    exact absurd (lt_trans hlt h1) (lt_irrefl _)

theorem slope_step {x y : Vec K} {n : Nat} (hx : StrictInc x n) {i : Nat} (hi : i + 1 < n) :
    y.get i + slope x y i * (x.get (i + 1) - x.get i) = y.get (i + 1) := by
  have : x.get (i + 1) - x.get i ≠ 0 := sub_ne_zero.mpr (ne_of_gt (hx i hi))
  unfold slope
  field_simp
  ring

theorem linear_one (e : Bool) (x y : Vec K) (a : K) : linear e x y 1 a = (y.get 0, 0) := by
  simp [linear]

theorem linear_left (e : Bool) (x y : Vec K) {n : Nat} (hn : n ≠ 1) {a : K} (h : ¬ x.get 0 < a) :
    linear e x y n a = if e then linPiece x y a 0 else (y.get 0, 0) := by
  unfold linear
  rw [if_neg hn, if_pos h]

theorem linear_right (e : Bool) (x y : Vec K) {n : Nat} (hn : n ≠ 1) {a : K} (h : x.get 0 < a)
    (h' : ¬ a < x.get (n - 1)) :
    linear e x y n a = if e then linPiece x y a (n - 2) else (y.get (n - 1), 0) := by
  unfold linear
  rw [if_neg hn, if_neg (not_not.mpr h), if_pos h']

theorem linear_mid (e : Bool) (x y : Vec K) {n : Nat} (hn : n ≠ 1) {a : K} (h : x.get 0 < a)
    (h' : a < x.get (n - 1)) :
    linear e x y n a = linPiece x y a (findIndex x n a) := by
  unfold linear
  rw [if_neg hn, if_neg (not_not.mpr h), if_neg (not_not.mpr h')]

/-- on the closed interval `[x i, x (i+1)]` the interpolation is the affine piece `i`
(whatever `extrapolate`) -/
theorem linear_on_interval {x y : Vec K} {n : Nat} (hx : StrictInc x n) (e : Bool) {i : Nat}
    (hi : i + 1 < n) {a : K} (ha0 : x.get i ≤ a) (ha1 : a ≤ x.get (i + 1)) :
    (linear e x y n a).1 = y.get i + slope x y i * (a - x.get i) := by
  have hn1 : n ≠ 1 := by omega
  by_cases c1 : x.get 0 < a
  · by_cases c3 : a < x.get (n - 1)
    · rw [linear_mid e x y hn1 c1 c3]
      obtain ⟨r1, r2, r3⟩ := findIndex_interior hx c1 c3
      rw [linPiece_eq]
      generalize findIndex x n a = r at *
      rcases Nat.lt_trichotomy r i with h | h | h
      · have hle : x.get (r + 1) ≤ x.get i := hx.le (by omega) (by omega)
        have hEq : a = x.get i := le_antisymm (le_trans r3 hle) ha0
        have hr : r + 1 = i := by
          by_contra hc
          have := hx.lt (by omega : r + 1 < i) (by omega)
          exact absurd (lt_of_le_of_lt r3 this) (by rw [hEq]; exact lt_irrefl _)
        subst hr
        rw [hEq]
        show y.get r + slope x y r * (x.get (r + 1) - x.get r) = _
        rw [slope_step hx r1]
        simp
      · subst h; rfl
      · exfalso
        have hle : x.get (i + 1) ≤ x.get r := hx.le (by omega) (by omega)
        exact absurd (lt_of_lt_of_le r2 (le_trans ha1 hle)) (lt_irrefl _)
    · rw [linear_right e x y hn1 c1 c3]
      have hle : x.get (i + 1) ≤ x.get (n - 1) := hx.le (by omega) (by omega)
      have hEq : a = x.get (n - 1) := le_antisymm (le_trans ha1 hle) (not_lt.mp c3)
      have hi1 : i + 1 = n - 1 := by
        by_contra hc
        have := hx.lt (by omega : i + 1 < n - 1) (by omega)
        exact absurd (lt_of_le_of_lt ha1 this) (by rw [hEq]; exact lt_irrefl _)
      have h2 : n - 2 = i := by omega
      cases e
      · simp only [Bool.false_eq_true, if_false]
        rw [hEq, ← hi1]
        exact (slope_step hx hi).symm
      · simp only [if_true]
        rw [h2, linPiece_eq]
  · rw [linear_left e x y hn1 c1]
    have hi0 : i = 0 := by
      by_contra hc
      have := hx.lt (Nat.pos_of_ne_zero hc) (by omega : i < n)
      exact c1 (lt_of_lt_of_le this ha0)
    subst hi0
    cases e
    · have : a = x.get 0 := le_antisymm (not_lt.mp c1) ha0
      subst this
      simp
    · simp only [if_true]
      rw [linPiece_eq]


theorem findIndex_unique {x : Vec K} {n : Nat} (hx : StrictInc x n) {a : K}
    (h0 : x.get 0 < a) (h1 : a < x.get (n - 1)) {i : Nat} (hi : i + 1 < n)
    (ha0 : x.get i < a) (ha1 : a ≤ x.get (i + 1)) : findIndex x n a = i := by
  obtain ⟨r1, r2, r3⟩ := findIndex_interior hx h0 h1
  generalize findIndex x n a = r at *
  rcases Nat.lt_trichotomy r i with h | h | h
  · exfalso
    have hle : x.get (r + 1) ≤ x.get i := hx.le (by omega) (by omega)
    exact absurd (lt_of_lt_of_le ha0 (le_trans r3 hle)) (lt_irrefl _)
  · exact h
  · exfalso
    have hle : x.get (i + 1) ≤ x.get r := hx.le (by omega) (by omega)
    exact absurd (lt_of_lt_of_le r2 (le_trans ha1 hle)) (lt_irrefl _)

/-! ### lower_bound -/

/-- the first `n` abscissae are non-decreasing -/
def Mono (x : Vec K) (n : Nat) : Prop := ∀ i j, i ≤ j → j < n → x.get i ≤ x.get j

theorem StrictInc.mono {x : Vec K} {n : Nat} (h : StrictInc x n) : Mono x n :=
  fun _ _ hij hj => h.le hij hj

theorem lowerBoundAux_spec {x : Vec K} {n : Nat} (hx : Mono x n) (v : K) :
    ∀ fuel first len, len ≤ fuel → first + len ≤ n → (∀ j, j < first → x.get j < v) →
      (∀ j, first + len ≤ j → j < n → ¬ x.get j < v) →
      lowerBoundAux x v fuel first len ≤ n ∧
      (∀ j, j < lowerBoundAux x v fuel first len → x.get j < v) ∧
      (∀ j, lowerBoundAux x v fuel first len ≤ j → j < n → ¬ x.get j < v) := by
  intro fuel
  induction fuel with
  | zero =>
    intro first len h1 h2 h3 h4
    simp only [lowerBoundAux]
    have : len = 0 := by omega
    subst this
    exact ⟨by omega, h3, h4⟩
  | succ f ih =>
    intro first len h1 h2 h3 h4
    simp only [lowerBoundAux]
    split_ifs with c1 c2
    · subst c1
      exact ⟨by omega, h3, h4⟩
    · have hh : len / 2 < len := Nat.div_lt_self (Nat.pos_of_ne_zero c1) (by omega)
      apply ih
      · omega
      · omega
      · intro j hj
        exact lt_of_le_of_lt (hx j (first + len / 2) (by omega) (by omega)) c2
      · intro j hj hjn
        exact h4 j (by omega) hjn
    · have hh : len / 2 < len := Nat.div_lt_self (Nat.pos_of_ne_zero c1) (by omega)
      apply ih
      · omega
      · omega
      · exact h3
      · intro j hj hjn hlt
        exact c2 (lt_of_le_of_lt (hx (first + len / 2) j hj hjn) hlt)

/-- `lower_bound` returns the index of the first node that is not `< v` (`n` if there is none) -/
theorem lowerBound_spec {x : Vec K} {n : Nat} (hx : Mono x n) (v : K) :
    lowerBound x n v ≤ n ∧ (∀ j, j < lowerBound x n v → x.get j < v) ∧
      (∀ j, lowerBound x n v ≤ j → j < n → v ≤ x.get j) := by
  obtain ⟨h1, h2, h3⟩ := lowerBoundAux_spec hx v n 0 n (le_refl _) (by omega)
    (by intro j hj; omega) (by intro j hj hjn; omega)
  exact ⟨h1, h2, fun j hj hjn => not_lt.mp (h3 j hj hjn)⟩

theorem lowerBound_eq {x : Vec K} {n : Nat} (hx : Mono x n) {v : K} {k : Nat} (hk : k ≤ n)
    (h1 : ∀ j, j < k → x.get j < v) (h2 : ∀ j, k ≤ j → j < n → v ≤ x.get j) :
    lowerBound x n v = k := by
  obtain ⟨r1, r2, r3⟩ := lowerBound_spec hx v
  generalize lowerBound x n v = r at *
  rcases Nat.lt_trichotomy r k with h | h | h
  · exact absurd (h1 r h) (not_lt.mpr (r3 r (le_refl _) (by omega)))
  · exact h
  · exact absurd (r2 k h) (not_lt.mpr (h2 k (le_refl _) (by omega)))

theorem lowerBound_left {x : Vec K} {n : Nat} (hx : StrictInc x n) {v : K} (h : v ≤ x.get 0) :
    lowerBound x n v = 0 :=
  lowerBound_eq hx.mono (Nat.zero_le _) (by intro j hj; omega)
    (fun j _ hjn => le_trans h (hx.le (Nat.zero_le _) hjn))

theorem lowerBound_right {x : Vec K} {n : Nat} (hx : StrictInc x n) {v : K} (hn : 0 < n)
    (h : x.get (n - 1) < v) : lowerBound x n v = n :=
  lowerBound_eq hx.mono (le_refl _)
    (fun j hj => lt_of_le_of_lt (hx.le (by omega) (by omega)) h) (by intro j hj hjn; omega)

theorem lowerBound_piece {x : Vec K} {n : Nat} (hx : StrictInc x n) {v : K} {i : Nat}
    (hi : i + 1 < n) (h0 : x.get i < v) (h1 : v ≤ x.get (i + 1)) : lowerBound x n v = i + 1 :=
  lowerBound_eq hx.mono (by omega)
    (fun j hj => lt_of_le_of_lt (hx.le (by omega) (by omega)) h0)
    (fun j hj hjn => le_trans h1 (hx.le hj hjn))

theorem lowerBound_node {x : Vec K} {n : Nat} (hx : StrictInc x n) {i : Nat} (hi : i < n) :
    lowerBound x n (x.get i) = i :=
  lowerBound_eq hx.mono (by omega) (fun j hj => hx.lt hj hi) (fun j hj hjn => hx.le hj hjn)


/-! ### the local cubic -/

/-- value of the cubic piece `i` at the offset `t` from `x i` -/
def pieceVal (x y d : Vec K) (i : Nat) (t : K) : K :=
  y.get i + t * (d.get i + t * ((coef x y d i).1 + t * (coef x y d i).2))

/-- first derivative of the cubic piece `i` as written in the code -/
def pieceDer (x y d : Vec K) (i : Nat) (t : K) : K :=
  d.get i + t * (2 * (coef x y d i).1 + t * 3 * (coef x y d i).2)

/-- second derivative of the cubic piece `i` as written in the code -/
def pieceD2 (x y d : Vec K) (i : Nat) (t : K) : K :=
  2 * (coef x y d i).1 + t * 6 * (coef x y d i).2

theorem splineEval_one (e : Bool) (x y d : Vec K) (a : K) : splineEval e x y d 1 a = (y.get 0, 0) := by
  simp [splineEval]

theorem splineEval_of_lb (e : Bool) (x y d : Vec K) {n : Nat} (hn : n ≠ 1) (a : K) {k : Nat}
    (hk : lowerBound x n a = k) :
    splineEval e x y d n a =
      if k = 0 then
        (if e then (y.get 0 + (a - x.get 0) * d.get 0, d.get 0) else (y.get 0, 0))
      else if k = n then
        (if e then (y.get (n - 1) + (a - x.get (n - 1)) * d.get (n - 1), d.get (n - 1))
         else (y.get (n - 1), 0))
      else (pieceVal x y d (k - 1) (a - x.get (k - 1)), pieceDer x y d (k - 1) (a - x.get (k - 1))) := by
  unfold splineEval
  rw [if_neg hn]
  simp only [hk]
  rfl

theorem splineEval3_of_lb (x y d : Vec K) {n : Nat} (hn : n ≠ 1) (a : K) {k : Nat}
    (hk : lowerBound x n a = k) :
    splineEval3 x y d n a =
      if k = 0 then (y.get 0 + (a - x.get 0) * d.get 0, d.get 0, 0)
      else if k = n then (y.get (n - 1) + (a - x.get (n - 1)) * d.get (n - 1), d.get (n - 1), 0)
      else (pieceVal x y d (k - 1) (a - x.get (k - 1)), pieceDer x y d (k - 1) (a - x.get (k - 1)),
            pieceD2 x y d (k - 1) (a - x.get (k - 1))) := by
  unfold splineEval3
  rw [if_neg hn]
  simp only [hk]
  rfl

theorem coef_eq (x y d : Vec K) (i : Nat) :
    coef x y d i =
      ((3 * ((y.get (i + 1) - y.get i) * (1 / (x.get (i + 1) - x.get i))) - d.get (i + 1) - 2 * d.get i) *
          (1 / (x.get (i + 1) - x.get i)),
       (-2 * ((y.get (i + 1) - y.get i) * (1 / (x.get (i + 1) - x.get i))) + d.get (i + 1) + d.get i) *
          (1 / (x.get (i + 1) - x.get i)) * (1 / (x.get (i + 1) - x.get i))) := rfl

/-- Hermite conditions at the right end of a piece (any slopes) -/
theorem pieceVal_right (x y d : Vec K) (i : Nat) (h : x.get (i + 1) - x.get i ≠ 0) :
    pieceVal x y d i (x.get (i + 1) - x.get i) = y.get (i + 1) := by
  unfold pieceVal
  rw [coef_eq]
  field_simp
  ring

theorem pieceDer_right (x y d : Vec K) (i : Nat) (h : x.get (i + 1) - x.get i ≠ 0) :
    pieceDer x y d i (x.get (i + 1) - x.get i) = d.get (i + 1) := by
  unfold pieceDer
  rw [coef_eq]
  field_simp
  ring

theorem pieceVal_left (x y d : Vec K) (i : Nat) : pieceVal x y d i 0 = y.get i := by
  simp [pieceVal]

theorem pieceDer_left (x y d : Vec K) (i : Nat) : pieceDer x y d i 0 = d.get i := by
  simp [pieceDer]

/-- `pieceDer` is the formal derivative of `pieceVal` (Taylor expansion with explicit remainder) -/
theorem pieceVal_taylor (x y d : Vec K) (i : Nat) (t e : K) :
    pieceVal x y d i (t + e) = pieceVal x y d i t + e * pieceDer x y d i t +
      e * e * ((coef x y d i).1 + (3 * t + e) * (coef x y d i).2) := by
  unfold pieceVal pieceDer
  ring

/-- `pieceD2` is the formal derivative of `pieceDer` -/
theorem pieceDer_taylor (x y d : Vec K) (i : Nat) (t e : K) :
    pieceDer x y d i (t + e) = pieceDer x y d i t + e * pieceD2 x y d i t +
      e * e * (3 * (coef x y d i).2) := by
  unfold pieceDer pieceD2
  ring

/-! ### Thomas algorithm -/

/-- `s` solves the symmetric tridiagonal system with diagonal `b`, off-diagonals `c` and
right-hand side `r` (`n ≥ 2` unknowns) -/
def TriSystem (c b r : Vec K) (n : Nat) (s : Vec K) : Prop :=
  b.get 0 * s.get 0 + c.get 0 * s.get 1 = r.get 0 ∧
  (∀ i, 1 ≤ i → i + 1 < n →
    c.get (i - 1) * s.get (i - 1) + b.get i * s.get i + c.get i * s.get (i + 1) = r.get i) ∧
  c.get (n - 2) * s.get (n - 2) + b.get (n - 1) * s.get (n - 1) = r.get (n - 1)

theorem fwd_succ (c b r : Vec K) (i : Nat) :
    fwd c b r (i + 1) =
      (b.get (i + 1) - c.get i / (fwd c b r i).1 * c.get i,
       r.get (i + 1) - c.get i / (fwd c b r i).1 * (fwd c b r i).2) := rfl

theorem back_last (c : Vec K) (bd : Vec (K × K)) (n : Nat) :
    back c bd n (n - 1 - (n - 1)) = (bd.get (n - 1)).2 / (bd.get (n - 1)).1 := by
  rw [Nat.sub_self]; rfl

theorem back_step (c : Vec K) (bd : Vec (K × K)) {n i : Nat} (hi : i + 1 < n) :
    back c bd n (n - 1 - i) =
      ((bd.get i).2 - c.get i * back c bd n (n - 1 - (i + 1))) / (bd.get i).1 := by
  have h1 : n - 1 - i = (n - 2 - i) + 1 := by omega
  have h2 : n - 2 - (n - 2 - i) = i := by omega
  have h3 : n - 1 - (i + 1) = n - 2 - i := by omega
  rw [h1, h3]
  simp only [back]
  rw [h2]

theorem pivotsOk_spec (prec : K) (bd : Vec (K × K)) :
    ∀ k, pivotsOk prec bd k = true → ∀ j, j < k → ¬ absT (bd.get j).1 < prec := by
  intro k
  induction k with
  | zero => intro _ j hj; omega
  | succ k ih =>
    intro h j hj
    simp only [pivotsOk, Bool.and_eq_true, Bool.not_eq_true', decide_eq_false_iff_not] at h
    rcases Nat.lt_succ_iff_lt_or_eq.mp hj with h1 | h1
    · exact ih h.1 j h1
    · subst h1; exact h.2

theorem ne_zero_of_not_absT_lt {p prec : K} (hp : 0 < prec) (h : ¬ absT p < prec) : p ≠ 0 := by
  intro h0
  apply h
  subst h0
  simp only [absT, lt_irrefl, if_false]
  exact hp

/-- algebraic core of the Thomas invariant : one eliminated row put back -/
theorem thomas_row {c0 c1 b1 r1 p0 p1 q0 q1 s0 s1 s2 : K} (hp0 : p0 ≠ 0)
    (hp : p1 = b1 - c0 / p0 * c0) (hq : q1 = r1 - c0 / p0 * q0)
    (hU0 : p0 * s0 + c0 * s1 = q0) (hU1 : p1 * s1 + c1 * s2 = q1) :
    c0 * s0 + b1 * s1 + c1 * s2 = r1 := by
  have hm : c0 / p0 * p0 = c0 := div_mul_cancel₀ _ hp0
  linear_combination hU1 + (c0 / p0) * hU0 - s1 * hp + hq - s0 * hm

/-- the two sweeps solve the system as soon as no pivot vanishes -/
theorem sweeps_solve (c b r : Vec K) {n : Nat} (hn : 2 ≤ n)
    (hp : ∀ i, i < n → (fwd c b r i).1 ≠ 0) :
    TriSystem c b r n (Vec.mk (fun i => back c (Vec.mk (fwd c b r) ()) n (n - 1 - i)) ()) := by
  -- the relations of the upper bidiagonal system left by the forward sweep
  have hU : ∀ i, i + 1 < n →
      (fwd c b r i).1 * back c (Vec.mk (fwd c b r) ()) n (n - 1 - i) +
        c.get i * back c (Vec.mk (fwd c b r) ()) n (n - 1 - (i + 1)) = (fwd c b r i).2 := by
    intro i hi
    rw [back_step c _ hi]
    have := hp i (by omega)
    simp only
    field_simp
    ring
  have hL : (fwd c b r (n - 1)).1 * back c (Vec.mk (fwd c b r) ()) n (n - 1 - (n - 1)) =
      (fwd c b r (n - 1)).2 := by
    rw [back_last]
    have := hp (n - 1) (by omega)
    simp only
    field_simp
  refine ⟨?_, ?_, ?_⟩
  · have := hU 0 (by omega)
    simpa [fwd] using this
  · intro i h1 h2
    obtain ⟨j, rfl⟩ : ∃ j, i = j + 1 := ⟨i - 1, by omega⟩
    simp only [Nat.add_sub_cancel]
    have e := fwd_succ c b r j
    exact thomas_row (hp j (by omega)) (congrArg Prod.fst e) (congrArg Prod.snd e)
      (hU j (by omega)) (hU (j + 1) h2)
  · obtain ⟨j, rfl⟩ : ∃ j, n = j + 2 := ⟨n - 2, by omega⟩
    simp only [Nat.add_sub_cancel, show j + 2 - 1 = j + 1 by omega]
    have e := fwd_succ c b r j
    have h0 := hU j (by omega)
    have h1 := hL
    simp only [show j + 2 - 1 = j + 1 by omega] at h1
    have := thomas_row (c1 := 0) (s2 := 0) (hp j (by omega)) (congrArg Prod.fst e) (congrArg Prod.snd e)
      h0 (by rw [zero_mul, add_zero]; exact h1)
    simpa using this

/-- `solveTridiagonalLinearSystem` : when it does not raise, the result solves the system -/
theorem thomas_solves {prec : K} (hprec : 0 < prec) (c b r : Vec K) {n : Nat} (hn : 2 ≤ n)
    {s : Vec K} (h : thomas prec c b r n = some s) : TriSystem c b r n s := by
  unfold thomas at h
  simp only [Vec.tab_eq] at h
  split_ifs at h with hp
  have hs : s = Vec.mk (fun i => back c (Vec.mk (fwd c b r) ()) n (n - 1 - i)) () :=
    (Option.some.inj h).symm
  rw [hs]
  apply sweeps_solve c b r hn
  intro i hi
  exact ne_zero_of_not_absT_lt hprec (pivotsOk_spec prec _ n hp i hi)

/-! ### the system assembled by `buildInterpolation` -/

/-- `hn` of iteration `i` : inverse of the length of the interval `i` -/
def hInv (x : Vec K) (i : Nat) : K := 1 / (x.get (i + 1) - x.get i)

/-- `un` of iteration `i` -/
def uTerm (x y : Vec K) (i : Nat) : K := 3 * hInv x i * hInv x i * (y.get (i + 1) - y.get i)

/-- `upper_diagonal` after the loop (also the lower diagonal : the matrix is symmetric) -/
def upperDiag (x : Vec K) (s : Nat) : Vec K := { get := fun i => if i < s then hInv x i else 0 }

/-- `main_diagonal` after the loop and the assignment `md[s] = 2 * ho` -/
def mainDiag (x : Vec K) (s : Nat) : Vec K :=
  { get := fun i =>
      if i = s then 2 * hInv x (s - 1)
      else if i < s then (if i = 0 then 2 * (hInv x 0 + 0) else 2 * (hInv x i + hInv x (i - 1)))
      else 0 }

/-- right-hand side (stored in `points[i].d`) after the loop and `points[s].d = uo` -/
def rhsVec (x y : Vec K) (s : Nat) : Vec K :=
  { get := fun i =>
      if i = s then uTerm x y (s - 1)
      else if i < s then (if i = 0 then uTerm x y 0 + 0 else uTerm x y i + uTerm x y (i - 1))
      else 0 }

/-- loop invariant of `buildInterpolation` : the state after `k` iterations -/
def asmInv (x y : Vec K) (k : Nat) : Assembly K :=
  { mu := { get := fun j => if j < k then hInv x j else 0 },
    md := { get := fun j =>
      if j < k then (if j = 0 then 2 * (hInv x 0 + 0) else 2 * (hInv x j + hInv x (j - 1))) else 0 },
    d := { get := fun j =>
      if j < k then (if j = 0 then uTerm x y 0 + 0 else uTerm x y j + uTerm x y (j - 1)) else 0 },
    ho := if k = 0 then 0 else hInv x (k - 1),
    uo := if k = 0 then 0 else uTerm x y (k - 1) }

theorem assemble_loop (x y : Vec K) :
    ∀ k, forRange 0 k (assembleStep x y)
        { mu := { get := fun _ => 0 }, md := { get := fun _ => 0 }, d := { get := fun _ => 0 },
          ho := 0, uo := 0 } = asmInv x y k := by
  intro k
  induction k with
  | zero => simp [forRange, asmInv]
  | succ k ih =>
    rw [forRange, ih, Nat.zero_add]
    unfold assembleStep asmInv
    simp only [Assembly.mk.injEq]
    refine ⟨?_, ?_, ?_, ?_, ?_⟩
    · apply Vec.ext'
      intro j
      simp only [Vec.set]
      split_ifs <;> first | omega | rfl | (subst_vars; rfl)
    · apply Vec.ext'
      intro j
      simp only [Vec.set]
      split_ifs <;> first | omega | rfl | (subst_vars; simp [hInv])
    · apply Vec.ext'
      intro j
      simp only [Vec.set]
      split_ifs <;> first | omega | rfl | (subst_vars; simp [uTerm, hInv]) | (subst_vars; rfl)
    · simp [hInv]
    · simp [uTerm, hInv]

/-- the loop of `buildInterpolation` produces the diagonals and the right-hand side `upperDiag`,
`mainDiag`, `rhsVec` -/
theorem assemble_eq (x y : Vec K) {s : Nat} (hs : 1 ≤ s) :
    (assemble x y s).mu = upperDiag x s ∧ (assemble x y s).md = mainDiag x s ∧
      (assemble x y s).d = rhsVec x y s := by
  unfold assemble
  simp only [assemble_loop]
  have h0 : s ≠ 0 := by omega
  refine ⟨rfl, ?_, ?_⟩
  · apply Vec.ext'
    intro j
    simp only [Vec.set, asmInv, mainDiag, if_neg h0]
  · apply Vec.ext'
    intro j
    simp only [Vec.set, asmInv, rhsVec, if_neg h0]

/-! ### natural cubic spline equations -/

/-- the natural-spline conditions on the slopes `d` : zero second derivative at both ends and
continuous second derivative at every interior node (`n ≥ 2` points) -/
def NaturalC2 (x y d : Vec K) (n : Nat) : Prop :=
  pieceD2 x y d 0 0 = 0 ∧
  (∀ i, 1 ≤ i → i + 1 < n →
    pieceD2 x y d (i - 1) (x.get i - x.get (i - 1)) = pieceD2 x y d i 0) ∧
  pieceD2 x y d (n - 2) (x.get (n - 1) - x.get (n - 2)) = 0

theorem hInv_mul {x : Vec K} {n : Nat} (hx : StrictInc x n) {i : Nat} (hi : i + 1 < n) :
    (x.get (i + 1) - x.get i) * hInv x i = 1 := by
  have : x.get (i + 1) - x.get i ≠ 0 := sub_ne_zero.mpr (ne_of_gt (hx i hi))
  unfold hInv
  field_simp

theorem pieceD2_left_eq (x y d : Vec K) (i : Nat) :
    pieceD2 x y d i 0 =
      2 * ((3 * ((y.get (i + 1) - y.get i) * hInv x i) - d.get (i + 1) - 2 * d.get i) * hInv x i) := by
  unfold pieceD2
  rw [coef_eq]
  unfold hInv
  ring

theorem pieceD2_right_eq (x y d : Vec K) (i : Nat) (h : (x.get (i + 1) - x.get i) * hInv x i = 1) :
    pieceD2 x y d i (x.get (i + 1) - x.get i) =
      2 * ((-3 * ((y.get (i + 1) - y.get i) * hInv x i) + 2 * d.get (i + 1) + d.get i) * hInv x i) := by
  unfold pieceD2
  rw [coef_eq]
  have e : 1 / (x.get (i + 1) - x.get i) = hInv x i := rfl
  rw [e]
  generalize hInv x i = u at *
  generalize x.get (i + 1) - x.get i = L at *
  linear_combination (6 * ((-2 * ((y.get (i + 1) - y.get i) * u) + d.get (i + 1) + d.get i) * u)) * h

/-- the rows of the system assembled by `buildInterpolation` are exactly the natural-spline
conditions -/
theorem natural_iff_system {x y : Vec K} {n : Nat} (hx : StrictInc x n) (hn : 2 ≤ n) (d : Vec K) :
    TriSystem (upperDiag x (n - 1)) (mainDiag x (n - 1)) (rhsVec x y (n - 1)) n d ↔ NaturalC2 x y d n := by
  unfold TriSystem NaturalC2
  have hne : ∀ i, i + 1 < n → hInv x i ≠ 0 := by
    intro i hi h0
    have := hInv_mul hx hi
    rw [h0, mul_zero] at this
    exact zero_ne_one this
  have r0 : (mainDiag x (n - 1)).get 0 * d.get 0 + (upperDiag x (n - 1)).get 0 * d.get 1 = (rhsVec x y (n - 1)).get 0 ↔
      pieceD2 x y d 0 0 = 0 := by
    rw [pieceD2_left_eq]
    have h1 : (0 : Nat) ≠ n - 1 := by omega
    have h5 : (0 : Nat) < n - 1 := by omega
    simp only [mainDiag, rhsVec, upperDiag, uTerm, if_neg h1, if_pos h5, if_true]
    have := hne 0 (by omega)
    constructor
    · intro h
      linear_combination (-2 : K) * h
    · intro h
      linear_combination (-1 / 2 : K) * h
  have ri : ∀ i, 1 ≤ i → i + 1 < n →
      ((upperDiag x (n - 1)).get (i - 1) * d.get (i - 1) + (mainDiag x (n - 1)).get i * d.get i +
          (upperDiag x (n - 1)).get i * d.get (i + 1) = (rhsVec x y (n - 1)).get i ↔
       pieceD2 x y d (i - 1) (x.get i - x.get (i - 1)) = pieceD2 x y d i 0) := by
    intro i h1 h2
    obtain ⟨j, rfl⟩ : ∃ j, i = j + 1 := ⟨i - 1, by omega⟩
    simp only [Nat.add_sub_cancel]
    rw [pieceD2_left_eq, pieceD2_right_eq x y d j (hInv_mul hx (by omega))]
    have h3 : j + 1 ≠ n - 1 := by omega
    have h4 : j + 1 ≠ 0 := by omega
    have h5 : j < n - 1 := by omega
    have h6 : j + 1 < n - 1 := by omega
    simp only [mainDiag, rhsVec, upperDiag, uTerm, if_neg h3, if_neg h4, if_pos h5, if_pos h6,
      Nat.add_sub_cancel]
    constructor
    · intro h
      linear_combination (2 : K) * h
    · intro h
      linear_combination (1 / 2 : K) * h
  have rl : (upperDiag x (n - 1)).get (n - 2) * d.get (n - 2) + (mainDiag x (n - 1)).get (n - 1) * d.get (n - 1) =
        (rhsVec x y (n - 1)).get (n - 1) ↔
      pieceD2 x y d (n - 2) (x.get (n - 1) - x.get (n - 2)) = 0 := by
    obtain ⟨j, rfl⟩ : ∃ j, n = j + 2 := ⟨n - 2, by omega⟩
    simp only [Nat.add_sub_cancel, show j + 2 - 1 = j + 1 by omega]
    rw [pieceD2_right_eq x y d j (hInv_mul hx (by omega))]
    simp only [mainDiag, rhsVec, upperDiag, uTerm, if_true, Nat.add_sub_cancel,
      if_pos (Nat.lt_succ_self j)]
    constructor
    · intro h
      linear_combination (2 : K) * h
    · intro h
      linear_combination (1 / 2 : K) * h
  constructor
  · rintro ⟨a, b, c⟩
    exact ⟨r0.mp a, fun i h1 h2 => (ri i h1 h2).mp (b i h1 h2), rl.mp c⟩
  · rintro ⟨a, b, c⟩
    exact ⟨r0.mpr a, fun i h1 h2 => (ri i h1 h2).mpr (b i h1 h2), rl.mpr c⟩

theorem ordered_iff (x : Vec K) : ∀ k, ordered x k = true ↔ StrictInc x (k + 1) := by
  intro k
  induction k with
  | zero => simp [ordered, StrictInc]
  | succ k ih =>
    simp only [ordered, Bool.and_eq_true, decide_eq_true_eq, ih]
    constructor
    · rintro ⟨h1, h2⟩ i hi
      rcases Nat.lt_succ_iff_lt_or_eq.mp (by omega : i < k + 1) with h | h
      · exact h1 i (by omega)
      · subst h; exact h2
    · intro h
      exact ⟨fun i hi => h i (by omega), h k (by omega)⟩

/-! ### the pivots of the natural-spline system are positive -/

theorem hInv_pos {x : Vec K} {n : Nat} (hx : StrictInc x n) {i : Nat} (hi : i + 1 < n) :
    0 < hInv x i := by
  unfold hInv
  exact one_div_pos.mpr (sub_pos.mpr (hx i hi))

theorem elim_le {h p : K} (hh : 0 < h) (hp : 2 * h ≤ p) : h / p * h ≤ h / 2 := by
  have hp0 : 0 < p := lt_of_lt_of_le (by linarith) hp
  have h1 : h / p ≤ 1 / 2 := by
    rw [div_le_iff₀ hp0]
    linarith
  calc h / p * h ≤ 1 / 2 * h := mul_le_mul_of_nonneg_right h1 (le_of_lt hh)
    _ = h / 2 := by ring

theorem pivot_lower {x y : Vec K} {n : Nat} (hx : StrictInc x n) :
    ∀ i, i + 1 < n →
      2 * hInv x i ≤ (fwd (upperDiag x (n - 1)) (mainDiag x (n - 1)) (rhsVec x y (n - 1)) i).1 := by
  intro i
  induction i with
  | zero =>
    intro hi
    have h1 : (0 : Nat) ≠ n - 1 := by omega
    have h5 : (0 : Nat) < n - 1 := by omega
    simp only [fwd, mainDiag, if_neg h1, if_pos h5, if_true]
    linarith
  | succ i ih =>
    intro hi
    have h := ih (by omega)
    rw [fwd_succ]
    generalize (fwd (upperDiag x (n - 1)) (mainDiag x (n - 1)) (rhsVec x y (n - 1)) i).1 = p at *
    have h3 : i + 1 ≠ n - 1 := by omega
    have h4 : i + 1 ≠ 0 := by omega
    have h5 : i < n - 1 := by omega
    have h6 : i + 1 < n - 1 := by omega
    simp only [mainDiag, upperDiag, if_neg h3, if_neg h4, if_pos h5, if_pos h6, Nat.add_sub_cancel]
    have hh := hInv_pos hx (by omega : i + 1 < n)
    have := elim_le hh h
    linarith

theorem pivot_last {x y : Vec K} {n : Nat} (hx : StrictInc x n) (hn : 2 ≤ n) :
    3 / 2 * hInv x (n - 2) ≤
      (fwd (upperDiag x (n - 1)) (mainDiag x (n - 1)) (rhsVec x y (n - 1)) (n - 1)).1 := by
  obtain ⟨j, rfl⟩ : ∃ j, n = j + 2 := ⟨n - 2, by omega⟩
  simp only [Nat.add_sub_cancel, show j + 2 - 1 = j + 1 by omega]
  have h := pivot_lower (y := y) hx j (by omega)
  simp only [show j + 2 - 1 = j + 1 by omega] at h
  rw [fwd_succ]
  generalize (fwd (upperDiag x (j + 1)) (mainDiag x (j + 1)) (rhsVec x y (j + 1)) j).1 = p at *
  simp only [mainDiag, upperDiag, if_true, Nat.add_sub_cancel, if_pos (Nat.lt_succ_self j)]
  have hh := hInv_pos hx (by omega : j + 1 < j + 2)
  have := elim_le hh h
  linarith

theorem pivotsOk_of (prec : K) (bd : Vec (K × K)) :
    ∀ k, (∀ j, j < k → ¬ absT (bd.get j).1 < prec) → pivotsOk prec bd k = true := by
  intro k
  induction k with
  | zero => intro _; rfl
  | succ k ih =>
    intro h
    simp only [pivotsOk, Bool.and_eq_true, Bool.not_eq_true', decide_eq_false_iff_not]
    exact ⟨ih (fun j hj => h j (by omega)), h k (by omega)⟩

theorem absT_of_pos {p : K} (hp : 0 < p) : absT p = p := by
  unfold absT
  rw [if_neg (not_lt.mpr (le_of_lt hp))]

/-! ### setCollocationPoints -/

/-- when `setCollocationPoints` succeeds the table is strictly increasing and the slopes satisfy
the natural-spline conditions -/
theorem build_ok {prec : K} (hprec : 0 < prec) {x y : Vec K} {n : Nat} {d : Vec K}
    (h : build prec x y n = Build.ok d) :
    n ≠ 0 ∧ StrictInc x n ∧ (n = 1 → ∀ i, d.get i = 0) ∧ (2 ≤ n → NaturalC2 x y d n) := by
  unfold build at h
  split_ifs at h with h0 h1 h2
  · have ho : StrictInc x n := by
      have : ordered x (n - 1) = true := by simpa using h1
      have := (ordered_iff x (n - 1)).mp this
      rwa [Nat.sub_add_cancel (Nat.pos_of_ne_zero h0)] at this
    refine ⟨h0, ho, ?_, ?_⟩
    · intro _ i
      injection h with h
      rw [← h]
    · intro hn; omega
  · have ho : StrictInc x n := by
      have : ordered x (n - 1) = true := by simpa using h1
      have := (ordered_iff x (n - 1)).mp this
      rwa [Nat.sub_add_cancel (Nat.pos_of_ne_zero h0)] at this
    have hn : 2 ≤ n := by omega
    refine ⟨h0, ho, fun h => absurd h h2, fun _ => ?_⟩
    obtain ⟨e1, e2, e3⟩ := assemble_eq x y (show 1 ≤ n - 1 by omega)
    simp only [Vec.tab_eq, e1, e2, e3] at h
    split at h
    · cases h
    · rename_i s heq
      injection h with h
      subst h
      exact (natural_iff_system ho hn s).mp (thomas_solves hprec _ _ _ hn heq)

/-- on a strictly increasing table `setCollocationPoints` succeeds as soon as the threshold
`prec` does not exceed the inverse interval lengths (all pivots are `≥ 3/2` of them) -/
theorem build_total {prec : K} {x y : Vec K} {n : Nat} (hx : StrictInc x n) (hn : 1 ≤ n)
    (hprec : ∀ i, i + 1 < n → prec ≤ hInv x i) : ∃ d, build prec x y n = Build.ok d := by
  unfold build
  have ho : ordered x (n - 1) = true := by
    rw [ordered_iff, Nat.sub_add_cancel hn]; exact hx
  rw [if_neg (by omega), ho]
  simp only [Bool.not_true, Bool.false_eq_true, if_false, Vec.tab_eq]
  by_cases h1 : n = 1
  · rw [if_pos h1]; exact ⟨_, rfl⟩
  · rw [if_neg h1]
    have hn2 : 2 ≤ n := by omega
    obtain ⟨e1, e2, e3⟩ := assemble_eq x y (show 1 ≤ n - 1 by omega)
    simp only [e1, e2, e3]
    have hp : pivotsOk prec (Vec.mk (fwd (upperDiag x (n - 1)) (mainDiag x (n - 1)) (rhsVec x y (n - 1))) ()) n = true := by
      apply pivotsOk_of
      intro j hj
      simp only
      by_cases hj1 : j + 1 < n
      · have h2 := pivot_lower (y := y) hx j hj1
        have h3 := hInv_pos hx hj1
        have h4 := hprec j hj1
        rw [absT_of_pos (by linarith)]
        exact not_lt.mpr (by linarith)
      · have hj2 : j = n - 1 := by omega
        subst hj2
        have h2 := pivot_last (y := y) hx hn2
        have h3 := hInv_pos hx (by omega : n - 2 + 1 < n)
        have h4 := hprec (n - 2) (by omega)
        rw [absT_of_pos (by linarith)]
        exact not_lt.mpr (by linarith)
    unfold thomas
    simp only [Vec.tab_eq, hp, if_true]
    exact ⟨_, rfl⟩

/-! ### the primitive of the extrapolated spline -/

/-- primitive (vanishing at offset 0) of the cubic piece `i`, at the offset `t` from `x i` -/
def localPrim (x y d : Vec K) (i : Nat) (t : K) : K :=
  (3 * (coef x y d i).2 * (t * t * t * t) + 4 * (coef x y d i).1 * (t * t * t) +
      6 * d.get i * (t * t) + 12 * y.get i * t) / 12

/-- primitive of the linear continuation `ye + df * u` at the offset `u` from the end node -/
def extPrim (ye df u : K) : K := ye * u + half * df * (u * u)

/-- integral of the spline from `x 0` to the node `x k` -/
def nodeSum (x y d : Vec K) : Nat → K
  | 0 => 0
  | k + 1 => nodeSum x y d k + localPrim x y d k (x.get (k + 1) - x.get k)

/-- primitive of the linearly extrapolated spline (vanishing at `x 0`; for one point the
interpolant is the constant `y 0`) -/
def prim (x y d : Vec K) (n : Nat) (t : K) : K :=
  if n = 1 then y.get 0 * (t - x.get 0)
  else
    let k := lowerBound x n t
    if k = 0 then extPrim (y.get 0) (d.get 0) (t - x.get 0)
    else if k = n then
      nodeSum x y d (n - 1) + extPrim (y.get (n - 1)) (d.get (n - 1)) (t - x.get (n - 1))
    else nodeSum x y d (k - 1) + localPrim x y d (k - 1) (t - x.get (k - 1))

theorem localIntegral_eq (x y d : Vec K) (xa xb : K) (i : Nat) :
    localIntegral x y d xa xb i =
      localPrim x y d i (xb - x.get i) - localPrim x y d i (xa - x.get i) := by
  unfold localIntegral localPrim
  ring

theorem localPrim_zero (x y d : Vec K) (i : Nat) : localPrim x y d i 0 = 0 := by
  simp [localPrim]

theorem extPrim_zero (ye df : K) : extPrim ye df 0 = 0 := by
  simp [extPrim]

/-- `pieceVal` is the formal derivative of `localPrim` -/
theorem localPrim_taylor (x y d : Vec K) (i : Nat) (t e : K) :
    localPrim x y d i (t + e) = localPrim x y d i t + e * pieceVal x y d i t +
      e * e * ((6 * d.get i + 12 * (coef x y d i).1 * t + 18 * (coef x y d i).2 * (t * t) +
        (4 * (coef x y d i).1 + 12 * (coef x y d i).2 * t) * e + 3 * (coef x y d i).2 * (e * e)) / 12) := by
  unfold localPrim pieceVal
  ring

/-- the linear continuation is the formal derivative of `extPrim` -/
theorem extPrim_taylor (ye df u e : K) :
    extPrim ye df (u + e) = extPrim ye df u + e * (ye + u * df) + e * e * (half * df) := by
  unfold extPrim half
  ring

theorem nodeSum_loop (x y d : Vec K) (lo : Nat) (s : K) :
    ∀ cnt, forRange lo cnt (fun k s => s + localIntegral x y d (x.get k) (x.get (k + 1)) k) s =
      s + (nodeSum x y d (lo + cnt) - nodeSum x y d lo) := by
  intro cnt
  induction cnt with
  | zero => simp [forRange]
  | succ c ih =>
    rw [forRange, ih, localIntegral_eq, sub_self, localPrim_zero]
    show _ = s + (nodeSum x y d (lo + c + 1) - nodeSum x y d lo)
    rw [nodeSum]
    ring

theorem lowerBound_mono {x : Vec K} {n : Nat} (hx : Mono x n) {a b : K} (hab : a ≤ b) :
    lowerBound x n a ≤ lowerBound x n b := by
  obtain ⟨a1, a2, a3⟩ := lowerBound_spec hx a
  obtain ⟨b1, b2, b3⟩ := lowerBound_spec hx b
  by_contra hc
  have hlt : lowerBound x n b < lowerBound x n a := Nat.lt_of_not_le hc
  have h1 := a2 _ hlt
  have h2 := b3 _ (le_refl _) (by omega)
  exact absurd (lt_of_lt_of_le h1 (le_trans hab h2)) (lt_irrefl _)

theorem prim_of_lb (x y d : Vec K) {n : Nat} (hn : n ≠ 1) (t : K) {k : Nat}
    (hk : lowerBound x n t = k) :
    prim x y d n t =
      if k = 0 then extPrim (y.get 0) (d.get 0) (t - x.get 0)
      else if k = n then
        nodeSum x y d (n - 1) + extPrim (y.get (n - 1)) (d.get (n - 1)) (t - x.get (n - 1))
      else nodeSum x y d (k - 1) + localPrim x y d (k - 1) (t - x.get (k - 1)) := by
  unfold prim
  rw [if_neg hn]
  simp only [hk]

/-- `computeIntegral` on ordered bounds is the difference of the primitive -/
theorem integralOrdered_eq {x : Vec K} {n : Nat} (hx : Mono x n) (hn : n ≠ 1) (y d : Vec K)
    {xa xb : K} (hab : xa ≤ xb) :
    integralOrdered x y d n xa xb = prim x y d n xb - prim x y d n xa := by
  have hle := lowerBound_mono hx hab
  have hbn := (lowerBound_spec hx xb).1
  rw [prim_of_lb x y d hn xa rfl, prim_of_lb x y d hn xb rfl]
  unfold integralOrdered
  simp only
  generalize lowerBound x n xa = ia at *
  generalize lowerBound x n xb = ib at *
  by_cases hEq : ia = ib
  · subst hEq
    rw [if_pos rfl]
    by_cases h0 : ia = 0
    · subst h0
      simp only [if_true, extPrim]
      ring
    · simp only [if_neg h0]
      by_cases h1 : ia = n
      · simp only [if_pos h1, extPrim]
        ring
      · simp only [if_neg h1]
        rw [localIntegral_eq]
        ring
  · rw [if_neg hEq]
    have hlt : ia < ib := lt_of_le_of_ne hle hEq
    have hb0 : ib ≠ 0 := by omega
    have han : ia ≠ n := by omega
    rw [nodeSum_loop, if_neg hb0, if_neg han]
    have e1 : ia + (ib - 1 - ia) = ib - 1 := by omega
    rw [e1]
    have s1 : (if ia = 0 then (0 : K) + (y.get 0 * (x.get 0 - xa) - half * d.get 0 * ((xa - x.get 0) * (xa - x.get 0)))
        else 0 + localIntegral x y d xa (x.get ia) (ia - 1)) =
        nodeSum x y d ia -
          (if ia = 0 then extPrim (y.get 0) (d.get 0) (xa - x.get 0)
           else nodeSum x y d (ia - 1) + localPrim x y d (ia - 1) (xa - x.get (ia - 1))) := by
      by_cases h0 : ia = 0
      · subst h0
        simp only [if_true, extPrim, nodeSum]
        ring
      · rw [if_neg h0, if_neg h0, localIntegral_eq]
        obtain ⟨j, rfl⟩ : ∃ j, ia = j + 1 := ⟨ia - 1, by omega⟩
        simp only [Nat.add_sub_cancel, nodeSum]
        ring
    rw [s1]
    by_cases h1 : ib = n
    · simp only [if_pos h1]
      subst h1
      simp only [extPrim]
      ring
    · simp only [if_neg h1]
      rw [localIntegral_eq, sub_self, localPrim_zero]
      ring

/-- `computeIntegral(xa, xb)` is the difference of the primitive, whatever the order of the
bounds -/
theorem integral_eq_prim {x : Vec K} {n : Nat} (hx : Mono x n) (y d : Vec K) (xa xb : K) :
    integral x y d n xa xb = prim x y d n xb - prim x y d n xa := by
  unfold integral
  by_cases hn : n = 1
  · rw [if_pos hn]
    unfold prim
    rw [if_pos hn, if_pos hn]
    ring
  · rw [if_neg hn]
    by_cases h : xb < xa
    · rw [if_pos h, integralOrdered_eq hx hn y d (le_of_lt h)]
      ring
    · rw [if_neg h, integralOrdered_eq hx hn y d (not_lt.mp h)]

/-! ### the spline and its primitive cell by cell -/

theorem piece_join_val {x : Vec K} {n : Nat} (hx : StrictInc x n) (y d : Vec K) {i : Nat}
    (hi : i + 1 < n) : pieceVal x y d i (x.get (i + 1) - x.get i) = y.get (i + 1) :=
  pieceVal_right x y d i (sub_ne_zero.mpr (ne_of_gt (hx i hi)))

theorem piece_join_der {x : Vec K} {n : Nat} (hx : StrictInc x n) (y d : Vec K) {i : Nat}
    (hi : i + 1 < n) : pieceDer x y d i (x.get (i + 1) - x.get i) = d.get (i + 1) :=
  pieceDer_right x y d i (sub_ne_zero.mpr (ne_of_gt (hx i hi)))

/-- left of the table (first node included) -/
theorem splineEval_left {x : Vec K} {n : Nat} (hx : StrictInc x n) (hn : 2 ≤ n) (e : Bool)
    (y d : Vec K) {t : K} (ht : t ≤ x.get 0) :
    splineEval e x y d n t =
      if e then (y.get 0 + (t - x.get 0) * d.get 0, d.get 0) else (y.get 0, 0) := by
  rw [splineEval_of_lb e x y d (by omega) t (lowerBound_left hx ht)]
  simp

/-- right of the table -/
theorem splineEval_right {x : Vec K} {n : Nat} (hx : StrictInc x n) (hn : 2 ≤ n) (e : Bool)
    (y d : Vec K) {t : K} (ht : x.get (n - 1) < t) :
    splineEval e x y d n t =
      if e then (y.get (n - 1) + (t - x.get (n - 1)) * d.get (n - 1), d.get (n - 1))
      else (y.get (n - 1), 0) := by
  rw [splineEval_of_lb e x y d (by omega) t (lowerBound_right hx (by omega) ht)]
  have : n ≠ 0 := by omega
  simp [this]

/-- inside the table the cubic piece of the interval `(x i, x (i+1)]` is used -/
theorem splineEval_piece {x : Vec K} {n : Nat} (hx : StrictInc x n) (e : Bool) (y d : Vec K)
    {i : Nat} (hi : i + 1 < n) {t : K} (h0 : x.get i < t) (h1 : t ≤ x.get (i + 1)) :
    splineEval e x y d n t = (pieceVal x y d i (t - x.get i), pieceDer x y d i (t - x.get i)) := by
  rw [splineEval_of_lb e x y d (by omega) t (lowerBound_piece hx hi h0 h1)]
  have h2 : i + 1 ≠ n := by omega
  simp [h2]

theorem splineEval3_piece {x : Vec K} {n : Nat} (hx : StrictInc x n) (y d : Vec K)
    {i : Nat} (hi : i + 1 < n) {t : K} (h0 : x.get i < t) (h1 : t ≤ x.get (i + 1)) :
    splineEval3 x y d n t =
      (pieceVal x y d i (t - x.get i), pieceDer x y d i (t - x.get i), pieceD2 x y d i (t - x.get i)) := by
  rw [splineEval3_of_lb x y d (by omega) t (lowerBound_piece hx hi h0 h1)]
  have h2 : i + 1 ≠ n := by omega
  simp [h2]

/-- value at a node, any slopes, extrapolating or not -/
theorem splineEval_node {x : Vec K} {n : Nat} (hx : StrictInc x n) (e : Bool) (y d : Vec K)
    {i : Nat} (hi : i < n) : (splineEval e x y d n (x.get i)).1 = y.get i := by
  by_cases hn : n = 1
  · subst hn
    have : i = 0 := by omega
    subst this
    rw [splineEval_one]
  · rcases Nat.eq_zero_or_pos i with h | h
    · subst h
      rw [splineEval_left hx (by omega) e y d (le_refl _)]
      cases e <;> simp
    · obtain ⟨j, rfl⟩ : ∃ j, i = j + 1 := ⟨i - 1, by omega⟩
      rw [splineEval_piece hx e y d hi (hx j hi) (le_refl _)]
      exact piece_join_val hx y d hi

/-- on the closed interval `[x i, x (i+1)]` the value is that of the cubic piece `i` -/
theorem splineEval_on_interval {x : Vec K} {n : Nat} (hx : StrictInc x n) (e : Bool) (y d : Vec K)
    {i : Nat} (hi : i + 1 < n) {t : K} (h0 : x.get i ≤ t) (h1 : t ≤ x.get (i + 1)) :
    (splineEval e x y d n t).1 = pieceVal x y d i (t - x.get i) := by
  rcases lt_or_eq_of_le h0 with h | h
  · rw [splineEval_piece hx e y d hi h h1]
  · subst h
    rw [splineEval_node hx e y d (by omega), sub_self, pieceVal_left]

/-- with extrapolation, the derivative on the closed interval `[x i, x (i+1)]` is that of the
cubic piece `i` (so the two pieces meeting at a node have the same derivative there) -/
theorem splineEval_der_on_interval {x : Vec K} {n : Nat} (hx : StrictInc x n) (y d : Vec K)
    {i : Nat} (hi : i + 1 < n) {t : K} (h0 : x.get i ≤ t) (h1 : t ≤ x.get (i + 1)) :
    (splineEval true x y d n t).2 = pieceDer x y d i (t - x.get i) := by
  rcases lt_or_eq_of_le h0 with h | h
  · rw [splineEval_piece hx true y d hi h h1]
  · subst h
    rw [sub_self, pieceDer_left]
    rcases Nat.eq_zero_or_pos i with h | h
    · subst h
      rw [splineEval_left hx (by omega) true y d (le_refl _)]
      simp
    · obtain ⟨j, rfl⟩ : ∃ j, i = j + 1 := ⟨i - 1, by omega⟩
      rw [splineEval_piece hx true y d (by omega) (hx j (by omega)) (le_refl _)]
      exact piece_join_der hx y d (by omega)

theorem prim_left {x : Vec K} {n : Nat} (hx : StrictInc x n) (hn : 2 ≤ n) (y d : Vec K) {t : K}
    (ht : t ≤ x.get 0) : prim x y d n t = extPrim (y.get 0) (d.get 0) (t - x.get 0) := by
  rw [prim_of_lb x y d (by omega) t (lowerBound_left hx ht)]
  simp

theorem prim_node {x : Vec K} {n : Nat} (hx : StrictInc x n) (hn : 2 ≤ n) (y d : Vec K) {i : Nat}
    (hi : i < n) : prim x y d n (x.get i) = nodeSum x y d i := by
  rw [prim_of_lb x y d (by omega) _ (lowerBound_node hx hi)]
  rcases Nat.eq_zero_or_pos i with h | h
  · subst h
    simp [extPrim_zero, nodeSum]
  · obtain ⟨j, rfl⟩ : ∃ j, i = j + 1 := ⟨i - 1, by omega⟩
    have h1 : j + 1 ≠ 0 := by omega
    have h2 : j + 1 ≠ n := by omega
    simp only [if_neg h1, if_neg h2, Nat.add_sub_cancel, nodeSum]

theorem prim_piece {x : Vec K} {n : Nat} (hx : StrictInc x n) (y d : Vec K) {i : Nat}
    (hi : i + 1 < n) {t : K} (h0 : x.get i ≤ t) (h1 : t ≤ x.get (i + 1)) :
    prim x y d n t = nodeSum x y d i + localPrim x y d i (t - x.get i) := by
  rcases lt_or_eq_of_le h0 with h | h
  · rw [prim_of_lb x y d (by omega) t (lowerBound_piece hx hi h h1)]
    have h1 : i + 1 ≠ 0 := by omega
    have h2 : i + 1 ≠ n := by omega
    simp only [if_neg h1, if_neg h2, Nat.add_sub_cancel]
  · subst h
    rw [prim_node hx (by omega) y d (by omega), sub_self, localPrim_zero, add_zero]

theorem prim_right {x : Vec K} {n : Nat} (hx : StrictInc x n) (hn : 2 ≤ n) (y d : Vec K) {t : K}
    (ht : x.get (n - 1) ≤ t) :
    prim x y d n t =
      nodeSum x y d (n - 1) + extPrim (y.get (n - 1)) (d.get (n - 1)) (t - x.get (n - 1)) := by
  rcases lt_or_eq_of_le ht with h | h
  · rw [prim_of_lb x y d (by omega) t (lowerBound_right hx (by omega) h)]
    have : n ≠ 0 := by omega
    simp [this]
  · subst h
    rw [prim_node hx hn y d (by omega), sub_self, extPrim_zero, add_zero]

end TfelVerif.C11
