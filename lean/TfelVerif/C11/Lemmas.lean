/-
  C11 — helper lemmas for Props.lean: semantics of the searches (`findIndex`, `lower_bound`), the
  affine pieces of the linear interpolation, the local cubic (Hermite conditions, formal
  derivatives), the Thomas algorithm invariant, the natural-spline equations, and the primitive
  of the extrapolated spline used to characterise `computeIntegral`.
-/
import Mathlib.Algebra.Order.Field.Basic
import Mathlib.Tactic.Ring
import Mathlib.Tactic.FieldSimp
import Mathlib.Tactic.Linarith
import Mathlib.Tactic.SplitIfs
import TfelVerif.C11.Model

set_option linter.unusedSectionVars false
set_option linter.unusedVariables false

namespace TfelVerif.C11

variable {K : Type} [Field K] [LinearOrder K] [IsStrictOrderedRing K]

theorem Vec.ext' {α : Type} {x x' : Vec α} (h : ∀ a, x.get a = x'.get a) : x = x' := by
  cases x; cases x'; simp only [Vec.mk.injEq, and_true]; funext a; exact h a

@[simp] theorem Vec.tab_eq {α : Type} (n : Nat) (x : Vec α) : x.tab n = x := by
  apply Vec.ext'
  intro a
  simp only [Vec.tab]
  split_ifs with h1
  · simp
  · rfl

/-- the first `n` abscissae are strictly increasing -/
def StrictInc (x : Vec K) (n : Nat) : Prop := ∀ i, i + 1 < n → x.get i < x.get (i + 1)

theorem StrictInc.lt {x : Vec K} {n : Nat} (h : StrictInc x n) :
    ∀ {i j : Nat}, i < j → j < n → x.get i < x.get j := by
  intro i j hij
  induction j with
  | zero => omega
  | succ j ih =>
    intro hj
    rcases Nat.lt_succ_iff_lt_or_eq.mp hij with h1 | h1
    · exact lt_trans (ih h1 (by omega)) (h j hj)
    · subst h1; exact h i hj

theorem StrictInc.le {x : Vec K} {n : Nat} (h : StrictInc x n) {i j : Nat} (hij : i ≤ j) (hj : j < n) :
    x.get i ≤ x.get j := by
  rcases Nat.lt_or_eq_of_le hij with h1 | h1
  · exact le_of_lt (h.lt h1 hj)
  · subst h1; exact le_refl _

theorem StrictInc.lt_imp {x : Vec K} {n : Nat} (h : StrictInc x n) {i j : Nat} (hi : i < n)
    (hlt : x.get i < x.get j) : i < j := by
  by_contra hc
  have := h.le (Nat.le_of_not_lt hc) hi
  exact absurd hlt (not_lt.mpr this)

theorem findIndexFrom_spec (x : Vec K) (s : Nat) (a : K) :
    ∀ fuel i, s ≤ i + fuel + 1 → i < s → (∀ j, j < i → x.get (j + 1) < a) →
      i ≤ findIndexFrom x s a fuel i ∧ findIndexFrom x s a fuel i < s ∧
      (∀ j, j < findIndexFrom x s a fuel i → x.get (j + 1) < a) ∧
      (findIndexFrom x s a fuel i + 1 = s ∨ a ≤ x.get (findIndexFrom x s a fuel i + 1)) := by
  intro fuel
  induction fuel with
  | zero =>
    intro i h1 h2 h3
    simp only [findIndexFrom]
    exact ⟨le_refl _, h2, h3, Or.inl (by omega)⟩
  | succ f ih =>
    intro i h1 h2 h3
    simp only [findIndexFrom]
    split_ifs with c1 c2
    · exact ⟨le_refl _, h2, h3, Or.inl c1⟩
    · have := ih (i + 1) (by omega) (by omega) (by
        intro j hj
        rcases Nat.lt_succ_iff_lt_or_eq.mp hj with h | h
        · exact h3 j h
        · subst h; exact c2)
      exact ⟨by omega, this.2.1, this.2.2.1, this.2.2.2⟩
    · exact ⟨le_refl _, h2, h3, Or.inr (not_lt.mp c2)⟩


/-- slope of the linear piece `i` -/
def slope (x y : Vec K) (i : Nat) : K := (y.get (i + 1) - y.get i) / (x.get (i + 1) - x.get i)

theorem linPiece_eq (x y : Vec K) (a : K) (i : Nat) :
    linPiece x y a i = (y.get i + slope x y i * (a - x.get i), slope x y i) := rfl

theorem findIndex_interior {x : Vec K} {n : Nat} (hx : StrictInc x n) {a : K}
    (h0 : x.get 0 < a) (h1 : a < x.get (n - 1)) :
    findIndex x n a + 1 < n ∧ x.get (findIndex x n a) < a ∧ a ≤ x.get (findIndex x n a + 1) := by
  have hn : 2 ≤ n := by
    by_contra hc
    have : n - 1 = 0 := by omega
    rw [this] at h1
    exact absurd (lt_trans h0 h1) (lt_irrefl _)
  obtain ⟨-, r2, r3, r4⟩ := findIndexFrom_spec x n a n 0 (by omega) (by omega) (by intro j hj; omega)
  change findIndex x n a < n at r2
  change ∀ j, j < findIndex x n a → x.get (j + 1) < a at r3
  change findIndex x n a + 1 = n ∨ a ≤ x.get (findIndex x n a + 1) at r4
  generalize findIndex x n a = r at *
  have hlt : x.get r < a := by
    rcases Nat.eq_zero_or_pos r with h | h
    · subst h; exact h0
    · have := r3 (r - 1) (by omega)
      rwa [Nat.sub_add_cancel h] at this
  rcases r4 with h | h
  · exfalso
    have : r = n - 1 := by omega
    subst this
    exact absurd (lt_trans hlt h1) (lt_irrefl _)
  · refine ⟨?_, hlt, h⟩
    by_contra hc
    have : r = n - 1 := by omega
    subst this
    exact absurd (lt_trans hlt h1) (lt_irrefl _)

theorem slope_step {x y : Vec K} {n : Nat} (hx : StrictInc x n) {i : Nat} (hi : i + 1 < n) :
    y.get i + slope x y i * (x.get (i + 1) - x.get i) = y.get (i + 1) := by
  have : x.get (i + 1) - x.get i ≠ 0 := sub_ne_zero.mpr (ne_of_gt (hx i hi))
  unfold slope
  field_simp
  ring

theorem linear_one (e : Bool) (x y : Vec K) (a : K) : linear e x y 1 a = (y.get 0, 0) := by
  simp [linear]

theorem linear_left (e : Bool) (x y : Vec K) {n : Nat} (hn : n ≠ 1) {a : K} (h : ¬ x.get 0 < a) :
    linear e x y n a = if e then linPiece x y a 0 else (y.get 0, 0) := by
  unfold linear
  rw [if_neg hn, if_pos h]

theorem linear_right (e : Bool) (x y : Vec K) {n : Nat} (hn : n ≠ 1) {a : K} (h : x.get 0 < a)
    (h' : ¬ a < x.get (n - 1)) :
    linear e x y n a = if e then linPiece x y a (n - 2) else (y.get (n - 1), 0) := by
  unfold linear
  rw [if_neg hn, if_neg (not_not.mpr h), if_pos h']

theorem linear_mid (e : Bool) (x y : Vec K) {n : Nat} (hn : n ≠ 1) {a : K} (h : x.get 0 < a)
    (h' : a < x.get (n - 1)) :
    linear e x y n a = linPiece x y a (findIndex x n a) := by
  unfold linear
  rw [if_neg hn, if_neg (not_not.mpr h), if_neg (not_not.mpr h')]

/-- on the closed interval `[x i, x (i+1)]` the interpolation is the affine piece `i`
(whatever `extrapolate`) -/
theorem linear_on_interval {x y : Vec K} {n : Nat} (hx : StrictInc x n) (e : Bool) {i : Nat}
    (hi : i + 1 < n) {a : K} (ha0 : x.get i ≤ a) (ha1 : a ≤ x.get (i + 1)) :
    (linear e x y n a).1 = y.get i + slope x y i * (a - x.get i) := by
  have hn1 : n ≠ 1 := by omega
  by_cases c1 : x.get 0 < a
  · by_cases c3 : a < x.get (n - 1)
    · rw [linear_mid e x y hn1 c1 c3]
      obtain ⟨r1, r2, r3⟩ := findIndex_interior hx c1 c3
      rw [linPiece_eq]
      generalize findIndex x n a = r at *
      rcases Nat.lt_trichotomy r i with h | h | h
      · have hle : x.get (r + 1) ≤ x.get i := hx.le (by omega) (by omega)
        have hEq : a = x.get i := le_antisymm (le_trans r3 hle) ha0
        have hr : r + 1 = i := by
          by_contra hc
          have := hx.lt (by omega : r + 1 < i) (by omega)
          exact absurd (lt_of_le_of_lt r3 this) (by rw [hEq]; exact lt_irrefl _)
        subst hr
        rw [hEq]
        show y.get r + slope x y r * (x.get (r + 1) - x.get r) = _
        rw [slope_step hx r1]
        simp
      · subst h; rfl
      · exfalso
        have hle : x.get (i + 1) ≤ x.get r := hx.le (by omega) (by omega)
        exact absurd (lt_of_lt_of_le r2 (le_trans ha1 hle)) (lt_irrefl _)
    · rw [linear_right e x y hn1 c1 c3]
      have hle : x.get (i + 1) ≤ x.get (n - 1) := hx.le (by omega) (by omega)
      have hEq : a = x.get (n - 1) := le_antisymm (le_trans ha1 hle) (not_lt.mp c3)
      have hi1 : i + 1 = n - 1 := by
        by_contra hc
        have := hx.lt (by omega : i + 1 < n - 1) (by omega)
        exact absurd (lt_of_le_of_lt ha1 this) (by rw [hEq]; exact lt_irrefl _)
      have h2 : n - 2 = i := by omega
      cases e
      · simp only [Bool.false_eq_true, if_false]
        rw [hEq, ← hi1]
        exact (slope_step hx hi).symm
      · simp only [if_true]
        rw [h2, linPiece_eq]
  · rw [linear_left e x y hn1 c1]
    have hi0 : i = 0 := by
      by_contra hc
      have := hx.lt (Nat.pos_of_ne_zero hc) (by omega : i < n)
      exact c1 (lt_of_lt_of_le this ha0)
    subst hi0
    cases e
    · have : a = x.get 0 := le_antisymm (not_lt.mp c1) ha0
      subst this
      simp
    · simp only [if_true]
      rw [linPiece_eq]


theorem findIndex_unique {x : Vec K} {n : Nat} (hx : StrictInc x n) {a : K}
    (h0 : x.get 0 < a) (h1 : a < x.get (n - 1)) {i : Nat} (hi : i + 1 < n)
    (ha0 : x.get i < a) (ha1 : a ≤ x.get (i + 1)) : findIndex x n a = i := by
  obtain ⟨r1, r2, r3⟩ := findIndex_interior hx h0 h1
  generalize findIndex x n a = r at *
  rcases Nat.lt_trichotomy r i with h | h | h
  · exfalso
    have hle : x.get (r + 1) ≤ x.get i := hx.le (by omega) (by omega)
    exact absurd (lt_of_lt_of_le ha0 (le_trans r3 hle)) (lt_irrefl _)
  · exact h
  · exfalso
    have hle : x.get (i + 1) ≤ x.get r := hx.le (by omega) (by omega)
    exact absurd (lt_of_lt_of_le r2 (le_trans ha1 hle)) (lt_irrefl _)

/-! ### lower_bound -/

/-- the first `n` abscissae are non-decreasing -/
def Mono (x : Vec K) (n : Nat) : Prop := ∀ i j, i ≤ j → j < n → x.get i ≤ x.get j

theorem StrictInc.mono {x : Vec K} {n : Nat} (h : StrictInc x n) : Mono x n :=
  fun _ _ hij hj => h.le hij hj

theorem lowerBoundAux_spec {x : Vec K} {n : Nat} (hx : Mono x n) (v : K) :
    ∀ fuel first len, len ≤ fuel → first + len ≤ n → (∀ j, j < first → x.get j < v) →
      (∀ j, first + len ≤ j → j < n → ¬ x.get j < v) →
      lowerBoundAux x v fuel first len ≤ n ∧
      (∀ j, j < lowerBoundAux x v fuel first len → x.get j < v) ∧
      (∀ j, lowerBoundAux x v fuel first len ≤ j → j < n → ¬ x.get j < v) := by
  intro fuel
  induction fuel with
  | zero =>
    intro first len h1 h2 h3 h4
    simp only [lowerBoundAux]
    have : len = 0 := by omega
    subst this
    exact ⟨by omega, h3, h4⟩
  | succ f ih =>
    intro first len h1 h2 h3 h4
    simp only [lowerBoundAux]
    split_ifs with c1 c2
    · subst c1
      exact ⟨by omega, h3, h4⟩
    · have hh : len / 2 < len := Nat.div_lt_self (Nat.pos_of_ne_zero c1) (by omega)
      apply ih
      · omega
      · omega
      · intro j hj
        exact lt_of_le_of_lt (hx j (first + len / 2) (by omega) (by omega)) c2
      · intro j hj hjn
        exact h4 j (by omega) hjn
    · have hh : len / 2 < len := Nat.div_lt_self (Nat.pos_of_ne_zero c1) (by omega)
      apply ih
      · omega
      · omega
      · exact h3
      · intro j hj hjn hlt
        exact c2 (lt_of_le_of_lt (hx (first + len / 2) j hj hjn) hlt)

/-- `lower_bound` returns the index of the first node that is not `< v` (`n` if there is none) -/
theorem lowerBound_spec {x : Vec K} {n : Nat} (hx : Mono x n) (v : K) :
    lowerBound x n v ≤ n ∧ (∀ j, j < lowerBound x n v → x.get j < v) ∧
      (∀ j, lowerBound x n v ≤ j → j < n → v ≤ x.get j) := by
  obtain ⟨h1, h2, h3⟩ := lowerBoundAux_spec hx v n 0 n (le_refl _) (by omega)
    (by intro j hj; omega) (by intro j hj hjn; omega)
  exact ⟨h1, h2, fun j hj hjn => not_lt.mp (h3 j hj hjn)⟩

theorem lowerBound_eq {x : Vec K} {n : Nat} (hx : Mono x n) {v : K} {k : Nat} (hk : k ≤ n)
    (h1 : ∀ j, j < k → x.get j < v) (h2 : ∀ j, k ≤ j → j < n → v ≤ x.get j) :
    lowerBound x n v = k := by
  obtain ⟨r1, r2, r3⟩ := lowerBound_spec hx v
  generalize lowerBound x n v = r at *
  rcases Nat.lt_trichotomy r k with h | h | h
  · exact absurd (h1 r h) (not_lt.mpr (r3 r (le_refl _) (by omega)))
  · exact h
  · exact absurd (r2 k h) (not_lt.mpr (h2 k (le_refl _) (by omega)))

theorem lowerBound_left {x : Vec K} {n : Nat} (hx : StrictInc x n) {v : K} (h : v ≤ x.get 0) :
    lowerBound x n v = 0 :=
  lowerBound_eq hx.mono (Nat.zero_le _) (by intro j hj; omega)
    (fun j _ hjn => le_trans h (hx.le (Nat.zero_le _) hjn))

theorem lowerBound_right {x : Vec K} {n : Nat} (hx : StrictInc x n) {v : K} (hn : 0 < n)
    (h : x.get (n - 1) < v) : lowerBound x n v = n :=
  lowerBound_eq hx.mono (le_refl _)
    (fun j hj => lt_of_le_of_lt (hx.le (by omega) (by omega)) h) (by intro j hj hjn; omega)

theorem lowerBound_piece {x : Vec K} {n : Nat} (hx : StrictInc x n) {v : K} {i : Nat}
    (hi : i + 1 < n) (h0 : x.get i < v) (h1 : v ≤ x.get (i + 1)) : lowerBound x n v = i + 1 :=
  lowerBound_eq hx.mono (by omega)
    (fun j hj => lt_of_le_of_lt (hx.le (by omega) (by omega)) h0)
    (fun j hj hjn => le_trans h1 (hx.le hj hjn))

theorem lowerBound_node {x : Vec K} {n : Nat} (hx : StrictInc x n) {i : Nat} (hi : i < n) :
    lowerBound x n (x.get i) = i :=
  lowerBound_eq hx.mono (by omega) (fun j hj => hx.lt hj hi) (fun j hj hjn => hx.le hj hjn)


/-! ### the local cubic -/

/-- value of the cubic piece `i` at the offset `t` from `x i` -/
def pieceVal (x y d : Vec K) (i : Nat) (t : K) : K :=
  y.get i + t * (d.get i + t * ((coef x y d i).1 + t * (coef x y d i).2))

/-- first derivative of the cubic piece `i` as written in the code -/
def pieceDer (x y d : Vec K) (i : Nat) (t : K) : K :=
  d.get i + t * (2 * (coef x y d i).1 + t * 3 * (coef x y d i).2)

/-- second derivative of the cubic piece `i` as written in the code -/
def pieceD2 (x y d : Vec K) (i : Nat) (t : K) : K :=
  2 * (coef x y d i).1 + t * 6 * (coef x y d i).2

theorem splineEval_one (e : Bool) (x y d : Vec K) (a : K) : splineEval e x y d 1 a = (y.get 0, 0) := by
  simp [splineEval]

theorem splineEval_of_lb (e : Bool) (x y d : Vec K) {n : Nat} (hn : n ≠ 1) (a : K) {k : Nat}
    (hk : lowerBound x n a = k) :
    splineEval e x y d n a =
      if k = 0 then
        (if e then (y.get 0 + (a - x.get 0) * d.get 0, d.get 0) else (y.get 0, 0))
      else if k = n then
        (if e then (y.get (n - 1) + (a - x.get (n - 1)) * d.get (n - 1), d.get (n - 1))
         else (y.get (n - 1), 0))
      else (pieceVal x y d (k - 1) (a - x.get (k - 1)), pieceDer x y d (k - 1) (a - x.get (k - 1))) := by
  unfold splineEval
  rw [if_neg hn]
  simp only [hk]
  rfl

theorem splineEval3_of_lb (x y d : Vec K) {n : Nat} (hn : n ≠ 1) (a : K) {k : Nat}
    (hk : lowerBound x n a = k) :
    splineEval3 x y d n a =
      if k = 0 then (y.get 0 + (a - x.get 0) * d.get 0, d.get 0, 0)
      else if k = n then (y.get (n - 1) + (a - x.get (n - 1)) * d.get (n - 1), d.get (n - 1), 0)
      else (pieceVal x y d (k - 1) (a - x.get (k - 1)), pieceDer x y d (k - 1) (a - x.get (k - 1)),
            pieceD2 x y d (k - 1) (a - x.get (k - 1))) := by
  unfold splineEval3
  rw [if_neg hn]
  simp only [hk]
  rfl

theorem coef_eq (x y d : Vec K) (i : Nat) :
    coef x y d i =
      ((3 * ((y.get (i + 1) - y.get i) * (1 / (x.get (i + 1) - x.get i))) - d.get (i + 1) - 2 * d.get i) *
          (1 / (x.get (i + 1) - x.get i)),
       (-2 * ((y.get (i + 1) - y.get i) * (1 / (x.get (i + 1) - x.get i))) + d.get (i + 1) + d.get i) *
          (1 / (x.get (i + 1) - x.get i)) * (1 / (x.get (i + 1) - x.get i))) := rfl

/-- Hermite conditions at the right end of a piece (any slopes) -/
theorem pieceVal_right (x y d : Vec K) (i : Nat) (h : x.get (i + 1) - x.get i ≠ 0) :
    pieceVal x y d i (x.get (i + 1) - x.get i) = y.get (i + 1) := by
  unfold pieceVal
  rw [coef_eq]
  field_simp
  ring

theorem pieceDer_right (x y d : Vec K) (i : Nat) (h : x.get (i + 1) - x.get i ≠ 0) :
    pieceDer x y d i (x.get (i + 1) - x.get i) = d.get (i + 1) := by
  unfold pieceDer
  rw [coef_eq]
  field_simp
  ring

theorem pieceVal_left (x y d : Vec K) (i : Nat) : pieceVal x y d i 0 = y.get i := by
  simp [pieceVal]

theorem pieceDer_left (x y d : Vec K) (i : Nat) : pieceDer x y d i 0 = d.get i := by
  simp [pieceDer]

/-- `pieceDer` is the formal derivative of `pieceVal` (Taylor expansion with explicit remainder) -/
theorem pieceVal_taylor (x y d : Vec K) (i : Nat) (t e : K) :
    pieceVal x y d i (t + e) = pieceVal x y d i t + e * pieceDer x y d i t +
      e * e * ((coef x y d i).1 + (3 * t + e) * (coef x y d i).2) := by
  unfold pieceVal pieceDer
  ring

/-- `pieceD2` is the formal derivative of `pieceDer` -/
theorem pieceDer_taylor (x y d : Vec K) (i : Nat) (t e : K) :
    pieceDer x y d i (t + e) = pieceDer x y d i t + e * pieceD2 x y d i t +
      e * e * (3 * (coef x y d i).2) := by
  unfold pieceDer pieceD2
  ring

end TfelVerif.C11
