/- line-protocol driver of the C11 model on `Float` (= C double).
   Every floating-point datum travels as the 16 hex digits of its IEEE-754 bit pattern.
   The driver is stateful: a `tab`/`tabd` line installs the current table, the following lines
   query it.
     tab n x(n) y(n)        -> ok d(n) | fail:size | fail:unordered | fail:pivot
                               (CubicSpline::setCollocationPoints, slopes of getCollocationPoints)
     tabd n x(n) y(n) d(n)  -> ok       (collocation points with arbitrary slopes, no construction)
     lin e a                -> v         computeLinearInterpolation<e>
     lind e a               -> v dv      computeLinearInterpolationAndDerivative<e>
     spl e a                -> v         computeCubicSplineInterpolation<e>
     spld e a               -> v dv      computeCubicSplineInterpolationAndDerivative<e>
     gv a                   -> v v       CubicSpline::getValue, operator()
     gv2 a                  -> v dv      CubicSpline::getValues(f, df, x)
     gv3 a                  -> v dv d2v  CubicSpline::getValues(f, df, d2f, x)
     int a b                -> I         CubicSpline::computeIntegral
     mean a b               -> m         CubicSpline::computeMeanValue
   (e = 0|1; spline queries answer `nospline` when the last table has no slopes)
   Variants `op:variant` (tab:it, tab:dq, lin:i, lin:f, spl:agg, ...) are other ways of calling the same C++
   entry points (iterator overload, query point of type int / float converted exactly, points built by
   aggregate initialisation): the model answers them as the plain op.
     tabm nx ny x(nx) y(ny) -> fail:size | fail:ordinate | fail:inputs
                               (the three size tests of setCollocationPoints(const AContainer&, const OContainer&))
     uninit                 -> uninit x 6  (every accessor of a CubicSpline without collocation points raises
                               CubicSplineUninitialised: getValue, operator(), getValues x 2, computeIntegral,
                               computeMeanValue) -/
import TfelVerif.C11.Model
open TfelVerif.C11

def hexVal (c : Char) : Option UInt64 :=
  if '0' ≤ c ∧ c ≤ '9' then some (c.toNat - '0'.toNat).toUInt64
  else if 'a' ≤ c ∧ c ≤ 'f' then some (c.toNat - 'a'.toNat + 10).toUInt64
  else none

def parseHex (s : String) : Option Float :=
  if s.length ≠ 16 then none
  else (s.foldl (fun acc c => match acc, hexVal c with
      | some a, some v => some (a * 16 + v)
      | _, _ => none) (some (0 : UInt64))).map Float.ofBits

def hexDigit (v : UInt64) : Char :=
  let n := v.toNat
  if n < 10 then Char.ofNat (n + '0'.toNat) else Char.ofNat (n - 10 + 'a'.toNat)

def showHex (x : Float) : String :=
  if x.isNaN then "nan"
  else
    let b := x.toBits
    String.ofList ((List.range 16).map fun i => hexDigit ((b >>> (4 * (15 - i)).toUInt64) &&& 15))

def parseAll (l : List String) : Option (Array Float) :=
  l.foldl (fun acc s => match acc, parseHex s with
    | some a, some v => some (a.push v)
    | _, _ => none) (some #[])

def vecOf (arr : Array Float) (off n : Nat) : Vec Float :=
  (Vec.mk (fun a => if a < n then arr[off + a]! else 0) ()).tab n

def showVec (n : Nat) (v : Vec Float) : String :=
  " ".intercalate ((List.range n).map fun i => showHex (v.get i))

/-- `100 * std::numeric_limits<double>::min()` -/
def prec : Float := 100 * Float.ofBits 0x0010000000000000

structure State where
  n : Nat := 0
  x : Vec Float := { get := fun _ => 0 }
  y : Vec Float := { get := fun _ => 0 }
  d : Option (Vec Float) := none

def flag (s : String) : Option Bool :=
  if s = "1" then some true else if s = "0" then some false else none

/-- `setCollocationPoints(const AContainer& x, const OContainer& y)` : the tests made before the iterator
overload is called (`none` : the sizes are accepted) -/
def sizeCheck (nx ny : Nat) : Option String :=
  if nx < 1 then some "fail:size"
  else if ny < 1 then some "fail:ordinate"
  else if nx ≠ ny then some "fail:inputs"
  else none

/-- `op:variant` ↦ `op` -/
def baseOp (s : String) : String :=
  match s.splitOn ":" with
  | b :: _ => b
  | [] => s

def answer (st : State) (line : String) : State × String :=
  let toks := line.trimAscii.toString.splitOn " "
  let toks := match toks with
    | o :: r => baseOp o :: r
    | [] => []
  match toks with
  | ["uninit"] => (st, "uninit uninit uninit uninit uninit uninit")
  | "tabm" :: nxs :: nys :: rest =>
    match nxs.toNat?, nys.toNat?, parseAll rest with
    | some nx, some ny, some v =>
      if v.size ≠ nx + ny then (st, "bad-op") else
      match sizeCheck nx ny with
      | some r => ({}, r)
      | none => (st, "bad-op")
    | _, _, _ => (st, "bad-op")
  | "tab" :: ns :: rest =>
    match ns.toNat?, parseAll rest with
    | some n, some v =>
      if v.size ≠ 2 * n then (st, "bad-op") else
      let x := vecOf v 0 n
      let y := vecOf v n n
      match build prec x y n with
      | Build.badSize => ({ n := n, x := x, y := y, d := none }, "fail:size")
      | Build.unordered => ({ n := n, x := x, y := y, d := none }, "fail:unordered")
      | Build.nullPivot => ({ n := n, x := x, y := y, d := none }, "fail:pivot")
      | Build.ok d => ({ n := n, x := x, y := y, d := some d }, s!"ok {showVec n d}")
    | _, _ => (st, "bad-op")
  | "tabd" :: ns :: rest =>
    match ns.toNat?, parseAll rest with
    | some n, some v =>
      if v.size ≠ 3 * n ∨ n = 0 then (st, "bad-op") else
      ({ n := n, x := vecOf v 0 n, y := vecOf v n n, d := some (vecOf v (2 * n) n) }, "ok")
    | _, _ => (st, "bad-op")
  | [op, es, as] =>
    match parseHex es, parseHex as with
    | some a, some b =>
      if op = "int" ∨ op = "mean" then
        match st.d with
        | none => (st, "nospline")
        | some d =>
          if op = "int" then (st, showHex (integral st.x st.y d st.n a b))
          else (st, showHex (meanValue st.x st.y d st.n a b))
      else (st, "bad-op")
    | _, some a =>
      match flag es with
      | none => (st, "bad-op")
      | some e =>
        if st.n = 0 then (st, "bad-op")
        else if op = "lin" then (st, showHex (linear e st.x st.y st.n a).1)
        else if op = "lind" then
          let r := linear e st.x st.y st.n a
          (st, s!"{showHex r.1} {showHex r.2}")
        else
          match st.d with
          | none => (st, "nospline")
          | some d =>
            if op = "spl" then (st, showHex (splineEval e st.x st.y d st.n a).1)
            else if op = "spld" then
              let r := splineEval e st.x st.y d st.n a
              (st, s!"{showHex r.1} {showHex r.2}")
            else (st, "bad-op")
    | _, _ => (st, "bad-op")
  | [op, as] =>
    match parseHex as, st.d with
    | some a, some d =>
      if op = "gv" then
        let r := (splineEval true st.x st.y d st.n a).1
        (st, s!"{showHex r} {showHex r}")
      else if op = "gv2" then
        let r := splineEval true st.x st.y d st.n a
        (st, s!"{showHex r.1} {showHex r.2}")
      else if op = "gv3" then
        let r := splineEval3 st.x st.y d st.n a
        (st, s!"{showHex r.1} {showHex r.2.1} {showHex r.2.2}")
      else (st, "bad-op")
    | some _, none => (st, "nospline")
    | _, _ => (st, "bad-op")
  | _ => (st, "bad-op")

partial def loop (h : IO.FS.Stream) (st : State) : IO Unit := do
  let line ← h.getLine
  if line.isEmpty then return ()
  let (st', a) := answer st line
  IO.println a
  loop h st'

def main : IO Unit := do loop (← IO.getStdin) {}
