import TfelVerif.C11.Lemmas
namespace TfelVerif.C11
variable {K : Type} [Field K] [LinearOrder K] [IsStrictOrderedRing K]
theorem stub_partial (a : K) : a = a := rfl
end TfelVerif.C11
