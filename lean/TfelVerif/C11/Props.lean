/-
  C11 — Linear and cubic-spline interpolation reproduce and extend data.

  Property theorems about the executable model `TfelVerif.C11.Model` (the transliteration of
  include/TFEL/Math/LinearInterpolation.ixx and include/TFEL/Math/CubicSpline.ixx that
  checks/C11.py compares bit for bit with the real templates on `double`), over an arbitrary
  linearly ordered field `K`, for tables of ANY size `n` (inductions on the loops; no enumeration).

  Vocabulary (Lemmas.lean):
    `StrictInc x n`        the first `n` abscissae are strictly increasing;
    `Mono x n`             … non-decreasing (enough for the search and the integral laws);
    `slope x y i`          `(y (i+1) - y i) / (x (i+1) - x i)`;
    `pieceVal/pieceDer/pieceD2 x y d i t`   the cubic of the interval `i` and the first and second
                           derivatives *as written in the code*, at the offset `t` from `x i`;
    `TriSystem c b r n s`  `s` solves the symmetric tridiagonal system (diagonal `b`, off-diagonals `c`);
    `NaturalC2 x y d n`    zero second derivative at both ends, continuous second derivative at
                           every interior node;
    `prim x y d n t`       the primitive of the linearly extrapolated spline vanishing at `x 0`
                           (`extPrim`, `localPrim`, `nodeSum` are its pieces).
  "Derivative" is the formal one: `f (t+e) = f t + e * f' t + e*e * r` with an explicit
  polynomial remainder `r` (exact Taylor expansion), piece by piece.

  NOT proved here (stated for the record):
    * the analytic reading over ℝ (missing; would need Mathlib's interval integral and the
      fundamental theorem of calculus on each cell):
        theorem integral_is_interval_integral {x : Vec ℝ} {n : Nat} (hx : StrictInc x n) (y d : Vec ℝ) (a b : ℝ) :
            integral x y d n a b = ∫ t in a..b, (splineEval true x y d n t).1
      the theorems below give its algebraic content (a primitive which is piecewise polynomial,
      continuous at the nodes, vanishing at `x 0`, with formal derivative the interpolant);
    * uniqueness of the natural spline (the pivots are proved positive, hence the system has a
      unique solution, but this is not stated);
    * anything about rounding: `Float` only appears in the bit-exact correspondence.
-/
import TfelVerif.C11.Lemmas

set_option linter.unusedSectionVars false
set_option linter.unusedVariables false

namespace TfelVerif.C11

variable {K : Type} [Field K] [LinearOrder K] [IsStrictOrderedRing K]

/-! ## Linear interpolation -/

/-- `findIndex` : for `x 0 < a < x (n-1)` the loop returns the unique `i` with `x i < a ≤ x (i+1)`. -/
theorem findIndex_characterisation {x : Vec K} {n : Nat} (hx : StrictInc x n) {a : K}
    (h0 : x.get 0 < a) (h1 : a < x.get (n - 1)) :
    findIndex x n a + 1 < n ∧ x.get (findIndex x n a) < a ∧ a ≤ x.get (findIndex x n a + 1) ∧
      ∀ i, i + 1 < n → x.get i < a → a ≤ x.get (i + 1) → findIndex x n a = i := by
  obtain ⟨r1, r2, r3⟩ := findIndex_interior hx h0 h1
  exact ⟨r1, r2, r3, fun i hi ha0 ha1 => findIndex_unique hx h0 h1 hi ha0 ha1⟩

/-- the loop of `findIndex` in general (no ordering assumed) : it stops at the first `i` with
`a ≤ x (i+1)`, or at the last index. -/
theorem findIndex_loop (x : Vec K) {n : Nat} (hn : 1 ≤ n) (a : K) :
    findIndex x n a < n ∧ (∀ j, j < findIndex x n a → x.get (j + 1) < a) ∧
      (findIndex x n a + 1 = n ∨ a ≤ x.get (findIndex x n a + 1)) := by
  obtain ⟨-, r2, r3, r4⟩ := findIndexFrom_spec x n a n 0 (by omega) (by omega) (by intro j hj; omega)
  exact ⟨r2, r3, r4⟩

/-- affine on each closed interval `[x i, x (i+1)]`, extrapolating or not.  Two consecutive
intervals share the node `x (i+1)`, where both formulas apply: the interpolant is continuous. -/
theorem linear_affine_on_each_interval {x y : Vec K} {n : Nat} (hx : StrictInc x n) (e : Bool)
    {i : Nat} (hi : i + 1 < n) {a : K} (ha0 : x.get i ≤ a) (ha1 : a ≤ x.get (i + 1)) :
    (linear e x y n a).1 = y.get i + slope x y i * (a - x.get i) :=
  linear_on_interval hx e hi ha0 ha1

/-- the value returned at a node is the tabulated value -/
theorem linear_reproduces_nodes {x y : Vec K} {n : Nat} (hx : StrictInc x n) (e : Bool) {i : Nat}
    (hi : i < n) : (linear e x y n (x.get i)).1 = y.get i := by
  by_cases hn : n = 1
  · subst hn
    have : i = 0 := by omega
    subst this
    rw [linear_one]
  · by_cases h : i + 1 < n
    · rw [linear_on_interval hx e h (le_refl _) (le_of_lt (hx i h))]
      simp
    · obtain ⟨j, rfl⟩ : ∃ j, i = j + 1 := ⟨i - 1, by omega⟩
      rw [linear_on_interval hx e hi (le_of_lt (hx j hi)) (le_refl _)]
      exact slope_step hx hi

/-- strictly inside the table the returned derivative is the slope of the piece containing `a`
(the piece on the left when `a` is a node) -/
theorem linear_derivative_is_slope {x y : Vec K} {n : Nat} (hx : StrictInc x n) (e : Bool) {a : K}
    (h0 : x.get 0 < a) (h1 : a < x.get (n - 1)) {i : Nat} (hi : i + 1 < n)
    (ha0 : x.get i < a) (ha1 : a ≤ x.get (i + 1)) :
    linear e x y n a = (y.get i + slope x y i * (a - x.get i), slope x y i) := by
  have hn : n ≠ 1 := by omega
  rw [linear_mid e x y hn h0 h1, findIndex_unique hx h0 h1 hi ha0 ha1, linPiece_eq]

/-- left of the table (first node included) : affine continuation of the first piece when
extrapolating, with its slope as derivative; otherwise the first value and a null derivative -/
theorem linear_left_of_table {x y : Vec K} {n : Nat} (hn : 2 ≤ n) {a : K} (ha : a ≤ x.get 0) :
    linear true x y n a = (y.get 0 + slope x y 0 * (a - x.get 0), slope x y 0) ∧
      linear false x y n a = (y.get 0, 0) := by
  have h : ¬ x.get 0 < a := not_lt.mpr ha
  rw [linear_left true x y (by omega) h, linear_left false x y (by omega) h, linPiece_eq]
  simp

/-- right of the table (last node included) : affine continuation of the last piece when
extrapolating, with its slope as derivative; otherwise the last value and a null derivative -/
theorem linear_right_of_table {x y : Vec K} {n : Nat} (hx : StrictInc x n) (hn : 2 ≤ n) {a : K}
    (ha : x.get (n - 1) ≤ a) :
    linear true x y n a =
        (y.get (n - 1) + slope x y (n - 2) * (a - x.get (n - 1)), slope x y (n - 2)) ∧
      linear false x y n a = (y.get (n - 1), 0) := by
  have h0 : x.get 0 < a := lt_of_lt_of_le (hx.lt (by omega : 0 < n - 1) (by omega)) ha
  have h : ¬ a < x.get (n - 1) := not_lt.mpr ha
  rw [linear_right true x y (by omega) h0 h, linear_right false x y (by omega) h0 h, linPiece_eq]
  refine ⟨?_, by simp⟩
  have hs := slope_step (y := y) hx (by omega : n - 2 + 1 < n)
  have e1 : n - 2 + 1 = n - 1 := by omega
  rw [e1] at hs
  simp only [if_true, Prod.mk.injEq, and_true]
  rw [← hs]
  ring

/-- a single point : constant interpolant, null derivative -/
theorem linear_single_point (e : Bool) (x y : Vec K) (a : K) : linear e x y 1 a = (y.get 0, 0) :=
  linear_one e x y a

/-! ## Cubic spline : search, local cubic, extrapolation (ANY slopes `d`) -/

/-- `lower_bound` returns the index of the first node `≥ v` (`n` when there is none) -/
theorem lower_bound_characterisation {x : Vec K} {n : Nat} (hx : Mono x n) (v : K) :
    lowerBound x n v ≤ n ∧ (∀ j, j < lowerBound x n v → x.get j < v) ∧
      (∀ j, lowerBound x n v ≤ j → j < n → v ≤ x.get j) :=
  lowerBound_spec hx v

/-- the spline returns the tabulated value at every node, whatever the slopes -/
theorem spline_reproduces_nodes {x : Vec K} {n : Nat} (hx : StrictInc x n) (e : Bool) (y d : Vec K)
    {i : Nat} (hi : i < n) : (splineEval e x y d n (x.get i)).1 = y.get i :=
  splineEval_node hx e y d hi

/-- for `x i < t ≤ x (i+1)` the three entry points evaluate the cubic piece `i` and its first and
second derivatives -/
theorem spline_piecewise_cubic {x : Vec K} {n : Nat} (hx : StrictInc x n) (e : Bool) (y d : Vec K)
    {i : Nat} (hi : i + 1 < n) {t : K} (h0 : x.get i < t) (h1 : t ≤ x.get (i + 1)) :
    splineEval e x y d n t = (pieceVal x y d i (t - x.get i), pieceDer x y d i (t - x.get i)) ∧
      splineEval3 x y d n t =
        (pieceVal x y d i (t - x.get i), pieceDer x y d i (t - x.get i), pieceD2 x y d i (t - x.get i)) :=
  ⟨splineEval_piece hx e y d hi h0 h1, splineEval3_piece hx y d hi h0 h1⟩

/-- Hermite form : each cubic piece takes the tabulated values and the slopes `d` at both ends,
for ANY slopes — so consecutive pieces meet with the same value and the same first derivative
(C¹ at every interior node) -/
theorem spline_hermite_C1 {x : Vec K} {n : Nat} (hx : StrictInc x n) (y d : Vec K) {i : Nat}
    (hi : i + 1 < n) :
    pieceVal x y d i 0 = y.get i ∧ pieceDer x y d i 0 = d.get i ∧
      pieceVal x y d i (x.get (i + 1) - x.get i) = y.get (i + 1) ∧
      pieceDer x y d i (x.get (i + 1) - x.get i) = d.get (i + 1) :=
  ⟨pieceVal_left x y d i, pieceDer_left x y d i, piece_join_val hx y d hi, piece_join_der hx y d hi⟩

/-- the same, on the functions returned by the code : on the CLOSED interval `[x i, x (i+1)]`
the value (extrapolating or not) and, when extrapolating, the derivative are those of the
piece `i`; at a shared node both neighbouring pieces apply, hence continuity of both -/
theorem spline_C1_on_closed_intervals {x : Vec K} {n : Nat} (hx : StrictInc x n) (e : Bool)
    (y d : Vec K) {i : Nat} (hi : i + 1 < n) {t : K} (h0 : x.get i ≤ t) (h1 : t ≤ x.get (i + 1)) :
    (splineEval e x y d n t).1 = pieceVal x y d i (t - x.get i) ∧
      (splineEval true x y d n t).2 = pieceDer x y d i (t - x.get i) :=
  ⟨splineEval_on_interval hx e y d hi h0 h1, splineEval_der_on_interval hx y d hi h0 h1⟩

/-- the returned first (second) derivative is the formal derivative of the returned value (first
derivative) : exact Taylor expansions of the cubic piece -/
theorem spline_derivatives_are_derivatives (x y d : Vec K) (i : Nat) (t e : K) :
    pieceVal x y d i (t + e) = pieceVal x y d i t + e * pieceDer x y d i t +
        e * e * ((coef x y d i).1 + (3 * t + e) * (coef x y d i).2) ∧
      pieceDer x y d i (t + e) = pieceDer x y d i t + e * pieceD2 x y d i t +
        e * e * (3 * (coef x y d i).2) :=
  ⟨pieceVal_taylor x y d i t e, pieceDer_taylor x y d i t e⟩

/-- outside the table : linear continuation with the end slope (C¹ with the end pieces, whose
derivative at the end node is that slope) when extrapolating, clamping with a null derivative
otherwise -/
theorem spline_outside_table {x : Vec K} {n : Nat} (hx : StrictInc x n) (hn : 2 ≤ n) (y d : Vec K)
    {t : K} :
    (t ≤ x.get 0 →
      splineEval true x y d n t = (y.get 0 + (t - x.get 0) * d.get 0, d.get 0) ∧
      splineEval false x y d n t = (y.get 0, 0)) ∧
    (x.get (n - 1) < t →
      splineEval true x y d n t = (y.get (n - 1) + (t - x.get (n - 1)) * d.get (n - 1), d.get (n - 1)) ∧
      splineEval false x y d n t = (y.get (n - 1), 0)) := by
  constructor
  · intro ht
    rw [splineEval_left hx hn true y d ht, splineEval_left hx hn false y d ht]
    simp
  · intro ht
    rw [splineEval_right hx hn true y d ht, splineEval_right hx hn false y d ht]
    simp

/-- a single point : constant interpolant, null derivative -/
theorem spline_single_point (e : Bool) (x y d : Vec K) (t : K) :
    splineEval e x y d 1 t = (y.get 0, 0) :=
  splineEval_one e x y d t

/-! ## Cubic spline : construction of the slopes -/

/-- Thomas algorithm (`solveTridiagonalLinearSystem`) : whenever no pivot test fires, the two
sweeps return an exact solution of the tridiagonal system -/
theorem thomas_solves_system {prec : K} (hprec : 0 < prec) (c b r : Vec K) {n : Nat} (hn : 2 ≤ n)
    {s : Vec K} (h : thomas prec c b r n = some s) : TriSystem c b r n s :=
  thomas_solves hprec c b r hn h

/-- loop invariant of `buildInterpolation` (induction on the iterations, `ho`/`uo` carried) : the
loop fills the upper diagonal, the main diagonal and the right-hand side with `upperDiag`,
`mainDiag`, `rhsVec` (closed forms in Lemmas.lean) -/
theorem buildInterpolation_assembles (x y : Vec K) {s : Nat} (hs : 1 ≤ s) :
    (assemble x y s).mu = upperDiag x s ∧ (assemble x y s).md = mainDiag x s ∧
      (assemble x y s).d = rhsVec x y s :=
  assemble_eq x y hs

/-- the system assembled by `buildInterpolation` is, row by row, "zero second derivative at the
first node / continuous second derivative at each interior node / zero second derivative at the
last node" -/
theorem system_is_natural_C2 {x y : Vec K} {n : Nat} (hx : StrictInc x n) (hn : 2 ≤ n) (d : Vec K) :
    TriSystem (upperDiag x (n - 1)) (mainDiag x (n - 1)) (rhsVec x y (n - 1)) n d ↔ NaturalC2 x y d n :=
  natural_iff_system hx hn d

/-- `setCollocationPoints` : when it succeeds the table is strictly increasing and the slopes it
stores make the spline C² with natural end conditions (one point: null slope) -/
theorem build_gives_natural_spline {prec : K} (hprec : 0 < prec) {x y : Vec K} {n : Nat} {d : Vec K}
    (h : build prec x y n = Build.ok d) :
    n ≠ 0 ∧ StrictInc x n ∧ (n = 1 → ∀ i, d.get i = 0) ∧ (2 ≤ n → NaturalC2 x y d n) :=
  build_ok hprec h

/-- `setCollocationPoints` succeeds on every strictly increasing table : all the pivots are at
least `3/2` of an inverse interval length, so no test fires as long as the threshold `prec`
(`100 * DBL_MIN` in the code) does not exceed the inverse interval lengths -/
theorem build_succeeds {prec : K} {x y : Vec K} {n : Nat} (hx : StrictInc x n) (hn : 1 ≤ n)
    (hprec : ∀ i, i + 1 < n → prec ≤ hInv x i) : ∃ d, build prec x y n = Build.ok d :=
  build_total hx hn hprec

/-- tables that are empty or not strictly increasing are rejected -/
theorem build_rejects_bad_tables (prec : K) (x y : Vec K) {n : Nat}
    (h : n = 0 ∨ ¬ StrictInc x n) : ∀ d, build prec x y n ≠ Build.ok d := by
  intro d hd
  unfold build at hd
  rcases h with h | h
  · rw [if_pos h] at hd; cases hd
  · by_cases h0 : n = 0
    · rw [if_pos h0] at hd; cases hd
    · rw [if_neg h0] at hd
      have : ordered x (n - 1) = false := by
        by_contra hc
        have := (ordered_iff x (n - 1)).mp (by simpa using hc)
        rw [Nat.sub_add_cancel (Nat.pos_of_ne_zero h0)] at this
        exact h this
      rw [this] at hd
      simp at hd

/-! ## Cubic spline : integral and mean value (ANY slopes `d`) -/

/-- `computeIntegral a b` is `prim b - prim a`, whatever the order of the bounds -/
theorem integral_is_primitive_difference {x : Vec K} {n : Nat} (hx : Mono x n) (y d : Vec K) (a b : K) :
    integral x y d n a b = prim x y d n b - prim x y d n a :=
  integral_eq_prim hx y d a b

/-- `I(a,a) = 0` -/
theorem integral_self {x : Vec K} {n : Nat} (hx : Mono x n) (y d : Vec K) (a : K) :
    integral x y d n a a = 0 := by
  rw [integral_eq_prim hx]; ring

/-- `I(b,a) = -I(a,b)` -/
theorem integral_antisymmetric {x : Vec K} {n : Nat} (hx : Mono x n) (y d : Vec K) (a b : K) :
    integral x y d n b a = -(integral x y d n a b) := by
  rw [integral_eq_prim hx, integral_eq_prim hx]; ring

/-- `I(a,b) + I(b,c) = I(a,c)` for all `a b c`, in any order, inside or outside the table -/
theorem integral_additive {x : Vec K} {n : Nat} (hx : Mono x n) (y d : Vec K) (a b c : K) :
    integral x y d n a b + integral x y d n b c = integral x y d n a c := by
  rw [integral_eq_prim hx, integral_eq_prim hx, integral_eq_prim hx]; ring

/-- the primitive, cell by cell (closed cells : at a shared node both formulas apply, so it is
continuous), vanishing at `x 0` -/
theorem primitive_cells {x : Vec K} {n : Nat} (hx : StrictInc x n) (hn : 2 ≤ n) (y d : Vec K) (t : K) :
    (t ≤ x.get 0 → prim x y d n t = extPrim (y.get 0) (d.get 0) (t - x.get 0)) ∧
    (∀ i, i + 1 < n → x.get i ≤ t → t ≤ x.get (i + 1) →
      prim x y d n t = nodeSum x y d i + localPrim x y d i (t - x.get i)) ∧
    (x.get (n - 1) ≤ t →
      prim x y d n t =
        nodeSum x y d (n - 1) + extPrim (y.get (n - 1)) (d.get (n - 1)) (t - x.get (n - 1))) ∧
    prim x y d n (x.get 0) = 0 :=
  ⟨fun h => prim_left hx hn y d h, fun i hi h0 h1 => prim_piece hx y d hi h0 h1,
   fun h => prim_right hx hn y d h, by rw [prim_node hx hn y d (by omega)]; rfl⟩

/-- derivative of `computeIntegral` with respect to its upper bound : when `t` and `t + e` lie in
the same closed cell (left of the table, an interval `[x i, x (i+1)]`, right of the table),
`I(a, t+e) = I(a, t) + e * spline(t) + e² * r` where `spline` is the (extrapolated) interpolant
returned by `getValue` and `r` an explicit polynomial : the integrand is the interpolant,
extrapolated parts included -/
theorem integral_derivative_is_interpolant {x : Vec K} {n : Nat} (hx : StrictInc x n) (hn : 2 ≤ n)
    (y d : Vec K) (a t e : K) :
    (t ≤ x.get 0 → t + e ≤ x.get 0 →
      integral x y d n a (t + e) = integral x y d n a t + e * (splineEval true x y d n t).1 +
        e * e * (half * d.get 0)) ∧
    (∀ i, i + 1 < n → x.get i ≤ t → t ≤ x.get (i + 1) → x.get i ≤ t + e → t + e ≤ x.get (i + 1) →
      integral x y d n a (t + e) = integral x y d n a t + e * (splineEval true x y d n t).1 +
        e * e * ((6 * d.get i + 12 * (coef x y d i).1 * (t - x.get i) +
          18 * (coef x y d i).2 * ((t - x.get i) * (t - x.get i)) +
          (4 * (coef x y d i).1 + 12 * (coef x y d i).2 * (t - x.get i)) * e +
          3 * (coef x y d i).2 * (e * e)) / 12)) ∧
    (x.get (n - 1) < t → x.get (n - 1) < t + e →
      integral x y d n a (t + e) = integral x y d n a t + e * (splineEval true x y d n t).1 +
        e * e * (half * d.get (n - 1))) := by
  have hm := hx.mono
  refine ⟨?_, ?_, ?_⟩
  · intro h1 h2
    rw [integral_eq_prim hm, integral_eq_prim hm, prim_left hx hn y d h1, prim_left hx hn y d h2,
      splineEval_left hx hn true y d h1, show t + e - x.get 0 = (t - x.get 0) + e by ring,
      extPrim_taylor]
    simp only [if_true]
    ring
  · intro i hi h1 h2 h3 h4
    rw [integral_eq_prim hm, integral_eq_prim hm, prim_piece hx y d hi h1 h2,
      prim_piece hx y d hi h3 h4, splineEval_on_interval hx true y d hi h1 h2,
      show t + e - x.get i = (t - x.get i) + e by ring, localPrim_taylor]
    ring
  · intro h1 h2
    rw [integral_eq_prim hm, integral_eq_prim hm, prim_right hx hn y d (le_of_lt h1),
      prim_right hx hn y d (le_of_lt h2), splineEval_right hx hn true y d h1,
      show t + e - x.get (n - 1) = (t - x.get (n - 1)) + e by ring, extPrim_taylor]
    simp only [if_true]
    ring

/-- one point : the integral of the constant `y 0` -/
theorem integral_single_point (x y d : Vec K) (a b : K) :
    integral x y d 1 a b = y.get 0 * (b - a) := by
  simp [integral]

/-- `computeMeanValue a b = computeIntegral a b / (b - a)` -/
theorem meanValue_is_integral_over_length (x y d : Vec K) (n : Nat) (a b : K) :
    meanValue x y d n a b = integral x y d n a b / (b - a) := rfl

/-! ## Non-vacuity : the hypotheses are satisfiable -/

/-- the table `x i = i` is strictly increasing (any size) … -/
example (n : Nat) : StrictInc (Vec.mk (fun i => (i : K)) ()) n := by
  intro i _
  show (i : K) < ((i + 1 : Nat) : K)
  exact_mod_cast Nat.lt_succ_self i

/-- … its inverse interval lengths are 1, so `setCollocationPoints` succeeds for any threshold
`0 < prec ≤ 1` and `build_gives_natural_spline` applies to its result -/
example (y : Vec K) (n : Nat) (hn : 1 ≤ n) :
    ∃ d, build (1 / 2 : K) (Vec.mk (fun i => (i : K)) ()) y n = Build.ok d := by
  apply build_succeeds _ hn
  · intro i _
    have : hInv (Vec.mk (fun i => (i : K)) ()) i = 1 := by
      simp [hInv]
    rw [this]
    norm_num
  · intro i _
    show (i : K) < ((i + 1 : Nat) : K)
    exact_mod_cast Nat.lt_succ_self i

end TfelVerif.C11
