/-
  C21 — specification vocabulary and helper lemmas (no property theorem here).

  Fourth order tensors are handled as the row-major list of the entries of their `n×n` matrix in
  TFEL's (Mandel) storage, exactly what the tracer outputs (`<unit>_all`): `n = 6` in 3D
  (components 11,22,33,12,13,23), `n = 4` in 2D (11,22,33,12), `n = 3` in 1D (11,22,33).
-/
import Mathlib.Tactic.Ring
import Mathlib.Tactic.FieldSimp
import Mathlib.Tactic.Linarith
import Mathlib.Tactic.Positivity
import Mathlib.Algebra.Order.Field.Basic
import TfelVerif.Common.M3

set_option linter.unusedSectionVars false
namespace TfelVerif.C21
variable {K : Type} [Field K]

/-- entry `(i,j)` of a row-major `n×n` list -/
def ent (n : Nat) (l : List K) (i j : Nat) : K := l.getD (n * i + j) 0

/-- the sub-matrix of an `n×n` list on the index list `idx` (rows and columns), row-major:
`sub n idx l (a,b) = l (idx a, idx b)` -/
def sub (n : Nat) (idx : List Nat) (l : List K) : List K :=
  idx.flatMap fun i => idx.map fun j => ent n l i j

/-- transposed `n×n` list (`idx = [0,…,n-1]`) -/
def transp (n : Nat) (idx : List Nat) (l : List K) : List K :=
  idx.flatMap fun i => idx.map fun j => ent n l j i

/-- 3D → 2D: components 11,22,33,12 -/
def block4 (l : List K) : List K := sub 6 [0, 1, 2, 3] l
/-- 3D → 1D: components 11,22,33 -/
def block3 (l : List K) : List K := sub 6 [0, 1, 2] l
/-- 3D → 2D with the second and third material axes exchanged (`PIPE` convention in the plane
hypotheses): the 2D components (11, 22, 33, 12) are the 3D components (11, 33, 22, 13) -/
def pipe4 (l : List K) : List K := sub 6 [0, 2, 1, 4] l

/-- Schur complement entry with respect to the component of index `k`: the stiffness seen by the other
components when the stress component `k` vanishes (static condensation of the strain component `k`) -/
def sc (n : Nat) (l : List K) (k i j : Nat) : K := ent n l i j - ent n l i k * ent n l k j / ent n l k k

/-- plane stress condensation of a 2D tensor (components 11,22,33,12): the stress-free direction is the
third one (`zz`, index 2; docs/web/HookeStressPotential.md: `feel(2) += detozz`); rows and columns 2 zeroed -/
def condense4 (l : List K) : List K :=
  [sc 4 l 2 0 0, sc 4 l 2 0 1, 0, sc 4 l 2 0 3,
   sc 4 l 2 1 0, sc 4 l 2 1 1, 0, sc 4 l 2 1 3,
   0, 0, 0, 0,
   sc 4 l 2 3 0, sc 4 l 2 3 1, 0, sc 4 l 2 3 3]
/-- axisymmetrical generalised plane stress condensation of a 1D tensor (components `rr, zz, tt`): the
axial direction is the second one (index 1; docs/web/HookeStressPotential.md: `feel(1) += detozz`);
row and column 1 zeroed -/
def condense3 (l : List K) : List K :=
  [sc 3 l 1 0 0, 0, sc 3 l 1 0 2,
   0, 0, 0,
   sc 3 l 1 2 0, 0, sc 3 l 1 2 2]

/-- matrix–vector product of a 6×6 list with a 6-list (storage of a symmetric tensor) -/
def apply6 (l e : List K) : List K :=
  [0, 1, 2, 3, 4, 5].map fun i => ([0, 1, 2, 3, 4, 5].map fun j => ent 6 l i j * e.getD j 0).sum
/-- quadratic form `e · (l e)`; in Mandel storage this is `ε : C : ε` -/
def quad6 (l e : List K) : K :=
  ([0, 1, 2, 3, 4, 5].map fun i => e.getD i 0 * (apply6 l e).getD i 0).sum
/-- feed the two outputs of a conversion to the next one -/
def app2 (f : K → K → List K) (l : List K) : List K := f (l.getD 0 0) (l.getD 1 0)
/-- feed the 36 entries of a 6×6 list to a traced unit taking a 3D fourth order tensor -/
def app36 (f : K → K → K → K → K → K → K → K → K → K → K → K → K → K → K → K → K → K → K → K → K → K → K → K → K → K → K → K → K → K → K → K → K → K → K → K → List K) (l : List K) : List K :=
  f (l.getD 0 0) (l.getD 1 0) (l.getD 2 0) (l.getD 3 0) (l.getD 4 0) (l.getD 5 0) (l.getD 6 0) (l.getD 7 0) (l.getD 8 0) (l.getD 9 0) (l.getD 10 0) (l.getD 11 0) (l.getD 12 0) (l.getD 13 0) (l.getD 14 0) (l.getD 15 0) (l.getD 16 0) (l.getD 17 0) (l.getD 18 0) (l.getD 19 0) (l.getD 20 0) (l.getD 21 0) (l.getD 22 0) (l.getD 23 0) (l.getD 24 0) (l.getD 25 0) (l.getD 26 0) (l.getD 27 0) (l.getD 28 0) (l.getD 29 0) (l.getD 30 0) (l.getD 31 0) (l.getD 32 0) (l.getD 33 0) (l.getD 34 0) (l.getD 35 0)
/-- feed the 16 entries of a 4×4 list (and the garbage) to a traced unit taking a 2D fourth order tensor -/
def app16g (f : K → K → K → K → K → K → K → K → K → K → K → K → K → K → K → K → K → List K) (l : List K) (g : K) : List K :=
  f (l.getD 0 0) (l.getD 1 0) (l.getD 2 0) (l.getD 3 0) (l.getD 4 0) (l.getD 5 0) (l.getD 6 0) (l.getD 7 0) (l.getD 8 0) (l.getD 9 0) (l.getD 10 0) (l.getD 11 0) (l.getD 12 0) (l.getD 13 0) (l.getD 14 0) (l.getD 15 0) g
/-- the 3×3 matrix whose rows are listed in a row-major 9-list -/
def m3OfRows (l : List K) : M3 K :=
  ⟨l.getD 0 0, l.getD 1 0, l.getD 2 0, l.getD 3 0, l.getD 4 0, l.getD 5 0, l.getD 6 0, l.getD 7 0, l.getD 8 0⟩
/-- `a • A + b • B` entry by entry -/
def lin (a : K) (A : List K) (b : K) (B : List K) : List K := List.zipWith (fun x y => a * x + b * y) A B

/-- `λ I⊗I + 2μ Id` in Mandel storage -/
def isoStiff (lam mu : K) : List K :=
  [lam + 2 * mu, lam, lam, 0, 0, 0,
   lam, lam + 2 * mu, lam, 0, 0, 0,
   lam, lam, lam + 2 * mu, 0, 0, 0,
   0, 0, 0, 2 * mu, 0, 0,
   0, 0, 0, 0, 2 * mu, 0,
   0, 0, 0, 0, 0, 2 * mu]

/-- determinant of the normal block of the orthotropic compliance
`S = [[1/E1, -n12/E1, -n13/E1], [-n12/E1, 1/E2, -n23/E2], [-n13/E1, -n23/E2, 1/E3]]` -/
def detS (E1 E2 E3 n12 n23 n13 : K) : K :=
  (1 / E1) * (1 / E2) * (1 / E3) + 2 * (-n23 / E2) * (-n13 / E1) * (-n12 / E1)
    - (1 / E1) * (-n23 / E2) * (-n23 / E2) - (1 / E2) * (-n13 / E1) * (-n13 / E1)
    - (1 / E3) * (-n12 / E1) * (-n12 / E1)

/-- unfold the list vocabulary down to field expressions on explicit lists -/
macro "c21_unfold" : tactic =>
  `(tactic| simp only [gen_simp, block4, block3, pipe4, sub, transp, ent, sc, condense4, condense3, apply6, quad6, app2, app36, app16g, m3OfRows, M3.mul_def, M3.mul, M3.mk.injEq,
      lin, isoStiff, M3.mandel3, M3.sym, M3.trace, M3.one_def, M3.one, M3.add_def, M3.add, M3.smul_def, M3.smul,
      List.flatMap_cons, List.flatMap_nil, List.map_cons, List.map_nil, List.cons_append, List.nil_append,
      List.append_nil, List.getD_cons_succ, List.getD_cons_zero, List.getD_nil, List.sum_cons, List.sum_nil,
      List.zipWith_cons_cons, List.zipWith_nil_left, List.zipWith_nil_right,
      Nat.reduceMul, Nat.reduceAdd, List.cons.injEq, and_true, true_and])

/-- restricting the axes-exchanged 3D tensor to the plane components is `pipe4` -/
theorem block4_swap23 (l : List K) : block4 (sub 6 [0, 2, 1, 4, 3, 5] l) = pipe4 l := by
  simp only [block4, pipe4, sub, ent, List.flatMap_cons, List.flatMap_nil, List.map_cons, List.map_nil,
    List.cons_append, List.nil_append, List.append_nil, List.getD_cons_succ, List.getD_cons_zero,
    Nat.reduceMul, Nat.reduceAdd]

/-- list equalities between traced tensors and their specification, entry by entry -/
macro "c21_eq" : tactic =>
  `(tactic| (
      (try c21_unfold)
      repeat' apply And.intro
      all_goals (first | trivial | (with_reducible rfl) | ring1 | (field_simp; done) | (field_simp; ring1))))

/-- entry-wise closing step of `c21_eq` (used after `c21_unfold` and rewriting of composite denominators
into quotients of non-vanishing atoms) -/
macro "c21_close" : tactic =>
  `(tactic| (
      repeat' apply And.intro
      all_goals (first | trivial | (with_reducible rfl) | ring1 | (field_simp; done) | (field_simp; ring1))))

section order
variable [LinearOrder K] [IsStrictOrderedRing K]

/-- admissible isotropic constants in the (E, ν) form -/
def Admissible (E nu : K) : Prop := 0 < E ∧ -1 < nu ∧ nu < 1 / 2

/-- non-vanishing denominators of admissible constants (several syntactic forms: `field_simp` looks its
side conditions up among the hypotheses after its own normalisation) -/
theorem Admissible.dens {E nu : K} (h : Admissible E nu) :
    (1 + nu) ≠ 0 ∧ (1 - 2 * nu) ≠ 0 ∧ E ≠ 0 ∧ (1 - nu * 2) ≠ 0 ∧ (1 - nu) ≠ 0 ∧ (1 - nu * nu) ≠ 0
      ∧ (1 - nu ^ 2) ≠ 0 := by
  obtain ⟨hE, h1, h2⟩ := h
  have a : 0 < 1 + nu := by linarith
  have b : 0 < 1 - 2 * nu := by linarith
  have d : 0 < 1 - nu := by linarith
  have e : 0 < 1 - nu * nu := by nlinarith
  refine ⟨a.ne', b.ne', hE.ne', ?_, d.ne', e.ne', ?_⟩
  · have : 0 < 1 - nu * 2 := by linarith
    exact this.ne'
  · have : 0 < 1 - nu ^ 2 := by nlinarith
    exact this.ne'

/-- `ε : C : ε` of `λ I⊗I + 2μ Id` as a sum of squares, and its positivity -/
theorem iso_quad_pos {kap mu e0 e1 e2 e3 e4 e5 : K} (hK : 0 < kap) (hG : 0 < mu)
    (hne : ¬ (e0 = 0 ∧ e1 = 0 ∧ e2 = 0 ∧ e3 = 0 ∧ e4 = 0 ∧ e5 = 0)) :
    0 < kap * (e0 + e1 + e2) ^ 2
        + 2 * mu * ((e0 - (e0 + e1 + e2) / 3) ^ 2 + (e1 - (e0 + e1 + e2) / 3) ^ 2
                    + (e2 - (e0 + e1 + e2) / 3) ^ 2 + e3 ^ 2 + e4 ^ 2 + e5 ^ 2) := by
  have hD : 0 ≤ 2 * mu * ((e0 - (e0 + e1 + e2) / 3) ^ 2 + (e1 - (e0 + e1 + e2) / 3) ^ 2
                    + (e2 - (e0 + e1 + e2) / 3) ^ 2 + e3 ^ 2 + e4 ^ 2 + e5 ^ 2) := by positivity
  by_cases ht : e0 + e1 + e2 = 0
  · rw [ht]
    have hsum : 0 < e0 ^ 2 + e1 ^ 2 + e2 ^ 2 + e3 ^ 2 + e4 ^ 2 + e5 ^ 2 := by
      by_contra hn
      apply hne
      have h0 := sq_nonneg e0; have h1 := sq_nonneg e1; have h2 := sq_nonneg e2
      have h3 := sq_nonneg e3; have h4 := sq_nonneg e4; have h5 := sq_nonneg e5
      refine ⟨?_, ?_, ?_, ?_, ?_, ?_⟩ <;> (apply pow_eq_zero_iff (two_ne_zero) |>.mp; linarith)
    have : 0 < 2 * mu * (e0 ^ 2 + e1 ^ 2 + e2 ^ 2 + e3 ^ 2 + e4 ^ 2 + e5 ^ 2) := by positivity
    have e : (0:K) / 3 = 0 := by simp
    rw [e]
    simp only [sub_zero]
    nlinarith [this]
  · have : 0 < kap * (e0 + e1 + e2) ^ 2 := mul_pos hK (by positivity)
    linarith

/-- the decision of `isIsotropic` when the first radicand vanishes; `sqrt` is uninterpreted -/
theorem sqrt_zero_div_lt (fn : Fns K) {x y eps : K} (hs : fn.sqrt 0 = 0) (he : 0 < eps) (hx : x = 0) :
    fn.sqrt x / y < eps := by
  rw [hx, hs, zero_div]; exact he

end order
end TfelVerif.C21
