/-
  C21 — Isotropic moduli and stiffness tensors are mutually consistent.

  Property theorems only (module PropsIso; the property is split over PropsModuli, PropsIso, PropsHyp,
  PropsLame, PropsOrtho so that they build in parallel and independently).
  `Gen.<unit>_all` is the list of the outputs of one traced unit: the real TFEL code (IsotropicModuli.hxx/.ixx, Lame.hxx, StiffnessTensor.ixx, OrthotropicAxesConvention.ixx)
  instantiated with the recording scalar by harness/C21/trace.cxx and regenerated on every run.
  Fourth order tensors are row-major `n×n` lists in TFEL's storage (n = 6, 4, 3 in 3D, 2D, 1D);
  the vocabulary (`isoStiff`, `block4`, `block3`, `pipe4`, `condense4`, `condense3`, `apply6`,
  `quad6`, `Admissible`) is in Lemmas.lean.

  Every tensor handed to the code as an output argument is pre-filled by the tracer with the input
  symbol `g` ("garbage"); the theorems hold for every `g`, i.e. no component is left unassigned.

  All theorems are over an arbitrary linearly ordered field `K` (so for ℝ and ℚ), for all values of
  the elastic constants allowed by the stated hypotheses.
-/
import TfelVerif.C21.Lemmas
import TfelVerif.C21.GenModuli
import TfelVerif.C21.GenIso

namespace TfelVerif.C21.Props
open TfelVerif TfelVerif.C21
set_option linter.unusedVariables false
set_option linter.unusedSectionVars false

variable {K : Type} [Field K] [LinearOrder K] [IsStrictOrderedRing K] (c c3 : K) (fn : Fns K)

/-! ## 2. The 3D isotropic stiffness tensor (IsotropicModuli.ixx: `computeIsotropicStiffnessTensor`,
`computeKappaMu`, `computeKGModuli`, `isIsotropic`) -/

/-- the tensor computed from each moduli class is `λ I⊗I + 2μ Id` -/
theorem stiffness_KG_spec (kap mu : K) :
    Gen.stiffness_KG_all c c3 fn kap mu = isoStiff (kap - 2 * mu / 3) mu := by c21_eq
theorem stiffness_LM_spec (lam mu : K) :
    Gen.stiffness_LM_all c c3 fn lam mu = isoStiff lam mu := by c21_eq
/-- the three entry points agree with the conversions of part 1 -/
theorem stiffness_formats_agree (E nu lam mu : K) :
    Gen.stiffness_YN_all c c3 fn E nu = app2 (Gen.stiffness_KG_all c c3 fn) (Gen.YN_ToKG_all c c3 fn E nu)
      ∧ Gen.stiffness_LM_all c c3 fn lam mu = app2 (Gen.stiffness_KG_all c c3 fn) (Gen.LM_ToKG_all c c3 fn lam mu) := by
  constructor <;> c21_eq
theorem stiffness_YN_spec (E nu : K) (h : Admissible E nu) :
    Gen.stiffness_YN_all c c3 fn E nu = isoStiff (nu * E / ((1 + nu) * (1 - 2 * nu))) (E / (2 * (1 + nu))) := by
  obtain ⟨h1, h2, h3, h4, h5, h6, h7⟩ := h.dens
  have spec : Gen.YN_ToKG_all c c3 fn E nu = [E / (3 * (1 - 2 * nu)), E / (2 * (1 + nu))] := by c21_eq
  rw [(stiffness_formats_agree c c3 fn E nu 0 0).1, spec]
  simp only [app2, List.getD_cons_succ, List.getD_cons_zero]
  rw [stiffness_KG_spec]
  congr 1
  field_simp; ring1
/-- `3K·J + 2G·K'` with the projectors `st2tost2::J()`, `st2tost2::K()` of the code, and what these do:
spherical and deviatoric parts -/
theorem stiffness_eq_3KJ_2GK (kap mu : K) :
    Gen.stiffness_KG_all c c3 fn kap mu = lin (3 * kap) (Gen.J_all c c3 fn) (2 * mu) (Gen.Kdev_all c c3 fn) := by
  c21_eq
theorem J_Kdev_action (e0 e1 e2 e3 e4 e5 : K) :
    apply6 (Gen.J_all c c3 fn) [e0, e1, e2, e3, e4, e5]
        = [(e0 + e1 + e2) / 3, (e0 + e1 + e2) / 3, (e0 + e1 + e2) / 3, 0, 0, 0]
      ∧ apply6 (Gen.Kdev_all c c3 fn) [e0, e1, e2, e3, e4, e5]
        = [e0 - (e0 + e1 + e2) / 3, e1 - (e0 + e1 + e2) / 3, e2 - (e0 + e1 + e2) / 3, e3, e4, e5] := by
  constructor <;> c21_eq
/-- Hooke's law: on the Mandel storage of any symmetric `ε`, `C : ε = λ tr(ε) 1 + 2μ ε` -/
theorem stiffness_action (lam mu a00 a11 a22 a01 a02 a12 : K) :
    apply6 (Gen.stiffness_LM_all c c3 fn lam mu) (M3.mandel3 c (M3.sym a00 a11 a22 a01 a02 a12))
      = M3.mandel3 c ((lam * (M3.sym a00 a11 a22 a01 a02 a12).trace) • (1 : M3 K)
                      + (2 * mu) • M3.sym a00 a11 a22 a01 a02 a12) := by
  c21_eq
theorem stiffness_KG_action (kap mu a00 a11 a22 a01 a02 a12 : K) :
    apply6 (Gen.stiffness_KG_all c c3 fn kap mu) (M3.mandel3 c (M3.sym a00 a11 a22 a01 a02 a12))
      = M3.mandel3 c (((kap - 2 * mu / 3) * (M3.sym a00 a11 a22 a01 a02 a12).trace) • (1 : M3 K)
                      + (2 * mu) • M3.sym a00 a11 a22 a01 a02 a12) := by
  c21_eq
/-- major symmetry of the 6×6 matrix -/
theorem stiffness_symmetric (kap mu E nu lam : K) :
    transp 6 [0, 1, 2, 3, 4, 5] (Gen.stiffness_KG_all c c3 fn kap mu) = Gen.stiffness_KG_all c c3 fn kap mu
      ∧ transp 6 [0, 1, 2, 3, 4, 5] (Gen.stiffness_YN_all c c3 fn E nu) = Gen.stiffness_YN_all c c3 fn E nu
      ∧ transp 6 [0, 1, 2, 3, 4, 5] (Gen.stiffness_LM_all c c3 fn lam mu) = Gen.stiffness_LM_all c c3 fn lam mu := by
  refine ⟨?_, ?_, ?_⟩ <;> c21_eq
/-- `ε : C : ε = K tr²ε + 2G ‖dev ε‖²` (Mandel storage: the Euclidean norm of the stored deviator) -/
theorem stiffness_quadratic_form (kap mu e0 e1 e2 e3 e4 e5 : K) :
    quad6 (Gen.stiffness_KG_all c c3 fn kap mu) [e0, e1, e2, e3, e4, e5]
      = kap * (e0 + e1 + e2) ^ 2
        + 2 * mu * ((e0 - (e0 + e1 + e2) / 3) ^ 2 + (e1 - (e0 + e1 + e2) / 3) ^ 2
                    + (e2 - (e0 + e1 + e2) / 3) ^ 2 + e3 ^ 2 + e4 ^ 2 + e5 ^ 2) := by
  c21_unfold; ring1
/-- positive definiteness for `K > 0`, `G > 0` … -/
theorem stiffness_KG_posdef (kap mu e0 e1 e2 e3 e4 e5 : K) (hK : 0 < kap) (hG : 0 < mu)
    (hne : ¬ (e0 = 0 ∧ e1 = 0 ∧ e2 = 0 ∧ e3 = 0 ∧ e4 = 0 ∧ e5 = 0)) :
    0 < quad6 (Gen.stiffness_KG_all c c3 fn kap mu) [e0, e1, e2, e3, e4, e5] := by
  rw [stiffness_quadratic_form]; exact iso_quad_pos hK hG hne
/-- … hence for every admissible `(E, ν)` -/
theorem stiffness_YN_posdef (E nu e0 e1 e2 e3 e4 e5 : K) (h : Admissible E nu)
    (hne : ¬ (e0 = 0 ∧ e1 = 0 ∧ e2 = 0 ∧ e3 = 0 ∧ e4 = 0 ∧ e5 = 0)) :
    0 < quad6 (Gen.stiffness_YN_all c c3 fn E nu) [e0, e1, e2, e3, e4, e5] := by
  obtain ⟨hE, h1, h2⟩ := h
  have spec : Gen.YN_ToKG_all c c3 fn E nu = [E / (3 * (1 - 2 * nu)), E / (2 * (1 + nu))] := by c21_eq
  have a : 0 < 1 - 2 * nu := by linarith
  have b : 0 < 1 + nu := by linarith
  have hk : 0 < E / (3 * (1 - 2 * nu)) := by positivity
  have hm : 0 < E / (2 * (1 + nu)) := by positivity
  rw [(stiffness_formats_agree c c3 fn E nu 0 0).1, spec]
  simp only [List.getD_cons_succ, List.getD_cons_zero, app2]
  exact stiffness_KG_posdef c c3 fn _ _ e0 e1 e2 e3 e4 e5 hk hm hne

/-- `computeKappaMu` / `computeKGModuli` on an arbitrary 6×6 tensor: the projections on `J` and `K'` -/
theorem computeKappaMu_spec
    (a00 a01 a02 a03 a04 a05 a10 a11 a12 a13 a14 a15 a20 a21 a22 a23 a24 a25
     a30 a31 a32 a33 a34 a35 a40 a41 a42 a43 a44 a45 a50 a51 a52 a53 a54 a55 : K) :
    Gen.computeKappaMu_all c c3 fn a00 a01 a02 a03 a04 a05 a10 a11 a12 a13 a14 a15 a20 a21 a22 a23 a24 a25
        a30 a31 a32 a33 a34 a35 a40 a41 a42 a43 a44 a45 a50 a51 a52 a53 a54 a55
      = [(a00 + a01 + a02 + a10 + a11 + a12 + a20 + a21 + a22) / 9,
         ((a00 + a11 + a22 + a33 + a44 + a55)
            - (a00 + a01 + a02 + a10 + a11 + a12 + a20 + a21 + a22) / 3) / 10]
    ∧ Gen.computeKGModuli_all c c3 fn a00 a01 a02 a03 a04 a05 a10 a11 a12 a13 a14 a15 a20 a21 a22 a23 a24 a25
        a30 a31 a32 a33 a34 a35 a40 a41 a42 a43 a44 a45 a50 a51 a52 a53 a54 a55
      = Gen.computeKappaMu_all c c3 fn a00 a01 a02 a03 a04 a05 a10 a11 a12 a13 a14 a15 a20 a21 a22 a23 a24 a25
        a30 a31 a32 a33 a34 a35 a40 a41 a42 a43 a44 a45 a50 a51 a52 a53 a54 a55 := by
  constructor <;> c21_eq
/-- `computeKGModuli` recovers the moduli from the tensor: traced composition on the real code, and the
composition of the generic unit with each tensor -/
theorem computeKGModuli_recovers_KG (kap mu : K) :
    Gen.roundtrip_KG_all c c3 fn kap mu = [kap, mu]
      ∧ app36 (Gen.computeKGModuli_all c c3 fn) (Gen.stiffness_KG_all c c3 fn kap mu) = [kap, mu] := by
  constructor <;> c21_eq
theorem computeKGModuli_recovers_YN (E nu : K) (h : Admissible E nu) :
    app36 (Gen.computeKGModuli_all c c3 fn) (Gen.stiffness_YN_all c c3 fn E nu) = Gen.YN_ToKG_all c c3 fn E nu := by
  obtain ⟨h1, h2, h3, h4, h5, h6, h7⟩ := h.dens
  c21_eq
theorem computeKGModuli_recovers_LM (lam mu : K) :
    app36 (Gen.computeKGModuli_all c c3 fn) (Gen.stiffness_LM_all c c3 fn lam mu) = Gen.LM_ToKG_all c c3 fn lam mu := by
  c21_eq

/-- `isIsotropic` accepts the computed tensor for every tolerance `eps > 0`: the traced decision is
`sqrt(‖C - proj C‖²) / sqrt(‖proj C‖²) < eps` and the first radicand is identically `0`
(`sqrt` is the uninterpreted libm symbol: only `sqrt 0 = 0` is assumed). The unit returns `true` (1).
By `stiffness_formats_agree` every tensor of part 2 is `stiffness_KG` of some `(K, G)`. -/
theorem isIsotropic_accepts_KG (kap mu eps : K) (hs : fn.sqrt 0 = 0) (he : 0 < eps) :
    Gen.isIsotropic_KG_path c c3 fn kap mu eps ∧ Gen.isIsotropic_KG_all c c3 fn kap mu eps = [1] := by
  refine ⟨?_, by c21_eq⟩
  simp only [Gen.isIsotropic_KG_path]
  apply sqrt_zero_div_lt fn hs he
  simp only [mul_zero, add_zero, zero_add, mul_one, sub_zero]
  ring1

end TfelVerif.C21.Props
