/-
  C21 — Isotropic moduli and stiffness tensors are mutually consistent.

  Property theorems only (module PropsModuli; the property is split over PropsModuli, PropsIso, PropsHyp,
  PropsLame, PropsOrtho so that they build in parallel and independently).
  `Gen.<unit>_all` is the list of the outputs of one traced unit: the real TFEL code (IsotropicModuli.hxx/.ixx, Lame.hxx, StiffnessTensor.ixx, OrthotropicAxesConvention.ixx)
  instantiated with the recording scalar by harness/C21/trace.cxx and regenerated on every run.
  Fourth order tensors are row-major `n×n` lists in TFEL's storage (n = 6, 4, 3 in 3D, 2D, 1D);
  the vocabulary (`isoStiff`, `block4`, `block3`, `pipe4`, `condense4`, `condense3`, `apply6`,
  `quad6`, `Admissible`) is in Lemmas.lean.

  Every tensor handed to the code as an output argument is pre-filled by the tracer with the input
  symbol `g` ("garbage"); the theorems hold for every `g`, i.e. no component is left unassigned.

  All theorems are over an arbitrary linearly ordered field `K` (so for ℝ and ℚ), for all values of
  the elastic constants allowed by the stated hypotheses.
-/
import TfelVerif.C21.Lemmas
import TfelVerif.C21.GenModuli

namespace TfelVerif.C21.Props
open TfelVerif TfelVerif.C21
set_option linter.unusedVariables false
set_option linter.unusedSectionVars false

variable {K : Type} [Field K] [LinearOrder K] [IsStrictOrderedRing K] (c c3 : K) (fn : Fns K)

/-! ## 1. Moduli conversions (IsotropicModuli.hxx: YoungNuModuli, KGModuli, LambdaMuModuli; Lame.hxx)

`app2 f l` feeds the two outputs of one conversion to the next one. Admissible sets:
`Admissible E ν` (E > 0, -1 < ν < 1/2)  ⟺  K > 0 ∧ G > 0  ⟺  μ > 0 ∧ 3λ + 2μ > 0. -/

/-- closed forms of the traced conversions -/
theorem YN_ToKG_spec (E nu : K) :
    Gen.YN_ToKG_all c c3 fn E nu = [E / (3 * (1 - 2 * nu)), E / (2 * (1 + nu))] := by c21_eq
theorem YN_ToLambdaMu_spec (E nu : K) :
    Gen.YN_ToLambdaMu_all c c3 fn E nu = [nu * E / ((1 + nu) * (1 - 2 * nu)), E / (2 * (1 + nu))] := by c21_eq
theorem computeLambda_computeMu_spec (E nu : K) :
    [Gen.computeLambda_all c c3 fn E nu, Gen.computeMu_all c c3 fn E nu]
      = [[nu * E / ((1 + nu) * (1 - 2 * nu))], [E / (2 * (1 + nu))]] := by c21_eq
theorem KG_ToLambdaMu_spec (kap mu : K) :
    Gen.KG_ToLambdaMu_all c c3 fn kap mu = [kap - 2 * mu / 3, mu] := by c21_eq
theorem LM_ToKG_spec (lam mu : K) :
    Gen.LM_ToKG_all c c3 fn lam mu = [lam + 2 * mu / 3, mu] := by c21_eq
theorem KG_ToYoungNu_spec (kap mu : K) (hK : 0 < kap) (hG : 0 < mu) :
    Gen.KG_ToYoungNu_all c c3 fn kap mu
      = [9 * kap * mu / (3 * kap + mu), (3 * kap - 2 * mu) / (2 * (3 * kap + mu))] := by
  have h1 : 2 * mu + 6 * kap ≠ 0 := by positivity
  have h1' : mu + 3 * kap ≠ 0 := by positivity
  have h1'' : mu + kap * 3 ≠ 0 := by positivity
  have h1''' : 3 * kap + mu ≠ 0 := by positivity
  have h2 : 3 * kap + mu ≠ 0 := by positivity
  c21_eq
theorem LM_ToYoungNu_spec (lam mu : K) (hm : 0 < mu) (hb : 0 < 3 * lam + 2 * mu) :
    Gen.LM_ToYoungNu_all c c3 fn lam mu
      = [mu * (3 * lam + 2 * mu) / (lam + mu), lam / (2 * (lam + mu))] := by
  have h0 : 0 < lam + mu := by linarith
  have h1 : 2 * mu + 2 * lam ≠ 0 := (by linarith : (0:K) < 2 * mu + 2 * lam).ne'
  have h1' : mu + lam ≠ 0 := (by linarith : (0:K) < mu + lam).ne'
  have h1'' : lam + mu ≠ 0 := (by linarith : (0:K) < lam + mu).ne'
  have h2 : lam + mu ≠ 0 := ne_of_gt h0
  c21_eq
/-- the three `To<own format>` members are the identity -/
theorem identity_conversions (E nu kap mu lam : K) :
    Gen.YN_ToYoungNu_all c c3 fn E nu = [E, nu] ∧ Gen.KG_ToKG_all c c3 fn kap mu = [kap, mu]
      ∧ Gen.LM_ToLambdaMu_all c c3 fn lam mu = [lam, mu] := by
  refine ⟨?_, ?_, ?_⟩ <;> c21_eq
/-- `computeLambda`, `computeMu` (Lame.hxx) are the (λ, μ) conversion of `YoungNuModuli` -/
theorem computeLambda_computeMu_eq_ToLambdaMu (E nu : K) :
    Gen.computeLambda_all c c3 fn E nu ++ Gen.computeMu_all c c3 fn E nu
      = Gen.YN_ToLambdaMu_all c c3 fn E nu := by c21_eq

/-- admissibility is transported by the conversions -/
theorem YN_ToKG_admissible (E nu : K) (h : Admissible E nu) :
    0 < (Gen.YN_ToKG_all c c3 fn E nu).getD 0 0 ∧ 0 < (Gen.YN_ToKG_all c c3 fn E nu).getD 1 0 := by
  obtain ⟨hE, h1, h2⟩ := h
  rw [YN_ToKG_spec]
  simp only [List.getD_cons_succ, List.getD_cons_zero]
  have a : 0 < 1 - 2 * nu := by linarith
  have b : 0 < 1 + nu := by linarith
  constructor <;> positivity
theorem YN_ToLambdaMu_admissible (E nu : K) (h : Admissible E nu) :
    0 < (Gen.YN_ToLambdaMu_all c c3 fn E nu).getD 1 0
      ∧ 0 < 3 * (Gen.YN_ToLambdaMu_all c c3 fn E nu).getD 0 0 + 2 * (Gen.YN_ToLambdaMu_all c c3 fn E nu).getD 1 0 := by
  obtain ⟨hE, h1, h2⟩ := h
  rw [YN_ToLambdaMu_spec]
  simp only [List.getD_cons_succ, List.getD_cons_zero]
  have a : 0 < 1 - 2 * nu := by linarith
  have b : 0 < 1 + nu := by linarith
  have a' := a.ne'
  have a'' : 1 - nu * 2 ≠ 0 := (by linarith : (0:K) < 1 - nu * 2).ne'
  refine ⟨by positivity, ?_⟩
  have e : 3 * (nu * E / ((1 + nu) * (1 - 2 * nu))) + 2 * (E / (2 * (1 + nu))) = E / (1 - 2 * nu) := by
    field_simp; ring
  rw [e]; positivity
theorem KG_ToYoungNu_admissible (kap mu : K) (hK : 0 < kap) (hG : 0 < mu) :
    Admissible ((Gen.KG_ToYoungNu_all c c3 fn kap mu).getD 0 0) ((Gen.KG_ToYoungNu_all c c3 fn kap mu).getD 1 0) := by
  rw [KG_ToYoungNu_spec c c3 fn kap mu hK hG]
  simp only [List.getD_cons_succ, List.getD_cons_zero]
  have h2 : 0 < 3 * kap + mu := by positivity
  refine ⟨by positivity, ?_, ?_⟩
  · rw [lt_div_iff₀ (by positivity)]; linarith
  · rw [div_lt_iff₀ (by positivity)]; linarith
theorem LM_ToYoungNu_admissible (lam mu : K) (hm : 0 < mu) (hb : 0 < 3 * lam + 2 * mu) :
    Admissible ((Gen.LM_ToYoungNu_all c c3 fn lam mu).getD 0 0) ((Gen.LM_ToYoungNu_all c c3 fn lam mu).getD 1 0) := by
  rw [LM_ToYoungNu_spec c c3 fn lam mu hm hb]
  simp only [List.getD_cons_succ, List.getD_cons_zero]
  have h0 : 0 < lam + mu := by linarith
  refine ⟨by positivity, ?_, ?_⟩
  · rw [lt_div_iff₀ (by positivity)]; linarith
  · rw [div_lt_iff₀ (by positivity)]; linarith
theorem KG_LM_admissible (kap mu lam : K) :
    ((0 < kap ∧ 0 < mu) → 0 < (Gen.KG_ToLambdaMu_all c c3 fn kap mu).getD 1 0
        ∧ 0 < 3 * (Gen.KG_ToLambdaMu_all c c3 fn kap mu).getD 0 0 + 2 * (Gen.KG_ToLambdaMu_all c c3 fn kap mu).getD 1 0)
    ∧ ((0 < mu ∧ 0 < 3 * lam + 2 * mu) → 0 < (Gen.LM_ToKG_all c c3 fn lam mu).getD 0 0
        ∧ 0 < (Gen.LM_ToKG_all c c3 fn lam mu).getD 1 0) := by
  rw [KG_ToLambdaMu_spec, LM_ToKG_spec]
  simp only [List.getD_cons_succ, List.getD_cons_zero]
  constructor
  · rintro ⟨hK, hG⟩; exact ⟨hG, by linarith⟩
  · rintro ⟨hm, hb⟩; exact ⟨by linarith, hm⟩

/-- the six conversions are mutually inverse on admissible moduli -/
theorem roundtrip_YN_KG_YN (E nu : K) (h : Admissible E nu) :
    app2 (Gen.KG_ToYoungNu_all c c3 fn) (Gen.YN_ToKG_all c c3 fn E nu) = [E, nu] := by
  obtain ⟨h1, h2, h3, h4, h5, h6, h7⟩ := h.dens
  have key : 2 * (E / (2 * (1 + nu))) + 6 * (E / (3 * (1 - 2 * nu))) = 3 * E / ((1 + nu) * (1 - 2 * nu)) := by
    field_simp; ring
  c21_unfold; simp only [key]; c21_close
theorem roundtrip_YN_LM_YN (E nu : K) (h : Admissible E nu) :
    app2 (Gen.LM_ToYoungNu_all c c3 fn) (Gen.YN_ToLambdaMu_all c c3 fn E nu) = [E, nu] := by
  obtain ⟨h1, h2, h3, h4, h5, h6, h7⟩ := h.dens
  have key : 2 * (E / (2 * (1 + nu))) + 2 * (nu * E / ((1 + nu) * (1 - 2 * nu))) = E / ((1 + nu) * (1 - 2 * nu)) := by
    field_simp; ring
  c21_unfold; simp only [key]; c21_close
theorem roundtrip_KG_YN_KG (kap mu : K) (hK : 0 < kap) (hG : 0 < mu) :
    app2 (Gen.YN_ToKG_all c c3 fn) (Gen.KG_ToYoungNu_all c c3 fn kap mu) = [kap, mu] := by
  have h1 : 2 * mu + 6 * kap ≠ 0 := by positivity
  have h1' : mu + 3 * kap ≠ 0 := by positivity
  have h1'' : mu + kap * 3 ≠ 0 := by positivity
  have h1''' : 3 * kap + mu ≠ 0 := by positivity
  have hk : kap ≠ 0 := hK.ne'
  have hm : mu ≠ 0 := hG.ne'
  have k1 : 1 - 2 * ((3 * kap - 2 * mu) / (2 * mu + 6 * kap)) = 6 * mu / (2 * mu + 6 * kap) := by
    field_simp; ring
  have k2 : 1 + (3 * kap - 2 * mu) / (2 * mu + 6 * kap) = 9 * kap / (2 * mu + 6 * kap) := by
    field_simp; ring
  c21_unfold; simp only [k1, k2]; c21_close
theorem roundtrip_LM_YN_LM (lam mu : K) (hm : 0 < mu) (hb : 0 < 3 * lam + 2 * mu) :
    app2 (Gen.YN_ToLambdaMu_all c c3 fn) (Gen.LM_ToYoungNu_all c c3 fn lam mu) = [lam, mu] := by
  have h1 : 2 * mu + 2 * lam ≠ 0 := (by linarith : (0:K) < 2 * mu + 2 * lam).ne'
  have h1' : mu + lam ≠ 0 := (by linarith : (0:K) < mu + lam).ne'
  have h1'' : lam + mu ≠ 0 := (by linarith : (0:K) < lam + mu).ne'
  have hmu : mu ≠ 0 := hm.ne'
  have h4 : 2 * mu + 3 * lam ≠ 0 := (by linarith : (0:K) < 2 * mu + 3 * lam).ne'
  have h4' : lam * 3 + mu * 2 ≠ 0 := (by linarith : (0:K) < lam * 3 + mu * 2).ne'
  have h4'' : 2 * mu + lam * 3 ≠ 0 := (by linarith : (0:K) < 2 * mu + lam * 3).ne'
  have k1 : 1 + lam / (2 * mu + 2 * lam) = (2 * mu + 3 * lam) / (2 * mu + 2 * lam) := by field_simp; ring
  have k2 : 1 - 2 * (lam / (2 * mu + 2 * lam)) = 2 * mu / (2 * mu + 2 * lam) := by field_simp; ring
  c21_unfold; simp only [k1, k2]; c21_close
theorem roundtrip_KG_LM (kap mu lam : K) :
    app2 (Gen.LM_ToKG_all c c3 fn) (Gen.KG_ToLambdaMu_all c c3 fn kap mu) = [kap, mu]
      ∧ app2 (Gen.KG_ToLambdaMu_all c c3 fn) (Gen.LM_ToKG_all c c3 fn lam mu) = [lam, mu] := by
  constructor <;> c21_eq

/-- going through the third format gives the same result as the direct conversion -/
theorem triangle_YN (E nu : K) (h : Admissible E nu) :
    app2 (Gen.KG_ToLambdaMu_all c c3 fn) (Gen.YN_ToKG_all c c3 fn E nu) = Gen.YN_ToLambdaMu_all c c3 fn E nu
      ∧ app2 (Gen.LM_ToKG_all c c3 fn) (Gen.YN_ToLambdaMu_all c c3 fn E nu) = Gen.YN_ToKG_all c c3 fn E nu := by
  obtain ⟨h1, h2, h3, h4, h5, h6, h7⟩ := h.dens
  constructor <;> c21_eq
theorem triangle_KG (kap mu : K) (hK : 0 < kap) (hG : 0 < mu) :
    app2 (Gen.LM_ToYoungNu_all c c3 fn) (Gen.KG_ToLambdaMu_all c c3 fn kap mu) = Gen.KG_ToYoungNu_all c c3 fn kap mu
      ∧ app2 (Gen.YN_ToLambdaMu_all c c3 fn) (Gen.KG_ToYoungNu_all c c3 fn kap mu) = Gen.KG_ToLambdaMu_all c c3 fn kap mu := by
  have h1 : 2 * mu + 6 * kap ≠ 0 := by positivity
  have h1' : mu + 3 * kap ≠ 0 := by positivity
  have h1'' : mu + kap * 3 ≠ 0 := by positivity
  have h1''' : 3 * kap + mu ≠ 0 := by positivity
  have hk : kap ≠ 0 := hK.ne'
  have hm : mu ≠ 0 := hG.ne'
  constructor
  · have k0 : 2 * mu + 2 * (kap - 2 * mu / 3) = (2 * mu + 6 * kap) / 3 := by ring
    c21_unfold; simp only [k0]; c21_close
  · have k1 : 1 - 2 * ((3 * kap - 2 * mu) / (2 * mu + 6 * kap)) = 6 * mu / (2 * mu + 6 * kap) := by
      field_simp; ring
    have k2 : 1 + (3 * kap - 2 * mu) / (2 * mu + 6 * kap) = 9 * kap / (2 * mu + 6 * kap) := by
      field_simp; ring
    c21_unfold; simp only [k1, k2]; c21_close
theorem triangle_LM (lam mu : K) (hm : 0 < mu) (hb : 0 < 3 * lam + 2 * mu) :
    app2 (Gen.KG_ToYoungNu_all c c3 fn) (Gen.LM_ToKG_all c c3 fn lam mu) = Gen.LM_ToYoungNu_all c c3 fn lam mu
      ∧ app2 (Gen.YN_ToKG_all c c3 fn) (Gen.LM_ToYoungNu_all c c3 fn lam mu) = Gen.LM_ToKG_all c c3 fn lam mu := by
  have h1 : 2 * mu + 2 * lam ≠ 0 := (by linarith : (0:K) < 2 * mu + 2 * lam).ne'
  have h1' : mu + lam ≠ 0 := (by linarith : (0:K) < mu + lam).ne'
  have h1'' : lam + mu ≠ 0 := (by linarith : (0:K) < lam + mu).ne'
  have hmu : mu ≠ 0 := hm.ne'
  have h4 : 2 * mu + 3 * lam ≠ 0 := (by linarith : (0:K) < 2 * mu + 3 * lam).ne'
  have h4' : lam * 3 + mu * 2 ≠ 0 := (by linarith : (0:K) < lam * 3 + mu * 2).ne'
  have h4'' : 2 * mu + lam * 3 ≠ 0 := (by linarith : (0:K) < 2 * mu + lam * 3).ne'
  constructor
  · have k0 : 2 * mu + 6 * (lam + 2 * mu / 3) = 3 * (2 * mu + 2 * lam) := by ring
    c21_unfold; simp only [k0]; c21_close
  · have k1 : 1 + lam / (2 * mu + 2 * lam) = (2 * mu + 3 * lam) / (2 * mu + 2 * lam) := by field_simp; ring
    have k2 : 1 - 2 * (lam / (2 * mu + 2 * lam)) = 2 * mu / (2 * mu + 2 * lam) := by field_simp; ring
    c21_unfold; simp only [k1, k2]; c21_close

example : Admissible (200 : ℚ) (3 / 10) := by unfold Admissible; norm_num

end TfelVerif.C21.Props
