/-
  C21 — Isotropic moduli and stiffness tensors are mutually consistent.

  Property theorems only. `Gen.<unit>_all` is the list of the outputs of one traced unit: the real
  TFEL code (IsotropicModuli.hxx/.ixx, Lame.hxx, StiffnessTensor.ixx, OrthotropicAxesConvention.ixx)
  instantiated with the recording scalar by harness/C21/trace.cxx and regenerated on every run.
  Fourth order tensors are row-major `n×n` lists in TFEL's storage (n = 6, 4, 3 in 3D, 2D, 1D);
  the vocabulary (`isoStiff`, `block4`, `block3`, `pipe4`, `condense4`, `condense3`, `apply6`,
  `quad6`, `Admissible`) is in Lemmas.lean.

  Every tensor handed to the code as an output argument is pre-filled by the tracer with the input
  symbol `g` ("garbage"); the theorems hold for every `g`, i.e. no component is left unassigned.

  All theorems are over an arbitrary linearly ordered field `K` (so for ℝ and ℚ), for all values of
  the elastic constants allowed by the stated hypotheses.
-/
import TfelVerif.C21.Lemmas
import TfelVerif.C21.Gen

namespace TfelVerif.C21.Props
open TfelVerif TfelVerif.C21
set_option linter.unusedVariables false
set_option linter.unusedSectionVars false

variable {K : Type} [Field K] [LinearOrder K] [IsStrictOrderedRing K] (c c3 : K) (fn : Fns K)

/-! ## 1. Moduli conversions (IsotropicModuli.hxx: YoungNuModuli, KGModuli, LambdaMuModuli; Lame.hxx)

`app2 f l` feeds the two outputs of one conversion to the next one. Admissible sets:
`Admissible E ν` (E > 0, -1 < ν < 1/2)  ⟺  K > 0 ∧ G > 0  ⟺  μ > 0 ∧ 3λ + 2μ > 0. -/

/-- closed forms of the traced conversions -/
theorem YN_ToKG_spec (E nu : K) :
    Gen.YN_ToKG_all c c3 fn E nu = [E / (3 * (1 - 2 * nu)), E / (2 * (1 + nu))] := by c21_eq
theorem YN_ToLambdaMu_spec (E nu : K) :
    Gen.YN_ToLambdaMu_all c c3 fn E nu = [nu * E / ((1 + nu) * (1 - 2 * nu)), E / (2 * (1 + nu))] := by c21_eq
theorem computeLambda_computeMu_spec (E nu : K) :
    [Gen.computeLambda_all c c3 fn E nu, Gen.computeMu_all c c3 fn E nu]
      = [[nu * E / ((1 + nu) * (1 - 2 * nu))], [E / (2 * (1 + nu))]] := by c21_eq
theorem KG_ToLambdaMu_spec (kap mu : K) :
    Gen.KG_ToLambdaMu_all c c3 fn kap mu = [kap - 2 * mu / 3, mu] := by c21_eq
theorem LM_ToKG_spec (lam mu : K) :
    Gen.LM_ToKG_all c c3 fn lam mu = [lam + 2 * mu / 3, mu] := by c21_eq
theorem KG_ToYoungNu_spec (kap mu : K) (hK : 0 < kap) (hG : 0 < mu) :
    Gen.KG_ToYoungNu_all c c3 fn kap mu
      = [9 * kap * mu / (3 * kap + mu), (3 * kap - 2 * mu) / (2 * (3 * kap + mu))] := by
  have h1 : 2 * mu + 6 * kap ≠ 0 := by positivity
  have h1' : mu + 3 * kap ≠ 0 := by positivity
  have h1'' : mu + kap * 3 ≠ 0 := by positivity
  have h1''' : 3 * kap + mu ≠ 0 := by positivity
  have h2 : 3 * kap + mu ≠ 0 := by positivity
  c21_eq
theorem LM_ToYoungNu_spec (lam mu : K) (hm : 0 < mu) (hb : 0 < 3 * lam + 2 * mu) :
    Gen.LM_ToYoungNu_all c c3 fn lam mu
      = [mu * (3 * lam + 2 * mu) / (lam + mu), lam / (2 * (lam + mu))] := by
  have h0 : 0 < lam + mu := by linarith
  have h1 : 2 * mu + 2 * lam ≠ 0 := (by linarith : (0:K) < 2 * mu + 2 * lam).ne'
  have h1' : mu + lam ≠ 0 := (by linarith : (0:K) < mu + lam).ne'
  have h1'' : lam + mu ≠ 0 := (by linarith : (0:K) < lam + mu).ne'
  have h2 : lam + mu ≠ 0 := ne_of_gt h0
  c21_eq
/-- the three `To<own format>` members are the identity -/
theorem identity_conversions (E nu kap mu lam : K) :
    Gen.YN_ToYoungNu_all c c3 fn E nu = [E, nu] ∧ Gen.KG_ToKG_all c c3 fn kap mu = [kap, mu]
      ∧ Gen.LM_ToLambdaMu_all c c3 fn lam mu = [lam, mu] := by
  refine ⟨?_, ?_, ?_⟩ <;> c21_eq
/-- `computeLambda`, `computeMu` (Lame.hxx) are the (λ, μ) conversion of `YoungNuModuli` -/
theorem computeLambda_computeMu_eq_ToLambdaMu (E nu : K) :
    Gen.computeLambda_all c c3 fn E nu ++ Gen.computeMu_all c c3 fn E nu
      = Gen.YN_ToLambdaMu_all c c3 fn E nu := by c21_eq

/-- admissibility is transported by the conversions -/
theorem YN_ToKG_admissible (E nu : K) (h : Admissible E nu) :
    0 < (Gen.YN_ToKG_all c c3 fn E nu).getD 0 0 ∧ 0 < (Gen.YN_ToKG_all c c3 fn E nu).getD 1 0 := by
  obtain ⟨hE, h1, h2⟩ := h
  rw [YN_ToKG_spec]
  simp only [List.getD_cons_succ, List.getD_cons_zero]
  have a : 0 < 1 - 2 * nu := by linarith
  have b : 0 < 1 + nu := by linarith
  constructor <;> positivity
theorem YN_ToLambdaMu_admissible (E nu : K) (h : Admissible E nu) :
    0 < (Gen.YN_ToLambdaMu_all c c3 fn E nu).getD 1 0
      ∧ 0 < 3 * (Gen.YN_ToLambdaMu_all c c3 fn E nu).getD 0 0 + 2 * (Gen.YN_ToLambdaMu_all c c3 fn E nu).getD 1 0 := by
  obtain ⟨hE, h1, h2⟩ := h
  rw [YN_ToLambdaMu_spec]
  simp only [List.getD_cons_succ, List.getD_cons_zero]
  have a : 0 < 1 - 2 * nu := by linarith
  have b : 0 < 1 + nu := by linarith
  have a' := a.ne'
  have a'' : 1 - nu * 2 ≠ 0 := (by linarith : (0:K) < 1 - nu * 2).ne'
  refine ⟨by positivity, ?_⟩
  have e : 3 * (nu * E / ((1 + nu) * (1 - 2 * nu))) + 2 * (E / (2 * (1 + nu))) = E / (1 - 2 * nu) := by
    field_simp; ring
  rw [e]; positivity
theorem KG_ToYoungNu_admissible (kap mu : K) (hK : 0 < kap) (hG : 0 < mu) :
    Admissible ((Gen.KG_ToYoungNu_all c c3 fn kap mu).getD 0 0) ((Gen.KG_ToYoungNu_all c c3 fn kap mu).getD 1 0) := by
  rw [KG_ToYoungNu_spec c c3 fn kap mu hK hG]
  simp only [List.getD_cons_succ, List.getD_cons_zero]
  have h2 : 0 < 3 * kap + mu := by positivity
  refine ⟨by positivity, ?_, ?_⟩
  · rw [lt_div_iff₀ (by positivity)]; linarith
  · rw [div_lt_iff₀ (by positivity)]; linarith
theorem LM_ToYoungNu_admissible (lam mu : K) (hm : 0 < mu) (hb : 0 < 3 * lam + 2 * mu) :
    Admissible ((Gen.LM_ToYoungNu_all c c3 fn lam mu).getD 0 0) ((Gen.LM_ToYoungNu_all c c3 fn lam mu).getD 1 0) := by
  rw [LM_ToYoungNu_spec c c3 fn lam mu hm hb]
  simp only [List.getD_cons_succ, List.getD_cons_zero]
  have h0 : 0 < lam + mu := by linarith
  refine ⟨by positivity, ?_, ?_⟩
  · rw [lt_div_iff₀ (by positivity)]; linarith
  · rw [div_lt_iff₀ (by positivity)]; linarith
theorem KG_LM_admissible (kap mu lam : K) :
    ((0 < kap ∧ 0 < mu) → 0 < (Gen.KG_ToLambdaMu_all c c3 fn kap mu).getD 1 0
        ∧ 0 < 3 * (Gen.KG_ToLambdaMu_all c c3 fn kap mu).getD 0 0 + 2 * (Gen.KG_ToLambdaMu_all c c3 fn kap mu).getD 1 0)
    ∧ ((0 < mu ∧ 0 < 3 * lam + 2 * mu) → 0 < (Gen.LM_ToKG_all c c3 fn lam mu).getD 0 0
        ∧ 0 < (Gen.LM_ToKG_all c c3 fn lam mu).getD 1 0) := by
  rw [KG_ToLambdaMu_spec, LM_ToKG_spec]
  simp only [List.getD_cons_succ, List.getD_cons_zero]
  constructor
  · rintro ⟨hK, hG⟩; exact ⟨hG, by linarith⟩
  · rintro ⟨hm, hb⟩; exact ⟨by linarith, hm⟩

/-- the six conversions are mutually inverse on admissible moduli -/
theorem roundtrip_YN_KG_YN (E nu : K) (h : Admissible E nu) :
    app2 (Gen.KG_ToYoungNu_all c c3 fn) (Gen.YN_ToKG_all c c3 fn E nu) = [E, nu] := by
  obtain ⟨h1, h2, h3, h4, h5, h6, h7⟩ := h.dens
  have key : 2 * (E / (2 * (1 + nu))) + 6 * (E / (3 * (1 - 2 * nu))) = 3 * E / ((1 + nu) * (1 - 2 * nu)) := by
    field_simp; ring
  c21_unfold; simp only [key]; c21_close
theorem roundtrip_YN_LM_YN (E nu : K) (h : Admissible E nu) :
    app2 (Gen.LM_ToYoungNu_all c c3 fn) (Gen.YN_ToLambdaMu_all c c3 fn E nu) = [E, nu] := by
  obtain ⟨h1, h2, h3, h4, h5, h6, h7⟩ := h.dens
  have key : 2 * (E / (2 * (1 + nu))) + 2 * (nu * E / ((1 + nu) * (1 - 2 * nu))) = E / ((1 + nu) * (1 - 2 * nu)) := by
    field_simp; ring
  c21_unfold; simp only [key]; c21_close
theorem roundtrip_KG_YN_KG (kap mu : K) (hK : 0 < kap) (hG : 0 < mu) :
    app2 (Gen.YN_ToKG_all c c3 fn) (Gen.KG_ToYoungNu_all c c3 fn kap mu) = [kap, mu] := by
  have h1 : 2 * mu + 6 * kap ≠ 0 := by positivity
  have h1' : mu + 3 * kap ≠ 0 := by positivity
  have h1'' : mu + kap * 3 ≠ 0 := by positivity
  have h1''' : 3 * kap + mu ≠ 0 := by positivity
  have hk : kap ≠ 0 := hK.ne'
  have hm : mu ≠ 0 := hG.ne'
  have k1 : 1 - 2 * ((3 * kap - 2 * mu) / (2 * mu + 6 * kap)) = 6 * mu / (2 * mu + 6 * kap) := by
    field_simp; ring
  have k2 : 1 + (3 * kap - 2 * mu) / (2 * mu + 6 * kap) = 9 * kap / (2 * mu + 6 * kap) := by
    field_simp; ring
  c21_unfold; simp only [k1, k2]; c21_close
theorem roundtrip_LM_YN_LM (lam mu : K) (hm : 0 < mu) (hb : 0 < 3 * lam + 2 * mu) :
    app2 (Gen.YN_ToLambdaMu_all c c3 fn) (Gen.LM_ToYoungNu_all c c3 fn lam mu) = [lam, mu] := by
  have h1 : 2 * mu + 2 * lam ≠ 0 := (by linarith : (0:K) < 2 * mu + 2 * lam).ne'
  have h1' : mu + lam ≠ 0 := (by linarith : (0:K) < mu + lam).ne'
  have h1'' : lam + mu ≠ 0 := (by linarith : (0:K) < lam + mu).ne'
  have hmu : mu ≠ 0 := hm.ne'
  have h4 : 2 * mu + 3 * lam ≠ 0 := (by linarith : (0:K) < 2 * mu + 3 * lam).ne'
  have h4' : lam * 3 + mu * 2 ≠ 0 := (by linarith : (0:K) < lam * 3 + mu * 2).ne'
  have h4'' : 2 * mu + lam * 3 ≠ 0 := (by linarith : (0:K) < 2 * mu + lam * 3).ne'
  have k1 : 1 + lam / (2 * mu + 2 * lam) = (2 * mu + 3 * lam) / (2 * mu + 2 * lam) := by field_simp; ring
  have k2 : 1 - 2 * (lam / (2 * mu + 2 * lam)) = 2 * mu / (2 * mu + 2 * lam) := by field_simp; ring
  c21_unfold; simp only [k1, k2]; c21_close
theorem roundtrip_KG_LM (kap mu lam : K) :
    app2 (Gen.LM_ToKG_all c c3 fn) (Gen.KG_ToLambdaMu_all c c3 fn kap mu) = [kap, mu]
      ∧ app2 (Gen.KG_ToLambdaMu_all c c3 fn) (Gen.LM_ToKG_all c c3 fn lam mu) = [lam, mu] := by
  constructor <;> c21_eq

/-- going through the third format gives the same result as the direct conversion -/
theorem triangle_YN (E nu : K) (h : Admissible E nu) :
    app2 (Gen.KG_ToLambdaMu_all c c3 fn) (Gen.YN_ToKG_all c c3 fn E nu) = Gen.YN_ToLambdaMu_all c c3 fn E nu
      ∧ app2 (Gen.LM_ToKG_all c c3 fn) (Gen.YN_ToLambdaMu_all c c3 fn E nu) = Gen.YN_ToKG_all c c3 fn E nu := by
  obtain ⟨h1, h2, h3, h4, h5, h6, h7⟩ := h.dens
  constructor <;> c21_eq
theorem triangle_KG (kap mu : K) (hK : 0 < kap) (hG : 0 < mu) :
    app2 (Gen.LM_ToYoungNu_all c c3 fn) (Gen.KG_ToLambdaMu_all c c3 fn kap mu) = Gen.KG_ToYoungNu_all c c3 fn kap mu
      ∧ app2 (Gen.YN_ToLambdaMu_all c c3 fn) (Gen.KG_ToYoungNu_all c c3 fn kap mu) = Gen.KG_ToLambdaMu_all c c3 fn kap mu := by
  have h1 : 2 * mu + 6 * kap ≠ 0 := by positivity
  have h1' : mu + 3 * kap ≠ 0 := by positivity
  have h1'' : mu + kap * 3 ≠ 0 := by positivity
  have h1''' : 3 * kap + mu ≠ 0 := by positivity
  have hk : kap ≠ 0 := hK.ne'
  have hm : mu ≠ 0 := hG.ne'
  constructor
  · have k0 : 2 * mu + 2 * (kap - 2 * mu / 3) = (2 * mu + 6 * kap) / 3 := by ring
    c21_unfold; simp only [k0]; c21_close
  · have k1 : 1 - 2 * ((3 * kap - 2 * mu) / (2 * mu + 6 * kap)) = 6 * mu / (2 * mu + 6 * kap) := by
      field_simp; ring
    have k2 : 1 + (3 * kap - 2 * mu) / (2 * mu + 6 * kap) = 9 * kap / (2 * mu + 6 * kap) := by
      field_simp; ring
    c21_unfold; simp only [k1, k2]; c21_close
theorem triangle_LM (lam mu : K) (hm : 0 < mu) (hb : 0 < 3 * lam + 2 * mu) :
    app2 (Gen.KG_ToYoungNu_all c c3 fn) (Gen.LM_ToKG_all c c3 fn lam mu) = Gen.LM_ToYoungNu_all c c3 fn lam mu
      ∧ app2 (Gen.YN_ToKG_all c c3 fn) (Gen.LM_ToYoungNu_all c c3 fn lam mu) = Gen.LM_ToKG_all c c3 fn lam mu := by
  have h1 : 2 * mu + 2 * lam ≠ 0 := (by linarith : (0:K) < 2 * mu + 2 * lam).ne'
  have h1' : mu + lam ≠ 0 := (by linarith : (0:K) < mu + lam).ne'
  have h1'' : lam + mu ≠ 0 := (by linarith : (0:K) < lam + mu).ne'
  have hmu : mu ≠ 0 := hm.ne'
  have h4 : 2 * mu + 3 * lam ≠ 0 := (by linarith : (0:K) < 2 * mu + 3 * lam).ne'
  have h4' : lam * 3 + mu * 2 ≠ 0 := (by linarith : (0:K) < lam * 3 + mu * 2).ne'
  have h4'' : 2 * mu + lam * 3 ≠ 0 := (by linarith : (0:K) < 2 * mu + lam * 3).ne'
  constructor
  · have k0 : 2 * mu + 6 * (lam + 2 * mu / 3) = 3 * (2 * mu + 2 * lam) := by ring
    c21_unfold; simp only [k0]; c21_close
  · have k1 : 1 + lam / (2 * mu + 2 * lam) = (2 * mu + 3 * lam) / (2 * mu + 2 * lam) := by field_simp; ring
    have k2 : 1 - 2 * (lam / (2 * mu + 2 * lam)) = 2 * mu / (2 * mu + 2 * lam) := by field_simp; ring
    c21_unfold; simp only [k1, k2]; c21_close

example : Admissible (200 : ℚ) (3 / 10) := by unfold Admissible; norm_num

/-! ## 2. The 3D isotropic stiffness tensor (IsotropicModuli.ixx: `computeIsotropicStiffnessTensor`,
`computeKappaMu`, `computeKGModuli`, `isIsotropic`) -/

/-- the tensor computed from each moduli class is `λ I⊗I + 2μ Id` -/
theorem stiffness_KG_spec (kap mu : K) :
    Gen.stiffness_KG_all c c3 fn kap mu = isoStiff (kap - 2 * mu / 3) mu := by c21_eq
theorem stiffness_LM_spec (lam mu : K) :
    Gen.stiffness_LM_all c c3 fn lam mu = isoStiff lam mu := by c21_eq
/-- the three entry points agree with the conversions of part 1 -/
theorem stiffness_formats_agree (E nu lam mu : K) :
    Gen.stiffness_YN_all c c3 fn E nu = app2 (Gen.stiffness_KG_all c c3 fn) (Gen.YN_ToKG_all c c3 fn E nu)
      ∧ Gen.stiffness_LM_all c c3 fn lam mu = app2 (Gen.stiffness_KG_all c c3 fn) (Gen.LM_ToKG_all c c3 fn lam mu) := by
  constructor <;> c21_eq
theorem stiffness_YN_spec (E nu : K) (h : Admissible E nu) :
    Gen.stiffness_YN_all c c3 fn E nu = isoStiff (nu * E / ((1 + nu) * (1 - 2 * nu))) (E / (2 * (1 + nu))) := by
  obtain ⟨h1, h2, h3, h4, h5, h6, h7⟩ := h.dens
  rw [(stiffness_formats_agree c c3 fn E nu 0 0).1, YN_ToKG_spec]
  simp only [app2, List.getD_cons_succ, List.getD_cons_zero]
  rw [stiffness_KG_spec]
  congr 1
  field_simp; ring1
/-- `3K·J + 2G·K'` with the projectors `st2tost2::J()`, `st2tost2::K()` of the code, and what these do:
spherical and deviatoric parts -/
theorem stiffness_eq_3KJ_2GK (kap mu : K) :
    Gen.stiffness_KG_all c c3 fn kap mu = lin (3 * kap) (Gen.J_all c c3 fn) (2 * mu) (Gen.Kdev_all c c3 fn) := by
  c21_eq
theorem J_Kdev_action (e0 e1 e2 e3 e4 e5 : K) :
    apply6 (Gen.J_all c c3 fn) [e0, e1, e2, e3, e4, e5]
        = [(e0 + e1 + e2) / 3, (e0 + e1 + e2) / 3, (e0 + e1 + e2) / 3, 0, 0, 0]
      ∧ apply6 (Gen.Kdev_all c c3 fn) [e0, e1, e2, e3, e4, e5]
        = [e0 - (e0 + e1 + e2) / 3, e1 - (e0 + e1 + e2) / 3, e2 - (e0 + e1 + e2) / 3, e3, e4, e5] := by
  constructor <;> c21_eq
/-- Hooke's law: on the Mandel storage of any symmetric `ε`, `C : ε = λ tr(ε) 1 + 2μ ε` -/
theorem stiffness_action (lam mu a00 a11 a22 a01 a02 a12 : K) :
    apply6 (Gen.stiffness_LM_all c c3 fn lam mu) (M3.mandel3 c (M3.sym a00 a11 a22 a01 a02 a12))
      = M3.mandel3 c ((lam * (M3.sym a00 a11 a22 a01 a02 a12).trace) • (1 : M3 K)
                      + (2 * mu) • M3.sym a00 a11 a22 a01 a02 a12) := by
  c21_eq
theorem stiffness_KG_action (kap mu a00 a11 a22 a01 a02 a12 : K) :
    apply6 (Gen.stiffness_KG_all c c3 fn kap mu) (M3.mandel3 c (M3.sym a00 a11 a22 a01 a02 a12))
      = M3.mandel3 c (((kap - 2 * mu / 3) * (M3.sym a00 a11 a22 a01 a02 a12).trace) • (1 : M3 K)
                      + (2 * mu) • M3.sym a00 a11 a22 a01 a02 a12) := by
  c21_eq
/-- major symmetry of the 6×6 matrix -/
theorem stiffness_symmetric (kap mu E nu lam : K) :
    transp 6 [0, 1, 2, 3, 4, 5] (Gen.stiffness_KG_all c c3 fn kap mu) = Gen.stiffness_KG_all c c3 fn kap mu
      ∧ transp 6 [0, 1, 2, 3, 4, 5] (Gen.stiffness_YN_all c c3 fn E nu) = Gen.stiffness_YN_all c c3 fn E nu
      ∧ transp 6 [0, 1, 2, 3, 4, 5] (Gen.stiffness_LM_all c c3 fn lam mu) = Gen.stiffness_LM_all c c3 fn lam mu := by
  refine ⟨?_, ?_, ?_⟩ <;> c21_eq
/-- `ε : C : ε = K tr²ε + 2G ‖dev ε‖²` (Mandel storage: the Euclidean norm of the stored deviator) -/
theorem stiffness_quadratic_form (kap mu e0 e1 e2 e3 e4 e5 : K) :
    quad6 (Gen.stiffness_KG_all c c3 fn kap mu) [e0, e1, e2, e3, e4, e5]
      = kap * (e0 + e1 + e2) ^ 2
        + 2 * mu * ((e0 - (e0 + e1 + e2) / 3) ^ 2 + (e1 - (e0 + e1 + e2) / 3) ^ 2
                    + (e2 - (e0 + e1 + e2) / 3) ^ 2 + e3 ^ 2 + e4 ^ 2 + e5 ^ 2) := by
  c21_unfold; ring1
/-- positive definiteness for `K > 0`, `G > 0` … -/
theorem stiffness_KG_posdef (kap mu e0 e1 e2 e3 e4 e5 : K) (hK : 0 < kap) (hG : 0 < mu)
    (hne : ¬ (e0 = 0 ∧ e1 = 0 ∧ e2 = 0 ∧ e3 = 0 ∧ e4 = 0 ∧ e5 = 0)) :
    0 < quad6 (Gen.stiffness_KG_all c c3 fn kap mu) [e0, e1, e2, e3, e4, e5] := by
  rw [stiffness_quadratic_form]; exact iso_quad_pos hK hG hne
/-- … hence for every admissible `(E, ν)` -/
theorem stiffness_YN_posdef (E nu e0 e1 e2 e3 e4 e5 : K) (h : Admissible E nu)
    (hne : ¬ (e0 = 0 ∧ e1 = 0 ∧ e2 = 0 ∧ e3 = 0 ∧ e4 = 0 ∧ e5 = 0)) :
    0 < quad6 (Gen.stiffness_YN_all c c3 fn E nu) [e0, e1, e2, e3, e4, e5] := by
  obtain ⟨hk, hm⟩ := YN_ToKG_admissible c c3 fn E nu h
  rw [(stiffness_formats_agree c c3 fn E nu 0 0).1]
  rw [YN_ToKG_spec] at hk hm ⊢
  simp only [List.getD_cons_succ, List.getD_cons_zero, app2] at hk hm ⊢
  exact stiffness_KG_posdef c c3 fn _ _ e0 e1 e2 e3 e4 e5 hk hm hne

/-- `computeKappaMu` / `computeKGModuli` on an arbitrary 6×6 tensor: the projections on `J` and `K'` -/
theorem computeKappaMu_spec
    (a00 a01 a02 a03 a04 a05 a10 a11 a12 a13 a14 a15 a20 a21 a22 a23 a24 a25
     a30 a31 a32 a33 a34 a35 a40 a41 a42 a43 a44 a45 a50 a51 a52 a53 a54 a55 : K) :
    Gen.computeKappaMu_all c c3 fn a00 a01 a02 a03 a04 a05 a10 a11 a12 a13 a14 a15 a20 a21 a22 a23 a24 a25
        a30 a31 a32 a33 a34 a35 a40 a41 a42 a43 a44 a45 a50 a51 a52 a53 a54 a55
      = [(a00 + a01 + a02 + a10 + a11 + a12 + a20 + a21 + a22) / 9,
         ((a00 + a11 + a22 + a33 + a44 + a55)
            - (a00 + a01 + a02 + a10 + a11 + a12 + a20 + a21 + a22) / 3) / 10]
    ∧ Gen.computeKGModuli_all c c3 fn a00 a01 a02 a03 a04 a05 a10 a11 a12 a13 a14 a15 a20 a21 a22 a23 a24 a25
        a30 a31 a32 a33 a34 a35 a40 a41 a42 a43 a44 a45 a50 a51 a52 a53 a54 a55
      = Gen.computeKappaMu_all c c3 fn a00 a01 a02 a03 a04 a05 a10 a11 a12 a13 a14 a15 a20 a21 a22 a23 a24 a25
        a30 a31 a32 a33 a34 a35 a40 a41 a42 a43 a44 a45 a50 a51 a52 a53 a54 a55 := by
  constructor <;> c21_eq
/-- `computeKGModuli` recovers the moduli from the tensor: traced composition on the real code, and the
composition of the generic unit with each tensor -/
theorem computeKGModuli_recovers_KG (kap mu : K) :
    Gen.roundtrip_KG_all c c3 fn kap mu = [kap, mu]
      ∧ app36 (Gen.computeKGModuli_all c c3 fn) (Gen.stiffness_KG_all c c3 fn kap mu) = [kap, mu] := by
  constructor <;> c21_eq
theorem computeKGModuli_recovers_YN (E nu : K) (h : Admissible E nu) :
    app36 (Gen.computeKGModuli_all c c3 fn) (Gen.stiffness_YN_all c c3 fn E nu) = Gen.YN_ToKG_all c c3 fn E nu := by
  obtain ⟨h1, h2, h3, h4, h5, h6, h7⟩ := h.dens
  c21_eq
theorem computeKGModuli_recovers_LM (lam mu : K) :
    app36 (Gen.computeKGModuli_all c c3 fn) (Gen.stiffness_LM_all c c3 fn lam mu) = Gen.LM_ToKG_all c c3 fn lam mu := by
  c21_eq

/-- `isIsotropic` accepts the computed tensor for every tolerance `eps > 0`: the traced decision is
`sqrt(‖C - proj C‖²) / sqrt(‖proj C‖²) < eps` and the first radicand is identically `0`
(`sqrt` is the uninterpreted libm symbol: only `sqrt 0 = 0` is assumed). The unit returns `true` (1).
By `stiffness_formats_agree` every tensor of part 2 is `stiffness_KG` of some `(K, G)`. -/
theorem isIsotropic_accepts_KG (kap mu eps : K) (hs : fn.sqrt 0 = 0) (he : 0 < eps) :
    Gen.isIsotropic_KG_path c c3 fn kap mu eps ∧ Gen.isIsotropic_KG_all c c3 fn kap mu eps = [1] := by
  refine ⟨?_, by c21_eq⟩
  simp only [Gen.isIsotropic_KG_path]
  apply sqrt_zero_div_lt fn hs he
  simp only [mul_zero, add_zero, zero_add, mul_one, sub_zero]
  ring1

/-! ## 3. Isotropic stiffness per modelling hypothesis (StiffnessTensor.ixx: `computeIsotropicStiffnessTensor<H,smt>`,
`computeIsotropicStiffnessTensorII<N,smt>`; Lame.hxx: `computeElasticStiffness<N>`, `computeAlteredElasticStiffness<H>`)

Reference: the 3D tensor `iso_TRIDIM_UNALT`, which is `λ I⊗I + 2μ Id` with the Lamé coefficients of (E, ν).
Every other hypothesis returns its sub-block (`block4`: 11,22,33,12; `block3`: 11,22,33); in plane stress and
axisymmetrical generalised plane stress the `ALTERED` tensor is the condensed one (`condense4`/`condense3`:
Schur complement with respect to the stress-free normal component — the third one in plane stress, the second one (`zz`) in 1D — whose row and column are zero). `g`, `g'` are the
garbage pre-filled in the output tensors. -/

theorem iso_TRIDIM_spec (E nu g : K) :
    Gen.iso_TRIDIM_UNALT_all c c3 fn E nu g = isoStiff (nu * E / ((1 + nu) * (1 - 2 * nu))) (E / (2 * (1 + nu))) := by
  c21_eq
theorem iso_TRIDIM_eq_stiffness_YN (E nu g : K) (h : Admissible E nu) :
    Gen.iso_TRIDIM_UNALT_all c c3 fn E nu g = Gen.stiffness_YN_all c c3 fn E nu := by
  rw [iso_TRIDIM_spec, stiffness_YN_spec c c3 fn E nu h]

theorem iso_AGPE_UNALT_reduction (E nu g g' : K) :
    Gen.iso_AGPE_UNALT_all c c3 fn E nu g = block3 (Gen.iso_TRIDIM_UNALT_all c c3 fn E nu g') := by c21_eq

theorem iso_AGPE_ALT_reduction (E nu g g' : K) :
    Gen.iso_AGPE_ALT_all c c3 fn E nu g = block3 (Gen.iso_TRIDIM_UNALT_all c c3 fn E nu g') := by c21_eq

theorem iso_AGPS_UNALT_reduction (E nu g g' : K) :
    Gen.iso_AGPS_UNALT_all c c3 fn E nu g = block3 (Gen.iso_TRIDIM_UNALT_all c c3 fn E nu g') := by c21_eq

/-- `AXISYMMETRICALGENERALISEDPLANESTRESS`, `ALTERED`: the condensed tensor -/
theorem iso_AGPS_ALT_reduction (E nu g g' : K) (h : Admissible E nu) :
    Gen.iso_AGPS_ALT_all c c3 fn E nu g = condense3 (block3 (Gen.iso_TRIDIM_UNALT_all c c3 fn E nu g')) := by
  obtain ⟨h1, h2, h3, h4, h5, h6, h7⟩ := h.dens
  have key : E * nu / ((1 - 2 * nu) * (1 + nu)) + E / (1 + nu) = E * (1 - nu) / ((1 - 2 * nu) * (1 + nu)) := by
    field_simp; ring
  c21_unfold; simp only [key]; c21_close

theorem iso_AXIS_UNALT_reduction (E nu g g' : K) :
    Gen.iso_AXIS_UNALT_all c c3 fn E nu g = block4 (Gen.iso_TRIDIM_UNALT_all c c3 fn E nu g') := by c21_eq

theorem iso_AXIS_ALT_reduction (E nu g g' : K) :
    Gen.iso_AXIS_ALT_all c c3 fn E nu g = block4 (Gen.iso_TRIDIM_UNALT_all c c3 fn E nu g') := by c21_eq

theorem iso_PSTRESS_UNALT_reduction (E nu g g' : K) :
    Gen.iso_PSTRESS_UNALT_all c c3 fn E nu g = block4 (Gen.iso_TRIDIM_UNALT_all c c3 fn E nu g') := by c21_eq

/-- `PLANESTRESS`, `ALTERED`: the condensed tensor -/
theorem iso_PSTRESS_ALT_reduction (E nu g g' : K) (h : Admissible E nu) :
    Gen.iso_PSTRESS_ALT_all c c3 fn E nu g = condense4 (block4 (Gen.iso_TRIDIM_UNALT_all c c3 fn E nu g')) := by
  obtain ⟨h1, h2, h3, h4, h5, h6, h7⟩ := h.dens
  have key : E * nu / ((1 - 2 * nu) * (1 + nu)) + E / (1 + nu) = E * (1 - nu) / ((1 - 2 * nu) * (1 + nu)) := by
    field_simp; ring
  c21_unfold; simp only [key]; c21_close

theorem iso_PSTRAIN_UNALT_reduction (E nu g g' : K) :
    Gen.iso_PSTRAIN_UNALT_all c c3 fn E nu g = block4 (Gen.iso_TRIDIM_UNALT_all c c3 fn E nu g') := by c21_eq

theorem iso_PSTRAIN_ALT_reduction (E nu g g' : K) :
    Gen.iso_PSTRAIN_ALT_all c c3 fn E nu g = block4 (Gen.iso_TRIDIM_UNALT_all c c3 fn E nu g') := by c21_eq

theorem iso_GPSTRAIN_UNALT_reduction (E nu g g' : K) :
    Gen.iso_GPSTRAIN_UNALT_all c c3 fn E nu g = block4 (Gen.iso_TRIDIM_UNALT_all c c3 fn E nu g') := by c21_eq

theorem iso_GPSTRAIN_ALT_reduction (E nu g g' : K) :
    Gen.iso_GPSTRAIN_ALT_all c c3 fn E nu g = block4 (Gen.iso_TRIDIM_UNALT_all c c3 fn E nu g') := by c21_eq

theorem iso_TRIDIM_ALT_reduction (E nu g g' : K) :
    Gen.iso_TRIDIM_ALT_all c c3 fn E nu g = Gen.iso_TRIDIM_UNALT_all c c3 fn E nu g' := by c21_eq

/-- the dimension-indexed entry points `computeIsotropicStiffnessTensorII<N,smt>` (used by the Cast3M and
Abaqus interfaces) return the same tensors -/
theorem isoII_N1_agree (E nu g : K) :
    Gen.isoII_N1_UNALT_all c c3 fn E nu g = Gen.iso_AGPE_UNALT_all c c3 fn E nu g
      ∧ Gen.isoII_N1_ALT_all c c3 fn E nu g = Gen.iso_AGPS_ALT_all c c3 fn E nu g := by
  constructor <;> c21_eq

theorem isoII_N2_agree (E nu g : K) :
    Gen.isoII_N2_UNALT_all c c3 fn E nu g = Gen.iso_PSTRAIN_UNALT_all c c3 fn E nu g
      ∧ Gen.isoII_N2_ALT_all c c3 fn E nu g = Gen.iso_PSTRESS_ALT_all c c3 fn E nu g := by
  constructor <;> c21_eq

theorem isoII_N3_agree (E nu g : K) :
    Gen.isoII_N3_UNALT_all c c3 fn E nu g = Gen.iso_TRIDIM_UNALT_all c c3 fn E nu g
      ∧ Gen.isoII_N3_ALT_all c c3 fn E nu g = Gen.iso_TRIDIM_ALT_all c c3 fn E nu g := by
  constructor <;> c21_eq

/-- Lame.hxx: stiffness from the Lamé coefficients, per dimension and per hypothesis -/
theorem lame_N3_spec (lam mu g : K) : Gen.lame_N3_all c c3 fn lam mu g = isoStiff lam mu := by c21_eq
theorem lame_N2_spec (lam mu g : K) : Gen.lame_N2_all c c3 fn lam mu g = block4 (isoStiff lam mu) := by c21_eq
theorem lame_N1_spec (lam mu g : K) : Gen.lame_N1_all c c3 fn lam mu g = block3 (isoStiff lam mu) := by c21_eq

theorem lame_altered_AGPE_spec (lam mu g : K) :
    Gen.lame_altered_AGPE_all c c3 fn lam mu g = block3 (isoStiff lam mu) := by c21_eq

theorem lame_altered_AGPS_spec (lam mu g : K) (hm : 0 < mu) (hb : 0 < 3 * lam + 2 * mu) :
    Gen.lame_altered_AGPS_all c c3 fn lam mu g = condense3 (block3 (isoStiff lam mu)) := by
  have h1 : lam + 2 * mu ≠ 0 := (by linarith : (0:K) < lam + 2 * mu).ne'
  have h2 : lam + mu * 2 ≠ 0 := (by linarith : (0:K) < lam + mu * 2).ne'
  c21_eq

theorem lame_altered_AXIS_spec (lam mu g : K) :
    Gen.lame_altered_AXIS_all c c3 fn lam mu g = block4 (isoStiff lam mu) := by c21_eq

theorem lame_altered_PSTRESS_spec (lam mu g : K) (hm : 0 < mu) (hb : 0 < 3 * lam + 2 * mu) :
    Gen.lame_altered_PSTRESS_all c c3 fn lam mu g = condense4 (block4 (isoStiff lam mu)) := by
  have h1 : lam + 2 * mu ≠ 0 := (by linarith : (0:K) < lam + 2 * mu).ne'
  have h2 : lam + mu * 2 ≠ 0 := (by linarith : (0:K) < lam + mu * 2).ne'
  c21_eq

theorem lame_altered_PSTRAIN_spec (lam mu g : K) :
    Gen.lame_altered_PSTRAIN_all c c3 fn lam mu g = block4 (isoStiff lam mu) := by c21_eq

theorem lame_altered_GPSTRAIN_spec (lam mu g : K) :
    Gen.lame_altered_GPSTRAIN_all c c3 fn lam mu g = block4 (isoStiff lam mu) := by c21_eq

theorem lame_altered_TRIDIM_spec (lam mu g : K) :
    Gen.lame_altered_TRIDIM_all c c3 fn lam mu g = isoStiff lam mu := by c21_eq

/-- the Lamé route and the (E, ν) route give the same tensors: `computeElasticStiffness` fed with
`computeLambda`, `computeMu` -/
theorem lame_agrees_with_young_nu (E nu g g' : K) (h : Admissible E nu) :
    app2 (fun l m => Gen.lame_N3_all c c3 fn l m g) (Gen.YN_ToLambdaMu_all c c3 fn E nu)
      = Gen.iso_TRIDIM_UNALT_all c c3 fn E nu g' := by
  obtain ⟨h1, h2, h3, h4, h5, h6, h7⟩ := h.dens
  c21_eq

/-- `ComputeAlteredStiffnessTensor<H>::exe(Da, D)`: plane stress condenses an unaltered tensor whose shear
component is uncoupled from the normal ones (every isotropic or orthotropic tensor in its material frame);
the other hypotheses copy -/
theorem alter_PSTRESS_spec (d00 d01 d02 d10 d11 d12 d20 d21 d22 d33 g : K) :
    Gen.alter_PSTRESS_all c c3 fn d00 d01 d02 0 d10 d11 d12 0 d20 d21 d22 0 0 0 0 d33 g
      = condense4 [d00, d01, d02, 0, d10, d11, d12, 0, d20, d21, d22, 0, 0, 0, 0, d33] := by c21_eq

theorem alter_AGPE_spec (d00 d01 d02 d10 d11 d12 d20 d21 d22 g : K) :
    Gen.alter_AGPE_all c c3 fn d00 d01 d02 d10 d11 d12 d20 d21 d22 g = [d00, d01, d02, d10, d11, d12, d20, d21, d22] := by c21_eq

theorem alter_AGPS_spec (d00 d01 d02 d10 d11 d12 d20 d21 d22 g : K) :
    Gen.alter_AGPS_all c c3 fn d00 d01 d02 d10 d11 d12 d20 d21 d22 g = [d00, d01, d02, d10, d11, d12, d20, d21, d22] := by c21_eq

theorem alter_AXIS_spec (d00 d01 d02 d03 d10 d11 d12 d13 d20 d21 d22 d23 d30 d31 d32 d33 g : K) :
    Gen.alter_AXIS_all c c3 fn d00 d01 d02 d03 d10 d11 d12 d13 d20 d21 d22 d23 d30 d31 d32 d33 g = [d00, d01, d02, d03, d10, d11, d12, d13, d20, d21, d22, d23, d30, d31, d32, d33] := by c21_eq

theorem alter_PSTRAIN_spec (d00 d01 d02 d03 d10 d11 d12 d13 d20 d21 d22 d23 d30 d31 d32 d33 g : K) :
    Gen.alter_PSTRAIN_all c c3 fn d00 d01 d02 d03 d10 d11 d12 d13 d20 d21 d22 d23 d30 d31 d32 d33 g = [d00, d01, d02, d03, d10, d11, d12, d13, d20, d21, d22, d23, d30, d31, d32, d33] := by c21_eq

theorem alter_GPSTRAIN_spec (d00 d01 d02 d03 d10 d11 d12 d13 d20 d21 d22 d23 d30 d31 d32 d33 g : K) :
    Gen.alter_GPSTRAIN_all c c3 fn d00 d01 d02 d03 d10 d11 d12 d13 d20 d21 d22 d23 d30 d31 d32 d33 g = [d00, d01, d02, d03, d10, d11, d12, d13, d20, d21, d22, d23, d30, d31, d32, d33] := by c21_eq

theorem alter_TRIDIM_spec (d00 d01 d02 d03 d04 d05 d10 d11 d12 d13 d14 d15 d20 d21 d22 d23 d24 d25 d30 d31 d32 d33 d34 d35 d40 d41 d42 d43 d44 d45 d50 d51 d52 d53 d54 d55 g : K) :
    Gen.alter_TRIDIM_all c c3 fn d00 d01 d02 d03 d04 d05 d10 d11 d12 d13 d14 d15 d20 d21 d22 d23 d24 d25 d30 d31 d32 d33 d34 d35 d40 d41 d42 d43 d44 d45 d50 d51 d52 d53 d54 d55 g = [d00, d01, d02, d03, d04, d05, d10, d11, d12, d13, d14, d15, d20, d21, d22, d23, d24, d25, d30, d31, d32, d33, d34, d35, d40, d41, d42, d43, d44, d45, d50, d51, d52, d53, d54, d55] := by c21_eq

/-! ## 4. Orthotropic stiffness (StiffnessTensor.ixx: `computeOrthotropicStiffnessTensor<H,smt[,c]>`,
`computeOrthotropicStiffnessTensorII<N,smt>`)

Reference: the 3D tensor `ortho_TRIDIM_UNALT`. Its normal block is the inverse of the compliance
`S = [[1/E1, -ν12/E1, -ν13/E1], [-ν12/E1, 1/E2, -ν23/E2], [-ν13/E1, -ν23/E2, 1/E3]]`, its shear block is
`diag(2 G12, 2 G13, 2 G23)` (Mandel storage, components 12, 13, 23), the rest is zero; it is symmetric and
reduces to the isotropic tensor for isotropic constants. The traced divisors are `E1, E2, E3, det S`. -/

theorem ortho_TRIDIM_dens (E1 E2 E3 nu12 nu23 nu13 G12 G23 G13 g : K) :
    Gen.ortho_TRIDIM_UNALT_dens c c3 fn E1 E2 E3 nu12 nu23 nu13 G12 G23 G13 g = [E1, E2, E3, detS E1 E2 E3 nu12 nu23 nu13] := by
  simp only [detS]; c21_eq
theorem ortho_TRIDIM_inverts_compliance (E1 E2 E3 nu12 nu23 nu13 G12 G23 G13 g : K) (h1 : E1 ≠ 0) (h2 : E2 ≠ 0) (h3 : E3 ≠ 0)
    (hd : detS E1 E2 E3 nu12 nu23 nu13 ≠ 0) :
    M3.sym (1 / E1) (1 / E2) (1 / E3) (-nu12 / E1) (-nu13 / E1) (-nu23 / E2)
        * m3OfRows (block3 (Gen.ortho_TRIDIM_UNALT_all c c3 fn E1 E2 E3 nu12 nu23 nu13 G12 G23 G13 g)) = 1 := by
  have hd' : (Gen.ortho_TRIDIM_UNALT_dens c c3 fn E1 E2 E3 nu12 nu23 nu13 G12 G23 G13 g).getD 3 0 ≠ 0 := by
    rw [ortho_TRIDIM_dens]; simpa using hd
  simp only [gen_simp, List.getD_cons_succ, List.getD_cons_zero] at hd'
  c21_unfold
  generalize_ne hd' => e he
  repeat' apply And.intro
  all_goals (field_simp; simp only [← he]; field_simp; ring1)
theorem ortho_TRIDIM_shear_and_zeros (E1 E2 E3 nu12 nu23 nu13 G12 G23 G13 g : K) :
    sub 6 [3, 4, 5] (Gen.ortho_TRIDIM_UNALT_all c c3 fn E1 E2 E3 nu12 nu23 nu13 G12 G23 G13 g)
        = [2 * G12, 0, 0, 0, 2 * G13, 0, 0, 0, 2 * G23]
      ∧ (∀ i ∈ [0, 1, 2], ∀ j ∈ [3, 4, 5],
          ent 6 (Gen.ortho_TRIDIM_UNALT_all c c3 fn E1 E2 E3 nu12 nu23 nu13 G12 G23 G13 g) i j = 0
          ∧ ent 6 (Gen.ortho_TRIDIM_UNALT_all c c3 fn E1 E2 E3 nu12 nu23 nu13 G12 G23 G13 g) j i = 0) := by
  refine ⟨by c21_eq, ?_⟩
  simp only [List.mem_cons, List.not_mem_nil, or_false, forall_eq_or_imp, forall_eq]
  c21_eq
theorem ortho_TRIDIM_symmetric (E1 E2 E3 nu12 nu23 nu13 G12 G23 G13 g : K) :
    transp 6 [0, 1, 2, 3, 4, 5] (Gen.ortho_TRIDIM_UNALT_all c c3 fn E1 E2 E3 nu12 nu23 nu13 G12 G23 G13 g)
      = Gen.ortho_TRIDIM_UNALT_all c c3 fn E1 E2 E3 nu12 nu23 nu13 G12 G23 G13 g := by c21_eq
theorem ortho_TRIDIM_isotropic_case (E nu g g' : K) (h : Admissible E nu) :
    Gen.ortho_TRIDIM_UNALT_all c c3 fn E E E nu nu nu (E / (2 * (1 + nu))) (E / (2 * (1 + nu))) (E / (2 * (1 + nu))) g
      = Gen.iso_TRIDIM_UNALT_all c c3 fn E nu g' := by
  obtain ⟨h1, h2, h3, h4, h5, h6, h7⟩ := h.dens
  have hd' : (Gen.ortho_TRIDIM_UNALT_dens c c3 fn E E E nu nu nu (E / (2 * (1 + nu))) (E / (2 * (1 + nu)))
      (E / (2 * (1 + nu))) g).getD 3 0 ≠ 0 := by
    rw [ortho_TRIDIM_dens]
    have e : detS E E E nu nu nu = (1 + nu) ^ 2 * (1 - 2 * nu) / E ^ 3 := by
      simp only [detS]; field_simp; ring
    simp only [List.getD_cons_succ, List.getD_cons_zero]
    rw [e]; positivity
  simp only [gen_simp, List.getD_cons_succ, List.getD_cons_zero] at hd'
  c21_unfold
  generalize_ne hd' => e he
  repeat' apply And.intro
  all_goals (first | trivial | (with_reducible rfl) | ring1 | (field_simp; done) | (field_simp; simp only [← he]; field_simp; first | done | ring1))

/-- exchanging the second and third material axes: constants `(E1, E3, E2, ν13, ν32 = ν23 E3/E2, ν12, G13, G23, G12)`
give the tensor with components 22↔33 and 12↔13 exchanged -/
theorem ortho_TRIDIM_swap23 (E1 E2 E3 nu12 nu23 nu13 G12 G23 G13 g g' : K) (h1 : E1 ≠ 0) (h2 : E2 ≠ 0) (h3 : E3 ≠ 0) :
    Gen.ortho_TRIDIM_UNALT_all c c3 fn E1 E3 E2 nu13 (nu23 * E3 / E2) nu12 G13 G23 G12 g
      = sub 6 [0, 2, 1, 4, 3, 5] (Gen.ortho_TRIDIM_UNALT_all c c3 fn E1 E2 E3 nu12 nu23 nu13 G12 G23 G13 g') := by
  have key : -(nu23 * E3 / E2) / E3 = -nu23 / E2 := by field_simp
  c21_unfold; simp only [key]; c21_close

/-! ### reduction to each modelling hypothesis (no axes convention argument) -/

theorem ortho_AGPE_UNALT_reduction (E1 E2 E3 nu12 nu23 nu13 G12 G23 G13 g g' : K) :
    Gen.ortho_AGPE_UNALT_all c c3 fn E1 E2 E3 nu12 nu23 nu13 G12 G23 G13 g
      = block3 (Gen.ortho_TRIDIM_UNALT_all c c3 fn E1 E2 E3 nu12 nu23 nu13 G12 G23 G13 g') := by c21_eq

theorem ortho_AGPE_ALT_reduction (E1 E2 E3 nu12 nu23 nu13 G12 G23 G13 g g' : K) :
    Gen.ortho_AGPE_ALT_all c c3 fn E1 E2 E3 nu12 nu23 nu13 G12 G23 G13 g
      = block3 (Gen.ortho_TRIDIM_UNALT_all c c3 fn E1 E2 E3 nu12 nu23 nu13 G12 G23 G13 g') := by c21_eq

theorem ortho_AGPS_UNALT_reduction (E1 E2 E3 nu12 nu23 nu13 G12 G23 G13 g g' : K) :
    Gen.ortho_AGPS_UNALT_all c c3 fn E1 E2 E3 nu12 nu23 nu13 G12 G23 G13 g
      = block3 (Gen.ortho_TRIDIM_UNALT_all c c3 fn E1 E2 E3 nu12 nu23 nu13 G12 G23 G13 g') := by c21_eq

theorem ortho_AGPS_ALT_reduction (E1 E2 E3 nu12 nu23 nu13 G12 G23 G13 g g' : K) :
    Gen.ortho_AGPS_ALT_all c c3 fn E1 E2 E3 nu12 nu23 nu13 G12 G23 G13 g
      = condense3 (block3 (Gen.ortho_TRIDIM_UNALT_all c c3 fn E1 E2 E3 nu12 nu23 nu13 G12 G23 G13 g')) := by c21_eq

theorem ortho_AXIS_UNALT_reduction (E1 E2 E3 nu12 nu23 nu13 G12 G23 G13 g g' : K) :
    Gen.ortho_AXIS_UNALT_all c c3 fn E1 E2 E3 nu12 nu23 nu13 G12 G23 G13 g
      = block4 (Gen.ortho_TRIDIM_UNALT_all c c3 fn E1 E2 E3 nu12 nu23 nu13 G12 G23 G13 g') := by c21_eq

theorem ortho_AXIS_ALT_reduction (E1 E2 E3 nu12 nu23 nu13 G12 G23 G13 g g' : K) :
    Gen.ortho_AXIS_ALT_all c c3 fn E1 E2 E3 nu12 nu23 nu13 G12 G23 G13 g
      = block4 (Gen.ortho_TRIDIM_UNALT_all c c3 fn E1 E2 E3 nu12 nu23 nu13 G12 G23 G13 g') := by c21_eq

theorem ortho_PSTRESS_UNALT_reduction (E1 E2 E3 nu12 nu23 nu13 G12 G23 G13 g g' : K) :
    Gen.ortho_PSTRESS_UNALT_all c c3 fn E1 E2 E3 nu12 nu23 nu13 G12 G23 G13 g
      = block4 (Gen.ortho_TRIDIM_UNALT_all c c3 fn E1 E2 E3 nu12 nu23 nu13 G12 G23 G13 g') := by c21_eq

theorem ortho_PSTRESS_ALT_reduction (E1 E2 E3 nu12 nu23 nu13 G12 G23 G13 g g' : K) :
    Gen.ortho_PSTRESS_ALT_all c c3 fn E1 E2 E3 nu12 nu23 nu13 G12 G23 G13 g
      = condense4 (block4 (Gen.ortho_TRIDIM_UNALT_all c c3 fn E1 E2 E3 nu12 nu23 nu13 G12 G23 G13 g')) := by c21_eq

theorem ortho_PSTRAIN_UNALT_reduction (E1 E2 E3 nu12 nu23 nu13 G12 G23 G13 g g' : K) :
    Gen.ortho_PSTRAIN_UNALT_all c c3 fn E1 E2 E3 nu12 nu23 nu13 G12 G23 G13 g
      = block4 (Gen.ortho_TRIDIM_UNALT_all c c3 fn E1 E2 E3 nu12 nu23 nu13 G12 G23 G13 g') := by c21_eq

theorem ortho_PSTRAIN_ALT_reduction (E1 E2 E3 nu12 nu23 nu13 G12 G23 G13 g g' : K) :
    Gen.ortho_PSTRAIN_ALT_all c c3 fn E1 E2 E3 nu12 nu23 nu13 G12 G23 G13 g
      = block4 (Gen.ortho_TRIDIM_UNALT_all c c3 fn E1 E2 E3 nu12 nu23 nu13 G12 G23 G13 g') := by c21_eq

theorem ortho_GPSTRAIN_UNALT_reduction (E1 E2 E3 nu12 nu23 nu13 G12 G23 G13 g g' : K) :
    Gen.ortho_GPSTRAIN_UNALT_all c c3 fn E1 E2 E3 nu12 nu23 nu13 G12 G23 G13 g
      = block4 (Gen.ortho_TRIDIM_UNALT_all c c3 fn E1 E2 E3 nu12 nu23 nu13 G12 G23 G13 g') := by c21_eq

theorem ortho_GPSTRAIN_ALT_reduction (E1 E2 E3 nu12 nu23 nu13 G12 G23 G13 g g' : K) :
    Gen.ortho_GPSTRAIN_ALT_all c c3 fn E1 E2 E3 nu12 nu23 nu13 G12 G23 G13 g
      = block4 (Gen.ortho_TRIDIM_UNALT_all c c3 fn E1 E2 E3 nu12 nu23 nu13 G12 G23 G13 g') := by c21_eq

theorem ortho_TRIDIM_ALT_reduction (E1 E2 E3 nu12 nu23 nu13 G12 G23 G13 g g' : K) :
    Gen.ortho_TRIDIM_ALT_all c c3 fn E1 E2 E3 nu12 nu23 nu13 G12 G23 G13 g
      = Gen.ortho_TRIDIM_UNALT_all c c3 fn E1 E2 E3 nu12 nu23 nu13 G12 G23 G13 g' := by c21_eq

/-! ### axes conventions: `DEFAULT` and `PLATE` never permute (`PLATE`: rolling, transverse, normal directions
are the 3D axes in every hypothesis it supports); `PIPE` exchanges the second and third material axes in the
plane hypotheses (plane stress, plane strain, generalised plane strain) and nowhere else -/

theorem ortho_AGPE_UNALT_DEFAULT_agree (E1 E2 E3 nu12 nu23 nu13 G12 G23 G13 g : K) :
    Gen.ortho_AGPE_UNALT_DEFAULT_all c c3 fn E1 E2 E3 nu12 nu23 nu13 G12 G23 G13 g = Gen.ortho_AGPE_UNALT_all c c3 fn E1 E2 E3 nu12 nu23 nu13 G12 G23 G13 g := by c21_eq

theorem ortho_AGPE_UNALT_PIPE_agree (E1 E2 E3 nu12 nu23 nu13 G12 G23 G13 g : K) :
    Gen.ortho_AGPE_UNALT_PIPE_all c c3 fn E1 E2 E3 nu12 nu23 nu13 G12 G23 G13 g = Gen.ortho_AGPE_UNALT_all c c3 fn E1 E2 E3 nu12 nu23 nu13 G12 G23 G13 g := by c21_eq

theorem ortho_AGPE_UNALT_PLATE_agree (E1 E2 E3 nu12 nu23 nu13 G12 G23 G13 g : K) :
    Gen.ortho_AGPE_UNALT_PLATE_all c c3 fn E1 E2 E3 nu12 nu23 nu13 G12 G23 G13 g = Gen.ortho_AGPE_UNALT_all c c3 fn E1 E2 E3 nu12 nu23 nu13 G12 G23 G13 g := by c21_eq

theorem ortho_AGPE_ALT_DEFAULT_agree (E1 E2 E3 nu12 nu23 nu13 G12 G23 G13 g : K) :
    Gen.ortho_AGPE_ALT_DEFAULT_all c c3 fn E1 E2 E3 nu12 nu23 nu13 G12 G23 G13 g = Gen.ortho_AGPE_ALT_all c c3 fn E1 E2 E3 nu12 nu23 nu13 G12 G23 G13 g := by c21_eq

theorem ortho_AGPE_ALT_PIPE_agree (E1 E2 E3 nu12 nu23 nu13 G12 G23 G13 g : K) :
    Gen.ortho_AGPE_ALT_PIPE_all c c3 fn E1 E2 E3 nu12 nu23 nu13 G12 G23 G13 g = Gen.ortho_AGPE_ALT_all c c3 fn E1 E2 E3 nu12 nu23 nu13 G12 G23 G13 g := by c21_eq

theorem ortho_AGPE_ALT_PLATE_agree (E1 E2 E3 nu12 nu23 nu13 G12 G23 G13 g : K) :
    Gen.ortho_AGPE_ALT_PLATE_all c c3 fn E1 E2 E3 nu12 nu23 nu13 G12 G23 G13 g = Gen.ortho_AGPE_ALT_all c c3 fn E1 E2 E3 nu12 nu23 nu13 G12 G23 G13 g := by c21_eq

theorem ortho_AGPS_UNALT_DEFAULT_agree (E1 E2 E3 nu12 nu23 nu13 G12 G23 G13 g : K) :
    Gen.ortho_AGPS_UNALT_DEFAULT_all c c3 fn E1 E2 E3 nu12 nu23 nu13 G12 G23 G13 g = Gen.ortho_AGPS_UNALT_all c c3 fn E1 E2 E3 nu12 nu23 nu13 G12 G23 G13 g := by c21_eq

theorem ortho_AGPS_UNALT_PIPE_agree (E1 E2 E3 nu12 nu23 nu13 G12 G23 G13 g : K) :
    Gen.ortho_AGPS_UNALT_PIPE_all c c3 fn E1 E2 E3 nu12 nu23 nu13 G12 G23 G13 g = Gen.ortho_AGPS_UNALT_all c c3 fn E1 E2 E3 nu12 nu23 nu13 G12 G23 G13 g := by c21_eq

theorem ortho_AGPS_UNALT_PLATE_agree (E1 E2 E3 nu12 nu23 nu13 G12 G23 G13 g : K) :
    Gen.ortho_AGPS_UNALT_PLATE_all c c3 fn E1 E2 E3 nu12 nu23 nu13 G12 G23 G13 g = Gen.ortho_AGPS_UNALT_all c c3 fn E1 E2 E3 nu12 nu23 nu13 G12 G23 G13 g := by c21_eq

theorem ortho_AGPS_ALT_DEFAULT_agree (E1 E2 E3 nu12 nu23 nu13 G12 G23 G13 g : K) :
    Gen.ortho_AGPS_ALT_DEFAULT_all c c3 fn E1 E2 E3 nu12 nu23 nu13 G12 G23 G13 g = Gen.ortho_AGPS_ALT_all c c3 fn E1 E2 E3 nu12 nu23 nu13 G12 G23 G13 g := by c21_eq

theorem ortho_AGPS_ALT_PIPE_agree (E1 E2 E3 nu12 nu23 nu13 G12 G23 G13 g : K) :
    Gen.ortho_AGPS_ALT_PIPE_all c c3 fn E1 E2 E3 nu12 nu23 nu13 G12 G23 G13 g = Gen.ortho_AGPS_ALT_all c c3 fn E1 E2 E3 nu12 nu23 nu13 G12 G23 G13 g := by c21_eq

theorem ortho_AGPS_ALT_PLATE_agree (E1 E2 E3 nu12 nu23 nu13 G12 G23 G13 g : K) :
    Gen.ortho_AGPS_ALT_PLATE_all c c3 fn E1 E2 E3 nu12 nu23 nu13 G12 G23 G13 g = Gen.ortho_AGPS_ALT_all c c3 fn E1 E2 E3 nu12 nu23 nu13 G12 G23 G13 g := by c21_eq

theorem ortho_AXIS_UNALT_DEFAULT_agree (E1 E2 E3 nu12 nu23 nu13 G12 G23 G13 g : K) :
    Gen.ortho_AXIS_UNALT_DEFAULT_all c c3 fn E1 E2 E3 nu12 nu23 nu13 G12 G23 G13 g = Gen.ortho_AXIS_UNALT_all c c3 fn E1 E2 E3 nu12 nu23 nu13 G12 G23 G13 g := by c21_eq

theorem ortho_AXIS_UNALT_PIPE_agree (E1 E2 E3 nu12 nu23 nu13 G12 G23 G13 g : K) :
    Gen.ortho_AXIS_UNALT_PIPE_all c c3 fn E1 E2 E3 nu12 nu23 nu13 G12 G23 G13 g = Gen.ortho_AXIS_UNALT_all c c3 fn E1 E2 E3 nu12 nu23 nu13 G12 G23 G13 g := by c21_eq

theorem ortho_AXIS_UNALT_PLATE_agree (E1 E2 E3 nu12 nu23 nu13 G12 G23 G13 g : K) :
    Gen.ortho_AXIS_UNALT_PLATE_all c c3 fn E1 E2 E3 nu12 nu23 nu13 G12 G23 G13 g = Gen.ortho_AXIS_UNALT_all c c3 fn E1 E2 E3 nu12 nu23 nu13 G12 G23 G13 g := by c21_eq

theorem ortho_AXIS_ALT_DEFAULT_agree (E1 E2 E3 nu12 nu23 nu13 G12 G23 G13 g : K) :
    Gen.ortho_AXIS_ALT_DEFAULT_all c c3 fn E1 E2 E3 nu12 nu23 nu13 G12 G23 G13 g = Gen.ortho_AXIS_ALT_all c c3 fn E1 E2 E3 nu12 nu23 nu13 G12 G23 G13 g := by c21_eq

theorem ortho_AXIS_ALT_PIPE_agree (E1 E2 E3 nu12 nu23 nu13 G12 G23 G13 g : K) :
    Gen.ortho_AXIS_ALT_PIPE_all c c3 fn E1 E2 E3 nu12 nu23 nu13 G12 G23 G13 g = Gen.ortho_AXIS_ALT_all c c3 fn E1 E2 E3 nu12 nu23 nu13 G12 G23 G13 g := by c21_eq

theorem ortho_AXIS_ALT_PLATE_agree (E1 E2 E3 nu12 nu23 nu13 G12 G23 G13 g : K) :
    Gen.ortho_AXIS_ALT_PLATE_all c c3 fn E1 E2 E3 nu12 nu23 nu13 G12 G23 G13 g = Gen.ortho_AXIS_ALT_all c c3 fn E1 E2 E3 nu12 nu23 nu13 G12 G23 G13 g := by c21_eq

theorem ortho_PSTRESS_UNALT_DEFAULT_agree (E1 E2 E3 nu12 nu23 nu13 G12 G23 G13 g : K) :
    Gen.ortho_PSTRESS_UNALT_DEFAULT_all c c3 fn E1 E2 E3 nu12 nu23 nu13 G12 G23 G13 g = Gen.ortho_PSTRESS_UNALT_all c c3 fn E1 E2 E3 nu12 nu23 nu13 G12 G23 G13 g := by c21_eq

theorem ortho_PSTRESS_UNALT_PIPE_swap (E1 E2 E3 nu12 nu23 nu13 G12 G23 G13 g : K) :
    Gen.ortho_PSTRESS_UNALT_PIPE_all c c3 fn E1 E2 E3 nu12 nu23 nu13 G12 G23 G13 g
      = Gen.ortho_PSTRESS_UNALT_all c c3 fn E1 E3 E2 nu13 (nu23 * E3 / E2) nu12 G13 G23 G12 g := by c21_eq
theorem ortho_PSTRESS_UNALT_PIPE_reduction (E1 E2 E3 nu12 nu23 nu13 G12 G23 G13 g g' : K) (h1 : E1 ≠ 0) (h2 : E2 ≠ 0) (h3 : E3 ≠ 0) :
    Gen.ortho_PSTRESS_UNALT_PIPE_all c c3 fn E1 E2 E3 nu12 nu23 nu13 G12 G23 G13 g
      = pipe4 (Gen.ortho_TRIDIM_UNALT_all c c3 fn E1 E2 E3 nu12 nu23 nu13 G12 G23 G13 g') := by
  rw [ortho_PSTRESS_UNALT_PIPE_swap, ortho_PSTRESS_UNALT_reduction c c3 fn E1 E3 E2 nu13 (nu23 * E3 / E2) nu12 G13 G23 G12 g g,
    ortho_TRIDIM_swap23 c c3 fn E1 E2 E3 nu12 nu23 nu13 G12 G23 G13 g g' h1 h2 h3, block4_swap23]

theorem ortho_PSTRESS_UNALT_PLATE_agree (E1 E2 E3 nu12 nu23 nu13 G12 G23 G13 g : K) :
    Gen.ortho_PSTRESS_UNALT_PLATE_all c c3 fn E1 E2 E3 nu12 nu23 nu13 G12 G23 G13 g = Gen.ortho_PSTRESS_UNALT_all c c3 fn E1 E2 E3 nu12 nu23 nu13 G12 G23 G13 g := by c21_eq

theorem ortho_PSTRESS_ALT_DEFAULT_agree (E1 E2 E3 nu12 nu23 nu13 G12 G23 G13 g : K) :
    Gen.ortho_PSTRESS_ALT_DEFAULT_all c c3 fn E1 E2 E3 nu12 nu23 nu13 G12 G23 G13 g = Gen.ortho_PSTRESS_ALT_all c c3 fn E1 E2 E3 nu12 nu23 nu13 G12 G23 G13 g := by c21_eq

theorem ortho_PSTRESS_ALT_PIPE_swap (E1 E2 E3 nu12 nu23 nu13 G12 G23 G13 g : K) :
    Gen.ortho_PSTRESS_ALT_PIPE_all c c3 fn E1 E2 E3 nu12 nu23 nu13 G12 G23 G13 g
      = Gen.ortho_PSTRESS_ALT_all c c3 fn E1 E3 E2 nu13 (nu23 * E3 / E2) nu12 G13 G23 G12 g := by c21_eq
theorem ortho_PSTRESS_ALT_PIPE_reduction (E1 E2 E3 nu12 nu23 nu13 G12 G23 G13 g g' : K) (h1 : E1 ≠ 0) (h2 : E2 ≠ 0) (h3 : E3 ≠ 0) :
    Gen.ortho_PSTRESS_ALT_PIPE_all c c3 fn E1 E2 E3 nu12 nu23 nu13 G12 G23 G13 g
      = condense4 (pipe4 (Gen.ortho_TRIDIM_UNALT_all c c3 fn E1 E2 E3 nu12 nu23 nu13 G12 G23 G13 g')) := by
  rw [ortho_PSTRESS_ALT_PIPE_swap, ortho_PSTRESS_ALT_reduction c c3 fn E1 E3 E2 nu13 (nu23 * E3 / E2) nu12 G13 G23 G12 g g,
    ortho_TRIDIM_swap23 c c3 fn E1 E2 E3 nu12 nu23 nu13 G12 G23 G13 g g' h1 h2 h3, block4_swap23]

theorem ortho_PSTRESS_ALT_PLATE_agree (E1 E2 E3 nu12 nu23 nu13 G12 G23 G13 g : K) :
    Gen.ortho_PSTRESS_ALT_PLATE_all c c3 fn E1 E2 E3 nu12 nu23 nu13 G12 G23 G13 g = Gen.ortho_PSTRESS_ALT_all c c3 fn E1 E2 E3 nu12 nu23 nu13 G12 G23 G13 g := by c21_eq

theorem ortho_PSTRAIN_UNALT_DEFAULT_agree (E1 E2 E3 nu12 nu23 nu13 G12 G23 G13 g : K) :
    Gen.ortho_PSTRAIN_UNALT_DEFAULT_all c c3 fn E1 E2 E3 nu12 nu23 nu13 G12 G23 G13 g = Gen.ortho_PSTRAIN_UNALT_all c c3 fn E1 E2 E3 nu12 nu23 nu13 G12 G23 G13 g := by c21_eq

theorem ortho_PSTRAIN_UNALT_PIPE_swap (E1 E2 E3 nu12 nu23 nu13 G12 G23 G13 g : K) :
    Gen.ortho_PSTRAIN_UNALT_PIPE_all c c3 fn E1 E2 E3 nu12 nu23 nu13 G12 G23 G13 g
      = Gen.ortho_PSTRAIN_UNALT_all c c3 fn E1 E3 E2 nu13 (nu23 * E3 / E2) nu12 G13 G23 G12 g := by c21_eq
theorem ortho_PSTRAIN_UNALT_PIPE_reduction (E1 E2 E3 nu12 nu23 nu13 G12 G23 G13 g g' : K) (h1 : E1 ≠ 0) (h2 : E2 ≠ 0) (h3 : E3 ≠ 0) :
    Gen.ortho_PSTRAIN_UNALT_PIPE_all c c3 fn E1 E2 E3 nu12 nu23 nu13 G12 G23 G13 g
      = pipe4 (Gen.ortho_TRIDIM_UNALT_all c c3 fn E1 E2 E3 nu12 nu23 nu13 G12 G23 G13 g') := by
  rw [ortho_PSTRAIN_UNALT_PIPE_swap, ortho_PSTRAIN_UNALT_reduction c c3 fn E1 E3 E2 nu13 (nu23 * E3 / E2) nu12 G13 G23 G12 g g,
    ortho_TRIDIM_swap23 c c3 fn E1 E2 E3 nu12 nu23 nu13 G12 G23 G13 g g' h1 h2 h3, block4_swap23]

theorem ortho_PSTRAIN_UNALT_PLATE_agree (E1 E2 E3 nu12 nu23 nu13 G12 G23 G13 g : K) :
    Gen.ortho_PSTRAIN_UNALT_PLATE_all c c3 fn E1 E2 E3 nu12 nu23 nu13 G12 G23 G13 g = Gen.ortho_PSTRAIN_UNALT_all c c3 fn E1 E2 E3 nu12 nu23 nu13 G12 G23 G13 g := by c21_eq

theorem ortho_PSTRAIN_ALT_DEFAULT_agree (E1 E2 E3 nu12 nu23 nu13 G12 G23 G13 g : K) :
    Gen.ortho_PSTRAIN_ALT_DEFAULT_all c c3 fn E1 E2 E3 nu12 nu23 nu13 G12 G23 G13 g = Gen.ortho_PSTRAIN_ALT_all c c3 fn E1 E2 E3 nu12 nu23 nu13 G12 G23 G13 g := by c21_eq

theorem ortho_PSTRAIN_ALT_PIPE_swap (E1 E2 E3 nu12 nu23 nu13 G12 G23 G13 g : K) :
    Gen.ortho_PSTRAIN_ALT_PIPE_all c c3 fn E1 E2 E3 nu12 nu23 nu13 G12 G23 G13 g
      = Gen.ortho_PSTRAIN_ALT_all c c3 fn E1 E3 E2 nu13 (nu23 * E3 / E2) nu12 G13 G23 G12 g := by c21_eq
theorem ortho_PSTRAIN_ALT_PIPE_reduction (E1 E2 E3 nu12 nu23 nu13 G12 G23 G13 g g' : K) (h1 : E1 ≠ 0) (h2 : E2 ≠ 0) (h3 : E3 ≠ 0) :
    Gen.ortho_PSTRAIN_ALT_PIPE_all c c3 fn E1 E2 E3 nu12 nu23 nu13 G12 G23 G13 g
      = pipe4 (Gen.ortho_TRIDIM_UNALT_all c c3 fn E1 E2 E3 nu12 nu23 nu13 G12 G23 G13 g') := by
  rw [ortho_PSTRAIN_ALT_PIPE_swap, ortho_PSTRAIN_ALT_reduction c c3 fn E1 E3 E2 nu13 (nu23 * E3 / E2) nu12 G13 G23 G12 g g,
    ortho_TRIDIM_swap23 c c3 fn E1 E2 E3 nu12 nu23 nu13 G12 G23 G13 g g' h1 h2 h3, block4_swap23]

theorem ortho_PSTRAIN_ALT_PLATE_agree (E1 E2 E3 nu12 nu23 nu13 G12 G23 G13 g : K) :
    Gen.ortho_PSTRAIN_ALT_PLATE_all c c3 fn E1 E2 E3 nu12 nu23 nu13 G12 G23 G13 g = Gen.ortho_PSTRAIN_ALT_all c c3 fn E1 E2 E3 nu12 nu23 nu13 G12 G23 G13 g := by c21_eq

theorem ortho_GPSTRAIN_UNALT_DEFAULT_agree (E1 E2 E3 nu12 nu23 nu13 G12 G23 G13 g : K) :
    Gen.ortho_GPSTRAIN_UNALT_DEFAULT_all c c3 fn E1 E2 E3 nu12 nu23 nu13 G12 G23 G13 g = Gen.ortho_GPSTRAIN_UNALT_all c c3 fn E1 E2 E3 nu12 nu23 nu13 G12 G23 G13 g := by c21_eq

theorem ortho_GPSTRAIN_UNALT_PIPE_swap (E1 E2 E3 nu12 nu23 nu13 G12 G23 G13 g : K) :
    Gen.ortho_GPSTRAIN_UNALT_PIPE_all c c3 fn E1 E2 E3 nu12 nu23 nu13 G12 G23 G13 g
      = Gen.ortho_GPSTRAIN_UNALT_all c c3 fn E1 E3 E2 nu13 (nu23 * E3 / E2) nu12 G13 G23 G12 g := by c21_eq
theorem ortho_GPSTRAIN_UNALT_PIPE_reduction (E1 E2 E3 nu12 nu23 nu13 G12 G23 G13 g g' : K) (h1 : E1 ≠ 0) (h2 : E2 ≠ 0) (h3 : E3 ≠ 0) :
    Gen.ortho_GPSTRAIN_UNALT_PIPE_all c c3 fn E1 E2 E3 nu12 nu23 nu13 G12 G23 G13 g
      = pipe4 (Gen.ortho_TRIDIM_UNALT_all c c3 fn E1 E2 E3 nu12 nu23 nu13 G12 G23 G13 g') := by
  rw [ortho_GPSTRAIN_UNALT_PIPE_swap, ortho_GPSTRAIN_UNALT_reduction c c3 fn E1 E3 E2 nu13 (nu23 * E3 / E2) nu12 G13 G23 G12 g g,
    ortho_TRIDIM_swap23 c c3 fn E1 E2 E3 nu12 nu23 nu13 G12 G23 G13 g g' h1 h2 h3, block4_swap23]

theorem ortho_GPSTRAIN_UNALT_PLATE_agree (E1 E2 E3 nu12 nu23 nu13 G12 G23 G13 g : K) :
    Gen.ortho_GPSTRAIN_UNALT_PLATE_all c c3 fn E1 E2 E3 nu12 nu23 nu13 G12 G23 G13 g = Gen.ortho_GPSTRAIN_UNALT_all c c3 fn E1 E2 E3 nu12 nu23 nu13 G12 G23 G13 g := by c21_eq

theorem ortho_GPSTRAIN_ALT_DEFAULT_agree (E1 E2 E3 nu12 nu23 nu13 G12 G23 G13 g : K) :
    Gen.ortho_GPSTRAIN_ALT_DEFAULT_all c c3 fn E1 E2 E3 nu12 nu23 nu13 G12 G23 G13 g = Gen.ortho_GPSTRAIN_ALT_all c c3 fn E1 E2 E3 nu12 nu23 nu13 G12 G23 G13 g := by c21_eq

theorem ortho_GPSTRAIN_ALT_PIPE_swap (E1 E2 E3 nu12 nu23 nu13 G12 G23 G13 g : K) :
    Gen.ortho_GPSTRAIN_ALT_PIPE_all c c3 fn E1 E2 E3 nu12 nu23 nu13 G12 G23 G13 g
      = Gen.ortho_GPSTRAIN_ALT_all c c3 fn E1 E3 E2 nu13 (nu23 * E3 / E2) nu12 G13 G23 G12 g := by c21_eq
theorem ortho_GPSTRAIN_ALT_PIPE_reduction (E1 E2 E3 nu12 nu23 nu13 G12 G23 G13 g g' : K) (h1 : E1 ≠ 0) (h2 : E2 ≠ 0) (h3 : E3 ≠ 0) :
    Gen.ortho_GPSTRAIN_ALT_PIPE_all c c3 fn E1 E2 E3 nu12 nu23 nu13 G12 G23 G13 g
      = pipe4 (Gen.ortho_TRIDIM_UNALT_all c c3 fn E1 E2 E3 nu12 nu23 nu13 G12 G23 G13 g') := by
  rw [ortho_GPSTRAIN_ALT_PIPE_swap, ortho_GPSTRAIN_ALT_reduction c c3 fn E1 E3 E2 nu13 (nu23 * E3 / E2) nu12 G13 G23 G12 g g,
    ortho_TRIDIM_swap23 c c3 fn E1 E2 E3 nu12 nu23 nu13 G12 G23 G13 g g' h1 h2 h3, block4_swap23]

theorem ortho_GPSTRAIN_ALT_PLATE_agree (E1 E2 E3 nu12 nu23 nu13 G12 G23 G13 g : K) :
    Gen.ortho_GPSTRAIN_ALT_PLATE_all c c3 fn E1 E2 E3 nu12 nu23 nu13 G12 G23 G13 g = Gen.ortho_GPSTRAIN_ALT_all c c3 fn E1 E2 E3 nu12 nu23 nu13 G12 G23 G13 g := by c21_eq

theorem ortho_TRIDIM_UNALT_DEFAULT_agree (E1 E2 E3 nu12 nu23 nu13 G12 G23 G13 g : K) :
    Gen.ortho_TRIDIM_UNALT_DEFAULT_all c c3 fn E1 E2 E3 nu12 nu23 nu13 G12 G23 G13 g = Gen.ortho_TRIDIM_UNALT_all c c3 fn E1 E2 E3 nu12 nu23 nu13 G12 G23 G13 g := by c21_eq

theorem ortho_TRIDIM_UNALT_PIPE_agree (E1 E2 E3 nu12 nu23 nu13 G12 G23 G13 g : K) :
    Gen.ortho_TRIDIM_UNALT_PIPE_all c c3 fn E1 E2 E3 nu12 nu23 nu13 G12 G23 G13 g = Gen.ortho_TRIDIM_UNALT_all c c3 fn E1 E2 E3 nu12 nu23 nu13 G12 G23 G13 g := by c21_eq

theorem ortho_TRIDIM_UNALT_PLATE_agree (E1 E2 E3 nu12 nu23 nu13 G12 G23 G13 g : K) :
    Gen.ortho_TRIDIM_UNALT_PLATE_all c c3 fn E1 E2 E3 nu12 nu23 nu13 G12 G23 G13 g = Gen.ortho_TRIDIM_UNALT_all c c3 fn E1 E2 E3 nu12 nu23 nu13 G12 G23 G13 g := by c21_eq

theorem ortho_TRIDIM_ALT_DEFAULT_agree (E1 E2 E3 nu12 nu23 nu13 G12 G23 G13 g : K) :
    Gen.ortho_TRIDIM_ALT_DEFAULT_all c c3 fn E1 E2 E3 nu12 nu23 nu13 G12 G23 G13 g = Gen.ortho_TRIDIM_ALT_all c c3 fn E1 E2 E3 nu12 nu23 nu13 G12 G23 G13 g := by c21_eq

theorem ortho_TRIDIM_ALT_PIPE_agree (E1 E2 E3 nu12 nu23 nu13 G12 G23 G13 g : K) :
    Gen.ortho_TRIDIM_ALT_PIPE_all c c3 fn E1 E2 E3 nu12 nu23 nu13 G12 G23 G13 g = Gen.ortho_TRIDIM_ALT_all c c3 fn E1 E2 E3 nu12 nu23 nu13 G12 G23 G13 g := by c21_eq

theorem ortho_TRIDIM_ALT_PLATE_agree (E1 E2 E3 nu12 nu23 nu13 G12 G23 G13 g : K) :
    Gen.ortho_TRIDIM_ALT_PLATE_all c c3 fn E1 E2 E3 nu12 nu23 nu13 G12 G23 G13 g = Gen.ortho_TRIDIM_ALT_all c c3 fn E1 E2 E3 nu12 nu23 nu13 G12 G23 G13 g := by c21_eq

/-- the dimension-indexed entry points `computeOrthotropicStiffnessTensorII<N,smt>` -/
theorem orthoII_N1_agree (E1 E2 E3 nu12 nu23 nu13 G12 G23 G13 g : K) :
    Gen.orthoII_N1_UNALT_all c c3 fn E1 E2 E3 nu12 nu23 nu13 G12 G23 G13 g = Gen.ortho_AGPE_UNALT_all c c3 fn E1 E2 E3 nu12 nu23 nu13 G12 G23 G13 g
      ∧ Gen.orthoII_N1_ALT_all c c3 fn E1 E2 E3 nu12 nu23 nu13 G12 G23 G13 g = Gen.ortho_AGPS_ALT_all c c3 fn E1 E2 E3 nu12 nu23 nu13 G12 G23 G13 g := by
  constructor <;> c21_eq

theorem orthoII_N2_agree (E1 E2 E3 nu12 nu23 nu13 G12 G23 G13 g : K) :
    Gen.orthoII_N2_UNALT_all c c3 fn E1 E2 E3 nu12 nu23 nu13 G12 G23 G13 g = Gen.ortho_PSTRAIN_UNALT_all c c3 fn E1 E2 E3 nu12 nu23 nu13 G12 G23 G13 g
      ∧ Gen.orthoII_N2_ALT_all c c3 fn E1 E2 E3 nu12 nu23 nu13 G12 G23 G13 g = Gen.ortho_PSTRESS_ALT_all c c3 fn E1 E2 E3 nu12 nu23 nu13 G12 G23 G13 g := by
  constructor <;> c21_eq

theorem orthoII_N3_agree (E1 E2 E3 nu12 nu23 nu13 G12 G23 G13 g : K) :
    Gen.orthoII_N3_UNALT_all c c3 fn E1 E2 E3 nu12 nu23 nu13 G12 G23 G13 g = Gen.ortho_TRIDIM_UNALT_all c c3 fn E1 E2 E3 nu12 nu23 nu13 G12 G23 G13 g
      ∧ Gen.orthoII_N3_ALT_all c c3 fn E1 E2 E3 nu12 nu23 nu13 G12 G23 G13 g = Gen.ortho_TRIDIM_ALT_all c c3 fn E1 E2 E3 nu12 nu23 nu13 G12 G23 G13 g := by
  constructor <;> c21_eq

/-- plane stress: the `ALTERED` orthotropic tensor is also what `ComputeAlteredStiffnessTensor` makes of the
`UNALTERED` one -/
theorem ortho_PSTRESS_ALT_eq_alter (E1 E2 E3 nu12 nu23 nu13 G12 G23 G13 g g' g'' : K) :
    Gen.ortho_PSTRESS_ALT_all c c3 fn E1 E2 E3 nu12 nu23 nu13 G12 G23 G13 g
      = app16g (Gen.alter_PSTRESS_all c c3 fn) (Gen.ortho_PSTRESS_UNALT_all c c3 fn E1 E2 E3 nu12 nu23 nu13 G12 G23 G13 g') g'' := by c21_eq

/-! ### `convertStressFreeExpansionStrain<H,c>` (OrthotropicAxesConvention.ixx): the same exchange on the
diagonal tensors expressed in the material frame -/

theorem convert_AGPE_spec (s0 s1 s2 : K) :
    Gen.convert_DEFAULT_AGPE_all c c3 fn s0 s1 s2 = [s0, s1, s2] ∧ Gen.convert_PLATE_AGPE_all c c3 fn s0 s1 s2 = [s0, s1, s2]
      ∧ Gen.convert_PIPE_AGPE_all c c3 fn s0 s1 s2 = [s0, s1, s2] := by
  refine ⟨?_, ?_, ?_⟩ <;> c21_eq

theorem convert_AGPS_spec (s0 s1 s2 : K) :
    Gen.convert_DEFAULT_AGPS_all c c3 fn s0 s1 s2 = [s0, s1, s2] ∧ Gen.convert_PLATE_AGPS_all c c3 fn s0 s1 s2 = [s0, s1, s2]
      ∧ Gen.convert_PIPE_AGPS_all c c3 fn s0 s1 s2 = [s0, s1, s2] := by
  refine ⟨?_, ?_, ?_⟩ <;> c21_eq

theorem convert_AXIS_spec (s0 s1 s2 s3 : K) :
    Gen.convert_DEFAULT_AXIS_all c c3 fn s0 s1 s2 s3 = [s0, s1, s2, s3] ∧ Gen.convert_PLATE_AXIS_all c c3 fn s0 s1 s2 s3 = [s0, s1, s2, s3]
      ∧ Gen.convert_PIPE_AXIS_all c c3 fn s0 s1 s2 s3 = [s0, s1, s2, s3] := by
  refine ⟨?_, ?_, ?_⟩ <;> c21_eq

theorem convert_PSTRESS_spec (s0 s1 s2 s3 : K) :
    Gen.convert_DEFAULT_PSTRESS_all c c3 fn s0 s1 s2 s3 = [s0, s1, s2, s3] ∧ Gen.convert_PLATE_PSTRESS_all c c3 fn s0 s1 s2 s3 = [s0, s1, s2, s3]
      ∧ Gen.convert_PIPE_PSTRESS_all c c3 fn s0 s1 s2 s3 = [s0, s2, s1, s3] := by
  refine ⟨?_, ?_, ?_⟩ <;> c21_eq

theorem convert_PSTRAIN_spec (s0 s1 s2 s3 : K) :
    Gen.convert_DEFAULT_PSTRAIN_all c c3 fn s0 s1 s2 s3 = [s0, s1, s2, s3] ∧ Gen.convert_PLATE_PSTRAIN_all c c3 fn s0 s1 s2 s3 = [s0, s1, s2, s3]
      ∧ Gen.convert_PIPE_PSTRAIN_all c c3 fn s0 s1 s2 s3 = [s0, s2, s1, s3] := by
  refine ⟨?_, ?_, ?_⟩ <;> c21_eq

theorem convert_GPSTRAIN_spec (s0 s1 s2 s3 : K) :
    Gen.convert_DEFAULT_GPSTRAIN_all c c3 fn s0 s1 s2 s3 = [s0, s1, s2, s3] ∧ Gen.convert_PLATE_GPSTRAIN_all c c3 fn s0 s1 s2 s3 = [s0, s1, s2, s3]
      ∧ Gen.convert_PIPE_GPSTRAIN_all c c3 fn s0 s1 s2 s3 = [s0, s2, s1, s3] := by
  refine ⟨?_, ?_, ?_⟩ <;> c21_eq

theorem convert_TRIDIM_spec (s0 s1 s2 s3 s4 s5 : K) :
    Gen.convert_DEFAULT_TRIDIM_all c c3 fn s0 s1 s2 s3 s4 s5 = [s0, s1, s2, s3, s4, s5] ∧ Gen.convert_PLATE_TRIDIM_all c c3 fn s0 s1 s2 s3 s4 s5 = [s0, s1, s2, s3, s4, s5]
      ∧ Gen.convert_PIPE_TRIDIM_all c c3 fn s0 s1 s2 s3 s4 s5 = [s0, s1, s2, s3, s4, s5] := by
  refine ⟨?_, ?_, ?_⟩ <;> c21_eq

/-- non-vacuity of the hypotheses used above -/
example : Admissible (200 : ℚ) (3 / 10) := by unfold Admissible; norm_num
example : detS (150 : ℚ) 120 90 (31 / 100) (27 / 100) (23 / 100) ≠ 0 := by unfold detS; norm_num

end TfelVerif.C21.Props
