/-
  C21 — Isotropic moduli and stiffness tensors are mutually consistent.

  Property theorems only (module PropsLame; the property is split over PropsModuli, PropsIso, PropsHyp,
  PropsLame, PropsOrtho so that they build in parallel and independently).
  `Gen.<unit>_all` is the list of the outputs of one traced unit: the real TFEL code (IsotropicModuli.hxx/.ixx, Lame.hxx, StiffnessTensor.ixx, OrthotropicAxesConvention.ixx)
  instantiated with the recording scalar by harness/C21/trace.cxx and regenerated on every run.
  Fourth order tensors are row-major `n×n` lists in TFEL's storage (n = 6, 4, 3 in 3D, 2D, 1D);
  the vocabulary (`isoStiff`, `block4`, `block3`, `pipe4`, `condense4`, `condense3`, `apply6`,
  `quad6`, `Admissible`) is in Lemmas.lean.

  Every tensor handed to the code as an output argument is pre-filled by the tracer with the input
  symbol `g` ("garbage"); the theorems hold for every `g`, i.e. no component is left unassigned.

  All theorems are over an arbitrary linearly ordered field `K` (so for ℝ and ℚ), for all values of
  the elastic constants allowed by the stated hypotheses.
-/
import TfelVerif.C21.Lemmas
import TfelVerif.C21.GenModuli
import TfelVerif.C21.GenHyp
import TfelVerif.C21.GenLame

namespace TfelVerif.C21.Props
open TfelVerif TfelVerif.C21
set_option linter.unusedVariables false
set_option linter.unusedSectionVars false

variable {K : Type} [Field K] [LinearOrder K] [IsStrictOrderedRing K] (c c3 : K) (fn : Fns K)

/-! ## 4. Lame.hxx (`computeElasticStiffness<N>`, `computeAlteredElasticStiffness<H>`) and
`ComputeAlteredStiffnessTensor<H>` (StiffnessTensor.ixx) -/

/-- Lame.hxx: stiffness from the Lamé coefficients, per dimension and per hypothesis -/
theorem lame_N3_spec (lam mu g : K) : Gen.lame_N3_all c c3 fn lam mu g = isoStiff lam mu := by c21_eq
theorem lame_N2_spec (lam mu g : K) : Gen.lame_N2_all c c3 fn lam mu g = block4 (isoStiff lam mu) := by c21_eq
theorem lame_N1_spec (lam mu g : K) : Gen.lame_N1_all c c3 fn lam mu g = block3 (isoStiff lam mu) := by c21_eq

theorem lame_altered_AGPE_spec (lam mu g : K) :
    Gen.lame_altered_AGPE_all c c3 fn lam mu g = block3 (isoStiff lam mu) := by c21_eq

theorem lame_altered_AGPS_spec (lam mu g : K) (hm : 0 < mu) (hb : 0 < 3 * lam + 2 * mu) :
    Gen.lame_altered_AGPS_all c c3 fn lam mu g = condense3 (block3 (isoStiff lam mu)) := by
  have h1 : lam + 2 * mu ≠ 0 := (by linarith : (0:K) < lam + 2 * mu).ne'
  have h2 : lam + mu * 2 ≠ 0 := (by linarith : (0:K) < lam + mu * 2).ne'
  c21_eq

theorem lame_altered_AXIS_spec (lam mu g : K) :
    Gen.lame_altered_AXIS_all c c3 fn lam mu g = block4 (isoStiff lam mu) := by c21_eq

theorem lame_altered_PSTRESS_spec (lam mu g : K) (hm : 0 < mu) (hb : 0 < 3 * lam + 2 * mu) :
    Gen.lame_altered_PSTRESS_all c c3 fn lam mu g = condense4 (block4 (isoStiff lam mu)) := by
  have h1 : lam + 2 * mu ≠ 0 := (by linarith : (0:K) < lam + 2 * mu).ne'
  have h2 : lam + mu * 2 ≠ 0 := (by linarith : (0:K) < lam + mu * 2).ne'
  c21_eq

theorem lame_altered_PSTRAIN_spec (lam mu g : K) :
    Gen.lame_altered_PSTRAIN_all c c3 fn lam mu g = block4 (isoStiff lam mu) := by c21_eq

theorem lame_altered_GPSTRAIN_spec (lam mu g : K) :
    Gen.lame_altered_GPSTRAIN_all c c3 fn lam mu g = block4 (isoStiff lam mu) := by c21_eq

theorem lame_altered_TRIDIM_spec (lam mu g : K) :
    Gen.lame_altered_TRIDIM_all c c3 fn lam mu g = isoStiff lam mu := by c21_eq

/-- the Lamé route and the (E, ν) route give the same tensors: `computeElasticStiffness` fed with
`computeLambda`, `computeMu` -/
theorem lame_agrees_with_young_nu (E nu g g' : K) (h : Admissible E nu) :
    app2 (fun l m => Gen.lame_N3_all c c3 fn l m g) (Gen.YN_ToLambdaMu_all c c3 fn E nu)
      = Gen.iso_TRIDIM_UNALT_all c c3 fn E nu g' := by
  obtain ⟨h1, h2, h3, h4, h5, h6, h7⟩ := h.dens
  c21_eq

/-- `ComputeAlteredStiffnessTensor<H>::exe(Da, D)`: plane stress condenses an unaltered tensor whose shear
component is uncoupled from the normal ones (every isotropic or orthotropic tensor in its material frame);
the hypotheses whose altered and unaltered tensors coincide copy. (The generic template also copies in
axisymmetrical generalised plane stress, where the altered tensor is the condensed one: that instantiation is
used nowhere and is left unspecified here.) -/
theorem alter_PSTRESS_spec (d00 d01 d02 d10 d11 d12 d20 d21 d22 d33 g : K) :
    Gen.alter_PSTRESS_all c c3 fn d00 d01 d02 0 d10 d11 d12 0 d20 d21 d22 0 0 0 0 d33 g
      = condense4 [d00, d01, d02, 0, d10, d11, d12, 0, d20, d21, d22, 0, 0, 0, 0, d33] := by c21_eq

theorem alter_AGPE_spec (d00 d01 d02 d10 d11 d12 d20 d21 d22 g : K) :
    Gen.alter_AGPE_all c c3 fn d00 d01 d02 d10 d11 d12 d20 d21 d22 g = [d00, d01, d02, d10, d11, d12, d20, d21, d22] := by c21_eq

theorem alter_AXIS_spec (d00 d01 d02 d03 d10 d11 d12 d13 d20 d21 d22 d23 d30 d31 d32 d33 g : K) :
    Gen.alter_AXIS_all c c3 fn d00 d01 d02 d03 d10 d11 d12 d13 d20 d21 d22 d23 d30 d31 d32 d33 g = [d00, d01, d02, d03, d10, d11, d12, d13, d20, d21, d22, d23, d30, d31, d32, d33] := by c21_eq

theorem alter_PSTRAIN_spec (d00 d01 d02 d03 d10 d11 d12 d13 d20 d21 d22 d23 d30 d31 d32 d33 g : K) :
    Gen.alter_PSTRAIN_all c c3 fn d00 d01 d02 d03 d10 d11 d12 d13 d20 d21 d22 d23 d30 d31 d32 d33 g = [d00, d01, d02, d03, d10, d11, d12, d13, d20, d21, d22, d23, d30, d31, d32, d33] := by c21_eq

theorem alter_GPSTRAIN_spec (d00 d01 d02 d03 d10 d11 d12 d13 d20 d21 d22 d23 d30 d31 d32 d33 g : K) :
    Gen.alter_GPSTRAIN_all c c3 fn d00 d01 d02 d03 d10 d11 d12 d13 d20 d21 d22 d23 d30 d31 d32 d33 g = [d00, d01, d02, d03, d10, d11, d12, d13, d20, d21, d22, d23, d30, d31, d32, d33] := by c21_eq

theorem alter_TRIDIM_spec (d00 d01 d02 d03 d04 d05 d10 d11 d12 d13 d14 d15 d20 d21 d22 d23 d24 d25 d30 d31 d32 d33 d34 d35 d40 d41 d42 d43 d44 d45 d50 d51 d52 d53 d54 d55 g : K) :
    Gen.alter_TRIDIM_all c c3 fn d00 d01 d02 d03 d04 d05 d10 d11 d12 d13 d14 d15 d20 d21 d22 d23 d24 d25 d30 d31 d32 d33 d34 d35 d40 d41 d42 d43 d44 d45 d50 d51 d52 d53 d54 d55 g = [d00, d01, d02, d03, d04, d05, d10, d11, d12, d13, d14, d15, d20, d21, d22, d23, d24, d25, d30, d31, d32, d33, d34, d35, d40, d41, d42, d43, d44, d45, d50, d51, d52, d53, d54, d55] := by c21_eq

end TfelVerif.C21.Props
