/-
  C21 — Isotropic moduli and stiffness tensors are mutually consistent.

  Property theorems only (module PropsHyp; the property is split over PropsModuli, PropsIso, PropsHyp,
  PropsLame, PropsOrtho so that they build in parallel and independently).
  `Gen.<unit>_all` is the list of the outputs of one traced unit: the real TFEL code (IsotropicModuli.hxx/.ixx, Lame.hxx, StiffnessTensor.ixx, OrthotropicAxesConvention.ixx)
  instantiated with the recording scalar by harness/C21/trace.cxx and regenerated on every run.
  Fourth order tensors are row-major `n×n` lists in TFEL's storage (n = 6, 4, 3 in 3D, 2D, 1D);
  the vocabulary (`isoStiff`, `block4`, `block3`, `pipe4`, `condense4`, `condense3`, `apply6`,
  `quad6`, `Admissible`) is in Lemmas.lean.

  Every tensor handed to the code as an output argument is pre-filled by the tracer with the input
  symbol `g` ("garbage"); the theorems hold for every `g`, i.e. no component is left unassigned.

  All theorems are over an arbitrary linearly ordered field `K` (so for ℝ and ℚ), for all values of
  the elastic constants allowed by the stated hypotheses.
-/
import TfelVerif.C21.Lemmas
import TfelVerif.C21.GenModuli
import TfelVerif.C21.GenIso
import TfelVerif.C21.GenHyp

namespace TfelVerif.C21.Props
open TfelVerif TfelVerif.C21
set_option linter.unusedVariables false
set_option linter.unusedSectionVars false

variable {K : Type} [Field K] [LinearOrder K] [IsStrictOrderedRing K] (c c3 : K) (fn : Fns K)

/-! ## 3. Isotropic stiffness per modelling hypothesis (StiffnessTensor.ixx: `computeIsotropicStiffnessTensor<H,smt>`,
`computeIsotropicStiffnessTensorII<N,smt>`; Lame.hxx: `computeElasticStiffness<N>`, `computeAlteredElasticStiffness<H>`)

Reference: the 3D tensor `iso_TRIDIM_UNALT`, which is `λ I⊗I + 2μ Id` with the Lamé coefficients of (E, ν).
Every other hypothesis returns its sub-block (`block4`: 11,22,33,12; `block3`: 11,22,33); in plane stress and
axisymmetrical generalised plane stress the `ALTERED` tensor is the condensed one (`condense4`/`condense3`:
Schur complement with respect to the stress-free normal component — the third one in plane stress, the second one (`zz`) in 1D — whose row and column are zero). `g`, `g'` are the
garbage pre-filled in the output tensors. -/

theorem iso_TRIDIM_spec (E nu g : K) :
    Gen.iso_TRIDIM_UNALT_all c c3 fn E nu g = isoStiff (nu * E / ((1 + nu) * (1 - 2 * nu))) (E / (2 * (1 + nu))) := by
  c21_eq
theorem iso_TRIDIM_eq_stiffness_YN (E nu g : K) (h : Admissible E nu) :
    Gen.iso_TRIDIM_UNALT_all c c3 fn E nu g = Gen.stiffness_YN_all c c3 fn E nu := by
  obtain ⟨h1, h2, h3, h4, h5, h6, h7⟩ := h.dens
  have e1 : Gen.stiffness_YN_all c c3 fn E nu
      = app2 (Gen.stiffness_KG_all c c3 fn) (Gen.YN_ToKG_all c c3 fn E nu) := by c21_eq
  have e2 : Gen.YN_ToKG_all c c3 fn E nu = [E / (3 * (1 - 2 * nu)), E / (2 * (1 + nu))] := by c21_eq
  have e3 : ∀ k m : K, Gen.stiffness_KG_all c c3 fn k m = isoStiff (k - 2 * m / 3) m := by intro k m; c21_eq
  rw [iso_TRIDIM_spec, e1, e2]
  simp only [app2, List.getD_cons_succ, List.getD_cons_zero]
  rw [e3]
  congr 1
  field_simp; ring1

theorem iso_AGPE_UNALT_reduction (E nu g g' : K) :
    Gen.iso_AGPE_UNALT_all c c3 fn E nu g = block3 (Gen.iso_TRIDIM_UNALT_all c c3 fn E nu g') := by c21_eq

theorem iso_AGPE_ALT_reduction (E nu g g' : K) :
    Gen.iso_AGPE_ALT_all c c3 fn E nu g = block3 (Gen.iso_TRIDIM_UNALT_all c c3 fn E nu g') := by c21_eq

theorem iso_AGPS_UNALT_reduction (E nu g g' : K) :
    Gen.iso_AGPS_UNALT_all c c3 fn E nu g = block3 (Gen.iso_TRIDIM_UNALT_all c c3 fn E nu g') := by c21_eq

/-- `AXISYMMETRICALGENERALISEDPLANESTRESS`, `ALTERED`: the condensed tensor -/
theorem iso_AGPS_ALT_reduction (E nu g g' : K) (h : Admissible E nu) :
    Gen.iso_AGPS_ALT_all c c3 fn E nu g = condense3 (block3 (Gen.iso_TRIDIM_UNALT_all c c3 fn E nu g')) := by
  obtain ⟨h1, h2, h3, h4, h5, h6, h7⟩ := h.dens
  have key : E * nu / ((1 - 2 * nu) * (1 + nu)) + E / (1 + nu) = E * (1 - nu) / ((1 - 2 * nu) * (1 + nu)) := by
    field_simp; ring
  c21_unfold; simp only [key]; c21_close

theorem iso_AXIS_UNALT_reduction (E nu g g' : K) :
    Gen.iso_AXIS_UNALT_all c c3 fn E nu g = block4 (Gen.iso_TRIDIM_UNALT_all c c3 fn E nu g') := by c21_eq

theorem iso_AXIS_ALT_reduction (E nu g g' : K) :
    Gen.iso_AXIS_ALT_all c c3 fn E nu g = block4 (Gen.iso_TRIDIM_UNALT_all c c3 fn E nu g') := by c21_eq

theorem iso_PSTRESS_UNALT_reduction (E nu g g' : K) :
    Gen.iso_PSTRESS_UNALT_all c c3 fn E nu g = block4 (Gen.iso_TRIDIM_UNALT_all c c3 fn E nu g') := by c21_eq

/-- `PLANESTRESS`, `ALTERED`: the condensed tensor -/
theorem iso_PSTRESS_ALT_reduction (E nu g g' : K) (h : Admissible E nu) :
    Gen.iso_PSTRESS_ALT_all c c3 fn E nu g = condense4 (block4 (Gen.iso_TRIDIM_UNALT_all c c3 fn E nu g')) := by
  obtain ⟨h1, h2, h3, h4, h5, h6, h7⟩ := h.dens
  have key : E * nu / ((1 - 2 * nu) * (1 + nu)) + E / (1 + nu) = E * (1 - nu) / ((1 - 2 * nu) * (1 + nu)) := by
    field_simp; ring
  c21_unfold; simp only [key]; c21_close

theorem iso_PSTRAIN_UNALT_reduction (E nu g g' : K) :
    Gen.iso_PSTRAIN_UNALT_all c c3 fn E nu g = block4 (Gen.iso_TRIDIM_UNALT_all c c3 fn E nu g') := by c21_eq

theorem iso_PSTRAIN_ALT_reduction (E nu g g' : K) :
    Gen.iso_PSTRAIN_ALT_all c c3 fn E nu g = block4 (Gen.iso_TRIDIM_UNALT_all c c3 fn E nu g') := by c21_eq

theorem iso_GPSTRAIN_UNALT_reduction (E nu g g' : K) :
    Gen.iso_GPSTRAIN_UNALT_all c c3 fn E nu g = block4 (Gen.iso_TRIDIM_UNALT_all c c3 fn E nu g') := by c21_eq

theorem iso_GPSTRAIN_ALT_reduction (E nu g g' : K) :
    Gen.iso_GPSTRAIN_ALT_all c c3 fn E nu g = block4 (Gen.iso_TRIDIM_UNALT_all c c3 fn E nu g') := by c21_eq

theorem iso_TRIDIM_ALT_reduction (E nu g g' : K) :
    Gen.iso_TRIDIM_ALT_all c c3 fn E nu g = Gen.iso_TRIDIM_UNALT_all c c3 fn E nu g' := by c21_eq

/-- the dimension-indexed entry points `computeIsotropicStiffnessTensorII<N,smt>` (used by the Cast3M and
Abaqus interfaces) return the same tensors -/
theorem isoII_N1_agree (E nu g : K) :
    Gen.isoII_N1_UNALT_all c c3 fn E nu g = Gen.iso_AGPE_UNALT_all c c3 fn E nu g
      ∧ Gen.isoII_N1_ALT_all c c3 fn E nu g = Gen.iso_AGPS_ALT_all c c3 fn E nu g := by
  constructor <;> c21_eq

theorem isoII_N2_agree (E nu g : K) :
    Gen.isoII_N2_UNALT_all c c3 fn E nu g = Gen.iso_PSTRAIN_UNALT_all c c3 fn E nu g
      ∧ Gen.isoII_N2_ALT_all c c3 fn E nu g = Gen.iso_PSTRESS_ALT_all c c3 fn E nu g := by
  constructor <;> c21_eq

theorem isoII_N3_agree (E nu g : K) :
    Gen.isoII_N3_UNALT_all c c3 fn E nu g = Gen.iso_TRIDIM_UNALT_all c c3 fn E nu g
      ∧ Gen.isoII_N3_ALT_all c c3 fn E nu g = Gen.iso_TRIDIM_ALT_all c c3 fn E nu g := by
  constructor <;> c21_eq

end TfelVerif.C21.Props
