/-
  C21 — Isotropic moduli and stiffness tensors are mutually consistent.

  Property theorems only (module PropsOrtho; the property is split over PropsModuli, PropsIso, PropsHyp,
  PropsLame, PropsOrtho so that they build in parallel and independently).
  `Gen.<unit>_all` is the list of the outputs of one traced unit: the real TFEL code (IsotropicModuli.hxx/.ixx, Lame.hxx, StiffnessTensor.ixx, OrthotropicAxesConvention.ixx)
  instantiated with the recording scalar by harness/C21/trace.cxx and regenerated on every run.
  Fourth order tensors are row-major `n×n` lists in TFEL's storage (n = 6, 4, 3 in 3D, 2D, 1D);
  the vocabulary (`isoStiff`, `block4`, `block3`, `pipe4`, `condense4`, `condense3`, `apply6`,
  `quad6`, `Admissible`) is in Lemmas.lean.

  Every tensor handed to the code as an output argument is pre-filled by the tracer with the input
  symbol `g` ("garbage"); the theorems hold for every `g`, i.e. no component is left unassigned.

  All theorems are over an arbitrary linearly ordered field `K` (so for ℝ and ℚ), for all values of
  the elastic constants allowed by the stated hypotheses.
-/
import TfelVerif.C21.Lemmas
import TfelVerif.C21.GenHyp
import TfelVerif.C21.GenLame
import TfelVerif.C21.GenOrtho

namespace TfelVerif.C21.Props
open TfelVerif TfelVerif.C21
set_option linter.unusedVariables false
set_option linter.unusedSectionVars false

variable {K : Type} [Field K] [LinearOrder K] [IsStrictOrderedRing K] (c c3 : K) (fn : Fns K)

/-! ## 5. Orthotropic stiffness (StiffnessTensor.ixx: `computeOrthotropicStiffnessTensor<H,smt[,c]>`,
`computeOrthotropicStiffnessTensorII<N,smt>`)

Reference: the 3D tensor `ortho_TRIDIM_UNALT`. Its normal block is the inverse of the compliance
`S = [[1/E1, -ν12/E1, -ν13/E1], [-ν12/E1, 1/E2, -ν23/E2], [-ν13/E1, -ν23/E2, 1/E3]]`, its shear block is
`diag(2 G12, 2 G13, 2 G23)` (Mandel storage, components 12, 13, 23), the rest is zero; it is symmetric and
reduces to the isotropic tensor for isotropic constants. The traced divisors are `E1, E2, E3, det S`. -/

theorem ortho_TRIDIM_dens (E1 E2 E3 nu12 nu23 nu13 G12 G23 G13 g : K) :
    Gen.ortho_TRIDIM_UNALT_dens c c3 fn E1 E2 E3 nu12 nu23 nu13 G12 G23 G13 g = [E1, E2, E3, detS E1 E2 E3 nu12 nu23 nu13] := by
  simp only [detS]; c21_eq
theorem ortho_TRIDIM_inverts_compliance (E1 E2 E3 nu12 nu23 nu13 G12 G23 G13 g : K) (h1 : E1 ≠ 0) (h2 : E2 ≠ 0) (h3 : E3 ≠ 0)
    (hd : detS E1 E2 E3 nu12 nu23 nu13 ≠ 0) :
    M3.sym (1 / E1) (1 / E2) (1 / E3) (-nu12 / E1) (-nu13 / E1) (-nu23 / E2)
        * m3OfRows (block3 (Gen.ortho_TRIDIM_UNALT_all c c3 fn E1 E2 E3 nu12 nu23 nu13 G12 G23 G13 g)) = 1 := by
  have hd' : (Gen.ortho_TRIDIM_UNALT_dens c c3 fn E1 E2 E3 nu12 nu23 nu13 G12 G23 G13 g).getD 3 0 ≠ 0 := by
    rw [ortho_TRIDIM_dens]; simpa using hd
  simp only [gen_simp, List.getD_cons_succ, List.getD_cons_zero] at hd'
  c21_unfold
  generalize_ne hd' => e he
  repeat' apply And.intro
  all_goals (field_simp; simp only [← he]; field_simp; ring1)
theorem ortho_TRIDIM_shear_and_zeros (E1 E2 E3 nu12 nu23 nu13 G12 G23 G13 g : K) :
    sub 6 [3, 4, 5] (Gen.ortho_TRIDIM_UNALT_all c c3 fn E1 E2 E3 nu12 nu23 nu13 G12 G23 G13 g)
        = [2 * G12, 0, 0, 0, 2 * G13, 0, 0, 0, 2 * G23]
      ∧ (∀ i ∈ [0, 1, 2], ∀ j ∈ [3, 4, 5],
          ent 6 (Gen.ortho_TRIDIM_UNALT_all c c3 fn E1 E2 E3 nu12 nu23 nu13 G12 G23 G13 g) i j = 0
          ∧ ent 6 (Gen.ortho_TRIDIM_UNALT_all c c3 fn E1 E2 E3 nu12 nu23 nu13 G12 G23 G13 g) j i = 0) := by
  refine ⟨by c21_eq, ?_⟩
  simp only [List.mem_cons, List.not_mem_nil, or_false, forall_eq_or_imp, forall_eq]
  c21_eq
theorem ortho_TRIDIM_symmetric (E1 E2 E3 nu12 nu23 nu13 G12 G23 G13 g : K) :
    transp 6 [0, 1, 2, 3, 4, 5] (Gen.ortho_TRIDIM_UNALT_all c c3 fn E1 E2 E3 nu12 nu23 nu13 G12 G23 G13 g)
      = Gen.ortho_TRIDIM_UNALT_all c c3 fn E1 E2 E3 nu12 nu23 nu13 G12 G23 G13 g := by c21_eq
theorem ortho_TRIDIM_isotropic_case (E nu g g' : K) (h : Admissible E nu) :
    Gen.ortho_TRIDIM_UNALT_all c c3 fn E E E nu nu nu (E / (2 * (1 + nu))) (E / (2 * (1 + nu))) (E / (2 * (1 + nu))) g
      = Gen.iso_TRIDIM_UNALT_all c c3 fn E nu g' := by
  obtain ⟨h1, h2, h3, h4, h5, h6, h7⟩ := h.dens
  have hd' : (Gen.ortho_TRIDIM_UNALT_dens c c3 fn E E E nu nu nu (E / (2 * (1 + nu))) (E / (2 * (1 + nu)))
      (E / (2 * (1 + nu))) g).getD 3 0 ≠ 0 := by
    rw [ortho_TRIDIM_dens]
    have e : detS E E E nu nu nu = (1 + nu) ^ 2 * (1 - 2 * nu) / E ^ 3 := by
      simp only [detS]; field_simp; ring
    simp only [List.getD_cons_succ, List.getD_cons_zero]
    rw [e]; positivity
  simp only [gen_simp, List.getD_cons_succ, List.getD_cons_zero] at hd'
  c21_unfold
  generalize_ne hd' => e he
  repeat' apply And.intro
  all_goals (first | trivial | (with_reducible rfl) | ring1 | (field_simp; done) | (field_simp; simp only [← he]; field_simp; first | done | ring1))

/-- exchanging the second and third material axes: constants `(E1, E3, E2, ν13, ν32 = ν23 E3/E2, ν12, G13, G23, G12)`
give the tensor with components 22↔33 and 12↔13 exchanged -/
theorem ortho_TRIDIM_swap23 (E1 E2 E3 nu12 nu23 nu13 G12 G23 G13 g g' : K) (h1 : E1 ≠ 0) (h2 : E2 ≠ 0) (h3 : E3 ≠ 0) :
    Gen.ortho_TRIDIM_UNALT_all c c3 fn E1 E3 E2 nu13 (nu23 * E3 / E2) nu12 G13 G23 G12 g
      = sub 6 [0, 2, 1, 4, 3, 5] (Gen.ortho_TRIDIM_UNALT_all c c3 fn E1 E2 E3 nu12 nu23 nu13 G12 G23 G13 g') := by
  have key : -(nu23 * E3 / E2) / E3 = -nu23 / E2 := by field_simp
  c21_unfold; simp only [key]; c21_close

/-! ### reduction to each modelling hypothesis (no axes convention argument) -/

theorem ortho_AGPE_UNALT_reduction (E1 E2 E3 nu12 nu23 nu13 G12 G23 G13 g g' : K) :
    Gen.ortho_AGPE_UNALT_all c c3 fn E1 E2 E3 nu12 nu23 nu13 G12 G23 G13 g
      = block3 (Gen.ortho_TRIDIM_UNALT_all c c3 fn E1 E2 E3 nu12 nu23 nu13 G12 G23 G13 g') := by c21_eq

theorem ortho_AGPE_ALT_reduction (E1 E2 E3 nu12 nu23 nu13 G12 G23 G13 g g' : K) :
    Gen.ortho_AGPE_ALT_all c c3 fn E1 E2 E3 nu12 nu23 nu13 G12 G23 G13 g
      = block3 (Gen.ortho_TRIDIM_UNALT_all c c3 fn E1 E2 E3 nu12 nu23 nu13 G12 G23 G13 g') := by c21_eq

theorem ortho_AGPS_UNALT_reduction (E1 E2 E3 nu12 nu23 nu13 G12 G23 G13 g g' : K) :
    Gen.ortho_AGPS_UNALT_all c c3 fn E1 E2 E3 nu12 nu23 nu13 G12 G23 G13 g
      = block3 (Gen.ortho_TRIDIM_UNALT_all c c3 fn E1 E2 E3 nu12 nu23 nu13 G12 G23 G13 g') := by c21_eq

theorem ortho_AGPS_ALT_reduction (E1 E2 E3 nu12 nu23 nu13 G12 G23 G13 g g' : K) :
    Gen.ortho_AGPS_ALT_all c c3 fn E1 E2 E3 nu12 nu23 nu13 G12 G23 G13 g
      = condense3 (block3 (Gen.ortho_TRIDIM_UNALT_all c c3 fn E1 E2 E3 nu12 nu23 nu13 G12 G23 G13 g')) := by c21_eq

theorem ortho_AXIS_UNALT_reduction (E1 E2 E3 nu12 nu23 nu13 G12 G23 G13 g g' : K) :
    Gen.ortho_AXIS_UNALT_all c c3 fn E1 E2 E3 nu12 nu23 nu13 G12 G23 G13 g
      = block4 (Gen.ortho_TRIDIM_UNALT_all c c3 fn E1 E2 E3 nu12 nu23 nu13 G12 G23 G13 g') := by c21_eq

theorem ortho_AXIS_ALT_reduction (E1 E2 E3 nu12 nu23 nu13 G12 G23 G13 g g' : K) :
    Gen.ortho_AXIS_ALT_all c c3 fn E1 E2 E3 nu12 nu23 nu13 G12 G23 G13 g
      = block4 (Gen.ortho_TRIDIM_UNALT_all c c3 fn E1 E2 E3 nu12 nu23 nu13 G12 G23 G13 g') := by c21_eq

theorem ortho_PSTRESS_UNALT_reduction (E1 E2 E3 nu12 nu23 nu13 G12 G23 G13 g g' : K) :
    Gen.ortho_PSTRESS_UNALT_all c c3 fn E1 E2 E3 nu12 nu23 nu13 G12 G23 G13 g
      = block4 (Gen.ortho_TRIDIM_UNALT_all c c3 fn E1 E2 E3 nu12 nu23 nu13 G12 G23 G13 g') := by c21_eq

theorem ortho_PSTRESS_ALT_reduction (E1 E2 E3 nu12 nu23 nu13 G12 G23 G13 g g' : K) :
    Gen.ortho_PSTRESS_ALT_all c c3 fn E1 E2 E3 nu12 nu23 nu13 G12 G23 G13 g
      = condense4 (block4 (Gen.ortho_TRIDIM_UNALT_all c c3 fn E1 E2 E3 nu12 nu23 nu13 G12 G23 G13 g')) := by c21_eq

theorem ortho_PSTRAIN_UNALT_reduction (E1 E2 E3 nu12 nu23 nu13 G12 G23 G13 g g' : K) :
    Gen.ortho_PSTRAIN_UNALT_all c c3 fn E1 E2 E3 nu12 nu23 nu13 G12 G23 G13 g
      = block4 (Gen.ortho_TRIDIM_UNALT_all c c3 fn E1 E2 E3 nu12 nu23 nu13 G12 G23 G13 g') := by c21_eq

theorem ortho_PSTRAIN_ALT_reduction (E1 E2 E3 nu12 nu23 nu13 G12 G23 G13 g g' : K) :
    Gen.ortho_PSTRAIN_ALT_all c c3 fn E1 E2 E3 nu12 nu23 nu13 G12 G23 G13 g
      = block4 (Gen.ortho_TRIDIM_UNALT_all c c3 fn E1 E2 E3 nu12 nu23 nu13 G12 G23 G13 g') := by c21_eq

theorem ortho_GPSTRAIN_UNALT_reduction (E1 E2 E3 nu12 nu23 nu13 G12 G23 G13 g g' : K) :
    Gen.ortho_GPSTRAIN_UNALT_all c c3 fn E1 E2 E3 nu12 nu23 nu13 G12 G23 G13 g
      = block4 (Gen.ortho_TRIDIM_UNALT_all c c3 fn E1 E2 E3 nu12 nu23 nu13 G12 G23 G13 g') := by c21_eq

theorem ortho_GPSTRAIN_ALT_reduction (E1 E2 E3 nu12 nu23 nu13 G12 G23 G13 g g' : K) :
    Gen.ortho_GPSTRAIN_ALT_all c c3 fn E1 E2 E3 nu12 nu23 nu13 G12 G23 G13 g
      = block4 (Gen.ortho_TRIDIM_UNALT_all c c3 fn E1 E2 E3 nu12 nu23 nu13 G12 G23 G13 g') := by c21_eq

theorem ortho_TRIDIM_ALT_reduction (E1 E2 E3 nu12 nu23 nu13 G12 G23 G13 g g' : K) :
    Gen.ortho_TRIDIM_ALT_all c c3 fn E1 E2 E3 nu12 nu23 nu13 G12 G23 G13 g
      = Gen.ortho_TRIDIM_UNALT_all c c3 fn E1 E2 E3 nu12 nu23 nu13 G12 G23 G13 g' := by c21_eq

/-! ### axes conventions: `DEFAULT` and `PLATE` never permute (`PLATE`: rolling, transverse, normal directions
are the 3D axes in every hypothesis it supports); `PIPE` exchanges the second and third material axes in the
plane hypotheses (plane stress, plane strain, generalised plane strain) and nowhere else -/

theorem ortho_AGPE_UNALT_DEFAULT_agree (E1 E2 E3 nu12 nu23 nu13 G12 G23 G13 g : K) :
    Gen.ortho_AGPE_UNALT_DEFAULT_all c c3 fn E1 E2 E3 nu12 nu23 nu13 G12 G23 G13 g = Gen.ortho_AGPE_UNALT_all c c3 fn E1 E2 E3 nu12 nu23 nu13 G12 G23 G13 g := by c21_eq

theorem ortho_AGPE_UNALT_PIPE_agree (E1 E2 E3 nu12 nu23 nu13 G12 G23 G13 g : K) :
    Gen.ortho_AGPE_UNALT_PIPE_all c c3 fn E1 E2 E3 nu12 nu23 nu13 G12 G23 G13 g = Gen.ortho_AGPE_UNALT_all c c3 fn E1 E2 E3 nu12 nu23 nu13 G12 G23 G13 g := by c21_eq

theorem ortho_AGPE_UNALT_PLATE_agree (E1 E2 E3 nu12 nu23 nu13 G12 G23 G13 g : K) :
    Gen.ortho_AGPE_UNALT_PLATE_all c c3 fn E1 E2 E3 nu12 nu23 nu13 G12 G23 G13 g = Gen.ortho_AGPE_UNALT_all c c3 fn E1 E2 E3 nu12 nu23 nu13 G12 G23 G13 g := by c21_eq

theorem ortho_AGPE_ALT_DEFAULT_agree (E1 E2 E3 nu12 nu23 nu13 G12 G23 G13 g : K) :
    Gen.ortho_AGPE_ALT_DEFAULT_all c c3 fn E1 E2 E3 nu12 nu23 nu13 G12 G23 G13 g = Gen.ortho_AGPE_ALT_all c c3 fn E1 E2 E3 nu12 nu23 nu13 G12 G23 G13 g := by c21_eq

theorem ortho_AGPE_ALT_PIPE_agree (E1 E2 E3 nu12 nu23 nu13 G12 G23 G13 g : K) :
    Gen.ortho_AGPE_ALT_PIPE_all c c3 fn E1 E2 E3 nu12 nu23 nu13 G12 G23 G13 g = Gen.ortho_AGPE_ALT_all c c3 fn E1 E2 E3 nu12 nu23 nu13 G12 G23 G13 g := by c21_eq

theorem ortho_AGPE_ALT_PLATE_agree (E1 E2 E3 nu12 nu23 nu13 G12 G23 G13 g : K) :
    Gen.ortho_AGPE_ALT_PLATE_all c c3 fn E1 E2 E3 nu12 nu23 nu13 G12 G23 G13 g = Gen.ortho_AGPE_ALT_all c c3 fn E1 E2 E3 nu12 nu23 nu13 G12 G23 G13 g := by c21_eq

theorem ortho_AGPS_UNALT_DEFAULT_agree (E1 E2 E3 nu12 nu23 nu13 G12 G23 G13 g : K) :
    Gen.ortho_AGPS_UNALT_DEFAULT_all c c3 fn E1 E2 E3 nu12 nu23 nu13 G12 G23 G13 g = Gen.ortho_AGPS_UNALT_all c c3 fn E1 E2 E3 nu12 nu23 nu13 G12 G23 G13 g := by c21_eq

theorem ortho_AGPS_UNALT_PIPE_agree (E1 E2 E3 nu12 nu23 nu13 G12 G23 G13 g : K) :
    Gen.ortho_AGPS_UNALT_PIPE_all c c3 fn E1 E2 E3 nu12 nu23 nu13 G12 G23 G13 g = Gen.ortho_AGPS_UNALT_all c c3 fn E1 E2 E3 nu12 nu23 nu13 G12 G23 G13 g := by c21_eq

theorem ortho_AGPS_UNALT_PLATE_agree (E1 E2 E3 nu12 nu23 nu13 G12 G23 G13 g : K) :
    Gen.ortho_AGPS_UNALT_PLATE_all c c3 fn E1 E2 E3 nu12 nu23 nu13 G12 G23 G13 g = Gen.ortho_AGPS_UNALT_all c c3 fn E1 E2 E3 nu12 nu23 nu13 G12 G23 G13 g := by c21_eq

theorem ortho_AGPS_ALT_DEFAULT_agree (E1 E2 E3 nu12 nu23 nu13 G12 G23 G13 g : K) :
    Gen.ortho_AGPS_ALT_DEFAULT_all c c3 fn E1 E2 E3 nu12 nu23 nu13 G12 G23 G13 g = Gen.ortho_AGPS_ALT_all c c3 fn E1 E2 E3 nu12 nu23 nu13 G12 G23 G13 g := by c21_eq

theorem ortho_AGPS_ALT_PIPE_agree (E1 E2 E3 nu12 nu23 nu13 G12 G23 G13 g : K) :
    Gen.ortho_AGPS_ALT_PIPE_all c c3 fn E1 E2 E3 nu12 nu23 nu13 G12 G23 G13 g = Gen.ortho_AGPS_ALT_all c c3 fn E1 E2 E3 nu12 nu23 nu13 G12 G23 G13 g := by c21_eq

theorem ortho_AGPS_ALT_PLATE_agree (E1 E2 E3 nu12 nu23 nu13 G12 G23 G13 g : K) :
    Gen.ortho_AGPS_ALT_PLATE_all c c3 fn E1 E2 E3 nu12 nu23 nu13 G12 G23 G13 g = Gen.ortho_AGPS_ALT_all c c3 fn E1 E2 E3 nu12 nu23 nu13 G12 G23 G13 g := by c21_eq

theorem ortho_AXIS_UNALT_DEFAULT_agree (E1 E2 E3 nu12 nu23 nu13 G12 G23 G13 g : K) :
    Gen.ortho_AXIS_UNALT_DEFAULT_all c c3 fn E1 E2 E3 nu12 nu23 nu13 G12 G23 G13 g = Gen.ortho_AXIS_UNALT_all c c3 fn E1 E2 E3 nu12 nu23 nu13 G12 G23 G13 g := by c21_eq

theorem ortho_AXIS_UNALT_PIPE_agree (E1 E2 E3 nu12 nu23 nu13 G12 G23 G13 g : K) :
    Gen.ortho_AXIS_UNALT_PIPE_all c c3 fn E1 E2 E3 nu12 nu23 nu13 G12 G23 G13 g = Gen.ortho_AXIS_UNALT_all c c3 fn E1 E2 E3 nu12 nu23 nu13 G12 G23 G13 g := by c21_eq

theorem ortho_AXIS_UNALT_PLATE_agree (E1 E2 E3 nu12 nu23 nu13 G12 G23 G13 g : K) :
    Gen.ortho_AXIS_UNALT_PLATE_all c c3 fn E1 E2 E3 nu12 nu23 nu13 G12 G23 G13 g = Gen.ortho_AXIS_UNALT_all c c3 fn E1 E2 E3 nu12 nu23 nu13 G12 G23 G13 g := by c21_eq

theorem ortho_AXIS_ALT_DEFAULT_agree (E1 E2 E3 nu12 nu23 nu13 G12 G23 G13 g : K) :
    Gen.ortho_AXIS_ALT_DEFAULT_all c c3 fn E1 E2 E3 nu12 nu23 nu13 G12 G23 G13 g = Gen.ortho_AXIS_ALT_all c c3 fn E1 E2 E3 nu12 nu23 nu13 G12 G23 G13 g := by c21_eq

theorem ortho_AXIS_ALT_PIPE_agree (E1 E2 E3 nu12 nu23 nu13 G12 G23 G13 g : K) :
    Gen.ortho_AXIS_ALT_PIPE_all c c3 fn E1 E2 E3 nu12 nu23 nu13 G12 G23 G13 g = Gen.ortho_AXIS_ALT_all c c3 fn E1 E2 E3 nu12 nu23 nu13 G12 G23 G13 g := by c21_eq

theorem ortho_AXIS_ALT_PLATE_agree (E1 E2 E3 nu12 nu23 nu13 G12 G23 G13 g : K) :
    Gen.ortho_AXIS_ALT_PLATE_all c c3 fn E1 E2 E3 nu12 nu23 nu13 G12 G23 G13 g = Gen.ortho_AXIS_ALT_all c c3 fn E1 E2 E3 nu12 nu23 nu13 G12 G23 G13 g := by c21_eq

theorem ortho_PSTRESS_UNALT_DEFAULT_agree (E1 E2 E3 nu12 nu23 nu13 G12 G23 G13 g : K) :
    Gen.ortho_PSTRESS_UNALT_DEFAULT_all c c3 fn E1 E2 E3 nu12 nu23 nu13 G12 G23 G13 g = Gen.ortho_PSTRESS_UNALT_all c c3 fn E1 E2 E3 nu12 nu23 nu13 G12 G23 G13 g := by c21_eq

theorem ortho_PSTRESS_UNALT_PIPE_swap (E1 E2 E3 nu12 nu23 nu13 G12 G23 G13 g : K) :
    Gen.ortho_PSTRESS_UNALT_PIPE_all c c3 fn E1 E2 E3 nu12 nu23 nu13 G12 G23 G13 g
      = Gen.ortho_PSTRESS_UNALT_all c c3 fn E1 E3 E2 nu13 (nu23 * E3 / E2) nu12 G13 G23 G12 g := by c21_eq
theorem ortho_PSTRESS_UNALT_PIPE_reduction (E1 E2 E3 nu12 nu23 nu13 G12 G23 G13 g g' : K) (h1 : E1 ≠ 0) (h2 : E2 ≠ 0) (h3 : E3 ≠ 0) :
    Gen.ortho_PSTRESS_UNALT_PIPE_all c c3 fn E1 E2 E3 nu12 nu23 nu13 G12 G23 G13 g
      = pipe4 (Gen.ortho_TRIDIM_UNALT_all c c3 fn E1 E2 E3 nu12 nu23 nu13 G12 G23 G13 g') := by
  rw [ortho_PSTRESS_UNALT_PIPE_swap, ortho_PSTRESS_UNALT_reduction c c3 fn E1 E3 E2 nu13 (nu23 * E3 / E2) nu12 G13 G23 G12 g g,
    ortho_TRIDIM_swap23 c c3 fn E1 E2 E3 nu12 nu23 nu13 G12 G23 G13 g g' h1 h2 h3, block4_swap23]

theorem ortho_PSTRESS_UNALT_PLATE_agree (E1 E2 E3 nu12 nu23 nu13 G12 G23 G13 g : K) :
    Gen.ortho_PSTRESS_UNALT_PLATE_all c c3 fn E1 E2 E3 nu12 nu23 nu13 G12 G23 G13 g = Gen.ortho_PSTRESS_UNALT_all c c3 fn E1 E2 E3 nu12 nu23 nu13 G12 G23 G13 g := by c21_eq

theorem ortho_PSTRESS_ALT_DEFAULT_agree (E1 E2 E3 nu12 nu23 nu13 G12 G23 G13 g : K) :
    Gen.ortho_PSTRESS_ALT_DEFAULT_all c c3 fn E1 E2 E3 nu12 nu23 nu13 G12 G23 G13 g = Gen.ortho_PSTRESS_ALT_all c c3 fn E1 E2 E3 nu12 nu23 nu13 G12 G23 G13 g := by c21_eq

theorem ortho_PSTRESS_ALT_PIPE_swap (E1 E2 E3 nu12 nu23 nu13 G12 G23 G13 g : K) :
    Gen.ortho_PSTRESS_ALT_PIPE_all c c3 fn E1 E2 E3 nu12 nu23 nu13 G12 G23 G13 g
      = Gen.ortho_PSTRESS_ALT_all c c3 fn E1 E3 E2 nu13 (nu23 * E3 / E2) nu12 G13 G23 G12 g := by c21_eq
theorem ortho_PSTRESS_ALT_PIPE_reduction (E1 E2 E3 nu12 nu23 nu13 G12 G23 G13 g g' : K) (h1 : E1 ≠ 0) (h2 : E2 ≠ 0) (h3 : E3 ≠ 0) :
    Gen.ortho_PSTRESS_ALT_PIPE_all c c3 fn E1 E2 E3 nu12 nu23 nu13 G12 G23 G13 g
      = condense4 (pipe4 (Gen.ortho_TRIDIM_UNALT_all c c3 fn E1 E2 E3 nu12 nu23 nu13 G12 G23 G13 g')) := by
  rw [ortho_PSTRESS_ALT_PIPE_swap, ortho_PSTRESS_ALT_reduction c c3 fn E1 E3 E2 nu13 (nu23 * E3 / E2) nu12 G13 G23 G12 g g,
    ortho_TRIDIM_swap23 c c3 fn E1 E2 E3 nu12 nu23 nu13 G12 G23 G13 g g' h1 h2 h3, block4_swap23]

theorem ortho_PSTRESS_ALT_PLATE_agree (E1 E2 E3 nu12 nu23 nu13 G12 G23 G13 g : K) :
    Gen.ortho_PSTRESS_ALT_PLATE_all c c3 fn E1 E2 E3 nu12 nu23 nu13 G12 G23 G13 g = Gen.ortho_PSTRESS_ALT_all c c3 fn E1 E2 E3 nu12 nu23 nu13 G12 G23 G13 g := by c21_eq

theorem ortho_PSTRAIN_UNALT_DEFAULT_agree (E1 E2 E3 nu12 nu23 nu13 G12 G23 G13 g : K) :
    Gen.ortho_PSTRAIN_UNALT_DEFAULT_all c c3 fn E1 E2 E3 nu12 nu23 nu13 G12 G23 G13 g = Gen.ortho_PSTRAIN_UNALT_all c c3 fn E1 E2 E3 nu12 nu23 nu13 G12 G23 G13 g := by c21_eq

theorem ortho_PSTRAIN_UNALT_PIPE_swap (E1 E2 E3 nu12 nu23 nu13 G12 G23 G13 g : K) :
    Gen.ortho_PSTRAIN_UNALT_PIPE_all c c3 fn E1 E2 E3 nu12 nu23 nu13 G12 G23 G13 g
      = Gen.ortho_PSTRAIN_UNALT_all c c3 fn E1 E3 E2 nu13 (nu23 * E3 / E2) nu12 G13 G23 G12 g := by c21_eq
theorem ortho_PSTRAIN_UNALT_PIPE_reduction (E1 E2 E3 nu12 nu23 nu13 G12 G23 G13 g g' : K) (h1 : E1 ≠ 0) (h2 : E2 ≠ 0) (h3 : E3 ≠ 0) :
    Gen.ortho_PSTRAIN_UNALT_PIPE_all c c3 fn E1 E2 E3 nu12 nu23 nu13 G12 G23 G13 g
      = pipe4 (Gen.ortho_TRIDIM_UNALT_all c c3 fn E1 E2 E3 nu12 nu23 nu13 G12 G23 G13 g') := by
  rw [ortho_PSTRAIN_UNALT_PIPE_swap, ortho_PSTRAIN_UNALT_reduction c c3 fn E1 E3 E2 nu13 (nu23 * E3 / E2) nu12 G13 G23 G12 g g,
    ortho_TRIDIM_swap23 c c3 fn E1 E2 E3 nu12 nu23 nu13 G12 G23 G13 g g' h1 h2 h3, block4_swap23]

theorem ortho_PSTRAIN_UNALT_PLATE_agree (E1 E2 E3 nu12 nu23 nu13 G12 G23 G13 g : K) :
    Gen.ortho_PSTRAIN_UNALT_PLATE_all c c3 fn E1 E2 E3 nu12 nu23 nu13 G12 G23 G13 g = Gen.ortho_PSTRAIN_UNALT_all c c3 fn E1 E2 E3 nu12 nu23 nu13 G12 G23 G13 g := by c21_eq

theorem ortho_PSTRAIN_ALT_DEFAULT_agree (E1 E2 E3 nu12 nu23 nu13 G12 G23 G13 g : K) :
    Gen.ortho_PSTRAIN_ALT_DEFAULT_all c c3 fn E1 E2 E3 nu12 nu23 nu13 G12 G23 G13 g = Gen.ortho_PSTRAIN_ALT_all c c3 fn E1 E2 E3 nu12 nu23 nu13 G12 G23 G13 g := by c21_eq

theorem ortho_PSTRAIN_ALT_PIPE_swap (E1 E2 E3 nu12 nu23 nu13 G12 G23 G13 g : K) :
    Gen.ortho_PSTRAIN_ALT_PIPE_all c c3 fn E1 E2 E3 nu12 nu23 nu13 G12 G23 G13 g
      = Gen.ortho_PSTRAIN_ALT_all c c3 fn E1 E3 E2 nu13 (nu23 * E3 / E2) nu12 G13 G23 G12 g := by c21_eq
theorem ortho_PSTRAIN_ALT_PIPE_reduction (E1 E2 E3 nu12 nu23 nu13 G12 G23 G13 g g' : K) (h1 : E1 ≠ 0) (h2 : E2 ≠ 0) (h3 : E3 ≠ 0) :
    Gen.ortho_PSTRAIN_ALT_PIPE_all c c3 fn E1 E2 E3 nu12 nu23 nu13 G12 G23 G13 g
      = pipe4 (Gen.ortho_TRIDIM_UNALT_all c c3 fn E1 E2 E3 nu12 nu23 nu13 G12 G23 G13 g') := by
  rw [ortho_PSTRAIN_ALT_PIPE_swap, ortho_PSTRAIN_ALT_reduction c c3 fn E1 E3 E2 nu13 (nu23 * E3 / E2) nu12 G13 G23 G12 g g,
    ortho_TRIDIM_swap23 c c3 fn E1 E2 E3 nu12 nu23 nu13 G12 G23 G13 g g' h1 h2 h3, block4_swap23]

theorem ortho_PSTRAIN_ALT_PLATE_agree (E1 E2 E3 nu12 nu23 nu13 G12 G23 G13 g : K) :
    Gen.ortho_PSTRAIN_ALT_PLATE_all c c3 fn E1 E2 E3 nu12 nu23 nu13 G12 G23 G13 g = Gen.ortho_PSTRAIN_ALT_all c c3 fn E1 E2 E3 nu12 nu23 nu13 G12 G23 G13 g := by c21_eq

theorem ortho_GPSTRAIN_UNALT_DEFAULT_agree (E1 E2 E3 nu12 nu23 nu13 G12 G23 G13 g : K) :
    Gen.ortho_GPSTRAIN_UNALT_DEFAULT_all c c3 fn E1 E2 E3 nu12 nu23 nu13 G12 G23 G13 g = Gen.ortho_GPSTRAIN_UNALT_all c c3 fn E1 E2 E3 nu12 nu23 nu13 G12 G23 G13 g := by c21_eq

theorem ortho_GPSTRAIN_UNALT_PIPE_swap (E1 E2 E3 nu12 nu23 nu13 G12 G23 G13 g : K) :
    Gen.ortho_GPSTRAIN_UNALT_PIPE_all c c3 fn E1 E2 E3 nu12 nu23 nu13 G12 G23 G13 g
      = Gen.ortho_GPSTRAIN_UNALT_all c c3 fn E1 E3 E2 nu13 (nu23 * E3 / E2) nu12 G13 G23 G12 g := by c21_eq
theorem ortho_GPSTRAIN_UNALT_PIPE_reduction (E1 E2 E3 nu12 nu23 nu13 G12 G23 G13 g g' : K) (h1 : E1 ≠ 0) (h2 : E2 ≠ 0) (h3 : E3 ≠ 0) :
    Gen.ortho_GPSTRAIN_UNALT_PIPE_all c c3 fn E1 E2 E3 nu12 nu23 nu13 G12 G23 G13 g
      = pipe4 (Gen.ortho_TRIDIM_UNALT_all c c3 fn E1 E2 E3 nu12 nu23 nu13 G12 G23 G13 g') := by
  rw [ortho_GPSTRAIN_UNALT_PIPE_swap, ortho_GPSTRAIN_UNALT_reduction c c3 fn E1 E3 E2 nu13 (nu23 * E3 / E2) nu12 G13 G23 G12 g g,
    ortho_TRIDIM_swap23 c c3 fn E1 E2 E3 nu12 nu23 nu13 G12 G23 G13 g g' h1 h2 h3, block4_swap23]

theorem ortho_GPSTRAIN_UNALT_PLATE_agree (E1 E2 E3 nu12 nu23 nu13 G12 G23 G13 g : K) :
    Gen.ortho_GPSTRAIN_UNALT_PLATE_all c c3 fn E1 E2 E3 nu12 nu23 nu13 G12 G23 G13 g = Gen.ortho_GPSTRAIN_UNALT_all c c3 fn E1 E2 E3 nu12 nu23 nu13 G12 G23 G13 g := by c21_eq

theorem ortho_GPSTRAIN_ALT_DEFAULT_agree (E1 E2 E3 nu12 nu23 nu13 G12 G23 G13 g : K) :
    Gen.ortho_GPSTRAIN_ALT_DEFAULT_all c c3 fn E1 E2 E3 nu12 nu23 nu13 G12 G23 G13 g = Gen.ortho_GPSTRAIN_ALT_all c c3 fn E1 E2 E3 nu12 nu23 nu13 G12 G23 G13 g := by c21_eq

theorem ortho_GPSTRAIN_ALT_PIPE_swap (E1 E2 E3 nu12 nu23 nu13 G12 G23 G13 g : K) :
    Gen.ortho_GPSTRAIN_ALT_PIPE_all c c3 fn E1 E2 E3 nu12 nu23 nu13 G12 G23 G13 g
      = Gen.ortho_GPSTRAIN_ALT_all c c3 fn E1 E3 E2 nu13 (nu23 * E3 / E2) nu12 G13 G23 G12 g := by c21_eq
theorem ortho_GPSTRAIN_ALT_PIPE_reduction (E1 E2 E3 nu12 nu23 nu13 G12 G23 G13 g g' : K) (h1 : E1 ≠ 0) (h2 : E2 ≠ 0) (h3 : E3 ≠ 0) :
    Gen.ortho_GPSTRAIN_ALT_PIPE_all c c3 fn E1 E2 E3 nu12 nu23 nu13 G12 G23 G13 g
      = pipe4 (Gen.ortho_TRIDIM_UNALT_all c c3 fn E1 E2 E3 nu12 nu23 nu13 G12 G23 G13 g') := by
  rw [ortho_GPSTRAIN_ALT_PIPE_swap, ortho_GPSTRAIN_ALT_reduction c c3 fn E1 E3 E2 nu13 (nu23 * E3 / E2) nu12 G13 G23 G12 g g,
    ortho_TRIDIM_swap23 c c3 fn E1 E2 E3 nu12 nu23 nu13 G12 G23 G13 g g' h1 h2 h3, block4_swap23]

theorem ortho_GPSTRAIN_ALT_PLATE_agree (E1 E2 E3 nu12 nu23 nu13 G12 G23 G13 g : K) :
    Gen.ortho_GPSTRAIN_ALT_PLATE_all c c3 fn E1 E2 E3 nu12 nu23 nu13 G12 G23 G13 g = Gen.ortho_GPSTRAIN_ALT_all c c3 fn E1 E2 E3 nu12 nu23 nu13 G12 G23 G13 g := by c21_eq

theorem ortho_TRIDIM_UNALT_DEFAULT_agree (E1 E2 E3 nu12 nu23 nu13 G12 G23 G13 g : K) :
    Gen.ortho_TRIDIM_UNALT_DEFAULT_all c c3 fn E1 E2 E3 nu12 nu23 nu13 G12 G23 G13 g = Gen.ortho_TRIDIM_UNALT_all c c3 fn E1 E2 E3 nu12 nu23 nu13 G12 G23 G13 g := by c21_eq

theorem ortho_TRIDIM_UNALT_PIPE_agree (E1 E2 E3 nu12 nu23 nu13 G12 G23 G13 g : K) :
    Gen.ortho_TRIDIM_UNALT_PIPE_all c c3 fn E1 E2 E3 nu12 nu23 nu13 G12 G23 G13 g = Gen.ortho_TRIDIM_UNALT_all c c3 fn E1 E2 E3 nu12 nu23 nu13 G12 G23 G13 g := by c21_eq

theorem ortho_TRIDIM_UNALT_PLATE_agree (E1 E2 E3 nu12 nu23 nu13 G12 G23 G13 g : K) :
    Gen.ortho_TRIDIM_UNALT_PLATE_all c c3 fn E1 E2 E3 nu12 nu23 nu13 G12 G23 G13 g = Gen.ortho_TRIDIM_UNALT_all c c3 fn E1 E2 E3 nu12 nu23 nu13 G12 G23 G13 g := by c21_eq

theorem ortho_TRIDIM_ALT_DEFAULT_agree (E1 E2 E3 nu12 nu23 nu13 G12 G23 G13 g : K) :
    Gen.ortho_TRIDIM_ALT_DEFAULT_all c c3 fn E1 E2 E3 nu12 nu23 nu13 G12 G23 G13 g = Gen.ortho_TRIDIM_ALT_all c c3 fn E1 E2 E3 nu12 nu23 nu13 G12 G23 G13 g := by c21_eq

theorem ortho_TRIDIM_ALT_PIPE_agree (E1 E2 E3 nu12 nu23 nu13 G12 G23 G13 g : K) :
    Gen.ortho_TRIDIM_ALT_PIPE_all c c3 fn E1 E2 E3 nu12 nu23 nu13 G12 G23 G13 g = Gen.ortho_TRIDIM_ALT_all c c3 fn E1 E2 E3 nu12 nu23 nu13 G12 G23 G13 g := by c21_eq

theorem ortho_TRIDIM_ALT_PLATE_agree (E1 E2 E3 nu12 nu23 nu13 G12 G23 G13 g : K) :
    Gen.ortho_TRIDIM_ALT_PLATE_all c c3 fn E1 E2 E3 nu12 nu23 nu13 G12 G23 G13 g = Gen.ortho_TRIDIM_ALT_all c c3 fn E1 E2 E3 nu12 nu23 nu13 G12 G23 G13 g := by c21_eq

/-- the dimension-indexed entry points `computeOrthotropicStiffnessTensorII<N,smt>` -/
theorem orthoII_N1_agree (E1 E2 E3 nu12 nu23 nu13 G12 G23 G13 g : K) :
    Gen.orthoII_N1_UNALT_all c c3 fn E1 E2 E3 nu12 nu23 nu13 G12 G23 G13 g = Gen.ortho_AGPE_UNALT_all c c3 fn E1 E2 E3 nu12 nu23 nu13 G12 G23 G13 g
      ∧ Gen.orthoII_N1_ALT_all c c3 fn E1 E2 E3 nu12 nu23 nu13 G12 G23 G13 g = Gen.ortho_AGPS_ALT_all c c3 fn E1 E2 E3 nu12 nu23 nu13 G12 G23 G13 g := by
  constructor <;> c21_eq

theorem orthoII_N2_agree (E1 E2 E3 nu12 nu23 nu13 G12 G23 G13 g : K) :
    Gen.orthoII_N2_UNALT_all c c3 fn E1 E2 E3 nu12 nu23 nu13 G12 G23 G13 g = Gen.ortho_PSTRAIN_UNALT_all c c3 fn E1 E2 E3 nu12 nu23 nu13 G12 G23 G13 g
      ∧ Gen.orthoII_N2_ALT_all c c3 fn E1 E2 E3 nu12 nu23 nu13 G12 G23 G13 g = Gen.ortho_PSTRESS_ALT_all c c3 fn E1 E2 E3 nu12 nu23 nu13 G12 G23 G13 g := by
  constructor <;> c21_eq

theorem orthoII_N3_agree (E1 E2 E3 nu12 nu23 nu13 G12 G23 G13 g : K) :
    Gen.orthoII_N3_UNALT_all c c3 fn E1 E2 E3 nu12 nu23 nu13 G12 G23 G13 g = Gen.ortho_TRIDIM_UNALT_all c c3 fn E1 E2 E3 nu12 nu23 nu13 G12 G23 G13 g
      ∧ Gen.orthoII_N3_ALT_all c c3 fn E1 E2 E3 nu12 nu23 nu13 G12 G23 G13 g = Gen.ortho_TRIDIM_ALT_all c c3 fn E1 E2 E3 nu12 nu23 nu13 G12 G23 G13 g := by
  constructor <;> c21_eq

/-- plane stress: the `ALTERED` orthotropic tensor is also what `ComputeAlteredStiffnessTensor` makes of the
`UNALTERED` one -/
theorem ortho_PSTRESS_ALT_eq_alter (E1 E2 E3 nu12 nu23 nu13 G12 G23 G13 g g' g'' : K) :
    Gen.ortho_PSTRESS_ALT_all c c3 fn E1 E2 E3 nu12 nu23 nu13 G12 G23 G13 g
      = app16g (Gen.alter_PSTRESS_all c c3 fn) (Gen.ortho_PSTRESS_UNALT_all c c3 fn E1 E2 E3 nu12 nu23 nu13 G12 G23 G13 g') g'' := by c21_eq

/-! ### `convertStressFreeExpansionStrain<H,c>` (OrthotropicAxesConvention.ixx): the same exchange on the
diagonal tensors expressed in the material frame -/

theorem convert_AGPE_spec (s0 s1 s2 : K) :
    Gen.convert_DEFAULT_AGPE_all c c3 fn s0 s1 s2 = [s0, s1, s2] ∧ Gen.convert_PLATE_AGPE_all c c3 fn s0 s1 s2 = [s0, s1, s2]
      ∧ Gen.convert_PIPE_AGPE_all c c3 fn s0 s1 s2 = [s0, s1, s2] := by
  refine ⟨?_, ?_, ?_⟩ <;> c21_eq

theorem convert_AGPS_spec (s0 s1 s2 : K) :
    Gen.convert_DEFAULT_AGPS_all c c3 fn s0 s1 s2 = [s0, s1, s2] ∧ Gen.convert_PLATE_AGPS_all c c3 fn s0 s1 s2 = [s0, s1, s2]
      ∧ Gen.convert_PIPE_AGPS_all c c3 fn s0 s1 s2 = [s0, s1, s2] := by
  refine ⟨?_, ?_, ?_⟩ <;> c21_eq

theorem convert_AXIS_spec (s0 s1 s2 s3 : K) :
    Gen.convert_DEFAULT_AXIS_all c c3 fn s0 s1 s2 s3 = [s0, s1, s2, s3] ∧ Gen.convert_PLATE_AXIS_all c c3 fn s0 s1 s2 s3 = [s0, s1, s2, s3]
      ∧ Gen.convert_PIPE_AXIS_all c c3 fn s0 s1 s2 s3 = [s0, s1, s2, s3] := by
  refine ⟨?_, ?_, ?_⟩ <;> c21_eq

theorem convert_PSTRESS_spec (s0 s1 s2 s3 : K) :
    Gen.convert_DEFAULT_PSTRESS_all c c3 fn s0 s1 s2 s3 = [s0, s1, s2, s3] ∧ Gen.convert_PLATE_PSTRESS_all c c3 fn s0 s1 s2 s3 = [s0, s1, s2, s3]
      ∧ Gen.convert_PIPE_PSTRESS_all c c3 fn s0 s1 s2 s3 = [s0, s2, s1, s3] := by
  refine ⟨?_, ?_, ?_⟩ <;> c21_eq

theorem convert_PSTRAIN_spec (s0 s1 s2 s3 : K) :
    Gen.convert_DEFAULT_PSTRAIN_all c c3 fn s0 s1 s2 s3 = [s0, s1, s2, s3] ∧ Gen.convert_PLATE_PSTRAIN_all c c3 fn s0 s1 s2 s3 = [s0, s1, s2, s3]
      ∧ Gen.convert_PIPE_PSTRAIN_all c c3 fn s0 s1 s2 s3 = [s0, s2, s1, s3] := by
  refine ⟨?_, ?_, ?_⟩ <;> c21_eq

theorem convert_GPSTRAIN_spec (s0 s1 s2 s3 : K) :
    Gen.convert_DEFAULT_GPSTRAIN_all c c3 fn s0 s1 s2 s3 = [s0, s1, s2, s3] ∧ Gen.convert_PLATE_GPSTRAIN_all c c3 fn s0 s1 s2 s3 = [s0, s1, s2, s3]
      ∧ Gen.convert_PIPE_GPSTRAIN_all c c3 fn s0 s1 s2 s3 = [s0, s2, s1, s3] := by
  refine ⟨?_, ?_, ?_⟩ <;> c21_eq

theorem convert_TRIDIM_spec (s0 s1 s2 s3 s4 s5 : K) :
    Gen.convert_DEFAULT_TRIDIM_all c c3 fn s0 s1 s2 s3 s4 s5 = [s0, s1, s2, s3, s4, s5] ∧ Gen.convert_PLATE_TRIDIM_all c c3 fn s0 s1 s2 s3 s4 s5 = [s0, s1, s2, s3, s4, s5]
      ∧ Gen.convert_PIPE_TRIDIM_all c c3 fn s0 s1 s2 s3 s4 s5 = [s0, s1, s2, s3, s4, s5] := by
  refine ⟨?_, ?_, ?_⟩ <;> c21_eq

/-- non-vacuity of the hypotheses used above -/
example : Admissible (200 : ℚ) (3 / 10) := by unfold Admissible; norm_num
example : detS (150 : ℚ) 120 90 (31 / 100) (27 / 100) (23 / 100) ≠ 0 := by unfold detS; norm_num

end TfelVerif.C21.Props
