/-
  C40 — A failed behaviour integration leaves the output state untouched.

  Theorems about the model of `mfront::gb::integrate` (TfelVerif/C39/Model.lean), for every script of
  the mock behaviour (success / failure / exception injected at every stage, any trait set, any
  `K[0]`, any scaling factors) and any scalar type with a decidable `<`.

  `Variant.lateExport = true`  is the order of patches/C40-integrate.diff (state exported last);
  `Variant.lateExport = false` is the order shipped before it (state exported first, then four steps
  that may still throw). checks/C40.py establishes by exact correspondence which one the tree has.
-/
import TfelVerif.C40.Lemmas

set_option linter.unusedSimpArgs false
set_option linter.unusedSectionVars false

namespace TfelVerif.C40.Props
open TfelVerif.C39 TfelVerif.C40

variable {α : Type} [LT α] [DecidableRel (fun a b : α => a < b)] [Sub α] [Neg α] [OfScientific α]

/-- **C40, full strength, repaired order** (patches/C40-integrate.diff): for every script — failure or
exception injected at any stage, any traits, any `K[0]` — a call that returns `-1` has stored nothing in
`s1.thermodynamic_forces`, `s1.internal_state_variables`, `s1.stored_energy`, `s1.dissipated_energy`. -/
theorem failed_integration_leaves_s1_untouched (p : Bool) (s : Script α)
    (h : (integrate ⟨true, p⟩ s).ret = -1) :
    ∀ o ∈ (integrate ⟨true, p⟩ s).written, o.isS1 = false := by
  have hb := body_late_spec p s (st0 s) (by simp [st0, NoS1, AllEv, NotS1])
  apply written_noS1
  simp only [integrate] at h ⊢
  generalize body ⟨true, p⟩ s (st0 s) = r at hb h ⊢
  cases r with
  | next st =>
    simp only [] at h
    split at h <;> simp at h
  | ret c st => simpa using hb
  | thr m st =>
    simp only [R.sat_thr] at hb
    simp_all [NoS1, AllEv, NotS1]

/-- repaired order, integration requests: a call that returns `-1` has stored nothing at all — neither in
`s1`, nor in `K`, nor in `speed_of_sound` (only `rdt` and the error message are set) -/
theorem failed_integration_stores_nothing (p : Bool) (s : Script α)
    (hi : isPrediction (effK0 s.k0) = false) (h : (integrate ⟨true, p⟩ s).ret = -1) :
    (integrate ⟨true, p⟩ s).written = [] := by
  have hb : (body ⟨true, p⟩ s (st0 s)).Sat ⟨fun _ => True, fun _ => NoWrite, fun _ => NoWrite⟩ := by
    unfold body
    apply R.bind_sat NoWrite
    · exact R.sat_mono (pre_stores_nothing _ s (st0 s) hi (by simp [st0, NoWrite, AllEv, NotWrite]))
        (by simp [always]) (by simp [always]) (by simp [always])
    · intro st h
      simpa using tailLate_stores_nothing s _ st h
  have key : NoWrite (integrate ⟨true, p⟩ s).st := by
    simp only [integrate] at h ⊢
    generalize body ⟨true, p⟩ s (st0 s) = r at hb h ⊢
    cases r with
    | next st =>
      simp only [] at h
      split at h <;> simp at h
    | ret c st => simpa using hb
    | thr m st =>
      simp only [R.sat_thr] at hb
      simp_all [NoWrite, AllEv, NotWrite]
  simp only [Result.written, List.filterMap_eq_nil_iff]
  intro e he
  have := key e he
  cases e <;> simp_all [Event.isWrite, NotWrite]

/-! ### the order shipped before the patch

The same statement is **false** for `lateExport = false`: `shipped_order_failure_after_export` below exhibits
the failing histories, and `shipped_order_s1_written_on_failure_iff` shows they are the only ones. What
holds of that order is the `_partial` theorem: a failure *before* the export leaves `s1` untouched.

Full statement wanted (not provable for `lateExport = false`):
  theorem failed_integration_leaves_s1_untouched' (v : Variant) (s : Script α)
      (h : (integrate v s).ret = -1) : ∀ o ∈ (integrate v s).written, o.isS1 = false
-/

/-- **C40, shipped order, what is provable** — missing with respect to the full statement: the runs in
which `exportStateData` was reached. Every call that fails before `b.exportStateData(d.s1)` (initialisation,
bounds, missing operator, a priori / a posteriori factors, integration, exceptions in any of them, and the
whole prediction branch) leaves `s1` untouched. -/
theorem failed_before_export_leaves_s1_untouched_partial (v : Variant) (s : Script α)
    (hexp : Event.exp ∉ (integrate v s).st.ev) :
    ∀ o ∈ (integrate v s).written, o.isS1 = false := by
  apply written_noS1
  have hpre := pre_noS1 v s (st0 s) (by simp [st0, NoS1, AllEv, NotS1])
  have hb : body v s (st0 s) = (pre v s (st0 s)).bind fun st =>
      if v.lateExport then tailLate s (effK0 s.k0) st else tailEarly s (effK0 s.k0) st := rfl
  cases hp : pre v s (st0 s) with
  | next st =>
    rw [hp] at hb hpre
    simp only [R.bind] at hb
    by_cases hl : v.lateExport = true
    · -- repaired order: either the tail threw before the export, or `exp` is in the trace
      have ht := tailLate_spec s (effK0 s.k0) st (by simpa [always] using hpre)
      simp only [hl, if_true] at hb
      simp only [integrate, hb] at hexp ⊢
      cases hq : tailLate s (effK0 s.k0) st with
      | next st' =>
        exfalso
        rw [hq] at hexp
        exact hexp (tailLate_next_exported s _ st st' hq)
      | ret c st' => rw [hq] at ht; simpa using ht
      | thr m st' =>
        rw [hq] at ht
        simp only [R.sat_thr] at ht
        simp_all [NoS1, AllEv, NotS1]
    · exfalso
      simp only [hl, Bool.false_eq_true, if_false] at hb
      have h1 := (tailEarly_exported s (effK0 s.k0) st).trans (hb ▸ integrate_ev_of_body v s)
      have : Event.exp ∈ (stepExportState st).ev := by simp [stepExportState]
      exact hexp (h1.subset this)
  | ret c st =>
    rw [hp] at hb hpre
    simp only [R.bind] at hb
    simp only [integrate, hb]
    simpa [always] using hpre
  | thr m st =>
    rw [hp] at hb hpre
    simp only [R.bind] at hb
    simp only [integrate, hb]
    simp only [always, R.sat_thr] at hpre
    simp_all [NoS1, AllEv, NotS1]

/-- **the defect of the shipped order, exactly**: with the state exported first, a call returns `-1` with
`s1` already written if and only if everything up to the a posteriori time step factor succeeded and one
of the steps placed after the export throws — the export of the tangent operator (scripted throw in
`getTangentOperator`, or unsupported operator type), `computeInternalEnergy`, `computeDissipatedEnergy`,
`computeSpeedOfSound` (`¬ tailOk s`). These are the findings `integrate:throw-after-export:<stage>`. -/
theorem shipped_order_s1_written_on_failure_iff (p : Bool) (s : Script α) :
    ((integrate ⟨false, p⟩ s).ret = -1 ∧ ∃ o ∈ (integrate ⟨false, p⟩ s).written, o.isS1 = true) ↔
      (reachesExport s ∧ ¬ tailOk s) := by
  constructor
  · rintro ⟨hret, o, ho, hs1⟩
    have hexp : Event.exp ∈ (integrate ⟨false, p⟩ s).st.ev := by
      by_contra hne
      have := failed_before_export_leaves_s1_untouched_partial ⟨false, p⟩ s hne o ho
      simp [this] at hs1
    have hr : reachesExport s := by
      rw [← pre_code_none_iff ⟨false, p⟩ s (st0 s)]
      by_contra hc
      -- `pre` ended the call: its events are all there is (plus `min`), none is `exp`
      have hall := pre_all (fun e => e ≠ Event.exp) ⟨false, p⟩ s (st0 s)
        (fun e he => by cases e <;> simp_all [PreEv]) (by simp [st0, AllEv])
      have hb : body ⟨false, p⟩ s (st0 s) = (pre ⟨false, p⟩ s (st0 s)).bind fun st =>
        if (⟨false, p⟩ : Variant).lateExport then tailLate s (effK0 s.k0) st else tailEarly s (effK0 s.k0) st := rfl
      cases hp : pre ⟨false, p⟩ s (st0 s) with
      | next st => simp [hp] at hc
      | ret c st =>
        rw [hp] at hb hall
        simp only [R.bind] at hb
        simp only [integrate, hb] at hexp
        exact (by simpa [always] using hall : AllEv (fun e => e ≠ Event.exp) st) _ hexp rfl
      | thr m st =>
        rw [hp] at hb hall
        simp only [R.bind] at hb
        simp only [integrate, hb, log_ev, List.mem_append, List.mem_singleton] at hexp
        rcases hexp with hexp | hexp
        · exact (by simpa [always] using hall : AllEv (fun e => e ≠ Event.exp) st) _ hexp rfl
        · cases hexp
    refine ⟨hr, ?_⟩
    intro ht
    have hc : (body ⟨false, p⟩ s (st0 s)).code = none := by
      rw [body_code, (pre_code_none_iff _ s _).2 hr]
      simp [ht]
    have := (integrate_ret_none _ s hc).1
    rw [this] at hret
    split at hret <;> simp at hret
  · rintro ⟨hr, ht⟩
    have hpc := (pre_code_none_iff ⟨false, p⟩ s (st0 s)).2 hr
    have hc : (body ⟨false, p⟩ s (st0 s)).code = some (-1) := by
      rw [body_code, hpc]
      simp [ht]
    refine ⟨integrate_ret_some _ s hc, .tf, ?_, rfl⟩
    obtain ⟨st, hst⟩ := R.code_none hpc
    have hb : body ⟨false, p⟩ s (st0 s) = tailEarly s (effK0 s.k0) st := by
      unfold body
      rw [hst]
      simp [R.bind]
    have h1 := (tailEarly_exported s (effK0 s.k0) st).trans (hb ▸ integrate_ev_of_body ⟨false, p⟩ s)
    have h2 : Event.write Out.tf ∈ (stepExportState st).ev := by simp [stepExportState]
    simp only [Result.written, List.mem_filterMap]
    exact ⟨_, h1.subset h2, rfl⟩

/-! ### non-vacuity: the hypotheses are satisfiable, and the shipped order does violate the property -/

/-- `computeInternalEnergy` throws: `-1` is returned; repaired order, nothing stored at all -/
example : (integrate ⟨true, true⟩ { Cent.script with ie := .throwStd }).ret = -1 ∧
    (integrate ⟨true, true⟩ { Cent.script with ie := .throwStd }).written = [] := by decide
/-- same script, shipped order: `-1` with forces, internal state variables and tangent operator stored -/
example : (integrate ⟨false, true⟩ { Cent.script with ie := .throwStd }).ret = -1 ∧
    (integrate ⟨false, true⟩ { Cent.script with ie := .throwStd }).written = [.tf, .isv, .k] := by decide
example : reachesExport { Cent.script with sos := .throwOther, k0 := 104.0 } ∧
    ¬ tailOk { Cent.script with sos := .throwOther, k0 := 104.0 } := by decide
/-- a failure before the export (integration fails): no `exp` event, nothing stored -/
example : Event.exp ∉ (integrate ⟨false, false⟩ { Cent.script with integ := .failure }).st.ev ∧
    (integrate ⟨false, false⟩ { Cent.script with integ := .failure }).ret = -1 := by decide
/-- on success the state is stored -/
example : (integrate ⟨true, true⟩ Cent.script).ret = 1 ∧
    (integrate ⟨true, true⟩ Cent.script).written = [.k, .tf, .isv, .se, .de] := by decide

end TfelVerif.C40.Props
