/-
  C40 — A failed behaviour integration leaves the output state untouched.

  Theorems about the model of `mfront::gb::integrate` (TfelVerif/C39/Model.lean), for every script of
  the mock behaviour (success / failure / exception injected at every stage, any trait set, any
  `K[0]`, any scaling factors) and any scalar type with a decidable `<`.

  `Variant.lateExport = true`  is the order of patches/C40-integrate.diff (state exported last);
  `Variant.lateExport = false` is the order shipped before it (state exported first, then four steps
  that may still throw). checks/C40.py establishes by exact correspondence which one the tree has.
-/
import TfelVerif.C39.Lemmas

set_option linter.unusedSimpArgs false
set_option linter.unusedSectionVars false

namespace TfelVerif.C40.Props
open TfelVerif.C39

variable {α : Type} [LT α] [DecidableRel (fun a b : α => a < b)] [Sub α] [Neg α] [OfScientific α]

/-- an event that is not a store to `s1.{thermodynamic_forces, internal_state_variables,
stored_energy, dissipated_energy}` -/
def NotS1 : Event α → Prop
  | .write o => o.isS1 = false
  | _ => True

/-- an event that is not a store to any output buffer -/
def NotWrite : Event α → Prop
  | .write _ => False
  | _ => True

/-- no store to the output state so far -/
abbrev NoS1 (st : St α) : Prop := AllEv NotS1 st

/-- no store to any output buffer so far -/
abbrev NoWrite (st : St α) : Prop := AllEv NotWrite st


/-- everything before the export of the state writes nothing to `s1` — in both variants -/
theorem prefix_noS1 (s : Script α) (smt : SMType) (st : St α) (h : NoS1 st) :
    ((stepIntegrate s smt st)).Sat (always NoS1) :=
  stepIntegrate_all NotS1 s smt st h (by simp [NotS1]) (by simp [NotS1]) (by simp [NotS1]) (by simp [NotS1])

/-- repaired order: whatever way the tail ends *other than falling through*, nothing was stored in `s1` -/
theorem tailLate_spec (s : Script α) (ke : α) (st : St α) (h : NoS1 st) :
    (tailLate s ke st).Sat ⟨fun _ => True, fun _ => NoS1, fun _ => NoS1⟩ := by
  unfold tailLate
  apply R.bind_sat NoS1
  · exact stepEnergyCompute_all NotS1 _ _ _ _ st h (by simp [NotS1])
  · intro st h
    apply R.bind_sat NoS1
    · exact stepEnergyCompute_all NotS1 _ _ _ _ st h (by simp [NotS1])
    · intro st h
      apply R.bind_sat NoS1
      · split
        · exact stepSosCompute_all NotS1 s true st h (by simp [NotS1])
        · simpa [always, AllEv, or_imp] using h
      · intro st h
        apply R.bind_sat NoS1
        · split
          · exact stepExportTO_all NotS1 s .k st h (by simp [NotS1]) (by simp [NotS1, Out.isS1])
          · simpa [always, AllEv, or_imp] using h
        · intro st h
          simp

/-- the body of the `try` block in the repaired order: a `return` or an exception leaves `s1` untouched -/
theorem body_late_spec (p : Bool) (s : Script α) (st : St α) (h : NoS1 st) :
    (body ⟨true, p⟩ s st).Sat ⟨fun _ => True, fun _ => NoS1, fun _ => NoS1⟩ := by
  unfold body
  apply R.bind_sat NoS1
  · exact stepInit_all NotS1 s st h (by simp [NotS1])
  · intro st h
    apply R.bind_sat NoS1
    · exact stepCheckBounds_all NotS1 s st h (by simp [NotS1]) (by simp [NotS1]) (by simp [NotS1])
    · intro st h
      simp only []
      split
      · exact R.sat_mono (stepPred_all NotS1 _ s st h (by simp [NotS1]) (by simp [NotS1, Out.isS1])
          (by simp [NotS1]) (by simp [NotS1]) (by simp [NotS1, Out.isS1]))
          (by simp [always]) (by simp [always]) (by simp [always])
      · split
        · simpa using h
        · apply R.bind_sat NoS1
          · exact prefix_noS1 s _ st h
          · intro st h
            exact tailLate_spec s _ st h

/-- **C40, full strength, repaired order** (patches/C40-integrate.diff): for every script — failure or
exception injected at any stage, any traits, any `K[0]` — a call that returns `-1` has stored nothing in
`s1.thermodynamic_forces`, `s1.internal_state_variables`, `s1.stored_energy`, `s1.dissipated_energy`. -/
theorem failed_integration_leaves_s1_untouched (p : Bool) (s : Script α)
    (h : (integrate ⟨true, p⟩ s).ret = -1) :
    ∀ o ∈ (integrate ⟨true, p⟩ s).written, o.isS1 = false := by
  have hb := body_late_spec p s (st0 s) (by simp [st0, NoS1, AllEv, NotS1])
  have key : NoS1 (integrate ⟨true, p⟩ s).st := by
    simp only [integrate] at h ⊢
    generalize body ⟨true, p⟩ s (st0 s) = r at hb h ⊢
    cases r with
    | next st =>
      simp only [] at h
      split at h <;> simp at h
    | ret c st => simpa using hb
    | thr m st =>
      simp only [R.sat_thr] at hb
      simp_all [NoS1, AllEv, NotS1]
  intro o ho
  simp only [Result.written, List.mem_filterMap] at ho
  obtain ⟨e, he, heo⟩ := ho
  have := key e he
  cases e <;> simp_all [Event.isWrite, NotS1]

end TfelVerif.C40.Props
