/-
  C40 — helper lemmas for Props.lean (specifications of the pieces of the model of `integrate`
  with respect to stores into the output state `s1`).
-/
import TfelVerif.C39.Lemmas

set_option linter.unusedSimpArgs false
set_option linter.unusedSectionVars false

namespace TfelVerif.C40
open TfelVerif.C39

variable {α : Type} [LT α] [DecidableRel (fun a b : α => a < b)] [Sub α] [Neg α] [OfScientific α]

/-- an event that is not a store to `s1.{thermodynamic_forces, internal_state_variables,
stored_energy, dissipated_energy}` -/
def NotS1 : Event α → Prop
  | .write o => o.isS1 = false
  | _ => True

/-- an event that is not a store to any output buffer -/
def NotWrite : Event α → Prop
  | .write _ => False
  | _ => True

/-- no store to the output state so far -/
abbrev NoS1 (st : St α) : Prop := AllEv NotS1 st

/-- no store to any output buffer so far -/
abbrev NoWrite (st : St α) : Prop := AllEv NotWrite st


/-- no run of `pre` (everything up to a successful `computeAPosterioriTimeStepScalingFactor`, and the
whole prediction branch) stores anything in `s1` — in every variant -/
theorem pre_noS1 (v : Variant) (s : Script α) (st : St α) (h : NoS1 st) :
    (pre v s st).Sat (always NoS1) :=
  pre_all NotS1 v s st (fun e he => by
    cases e <;> simp_all [PreEv, NotS1]
    rcases he with ⟨he | he, _⟩ <;> simp [he, Out.isS1]) h

/-- repaired order: whatever way the tail ends *other than falling through*, nothing was stored in `s1` -/
theorem tailLate_spec (s : Script α) (ke : α) (st : St α) (h : NoS1 st) :
    (tailLate s ke st).Sat ⟨fun _ => True, fun _ => NoS1, fun _ => NoS1⟩ := by
  unfold tailLate
  apply R.bind_sat NoS1
  · exact stepEnergyCompute_all NotS1 _ _ _ _ st h (by simp [NotS1])
  · intro st h
    apply R.bind_sat NoS1
    · exact stepEnergyCompute_all NotS1 _ _ _ _ st h (by simp [NotS1])
    · intro st h
      apply R.bind_sat NoS1
      · split
        · exact stepSosCompute_all NotS1 s true st h (by simp [NotS1])
        · simpa [always, AllEv, or_imp] using h
      · intro st h
        apply R.bind_sat NoS1
        · split
          · exact stepExportTO_all NotS1 s .k st h (by simp [NotS1]) (by simp [NotS1, Out.isS1])
          · simpa [always, AllEv, or_imp] using h
        · intro st h
          simp

/-- the body of the `try` block in the repaired order: a `return` or an exception leaves `s1` untouched -/
theorem body_late_spec (p : Bool) (s : Script α) (st : St α) (h : NoS1 st) :
    (body ⟨true, p⟩ s st).Sat ⟨fun _ => True, fun _ => NoS1, fun _ => NoS1⟩ := by
  unfold body
  apply R.bind_sat NoS1
  · exact R.sat_mono (pre_noS1 _ s st h) (by simp [always]) (by simp [always]) (by simp [always])
  · intro st h
    simpa using tailLate_spec s _ st h

theorem written_noS1 (r : Result α) (h : NoS1 r.st) : ∀ o ∈ r.written, o.isS1 = false := by
  intro o ho
  simp only [Result.written, List.mem_filterMap] at ho
  obtain ⟨e, he, heo⟩ := ho
  have := h e he
  cases e <;> simp_all [Event.isWrite, NotS1]

theorem tailEarly_exported (s : Script α) (ke : α) (st : St α) :
    (stepExportState st).ev <+: (tailEarly s ke st).st.ev := by
  unfold tailEarly
  apply R.bind_prefix
  · split
    · exact stepExportTO_prefix s .k _
    · simp
  · intro st
    apply R.bind_prefix _ _ _ (stepEnergyCompute_prefix _ _ _ _ st)
    intro st
    apply R.bind_prefix _ _ _ ((storeIf_prefix _ _ st).trans (stepEnergyCompute_prefix _ _ _ _ _))
    intro st
    split
    · apply R.bind_prefix _ _ _ ((storeIf_prefix _ _ st).trans (stepSosCompute_prefix _ _ _))
      intro st; simp [List.prefix_append]
    · simpa using storeIf_prefix _ _ st

theorem tailLate_next_exported (s : Script α) (ke : α) (st st' : St α) (h : tailLate s ke st = .next st') :
    Event.exp ∈ st'.ev := by
  unfold tailLate at h
  obtain ⟨s1, _, h⟩ := R.bind_eq_next h
  obtain ⟨s2, _, h⟩ := R.bind_eq_next h
  obtain ⟨s3, _, h⟩ := R.bind_eq_next h
  obtain ⟨s4, _, h⟩ := R.bind_eq_next h
  injection h with h
  subst h
  have h0 : Event.exp ∈ (stepExportState s4).ev := by simp [stepExportState]
  exact ((storeIf_prefix _ _ _).trans ((storeIf_prefix _ _ _).trans (storeIf_prefix _ _ _))).subset h0

/-- `pre` falls through: the call reaches `b.exportStateData(d.s1)` in the shipped order -/
def reachesExport (s : Script α) : Prop :=
  s.init = .ok ∧ ¬ cbRaises s ∧ isPrediction (effK0 s.k0) = false ∧
  ¬ (s.traits.hasCTO = false ∧ integSmt (effK0 s.k0) ≠ .noStiffness) ∧ integrationOk s

instance (s : Script α) : Decidable (reachesExport s) := by unfold reachesExport; infer_instance

theorem pre_code_none_iff (v : Variant) (s : Script α) (st : St α) :
    (pre v s st).code = none ↔ reachesExport s := by
  rw [pre_code]
  unfold reachesExport
  by_cases h1 : s.init = .ok <;> by_cases h2 : cbRaises s <;>
    by_cases h3 : isPrediction (effK0 s.k0) = true <;>
    by_cases h4 : s.traits.hasCTO = false ∧ integSmt (effK0 s.k0) ≠ .noStiffness <;>
    by_cases h5 : integrationOk s <;> by_cases h6 : predictionOk s <;> simp_all


/-- a void step of the tail that may throw before its store: when it throws nothing was stored by it -/
theorem stepExportTO_thr (P : Event α → Prop) (s : Script α) (o : Out) (st : St α) (h : AllEv P st) (h0 : P .gto) :
    (stepExportTO s o st).Sat ⟨fun _ => True, fun _ => AllEv P, fun _ => AllEv P⟩ := by
  unfold stepExportTO
  (repeat' split) <;> simp_all [AllEv, or_imp]

/-- repaired order: if the tail does not fall through, it has stored nothing at all -/
theorem tailLate_stores_nothing (s : Script α) (ke : α) (st : St α) (h : NoWrite st) :
    (tailLate s ke st).Sat ⟨fun _ => True, fun _ => NoWrite, fun _ => NoWrite⟩ := by
  unfold tailLate
  apply R.bind_sat NoWrite
  · exact stepEnergyCompute_all NotWrite _ _ _ _ st h (by simp [NotWrite])
  · intro st h
    apply R.bind_sat NoWrite
    · exact stepEnergyCompute_all NotWrite _ _ _ _ st h (by simp [NotWrite])
    · intro st h
      apply R.bind_sat NoWrite
      · split
        · exact stepSosCompute_all NotWrite s true st h (by simp [NotWrite])
        · simpa [always, AllEv, or_imp] using h
      · intro st h
        apply R.bind_sat (fun _ => True)
        · split
          · exact stepExportTO_thr NotWrite s .k st h (by simp [NotWrite])
          · simp
        · intro st _
          simp

/-- an integration request stores nothing before the tail -/
theorem pre_stores_nothing (v : Variant) (s : Script α) (st : St α) (hi : isPrediction (effK0 s.k0) = false)
    (h : NoWrite st) : (pre v s st).Sat (always NoWrite) :=
  pre_all NotWrite v s st (fun e he => by cases e <;> simp_all [PreEv, NotWrite]) h

end TfelVerif.C40
