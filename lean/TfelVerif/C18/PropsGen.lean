/-
  C18 — T1 tie: the traced fsalgo templates equal the model (Model.lean), for ALL values at once, at
  the traced sizes N = 0, 1, 2, 3, 5, 12 (generic recursion, the `N = 1` ends, the unrolled
  random-access `copy<2..10>` and the generic `copy<12>` on top of it).

  `Gen.lean` is regenerated on every run by instantiating the real templates with the recording
  scalar on distinct input symbols (user operations uninterpreted), so each theorem below says:
  the dataflow the compiler produced from the shipped header — which cell every result reads, in
  which order the operands are combined (`x + init`, `op(x, acc)`, `init + x*y`, `op1(init, op2(x, y))`)
  — is the one of the model that Props.lean reasons about.  The statements are fixed; a changed
  header changes `Gen.lean` under them.  (This file was written once with a script; it is not
  regenerated.)
-/
import TfelVerif.C18.Gen
import TfelVerif.C18.Model

namespace TfelVerif.C18
open TfelVerif

variable {K : Type} [Field K]

/-- a memory holding the given cells from address 0 -/
def memOf (l : List K) : Mem K := fun i => l.getD i 0


/-! ### N = 0 -/

theorem acc_0_eq_model (fn : Fns K) (init : K) :
    Gen.acc_0_r 0 0 fn  init = accumulatePlus 0 0 (memOf []) init := by rfl

theorem accop_0_eq_model (fn : Fns K) (init : K) :
    Gen.accop_0_r 0 0 fn  init
      = (accumulate (fun (s : Unit) a b => (s, fn.call "op" [a, b])) 0 () 0 (memOf []) init).2 := by rfl

theorem ip_0_eq_model (fn : Fns K) (init : K) :
    Gen.ip_0_r 0 0 fn   init = innerProductPlus 0 0 0 (memOf []) init := by rfl

theorem ip0_0_eq_model (fn : Fns K) :
    Gen.ip0_0_r 0 0 fn   = innerProduct0 0 0 0 0 (memOf []) := by rfl

theorem ipop_0_eq_model (fn : Fns K) (init : K) :
    Gen.ipop_0_r 0 0 fn   init
      = (innerProduct (fun (s : Unit) a b => (s, fn.call "op1" [a, b]))
          (fun (s : Unit) a b => (s, fn.call "op2" [a, b])) 0 () 0 0 (memOf []) init).2 := by rfl

theorem tr1_0_eq_model (fn : Fns K) :
    Gen.tr1_0_all 0 0 fn 
      = window (transform1 (fun (s : Unit) a => (s, fn.call "f" [a])) 0 () 0 0 (memOf [])).2.2 0 0 := by rfl

theorem tr2_0_eq_model (fn : Fns K) :
    Gen.tr2_0_all 0 0 fn  
      = window (transform2 (fun (s : Unit) a b => (s, fn.call "op" [a, b])) 0 () 0 0 0
          (memOf [])).2.2 0 0 := by rfl

theorem copy_0_eq_model (fn : Fns K) :
    Gen.copy_0_all 0 0 fn  = window (copy true 0 0 0 (memOf [])).2 0 0 := by rfl

theorem swap_0_eq_model (fn : Fns K) :
    Gen.swap_0_all 0 0 fn   = window (swapRanges 0 0 0 (memOf [])).2 0 0 := by rfl

/-! ### N = 1 -/

theorem acc_1_eq_model (fn : Fns K) (x0 : K) (init : K) :
    Gen.acc_1_r 0 0 fn x0 init = accumulatePlus 1 0 (memOf [x0]) init := by rfl

theorem accop_1_eq_model (fn : Fns K) (x0 : K) (init : K) :
    Gen.accop_1_r 0 0 fn x0 init
      = (accumulate (fun (s : Unit) a b => (s, fn.call "op" [a, b])) 1 () 0 (memOf [x0]) init).2 := by rfl

theorem ip_1_eq_model (fn : Fns K) (x0 y0 : K) (init : K) :
    Gen.ip_1_r 0 0 fn x0 y0 init = innerProductPlus 1 0 1 (memOf [x0, y0]) init := by rfl

theorem ip0_1_eq_model (fn : Fns K) (x0 y0 : K) :
    Gen.ip0_1_r 0 0 fn x0 y0 = innerProduct0 0 1 0 1 (memOf [x0, y0]) := by rfl

theorem ipop_1_eq_model (fn : Fns K) (x0 y0 : K) (init : K) :
    Gen.ipop_1_r 0 0 fn x0 y0 init
      = (innerProduct (fun (s : Unit) a b => (s, fn.call "op1" [a, b]))
          (fun (s : Unit) a b => (s, fn.call "op2" [a, b])) 1 () 0 1 (memOf [x0, y0]) init).2 := by rfl

theorem tr1_1_eq_model (fn : Fns K) (x0 : K) :
    Gen.tr1_1_all 0 0 fn x0
      = window (transform1 (fun (s : Unit) a => (s, fn.call "f" [a])) 1 () 0 1 (memOf [x0])).2.2 1 1 := by rfl

theorem tr2_1_eq_model (fn : Fns K) (x0 y0 : K) :
    Gen.tr2_1_all 0 0 fn x0 y0
      = window (transform2 (fun (s : Unit) a b => (s, fn.call "op" [a, b])) 1 () 0 1 2
          (memOf [x0, y0])).2.2 2 1 := by rfl

theorem copy_1_eq_model (fn : Fns K) (x0 : K) :
    Gen.copy_1_all 0 0 fn x0 = window (copy true 1 0 1 (memOf [x0])).2 1 1 := by rfl

theorem swap_1_eq_model (fn : Fns K) (x0 y0 : K) :
    Gen.swap_1_all 0 0 fn x0 y0 = window (swapRanges 1 0 1 (memOf [x0, y0])).2 0 2 := by rfl

/-! ### N = 2 -/

theorem acc_2_eq_model (fn : Fns K) (x0 x1 : K) (init : K) :
    Gen.acc_2_r 0 0 fn x0 x1 init = accumulatePlus 2 0 (memOf [x0, x1]) init := by rfl

theorem accop_2_eq_model (fn : Fns K) (x0 x1 : K) (init : K) :
    Gen.accop_2_r 0 0 fn x0 x1 init
      = (accumulate (fun (s : Unit) a b => (s, fn.call "op" [a, b])) 2 () 0 (memOf [x0, x1]) init).2 := by rfl

theorem ip_2_eq_model (fn : Fns K) (x0 x1 y0 y1 : K) (init : K) :
    Gen.ip_2_r 0 0 fn x0 x1 y0 y1 init = innerProductPlus 2 0 2 (memOf [x0, x1, y0, y1]) init := by rfl

theorem ip0_2_eq_model (fn : Fns K) (x0 x1 y0 y1 : K) :
    Gen.ip0_2_r 0 0 fn x0 x1 y0 y1 = innerProduct0 0 2 0 2 (memOf [x0, x1, y0, y1]) := by rfl

theorem ipop_2_eq_model (fn : Fns K) (x0 x1 y0 y1 : K) (init : K) :
    Gen.ipop_2_r 0 0 fn x0 x1 y0 y1 init
      = (innerProduct (fun (s : Unit) a b => (s, fn.call "op1" [a, b]))
          (fun (s : Unit) a b => (s, fn.call "op2" [a, b])) 2 () 0 2 (memOf [x0, x1, y0, y1]) init).2 := by rfl

theorem tr1_2_eq_model (fn : Fns K) (x0 x1 : K) :
    Gen.tr1_2_all 0 0 fn x0 x1
      = window (transform1 (fun (s : Unit) a => (s, fn.call "f" [a])) 2 () 0 2 (memOf [x0, x1])).2.2 2 2 := by rfl

theorem tr2_2_eq_model (fn : Fns K) (x0 x1 y0 y1 : K) :
    Gen.tr2_2_all 0 0 fn x0 x1 y0 y1
      = window (transform2 (fun (s : Unit) a b => (s, fn.call "op" [a, b])) 2 () 0 2 4
          (memOf [x0, x1, y0, y1])).2.2 4 2 := by rfl

theorem copy_2_eq_model (fn : Fns K) (x0 x1 : K) :
    Gen.copy_2_all 0 0 fn x0 x1 = window (copy true 2 0 2 (memOf [x0, x1])).2 2 2 := by rfl

theorem swap_2_eq_model (fn : Fns K) (x0 x1 y0 y1 : K) :
    Gen.swap_2_all 0 0 fn x0 x1 y0 y1 = window (swapRanges 2 0 2 (memOf [x0, x1, y0, y1])).2 0 4 := by rfl

/-! ### N = 3 -/

theorem acc_3_eq_model (fn : Fns K) (x0 x1 x2 : K) (init : K) :
    Gen.acc_3_r 0 0 fn x0 x1 x2 init = accumulatePlus 3 0 (memOf [x0, x1, x2]) init := by rfl

theorem accop_3_eq_model (fn : Fns K) (x0 x1 x2 : K) (init : K) :
    Gen.accop_3_r 0 0 fn x0 x1 x2 init
      = (accumulate (fun (s : Unit) a b => (s, fn.call "op" [a, b])) 3 () 0 (memOf [x0, x1, x2]) init).2 := by rfl

theorem ip_3_eq_model (fn : Fns K) (x0 x1 x2 y0 y1 y2 : K) (init : K) :
    Gen.ip_3_r 0 0 fn x0 x1 x2 y0 y1 y2 init = innerProductPlus 3 0 3 (memOf [x0, x1, x2, y0, y1, y2]) init := by rfl

theorem ip0_3_eq_model (fn : Fns K) (x0 x1 x2 y0 y1 y2 : K) :
    Gen.ip0_3_r 0 0 fn x0 x1 x2 y0 y1 y2 = innerProduct0 0 3 0 3 (memOf [x0, x1, x2, y0, y1, y2]) := by rfl

theorem ipop_3_eq_model (fn : Fns K) (x0 x1 x2 y0 y1 y2 : K) (init : K) :
    Gen.ipop_3_r 0 0 fn x0 x1 x2 y0 y1 y2 init
      = (innerProduct (fun (s : Unit) a b => (s, fn.call "op1" [a, b]))
          (fun (s : Unit) a b => (s, fn.call "op2" [a, b])) 3 () 0 3 (memOf [x0, x1, x2, y0, y1, y2]) init).2 := by rfl

theorem tr1_3_eq_model (fn : Fns K) (x0 x1 x2 : K) :
    Gen.tr1_3_all 0 0 fn x0 x1 x2
      = window (transform1 (fun (s : Unit) a => (s, fn.call "f" [a])) 3 () 0 3 (memOf [x0, x1, x2])).2.2 3 3 := by rfl

theorem tr2_3_eq_model (fn : Fns K) (x0 x1 x2 y0 y1 y2 : K) :
    Gen.tr2_3_all 0 0 fn x0 x1 x2 y0 y1 y2
      = window (transform2 (fun (s : Unit) a b => (s, fn.call "op" [a, b])) 3 () 0 3 6
          (memOf [x0, x1, x2, y0, y1, y2])).2.2 6 3 := by rfl

theorem copy_3_eq_model (fn : Fns K) (x0 x1 x2 : K) :
    Gen.copy_3_all 0 0 fn x0 x1 x2 = window (copy true 3 0 3 (memOf [x0, x1, x2])).2 3 3 := by rfl

theorem swap_3_eq_model (fn : Fns K) (x0 x1 x2 y0 y1 y2 : K) :
    Gen.swap_3_all 0 0 fn x0 x1 x2 y0 y1 y2 = window (swapRanges 3 0 3 (memOf [x0, x1, x2, y0, y1, y2])).2 0 6 := by rfl

/-! ### N = 5 -/

theorem acc_5_eq_model (fn : Fns K) (x0 x1 x2 x3 x4 : K) (init : K) :
    Gen.acc_5_r 0 0 fn x0 x1 x2 x3 x4 init = accumulatePlus 5 0 (memOf [x0, x1, x2, x3, x4]) init := by rfl

theorem accop_5_eq_model (fn : Fns K) (x0 x1 x2 x3 x4 : K) (init : K) :
    Gen.accop_5_r 0 0 fn x0 x1 x2 x3 x4 init
      = (accumulate (fun (s : Unit) a b => (s, fn.call "op" [a, b])) 5 () 0 (memOf [x0, x1, x2, x3, x4]) init).2 := by rfl

theorem ip_5_eq_model (fn : Fns K) (x0 x1 x2 x3 x4 y0 y1 y2 y3 y4 : K) (init : K) :
    Gen.ip_5_r 0 0 fn x0 x1 x2 x3 x4 y0 y1 y2 y3 y4 init = innerProductPlus 5 0 5 (memOf [x0, x1, x2, x3, x4, y0, y1, y2, y3, y4]) init := by rfl

theorem ip0_5_eq_model (fn : Fns K) (x0 x1 x2 x3 x4 y0 y1 y2 y3 y4 : K) :
    Gen.ip0_5_r 0 0 fn x0 x1 x2 x3 x4 y0 y1 y2 y3 y4 = innerProduct0 0 5 0 5 (memOf [x0, x1, x2, x3, x4, y0, y1, y2, y3, y4]) := by rfl

theorem ipop_5_eq_model (fn : Fns K) (x0 x1 x2 x3 x4 y0 y1 y2 y3 y4 : K) (init : K) :
    Gen.ipop_5_r 0 0 fn x0 x1 x2 x3 x4 y0 y1 y2 y3 y4 init
      = (innerProduct (fun (s : Unit) a b => (s, fn.call "op1" [a, b]))
          (fun (s : Unit) a b => (s, fn.call "op2" [a, b])) 5 () 0 5 (memOf [x0, x1, x2, x3, x4, y0, y1, y2, y3, y4]) init).2 := by rfl

theorem tr1_5_eq_model (fn : Fns K) (x0 x1 x2 x3 x4 : K) :
    Gen.tr1_5_all 0 0 fn x0 x1 x2 x3 x4
      = window (transform1 (fun (s : Unit) a => (s, fn.call "f" [a])) 5 () 0 5 (memOf [x0, x1, x2, x3, x4])).2.2 5 5 := by rfl

theorem tr2_5_eq_model (fn : Fns K) (x0 x1 x2 x3 x4 y0 y1 y2 y3 y4 : K) :
    Gen.tr2_5_all 0 0 fn x0 x1 x2 x3 x4 y0 y1 y2 y3 y4
      = window (transform2 (fun (s : Unit) a b => (s, fn.call "op" [a, b])) 5 () 0 5 10
          (memOf [x0, x1, x2, x3, x4, y0, y1, y2, y3, y4])).2.2 10 5 := by rfl

theorem copy_5_eq_model (fn : Fns K) (x0 x1 x2 x3 x4 : K) :
    Gen.copy_5_all 0 0 fn x0 x1 x2 x3 x4 = window (copy true 5 0 5 (memOf [x0, x1, x2, x3, x4])).2 5 5 := by rfl

theorem swap_5_eq_model (fn : Fns K) (x0 x1 x2 x3 x4 y0 y1 y2 y3 y4 : K) :
    Gen.swap_5_all 0 0 fn x0 x1 x2 x3 x4 y0 y1 y2 y3 y4 = window (swapRanges 5 0 5 (memOf [x0, x1, x2, x3, x4, y0, y1, y2, y3, y4])).2 0 10 := by rfl

/-! ### N = 12 -/

theorem acc_12_eq_model (fn : Fns K) (x0 x1 x2 x3 x4 x5 x6 x7 x8 x9 x10 x11 : K) (init : K) :
    Gen.acc_12_r 0 0 fn x0 x1 x2 x3 x4 x5 x6 x7 x8 x9 x10 x11 init = accumulatePlus 12 0 (memOf [x0, x1, x2, x3, x4, x5, x6, x7, x8, x9, x10, x11]) init := by rfl

theorem accop_12_eq_model (fn : Fns K) (x0 x1 x2 x3 x4 x5 x6 x7 x8 x9 x10 x11 : K) (init : K) :
    Gen.accop_12_r 0 0 fn x0 x1 x2 x3 x4 x5 x6 x7 x8 x9 x10 x11 init
      = (accumulate (fun (s : Unit) a b => (s, fn.call "op" [a, b])) 12 () 0 (memOf [x0, x1, x2, x3, x4, x5, x6, x7, x8, x9, x10, x11]) init).2 := by rfl

theorem ip_12_eq_model (fn : Fns K) (x0 x1 x2 x3 x4 x5 x6 x7 x8 x9 x10 x11 y0 y1 y2 y3 y4 y5 y6 y7 y8 y9 y10 y11 : K) (init : K) :
    Gen.ip_12_r 0 0 fn x0 x1 x2 x3 x4 x5 x6 x7 x8 x9 x10 x11 y0 y1 y2 y3 y4 y5 y6 y7 y8 y9 y10 y11 init = innerProductPlus 12 0 12 (memOf [x0, x1, x2, x3, x4, x5, x6, x7, x8, x9, x10, x11, y0, y1, y2, y3, y4, y5, y6, y7, y8, y9, y10, y11]) init := by rfl

theorem ip0_12_eq_model (fn : Fns K) (x0 x1 x2 x3 x4 x5 x6 x7 x8 x9 x10 x11 y0 y1 y2 y3 y4 y5 y6 y7 y8 y9 y10 y11 : K) :
    Gen.ip0_12_r 0 0 fn x0 x1 x2 x3 x4 x5 x6 x7 x8 x9 x10 x11 y0 y1 y2 y3 y4 y5 y6 y7 y8 y9 y10 y11 = innerProduct0 0 12 0 12 (memOf [x0, x1, x2, x3, x4, x5, x6, x7, x8, x9, x10, x11, y0, y1, y2, y3, y4, y5, y6, y7, y8, y9, y10, y11]) := by rfl

theorem ipop_12_eq_model (fn : Fns K) (x0 x1 x2 x3 x4 x5 x6 x7 x8 x9 x10 x11 y0 y1 y2 y3 y4 y5 y6 y7 y8 y9 y10 y11 : K) (init : K) :
    Gen.ipop_12_r 0 0 fn x0 x1 x2 x3 x4 x5 x6 x7 x8 x9 x10 x11 y0 y1 y2 y3 y4 y5 y6 y7 y8 y9 y10 y11 init
      = (innerProduct (fun (s : Unit) a b => (s, fn.call "op1" [a, b]))
          (fun (s : Unit) a b => (s, fn.call "op2" [a, b])) 12 () 0 12 (memOf [x0, x1, x2, x3, x4, x5, x6, x7, x8, x9, x10, x11, y0, y1, y2, y3, y4, y5, y6, y7, y8, y9, y10, y11]) init).2 := by rfl

theorem tr1_12_eq_model (fn : Fns K) (x0 x1 x2 x3 x4 x5 x6 x7 x8 x9 x10 x11 : K) :
    Gen.tr1_12_all 0 0 fn x0 x1 x2 x3 x4 x5 x6 x7 x8 x9 x10 x11
      = window (transform1 (fun (s : Unit) a => (s, fn.call "f" [a])) 12 () 0 12 (memOf [x0, x1, x2, x3, x4, x5, x6, x7, x8, x9, x10, x11])).2.2 12 12 := by rfl

theorem tr2_12_eq_model (fn : Fns K) (x0 x1 x2 x3 x4 x5 x6 x7 x8 x9 x10 x11 y0 y1 y2 y3 y4 y5 y6 y7 y8 y9 y10 y11 : K) :
    Gen.tr2_12_all 0 0 fn x0 x1 x2 x3 x4 x5 x6 x7 x8 x9 x10 x11 y0 y1 y2 y3 y4 y5 y6 y7 y8 y9 y10 y11
      = window (transform2 (fun (s : Unit) a b => (s, fn.call "op" [a, b])) 12 () 0 12 24
          (memOf [x0, x1, x2, x3, x4, x5, x6, x7, x8, x9, x10, x11, y0, y1, y2, y3, y4, y5, y6, y7, y8, y9, y10, y11])).2.2 24 12 := by rfl

theorem copy_12_eq_model (fn : Fns K) (x0 x1 x2 x3 x4 x5 x6 x7 x8 x9 x10 x11 : K) :
    Gen.copy_12_all 0 0 fn x0 x1 x2 x3 x4 x5 x6 x7 x8 x9 x10 x11 = window (copy true 12 0 12 (memOf [x0, x1, x2, x3, x4, x5, x6, x7, x8, x9, x10, x11])).2 12 12 := by rfl

theorem swap_12_eq_model (fn : Fns K) (x0 x1 x2 x3 x4 x5 x6 x7 x8 x9 x10 x11 y0 y1 y2 y3 y4 y5 y6 y7 y8 y9 y10 y11 : K) :
    Gen.swap_12_all 0 0 fn x0 x1 x2 x3 x4 x5 x6 x7 x8 x9 x10 x11 y0 y1 y2 y3 y4 y5 y6 y7 y8 y9 y10 y11 = window (swapRanges 12 0 12 (memOf [x0, x1, x2, x3, x4, x5, x6, x7, x8, x9, x10, x11, y0, y1, y2, y3, y4, y5, y6, y7, y8, y9, y10, y11])).2 0 24 := by rfl

end TfelVerif.C18
