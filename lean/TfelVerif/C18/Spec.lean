/-
  C18 — reference definitions: the `std::` algorithms on the first `n` elements, written
  independently of the fsalgo templates as the loops of the C++ standard
  ([alg.copy], [alg.fill], [alg.transform], [accumulate], [inner.product], [alg.equal],
  [alg.foreach], [alg.generate], [numeric.iota], [alg.min.max], [alg.swap]):
  read-only algorithms as folds over the list of the first `n` elements, writing algorithms as
  `for (i = 0; i != n; ++i)` loops over one memory (so that aliasing has its C++ meaning).
  User operations are stateful (`σ → … → σ × result`), called in the order of the standard's loops,
  with the standard's argument orders.
-/
import TfelVerif.C18.Model

namespace TfelVerif.C18.StdAlg
open TfelVerif.C18

variable {α β γ σ : Type}

/-- `for (i = 0; i != n; ++i) acc = body(acc, i);` -/
def loop (n : Nat) (body : β → Nat → β) (init : β) : β := (List.range n).foldl body init

/-- `std::copy(p, p + n, q)`: `*q++ = *p++`, returns the end of the output -/
def copy (n p q : Nat) (m : Mem α) : Nat × Mem α :=
  (q + n, loop n (fun m i => m.set (q + i) (m (p + i))) m)

/-- `std::fill(p, p + n, v)` -/
def fill (n p : Nat) (v : α) (m : Mem α) : Mem α := loop n (fun m i => m.set (p + i) v) m

/-- `std::transform(p, p + n, q, op)` -/
def transform1 (op : σ → α → σ × α) (n : Nat) (s : σ) (p q : Nat) (m : Mem α) : Nat × σ × Mem α :=
  (q + n, loop n (fun sm i => let v := op sm.1 (sm.2 (p + i)); (v.1, sm.2.set (q + i) v.2)) (s, m))

/-- `std::transform(p, p + n, q, r, op)` -/
def transform2 (op : σ → α → α → σ × α) (n : Nat) (s : σ) (p q r : Nat) (m : Mem α) :
    Nat × σ × Mem α :=
  (r + n, loop n (fun sm i => let v := op sm.1 (sm.2 (p + i)) (sm.2 (q + i));
                               (v.1, sm.2.set (r + i) v.2)) (s, m))

/-- `std::accumulate(first, last, init, op)`: `init = op(init, *first)` over the elements `xs` -/
def accumulate (op : σ → β → α → σ × β) (s : σ) (init : β) : List α → σ × β
  | [] => (s, init)
  | x :: xs => let r := op s init x; accumulate op r.1 r.2 xs

/-- `std::inner_product(first1, last1, first2, init, op1, op2)`:
`init = op1(init, op2(*first1, *first2))` over the pairs `xs` -/
def innerProduct (op1 : σ → β → γ → σ × β) (op2 : σ → α → α → σ × γ) (s : σ) (init : β) :
    List (α × α) → σ × β
  | [] => (s, init)
  | x :: xs =>
    let t := op2 s x.1 x.2
    let r := op1 t.1 init t.2
    innerProduct op1 op2 r.1 r.2 xs

/-- `std::equal(first1, last1, first2, pred)`: stops at the first pair rejected by `pred` -/
def equal (pred : σ → α → α → σ × Bool) (s : σ) : List (α × α) → σ × Bool
  | [] => (s, true)
  | x :: xs => let r := pred s x.1 x.2; if r.2 then equal pred r.1 xs else (r.1, false)

/-- `std::for_each(first, last, f)`: the final functor -/
def forEach (f : σ → α → σ) (s : σ) (xs : List α) : σ := xs.foldl f s

/-- `std::generate(p, p + n, gen)` -/
def generate (gen : σ → σ × α) (n : Nat) (s : σ) (p : Nat) (m : Mem α) : σ × Mem α :=
  loop n (fun sm i => let r := gen sm.1; (r.1, sm.2.set (p + i) r.2)) (s, m)

/-- `std::iota(p, p + n, v)`: `*p = v; ++v;` -/
def iota (succ : α → α) (n p : Nat) (v : α) (m : Mem α) : Mem α :=
  (loop n (fun vm i => (succ vm.1, vm.2.set (p + i) vm.1)) (v, m)).2

/-- `std::min_element(p, p + n, comp)`: `if (comp(*first, *smallest)) smallest = first;`
over the elements after the first; `p` for an empty range -/
def minElement (comp : σ → α → α → σ × Bool) (n : Nat) (s : σ) (p : Nat) (m : Mem α) : σ × Nat :=
  loop (n - 1) (fun sb i => let c := comp sb.1 (m (p + 1 + i)) (m sb.2);
                            (c.1, if c.2 then p + 1 + i else sb.2)) (s, p)

/-- `std::max_element(p, p + n, comp)`: `if (comp(*largest, *first)) largest = first;` -/
def maxElement (comp : σ → α → α → σ × Bool) (n : Nat) (s : σ) (p : Nat) (m : Mem α) : σ × Nat :=
  loop (n - 1) (fun sb i => let c := comp sb.1 (m sb.2) (m (p + 1 + i));
                            (c.1, if c.2 then p + 1 + i else sb.2)) (s, p)

/-- `std::swap_ranges(p, p + n, q)` -/
def swapRanges (n p q : Nat) (m : Mem α) : Nat × Mem α :=
  (q + n, loop n (fun m i => (m.set (q + i) (m (p + i))).set (p + i) (m (q + i))) m)

/-- the outputs and the final state of calling a stateful unary operation on each element in turn -/
def runOps (op : σ → α → σ × β) (s : σ) : List α → σ × List β
  | [] => (s, [])
  | x :: xs => let r := op s x; let t := runOps op r.1 xs; (t.1, r.2 :: t.2)

/-- the values produced by `n` successive calls of a generator, and its final state -/
def runGen (gen : σ → σ × α) (s : σ) : Nat → σ × List α
  | 0 => (s, [])
  | n + 1 => let r := gen s; let t := runGen gen r.1 n; (t.1, r.2 :: t.2)

/-- `[v, succ v, succ (succ v), …]` (`n` values): what `std::iota` writes -/
def iterates (succ : α → α) (v : α) : Nat → List α
  | 0 => []
  | n + 1 => v :: iterates succ (succ v) n

end TfelVerif.C18.StdAlg
