/-
  C18 — hand-written executable model (core Lean only) of `tfel::fsalgo::X<N>::exe`
  (include/TFEL/FSAlgorithm/*.hxx).

  Every algorithm is a recursion on `N` shaped exactly as the class templates recurse
  (`X<N>::exe` does one step and calls `X<N-1>::exe(++p, …)`), including the explicit
  specialisations: `copy<0>`, `copy<1>`, `copy<2..10>` (unrolled body for random access iterators,
  generic step otherwise), `transform<0>`, `iota<0>`, `min_element<0>,<1>`, `max_element<0>,<1>`;
  the others end the recursion with `if constexpr (N >= 1) … else …`.

  Memory is one address space `Mem α = Nat → α`; an iterator is an address, `++p` is `p + 1`.
  Aliasing between ranges is therefore part of the model.
  User supplied operations (functors, predicates, generators) are *stateful*:
  `op : σ → args → σ × result`. The state `σ` is threaded in the order in which the C++ calls the
  functor, so "the sequence of user calls" is the final state for the logging instance
  `σ = List args`, and a functor carrying a by-value counter is the instance `σ = Nat`
  (the templates pass functors by value *after* each use, which preserves the state sequence).

  Argument orders are those of the code, not those of the standard library:
    accumulate : `*p + init`, `binary_op(*p, init)`          (std: `init + *p`, `op(init, *p)`)
    max_element: `*p > *q`,  `comp(*p, *q)` with p the new element, q the current best
                                                             (std: `comp(*largest, *first)`)
  The tie to the code is the correspondence run by checks/C18.py (N = 0..64, all variants).
-/
namespace TfelVerif.C18

abbrev Mem (α : Type) := Nat → α

/-- `*i = v` -/
def Mem.set {α : Type} (m : Mem α) (i : Nat) (v : α) : Mem α := fun j => if j = i then v else m j

/-- the `n` cells starting at address `p` -/
def window {α : Type} (m : Mem α) (p n : Nat) : List α := (List.range n).map (fun i => m (p + i))

section
variable {α β γ σ : Type}

/-! ### copy.hxx -/

/-- the unrolled body of `copy<k>::exe` for random access iterators:
`q[0] = p[0]; …; q[k-1] = p[k-1]; return q + k;` -/
def copyUnrolled (k p q : Nat) (m : Mem α) : Nat × Mem α :=
  (q + k, (List.range k).foldl (fun m i => m.set (q + i) (m (p + i))) m)

/-- `copy<N>::exe(p, q)`; `ra` = both iterators are random access
(`IsRandomAccessIterator<…>::cond`), which selects the unrolled specialisations for N = 2..10 -/
def copy (ra : Bool) : Nat → Nat → Nat → Mem α → Nat × Mem α
  | 0, _, q, m => (q, m)                                   -- copy<0>
  | 1, p, q, m => (q + 1, m.set q (m p))                   -- copy<1>: *q = *p; return ++q;
  | n + 2, p, q, m =>
    if ra && n + 2 ≤ 10 then copyUnrolled (n + 2) p q m    -- copy<2..10>, random access
    else copy ra (n + 1) (p + 1) (q + 1) (m.set q (m p))   -- *q = *p; return copy<N-1>::exe(++p, ++q);

/-! ### fill.hxx -/

/-- `fill<N>::exe(p, v)` -/
def fill : Nat → Nat → α → Mem α → Mem α
  | 0, _, _, m => m
  | n + 1, p, v, m => fill n (p + 1) v (m.set p v)

/-! ### transform.hxx -/

/-- `transform<N>::exe(p, q, op)`: `*q = op(*p); return transform<N-1>::exe(++p, ++q, op);` -/
def transform1 (op : σ → α → σ × α) : Nat → σ → Nat → Nat → Mem α → Nat × σ × Mem α
  | 0, s, _, q, m => (q, s, m)
  | n + 1, s, p, q, m =>
    let r := op s (m p)
    transform1 op n r.1 (p + 1) (q + 1) (m.set q r.2)

/-- `transform<N>::exe(p, q, r, op)`: `*r = op(*p, *q); …` -/
def transform2 (op : σ → α → α → σ × α) : Nat → σ → Nat → Nat → Nat → Mem α → Nat × σ × Mem α
  | 0, s, _, _, r, m => (r, s, m)
  | n + 1, s, p, q, r, m =>
    let v := op s (m p) (m q)
    transform2 op n v.1 (p + 1) (q + 1) (r + 1) (m.set r v.2)

/-! ### accumulate.hxx -/

/-- `accumulate<N>::exe(p, init)`: `result = *p + init` -/
def accumulatePlus [Add α] : Nat → Nat → Mem α → α → α
  | 0, _, _, init => init
  | n + 1, p, m, init => accumulatePlus n (p + 1) m (m p + init)

/-- `accumulate<N>::exe(p, init, binary_op)`: `result = binary_op(*p, init)` -/
def accumulate (op : σ → α → β → σ × β) : Nat → σ → Nat → Mem α → β → σ × β
  | 0, s, _, _, init => (s, init)
  | n + 1, s, p, m, init =>
    let r := op s (m p) init
    accumulate op n r.1 (p + 1) m r.2

/-! ### inner_product.hxx -/

/-- `inner_product<N>::exe(p, q, init)`: `r = init + (*p) * (*q)` -/
def innerProductPlus [Add α] [Mul α] : Nat → Nat → Nat → Mem α → α → α
  | 0, _, _, _, init => init
  | n + 1, p, q, m, init => innerProductPlus n (p + 1) (q + 1) m (init + m p * m q)

/-- `inner_product<N>::exe(p, q, init, binary_op1, binary_op2)`:
`r = binary_op1(init, binary_op2(*p, *q))` (op2 is called first) -/
def innerProduct (op1 : σ → β → γ → σ × β) (op2 : σ → α → α → σ × γ) :
    Nat → σ → Nat → Nat → Mem α → β → σ × β
  | 0, s, _, _, _, init => (s, init)
  | n + 1, s, p, q, m, init =>
    let t := op2 s (m p) (m q)
    let r := op1 t.1 init t.2
    innerProduct op1 op2 n r.1 (p + 1) (q + 1) m r.2

/-- `inner_product<N>::exe<T>(p, q)` (no initial value): `T{}` for N = 0, otherwise starts from
`(*p) * (*q)` and continues with `inner_product<N-1>::exe(++p, ++q, r)` -/
def innerProduct0 [Add α] [Mul α] (zero : α) : Nat → Nat → Nat → Mem α → α
  | 0, _, _, _ => zero
  | n + 1, p, q, m => innerProductPlus n (p + 1) (q + 1) m (m p * m q)

/-! ### equal.hxx -/

/-- `equal<N>::exe(p, q, pred)`: `pred(*p, *q) && equal<N-1>::exe(++p, ++q, pred)` (short circuit);
the overload without predicate is the instance `pred = (· == ·)` -/
def equal (pred : σ → α → α → σ × Bool) : Nat → σ → Nat → Nat → Mem α → σ × Bool
  | 0, s, _, _, _ => (s, true)
  | n + 1, s, p, q, m =>
    let r := pred s (m p) (m q)
    if r.2 then equal pred n r.1 (p + 1) (q + 1) m else (r.1, false)

/-! ### for_each.hxx -/

/-- `for_each<N>::exe(p, f)`: `f(*p); for_each<N-1>::exe(++p, f);` (f by reference) -/
def forEach (f : σ → α → σ) : Nat → σ → Nat → Mem α → σ
  | 0, s, _, _ => s
  | n + 1, s, p, m => forEach f n (f s (m p)) (p + 1) m

/-! ### generate.hxx -/

/-- `generate<N>::exe(p, gen)`: `*p = gen(); generate<N-1>::exe(++p, gen);` -/
def generate (gen : σ → σ × α) : Nat → σ → Nat → Mem α → σ × Mem α
  | 0, s, _, m => (s, m)
  | n + 1, s, p, m =>
    let r := gen s
    generate gen n r.1 (p + 1) (m.set p r.2)

/-! ### iota.hxx -/

/-- `iota<N>::exe(p, value)`: `*p = value; iota<N-1>::exe(++p, ++value);` -/
def iota (succ : α → α) : Nat → Nat → α → Mem α → Mem α
  | 0, _, _, m => m
  | n + 1, p, v, m => iota succ n (p + 1) (succ v) (m.set p v)

/-! ### min_element.hxx / max_element.hxx
Both files have the same structure; `cmp new best` is `*p < *q` / `comp(*p, *q)` for min_element
and `*p > *q` / `comp(*p, *q)` for max_element, with `p` the element being visited and `q` the
current result. -/

/-- `X_element<N>::exe_(p, q[, comp])` for N ≥ 1: the generic template selects and calls
`X_element<N-1>::exe_(++p, result)`, the specialisation for N = 1 selects and returns.
(`exe_` does not exist for N = 0 and is never called with it.) -/
def selectExe_ (cmp : σ → α → α → σ × Bool) : Nat → σ → Nat → Nat → Mem α → σ × Nat
  | 0, s, _, q, _ => (s, q)
  | 1, s, p, q, m =>
    let c := cmp s (m p) (m q)
    (c.1, if c.2 then p else q)
  | n + 2, s, p, q, m =>
    let c := cmp s (m p) (m q)
    selectExe_ cmp (n + 1) c.1 (p + 1) (if c.2 then p else q) m

/-- `min_element<N>::exe(p[, comp])` and `max_element<N>::exe(p[, comp])`:
N = 0 and N = 1 return `p`; otherwise `result = p; return X_element<N-1>::exe_(++p, result);` -/
def selectElement (cmp : σ → α → α → σ × Bool) : Nat → σ → Nat → Mem α → σ × Nat
  | 0, s, p, _ => (s, p)
  | 1, s, p, _ => (s, p)
  | n + 2, s, p, m => selectExe_ cmp (n + 1) s (p + 1) p m

/-! ### swap_ranges.hxx -/

/-- `swap_ranges<N>::exe(p, q)`: `std::swap(*q, *p); return swap_ranges<N-1>::exe(++p, ++q);` -/
def swapRanges : Nat → Nat → Nat → Mem α → Nat × Mem α
  | 0, _, q, m => (q, m)
  | n + 1, p, q, m => swapRanges n (p + 1) (q + 1) ((m.set q (m p)).set p (m q))

end
end TfelVerif.C18
