/-
  C18 — helper lemmas (loops, windows, memory updates, per-algorithm pointwise facts).
  Property theorems are in Props.lean.
-/
import TfelVerif.C18.Spec
import Mathlib.Order.Basic

namespace TfelVerif.C18
open StdAlg

variable {α β γ σ : Type}

/-! ### loops and windows -/

theorem loop_succ (n : Nat) (body : β → Nat → β) (init : β) :
    loop (n + 1) body init = loop n (fun b i => body b (i + 1)) (body init 0) := by
  unfold loop
  rw [List.range_succ_eq_map, List.foldl_cons, List.foldl_map]

theorem loop_zero (body : β → Nat → β) (init : β) : loop 0 body init = init := rfl

/-- peel the first iteration of a loop, the remaining body being given up to index shift -/
theorem loop_shift (n : Nat) (f g : β → Nat → β) (init : β) (h : ∀ b i, f b (i + 1) = g b i) :
    loop (n + 1) f init = loop n g (f init 0) := by
  rw [loop_succ]; congr 1; funext b i; exact h b i

theorem window_zero (m : Mem α) (p : Nat) : window m p 0 = [] := rfl

theorem window_succ (m : Mem α) (p n : Nat) : window m p (n + 1) = m p :: window m (p + 1) n := by
  unfold window
  rw [List.range_succ_eq_map, List.map_cons, List.map_map]
  simp only [Nat.add_zero, List.cons.injEq, true_and]
  apply List.map_congr_left
  intro i _
  simp only [Function.comp]
  congr 1; omega

theorem window_length (m : Mem α) (p n : Nat) : (window m p n).length = n := by
  simp [window]

theorem window_congr {m1 m2 : Mem α} {p q n : Nat} (h : ∀ i, i < n → m1 (p + i) = m2 (q + i)) :
    window m1 p n = window m2 q n := by
  unfold window
  apply List.map_congr_left
  intro i hi
  exact h i (List.mem_range.mp hi)

@[simp] theorem Mem.set_same (m : Mem α) (i : Nat) (v : α) : m.set i v i = v := by simp [Mem.set]

theorem Mem.set_other (m : Mem α) (i j : Nat) (v : α) (h : j ≠ i) : m.set i v j = m j := by
  simp [Mem.set, h]

/-! ### copy -/

/-- the generic template alone: `*q = *p; return copy<N-1>::exe(++p, ++q);` down to `copy<0>` -/
def copyRec : Nat → Nat → Nat → Mem α → Nat × Mem α
  | 0, _, q, m => (q, m)
  | n + 1, p, q, m => copyRec n (p + 1) (q + 1) (m.set q (m p))

theorem copyRec_eq_std (n p q : Nat) (m : Mem α) : copyRec n p q m = StdAlg.copy n p q m := by
  induction n generalizing p q m with
  | zero => rfl
  | succ n ih =>
    rw [copyRec, ih]
    unfold StdAlg.copy
    rw [loop_shift n _ (fun m i => m.set (q + 1 + i) (m (p + 1 + i)))]
    · simp only [Nat.add_zero]; congr 1; omega
    · intro b i
      have h : ∀ a : Nat, a + (i + 1) = a + 1 + i := fun a => by omega
      simp only [h]

theorem copyUnrolled_eq_std (n p q : Nat) (m : Mem α) :
    copyUnrolled n p q m = StdAlg.copy n p q m := rfl

theorem copy_eq_copyRec (ra : Bool) (n p q : Nat) (m : Mem α) :
    copy ra n p q m = copyRec n p q m := by
  induction n generalizing p q m with
  | zero => rfl
  | succ n ih =>
    cases n with
    | zero => rfl
    | succ n =>
      rw [copy]
      split
      · rw [copyUnrolled_eq_std, ← copyRec_eq_std]
      · rw [ih]; rfl

theorem copyRec_spec (n p q : Nat) (m : Mem α) (h : q ≤ p ∨ p + n ≤ q) :
    (copyRec n p q m).1 = q + n ∧ (∀ i, i < n → (copyRec n p q m).2 (q + i) = m (p + i)) ∧
    (∀ j, (j < q ∨ q + n ≤ j) → (copyRec n p q m).2 j = m j) := by
  induction n generalizing p q m with
  | zero => exact ⟨rfl, fun i hi => absurd hi (Nat.not_lt_zero i), fun j _ => rfl⟩
  | succ n ih =>
    obtain ⟨h1, h2, h3⟩ := ih (p + 1) (q + 1) (m.set q (m p)) (by omega)
    rw [copyRec]
    refine ⟨by omega, ?_, ?_⟩
    · intro i hi
      cases i with
      | zero => simp only [Nat.add_zero]; rw [h3 q (by omega), Mem.set_same]
      | succ k =>
        rw [show q + (k + 1) = q + 1 + k by omega, h2 k (by omega), Mem.set_other _ _ _ _ (by omega)]
        congr 1; omega
    · intro j hj
      rw [h3 j (by omega), Mem.set_other _ _ _ _ (by omega)]

/-! ### fill -/

theorem fill_pointwise (n p : Nat) (v : α) (m : Mem α) :
    (∀ i, i < n → fill n p v m (p + i) = v) ∧ (∀ j, (j < p ∨ p + n ≤ j) → fill n p v m j = m j) := by
  induction n generalizing p m with
  | zero => exact ⟨fun i hi => absurd hi (Nat.not_lt_zero i), fun j _ => rfl⟩
  | succ n ih =>
    obtain ⟨h2, h3⟩ := ih (p + 1) (m.set p v)
    rw [fill]
    refine ⟨?_, ?_⟩
    · intro i hi
      cases i with
      | zero => simp only [Nat.add_zero]; rw [h3 p (by omega), Mem.set_same]
      | succ k => rw [show p + (k + 1) = p + 1 + k by omega, h2 k (by omega)]
    · intro j hj
      rw [h3 j (by omega), Mem.set_other _ _ _ _ (by omega)]

/-! ### transform -/

theorem transform1_pointwise (op : σ → α → σ × α) (n : Nat) (s : σ) (p q : Nat) (m : Mem α)
    (h : q ≤ p ∨ p + n ≤ q) :
    (transform1 op n s p q m).1 = q + n ∧
    ((transform1 op n s p q m).2.1, window (transform1 op n s p q m).2.2 q n)
      = runOps op s (window m p n) ∧
    (∀ j, (j < q ∨ q + n ≤ j) → (transform1 op n s p q m).2.2 j = m j) := by
  induction n generalizing s p q m with
  | zero => exact ⟨rfl, rfl, fun j _ => rfl⟩
  | succ n ih =>
    obtain ⟨h1, h2, h3⟩ := ih (op s (m p)).1 (p + 1) (q + 1) (m.set q (op s (m p)).2) (by omega)
    rw [transform1]
    refine ⟨by omega, ?_, ?_⟩
    · rw [window_succ, window_succ, runOps]
      have hw : window (m.set q (op s (m p)).2) (p + 1) n = window m (p + 1) n := by
        apply window_congr; intro i hi; exact Mem.set_other _ _ _ _ (by omega)
      rw [hw] at h2
      rw [← h2]
      simp only [h3 q (by omega), Mem.set_same]
    · intro j hj
      rw [h3 j (by omega), Mem.set_other _ _ _ _ (by omega)]

theorem transform2_pointwise (op : σ → α → α → σ × α) (n : Nat) (s : σ) (p q r : Nat) (m : Mem α)
    (h1 : r ≤ p ∨ p + n ≤ r) (h2 : r ≤ q ∨ q + n ≤ r) :
    (transform2 op n s p q r m).1 = r + n ∧
    ((transform2 op n s p q r m).2.1, window (transform2 op n s p q r m).2.2 r n)
      = runOps (fun s (x : α × α) => op s x.1 x.2) s ((window m p n).zip (window m q n)) ∧
    (∀ j, (j < r ∨ r + n ≤ j) → (transform2 op n s p q r m).2.2 j = m j) := by
  induction n generalizing s p q r m with
  | zero => exact ⟨rfl, rfl, fun j _ => rfl⟩
  | succ n ih =>
    obtain ⟨g1, g2, g3⟩ := ih (op s (m p) (m q)).1 (p + 1) (q + 1) (r + 1)
      (m.set r (op s (m p) (m q)).2) (by omega) (by omega)
    rw [transform2]
    refine ⟨by omega, ?_, ?_⟩
    · rw [window_succ, window_succ, window_succ, List.zip_cons_cons, runOps]
      have hw1 : window (m.set r (op s (m p) (m q)).2) (p + 1) n = window m (p + 1) n := by
        apply window_congr; intro i hi; exact Mem.set_other _ _ _ _ (by omega)
      have hw2 : window (m.set r (op s (m p) (m q)).2) (q + 1) n = window m (q + 1) n := by
        apply window_congr; intro i hi; exact Mem.set_other _ _ _ _ (by omega)
      rw [hw1, hw2] at g2
      rw [← g2]
      simp only [g3 r (by omega), Mem.set_same]
    · intro j hj
      rw [g3 j (by omega), Mem.set_other _ _ _ _ (by omega)]

/-! ### generate, iota -/

theorem generate_pointwise (gen : σ → σ × α) (n : Nat) (s : σ) (p : Nat) (m : Mem α) :
    ((generate gen n s p m).1, window (generate gen n s p m).2 p n) = runGen gen s n ∧
    (∀ j, (j < p ∨ p + n ≤ j) → (generate gen n s p m).2 j = m j) := by
  induction n generalizing s p m with
  | zero => exact ⟨rfl, fun j _ => rfl⟩
  | succ n ih =>
    obtain ⟨h2, h3⟩ := ih (gen s).1 (p + 1) (m.set p (gen s).2)
    rw [generate]
    refine ⟨?_, ?_⟩
    · rw [window_succ, runGen, ← h2]
      simp only [h3 p (by omega), Mem.set_same]
    · intro j hj
      rw [h3 j (by omega), Mem.set_other _ _ _ _ (by omega)]

theorem iota_pointwise (succ : α → α) (n p : Nat) (v : α) (m : Mem α) :
    window (iota succ n p v m) p n = iterates succ v n ∧
    (∀ j, (j < p ∨ p + n ≤ j) → iota succ n p v m j = m j) := by
  induction n generalizing p v m with
  | zero => exact ⟨rfl, fun j _ => rfl⟩
  | succ n ih =>
    obtain ⟨h2, h3⟩ := ih (p + 1) (succ v) (m.set p v)
    rw [iota]
    refine ⟨?_, ?_⟩
    · rw [window_succ, iterates, ← h2, h3 p (by omega), Mem.set_same]
    · intro j hj
      rw [h3 j (by omega), Mem.set_other _ _ _ _ (by omega)]

/-! ### swap_ranges -/

theorem swapRanges_pointwise (n p q : Nat) (m : Mem α) (h : p + n ≤ q ∨ q + n ≤ p) :
    (swapRanges n p q m).1 = q + n ∧
    (∀ i, i < n → (swapRanges n p q m).2 (p + i) = m (q + i)) ∧
    (∀ i, i < n → (swapRanges n p q m).2 (q + i) = m (p + i)) ∧
    (∀ j, (j < p ∨ p + n ≤ j) → (j < q ∨ q + n ≤ j) → (swapRanges n p q m).2 j = m j) := by
  induction n generalizing p q m with
  | zero =>
    exact ⟨rfl, fun i hi => absurd hi (Nat.not_lt_zero i), fun i hi => absurd hi (Nat.not_lt_zero i),
      fun j _ _ => rfl⟩
  | succ n ih =>
    obtain ⟨g1, g2, g3, g4⟩ := ih (p + 1) (q + 1) ((m.set q (m p)).set p (m q)) (by omega)
    rw [swapRanges]
    refine ⟨by omega, ?_, ?_, ?_⟩
    · intro i hi
      cases i with
      | zero =>
        simp only [Nat.add_zero]
        rw [g4 p (by omega) (by omega), Mem.set_same]
      | succ k =>
        rw [show p + (k + 1) = p + 1 + k by omega, g2 k (by omega),
          Mem.set_other _ _ _ _ (by omega), Mem.set_other _ _ _ _ (by omega)]
        congr 1; omega
    · intro i hi
      cases i with
      | zero =>
        simp only [Nat.add_zero]
        rw [g4 q (by omega) (by omega), Mem.set_other _ _ _ _ (by omega), Mem.set_same]
      | succ k =>
        rw [show q + (k + 1) = q + 1 + k by omega, g3 k (by omega),
          Mem.set_other _ _ _ _ (by omega), Mem.set_other _ _ _ _ (by omega)]
        congr 1; omega
    · intro j hp hq
      rw [g4 j (by omega) (by omega), Mem.set_other _ _ _ _ (by omega),
        Mem.set_other _ _ _ _ (by omega)]

/-! ### min_element / max_element -/

/-- the generic selection step alone, `n` elements from `p`, current result `q` -/
def selectRec (cmp : σ → α → α → σ × Bool) : Nat → σ → Nat → Nat → Mem α → σ × Nat
  | 0, s, _, q, _ => (s, q)
  | n + 1, s, p, q, m =>
    selectRec cmp n (cmp s (m p) (m q)).1 (p + 1) (if (cmp s (m p) (m q)).2 then p else q) m

theorem selectExe_eq_selectRec (cmp : σ → α → α → σ × Bool) (n : Nat) (s : σ) (p q : Nat)
    (m : Mem α) : selectExe_ cmp n s p q m = selectRec cmp n s p q m := by
  induction n generalizing s p q with
  | zero => rfl
  | succ n ih =>
    cases n with
    | zero => rfl
    | succ n => rw [selectExe_, ih]; rfl

theorem selectElement_eq_selectRec (cmp : σ → α → α → σ × Bool) (n : Nat) (s : σ) (p : Nat)
    (m : Mem α) : selectElement cmp n s p m = selectRec cmp (n - 1) s (p + 1) p m := by
  match n with
  | 0 => rfl
  | 1 => rfl
  | n + 2 => rw [selectElement, selectExe_eq_selectRec]; rfl

/-- `selectRec` is the loop `if (cmp(*first, *best)) best = first;` -/
theorem selectRec_eq_loop (cmp : σ → α → α → σ × Bool) (n : Nat) (s : σ) (p q : Nat) (m : Mem α) :
    selectRec cmp n s p q m =
      loop n (fun sb i => let c := cmp sb.1 (m (p + i)) (m sb.2);
                          (c.1, if c.2 then p + i else sb.2)) (s, q) := by
  induction n generalizing s p q with
  | zero => rfl
  | succ n ih =>
    rw [selectRec, ih]
    rw [loop_shift n _ (fun sb i => let c := cmp sb.1 (m (p + 1 + i)) (m sb.2);
                                     (c.1, if c.2 then p + 1 + i else sb.2))]
    · simp only [Nat.add_zero]
    · intro b i
      have h : ∀ a : Nat, a + (i + 1) = a + 1 + i := fun a => by omega
      simp only [h]

section order
variable [LinearOrder α]

/-- `r` is the first minimal position of `m` on `[a, b)` -/
def FirstMin (m : Mem α) (a b r : Nat) : Prop :=
  a ≤ r ∧ r < b ∧ (∀ j, a ≤ j → j < b → m r ≤ m j) ∧ (∀ j, a ≤ j → j < r → m r < m j)

/-- `r` is the first maximal position of `m` on `[a, b)` -/
def FirstMax (m : Mem α) (a b r : Nat) : Prop :=
  a ≤ r ∧ r < b ∧ (∀ j, a ≤ j → j < b → m j ≤ m r) ∧ (∀ j, a ≤ j → j < r → m j < m r)

theorem selectRec_min (n : Nat) (a p q : Nat) (m : Mem α) (h : FirstMin m a p q) :
    FirstMin m a (p + n)
      (selectRec (fun (s : Unit) x y => (s, decide (x < y))) n () p q m).2 := by
  induction n generalizing p q with
  | zero => exact h
  | succ n ih =>
    rw [selectRec]
    have step : FirstMin m a (p + 1) (if decide (m p < m q) then p else q) := by
      obtain ⟨h1, h2, h3, h4⟩ := h
      by_cases hc : m p < m q
      · simp only [hc, decide_true, if_true]
        refine ⟨by omega, by omega, ?_, ?_⟩
        · intro j hj1 hj2
          by_cases hjp : j = p
          · rw [hjp]
          · exact le_of_lt (lt_of_lt_of_le hc (h3 j hj1 (by omega)))
        · intro j hj1 hj2
          exact lt_of_lt_of_le hc (h3 j hj1 hj2)
      · simp only [hc, decide_false, Bool.false_eq_true, if_false]
        refine ⟨h1, by omega, ?_, h4⟩
        intro j hj1 hj2
        by_cases hjp : j = p
        · rw [hjp]; exact le_of_not_gt hc
        · exact h3 j hj1 (by omega)
    have := ih (p + 1) _ step
    rw [show p + (n + 1) = p + 1 + n by omega]
    exact this

theorem selectRec_max (n : Nat) (a p q : Nat) (m : Mem α) (h : FirstMax m a p q) :
    FirstMax m a (p + n)
      (selectRec (fun (s : Unit) x y => (s, decide (x > y))) n () p q m).2 := by
  induction n generalizing p q with
  | zero => exact h
  | succ n ih =>
    rw [selectRec]
    have step : FirstMax m a (p + 1) (if decide (m p > m q) then p else q) := by
      obtain ⟨h1, h2, h3, h4⟩ := h
      by_cases hc : m p > m q
      · simp only [hc, decide_true, if_true]
        refine ⟨by omega, by omega, ?_, ?_⟩
        · intro j hj1 hj2
          by_cases hjp : j = p
          · rw [hjp]
          · exact le_of_lt (lt_of_le_of_lt (h3 j hj1 (by omega)) hc)
        · intro j hj1 hj2
          exact lt_of_le_of_lt (h3 j hj1 hj2) hc
      · simp only [hc, decide_false, Bool.false_eq_true, if_false]
        refine ⟨h1, by omega, ?_, h4⟩
        intro j hj1 hj2
        by_cases hjp : j = p
        · rw [hjp]; exact le_of_not_gt hc
        · exact h3 j hj1 (by omega)
    have := ih (p + 1) _ step
    rw [show p + (n + 1) = p + 1 + n by omega]
    exact this

end order

end TfelVerif.C18
