/-
  C18 — "Fixed-size algorithms equal their standard counterparts": property theorems.

  For every size `N` (induction on the template recursion, the explicit specialisations included),
  every memory, every placement of the ranges, and every *stateful* user operation
  (so the sequence of user calls is part of each equality):

  * `X_eq_std`   : `fsalgo::X<N>::exe` = the `std::` algorithm on the first N elements
                   (loop form of the standard, aliasing included);
  * `X_spec`     : what that means on ranges that do not overlap harmfully (`List`-level:
                   `window out N = …`, cells outside the output range untouched, returned iterator).

  Two families do NOT equal their `std::` counterpart when given a custom operation, because the
  code passes the operands in the other order (see Model.lean):
    accumulate<N>::exe(p, init, op) = std::accumulate with `flip op`
    max_element<N>::exe(p, comp)    = std::max_element with `flip comp` = std::min_element with comp
  These are stated exactly (`…_eq_std_flip`), the full statement is proved under the hypothesis
  that makes it true (`…_partial`), and shown false without it (`…_ne_std_witness`).
-/
import TfelVerif.C18.Lemmas

namespace TfelVerif.C18
open StdAlg

variable {α β γ σ : Type}

/-! ## copy -/

/-- `copy<N>::exe` (all specialisations, random access or not) is `std::copy` on N elements,
whatever the aliasing between input and output -/
theorem copy_eq_std (ra : Bool) (N p q : Nat) (m : Mem α) :
    copy ra N p q m = StdAlg.copy N p q m := by
  rw [copy_eq_copyRec, copyRec_eq_std]

/-- under `std::copy`'s precondition (the output does not start inside the input): the output
range holds the first N input elements, nothing else is written, the end of the output is returned -/
theorem copy_spec (ra : Bool) (N p q : Nat) (m : Mem α) (h : q ≤ p ∨ p + N ≤ q) :
    (copy ra N p q m).1 = q + N ∧
    window (copy ra N p q m).2 q N = window m p N ∧
    (∀ j, (j < q ∨ q + N ≤ j) → (copy ra N p q m).2 j = m j) := by
  rw [copy_eq_copyRec]
  obtain ⟨h1, h2, h3⟩ := copyRec_spec N p q m h
  exact ⟨h1, window_congr h2, h3⟩

example : (copy true 12 0 20 (fun i => i)).1 = 32 ∧
    window (copy true 12 0 20 (fun i => i)).2 20 12 = window (fun i => i) 0 12 :=
  ⟨(copy_spec true 12 0 20 _ (by omega)).1, (copy_spec true 12 0 20 _ (by omega)).2.1⟩

/-! ## fill -/

theorem fill_eq_std (N p : Nat) (v : α) (m : Mem α) : fill N p v m = StdAlg.fill N p v m := by
  induction N generalizing p m with
  | zero => rfl
  | succ n ih =>
    rw [fill, ih]
    unfold StdAlg.fill
    rw [loop_shift n _ (fun m i => m.set (p + 1 + i) v)]
    · simp only [Nat.add_zero]
    · intro b i
      have h : ∀ a : Nat, a + (i + 1) = a + 1 + i := fun a => by omega
      simp only [h]

theorem fill_spec (N p : Nat) (v : α) (m : Mem α) :
    window (fill N p v m) p N = List.replicate N v ∧
    (∀ j, (j < p ∨ p + N ≤ j) → fill N p v m j = m j) := by
  obtain ⟨h2, h3⟩ := fill_pointwise N p v m
  refine ⟨?_, h3⟩
  apply List.ext_getElem
  · simp [window_length]
  · intro i h1 _
    simp only [window, List.getElem_map, List.getElem_range, List.getElem_replicate]
    exact h2 i (by simpa [window_length] using h1)

/-! ## transform -/

theorem transform1_eq_std (op : σ → α → σ × α) (N : Nat) (s : σ) (p q : Nat) (m : Mem α) :
    transform1 op N s p q m = StdAlg.transform1 op N s p q m := by
  induction N generalizing s p q m with
  | zero => rfl
  | succ n ih =>
    rw [transform1, ih]
    unfold StdAlg.transform1
    rw [loop_shift n _ (fun (sm : σ × Mem α) i => let v := op sm.1 (sm.2 (p + 1 + i));
                                     (v.1, sm.2.set (q + 1 + i) v.2))]
    · simp only [Nat.add_zero]; congr 1; omega
    · intro b i
      have h : ∀ a : Nat, a + (i + 1) = a + 1 + i := fun a => by omega
      simp only [h]

/-- on ranges where the output does not start inside the input: the outputs are `op` applied to
the first N inputs *in order* (final functor state = state after these N calls), nothing else is
written, and the end of the output is returned -/
theorem transform1_spec (op : σ → α → σ × α) (N : Nat) (s : σ) (p q : Nat) (m : Mem α)
    (h : q ≤ p ∨ p + N ≤ q) :
    (transform1 op N s p q m).1 = q + N ∧
    ((transform1 op N s p q m).2.1, window (transform1 op N s p q m).2.2 q N)
      = runOps op s (window m p N) ∧
    (∀ j, (j < q ∨ q + N ≤ j) → (transform1 op N s p q m).2.2 j = m j) :=
  transform1_pointwise op N s p q m h

theorem transform2_eq_std (op : σ → α → α → σ × α) (N : Nat) (s : σ) (p q r : Nat) (m : Mem α) :
    transform2 op N s p q r m = StdAlg.transform2 op N s p q r m := by
  induction N generalizing s p q r m with
  | zero => rfl
  | succ n ih =>
    rw [transform2, ih]
    unfold StdAlg.transform2
    rw [loop_shift n _ (fun (sm : σ × Mem α) i => let v := op sm.1 (sm.2 (p + 1 + i)) (sm.2 (q + 1 + i));
                                     (v.1, sm.2.set (r + 1 + i) v.2))]
    · simp only [Nat.add_zero]; congr 1; omega
    · intro b i
      have h : ∀ a : Nat, a + (i + 1) = a + 1 + i := fun a => by omega
      simp only [h]

theorem transform2_spec (op : σ → α → α → σ × α) (N : Nat) (s : σ) (p q r : Nat) (m : Mem α)
    (h1 : r ≤ p ∨ p + N ≤ r) (h2 : r ≤ q ∨ q + N ≤ r) :
    (transform2 op N s p q r m).1 = r + N ∧
    ((transform2 op N s p q r m).2.1, window (transform2 op N s p q r m).2.2 r N)
      = runOps (fun s (x : α × α) => op s x.1 x.2) s ((window m p N).zip (window m q N)) ∧
    (∀ j, (j < r ∨ r + N ≤ j) → (transform2 op N s p q r m).2.2 j = m j) :=
  transform2_pointwise op N s p q r m h1 h2

-- a logging functor (state = list of arguments seen): the call sequence is the input range, in order
example : (transform1 (fun (log : List Nat) x => (log ++ [x], 2 * x)) 3 [] 0 10 (fun i => i + 5)).2.1
    = [5, 6, 7] := by decide

/-! ## accumulate -/

/-- `accumulate<N>::exe(p, init)` folds `x + acc` (element on the left) over the first N elements -/
theorem accumulatePlus_eq_foldl [Add α] (N p : Nat) (m : Mem α) (init : α) :
    accumulatePlus N p m init = (window m p N).foldl (fun acc x => x + acc) init := by
  induction N generalizing p init with
  | zero => rfl
  | succ n ih => rw [accumulatePlus, ih, window_succ, List.foldl_cons]

/-- … which is `std::accumulate(p, p + N, init)` (`acc + x`) when `+` is commutative
(every arithmetic type; not `std::string`) -/
theorem accumulatePlus_eq_std_of_comm [Add α] (hc : ∀ a b : α, a + b = b + a)
    (N p : Nat) (m : Mem α) (init : α) :
    accumulatePlus N p m init = (window m p N).foldl (fun acc x => acc + x) init := by
  rw [accumulatePlus_eq_foldl]
  congr 1; funext acc x; exact hc x acc

/-- exact statement: `accumulate<N>::exe(p, init, op)` is `std::accumulate(p, p + N, init, flip op)`
— same calls in the same order, but each call receives (element, accumulator) -/
theorem accumulate_eq_std_flip (op : σ → α → β → σ × β) (N : Nat) (s : σ) (p : Nat) (m : Mem α)
    (init : β) :
    accumulate op N s p m init
      = StdAlg.accumulate (fun s acc x => op s x acc) s init (window m p N) := by
  induction N generalizing s p init with
  | zero => rfl
  | succ n ih => rw [accumulate, ih, window_succ, StdAlg.accumulate]

/- Full statement of the property for accumulate with a custom operation (FALSE for the code as it
   is, see `accumulate_ne_std_witness`):
     ∀ op N s p m init, accumulate op N s p m init = StdAlg.accumulate op s init (window m p N)
   Proved part: it holds for operations that are symmetric in (element, accumulator). -/
theorem accumulate_eq_std_partial (op : σ → α → α → σ × α) (hsym : ∀ s a b, op s a b = op s b a)
    (N : Nat) (s : σ) (p : Nat) (m : Mem α) (init : α) :
    accumulate op N s p m init = StdAlg.accumulate op s init (window m p N) := by
  rw [accumulate_eq_std_flip]
  congr 1; funext s acc x; exact hsym s x acc

/-- the hypothesis of `accumulate_eq_std_partial` cannot be dropped: with `op = (· - ·)` on
`[1, 2, 3]`, init 100, the code returns 3-(2-(1-100)) = -98, `std::accumulate` 100-1-2-3 = 94 -/
theorem accumulate_ne_std_witness :
    ∃ (op : Unit → Int → Int → Unit × Int) (m : Mem Int),
      accumulate op 3 () 0 m 100 ≠ StdAlg.accumulate op () 100 (window m 0 3) :=
  ⟨fun s a b => (s, a - b), fun i => (i : Int) + 1, by decide⟩

example : ∀ (s : Unit) (a b : Int), (fun (s : Unit) (a b : Int) => (s, a * b)) s a b
    = (fun (s : Unit) (a b : Int) => (s, a * b)) s b a := fun _ a b => by simp [Int.mul_comm]

/-! ## inner_product -/

/-- `inner_product<N>::exe(p, q, init)` = `std::inner_product` (`acc + x*y`, pairs in order) -/
theorem innerProductPlus_eq_std [Add α] [Mul α] (N p q : Nat) (m : Mem α) (init : α) :
    innerProductPlus N p q m init
      = ((window m p N).zip (window m q N)).foldl (fun acc x => acc + x.1 * x.2) init := by
  induction N generalizing p q init with
  | zero => rfl
  | succ n ih => rw [innerProductPlus, ih, window_succ, window_succ, List.zip_cons_cons, List.foldl_cons]

/-- `inner_product<N>::exe(p, q, init, op1, op2)` = `std::inner_product` with the same operations,
called in the same order with the same arguments -/
theorem innerProduct_eq_std (op1 : σ → β → γ → σ × β) (op2 : σ → α → α → σ × γ) (N : Nat) (s : σ)
    (p q : Nat) (m : Mem α) (init : β) :
    innerProduct op1 op2 N s p q m init
      = StdAlg.innerProduct op1 op2 s init ((window m p N).zip (window m q N)) := by
  induction N generalizing s p q init with
  | zero => rfl
  | succ n ih =>
    rw [innerProduct, ih, window_succ, window_succ, List.zip_cons_cons, StdAlg.innerProduct]

/-- the overload without initial value: `T{}` on the empty range, otherwise the products summed
from the first one; equal to `std::inner_product(…, T{})` when `T{} + a = a` -/
theorem innerProduct0_eq_std [Add α] [Mul α] (zero : α) (h0 : ∀ a : α, zero + a = a)
    (N p q : Nat) (m : Mem α) :
    innerProduct0 zero N p q m
      = ((window m p N).zip (window m q N)).foldl (fun acc x => acc + x.1 * x.2) zero := by
  cases N with
  | zero => rfl
  | succ n =>
    rw [innerProduct0, innerProductPlus_eq_std, window_succ, window_succ, List.zip_cons_cons,
      List.foldl_cons, h0]

/-! ## equal -/

/-- `equal<N>::exe(p, q, pred)` = `std::equal`: same verdict, same predicate calls (it stops at the
first rejected pair) -/
theorem equal_eq_std (pred : σ → α → α → σ × Bool) (N : Nat) (s : σ) (p q : Nat) (m : Mem α) :
    equal pred N s p q m = StdAlg.equal pred s ((window m p N).zip (window m q N)) := by
  induction N generalizing s p q with
  | zero => rfl
  | succ n ih =>
    rw [equal, window_succ, window_succ, List.zip_cons_cons, StdAlg.equal]
    simp only []
    split
    · rw [ih]
    · rfl

/-- with `==` : true exactly when the two ranges hold the same N values -/
theorem equal_iff [BEq α] [LawfulBEq α] (N p q : Nat) (m : Mem α) :
    (equal (fun (s : Unit) a b => (s, a == b)) N () p q m).2 = true
      ↔ window m p N = window m q N := by
  induction N generalizing p q with
  | zero => simp [equal, window_zero]
  | succ n ih =>
    rw [equal, window_succ, window_succ]
    simp only []
    by_cases h : m p = m q
    · simp only [h, beq_self_eq_true, if_true, List.cons.injEq, true_and]
      exact ih (p + 1) (q + 1)
    · have hb : (m p == m q) = false := by simpa using h
      simp [hb, h]

/-! ## for_each -/

/-- `for_each<N>::exe(p, f)`: `f` has been applied to the first N elements in order -/
theorem forEach_eq_std (f : σ → α → σ) (N : Nat) (s : σ) (p : Nat) (m : Mem α) :
    forEach f N s p m = StdAlg.forEach f s (window m p N) := by
  induction N generalizing s p with
  | zero => rfl
  | succ n ih => rw [forEach, ih, window_succ]; rfl

/-! ## generate, iota -/

theorem generate_eq_std (gen : σ → σ × α) (N : Nat) (s : σ) (p : Nat) (m : Mem α) :
    generate gen N s p m = StdAlg.generate gen N s p m := by
  induction N generalizing s p m with
  | zero => rfl
  | succ n ih =>
    rw [generate, ih]
    unfold StdAlg.generate
    rw [loop_shift n _ (fun (sm : σ × Mem α) i => let r := gen sm.1; (r.1, sm.2.set (p + 1 + i) r.2))]
    · simp only [Nat.add_zero]
    · intro b i
      have h : ∀ a : Nat, a + (i + 1) = a + 1 + i := fun a => by omega
      simp only [h]

/-- the range holds the N successive values of the generator, nothing else is written -/
theorem generate_spec (gen : σ → σ × α) (N : Nat) (s : σ) (p : Nat) (m : Mem α) :
    ((generate gen N s p m).1, window (generate gen N s p m).2 p N) = runGen gen s N ∧
    (∀ j, (j < p ∨ p + N ≤ j) → (generate gen N s p m).2 j = m j) :=
  generate_pointwise gen N s p m

theorem iota_eq_std (succ : α → α) (N p : Nat) (v : α) (m : Mem α) :
    iota succ N p v m = StdAlg.iota succ N p v m := by
  have key : ∀ (N p : Nat) (v : α) (m : Mem α), ∃ w,
      loop N (fun vm i => (succ vm.1, vm.2.set (p + i) vm.1)) (v, m) = (w, iota succ N p v m) := by
    intro N
    induction N with
    | zero => intro p v m; exact ⟨v, rfl⟩
    | succ n ih =>
      intro p v m
      rw [loop_shift n _ (fun (vm : α × Mem α) i => (succ vm.1, vm.2.set (p + 1 + i) vm.1))]
      · simp only [Nat.add_zero]
        obtain ⟨w, hw⟩ := ih (p + 1) (succ v) (m.set p v)
        exact ⟨w, by rw [hw, iota]⟩
      · intro b i
        have h : ∀ a : Nat, a + (i + 1) = a + 1 + i := fun a => by omega
        simp only [h]
  obtain ⟨w, hw⟩ := key N p v m
  unfold StdAlg.iota
  rw [hw]

/-- the range holds `v, ++v, ++(++v), …`, nothing else is written -/
theorem iota_spec (succ : α → α) (N p : Nat) (v : α) (m : Mem α) :
    window (iota succ N p v m) p N = iterates succ v N ∧
    (∀ j, (j < p ∨ p + N ≤ j) → iota succ N p v m j = m j) :=
  iota_pointwise succ N p v m

example : window (iota (· + 1) 4 2 (10 : Nat) (fun _ => 0)) 2 4 = [10, 11, 12, 13] := by decide

/-! ## min_element / max_element -/

/-- `min_element<N>::exe(p, comp)` = `std::min_element(p, p + N, comp)`: same position (ties: the
first minimal element), same comparator calls with the same arguments -/
theorem minElement_eq_std (comp : σ → α → α → σ × Bool) (N : Nat) (s : σ) (p : Nat) (m : Mem α) :
    selectElement comp N s p m = StdAlg.minElement comp N s p m := by
  rw [selectElement_eq_selectRec, selectRec_eq_loop]; rfl

/-- exact statement: `max_element<N>::exe(p, comp)` calls `comp(new, best)` where
`std::max_element` calls `comp(best, new)`: it is `std::max_element` with the *flipped* comparator -/
theorem maxElement_eq_std_flip (comp : σ → α → α → σ × Bool) (N : Nat) (s : σ) (p : Nat)
    (m : Mem α) :
    selectElement comp N s p m = StdAlg.maxElement (fun s a b => comp s b a) N s p m := by
  rw [selectElement_eq_selectRec, selectRec_eq_loop]; rfl

/-- … in other words `max_element<N>::exe(p, comp)` and `min_element<N>::exe(p, comp)` are the
same function of `comp` (both are modelled by `selectElement`), i.e. `std::min_element` -/
theorem maxElement_comp_is_std_min (comp : σ → α → α → σ × Bool) (N : Nat) (s : σ) (p : Nat)
    (m : Mem α) :
    selectElement comp N s p m = StdAlg.minElement comp N s p m :=
  minElement_eq_std comp N s p m

/-- the overload without comparator uses `*p > *q`: it is `std::max_element(p, p + N)` (`<`) -/
theorem maxElement_default_eq_std [LT α] [DecidableRel (fun a b : α => a < b)]
    (N p : Nat) (m : Mem α) :
    selectElement (fun (s : Unit) a b => (s, decide (a > b))) N () p m
      = StdAlg.maxElement (fun (s : Unit) a b => (s, decide (a < b))) N () p m := by
  rw [maxElement_eq_std_flip]

/- Full statement of the property for max_element with a comparator (FALSE for the code as it is,
   see `maxElement_comp_ne_std_witness`):
     ∀ comp N s p m, selectElement comp N s p m = StdAlg.maxElement comp N s p m
   Proved part: it holds for comparators that do not distinguish their argument order. -/
theorem maxElement_comp_eq_std_partial (comp : σ → α → α → σ × Bool)
    (hsym : ∀ s a b, comp s a b = comp s b a) (N : Nat) (s : σ) (p : Nat) (m : Mem α) :
    selectElement comp N s p m = StdAlg.maxElement comp N s p m := by
  rw [maxElement_eq_std_flip]
  congr 1; funext s a b; exact hsym s b a

/-- with `comp = <` on `[3, 1, 4]` the code returns position 1 (the minimum), `std::max_element`
position 2 -/
theorem maxElement_comp_ne_std_witness :
    ∃ (comp : Unit → Nat → Nat → Unit × Bool) (m : Mem Nat),
      selectElement comp 3 () 0 m ≠ StdAlg.maxElement comp 3 () 0 m :=
  ⟨fun s a b => (s, decide (a < b)), fun i => [3, 1, 4].getD i 0, by decide⟩

/-- `min_element<N>::exe(p)` on a linear order, N ≥ 1: the returned position is in range, its
value is minimal, and it is the first such position -/
theorem minElement_first_minimum [LinearOrder α] (N p : Nat) (m : Mem α) (hN : 1 ≤ N) :
    FirstMin m p (p + N) (selectElement (fun (s : Unit) a b => (s, decide (a < b))) N () p m).2 := by
  rw [selectElement_eq_selectRec]
  have h0 : FirstMin m p (p + 1) p :=
    ⟨Nat.le_refl p, by omega, fun j h1 h2 => by rw [show j = p by omega],
      fun j h1 h2 => absurd h1 (by omega)⟩
  have := selectRec_min (N - 1) p (p + 1) p m h0
  rw [show p + 1 + (N - 1) = p + N by omega] at this
  exact this

/-- `max_element<N>::exe(p)` on a linear order, N ≥ 1: the first maximal position
(what `std::max_element` returns) -/
theorem maxElement_first_maximum [LinearOrder α] (N p : Nat) (m : Mem α) (hN : 1 ≤ N) :
    FirstMax m p (p + N) (selectElement (fun (s : Unit) a b => (s, decide (a > b))) N () p m).2 := by
  rw [selectElement_eq_selectRec]
  have h0 : FirstMax m p (p + 1) p :=
    ⟨Nat.le_refl p, by omega, fun j h1 h2 => by rw [show j = p by omega],
      fun j h1 h2 => absurd h1 (by omega)⟩
  have := selectRec_max (N - 1) p (p + 1) p m h0
  rw [show p + 1 + (N - 1) = p + N by omega] at this
  exact this

/-- empty range: `p` itself (= `last`), as `std::` -/
theorem selectElement_zero (comp : σ → α → α → σ × Bool) (s : σ) (p : Nat) (m : Mem α) :
    selectElement comp 0 s p m = (s, p) := rfl

example : (selectElement (fun (s : Unit) (a b : Nat) => (s, decide (a > b))) 5 () 0
    (fun i => [5, 9, 9, 1, 1].getD i 0)).2 = 1 := by decide
example : (selectElement (fun (s : Unit) (a b : Nat) => (s, decide (a < b))) 5 () 0
    (fun i => [5, 9, 9, 1, 1].getD i 0)).2 = 3 := by decide

/-! ## swap_ranges -/

theorem swapRanges_eq_std (N p q : Nat) (m : Mem α) :
    swapRanges N p q m = StdAlg.swapRanges N p q m := by
  induction N generalizing p q m with
  | zero => rfl
  | succ n ih =>
    rw [swapRanges, ih]
    unfold StdAlg.swapRanges
    rw [loop_shift n _ (fun m i => (m.set (q + 1 + i) (m (p + 1 + i))).set (p + 1 + i) (m (q + 1 + i)))]
    · simp only [Nat.add_zero]; congr 1; omega
    · intro b i
      have h : ∀ a : Nat, a + (i + 1) = a + 1 + i := fun a => by omega
      simp only [h]

/-- on disjoint ranges: the two ranges are exchanged, nothing else is written, the end of the
second range is returned -/
theorem swapRanges_spec (N p q : Nat) (m : Mem α) (h : p + N ≤ q ∨ q + N ≤ p) :
    (swapRanges N p q m).1 = q + N ∧
    window (swapRanges N p q m).2 p N = window m q N ∧
    window (swapRanges N p q m).2 q N = window m p N ∧
    (∀ j, (j < p ∨ p + N ≤ j) → (j < q ∨ q + N ≤ j) → (swapRanges N p q m).2 j = m j) := by
  obtain ⟨g1, g2, g3, g4⟩ := swapRanges_pointwise N p q m h
  exact ⟨g1, window_congr g2, window_congr g3, g4⟩

end TfelVerif.C18
