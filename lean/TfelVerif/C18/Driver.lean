/- line-protocol driver of the C18 model: one request per line, one answer per line.
   Request : `<algo> <ra|fw> <N> <args…> | <cell0> <cell1> …`
   Answer  : `ret <pos>` / `val <v>` / `st <state>` / `log <call;call;…>` / `mem <cells>` fields
   (see harness/C18/harness.cxx, which prints the same format from the real templates). -/
import TfelVerif.C18.Model
open TfelVerif.C18

def P : Int := 1000003

def showMem (m : Mem Int) (size : Nat) : String :=
  " mem " ++ " ".intercalate ((List.range size).map (fun i => toString (m i)))

def showLog (l : List String) : String := " log " ++ ";".intercalate l

/-- `std::string` as a value type with a non-commutative `+` (request `accs`) -/
instance : Add String := ⟨String.append⟩

def letter (v : Int) : String := String.singleton (Char.ofNat (97 + (v.emod 26).toNat))

/-- functor state: by-value call counter and shared call log -/
abbrev St := Nat × List String

def answer (algo : String) (ra : Bool) (N : Nat) (a : Array Int) (cells : Array Int) : String :=
  let m : Mem Int := fun i => cells.getD i 0
  let sz := cells.size
  let g (i : Nat) : Int := a.getD i 0
  let n (i : Nat) : Nat := (a.getD i 0).toNat
  match algo with
  | "copy" =>
    let r := copy ra N (n 0) (n 1) m
    s!"ret {r.1}" ++ showMem r.2 sz
  | "fill" => "ok" ++ showMem (fill N (n 0) (g 1) m) sz
  | "tr1" =>
    let op : St → Int → St × Int := fun s x => ((s.1 + 1, s.2 ++ [toString x]), (g 2 * x + g 3 + s.1).tmod P)
    let r := transform1 op N (0, []) (n 0) (n 1) m
    s!"ret {r.1}" ++ showLog r.2.1.2 ++ showMem r.2.2 sz
  | "tr2" =>
    let op : St → Int → Int → St × Int := fun s x y =>
      ((s.1 + 1, s.2 ++ [s!"{x},{y}"]), (g 3 * x - g 4 * y + s.1).tmod P)
    let r := transform2 op N (0, []) (n 0) (n 1) (n 2) m
    s!"ret {r.1}" ++ showLog r.2.1.2 ++ showMem r.2.2 sz
  | "acc" => s!"val {accumulatePlus N (n 0) m (g 1)}"
  | "accs" =>
    let ms : Mem String := fun i => letter (m i)
    s!"val {accumulatePlus N (n 0) ms "I"}"
  | "accop" =>
    let op : St → Int → Int → St × Int := fun s x y =>
      ((s.1 + 1, s.2 ++ [s!"{x},{y}"]), (g 2 * x + g 3 * y + s.1).tmod P)
    let r := accumulate op N (0, []) (n 0) m (g 1)
    s!"val {r.2}" ++ showLog r.1.2
  | "ip" => s!"val {innerProductPlus N (n 0) (n 1) m (g 2)}"
  | "ipop" =>
    let op2 : St → Int → Int → St × Int := fun s x y => ((s.1, s.2 ++ [s!"m{x},{y}"]), x - 2 * y)
    let op1 : St → Int → Int → St × Int := fun s x y =>
      ((s.1, s.2 ++ [s!"a{x},{y}"]), (g 3 * x + g 4 * y).tmod P)
    let r := innerProduct op1 op2 N (0, []) (n 0) (n 1) m (g 2)
    s!"val {r.2}" ++ showLog r.1.2
  | "ip0" => s!"val {innerProduct0 0 N (n 0) (n 1) m}"
  | "eq" =>
    let r := equal (fun (s : Unit) (x y : Int) => (s, x == y)) N () (n 0) (n 1) m
    s!"val {if r.2 then 1 else 0}"
  | "eqp" =>
    let pred : St → Int → Int → St × Bool := fun s x y =>
      ((s.1, s.2 ++ [s!"{x},{y}"]), decide ((x - y).natAbs ≤ (g 2).toNat))
    let r := equal pred N (0, []) (n 0) (n 1) m
    s!"val {if r.2 then 1 else 0}" ++ showLog r.1.2
  | "foreach" =>
    let f : Int × List String → Int → Int × List String := fun s x =>
      ((3 * s.1 + x).tmod P, s.2 ++ [toString x])
    let r := forEach f N (0, []) (n 0) m
    s!"st {r.1}" ++ showLog r.2
  | "gen" =>
    let gen : Int → Int × Int := fun s => ((5 * s + 3).tmod P, s)
    let r := generate gen N (g 1) (n 0) m
    "ok" ++ showMem r.2 sz
  | "iota" => "ok" ++ showMem (iota (· + 1) N (n 0) (g 1) m) sz
  | "min" =>
    let r := selectElement (fun (s : Unit) (x y : Int) => (s, decide (x < y))) N () (n 0) m
    s!"ret {r.2}"
  | "max" =>
    let r := selectElement (fun (s : Unit) (x y : Int) => (s, decide (x > y))) N () (n 0) m
    s!"ret {r.2}"
  | "minc" | "maxc" =>
    -- the same user comparator (keys x/4, truncated) is handed to both algorithms
    let comp : St → Int → Int → St × Bool := fun s x y =>
      ((s.1, s.2 ++ [s!"{x},{y}"]), decide (x.tdiv 4 < y.tdiv 4))
    let r := selectElement comp N (0, []) (n 0) m
    s!"ret {r.2}" ++ showLog r.1.2
  | "swap" =>
    let r := swapRanges N (n 0) (n 1) m
    s!"ret {r.1}" ++ showMem r.2 sz
  | _ => "bad-op"

def parseInts (l : List String) : Option (Array Int) :=
  l.foldl (fun acc t => match acc, t.toInt? with
    | some a, some v => some (a.push v)
    | _, _ => none) (some #[])

def handle (line : String) : String :=
  match line.trimAscii.toString.splitOn " | " with
  | [req, cells] =>
    match req.splitOn " " with
    | algo :: kind :: nstr :: args =>
      match nstr.toNat?, parseInts args, parseInts ((cells.splitOn " ").filter (· ≠ "")) with
      | some N, some a, some c => answer algo (kind == "ra") N a c
      | _, _, _ => "bad-op"
    | _ => "bad-op"
  | _ => "bad-op"

partial def loop (h : IO.FS.Stream) : IO Unit := do
  let line ← h.getLine
  if line.isEmpty then return ()
  IO.println (handle line)
  loop h

def main : IO Unit := do loop (← IO.getStdin)
