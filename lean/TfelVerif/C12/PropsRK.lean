/-
  C12 — property theorems, part 4: control flow of the quadrature (operator(), bisection refinement),
  Runge–Kutta steps (traced), `exe` and the step-size control of RungeKutta42/54 (models).
  See Props.lean for the conventions.
-/
import TfelVerif.C12.Lemmas
import TfelVerif.C12.Model

set_option linter.unusedSectionVars false
set_option linter.unusedVariables false

namespace TfelVerif.C12
open TfelVerif

variable {K : Type} [Field K] [LinearOrder K] [IsStrictOrderedRing K]

/-! ## B. Gauss–Kronrod: operator() and the bisection refinement (model) -/

def Plan.negate {α : Type} : Plan α → Plan α
  | .none => .none
  | .direct a b n => .direct a b (!n)
  | .whole n => .whole (!n)
  | .left b n => .left b (!n)
  | .right a n => .right a (!n)

/-- a NaN bound gives no value -/
theorem dispatch_nan {α : Type} [LinearOrder α] (ca cb : Bnd) (a b : α)
    (h : ca = .nan ∨ cb = .nan) : dispatch ca cb a b = .none := by
  rcases h with rfl | rfl
  · simp [dispatch]
  · cases ca <;> simp [dispatch]

/-- swapping the bounds calls the *same* primitive with the *same* arguments and negates the result:
`I(b, a) = −I(a, b)` exactly (finite bounds in either order, and every combination with ±∞) -/
theorem dispatch_swap {α : Type} [LinearOrder α] (ca cb : Bnd) (a b : α)
    (hne : ca = .fin → cb = .fin → a ≠ b) :
    dispatch cb ca b a = (dispatch ca cb a b).negate := by
  cases ca <;> cases cb <;> simp [dispatch, Bnd.isInf, Plan.negate]
  have hab := hne rfl rfl
  by_cases h : b < a
  · have h' : ¬ a < b := not_lt.mpr h.le
    simp [h, h', Plan.negate]
  · have h' : a < b := lt_of_le_of_ne (not_lt.mp h) hab
    simp [h, h', Plan.negate]

/-- both bounds `+∞`, or both `−∞`: no value -/
theorem dispatch_same_infinity {α : Type} [LinearOrder α] (a b : α) :
    dispatch (α := α) .pinf .pinf a b = .none ∧ dispatch (α := α) .ninf .ninf a b = .none := by
  constructor <;> simp [dispatch, Bnd.isInf]

/-- the refinement stays within the requested tolerance whenever the one-shot error estimate is
reliable on every sub-interval it visits: if `J` is additive over the bisection and
`|i(a,b) − J(a,b)| ≤ e(a,b)`, then a returned value `v` satisfies `|v − J(a,b)| ≤ tol` -/
theorem refine_within_tolerance (ie : K → K → K × K) (mid : K → K → K) (J : K → K → K)
    (hJ : ∀ a b, J a b = J a (mid a b) + J (mid a b) b)
    (hrel : ∀ a b, |(ie a b).1 - J a b| ≤ (ie a b).2)
    (n : Nat) (tol a b v : K)
    (hv : refine ie mid (fun t => t / 2) n tol a b = some v) : |v - J a b| ≤ tol := by
  induction n generalizing tol a b v with
  | zero => simp [refine] at hv
  | succ n ih =>
    rw [refine] at hv
    simp only [] at hv
    split at hv
    · split at hv
      · rename_i x y hx hy
        injection hv with hv
        have h1 := ih _ _ _ _ hx
        have h2 := ih _ _ _ _ hy
        rw [← hv, hJ a b]
        have : x + y - (J a (mid a b) + J (mid a b) b) = (x - J a (mid a b)) + (y - J (mid a b) b) := by
          ring
        rw [this]
        calc |x - J a (mid a b) + (y - J (mid a b) b)|
            ≤ |x - J a (mid a b)| + |y - J (mid a b) b| := abs_add_le _ _
          _ ≤ tol / 2 + tol / 2 := add_le_add h1 h2
          _ = tol := by ring
      · exact absurd hv (by simp)
    · rename_i hle
      injection hv with hv
      rw [← hv]
      exact le_trans (hrel a b) (not_lt.mp hle)

/-- no refinement budget: no value -/
theorem refine_zero (ie : K → K → K × K) (mid : K → K → K) (tol a b : K) :
    refine ie mid (fun t => t / 2) 0 tol a b = none := rfl

/-! ## C. Runge–Kutta steps (traced) -/

/-- a step function that solves `y' = Q'(t)` exactly: from `(t, y)` with step `h` it returns
`(t + h, y + Q(t+h) − Q(t))` -/
def ExactStep (Q : K → K) (step : K → K × K → K × K) : Prop :=
  ∀ h t y, step h (t, y) = (t + h, y + (Q (t + h) - Q t))

/-- `RungeKutta2::increm` with right-hand side `P(t)` -/
def rk2Step (P : K → K) (h : K) (s : K × K) : K × K :=
  (Gen.rk2_t1 0 0 (fnWith id P) s.2 s.1 h, Gen.rk2_y1 0 0 (fnWith id P) s.2 s.1 h)
/-- `RungeKutta4::increm` with right-hand side `P(t)` -/
def rk4Step (P : K → K) (h : K) (s : K × K) : K × K :=
  (Gen.rk4_t1 0 0 (fnWith id P) s.2 s.1 h, Gen.rk4_y1 0 0 (fnWith id P) s.2 s.1 h)

/-- RungeKutta2 (order 2) integrates `y' = a₀ + a₁ t` exactly -/
theorem rk2_exact (a0 a1 : K) :
    ExactStep (fun t => a0 * t + a1 * t ^ 2 / 2) (rk2Step (fun t => a0 + a1 * t)) := by
  intro h t y
  simp only [rk2Step, Gen.rk2_t1, Gen.rk2_y1, fnWith, List.headD_cons, Prod.mk.injEq]
  refine ⟨?_, ?_⟩
  · first | trivial | ring
  · ring

/-- RungeKutta4 (order 4) integrates `y' = a₀ + a₁ t + a₂ t² + a₃ t³` exactly -/
theorem rk4_exact (a0 a1 a2 a3 : K) :
    ExactStep (fun t => a0 * t + a1 * t ^ 2 / 2 + a2 * t ^ 3 / 3 + a3 * t ^ 4 / 4)
      (rk4Step (fun t => a0 + a1 * t + a2 * t ^ 2 + a3 * t ^ 3)) := by
  intro h t y
  simp only [rk4Step, Gen.rk4_t1, Gen.rk4_y1, fnWith, List.headD_cons, Prod.mk.injEq]
  refine ⟨?_, ?_⟩
  · first | trivial | ring
  · ring

/-- the quadrature behind a RungeKutta4 step for an arbitrary right-hand side `P(t)`: Simpson,
i.e. `b = (1/6, 1/3, 1/3, 1/6)`, `c = (0, 1/2, 1/2, 1)` -/
theorem rk4_butcher (P : K → K) (h t y : K) :
    (rk4Step P h (t, y)).2 = y + h * (P t / 6 + P (t + h / 2) / 3 + P (t + h / 2) / 3 + P (t + h) / 6) := by
  simp only [rk4Step, Gen.rk4_y1, fnWith, List.headD_cons]
  have e2 : t + 1 / 2 * h + 1 / 2 * h = t + h := by ring
  have e1 : t + 1 / 2 * h = t + h / 2 := by ring
  rw [e2, e1]
  ring

/-- RungeKutta42::iterate, one accepted step of size `tf − t` (the traced path): the order-4
solution of `y' = a₀ + … + a₃ t³` is exact -/
theorem rk42_exact (a0 a1 a2 a3 y t tf h eps : K) :
    Gen.rk42_y1 0 0 (fnWith (fun x => |x|) (fun t => a0 + a1 * t + a2 * t ^ 2 + a3 * t ^ 3)) y t tf h eps
      = y + ((a0 * tf + a1 * tf ^ 2 / 2 + a2 * tf ^ 3 / 3 + a3 * tf ^ 4 / 4)
            - (a0 * t + a1 * t ^ 2 / 2 + a2 * t ^ 3 / 3 + a3 * t ^ 4 / 4)) := by
  simp only [Gen.rk42_y1, fnWith, List.headD_cons]
  ring

/-- function symbols for a 2-component system `y' = P(t)`, `z' = R(t)` -/
def fnWith2 (P R : K → K) : Fns K :=
  { fnWith (fun x => |x|) P with
    call := fun name args => if name = "F" then P (args.headD 0) else R (args.headD 0) }

/-- RungeKutta54::iterate (Fehlberg), one accepted step of size `tf − t`: the order-5 solution of
`y' = a₀ + … + a₄ t⁴`, `z' = b₀ + … + b₄ t⁴` is exact in both components -/
theorem rk54_exact (a0 a1 a2 a3 a4 b0 b1 b2 b3 b4 y z t tf h eps : K) :
    Gen.rk54_y1 0 0 (fnWith2 (fun t => a0 + a1 * t + a2 * t ^ 2 + a3 * t ^ 3 + a4 * t ^ 4)
        (fun t => b0 + b1 * t + b2 * t ^ 2 + b3 * t ^ 3 + b4 * t ^ 4)) y z t tf h eps
      = y + ((a0 * tf + a1 * tf ^ 2 / 2 + a2 * tf ^ 3 / 3 + a3 * tf ^ 4 / 4 + a4 * tf ^ 5 / 5)
            - (a0 * t + a1 * t ^ 2 / 2 + a2 * t ^ 3 / 3 + a3 * t ^ 4 / 4 + a4 * t ^ 5 / 5)) ∧
    Gen.rk54_z1 0 0 (fnWith2 (fun t => a0 + a1 * t + a2 * t ^ 2 + a3 * t ^ 3 + a4 * t ^ 4)
        (fun t => b0 + b1 * t + b2 * t ^ 2 + b3 * t ^ 3 + b4 * t ^ 4)) y z t tf h eps
      = z + ((b0 * tf + b1 * tf ^ 2 / 2 + b2 * tf ^ 3 / 3 + b3 * tf ^ 4 / 4 + b4 * tf ^ 5 / 5)
            - (b0 * t + b1 * t ^ 2 / 2 + b2 * t ^ 3 / 3 + b3 * t ^ 4 / 4 + b4 * t ^ 5 / 5)) := by
  constructor
  · simp only [Gen.rk54_y1, fnWith2, fnWith, List.headD_cons, if_true, String.reduceEq, if_false]
    ring
  · simp only [Gen.rk54_z1, fnWith2, fnWith, List.headD_cons, if_true, String.reduceEq, if_false]
    ring

/-! ## D. RungeKutta2/4::exe (model) -/

/-- `n` steps of an exact step function are exact: by induction -/
theorem exact_steps (Q : K → K) (step : K → K × K → K × K) (hs : ExactStep Q step) (h : K)
    (n : Nat) (t0 y0 : K) :
    (fun s => step h s)^[n] (t0, y0) = (t0 + n * h, y0 + (Q (t0 + n * h) - Q t0)) := by
  induction n generalizing t0 y0 with
  | zero => simp
  | succ n ih =>
    rw [Function.iterate_succ_apply, hs h t0 y0, ih]
    have e : t0 + h + (n : K) * h = t0 + ((n + 1 : Nat) : K) * h := by push_cast; ring
    rw [e]; congr 1; ring

/-- `exe` as it is, exact arithmetic: with `t0 + n h < end ≤ t0 + (n+1) h` it performs `n + 1`
steps and stops at `t0 + (n+1) h` — which is `end` only when `end − t0` is a multiple of `h` -/
theorem exeAsIs_result (Q : K → K) (step : K → K × K → K × K) (hs : ExactStep Q step) (h tend : K)
    (hh : 0 < h) (n : Nat) (fuel : Nat) (hf : n + 1 ≤ fuel) (t0 y0 : K)
    (hlo : t0 + n * h < tend) (hhi : tend ≤ t0 + (n + 1) * h) :
    exeAsIs step h tend fuel (t0, y0)
      = (t0 + (n + 1) * h, y0 + (Q (t0 + (n + 1) * h) - Q t0)) := by
  induction n generalizing t0 y0 fuel with
  | zero =>
    obtain ⟨f, rfl⟩ : ∃ f, fuel = f + 1 := ⟨fuel - 1, by omega⟩
    have h1 : t0 < tend := by simpa using hlo
    rw [exeAsIs, if_pos h1, hs h t0 y0]
    have h2 : ¬ t0 + h < tend := by
      have : tend ≤ t0 + h := by simpa using hhi
      exact not_lt.mpr this
    cases f with
    | zero => simp [exeAsIs]
    | succ f => rw [exeAsIs, if_neg h2]; simp
  | succ n ih =>
    obtain ⟨f, rfl⟩ : ∃ f, fuel = f + 1 := ⟨fuel - 1, by omega⟩
    have hn : (0 : K) ≤ n := Nat.cast_nonneg n
    have h1 : t0 < tend := by
      have : t0 ≤ t0 + ((n + 1 : Nat) : K) * h := by
        have : (0 : K) ≤ ((n + 1 : Nat) : K) * h := mul_nonneg (Nat.cast_nonneg _) hh.le
        linarith
      exact lt_of_le_of_lt this hlo
    rw [exeAsIs, if_pos h1, hs h t0 y0]
    have := ih f (by omega) (t0 + h) (y0 + (Q (t0 + h) - Q t0))
      (by push_cast at hlo ⊢; linarith) (by push_cast at hhi ⊢; linarith)
    rw [this]
    have e : t0 + h + ((n : K) + 1) * h = t0 + (((n + 1 : Nat) : K) + 1) * h := by push_cast; ring
    rw [e]; congr 1; ring

/- Full statement "exe stops exactly at the final time" for the code as it is: FALSE in general
   (`exeAsIs_overshoots`); it holds when `end − begin` is a multiple of `h`: -/
theorem exeAsIs_stops_at_end_partial (Q : K → K) (step : K → K × K → K × K) (hs : ExactStep Q step)
    (h : K) (hh : 0 < h) (n : Nat) (fuel : Nat) (hf : n + 1 ≤ fuel) (t0 y0 : K) :
    exeAsIs step h (t0 + (n + 1) * h) fuel (t0, y0)
      = (t0 + (n + 1) * h, y0 + (Q (t0 + (n + 1) * h) - Q t0)) :=
  exeAsIs_result Q step hs h _ hh n fuel hf t0 y0 (by linarith) le_rfl

/-- otherwise it overshoots: the final time is strictly beyond `end` -/
theorem exeAsIs_overshoots (Q : K → K) (step : K → K × K → K × K) (hs : ExactStep Q step)
    (h tend : K) (hh : 0 < h) (n : Nat) (fuel : Nat) (hf : n + 1 ≤ fuel) (t0 y0 : K)
    (hlo : t0 + n * h < tend) (hhi : tend < t0 + (n + 1) * h) :
    tend < (exeAsIs step h tend fuel (t0, y0)).1 := by
  rw [exeAsIs_result Q step hs h tend hh n fuel hf t0 y0 hlo hhi.le]; exact hhi

/-- FULL PROPERTY for `exe` with the last step clamped (patches/C12-rk-exe.diff): for every
`begin < end`, every `h > 0`: it stops exactly at `end` with the exact solution of `y' = Q'(t)`
(`Q'` of degree below the order of the scheme, by `rk2_exact` / `rk4_exact`) -/
theorem exeClamped_exact (Q : K → K) (step : K → K × K → K × K) (hs : ExactStep Q step)
    (h tend : K) (hh : 0 < h) (n : Nat) (fuel : Nat) (hf : n + 1 ≤ fuel) (t0 y0 : K)
    (hlt : t0 < tend) (hhi : tend ≤ t0 + (n + 1) * h) :
    exeClamped step h tend fuel (t0, y0) = (tend, y0 + (Q tend - Q t0)) := by
  induction n generalizing t0 y0 fuel with
  | zero =>
    obtain ⟨f, rfl⟩ : ∃ f, fuel = f + 1 := ⟨fuel - 1, by omega⟩
    have h2 : ¬ h < tend - t0 := by
      have : tend ≤ t0 + h := by simpa using hhi
      exact not_lt.mpr (by linarith)
    rw [exeClamped, if_pos hlt, if_neg h2, hs (tend - t0) t0 y0]
    have e : t0 + (tend - t0) = tend := by ring
    simp only [e]
    cases f with
    | zero => simp [exeClamped]
    | succ f => rw [exeClamped, if_neg (lt_irrefl tend)]
  | succ n ih =>
    obtain ⟨f, rfl⟩ : ∃ f, fuel = f + 1 := ⟨fuel - 1, by omega⟩
    rw [exeClamped, if_pos hlt]
    by_cases hc : h < tend - t0
    · rw [if_pos hc, hs h t0 y0]
      rw [ih f (by omega) (t0 + h) _ (by linarith) (by push_cast at hhi ⊢; linarith)]
      congr 1; ring
    · rw [if_neg hc, hs (tend - t0) t0 y0]
      have e : t0 + (tend - t0) = tend := by ring
      simp only [e]
      cases f with
      | zero => simp [exeClamped]
      | succ f => rw [exeClamped, if_neg (lt_irrefl tend)]

-- non-vacuity: RungeKutta4 steps are exact steps, 0 → 1 by h = 3/10 needs n = 3 (4 steps)
example : exeClamped (rk4Step (fun t : ℚ => 1 + t)) (3 / 10) 1 4 (0, 0) = (1, 0 + ((1 * 1 + 1 * 1 ^ 2 / 2 + 0 * 1 ^ 3 / 3 + 0 * 1 ^ 4 / 4) - (1 * 0 + 1 * 0 ^ 2 / 2 + 0 * 0 ^ 3 / 3 + 0 * 0 ^ 4 / 4))) := by
  have hs := rk4_exact (K := ℚ) 1 1 0 0
  have : (fun t : ℚ => 1 + 1 * t + 0 * t ^ 2 + 0 * t ^ 3) = fun t => 1 + t := by funext t; ring
  rw [this] at hs
  exact exeClamped_exact _ _ hs (3 / 10) 1 (by norm_num) 3 4 (by norm_num) 0 0 (by norm_num) (by norm_num)

/-! ## E. RungeKutta42/54::iterate — step-size control (model) -/

/-- loop-head invariant: never beyond `tf`, non-negative step, and a step that is about to be taken
fits in the remaining interval -/
def CtlInv (tf : K) (s : Ctl K) : Prop :=
  s.t ≤ tf ∧ 0 ≤ s.dt ∧ (s.t < tf - 1 / 2 * s.dt → s.dt ≤ tf - s.t)

theorem ctlInit_inv (ti tf dt : K) (s : Ctl K) (h : ctlInit 0 ti tf dt = some s) :
    CtlInv tf s ∧ s.t = ti := by
  have key : s.t ≤ tf ∧ 0 ≤ s.dt ∧ s.dt ≤ tf - s.t ∧ s.t = ti := by
    unfold ctlInit at h
    by_cases hc : tf - ti < dt
    · simp only [hc, if_true] at h
      by_cases hd : tf - ti < 0
      · simp [hd] at h
      · simp only [hd, if_false, Option.some.injEq] at h
        subst h
        have := not_lt.mp hd
        exact ⟨by simp only []; linarith, this, le_rfl, rfl⟩
    · simp only [hc, if_false] at h
      by_cases hd : dt < 0
      · simp [hd] at h
      · simp only [hd, if_false, Option.some.injEq] at h
        subst h
        have h1 := not_lt.mp hd
        have h2 := not_lt.mp hc
        exact ⟨by simp only []; linarith, h1, h2, rfl⟩
  exact ⟨⟨key.1, key.2.1, fun _ => key.2.2.1⟩, key.2.2.2⟩

theorem ctlBody_inv (tf : K) (accept : Bool) (m : K) (hm : 0 ≤ m) (s : Ctl K) (hi : CtlInv tf s)
    (hg : s.t < tf - 1 / 2 * s.dt) : CtlInv tf (ctlBody tf (1 / 2) accept m s) := by
  obtain ⟨h1, h2, h3⟩ := hi
  have hfit := h3 hg
  unfold ctlBody
  simp only []
  have ht' : (if accept = true then s.t + s.dt else s.t) ≤ tf := by
    split <;> linarith
  generalize (if accept = true then s.t + s.dt else s.t) = t' at ht' ⊢
  split
  · rename_i hc
    refine ⟨ht', ?_, fun _ => ?_⟩
    · simp only []
      split
      · linarith
      · exact mul_nonneg h2 hm
    · simp only []
      split
      · exact le_rfl
      · rename_i hd; exact not_lt.mp hd
  · rename_i hc
    exact ⟨ht', h2, fun hcontra => absurd hcontra hc⟩

/- Full statement "on normal exit t = tf" for the code as it is: FALSE (`ctl_early_exit_witness`).
   Proved part (partial correctness, arbitrary acceptance oracle and non-negative multipliers): on exit
   `tf − dt/2 ≤ t ≤ tf`, i.e. the loop may drop a final piece of length up to half the last step. -/
theorem ctl_exit_partial (tf : K) (os : List (Bool × K)) (hos : ∀ o ∈ os, 0 ≤ o.2) (s s' : Ctl K)
    (hi : CtlInv tf s) (hrun : ctlLoop tf (1 / 2) os s = (s', true)) :
    s'.t ≤ tf ∧ tf - 1 / 2 * s'.dt ≤ s'.t ∧ 0 ≤ s'.dt := by
  induction os generalizing s with
  | nil =>
    simp only [ctlLoop, Prod.mk.injEq, Bool.not_eq_true', decide_eq_false_iff_not] at hrun
    obtain ⟨rfl, hg⟩ := hrun
    exact ⟨hi.1, not_lt.mp hg, hi.2.1⟩
  | cons o os ih =>
    rw [ctlLoop] at hrun
    split at hrun
    · rename_i hg
      exact ih (fun o' ho' => hos o' (List.mem_cons_of_mem _ ho')) _
        (ctlBody_inv tf o.1 o.2 (hos o (List.mem_cons_self)) s hi hg) hrun
    · rename_i hg
      simp only [Prod.mk.injEq, and_true] at hrun
      subst hrun
      exact ⟨hi.1, not_lt.mp hg, hi.2.1⟩

/-- the final time IS reached when the last step taken was clamped to the remaining interval
(`dt = tf − t` before an accepted step) -/
theorem ctlBody_clamped_reaches_tf (tf m : K) (s : Ctl K) (hc : s.dt = tf - s.t) :
    (ctlBody tf (1 / 2) true m s).t = tf := by
  unfold ctlBody
  simp only [if_true]
  split <;> (simp only []; rw [hc]; ring)

/-- `ti = 0`, `tf = 1`, initial `dt = 7/10`, first step accepted: the loop exits at `t = 7/10`
(replayed on the real code: `y' = 1` returns `y = 0.7`) -/
theorem ctl_early_exit_witness :
    ctlInit (0 : ℚ) 0 1 (7 / 10) = some ⟨0, 7 / 10⟩ ∧
    ctlLoop (1 : ℚ) (1 / 2) [(true, 1)] ⟨0, 7 / 10⟩ = (⟨7 / 10, 7 / 10⟩, true) := by
  constructor
  · norm_num [ctlInit]
  · norm_num [ctlLoop, ctlBody]


/-! ### the repaired loop (patches/C12-rk-adaptive-final-time.diff) -/

/-- loop-head invariant of the repaired loop -/
def CtlInvF (tf : K) (s : Ctl K) : Prop :=
  0 ≤ s.dt ∧ (s.t = tf ∨ (s.t < tf ∧ s.dt ≤ tf - s.t))

theorem ctlInit_invF (ti tf dt : K) (s : Ctl K) (h : ctlInit 0 ti tf dt = some s) : CtlInvF tf s := by
  obtain ⟨⟨h1, h2, _⟩, h4⟩ := ctlInit_inv ti tf dt s h
  have key : s.dt ≤ tf - s.t := by
    unfold ctlInit at h
    by_cases hc : tf - ti < dt
    · simp only [hc, if_true] at h
      by_cases hd : tf - ti < 0
      · simp [hd] at h
      · simp only [hd, if_false, Option.some.injEq] at h
        subst h; exact le_rfl
    · simp only [hc, if_false] at h
      by_cases hd : dt < 0
      · simp [hd] at h
      · simp only [hd, if_false, Option.some.injEq] at h
        subst h; exact not_lt.mp hc
  refine ⟨h2, ?_⟩
  rcases lt_or_eq_of_le h1 with hlt | heq
  · exact Or.inr ⟨hlt, key⟩
  · exact Or.inl heq

theorem ctlBodyFixed_inv (tf : K) (accept : Bool) (m : K) (hm : 0 ≤ m) (s : Ctl K)
    (hi : CtlInvF tf s) (hg : s.t < tf - 1 / 2 * s.dt) : CtlInvF tf (ctlBodyFixed tf (1 / 2) accept m s) := by
  obtain ⟨h2, h3⟩ := hi
  have hlt : s.t < tf ∧ s.dt ≤ tf - s.t := by
    rcases h3 with h | h
    · rw [h] at hg; exfalso; linarith
    · exact h
  unfold ctlBodyFixed
  simp only []
  have ht' : (if accept = true then (if s.dt < tf - s.t then s.t + s.dt else tf) else s.t) ≤ tf := by
    split
    · split <;> linarith
    · linarith
  generalize (if accept = true then (if s.dt < tf - s.t then s.t + s.dt else tf) else s.t) = t' at ht' ⊢
  split
  · rename_i hc
    have hlt' : t' < tf := by linarith [mul_nonneg (by norm_num : (0 : K) ≤ 1 / 2) h2]
    refine ⟨?_, Or.inr ⟨hlt', ?_⟩⟩
    · simp only []
      split
      · linarith
      · exact mul_nonneg h2 hm
    · simp only []
      split
      · exact le_rfl
      · rename_i hd; exact not_lt.mp hd
  · split
    · rename_i hc hlt'
      exact ⟨by simp only []; linarith, Or.inr ⟨hlt', le_rfl⟩⟩
    · rename_i hc hge
      exact ⟨h2, Or.inl (le_antisymm ht' (not_lt.mp hge))⟩

/-- FULL PROPERTY for the repaired step-size control: whatever the outcomes of the error test and
the (non-negative) time multipliers, when the loop terminates the current time IS the final time
(partial correctness: endless rejection remains possible) -/
theorem ctlFixed_exit_reaches_tf (tf : K) (os : List (Bool × K)) (hos : ∀ o ∈ os, 0 ≤ o.2)
    (s s' : Ctl K) (hi : CtlInvF tf s) (hrun : ctlLoopFixed tf (1 / 2) os s = (s', true)) :
    s'.t = tf := by
  have exit_ok : ∀ s : Ctl K, CtlInvF tf s → ¬ s.t < tf - 1 / 2 * s.dt → s.t = tf := by
    intro s hs hg
    rcases hs.2 with h | ⟨h1, h2⟩
    · exact h
    · exfalso; apply hg
      have := hs.1
      linarith
  induction os generalizing s with
  | nil =>
    simp only [ctlLoopFixed, Prod.mk.injEq, Bool.not_eq_true', decide_eq_false_iff_not] at hrun
    obtain ⟨rfl, hg⟩ := hrun
    exact exit_ok _ hi hg
  | cons o os ih =>
    rw [ctlLoopFixed] at hrun
    split at hrun
    · rename_i hg
      exact ih (fun o' ho' => hos o' (List.mem_cons_of_mem _ ho')) _
        (ctlBodyFixed_inv tf o.1 o.2 (hos o (List.mem_cons_self)) s hi hg) hrun
    · rename_i hg
      simp only [Prod.mk.injEq, and_true] at hrun
      subst hrun
      exact exit_ok _ hi hg

-- the witness of the early exit, on the repaired loop: it goes on and reaches tf = 1
example : ctlLoopFixed (1 : ℚ) (1 / 2) [(true, 1), (true, 1)] ⟨0, 7 / 10⟩ = (⟨1, 3 / 10⟩, true) := by
  norm_num [ctlLoopFixed, ctlBodyFixed]

end TfelVerif.C12
