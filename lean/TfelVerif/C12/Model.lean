/-
  C12 — hand-written executable models (core Lean only) of the *control flow* around the traced
  formulas (the formulas themselves — Gauss–Kronrod rule, Runge–Kutta steps — are generated from the
  sources by T1, see Gen.lean / GenFloat.lean):

    * `dispatch`, `refine`  : GaussKronrodQuadrature::operator() (NaN / infinite / swapped bounds) and
                              the bisection refinement `integrate(f, a, b, params)`
                              (include/TFEL/Math/NumericalIntegration/GaussKronrodQuadrature.ixx)
    * `exeAsIs`, `exeClamped`: RungeKutta2/4::exe as it is (`while (t < end) increm();`) and with the
                              last step clamped (patches/C12-rk-exe.diff)
    * `ctlBody`, `ctlLoop`  : the step-size control loop of RungeKutta42/54::iterate, the error test
                              and the time multiplier being oracles; `ctlBodyFixed`, `ctlLoopFixed`:
                              the same with patches/C12-rk-adaptive-final-time.diff
-/
namespace TfelVerif.C12

/-! ## Gauss–Kronrod: operator() -/

/-- classification of a bound by `ieee754::isnan` / `is_infinite` (the overload with numerical
parameters also classifies `|x| ≥ numeric_limits::max()` as infinite) -/
inductive Bnd where
  | nan | ninf | pinf | fin
  deriving DecidableEq, Repr

/-- which primitive `operator()(f, a, b[, params])` calls, and whether it negates the result -/
inductive Plan (α : Type) where
  | none
  | direct (a b : α) (neg : Bool)      -- integrate(f, a, b)
  | whole (neg : Bool)                 -- computeUnboundedIntegral(f)
  | left (b : α) (neg : Bool)          -- computeLeftUnboundedIntegral(f, b):  ∫_{-∞}^{b}
  | right (a : α) (neg : Bool)         -- computeRightUnboundedIntegral(f, a): ∫_{a}^{+∞}
  deriving Repr

def Bnd.isInf : Bnd → Bool
  | .ninf | .pinf => true
  | _ => false

section
variable {α : Type} [LT α] [DecidableRel (fun x y : α => x < y)]

/-- the decision tree of `operator()`; for an infinite bound `x > 0` is `pinf`, `x < 0` is `ninf` -/
def dispatch (ca cb : Bnd) (a b : α) : Plan α :=
  if ca = .nan || cb = .nan then .none
  else if ca.isInf then
    if cb.isInf then
      if ca = cb then .none                         -- both +∞ or both −∞
      else if cb = .ninf then .whole true           -- ∫_{+∞}^{−∞} = −∫_{−∞}^{+∞}
      else .whole false
    else
      if ca = .pinf then .right b true              -- ∫_{+∞}^{b} = −∫_{b}^{+∞}
      else .left b false
  else if cb.isInf then
    if cb = .ninf then .left a true                 -- ∫_{a}^{−∞} = −∫_{−∞}^{a}
    else .right a false
  else if b < a then .direct b a true               -- a > b: −integrate(f, b, a)
  else .direct a b false

end

section
variable {α : Type} [Add α] [LT α] [DecidableRel (fun x y : α => x < y)]

/-- `integrate(f, a, b, {tol, n})`: `ie a b` is the one-shot rule (value, error estimate),
`mid` is `std::midpoint`, `halve` is `tol / 2` -/
def refine (ie : α → α → α × α) (mid : α → α → α) (halve : α → α) : Nat → α → α → α → Option α
  | 0, _, _, _ => none
  | n + 1, tol, a, b =>
    let r := ie a b
    if tol < r.2 then
      let c := mid a b
      match refine ie mid halve n (halve tol) a c, refine ie mid halve n (halve tol) c b with
      | some x, some y => some (x + y)
      | _, _ => none
    else some r.1

end

/-! ## RungeKutta2 / RungeKutta4 :: exe -/

section
variable {α β : Type} [Sub α] [LT α] [DecidableRel (fun x y : α => x < y)]

/-- `exe(begin, end)` as it is: `t = begin; while (t < end) increm();` — `step h (t, y)` is
`increm()` with time step `h`; `fuel` bounds the number of iterations of the model -/
def exeAsIs (step : α → α × β → α × β) (h tend : α) : Nat → α × β → α × β
  | 0, s => s
  | n + 1, s => if s.1 < tend then exeAsIs step h tend n (step h s) else s

/-- `exe` with the last step clamped (patches/C12-rk-exe.diff):
`last = !(h < end - t); if (last) h = end - t; increm(); if (last) t = end;` -/
def exeClamped (step : α → α × β → α × β) (h tend : α) : Nat → α × β → α × β
  | 0, s => s
  | n + 1, s =>
    if s.1 < tend then
      if h < tend - s.1 then exeClamped step h tend n (step h s)
      else exeClamped step h tend n (tend, (step (tend - s.1) s).2)
    else s

end

/-! ## RungeKutta42 / RungeKutta54 :: iterate — step-size control -/

structure Ctl (α : Type) where
  t : α
  dt : α
  deriving Repr

section
variable {α : Type} [Add α] [Sub α] [Mul α] [LT α] [DecidableRel (fun x y : α => x < y)]

/-- one pass through the body of `while (t < tf - dt/2)`: `accept` is the outcome of the error test
`e < epsilon`, `m` the time multiplier `0.8 (epsilon/e)^(1/p)`; `half` is the constant 1/2 -/
def ctlBody (tf half : α) (accept : Bool) (m : α) (s : Ctl α) : Ctl α :=
  let t' := if accept then s.t + s.dt else s.t
  if t' < tf - half * s.dt then
    let d := s.dt * m
    ⟨t', if tf - t' < d then tf - t' else d⟩
  else ⟨t', s.dt⟩

/-- the loop driven by a finite list of oracle answers; the Boolean tells whether the loop
terminated (guard false) before the answers ran out -/
def ctlLoop (tf half : α) : List (Bool × α) → Ctl α → Ctl α × Bool
  | [], s => (s, !(decide (s.t < tf - half * s.dt)))
  | o :: os, s =>
    if s.t < tf - half * s.dt then ctlLoop tf half os (ctlBody tf half o.1 o.2 s) else (s, true)

/-- the prologue of `iterate`: `dt = min(dt, tf - ti)` (`std::min(a, b)` is `b < a ? b : a`);
`none` stands for `InvalidTimeStepException` (`dt < 0`) -/
def ctlInit (zero ti tf dt : α) : Option (Ctl α) :=
  let d := if tf - ti < dt then tf - ti else dt
  if d < zero then none else some ⟨ti, d⟩

/-- the loop body with patches/C12-rk-adaptive-final-time.diff: an accepted step whose size is the
remaining interval lands on `tf` exactly, and when less than half a step remains the next step is
the remaining interval (instead of leaving the loop) -/
def ctlBodyFixed (tf half : α) (accept : Bool) (m : α) (s : Ctl α) : Ctl α :=
  let t' := if accept then (if s.dt < tf - s.t then s.t + s.dt else tf) else s.t
  if t' < tf - half * s.dt then
    let d := s.dt * m
    ⟨t', if tf - t' < d then tf - t' else d⟩
  else if t' < tf then ⟨t', tf - t'⟩
  else ⟨t', s.dt⟩

def ctlLoopFixed (tf half : α) : List (Bool × α) → Ctl α → Ctl α × Bool
  | [], s => (s, !(decide (s.t < tf - half * s.dt)))
  | o :: os, s =>
    if s.t < tf - half * s.dt then ctlLoopFixed tf half os (ctlBodyFixed tf half o.1 o.2 s)
    else (s, true)

/-- trace validation: may the loop-head state `s'` follow `s` after one pass through the body (of
the code as it is, or of the repaired code), for some outcome of the error test and some
non-negative time multiplier? (`eq` is equality of scalars) -/
def ctlStepOk (eq : α → α → Bool) (zero tf half : α) (s s' : Ctl α) : Bool :=
  (eq s'.t (s.t + s.dt) || eq s'.t s.t || (!(decide (s.dt < tf - s.t)) && eq s'.t tf)) &&
  (if s'.t < tf - half * s.dt then
     !(decide (s'.dt < zero)) && !(decide (tf - s'.t < s'.dt)) && (!(eq s.dt zero) || eq s'.dt zero)
   else eq s'.dt s.dt || (decide (s'.t < tf) && eq s'.dt (tf - s'.t)))

/-- a recorded sequence of loop-head states followed by the final state is a terminated run of
`ctlLoop`: the guard holds at every recorded head, fails at the final state, and consecutive states
are related by `ctlStepOk` -/
def ctlValid (eq : α → α → Bool) (zero tf half : α) : List (Ctl α) → Bool
  | [] => false
  | [s] => !(decide (s.t < tf - half * s.dt))
  | s :: s' :: rest =>
    decide (s.t < tf - half * s.dt) && ctlStepOk eq zero tf half s s' &&
      ctlValid eq zero tf half (s' :: rest)

end
end TfelVerif.C12
