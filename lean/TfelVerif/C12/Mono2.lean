/-
  C12 — property theorems, part 2: the traced Kronrod rule on `[-1, 1]` and the embedded Gauss
  error estimate on the monomials.
-/
import TfelVerif.C12.Lemmas

set_option linter.unusedSectionVars false
set_option linter.unusedVariables false

namespace TfelVerif.C12
open TfelVerif

variable {K : Type} [Field K] [LinearOrder K] [IsStrictOrderedRing K]

/-- on `[-1, 1]`: `|K15(x^k) − 2/(k+1)|` (k even), `|K15(x^k)|` (k odd) `≤ 8·10⁻¹⁵` for k ≤ 22 -/
theorem k15_m11_monomial (k : Nat) (hk : k ≤ 22) :
    |K15 (fun x : K => x ^ k) (-1) 1 - (1 - (-1) ^ (k + 1)) / ((k : K) + 1)| ≤ 8 / 10 ^ 15 := by
  interval_cases k <;>
    (simp only [K15, Gen.gk_k15, fnWith, List.headD_cons]; rw [abs_le]; constructor <;> norm_num)

/-- the embedded 7-point Gauss rule agrees with the Kronrod value on monomials of degree ≤ 13:
the error estimate `|K15 − G7|` vanishes up to 4·10⁻¹⁵ -/
theorem err_unit_monomial (k : Nat) (hk : k ≤ 13) :
    |D15 (fun t : K => t ^ k) 0 1| ≤ 4 / 10 ^ 15 := by
  interval_cases k <;>
    (simp only [D15, Gen.gk_err, fnWith, List.headD_cons, id]; rw [abs_le]; constructor <;> norm_num)

/-- … and it does NOT vanish at degree 14 (the estimate is a genuine error indicator) -/
theorem err_unit_degree14 : (5 : K) / 10 ^ 9 ≤ |D15 (fun t : K => t ^ 14) 0 1| := by
  simp only [D15, Gen.gk_err, fnWith, List.headD_cons, id]
  rw [le_abs]; left; norm_num

end TfelVerif.C12
