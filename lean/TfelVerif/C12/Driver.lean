/- line-protocol driver of the C12 models on `Float` (= C double).
   Requests (doubles as decimal u64 bit patterns):
     gk1|<integrand>|<a> <b>              operator()(f, a, b)          -> `none` | `<value> <estimate>`
     gkp|<integrand>|<a> <b> <tol> <n>    operator()(f, a, b, params)  -> `none` | `<value>`
     ctl|<tf>|<t0> <dt0> <t1> <dt1> …     validation of a recorded run of RungeKutta42/54::iterate
                                          (loop-head states, then the final state) -> `valid <final t>` | `invalid`
   integrands: `poly c0 c1 … cn` (Horner), `expm2` exp(-x²), `lorentz` 1/(1+x²), `sin`, `expm` exp(-x),
   `gaussd` x² exp(-x²), `runge` 1/(1+25x²)
   The one-shot rule is GenFloat.gk: the traced formula, regenerated from the sources on every run. -/
import TfelVerif.C12.Model
import TfelVerif.C12.GenFloat
open TfelVerif.C12

def fbits (s : String) : Option Float := s.toNat?.map (fun n => Float.ofBits n.toUInt64)

def integrand (spec : List String) : Option (Float → Float) :=
  match spec with
  | "poly" :: cs =>
    match cs.mapM fbits with
    | some (coefs@(_ :: _)) =>
      -- Horner from the highest coefficient: r = c_n; r = r * x + c_k
      let rev := coefs.reverse
      some (fun x => rev.tail.foldl (fun r c => r * x + c) rev.head!)
    | _ => none
  | ["expm2"] => some (fun x => Float.exp (-(x * x)))
  | ["lorentz"] => some (fun x => 1.0 / (1.0 + x * x))
  | ["sin"] => some Float.sin
  | ["expm"] => some (fun x => Float.exp (-x))
  | ["gaussd"] => some (fun x => x * x * Float.exp (-(x * x)))
  | ["runge"] => some (fun x => 1.0 / (1.0 + 25.0 * (x * x)))
  | _ => none

def dblMax : Float := Float.ofBits 0x7fefffffffffffff

/-- classification of a bound; `wide` = the overload with numerical parameters -/
def classify (wide : Bool) (x : Float) : Bnd :=
  if x.isNaN then .nan
  else if x.isInf || (wide && (x >= dblMax || x <= -dblMax)) then (if x > 0 then .pinf else .ninf)
  else .fin

/-- the three changes of variable of the unbounded integrals, as written in the code -/
def uWhole (f : Float → Float) (t : Float) : Float :=
  let t_sq := t * t
  let inv := 1.0 / (1.0 - t_sq)
  let w := (1.0 + t_sq) * inv * inv
  let arg := t * inv
  f (arg * 1.0) * w * 1.0
def uLeft (f : Float → Float) (b t : Float) : Float :=
  let z := 1.0 / (t + 1.0)
  let arg := (2.0 * z - 1.0) * 1.0
  f (b - arg) * z * z * 1.0
def uRight (f : Float → Float) (a t : Float) : Float :=
  let z := 1.0 / (t + 1.0)
  let arg := (2.0 * z - 1.0) * 1.0 + a
  f arg * z * z * 1.0

def showF (x : Float) : String := toString x.toBits

/-- operator()(f, a, b): value and error estimate -/
def gk1 (f : Float → Float) (a b : Float) : String :=
  let sgn (neg : Bool) (r : Float × Float) : String := showF (if neg then -r.1 else r.1) ++ " " ++ showF r.2
  let twice (r : Float × Float) : Float × Float := (2.0 * r.1, r.2)
  match dispatch (classify false a) (classify false b) a b with
  | .none => "none"
  | .direct x y neg => sgn neg (GenFloat.gk f x y)
  | .whole neg => sgn neg (GenFloat.gk (uWhole f) (-1.0) 1.0)
  | .left y neg => sgn neg (twice (GenFloat.gk (uLeft f y) (-1.0) 1.0))
  | .right x neg => sgn neg (twice (GenFloat.gk (uRight f x) (-1.0) 1.0))

/-- operator()(f, a, b, {tol, n}) -/
def gkp (f : Float → Float) (a b tol : Float) (n : Nat) : String :=
  let run (g : Float → Float) (x y : Float) : Option Float :=
    refine (GenFloat.gk g) (fun x y => (x + y) / 2.0) (fun t => t / 2.0) n tol x y
  let out (neg : Bool) (scale : Float) (r : Option Float) : String :=
    match r with
    | none => "none"
    | some v => let w := if scale == 1.0 then v else scale * v; showF (if neg then -w else w)
  match dispatch (classify true a) (classify true b) a b with
  | .none => "none"
  | .direct x y neg => out neg 1.0 (run f x y)
  | .whole neg => out neg 1.0 (run (uWhole f) (-1.0) 1.0)
  | .left y neg => out neg 2.0 (run (uLeft f y) (-1.0) 1.0)
  | .right x neg => out neg 2.0 (run (uRight f x) (-1.0) 1.0)

def pairs : List Float → List (Ctl Float)
  | t :: dt :: rest => ⟨t, dt⟩ :: pairs rest
  | _ => []

def handle (line : String) : String :=
  match line.trimAscii.toString.splitOn "|" with
  | ["gk1", spec, args] =>
    match integrand (spec.splitOn " "), (args.splitOn " ").mapM fbits with
    | some f, some [a, b] => gk1 f a b
    | _, _ => "bad-op"
  | ["gkp", spec, args] =>
    match integrand (spec.splitOn " "), args.splitOn " " with
    | some f, [a, b, tol, n] =>
      match fbits a, fbits b, fbits tol, n.toNat? with
      | some a, some b, some tol, some n => gkp f a b tol n
      | _, _, _, _ => "bad-op"
    | _, _ => "bad-op"
  | ["ctl", tf, states] =>
    match fbits tf, (states.splitOn " ").mapM fbits with
    | some tf, some l =>
      let tr := pairs l
      if ctlValid (fun x y => x.toBits == y.toBits || x == y) 0.0 tf 0.5 tr then
        match tr.getLast? with
        | some s => "valid " ++ showF s.t
        | none => "invalid"
      else "invalid"
    | _, _ => "bad-op"
  | _ => "bad-op"

partial def loop (h : IO.FS.Stream) : IO Unit := do
  let line ← h.getLine
  if line.isEmpty then return ()
  IO.println (handle line)
  loop h

def main : IO Unit := do loop (← IO.getStdin)
