/-
  C12 — "Quadrature and Runge–Kutta schemes achieve their stated order": property theorems.

  T1: `Gen.lean` is regenerated on every run by instantiating the real templates with a recording
  scalar (integrand / right-hand side uninterpreted); `K15`, `D15` (Lemmas.lean) and the step
  functions below are those traced definitions, so every node, weight and Butcher coefficient in the
  statements is the one in the current sources (the floating literals as exact dyadic rationals).
  M: `Model.lean` (control flow) is tied to the code by the correspondence of checks/C12.py.

  Exact real arithmetic throughout: "up to rounding" in the property is made explicit as the
  bounds 4·10⁻¹⁵ below (the literals of the code carry 15 digits).

  Files: Mono1/Mono2 (monomials), Props (every polynomial, every interval), PropsRK (control flow,
  Runge–Kutta).
-/
import TfelVerif.C12.Mono1
import TfelVerif.C12.Mono2

set_option linter.unusedSectionVars false
set_option linter.unusedVariables false

namespace TfelVerif.C12
open TfelVerif

variable {K : Type} [Field K] [LinearOrder K] [IsStrictOrderedRing K]

/-! ## A. Gauss–Kronrod rule (traced) -/

/-- EVERY polynomial of degree ≤ 22 on EVERY interval `[a, b]` (`a ≠ b`, either order): the value
returned by `integrate(p, a, b)` differs from the exact integral `(b-a) Σ coef j/(j+1)` by at most
`|b-a| · 4·10⁻¹⁵ · Σ|coef j|`; `p` is given in the basis `((x-a)/(b-a))^j` of the interval -/
theorem k15_polynomial (coef : Nat → K) (a b : K) (hab : a ≠ b) :
    |K15 (polyOn 23 coef a b) a b - (b - a) * ∑ j ∈ Finset.range 23, coef j * (1 / ((j : K) + 1))|
      ≤ |b - a| * (4 / 10 ^ 15 * ∑ j ∈ Finset.range 23, |coef j|) := by
  rw [K15_affine]
  have hp : (fun t => polyOn 23 coef a b (a + t * (b - a)))
      = fun t => ∑ j ∈ Finset.range 23, coef j * t ^ j := by
    funext t; exact polyOn_shift 23 coef a b hab t
  rw [hp, K15_sum, ← mul_sub, abs_mul]
  refine mul_le_mul_of_nonneg_left ?_ (abs_nonneg _)
  exact sum_bound 23 coef _ (fun j => K15 (fun t : K => t ^ j) 0 1) _
    (fun j hj => k15_unit_monomial j (by omega))

/-- for polynomials of degree ≤ 13 the returned error estimate `|K15 − G7|` is at most
`|b-a| · 4·10⁻¹⁵ · Σ|coef j|` -/
theorem err_polynomial (coef : Nat → K) (a b : K) (hab : a ≠ b) :
    Gen.gk_err 0 0 (fnWith (fun x => |x|) (polyOn 14 coef a b)) a b
      ≤ |b - a| * (4 / 10 ^ 15 * ∑ j ∈ Finset.range 14, |coef j|) := by
  rw [err_eq_abs_D15, D15_affine]
  have hp : (fun t => polyOn 14 coef a b (a + t * (b - a)))
      = fun t => ∑ j ∈ Finset.range 14, coef j * t ^ j := by
    funext t; exact polyOn_shift 14 coef a b hab t
  rw [hp, D15_sum, abs_mul]
  refine mul_le_mul_of_nonneg_left ?_ (abs_nonneg _)
  have := sum_bound 14 coef (fun _ => (0 : K)) (fun j => D15 (fun t : K => t ^ j) 0 1) (4 / 10 ^ 15)
    (fun j hj => by simpa using err_unit_monomial j (by omega))
  simpa using this

/-- an empty interval gives 0 (so `I(a, a) = -I(a, a)`) -/
theorem k15_degenerate (g : K → K) (a : K) : K15 g a a = 0 := by
  rw [K15_affine]; simp

-- non-vacuity: 3 + 2 (x - 1) on [1, 4] is `polyOn` with coef = (3, 6, 0, …)
example : polyOn 23 (fun j => if j = 0 then (3 : ℚ) else if j = 1 then 6 else 0) 1 4 2 = 5 := by
  norm_num [polyOn, Finset.sum_range_succ]

end TfelVerif.C12
