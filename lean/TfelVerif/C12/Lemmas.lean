/-
  C12 — helper definitions and lemmas for the traced Gauss–Kronrod rule.

  `K15 g a b` and `D15 g a b` are *the traced code itself* (Gen.lean, regenerated from the
  sources on every run) with the uninterpreted integrand instantiated by `g`:
     K15 g a b = first component returned by `GaussKronrodQuadrature::integrate(g, a, b)`
     D15 g a b = K15 − G7, the quantity whose absolute value is the second component
  No node or weight is copied by hand.
-/
import TfelVerif.C12.Gen
import Mathlib.Algebra.Order.Field.Basic
import Mathlib.Algebra.Order.Ring.Abs
import Mathlib.Algebra.BigOperators.Group.Finset.Basic
import Mathlib.Algebra.Order.BigOperators.Group.Finset
import Mathlib.Algebra.BigOperators.Ring.Finset
import Mathlib.Tactic.Ring
import Mathlib.Tactic.Linarith
import Mathlib.Tactic.NormNum
import Mathlib.Tactic.FieldSimp
import Mathlib.Tactic.IntervalCases

set_option linter.unusedSectionVars false
set_option linter.unusedVariables false

namespace TfelVerif.C12
open TfelVerif

variable {K : Type} [Field K] [LinearOrder K] [IsStrictOrderedRing K]

/-- function symbols: the integrand `f` is `g`, `abs` is `ab`, everything else is irrelevant -/
def fnWith (ab : K → K) (g : K → K) : Fns K :=
  { sqrt := id, cbrt := id, abs := ab, exp := id, log := id, log10 := id, cos := id, sin := id,
    tan := id, acos := id, asin := id, atan := id, cosh := id, sinh := id, tanh := id,
    pow := fun x _ => x, atan2 := fun x _ => x, min := fun x _ => x, max := fun x _ => x,
    call := fun _ args => g (args.headD 0) }

/-- the Kronrod value computed by the code for the integrand `g` on `[a, b]` -/
def K15 (g : K → K) (a b : K) : K := Gen.gk_k15 0 0 (fnWith id g) a b
/-- `K15 − G7` as computed by the code (its absolute value is the returned error estimate) -/
def D15 (g : K → K) (a b : K) : K := Gen.gk_err 0 0 (fnWith id g) a b

theorem err_eq_abs_D15 (g : K → K) (a b : K) :
    Gen.gk_err 0 0 (fnWith (fun x => |x|) g) a b = |D15 g a b| := by
  simp only [D15, Gen.gk_err, fnWith, id]

section linear
omit [LinearOrder K] [IsStrictOrderedRing K]

theorem K15_affine (g : K → K) (a b : K) :
    K15 g a b = (b - a) * K15 (fun t => g (a + t * (b - a))) 0 1 := by
  simp only [K15, Gen.gk_k15, fnWith, List.headD_cons, sub_zero, mul_one, add_zero]
  ring_nf

theorem D15_affine (g : K → K) (a b : K) :
    D15 g a b = (b - a) * D15 (fun t => g (a + t * (b - a))) 0 1 := by
  simp only [D15, Gen.gk_err, fnWith, List.headD_cons, sub_zero, mul_one, add_zero, id]
  ring_nf

theorem K15_add (g h : K → K) (a b : K) : K15 (fun t => g t + h t) a b = K15 g a b + K15 h a b := by
  simp only [K15, Gen.gk_k15, fnWith, List.headD_cons]; ring

theorem K15_smul (s : K) (g : K → K) (a b : K) : K15 (fun t => s * g t) a b = s * K15 g a b := by
  simp only [K15, Gen.gk_k15, fnWith, List.headD_cons]; ring

theorem K15_zero (a b : K) : K15 (fun _ => (0 : K)) a b = 0 := by
  simp only [K15, Gen.gk_k15, fnWith, List.headD_cons]; ring

theorem D15_add (g h : K → K) (a b : K) : D15 (fun t => g t + h t) a b = D15 g a b + D15 h a b := by
  simp only [D15, Gen.gk_err, fnWith, List.headD_cons, id]; ring

theorem D15_smul (s : K) (g : K → K) (a b : K) : D15 (fun t => s * g t) a b = s * D15 g a b := by
  simp only [D15, Gen.gk_err, fnWith, List.headD_cons, id]; ring

theorem D15_zero (a b : K) : D15 (fun _ => (0 : K)) a b = 0 := by
  simp only [D15, Gen.gk_err, fnWith, List.headD_cons, id]; ring

theorem K15_sum (n : Nat) (coef : Nat → K) (a b : K) :
    K15 (fun t => ∑ j ∈ Finset.range n, coef j * t ^ j) a b
      = ∑ j ∈ Finset.range n, coef j * K15 (fun t => t ^ j) a b := by
  induction n with
  | zero => simp [K15_zero]
  | succ n ih =>
    simp only [Finset.sum_range_succ]
    rw [K15_add, ih, K15_smul]

theorem D15_sum (n : Nat) (coef : Nat → K) (a b : K) :
    D15 (fun t => ∑ j ∈ Finset.range n, coef j * t ^ j) a b
      = ∑ j ∈ Finset.range n, coef j * D15 (fun t => t ^ j) a b := by
  induction n with
  | zero => simp [D15_zero]
  | succ n ih =>
    simp only [Finset.sum_range_succ]
    rw [D15_add, ih, D15_smul]

end linear

/-- a polynomial of degree `< n` written in the basis of `[a, b]`: `Σ_j coef j ((x-a)/(b-a))^j`
(every polynomial of degree `< n` has such a form when `a ≠ b`) -/
def polyOn (n : Nat) (coef : Nat → K) (a b : K) (x : K) : K :=
  ∑ j ∈ Finset.range n, coef j * ((x - a) / (b - a)) ^ j

omit [LinearOrder K] [IsStrictOrderedRing K] in
theorem polyOn_shift (n : Nat) (coef : Nat → K) (a b : K) (hab : a ≠ b) (t : K) :
    polyOn n coef a b (a + t * (b - a)) = ∑ j ∈ Finset.range n, coef j * t ^ j := by
  unfold polyOn
  have hne : b - a ≠ 0 := sub_ne_zero.mpr (Ne.symm hab)
  have : (a + t * (b - a) - a) / (b - a) = t := by field_simp; ring
  rw [this]

/-- generic bound: a linear functional whose value on each monomial `t^j`, `j < n`, is within
`ε` of `I j` is within `ε Σ|coef j|` on the polynomial -/
theorem sum_bound (n : Nat) (coef I L : Nat → K) (ε : K)
    (h : ∀ j, j < n → |L j - I j| ≤ ε) :
    |∑ j ∈ Finset.range n, coef j * L j - ∑ j ∈ Finset.range n, coef j * I j|
      ≤ ε * ∑ j ∈ Finset.range n, |coef j| := by
  rw [← Finset.sum_sub_distrib, Finset.mul_sum]
  refine le_trans (Finset.abs_sum_le_sum_abs _ _) (Finset.sum_le_sum ?_)
  intro j hj
  rw [← mul_sub, abs_mul, mul_comm]
  exact mul_le_mul_of_nonneg_right (h j (Finset.mem_range.mp hj)) (abs_nonneg _)

end TfelVerif.C12
