/-
  C12 — property theorems, part 1: the traced Kronrod rule on the monomials of the unit interval
  (`norm_num` on the rationals extracted from the sources; split from Props.lean so that the
  arithmetic-heavy files are checked in parallel).
-/
import TfelVerif.C12.Lemmas

set_option linter.unusedSectionVars false
set_option linter.unusedVariables false

namespace TfelVerif.C12
open TfelVerif

variable {K : Type} [Field K] [LinearOrder K] [IsStrictOrderedRing K]

/-- on the unit interval the rule integrates every monomial of degree ≤ 23 (hence ≤ 22 as the
property states) up to the precision of its 15-digit constants -/
theorem k15_unit_monomial (k : Nat) (hk : k ≤ 23) :
    |K15 (fun t : K => t ^ k) 0 1 - 1 / ((k : K) + 1)| ≤ 4 / 10 ^ 15 := by
  interval_cases k <;>
    (simp only [K15, Gen.gk_k15, fnWith, List.headD_cons]; rw [abs_le]; constructor <;> norm_num)

end TfelVerif.C12
