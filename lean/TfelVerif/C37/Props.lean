/-
  C37 — generated material properties compute the declared law: property theorems.

  For EVERY description `d` (any number of inputs, parameters, static variables; any body of the
  fragment, any `@Data` table), every scalar type `α` with arbitrary operations (`Ops α`: nothing is
  assumed about +, *, pow, exp, ...: the statements are about which value reaches which name),
  every argument vector of the right length and every sequence of run-time overrides:

    value returned by the function emitted for interface i   (IR.eval (gen i d) args ov)
      = value of the declared law on args with  defaults ⊕ overrides  (Desc.evalLaw d args ...)

  The only hypothesis is `Desc.WF`: the declared names are pairwise distinct and non-empty (mfront
  enforces it with `reserveName`).  The `c` interface has no override channel (parameters are
  `static constexpr`): its theorem is stated with the defaults.
-/
import TfelVerif.C37.Core
namespace TfelVerif.C37

variable {α : Type}

set_option linter.unusedSectionVars false

section main
variable [Ops α]
variable [OfNat α 0] [OfNat α 1] [OfNat α 2] [OfNat α 3] [OfNat α 4] [OfNat α 6] [OfNat α 12]
variable [Add α] [Sub α] [Mul α] [Div α] [Neg α]
variable [LT α] [DecidableRel (fun a b : α => a < b)]

/-- **c interface**: the emitted function returns the declared law evaluated with the default
values of the parameters, whatever overrides are attempted (there is no override channel). -/
theorem gen_c_correct (d : Desc α) (hwf : d.WF) (args : List α)
    (hargs : args.length = d.inputs.length) (ov : List (String × α)) :
    (gen .c d).eval args ov = d.evalLaw args d.defaults :=
  eval_core .c d hwf args hargs ov (fun h => absurd rfl h)

/-- **c++ interface**: the emitted `operator()` returns the declared law evaluated with
`defaults ⊕ overrides`, an override `(k, v)` being a call of `set<k>(v)`. -/
theorem gen_cxx_correct (d : Desc α) (hwf : d.WF) (args : List α)
    (hargs : args.length = d.inputs.length) (ov : List (String × α)) :
    (gen .cxx d).eval args ov = d.evalLaw args (applyOverrides d.cxxKeys d.defaults ov) :=
  eval_core .cxx d hwf args hargs ov
    (fun _ => by simp [IR.store, gen, applyOverrides_length, Desc.defaults])

/-- **generic interface**: the emitted function returns the declared law evaluated with
`defaults ⊕ overrides`, an override `(k, v)` being `<law>_setParameter(k, v)` or a line `k v` of
`<law>-parameters.txt`, `k` the name or the external name of the parameter. -/
theorem gen_generic_correct (d : Desc α) (hwf : d.WF) (args : List α)
    (hargs : args.length = d.inputs.length) (ov : List (String × α)) :
    (gen .generic d).eval args ov = d.evalLaw args (applyOverrides d.genericKeys d.defaults ov) :=
  eval_core .generic d hwf args hargs ov
    (fun _ => by simp [IR.store, gen, applyOverrides_length, Desc.defaults])

/-- a call with a wrong number of arguments is not an evaluation of the law -/
theorem gen_wrong_arity (i : Iface) (d : Desc α) (args : List α) (ov : List (String × α))
    (h : args.length ≠ d.inputs.length) : (gen i d).eval args ov = none := by
  have hn : (gen i d).nargs = d.inputs.length := by cases i <;> rfl
  unfold IR.eval
  rw [hn, if_pos h]

/-! ### what `defaults ⊕ overrides` means -/

/-- without overrides the parameters have their default values -/
theorem overrides_none (keys : List (List String)) (dflt : List α) :
    applyOverrides keys dflt [] = dflt := rfl

/-- an unknown key changes nothing -/
theorem overrides_unknown (keys : List (List String)) (dflt : List α) (ov : List (String × α))
    (k : String) (v : α) (h : findKey keys k = none) :
    applyOverrides keys dflt (ov ++ [(k, v)]) = applyOverrides keys dflt ov := by
  rw [applyOverrides_append]
  simp [applyOverrides, h]

/-- the last override of a parameter wins, the other parameters keep their value -/
theorem overrides_last (keys : List (List String)) (dflt : List α) (ov : List (String × α))
    (k : String) (v : α) (i : Nat) (h : findKey keys k = some i) :
    applyOverrides keys dflt (ov ++ [(k, v)]) = (applyOverrides keys dflt ov).set i v := by
  rw [applyOverrides_append]
  simp [applyOverrides, h]

/-- a key designates the first parameter that lists it -/
theorem findKey_spec (keys : List (List String)) (k : String) (i : Nat) (h : findKey keys k = some i) :
    ∃ hi : i < keys.length, k ∈ keys[i] ∧ ∀ j (hj : j < i), k ∉ keys[j]'(Nat.lt_trans hj hi) := by
  unfold findKey at h
  rw [List.findIdx?_eq_some_iff_getElem] at h
  obtain ⟨hi, hk, hj⟩ := h
  refine ⟨hi, by simpa using hk, fun j hj' => ?_⟩
  have := hj j hj'
  simpa using this

/-! ### the `@Data` laws are the documented interpolants (model of C11) -/

/-- linear `@Data`: every interface returns `computeLinearInterpolation<extrapolate>` of the
declared table at the first argument (C11 proves that this is the piecewise-affine interpolant). -/
theorem data_linear (i : Iface) (d : Desc α) (hwf : d.WF) (e : Bool) (pts : List (α × α))
    (hl : d.law = .linear e pts) (x : α) (rest : List α) (ov : List (String × α))
    (hargs : (x :: rest).length = d.inputs.length) :
    (gen i d).eval (x :: rest) ov = some (linearValue e pts x) := by
  have hst : i ≠ .c → ((gen i d).store ov).length = d.params.length := by
    cases i <;> simp [IR.store, gen, applyOverrides_length, Desc.defaults]
  rw [eval_core i d hwf (x :: rest) hargs ov hst]
  simp [Desc.evalLaw, hl]

/-- cubic-spline `@Data`: every interface returns `computeCubicSplineInterpolation<extrapolate>`
of the emitted collocation points at the first argument. -/
theorem data_spline (i : Iface) (d : Desc α) (hwf : d.WF) (e : Bool) (pts : List (α × α × α))
    (hl : d.law = .spline e pts) (x : α) (rest : List α) (ov : List (String × α))
    (hargs : (x :: rest).length = d.inputs.length) :
    (gen i d).eval (x :: rest) ov = some (splineValue e pts x) := by
  have hst : i ≠ .c → ((gen i d).store ov).length = d.params.length := by
    cases i <;> simp [IR.store, gen, applyOverrides_length, Desc.defaults]
  rw [eval_core i d hwf (x :: rest) hargs ov hst]
  simp [Desc.evalLaw, hl]

end main

/-! ### non-vacuity: a well-formed description, and the theorems' conclusion computed on it -/

/-- `y = a * T + s0; y *= x` with parameter `a` (external name `YoungModulus`), over `Int` -/
def exampleDesc : Desc Int :=
  { inputs := [⟨"T", "Temperature"⟩, ⟨"x", "x"⟩], output := "y",
    params := [(⟨"a", "YoungModulus"⟩, 3)], statics := [("s0", 5)],
    law := .fn [⟨.set, .bin .add (.bin .mul (.ref (.par 0)) (.ref (.inp 0))) (.ref (.sv 0))⟩,
                ⟨.mul, .ref (.inp 1)⟩] }

instance : Ops Int where
  zero := 0
  un := fun op x => match op with | .neg => -x | _ => x
  bin := fun op a b => match op with
    | .add => a + b | .sub => a - b | .mul => a * b | .div => a / b
    | .pow => a ^ b.toNat | .min => min a b | .max => max a b

example : exampleDesc.WF := ⟨by decide, by decide⟩
example : (gen .c exampleDesc).eval [2, 7] [("a", 10)] = some 77 := by decide
example : (gen .cxx exampleDesc).eval [2, 7] [("a", 10)] = some 175 := by decide
example : (gen .cxx exampleDesc).eval [2, 7] [("YoungModulus", 10)] = some 77 := by decide
example : (gen .generic exampleDesc).eval [2, 7] [("YoungModulus", 10), ("nope", 1)] = some 175 := by decide
example : exampleDesc.evalLaw [2, 7] (applyOverrides exampleDesc.genericKeys exampleDesc.defaults
    [("YoungModulus", 10), ("nope", 1)]) = some 175 := by decide

end TfelVerif.C37
