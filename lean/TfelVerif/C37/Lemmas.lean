/-
  C37 — helper lemmas: name lookup in the declarations written by the three interfaces, and
  evaluation of a body whose references were renamed by the generator.
-/
import TfelVerif.C37.Model
namespace TfelVerif.C37

variable {α : Type}

/-! ### lookup -/

theorem lookup_nil (n : String) : lookup ([] : List (String × Src α)) n = none := rfl

theorem lookup_cons (b : String × Src α) (l : List (String × Src α)) (n : String) :
    lookup (b :: l) n = if b.1 = n then some b.2 else lookup l n := by
  unfold lookup
  by_cases h : b.1 = n
  · simp [List.find?, h]
  · have : (b.1 == n) = false := by simpa using h
    simp [List.find?, this, h]

theorem lookup_append (l₁ l₂ : List (String × Src α)) (n : String) :
    lookup (l₁ ++ l₂) n = (lookup l₁ n).orElse (fun _ => lookup l₂ n) := by
  induction l₁ with
  | nil => simp [lookup_nil]
  | cons b t ih =>
    rw [List.cons_append, lookup_cons, lookup_cons]
    by_cases h : b.1 = n
    · simp [h]
    · simp [h, ih]

theorem lookup_none_of_not_mem (l : List (String × Src α)) (n : String) (h : n ∉ l.map (·.1)) :
    lookup l n = none := by
  induction l with
  | nil => rfl
  | cons b t ih =>
    rw [lookup_cons]
    have h1 : b.1 ≠ n := by
      intro e; apply h; simp [e]
    have h2 : n ∉ t.map (·.1) := by
      intro e; apply h; simp [e]
    simp [h1, ih h2]

/-- names of `idxBinds` -/
theorem idxBinds_names (mk : Nat → Src α) (names : List String) (k : Nat) :
    (idxBinds mk names k).map (·.1) = names := by
  induction names generalizing k with
  | nil => rfl
  | cons n ns ih => simp [idxBinds, ih]

/-- in a list of distinct names, the `i`-th name is bound to `mk (k + i)` -/
theorem lookup_idxBinds (mk : Nat → Src α) (names : List String) (hd : names.Nodup) (k i : Nat)
    (hi : i < names.length) : lookup (idxBinds mk names k) (names.getD i "") = some (mk (k + i)) := by
  induction names generalizing k i with
  | nil => simp at hi
  | cons n ns ih =>
    rw [List.nodup_cons] at hd
    cases i with
    | zero => simp [idxBinds, lookup_cons]
    | succ j =>
      have hj : j < ns.length := by simpa using hi
      have hne : n ≠ ns.getD j "" := by
        intro e
        apply hd.1
        have hg : ns.getD j "" = ns[j] := by simp [List.getD_eq_getElem?_getD, hj]
        rw [e, hg]
        exact List.getElem_mem hj
      simp only [idxBinds, lookup_cons, List.getD_cons_succ]
      rw [if_neg hne, ih hd.2 (k + 1) j hj]
      congr 2
      omega

/-- in a list of distinct names, the `i`-th name of a mapped list is bound to the `i`-th source -/
theorem lookup_map {β : Type} (l : List β) (nm : β → String) (src : β → Src α)
    (hd : (l.map nm).Nodup) (i : Nat) (hi : i < l.length) :
    lookup (l.map fun b => (nm b, src b)) ((l.map nm).getD i "") = some (src (l[i]'hi)) := by
  induction l generalizing i with
  | nil => simp at hi
  | cons b t ih =>
    rw [List.map_cons, List.nodup_cons] at hd
    cases i with
    | zero => simp [lookup_cons]
    | succ j =>
      have hj : j < t.length := by simpa using hi
      have hne : nm b ≠ (t.map nm).getD j "" := by
        intro e
        apply hd.1
        have hj' : j < (t.map nm).length := by simpa using hj
        have hg : (t.map nm).getD j "" = (t.map nm)[j] := by simp [List.getD_eq_getElem?_getD, hj]
        rw [e, hg]
        exact List.getElem_mem hj'
      simp only [List.map_cons, lookup_cons, List.getD_cons_succ]
      rw [if_neg hne, ih hd.2 j hj]
      simp

/-! ### evaluation under renaming -/

section ops
variable [Ops α]

theorem eval_map {ρ σ : Type} (f : ρ → σ) (env : σ → Option α) (e : Expr ρ α) :
    (e.map f).eval env = e.eval (fun r => env (f r)) := by
  induction e with
  | lit v => rfl
  | ref r => rfl
  | un op a ih => simp [Expr.map, Expr.eval, ih]
  | bin op a b iha ihb => simp [Expr.map, Expr.eval, iha, ihb]

/-- two environments that agree on the references an expression mentions give the same value -/
theorem eval_congr {ρ : Type} (env₁ env₂ : ρ → Option α) (e : Expr ρ α)
    (h : ∀ r, env₁ r = env₂ r) : e.eval env₁ = e.eval env₂ := by
  have : env₁ = env₂ := funext h
  rw [this]

theorem runBody_map {ρ σ : Type} (f : ρ → σ) (env : α → σ → Option α) (body : List (Stmt ρ α)) (cur : α) :
    runBody env (body.map fun s => { op := s.op, rhs := s.rhs.map f }) cur
      = runBody (fun c r => env c (f r)) body cur := by
  induction body generalizing cur with
  | nil => rfl
  | cons s t ih =>
    simp only [List.map_cons, runBody, eval_map]
    cases s.rhs.eval (fun r => env cur (f r)) with
    | none => rfl
    | some v => exact ih _

theorem runBody_congr {ρ : Type} (env₁ env₂ : α → ρ → Option α) (body : List (Stmt ρ α)) (cur : α)
    (h : ∀ c r, env₁ c r = env₂ c r) : runBody env₁ body cur = runBody env₂ body cur := by
  have : env₁ = env₂ := funext fun c => funext fun r => h c r
  rw [this]

end ops

/-! ### overrides -/

theorem applyOverrides_nil (keys : List (List String)) (dflt : List α) :
    applyOverrides keys dflt [] = dflt := rfl

theorem applyOverrides_append (keys : List (List String)) (dflt : List α) (o₁ o₂ : List (String × α)) :
    applyOverrides keys dflt (o₁ ++ o₂) = applyOverrides keys (applyOverrides keys dflt o₁) o₂ := by
  simp [applyOverrides, List.foldl_append]

theorem applyOverrides_length (keys : List (List String)) (dflt : List α) (ov : List (String × α)) :
    (applyOverrides keys dflt ov).length = dflt.length := by
  induction ov generalizing dflt with
  | nil => rfl
  | cons kv t ih =>
    simp only [applyOverrides, List.foldl_cons]
    cases h : findKey keys kv.1 with
    | none => simpa [applyOverrides] using ih dflt
    | some i =>
      have := ih (dflt.set i kv.2)
      simpa [applyOverrides] using this

theorem applyOverrides_no_keys (dflt : List α) (ov : List (String × α)) :
    applyOverrides [] dflt ov = dflt := by
  induction ov with
  | nil => rfl
  | cons kv t ih =>
    simp only [applyOverrides, List.foldl_cons] at ih ⊢
    simpa [findKey] using ih

end TfelVerif.C37
