/- line-protocol driver of the C37 model on `Float` (= C double): one request per line, one answer per line.

   gen  <iface> <desc>                       -> canonical text of the IR `gen iface desc`
   eval <iface> <desc> ; <nov> (key bits)* ; <nargs> bits*
        -> `<bits of IR.eval> <bits of Desc.evalLaw with defaults ⊕ overrides>`  (`none` when undefined)

   <desc> := I n (name ext)*  O name  P n (name ext bits)*  S n (name bits)*  L <law>
   <law>  := fn n (aop <expr>)* | const bits | lin e n (x y)* | spl e n (x y d)*
   <expr> := l bits | i k | p k | s k | o | u op <expr> | b op <expr> <expr>       (prefix notation)
   numbers are the 16 hex digits of the IEEE-754 binary64 representation. -/
import TfelVerif.C37.Model
open TfelVerif.C37

instance : Ops Float where
  zero := 0.0
  un := fun op x =>
    match op with
    | .neg => -x
    | .exp => Float.exp x
    | .log => Float.log x
    | .sqrt => Float.sqrt x
    | .sin => Float.sin x
    | .cos => Float.cos x
    | .tanh => Float.tanh x
    | .abs => Float.abs x
  bin := fun op a b =>
    match op with
    | .add => a + b
    | .sub => a - b
    | .mul => a * b
    | .div => a / b
    | .pow => Float.pow a b
    | .min => if a < b then a else b      -- the lambda `min` written by mfront: `a < b ? a : b`
    | .max => if a > b then a else b      -- `a > b ? a : b`

abbrev P := StateT (List String) Option

def tok : P String := do
  match (← get) with
  | [] => failure
  | t :: r => set r; pure t

def hexDigit (c : Char) : Option Nat :=
  if '0' ≤ c ∧ c ≤ '9' then some (c.toNat - '0'.toNat)
  else if 'a' ≤ c ∧ c ≤ 'f' then some (c.toNat - 'a'.toNat + 10)
  else none

def parseHex (s : String) : Option Nat :=
  s.toList.foldl (fun acc c => match acc, hexDigit c with
                               | some a, some d => some (16 * a + d)
                               | _, _ => none) (some 0)

def num : P Float := do
  match parseHex (← tok) with
  | some n => pure (Float.ofBits n.toUInt64)
  | none => failure

def nat : P Nat := do
  match (← tok).toNat? with
  | some n => pure n
  | none => failure

def rep {β : Type} (p : P β) : Nat → P (List β)
  | 0 => pure []
  | n + 1 => do let x ← p; let r ← rep p n; pure (x :: r)

def unop : P UnOp := do
  match (← tok) with
  | "neg" => pure .neg | "exp" => pure .exp | "log" => pure .log | "sqrt" => pure .sqrt
  | "sin" => pure .sin | "cos" => pure .cos | "tanh" => pure .tanh | "abs" => pure .abs
  | _ => failure

def binop : P BinOp := do
  match (← tok) with
  | "add" => pure .add | "sub" => pure .sub | "mul" => pure .mul | "div" => pure .div
  | "pow" => pure .pow | "min" => pure .min | "max" => pure .max
  | _ => failure

def aop : P AOp := do
  match (← tok) with
  | "set" => pure .set | "add" => pure .add | "sub" => pure .sub | "mul" => pure .mul | "div" => pure .div
  | _ => failure

partial def expr : P (Expr Ref Float) := do
  match (← tok) with
  | "l" => return .lit (← num)
  | "i" => return .ref (.inp (← nat))
  | "p" => return .ref (.par (← nat))
  | "s" => return .ref (.sv (← nat))
  | "o" => return .ref .out
  | "u" => do let op ← unop; let a ← expr; return .un op a
  | "b" => do let op ← binop; let a ← expr; let b ← expr; return .bin op a b
  | _ => failure

def expect (s : String) : P Unit := do
  if (← tok) == s then pure () else failure

def flag : P Bool := do
  match (← tok) with
  | "1" => pure true
  | "0" => pure false
  | _ => failure

def law : P (Law Float) := do
  match (← tok) with
  | "fn" => do
    let n ← nat
    let b ← rep (do let o ← aop; let e ← expr; pure ({ op := o, rhs := e } : Stmt Ref Float)) n
    return .fn b
  | "const" => return .const (← num)
  | "lin" => do
    let e ← flag; let n ← nat
    return .linear e (← rep (do let x ← num; let y ← num; pure (x, y)) n)
  | "spl" => do
    let e ← flag; let n ← nat
    return .spline e (← rep (do let x ← num; let y ← num; let d ← num; pure (x, y, d)) n)
  | _ => failure

def desc : P (Desc Float) := do
  expect "I"
  let ins ← rep (do let n ← tok; let e ← tok; pure ({ name := n, ext := e } : Var)) (← nat)
  expect "O"
  let out ← tok
  expect "P"
  let ps ← rep (do let n ← tok; let e ← tok; let v ← num; pure (({ name := n, ext := e } : Var), v)) (← nat)
  expect "S"
  let ss ← rep (do let n ← tok; let v ← num; pure (n, v)) (← nat)
  expect "L"
  let l ← law
  return { inputs := ins, output := out, params := ps, statics := ss, law := l }

def iface : P Iface := do
  match (← tok) with
  | "c" => pure .c | "cxx" => pure .cxx | "generic" => pure .generic
  | _ => failure

/-! canonical text -/

def hex16 (n : UInt64) : String :=
  let ds := (Nat.toDigits 16 n.toNat)
  String.ofList (List.replicate (16 - ds.length) '0' ++ ds)

def showF (x : Float) : String := if x.isNaN then "nan" else hex16 x.toBits

def showUn : UnOp → String
  | .neg => "neg" | .exp => "exp" | .log => "log" | .sqrt => "sqrt" | .sin => "sin" | .cos => "cos"
  | .tanh => "tanh" | .abs => "abs"
def showBin : BinOp → String
  | .add => "add" | .sub => "sub" | .mul => "mul" | .div => "div" | .pow => "pow" | .min => "min" | .max => "max"
def showA : AOp → String
  | .set => "set" | .add => "add" | .sub => "sub" | .mul => "mul" | .div => "div"

def showE : Expr String Float → String
  | .lit v => "(l " ++ showF v ++ ")"
  | .ref n => "(v " ++ n ++ ")"
  | .un op a => "(" ++ showUn op ++ " " ++ showE a ++ ")"
  | .bin op a b => "(" ++ showBin op ++ " " ++ showE a ++ " " ++ showE b ++ ")"

def showSrc : Src Float → String
  | .arg i => s!"arg{i}"
  | .const v => "const:" ++ showF v
  | .slot i => s!"slot{i}"

def showB (b : Bool) : String := if b then "1" else "0"

def showLaw : ILaw Float → String
  | .fn body => "fn " ++ " ".intercalate (body.map fun s => showA s.op ++ " " ++ showE s.rhs)
  | .const v => "const " ++ showF v
  | .linear e pts x => s!"lin {showB e} {x} " ++ " ".intercalate (pts.map fun p => showF p.1 ++ ":" ++ showF p.2)
  | .spline e pts x => s!"spl {showB e} {x} " ++
      " ".intercalate (pts.map fun p => showF p.1 ++ ":" ++ showF p.2.1 ++ ":" ++ showF p.2.2)

/-- keys of one slot in increasing order (the order of the tests is irrelevant inside a slot) -/
def sortKeys (ks : List String) : List String :=
  ks.foldl (fun acc k => (acc.filter (· < k)) ++ [k] ++ (acc.filter (fun x => ¬ (x < k) ∧ x ≠ k))) []

def showIR (ir : IR Float) : String :=
  s!"nargs={ir.nargs};binds=" ++ ",".intercalate (ir.binds.map fun b => b.1 ++ ":" ++ showSrc b.2) ++
  ";slots=" ++ ",".intercalate (ir.slots.map showF) ++
  ";keys=" ++ ",".intercalate (ir.keys.map fun ks => "|".intercalate (sortKeys ks)) ++
  s!";out={ir.out};law=" ++ showLaw ir.law ++ s!";ret={ir.ret}"

def showO : Option Float → String
  | some x => showF x
  | none => "none"

def request : P String := do
  match (← tok) with
  | "gen" => do
    let i ← iface; let d ← desc
    return showIR (gen i d)
  | "eval" => do
    let i ← iface; let d ← desc
    expect ";"
    let ov ← rep (do let k ← tok; let v ← num; pure (k, v)) (← nat)
    expect ";"
    let args ← rep num (← nat)
    let ir := gen i d
    let keys := match i with
      | .c => []
      | .cxx => d.cxxKeys
      | .generic => d.genericKeys
    return showO (ir.eval args ov) ++ " " ++ showO (d.evalLaw args (applyOverrides keys d.defaults ov))
  | _ => failure

def answer (line : String) : String :=
  let toks := (line.splitOn " ").filter (fun t => t ≠ "" ∧ t ≠ "\n")
  match request.run toks with
  | some (r, []) => r
  | _ => "bad-op"

partial def loop (h : IO.FS.Stream) : IO Unit := do
  let line ← h.getLine
  if line.isEmpty then return ()
  IO.println (answer ((line.replace "\n" "").replace "\r" ""))
  loop h

def main : IO Unit := do loop (← IO.getStdin)
