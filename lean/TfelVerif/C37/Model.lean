/-
  C37 — generated material properties compute the declared law.

  Hand-written executable model (core Lean only) of
    * a material-property description (inputs, parameters with defaults and external names, static
      variables, output, and the law: an `@Function` body in a small expression fragment, or an
      `@Data` table with linear / cubic-spline interpolation);
    * the generator `gen` of the three interfaces `c`, `c++`, `generic`
      (mfront/src/CMaterialPropertyInterfaceBase.cxx `writeMaterialPropertyBody`,
       CppMaterialPropertyInterface.cxx `writeSrcFile`, GenericMaterialPropertyInterfaceBase.cxx
       `writeSrcFile` + MaterialPropertyParametersHandler.cxx) to an IR of the emitted function:
       the declarations in emission order (formal arguments, `static constexpr` variables,
       parameters and how their value is obtained), the override keys accepted at run time
       (`<law>_setParameter`, `<law>-parameters.txt`, `set<p>` members), the body over *names*,
       the returned variable;
    * the semantics of the IR (`IR.eval`: C++ name lookup in declaration order) and of the declared
      law (`Desc.evalLaw`: positions, defaults ⊕ overrides).
  The same definitions run on `Float` (= C `double`, Driver.lean) and are the object of the
  theorems for an arbitrary scalar type in Props.lean.
-/
import TfelVerif.C11.Model
namespace TfelVerif.C37

inductive UnOp where
  | neg | exp | log | sqrt | sin | cos | tanh | abs
  deriving DecidableEq, Repr, Inhabited

inductive BinOp where
  | add | sub | mul | div | pow | min | max
  deriving DecidableEq, Repr, Inhabited

/-- assignment operators accepted on the output variable: `=`, `+=`, `-=`, `*=`, `/=` -/
inductive AOp where
  | set | add | sub | mul | div
  deriving DecidableEq, Repr, Inhabited

/-- the scalar operations of the fragment (`double` and libm in the generated code) -/
class Ops (α : Type) where
  zero : α
  un : UnOp → α → α
  bin : BinOp → α → α → α

/-- what a leaf of a declared law refers to -/
inductive Ref where
  | inp (i : Nat) | par (i : Nat) | sv (i : Nat) | out
  deriving DecidableEq, Repr, Inhabited

/-- expressions over references of type `ρ` (`Ref` in a description, names in the IR) -/
inductive Expr (ρ α : Type) where
  | lit (v : α)
  | ref (r : ρ)
  | un (op : UnOp) (a : Expr ρ α)
  | bin (op : BinOp) (a b : Expr ρ α)
  deriving Inhabited

structure Stmt (ρ α : Type) where
  op : AOp
  rhs : Expr ρ α
  deriving Inhabited

variable {α : Type}

def Expr.eval [Ops α] {ρ : Type} (env : ρ → Option α) : Expr ρ α → Option α
  | .lit v => some v
  | .ref r => env r
  | .un op a => (a.eval env).map (Ops.un op)
  | .bin op a b =>
    match a.eval env, b.eval env with
    | some x, some y => some (Ops.bin op x y)
    | _, _ => none

def Expr.map {ρ σ : Type} (f : ρ → σ) : Expr ρ α → Expr σ α
  | .lit v => .lit v
  | .ref r => .ref (f r)
  | .un op a => .un op (a.map f)
  | .bin op a b => .bin op (a.map f) (b.map f)

/-- `y op= v` -/
def AOp.apply [Ops α] (op : AOp) (cur v : α) : α :=
  match op with
  | .set => v
  | .add => Ops.bin .add cur v
  | .sub => Ops.bin .sub cur v
  | .mul => Ops.bin .mul cur v
  | .div => Ops.bin .div cur v

/-- executes a list of assignments to the output variable; `env cur` resolves a reference when
the output currently holds `cur` -/
def runBody [Ops α] {ρ : Type} (env : α → ρ → Option α) : List (Stmt ρ α) → α → Option α
  | [], cur => some cur
  | s :: rest, cur =>
    match s.rhs.eval (env cur) with
    | some v => runBody env rest (s.op.apply cur v)
    | none => none

/-- a declared variable: its name in the law and its external (glossary / entry) name, equal to
the name when none was given -/
structure Var where
  name : String
  ext : String
  deriving DecidableEq, Repr, Inhabited

/-- the declared law -/
inductive Law (α : Type) where
  /-- `@Function { ... }` -/
  | fn (body : List (Stmt Ref α))
  /-- `@Data` reduced to one value (no input, or a single point) -/
  | const (v : α)
  /-- `@Data` over the first input, linear interpolation, `extrapolation` flag, points (x, y) -/
  | linear (extrapolate : Bool) (pts : List (α × α))
  /-- `@Data` over the first input, cubic spline with the given slopes, points (x, y, d) -/
  | spline (extrapolate : Bool) (pts : List (α × α × α))
  deriving Inhabited

structure Desc (α : Type) where
  inputs : List Var
  output : String
  params : List (Var × α)
  statics : List (String × α)
  law : Law α
  deriving Inhabited

/-! ### the declared law evaluated on positions -/

section scalar
variable [Ops α]
variable [OfNat α 0] [OfNat α 1] [OfNat α 2] [OfNat α 3] [OfNat α 4] [OfNat α 6] [OfNat α 12]
variable [Add α] [Sub α] [Mul α] [Div α] [Neg α]
variable [LT α] [DecidableRel (fun a b : α => a < b)]

def vecOf (l : List α) : TfelVerif.C11.Vec α := { get := fun i => l.getD i Ops.zero }

def linearValue (e : Bool) (pts : List (α × α)) (x : α) : α :=
  (TfelVerif.C11.linear e (vecOf (pts.map (·.1))) (vecOf (pts.map (·.2))) pts.length x).1

def splineValue (e : Bool) (pts : List (α × α × α)) (x : α) : α :=
  (TfelVerif.C11.splineEval e (vecOf (pts.map (·.1))) (vecOf (pts.map (·.2.1)))
    (vecOf (pts.map (·.2.2))) pts.length x).1

/-- resolution of a reference of the declared law: `args` the input vector, `pv` the effective
parameter values, `sv` the static variables -/
def refEnv (args pv sv : List α) (cur : α) : Ref → Option α
  | .inp i => args[i]?
  | .par i => pv[i]?
  | .sv i => sv[i]?
  | .out => some cur

/-- value of the declared law on `args` with effective parameter values `pv` -/
def Desc.evalLaw (d : Desc α) (args pv : List α) : Option α :=
  match d.law with
  | .fn body => runBody (refEnv args pv (d.statics.map (·.2))) body Ops.zero
  | .const v => some v
  | .linear e pts => (args[0]?).map (linearValue e pts)
  | .spline e pts => (args[0]?).map (splineValue e pts)

end scalar

/-! ### run-time overrides of parameters -/

/-- position of the first parameter one of whose keys is `k` -/
def findKey (keys : List (List String)) (k : String) : Option Nat :=
  keys.findIdx? (fun ks => ks.contains k)

/-- `defaults ⊕ overrides`: each `(key, value)` in turn sets the parameter designated by the key
(unknown keys are ignored) -/
def applyOverrides (keys : List (List String)) (defaults : List α) (ov : List (String × α)) : List α :=
  ov.foldl (fun st kv => match findKey keys kv.1 with
                         | some i => st.set i kv.2
                         | none => st) defaults

/-- keys designating a parameter through the generic interface (`<law>_setParameter` and the
`<law>-parameters.txt` file): its external name and its name -/
def Desc.genericKeys (d : Desc α) : List (List String) :=
  d.params.map (fun p => if p.1.ext = p.1.name then [p.1.name] else [p.1.ext, p.1.name])
/-- keys designating a parameter through the c++ interface: `set<name>` -/
def Desc.cxxKeys (d : Desc α) : List (List String) := d.params.map (fun p => [p.1.name])
def Desc.defaults (d : Desc α) : List α := d.params.map (·.2)

/-! ### IR of the emitted function -/

inductive Iface where
  | c | cxx | generic
  deriving DecidableEq, Repr, Inhabited

/-- how the value bound to a name is obtained -/
inductive Src (α : Type) where
  /-- i-th actual argument (`const double x` / `*(mfront_params+i)`) -/
  | arg (i : Nat)
  /-- `static constexpr` value written in the source -/
  | const (v : α)
  /-- current value of parameter slot `i` (class member / parameters handler) -/
  | slot (i : Nat)
  deriving Inhabited

inductive ILaw (α : Type) where
  | fn (body : List (Stmt String α))
  | const (v : α)
  | linear (extrapolate : Bool) (pts : List (α × α)) (x : String)
  | spline (extrapolate : Bool) (pts : List (α × α × α)) (x : String)
  deriving Inhabited

structure IR (α : Type) where
  nargs : Nat
  /-- declarations visible in the body, in lookup order -/
  binds : List (String × Src α)
  /-- initial value of the parameter slots -/
  slots : List α
  /-- override keys accepted at run time, per slot, in test order -/
  keys : List (List String)
  out : String
  law : ILaw α
  ret : String
  deriving Inhabited

def Desc.inputNames (d : Desc α) : List String := d.inputs.map (·.name)
def Desc.paramNames (d : Desc α) : List String := d.params.map (·.1.name)
def Desc.staticNames (d : Desc α) : List String := d.statics.map (·.1)

def nameOf (d : Desc α) : Ref → String
  | .inp i => d.inputNames.getD i ""
  | .par i => d.paramNames.getD i ""
  | .sv i => d.staticNames.getD i ""
  | .out => d.output

def genLaw (d : Desc α) : ILaw α :=
  match d.law with
  | .fn body => .fn (body.map fun s => { op := s.op, rhs := s.rhs.map (nameOf d) })
  | .const v => .const v
  | .linear e pts => .linear e pts (d.inputNames.getD 0 "")
  | .spline e pts => .spline e pts (d.inputNames.getD 0 "")

/-- `names[k]` bound to `mk (start + k)` -/
def idxBinds (mk : Nat → Src α) : List String → Nat → List (String × Src α)
  | [], _ => []
  | n :: ns, k => (n, mk k) :: idxBinds mk ns (k + 1)

def argBinds (d : Desc α) : List (String × Src α) := idxBinds Src.arg d.inputNames 0
def staticBinds (d : Desc α) : List (String × Src α) := d.statics.map fun s => (s.1, Src.const s.2)
def constParamBinds (d : Desc α) : List (String × Src α) := d.params.map fun p => (p.1.name, Src.const p.2)
def slotParamBinds (d : Desc α) : List (String × Src α) := idxBinds Src.slot d.paramNames 0

/-- the generator model -/
def gen (i : Iface) (d : Desc α) : IR α :=
  match i with
  | .c =>       -- formal arguments; writeStaticVariables; `static constexpr auto p = type(default)`
    { nargs := d.inputs.length, binds := argBinds d ++ staticBinds d ++ constParamBinds d,
      slots := [], keys := [], out := d.output, law := genLaw d, ret := d.output }
  | .cxx =>     -- formal arguments; writeStaticVariables; parameters are class members set by `set<p>`
    { nargs := d.inputs.length, binds := argBinds d ++ staticBinds d ++ slotParamBinds d,
      slots := d.defaults, keys := d.cxxKeys, out := d.output, law := genLaw d, ret := d.output }
  | .generic => -- writeStaticVariables; `const real p = handler.p`; `const auto x = *(mfront_params+i)`
    { nargs := d.inputs.length, binds := staticBinds d ++ slotParamBinds d ++ argBinds d,
      slots := d.defaults, keys := d.genericKeys, out := d.output, law := genLaw d, ret := d.output }

/-! ### semantics of the IR -/

def lookup (binds : List (String × Src α)) (n : String) : Option (Src α) :=
  (binds.find? (fun b => b.1 == n)).map (·.2)

def IR.store (ir : IR α) (ov : List (String × α)) : List α := applyOverrides ir.keys ir.slots ov

/-- C++ name lookup: the output variable, then the declarations in order -/
def IR.env (ir : IR α) (args st : List α) (cur : α) (n : String) : Option α :=
  if n == ir.out then some cur
  else match lookup ir.binds n with
    | some (.arg i) => args[i]?
    | some (.const v) => some v
    | some (.slot i) => st[i]?
    | none => none

section scalar
variable [Ops α]
variable [OfNat α 0] [OfNat α 1] [OfNat α 2] [OfNat α 3] [OfNat α 4] [OfNat α 6] [OfNat α 12]
variable [Add α] [Sub α] [Mul α] [Div α] [Neg α]
variable [LT α] [DecidableRel (fun a b : α => a < b)]

/-- value returned by the emitted function called on `args` after the overrides `ov` -/
def IR.eval (ir : IR α) (args : List α) (ov : List (String × α)) : Option α :=
  if args.length ≠ ir.nargs then none
  else
    let st := ir.store ov
    let final : Option α :=
      match ir.law with
      | .fn body => runBody (ir.env args st) body Ops.zero
      | .const v => some v
      | .linear e pts x => (ir.env args st Ops.zero x).map (linearValue e pts)
      | .spline e pts x => (ir.env args st Ops.zero x).map (splineValue e pts)
    if ir.ret == ir.out then final else none

end scalar
end TfelVerif.C37
