/-
  C37 — well-formedness of a description and the core lemmas of the property theorems:
  name lookup in the declarations emitted by each interface (`lookup_group`), the values seen by
  the body (`env_spec`), evaluation of the IR against the declared law (`eval_core`).
-/
import TfelVerif.C37.Lemmas
namespace TfelVerif.C37

variable {α : Type}

/-- declared names: pairwise distinct, none empty -/
structure Desc.WF (d : Desc α) : Prop where
  nodup : (d.inputNames ++ (d.staticNames ++ (d.paramNames ++ [d.output]))).Nodup
  nonempty : "" ∉ d.inputNames ++ (d.staticNames ++ (d.paramNames ++ [d.output]))

section lookups

theorem mem_getD {l : List String} {i : Nat} (hi : i < l.length) : l.getD i "" ∈ l := by
  have hg : l.getD i "" = l[i] := by simp [List.getD_eq_getElem?_getD, hi]
  rw [hg]; exact List.getElem_mem hi

theorem getD_ge {l : List String} {i : Nat} (hi : ¬ i < l.length) : l.getD i "" = "" := by
  simp [List.getD_eq_getElem?_getD, Nat.le_of_not_lt hi]

theorem argBinds_names (d : Desc α) : (argBinds d).map (·.1) = d.inputNames := idxBinds_names _ _ _
theorem slotParamBinds_names (d : Desc α) : (slotParamBinds d).map (·.1) = d.paramNames := idxBinds_names _ _ _
theorem staticBinds_names (d : Desc α) : (staticBinds d).map (·.1) = d.staticNames := by
  simp [staticBinds, Desc.staticNames]
theorem constParamBinds_names (d : Desc α) : (constParamBinds d).map (·.1) = d.paramNames := by
  simp [constParamBinds, Desc.paramNames]

/-- the three groups of declarations of an interface: arguments, static variables, parameters -/
def groupA (d : Desc α) : List (String × Src α) := argBinds d
def groupS (d : Desc α) : List (String × Src α) := staticBinds d
def groupP (i : Iface) (d : Desc α) : List (String × Src α) :=
  match i with
  | .c => constParamBinds d
  | _ => slotParamBinds d

theorem groupP_names (i : Iface) (d : Desc α) : (groupP i d).map (·.1) = d.paramNames := by
  cases i <;> simp [groupP, constParamBinds_names, slotParamBinds_names]

theorem gen_binds (i : Iface) (d : Desc α) :
    (gen i d).binds = match i with
      | .generic => groupS d ++ groupP i d ++ groupA d
      | _ => groupA d ++ groupS d ++ groupP i d := by
  cases i <;> rfl

/-- a name of one group, looked up in the declarations of an interface, is found in that group -/
theorem lookup_group (i : Iface) (d : Desc α) (hwf : d.WF) (n : String) :
    (n ∈ d.inputNames → lookup (gen i d).binds n = lookup (groupA d) n) ∧
    (n ∈ d.staticNames → lookup (gen i d).binds n = lookup (groupS d) n) ∧
    (n ∈ d.paramNames → lookup (gen i d).binds n = lookup (groupP i d) n) ∧
    (n ∉ d.inputNames → n ∉ d.staticNames → n ∉ d.paramNames → lookup (gen i d).binds n = none) := by
  have hnd := hwf.nodup
  rw [List.nodup_append] at hnd
  obtain ⟨_, hnd2, hIS⟩ := hnd
  rw [List.nodup_append] at hnd2
  obtain ⟨_, hnd3, hSP⟩ := hnd2
  have hIS' : ∀ a ∈ d.inputNames, a ∉ d.staticNames := fun a ha hs =>
    hIS a ha a (by simp [hs]) rfl
  have hIP' : ∀ a ∈ d.inputNames, a ∉ d.paramNames := fun a ha hp =>
    hIS a ha a (by simp [hp]) rfl
  have hSP' : ∀ a ∈ d.staticNames, a ∉ d.paramNames := fun a ha hp =>
    hSP a ha a (by simp [hp]) rfl
  have nA : n ∉ d.inputNames → lookup (groupA d) n = none := fun h =>
    lookup_none_of_not_mem _ _ (by rw [groupA, argBinds_names]; exact h)
  have nS : n ∉ d.staticNames → lookup (groupS d) n = none := fun h =>
    lookup_none_of_not_mem _ _ (by rw [groupS, staticBinds_names]; exact h)
  have nP : n ∉ d.paramNames → lookup (groupP i d) n = none := fun h =>
    lookup_none_of_not_mem _ _ (by rw [groupP_names]; exact h)
  rw [gen_binds]
  refine ⟨fun h => ?_, fun h => ?_, fun h => ?_, fun h1 h2 h3 => ?_⟩
  · have h2 := nS (hIS' n h)
    have h3 := nP (hIP' n h)
    cases i <;> simp [lookup_append, h2, h3] <;> cases lookup (groupA d) n <;> simp
  · have h1 := nA (fun hi => hIS' n hi h)
    have h3 := nP (hSP' n h)
    cases i <;> simp [lookup_append, h1, h3] <;> cases lookup (groupS d) n <;> simp
  · have h1 := nA (fun hi => hIP' n hi h)
    have h2 := nS (fun hs => hSP' n hs h)
    cases i <;> simp [lookup_append, h1, h2] <;> cases lookup (groupP i d) n <;> simp
  · cases i <;> simp [lookup_append, nA h1, nS h2, nP h3]

end lookups

set_option linter.unusedSectionVars false

section main
variable [Ops α]

/-- the values the body sees under its names are the values of the declaration at the declared
positions: the heart of the three theorems -/
theorem env_spec (i : Iface) (d : Desc α) (hwf : d.WF) (args st : List α)
    (hst : i ≠ .c → st.length = d.params.length)
    (hargs : args.length = d.inputs.length) (cur : α) (r : Ref) :
    (gen i d).env args st cur (nameOf d r)
      = refEnv args (if i = .c then d.defaults else st) (d.statics.map (·.2)) cur r := by
  have hne := hwf.nonempty
  have hnd := hwf.nodup
  have hout_notin : d.output ∉ d.inputNames ∧ d.output ∉ d.staticNames ∧ d.output ∉ d.paramNames := by
    simp only [← List.append_assoc] at hnd
    rw [List.nodup_append] at hnd
    obtain ⟨_, _, hx⟩ := hnd
    refine ⟨fun h => hx d.output (by simp [h]) d.output (by simp) rfl,
      fun h => hx d.output (by simp [h]) d.output (by simp) rfl,
      fun h => hx d.output (by simp [h]) d.output (by simp) rfl⟩
  have hempty : "" ∉ d.inputNames ∧ "" ∉ d.staticNames ∧ "" ∉ d.paramNames ∧ "" ≠ d.output := by
    refine ⟨fun h => hne (by simp [h]), fun h => hne (by simp [h]), fun h => hne (by simp [h]),
      fun h => hne (by simp [← h])⟩
  have hout : (gen i d).out = d.output := by cases i <;> rfl
  have hInd : d.inputNames.Nodup := by
    rw [List.nodup_append] at hnd; exact hnd.1
  have hSnd : d.staticNames.Nodup := by
    rw [List.nodup_append] at hnd
    have := hnd.2.1
    rw [List.nodup_append] at this; exact this.1
  have hPnd : d.paramNames.Nodup := by
    rw [List.nodup_append] at hnd
    have := hnd.2.1
    rw [List.nodup_append] at this
    have := this.2.1
    rw [List.nodup_append] at this; exact this.1
  -- a name that is not the output
  have notOut : ∀ n, n ≠ d.output → (gen i d).env args st cur n =
      match lookup (gen i d).binds n with
      | some (.arg k) => args[k]?
      | some (.const v) => some v
      | some (.slot k) => st[k]?
      | none => none := by
    intro n hn
    unfold IR.env
    rw [hout]
    have : (n == d.output) = false := by simpa using hn
    rw [this]; rfl
  have emptyNone : (gen i d).env args st cur "" = none := by
    rw [notOut "" hempty.2.2.2, (lookup_group i d hwf "").2.2.2 hempty.1 hempty.2.1 hempty.2.2.1]
  cases r with
  | out =>
    simp only [nameOf, refEnv]
    unfold IR.env
    simp [hout]
  | inp k =>
    simp only [nameOf, refEnv]
    by_cases hk : k < d.inputNames.length
    · have hm := mem_getD hk
      have hno : d.inputNames.getD k "" ≠ d.output := fun e => hout_notin.1 (e ▸ hm)
      rw [notOut _ hno, (lookup_group i d hwf _).1 hm, groupA, argBinds,
        lookup_idxBinds Src.arg d.inputNames hInd 0 k hk]
      simp
    · rw [getD_ge hk, emptyNone]
      have : ¬ k < args.length := by
        rw [hargs]; simpa [Desc.inputNames] using hk
      simp [Nat.le_of_not_lt this]
  | sv k =>
    simp only [nameOf, refEnv]
    by_cases hk : k < d.staticNames.length
    · have hm := mem_getD hk
      have hno : d.staticNames.getD k "" ≠ d.output := fun e => hout_notin.2.1 (e ▸ hm)
      have hk' : k < d.statics.length := by simpa [Desc.staticNames] using hk
      have hl := lookup_map d.statics (·.1) (fun s => Src.const s.2)
        (by simpa [Desc.staticNames] using hSnd) k hk'
      rw [notOut _ hno, (lookup_group i d hwf _).2.1 hm, groupS, staticBinds]
      rw [show d.staticNames = d.statics.map (·.1) from rfl, hl]
      simp [hk']
    · rw [getD_ge hk, emptyNone]
      have : ¬ k < d.statics.length := by simpa [Desc.staticNames] using hk
      simp [Nat.le_of_not_lt this]
  | par k =>
    simp only [nameOf, refEnv]
    by_cases hk : k < d.paramNames.length
    · have hm := mem_getD hk
      have hno : d.paramNames.getD k "" ≠ d.output := fun e => hout_notin.2.2 (e ▸ hm)
      have hk' : k < d.params.length := by simpa [Desc.paramNames] using hk
      rw [notOut _ hno, (lookup_group i d hwf _).2.2.1 hm]
      cases i with
      | c =>
        have hl := lookup_map d.params (·.1.name) (fun p => Src.const p.2)
          (by simpa [Desc.paramNames] using hPnd) k hk'
        have hg : groupP Iface.c d = constParamBinds d := rfl
        rw [hg, constParamBinds, show d.paramNames = d.params.map (·.1.name) from rfl, hl]
        simp [Desc.defaults, hk']
      | cxx =>
        have hg : groupP Iface.cxx d = slotParamBinds d := rfl
        rw [hg, slotParamBinds, lookup_idxBinds Src.slot d.paramNames hPnd 0 k hk]
        simp
      | generic =>
        have hg : groupP Iface.generic d = slotParamBinds d := rfl
        rw [hg, slotParamBinds, lookup_idxBinds Src.slot d.paramNames hPnd 0 k hk]
        simp
    · rw [getD_ge hk, emptyNone]
      have hk' : ¬ k < d.params.length := by simpa [Desc.paramNames] using hk
      cases i with
      | c => simp [Desc.defaults, Nat.le_of_not_lt hk']
      | cxx =>
        have : ¬ k < st.length := by rw [hst (by decide)]; exact hk'
        simp [Nat.le_of_not_lt this]
      | generic =>
        have : ¬ k < st.length := by rw [hst (by decide)]; exact hk'
        simp [Nat.le_of_not_lt this]

variable [OfNat α 0] [OfNat α 1] [OfNat α 2] [OfNat α 3] [OfNat α 4] [OfNat α 6] [OfNat α 12]
variable [Add α] [Sub α] [Mul α] [Div α] [Neg α]
variable [LT α] [DecidableRel (fun a b : α => a < b)]

/-- common core: an interface whose parameter values are `pv` returns the declared law on `pv` -/
theorem eval_core (i : Iface) (d : Desc α) (hwf : d.WF) (args : List α)
    (hargs : args.length = d.inputs.length) (ov : List (String × α))
    (hst : i ≠ .c → ((gen i d).store ov).length = d.params.length) :
    (gen i d).eval args ov
      = d.evalLaw args (if i = .c then d.defaults else (gen i d).store ov) := by
  have hn : (gen i d).nargs = d.inputs.length := by cases i <;> rfl
  have hret : (gen i d).ret = (gen i d).out := by cases i <;> rfl
  have hlaw : (gen i d).law = genLaw d := by cases i <;> rfl
  unfold IR.eval Desc.evalLaw
  rw [hn, if_neg (by simp [hargs]), hret, hlaw]
  simp only [BEq.rfl, if_true]
  have henv := env_spec i d hwf args ((gen i d).store ov) hst hargs
  unfold genLaw
  cases hl : d.law with
  | fn body =>
    simp only []
    rw [runBody_map]
    exact runBody_congr _ _ _ _ (fun c r => henv c r)
  | const v => rfl
  | linear e pts =>
    simp only []
    have := henv Ops.zero (.inp 0)
    simp only [nameOf, refEnv] at this
    rw [this]
  | spline e pts =>
    simp only []
    have := henv Ops.zero (.inp 0)
    simp only [nameOf, refEnv] at this
    rw [this]


end main
end TfelVerif.C37
