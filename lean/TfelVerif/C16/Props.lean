/- C16 — IEEE-754 classification is bit-exact for every value.
   `Gen.*` are regenerated on every run from include/TFEL/Math/General/IEEE754.ixx (T3, harness/C16/t3.py);
   `spec32/spec64/specX87` are the hand-written field semantics of Spec.lean.
   Every theorem quantifies over ALL bit patterns of the width (2^32, 2^64, 2^80 values): the proofs go
   through `BitVec.toNat` and linear arithmetic with div/mod by literals — nothing is enumerated. -/
import TfelVerif.C16.Lemmas
namespace TfelVerif.C16
open Gen

/-! ### fpclassify returns the code of the IEEE-754 class, for every encoding -/

theorem fpclassify_f32_spec (x : BitVec 32) : fpclassify_f32 x = (spec32 x).code := by
  c16_bits [fpclassify_f32]

theorem fpclassify_f64_spec (x : BitVec 64) : fpclassify_f64 x = (spec64 x).code := by
  c16_bits [fpclassify_f64]

/-- x87 80-bit long double, unnormal / pseudo-denormal encodings classified as glibc does -/
theorem fpclassify_x87_spec (x : BitVec 80) : fpclassify_x87 x = (specX87 x).code := by
  c16_bits [fpclassify_x87]

-- non-vacuity: the five classes are all reached, and the x87 non-canonical encodings are as documented
example : spec32 0x00000000#32 = .zero ∧ spec32 0x80000001#32 = .subnormal ∧ spec32 0x3f800000#32 = .normal ∧
    spec32 0xff800000#32 = .inf ∧ spec32 0x7fc00000#32 = .nan ∧ spec32 0x7f800001#32 = .nan := by decide
example : spec64 0x8000000000000000#64 = .zero ∧ spec64 0x000fffffffffffff#64 = .subnormal ∧
    spec64 0x0010000000000000#64 = .normal ∧ spec64 0x7ff0000000000000#64 = .inf ∧
    spec64 0xfff0000000000001#64 = .nan := by decide
example : specX87 0x3fff8000000000000000#80 = .normal ∧ specX87 0x7fff8000000000000000#80 = .inf ∧
    specX87 0x7fffc000000000000000#80 = .nan ∧ specX87 0x00000000000000000001#80 = .subnormal ∧
    specX87 0x00008000000000000000#80 = .normal /- pseudo-denormal -/ ∧
    specX87 0x3fff0000000000000001#80 = .nan /- unnormal -/ ∧
    specX87 0x7fff0000000000000000#80 = .nan /- pseudo-infinity -/ ∧
    specX87 0x00010000000000000000#80 = .nan /- pseudo-zero with non-zero exponent -/ := by decide

/-- the integer codes determine the class (FP_* are pairwise distinct) -/
theorem code_injective (a b : Cls) (h : a.code = b.code) : a = b := by
  cases a <;> cases b <;> first | rfl | (exfalso; revert h; decide)

/-- the contract-violation branch of the long double overload (big-endian host) is never taken -/
theorem fpclassify_x87_no_abort (x : BitVec 80) : fpclassify_x87 x ≠ ABORT := by
  rw [fpclassify_x87_spec]; cases specX87 x <;> decide

/-! ### isnan ⇔ the class is NaN -/

theorem isnan_f32_spec (x : BitVec 32) : isnan_f32 x = decide (spec32 x = .nan) := by
  simp only [isnan_f32, fpclassify_f32_spec]; cases spec32 x <;> decide

theorem isnan_f64_spec (x : BitVec 64) : isnan_f64 x = decide (spec64 x = .nan) := by
  simp only [isnan_f64, fpclassify_f64_spec]; cases spec64 x <;> decide

theorem isnan_x87_spec (x : BitVec 80) : isnan_x87 x = decide (specX87 x = .nan) := by
  simp only [isnan_x87, fpclassify_x87_spec]; cases specX87 x <;> decide

/-! ### isfinite ⇔ the class is zero, subnormal or normal ⇔ neither infinite nor NaN -/

theorem isfinite_f32_spec (x : BitVec 32) : isfinite_f32 x = (spec32 x).isFinite := by
  simp only [isfinite_f32, fpclassify_f32_spec]; cases spec32 x <;> decide

theorem isfinite_f64_spec (x : BitVec 64) : isfinite_f64 x = (spec64 x).isFinite := by
  simp only [isfinite_f64, fpclassify_f64_spec]; cases spec64 x <;> decide

theorem isfinite_x87_spec (x : BitVec 80) : isfinite_x87 x = (specX87 x).isFinite := by
  simp only [isfinite_x87, fpclassify_x87_spec]; cases specX87 x <;> decide

theorem isFinite_iff (c : Cls) : c.isFinite = true ↔ c ≠ .inf ∧ c ≠ .nan := by
  cases c <;> decide

/-- the three generated predicates are mutually coherent on every encoding -/
theorem isfinite_f32_iff (x : BitVec 32) :
    isfinite_f32 x = true ↔ fpclassify_f32 x ≠ FP_INFINITE ∧ isnan_f32 x = false := by
  rw [isfinite_f32_spec, isnan_f32_spec, fpclassify_f32_spec]; cases spec32 x <;> decide

theorem isfinite_f64_iff (x : BitVec 64) :
    isfinite_f64 x = true ↔ fpclassify_f64 x ≠ FP_INFINITE ∧ isnan_f64 x = false := by
  rw [isfinite_f64_spec, isnan_f64_spec, fpclassify_f64_spec]; cases spec64 x <;> decide

theorem isfinite_x87_iff (x : BitVec 80) :
    isfinite_x87 x = true ↔ fpclassify_x87 x ≠ FP_INFINITE ∧ isnan_x87 x = false := by
  rw [isfinite_x87_spec, isnan_x87_spec, fpclassify_x87_spec]; cases specX87 x <;> decide

/-! ### the sign bit never matters: the class is a function of the encoding without its top bit -/

theorem fpclassify_f32_sign (x : BitVec 32) :
    fpclassify_f32 x = (classify 8 23 (x.toNat % 2 ^ 31)).code := by
  rw [fpclassify_f32_spec]; congr 1
  simp only [spec32, classify]
  repeat' split
  all_goals first | rfl | (exfalso; omega)

theorem fpclassify_f64_sign (x : BitVec 64) :
    fpclassify_f64 x = (classify 11 52 (x.toNat % 2 ^ 63)).code := by
  rw [fpclassify_f64_spec]; congr 1
  simp only [spec64, classify]
  repeat' split
  all_goals first | rfl | (exfalso; omega)

theorem fpclassify_x87_sign (x : BitVec 80) :
    fpclassify_x87 x = (classifyX87 (x.toNat % 2 ^ 79)).code := by
  rw [fpclassify_x87_spec]; congr 1
  simp only [specX87, classifyX87]
  repeat' split
  all_goals first | rfl | (exfalso; omega)

end TfelVerif.C16
