/- C16 — independent reference: IEEE-754 classes from the encoding fields (hand-written, core Lean only).

   binary32/binary64 (IEEE 754-2019 §3.4): with biased exponent field `e` (w bits) and trailing
   significand field `t` (p-1 bits):  e = 0 ∧ t = 0 → zero; e = 0 ∧ t ≠ 0 → subnormal;
   e = 2^w-1 ∧ t = 0 → infinity; e = 2^w-1 ∧ t ≠ 0 → NaN; otherwise normal. The sign bit plays no role.

   x87 double-extended (80 bits: sign, 15-bit exponent `e`, explicit integer bit `j`, 63-bit fraction `f`),
   conventions of glibc ≥ 2.33 `__fpclassifyl` (sysdeps/i386/fpu/s_fpclassifyl.c, shared by x86_64):
     e = 0, j = 0          : zero (f = 0) or subnormal (f ≠ 0)
     e = 0, j = 1          : pseudo-denormal → FP_NORMAL
     e ≠ 0, j = 0          : unnormal / pseudo-infinity / pseudo-NaN ("pseudo-normal ... behave like NaNs") → FP_NAN
     e = 0x7fff, j = 1     : infinity (f = 0) or NaN (f ≠ 0)
     otherwise             : normal -/
namespace TfelVerif.C16

inductive Cls where
  | nan | inf | zero | subnormal | normal
  deriving DecidableEq, Repr

/-- class of a binary interchange format with `w` exponent bits and `t` trailing significand bits;
    `n` is the encoding read as a natural number (the sign bit, bit `w+t`, is ignored) -/
def classify (w t n : Nat) : Cls :=
  let e := (n / 2 ^ t) % 2 ^ w
  let m := n % 2 ^ t
  if e = 0 then (if m = 0 then .zero else .subnormal)
  else if e = 2 ^ w - 1 then (if m = 0 then .inf else .nan)
  else .normal

def spec32 (b : BitVec 32) : Cls := classify 8 23 b.toNat
def spec64 (b : BitVec 64) : Cls := classify 11 52 b.toNat

/-- x87 80-bit extended format, glibc conventions for the non-canonical encodings -/
def classifyX87 (n : Nat) : Cls :=
  let e := (n / 2 ^ 64) % 2 ^ 15
  let j := (n / 2 ^ 63) % 2
  let f := n % 2 ^ 63
  if e = 0 then
    if j = 0 then (if f = 0 then .zero else .subnormal)
    else .normal                      -- pseudo-denormal
  else if j = 0 then .nan             -- unnormal, pseudo-infinity, pseudo-NaN
  else if e = 2 ^ 15 - 1 then (if f = 0 then .inf else .nan)
  else .normal

def specX87 (b : BitVec 80) : Cls := classifyX87 b.toNat

def Cls.isFinite : Cls → Bool
  | .zero | .subnormal | .normal => true
  | .nan | .inf => false

end TfelVerif.C16
