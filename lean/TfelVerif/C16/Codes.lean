/- C16 — the integer codes of the classes on this platform (FP_* of <math.h>, dumped into Gen by the translator) -/
import TfelVerif.C16.Gen
import TfelVerif.C16.Spec
namespace TfelVerif.C16

def Cls.code : Cls → BitVec 32
  | .nan => Gen.FP_NAN
  | .inf => Gen.FP_INFINITE
  | .zero => Gen.FP_ZERO
  | .subnormal => Gen.FP_SUBNORMAL
  | .normal => Gen.FP_NORMAL

end TfelVerif.C16
