/- C16 — evaluates the GENERATED definitions and the hand-written spec on bit patterns (line protocol).
   Used (a) to validate the T3 translation against the real functions on every run and (b) to find a
   concrete bit pattern when a `gen = spec` theorem no longer checks.
   in : `f32 <8 hex>` | `f64 <16 hex>` | `x87 <20 hex>`
   out: `<ty> <hex> <gen fpclassify> <gen isnan> <gen isfinite> spec <code> <isnan> <isfinite>` -/
import TfelVerif.C16.Codes
open TfelVerif.C16

def hexVal (s : String) : Option Nat :=
  s.foldl (fun acc c =>
    match acc with
    | none => none
    | some n =>
      if c.isDigit then some (16 * n + (c.toNat - '0'.toNat))
      else if 'a' ≤ c ∧ c ≤ 'f' then some (16 * n + (c.toNat - 'a'.toNat + 10))
      else if 'A' ≤ c ∧ c ≤ 'F' then some (16 * n + (c.toNat - 'A'.toNat + 10))
      else none) (some 0)

def b2s (b : Bool) : String := if b then "1" else "0"

def row (g : BitVec 32) (n f : Bool) (c : Cls) : String :=
  s!"{g.toNat} {b2s n} {b2s f} spec {c.code.toNat} {b2s (decide (c = .nan))} {b2s c.isFinite}"

def answer (line : String) : String :=
  match (line.trimAscii.toString.splitOn " ").filter (· ≠ "") with
  | [ty, h] =>
    match hexVal h with
    | none => "bad-op"
    | some v =>
      match ty with
      | "f32" => let x := BitVec.ofNat 32 v
                 s!"f32 {h} " ++ row (Gen.fpclassify_f32 x) (Gen.isnan_f32 x) (Gen.isfinite_f32 x) (spec32 x)
      | "f64" => let x := BitVec.ofNat 64 v
                 s!"f64 {h} " ++ row (Gen.fpclassify_f64 x) (Gen.isnan_f64 x) (Gen.isfinite_f64 x) (spec64 x)
      | "x87" => let x := BitVec.ofNat 80 v
                 s!"x87 {h} " ++ row (Gen.fpclassify_x87 x) (Gen.isnan_x87 x) (Gen.isfinite_x87 x) (specX87 x)
      | _ => "bad-op"
  | _ => "bad-op"

partial def loop (h : IO.FS.Stream) : IO Unit := do
  let line ← h.getLine
  if line.isEmpty then return ()
  IO.println (answer line)
  loop h

def main : IO Unit := do loop (← IO.getStdin)
