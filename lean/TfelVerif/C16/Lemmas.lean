/- C16 — helper lemmas: BitVec comparisons/masks as `Nat` facts, and the tactic used by every
   `gen = spec` theorem (unfold, move to `BitVec.toNat`, case split, `omega`; no enumeration). -/
import TfelVerif.C16.Codes
namespace TfelVerif.C16

theorem bne_toNat {w} (a b : BitVec w) : ((a != b) = true) ↔ a.toNat ≠ b.toNat := by
  simp [bne_iff_ne, BitVec.toNat_inj]
theorem beq_toNat {w} (a b : BitVec w) : ((a == b) = true) ↔ a.toNat = b.toNat := by
  simp [BitVec.toNat_inj]
theorem bne_false_toNat {w} (a b : BitVec w) : ((a != b) = false) ↔ a.toNat = b.toNat := by
  simp [BitVec.toNat_inj]
theorem beq_false_toNat {w} (a b : BitVec w) : ((a == b) = false) ↔ a.toNat ≠ b.toNat := by
  simp [BitVec.toNat_inj]

/-- masks `2^k - 1` written as literals in the sources: `& 0xff`, `& 0x7ff`, `& 0x7fff`, … -/
theorem and_mask (x k : Nat) : x &&& (2 ^ k - 1) = x % 2 ^ k := Nat.and_two_pow_sub_one_eq_mod x k
theorem and_0x1 (n : Nat) : n &&& 1 = n % 2 := and_mask n 1
theorem and_0x7f (n : Nat) : n &&& 127 = n % 128 := and_mask n 7
theorem and_0xff (n : Nat) : n &&& 255 = n % 256 := and_mask n 8
theorem and_0x1ff (n : Nat) : n &&& 511 = n % 512 := and_mask n 9
theorem and_0x3ff (n : Nat) : n &&& 1023 = n % 1024 := and_mask n 10
theorem and_0x7ff (n : Nat) : n &&& 2047 = n % 2048 := and_mask n 11
theorem and_0xfff (n : Nat) : n &&& 4095 = n % 4096 := and_mask n 12
theorem and_0x3fff (n : Nat) : n &&& 16383 = n % 16384 := and_mask n 14
theorem and_0x7fff (n : Nat) : n &&& 32767 = n % 32768 := and_mask n 15
theorem and_0xffff (n : Nat) : n &&& 65535 = n % 65536 := and_mask n 16

/-- step 1: evaluate closed sub-terms (the endianness probe), step 2: every BitVec test becomes a
    statement about `toNat` with shifts as `/`, `*`, `%` by literals, step 3: split every `if`, `omega`. -/
syntax "c16_bits" (" [" Lean.Parser.Tactic.simpLemma,* "]")? : tactic
macro_rules
  | `(tactic| c16_bits $[[$defs,*]]?) => do
    let defs := (defs.map (·.getElems)).getD #[]
    `(tactic|
      (simp only [$defs,*, BitVec.reduceExtractLsb', BitVec.reduceSignExtend, BitVec.reduceSetWidth,
          BitVec.reduceBNe, BitVec.reduceBEq, BitVec.reduceAnd, BitVec.reduceOr, BitVec.reduceNot,
          BitVec.reduceHShiftLeft, BitVec.reduceHShiftRight,
          Bool.not_true, Bool.not_false, Bool.false_eq_true, if_false, if_true]
       simp only [spec32, spec64, specX87, classify, classifyX87,
          Bool.not_eq_true', bne_toNat, beq_toNat, bne_false_toNat, beq_false_toNat,
          Bool.and_eq_true, Bool.or_eq_true, Bool.not_eq_eq_eq_not, Bool.not_true, Bool.not_false,
          BitVec.toNat_and, BitVec.toNat_or, BitVec.toNat_ushiftRight, BitVec.toNat_shiftLeft, BitVec.toNat_ofNat,
          BitVec.toNat_setWidth, BitVec.extractLsb'_toNat, BitVec.toNat_signExtend,
          Nat.shiftRight_eq_div_pow, Nat.shiftLeft_eq]
       simp only [Nat.reducePow, Nat.reduceMod, Nat.reduceDiv, Nat.reduceMul, Nat.div_one, Nat.mul_one,
          and_0x1, and_0x7f, and_0xff, and_0x1ff, and_0x3ff, and_0x7ff, and_0xfff, and_0x3fff, and_0x7fff, and_0xffff]
       repeat' split
       all_goals first | rfl | (exfalso; omega)))

end TfelVerif.C16
