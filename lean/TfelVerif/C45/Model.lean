/-
  C45 — exported library metadata matches the declarations.

  Hand-written executable model (core Lean only) of
    * the symbol scheme written by mfront for one block of declarations (`SymbolsGenerator.cxx`
      generateSymbols, `CodeGeneratorUtilities.cxx` writeParametersDeclarationSymbols /
      writeParametersDefaultValuesSymbols / writeBoundsSymbols / writePhysicalBoundsSymbols,
      writeVariablesNamesSymbol / writeVariablesBoundsSymbols for material properties):
      `emit prefix block`, a table  flat symbol name ↦ value, `prefix` being `<lib function>` or
      `<lib function>_<Hypothesis>`;
    * the readers of `src/System/ExternalLibraryManager.cxx` (getUMATNames, getUMATTypes,
      has/get{Lower,Upper}{,Physical}Bound, getRealParameterDefaultValue, decomposeVariableName,
      the `<f>_<h>_…` then `<f>_…` lookup order).
  Names are lists of characters (the flat text of the symbol), so that the way both sides build
  the text is part of the model: `varSym` (writer) and `readSym` (reader) are different functions.
  Intended scheme: one `_` between the variable part and the suffix, for array elements too.
-/
namespace TfelVerif.C45

abbrev Name := List Char

def digits (n : Nat) : Name := Nat.toDigits 10 n
def idxTag : Name := "_mfront_index_".toList

/-- external name of the element `i` of an array variable, as listed in the names arrays: `ext[i]` -/
def elemName (ext : Name) (i : Nat) : Name := ext ++ '[' :: (digits i ++ [']'])

/-- characters before the first `[`, and the rest (starting at `[`, or empty) -/
def untilBracket : Name → Name × Name
  | [] => ([], [])
  | c :: cs => if c = '[' then ([], c :: cs) else ((c :: (untilBracket cs).1), (untilBracket cs).2)

/-- leading decimal digits, and the rest -/
def takeDigits : Name → Name × Name
  | [] => ([], [])
  | c :: cs => if c.isDigit then ((c :: (takeDigits cs).1), (takeDigits cs).2) else ([], c :: cs)

/-- `decomposeVariableName` of ExternalLibraryManager.cxx: `a` ↦ `a`, `a[12]` ↦ `a_mfront_index_12`,
anything else with a `[` is rejected (`none` = exception) -/
def decompose (n : Name) : Option Name :=
  match untilBracket n with
  | (_, []) => some n
  | (pre, _ :: rest) =>
    match takeDigits rest with
    | ([], _) => none
    | (ds, [c]) => if c = ']' then some (pre ++ idxTag ++ ds) else none
    | _ => none

/-! ### declarations -/

structure Bnd (β : Type) where
  lo : Option β
  hi : Option β
  deriving Inhabited

/-- a declared variable: external name, type identifier (0 scalar, 1 symmetric tensor, 2 vector,
3 tensor), array size, bounds, physical bounds (glossary-inherited ones included) -/
structure VarD (β : Type) where
  ext : Name
  ty : Int
  size : Nat
  bounds : Option (Bnd β)
  phys : Option (Bnd β)
  deriving Inhabited

/-- a (real) parameter: the variable and one default value per element -/
structure ParD (β : Type) where
  var : VarD β
  dflt : List β
  deriving Inhabited

structure Block (β : Type) where
  mps : List (VarD β)
  isvs : List (VarD β)
  esvs : List (VarD β)
  pars : List (ParD β)
  /-- variables that are not listed in any names array but whose bounds are exported (the
  temperature when it is removed from the external state variables) -/
  hidden : List (VarD β) := []
  deriving Inhabited

inductive Val (β : Type) where
  | num (n : Nat)
  | strs (l : List Name)
  | ints (l : List Int)
  | real (x : β)
  deriving Inhabited

abbrev SymTab (β : Type) := List (Name × Val β)

variable {β : Type}

/-- elements of a variable: `none` for a scalar declaration, `some i` for `v[i]` -/
def elems (size : Nat) : List (Option Nat) :=
  if size = 1 then [none] else (List.range size).map some

/-- name of an element in the names arrays -/
def listedName (ext : Name) : Option Nat → Name
  | none => ext
  | some i => elemName ext i

/-- variable part of a symbol name, writer side -/
def symVar (ext : Name) : Option Nat → Name
  | none => ext
  | some i => ext ++ idxTag ++ digits i

/-- flat symbol name written for an element: `<p>_<var part>_<suffix>` -/
def varSym (p ext : Name) (e : Option Nat) (sfx : String) : Name :=
  p ++ '_' :: (symVar ext e ++ '_' :: sfx.toList)

/-- flat symbol name built by the reader from a listed name -/
def readSym (p n : Name) (sfx : String) : Option Name :=
  (decompose n).map fun vn => p ++ '_' :: (vn ++ '_' :: sfx.toList)

def catSym (p : Name) (s : String) : Name := p ++ '_' :: s.toList

def expandNames (vs : List (VarD β)) : List Name :=
  vs.flatMap fun v => (elems v.size).map (listedName v.ext)

def expandTypes (vs : List (VarD β)) : List Int :=
  vs.flatMap fun v => List.replicate v.size v.ty

def totalSize (vs : List (VarD β)) : Nat := (vs.map (·.size)).sum

/-- the four bound slots of every element of a variable (a slot without value is not written) -/
def bndSlots (p : Name) (v : VarD β) : List (Name × Option (Val β)) :=
  (elems v.size).flatMap fun e =>
    [ (varSym p v.ext e "LowerBound", (v.bounds.bind (·.lo)).map Val.real),
      (varSym p v.ext e "UpperBound", (v.bounds.bind (·.hi)).map Val.real),
      (varSym p v.ext e "LowerPhysicalBound", (v.phys.bind (·.lo)).map Val.real),
      (varSym p v.ext e "UpperPhysicalBound", (v.phys.bind (·.hi)).map Val.real) ]

def dfltSlots (p : Name) (q : ParD β) : List (Name × Option (Val β)) :=
  if q.var.size = 1 then [(varSym p q.var.ext none "ParameterDefaultValue", (q.dflt[0]?).map Val.real)]
  else (List.range q.var.size).map fun i =>
    (varSym p q.var.ext (some i) "ParameterDefaultValue", (q.dflt[i]?).map Val.real)

def pvars (b : Block β) : List (VarD β) := b.pars.map (·.var)
def allVars (b : Block β) : List (VarD β) := b.mps ++ b.isvs ++ b.esvs ++ pvars b ++ b.hidden

/-- every symbol slot of a block: arrays first, then the per-variable slots -/
def slots (p : Name) (b : Block β) : List (Name × Option (Val β)) :=
  [ (catSym p "nMaterialProperties", some (.num (totalSize b.mps))),
    (catSym p "MaterialProperties", some (.strs (expandNames b.mps))),
    (catSym p "nInternalStateVariables", some (.num (totalSize b.isvs))),
    (catSym p "InternalStateVariables", some (.strs (expandNames b.isvs))),
    (catSym p "InternalStateVariablesTypes", some (.ints (expandTypes b.isvs))),
    (catSym p "nExternalStateVariables", some (.num (totalSize b.esvs))),
    (catSym p "ExternalStateVariables", some (.strs (expandNames b.esvs))),
    (catSym p "ExternalStateVariablesTypes", some (.ints (expandTypes b.esvs))),
    (catSym p "nParameters", some (.num (totalSize (pvars b)))),
    (catSym p "Parameters", some (.strs (expandNames (pvars b)))),
    (catSym p "ParametersTypes", some (.ints (expandTypes (pvars b)))) ]
  ++ b.pars.flatMap (dfltSlots p)
  ++ (allVars b).flatMap (bndSlots p)

/-- the symbols written for a block -/
def emit (p : Name) (b : Block β) : SymTab β :=
  (slots p b).filterMap fun s => s.2.map fun v => (s.1, v)

/-! ### readers -/

def lookup (t : SymTab β) (k : Name) : Option (Val β) := (t.find? (fun s => s.1 == k)).map (·.2)

/-- `<f>_<h>_…` first, then `<f>_…` -/
def lookup2 (t : SymTab β) (k₁ k₂ : Name) : Option (Val β) :=
  match lookup t k₁ with
  | some v => some v
  | none => lookup t k₂

def getNum (t : SymTab β) (k : Name) : Option Nat :=
  match lookup t k with | some (.num n) => some n | _ => none
def getStrs (t : SymTab β) (k : Name) : Option (List Name) :=
  match lookup t k with | some (.strs l) => some l | _ => none
def getInts (t : SymTab β) (k : Name) : Option (List Int) :=
  match lookup t k with | some (.ints l) => some l | _ => none
def getReal (t : SymTab β) (k : Name) : Option β :=
  match lookup t k with | some (.real x) => some x | _ => none

/-- getUMATNames: `n<cat>` entries of the array `<cat>` -/
def readNames (t : SymTab β) (p : Name) (cat : String) : Option (List Name) :=
  match getNum t (catSym p ("n" ++ cat)), getStrs t (catSym p cat) with
  | some n, some l => some (l.take n)
  | _, _ => none

/-- getUMATTypes -/
def readTypes (t : SymTab β) (p : Name) (cat : String) : Option (List Int) :=
  match getNum t (catSym p ("n" ++ cat)), getInts t (catSym p (cat ++ "Types")) with
  | some n, some l => some (l.take n)
  | _, _ => none

/-- has<sfx> / get<sfx> for the listed name `n` (sfx = LowerBound, …, ParameterDefaultValue):
`none` = no such symbol (has… = false, get… raises) -/
def readValue (t : SymTab β) (p n : Name) (sfx : String) : Option β :=
  (readSym p n sfx).bind (getReal t)

end TfelVerif.C45

namespace TfelVerif.C45
variable {β : Type}

/-! ### readers with the hypothesis-specialised prefix first (`<f>_<h>_…` then `<f>_…`) -/

def readNames2 (t : SymTab β) (ph p : Name) (cat : String) : Option (List Name) :=
  match lookup2 t (catSym ph ("n" ++ cat)) (catSym p ("n" ++ cat)),
        lookup2 t (catSym ph cat) (catSym p cat) with
  | some (.num n), some (.strs l) => some (l.take n)
  | _, _ => none

def readTypes2 (t : SymTab β) (ph p : Name) (cat : String) : Option (List Int) :=
  match lookup2 t (catSym ph ("n" ++ cat)) (catSym p ("n" ++ cat)),
        lookup2 t (catSym ph (cat ++ "Types")) (catSym p (cat ++ "Types")) with
  | some (.num n), some (.ints l) => some (l.take n)
  | _, _ => none

def readValue2 (t : SymTab β) (ph p n : Name) (sfx : String) : Option β :=
  match readSym ph n sfx, readSym p n sfx with
  | some k₁, some k₂ => match lookup2 t k₁ k₂ with | some (.real x) => some x | _ => none
  | _, _ => none

end TfelVerif.C45
