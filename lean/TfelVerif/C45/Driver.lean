/- line-protocol driver of the C45 model (values are `Float` = C double, written as 16 hex digits).

   emit <p> <block>                 -> the symbol table `emit p block`, sorted by symbol name:
                                       name=u:<n> | name=s:<a>,<b>,.. | name=i:<k>,.. | name=r:<bits>
   read <p> <block>                 -> what the readers return on `emit p block`
   read2 <f> <h> <common> <special> -> readers for hypothesis h on `emit f common ++ emit f_h special`
   wf <p> <block>                   -> ok | collision:<name> | bracket:<name> | size:<name>

   <block> := M n <var>* I n <var>* E n <var>* P n (<var> k <bits>*)* H n <var>*
   <var>   := <ext> <type id> <size> <bnd> <bnd>          (bounds, physical bounds)
   <bnd>   := n | b <lo> <hi>       with <lo>,<hi> = - or 16 hex digits -/
import TfelVerif.C45.Model
open TfelVerif.C45

abbrev P := StateT (List String) Option

def tok : P String := do
  match (← get) with
  | [] => failure
  | t :: r => set r; pure t

def hexDigit (c : Char) : Option Nat :=
  if '0' ≤ c ∧ c ≤ '9' then some (c.toNat - '0'.toNat)
  else if 'a' ≤ c ∧ c ≤ 'f' then some (c.toNat - 'a'.toNat + 10)
  else none

def parseHex (s : String) : Option Nat :=
  s.toList.foldl (fun acc c => match acc, hexDigit c with
                               | some a, some d => some (16 * a + d)
                               | _, _ => none) (some 0)

def num : P Float := do
  match parseHex (← tok) with
  | some n => pure (Float.ofBits n.toUInt64)
  | none => failure

def onum : P (Option Float) := do
  let t ← tok
  if t == "-" then pure none
  else match parseHex t with
    | some n => pure (some (Float.ofBits n.toUInt64))
    | none => failure

def nat : P Nat := do
  match (← tok).toNat? with
  | some n => pure n
  | none => failure

def int : P Int := do
  match (← tok).toInt? with
  | some n => pure n
  | none => failure

def rep {γ : Type} (p : P γ) : Nat → P (List γ)
  | 0 => pure []
  | n + 1 => do let x ← p; let r ← rep p n; pure (x :: r)

def expect (s : String) : P Unit := do
  if (← tok) == s then pure () else failure

def bnd : P (Option (Bnd Float)) := do
  match (← tok) with
  | "n" => pure none
  | "b" => do let lo ← onum; let hi ← onum; pure (some { lo := lo, hi := hi })
  | _ => failure

def var : P (VarD Float) := do
  let ext ← tok; let ty ← int; let size ← nat; let b ← bnd; let ph ← bnd
  pure { ext := ext.toList, ty := ty, size := size, bounds := b, phys := ph }

def par : P (ParD Float) := do
  let v ← var
  let d ← rep num (← nat)
  pure { var := v, dflt := d }

def block : P (Block Float) := do
  expect "M"; let m ← rep var (← nat)
  expect "I"; let i ← rep var (← nat)
  expect "E"; let e ← rep var (← nat)
  expect "P"; let p ← rep par (← nat)
  expect "H"; let h ← rep var (← nat)
  pure { mps := m, isvs := i, esvs := e, pars := p, hidden := h }

def hex16 (n : UInt64) : String :=
  let ds := (Nat.toDigits 16 n.toNat)
  String.ofList (List.replicate (16 - ds.length) '0' ++ ds)

def showF (x : Float) : String := if x.isNaN then "nan" else hex16 x.toBits
def showOF : Option Float → String
  | some x => showF x
  | none => "-"

def showVal : Val Float → String
  | .num n => s!"u:{n}"
  | .strs l => "s:" ++ ",".intercalate (l.map String.ofList)
  | .ints l => "i:" ++ ",".intercalate (l.map toString)
  | .real x => "r:" ++ showF x

def insertSorted (x : String) : List String → List String
  | [] => [x]
  | y :: ys => if x < y then x :: y :: ys else y :: insertSorted x ys

def sortStrings (l : List String) : List String := l.foldl (fun acc x => insertSorted x acc) []

def showTab (t : SymTab Float) : String :=
  ";".intercalate (sortStrings (t.map fun s => String.ofList s.1 ++ "=" ++ showVal s.2))

def showNames : Option (List Name) → String
  | some l => ",".intercalate (l.map String.ofList)
  | none => "?"
def showInts : Option (List Int) → String
  | some l => ",".intercalate (l.map toString)
  | none => "?"

def cats : List (String × Bool) :=
  [("MaterialProperties", false), ("InternalStateVariables", true), ("ExternalStateVariables", true), ("Parameters", true)]

def sfxs : List String := ["LowerBound", "UpperBound", "LowerPhysicalBound", "UpperPhysicalBound"]

/-- answers of the readers for one block; `rn`, `rt`, `rv` are the three readers -/
def showRead (b : Block Float) (rn : String → Option (List Name)) (rt : String → Option (List Int))
    (rv : Name → String → Option Float) : String :=
  let arrays := cats.map fun (c, typed) =>
    s!"names:{c}=" ++ showNames (rn c) ++ (if typed then s!";types:{c}=" ++ showInts (rt c) else "")
  let listed (vs : List (VarD Float)) : List Name := expandNames vs
  let vars := (listed (b.mps ++ b.isvs ++ b.esvs ++ b.hidden)).map fun n =>
    "v:" ++ String.ofList n ++ "=" ++ ",".intercalate (sfxs.map fun s => showOF (rv n s))
  let pars := (listed (pvars b)).map fun n =>
    "v:" ++ String.ofList n ++ "=" ++ ",".intercalate ((sfxs ++ ["ParameterDefaultValue"]).map fun s => showOF (rv n s))
  ";".intercalate (arrays ++ vars ++ pars)

def firstDup : List Name → Option Name
  | [] => none
  | x :: xs => if xs.contains x then some x else firstDup xs

def request : P String := do
  match (← tok) with
  | "emit" => do
    let p ← tok; let b ← block
    return showTab (emit p.toList b)
  | "read" => do
    let p ← tok; let b ← block
    let t := emit p.toList b
    return showRead b (readNames t p.toList) (readTypes t p.toList) (readValue t p.toList)
  | "read2" => do
    let f ← tok; let h ← tok; let c ← block; let s ← block
    let ph := (f ++ "_" ++ h).toList
    let t := emit f.toList c ++ emit ph s
    return showRead s (readNames2 t ph f.toList) (readTypes2 t ph f.toList) (readValue2 t ph f.toList)
  | "wf" => do
    let p ← tok; let b ← block
    match (allVars b).find? (fun v => v.ext.contains '[') with
    | some v => return "bracket:" ++ String.ofList v.ext
    | none =>
      match (allVars b).find? (fun v => v.size == 0) with
      | some v => return "size:" ++ String.ofList v.ext
      | none =>
        match firstDup ((slots p.toList b).map (·.1)) with
        | some n => return "collision:" ++ String.ofList n
        | none => return "ok"
  | _ => failure

def answer (line : String) : String :=
  let toks := (line.splitOn " ").filter (fun t => t ≠ "")
  match request.run toks with
  | some (r, []) => r
  | _ => "bad-op"

partial def loop (h : IO.FS.Stream) : IO Unit := do
  let line ← h.getLine
  if line.isEmpty then return ()
  IO.println (answer ((line.replace "\n" "").replace "\r" ""))
  loop h

def main : IO Unit := do loop (← IO.getStdin)
