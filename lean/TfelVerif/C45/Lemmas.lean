/-
  C45 — helper lemmas: scanning of names, lookup in a table of written slots.
-/
import TfelVerif.C45.Model
namespace TfelVerif.C45

variable {β : Type}

/-! ### scanning -/

theorem untilBracket_plain (a : Name) (h : '[' ∉ a) : untilBracket a = (a, []) := by
  induction a with
  | nil => rfl
  | cons c cs ih =>
    have hc : c ≠ '[' := fun e => h (by simp [e])
    have hcs : '[' ∉ cs := fun e => h (by simp [e])
    simp [untilBracket, hc, ih hcs]

theorem untilBracket_append (a b : Name) (h : '[' ∉ a) :
    untilBracket (a ++ '[' :: b) = (a, '[' :: b) := by
  induction a with
  | nil => simp [untilBracket]
  | cons c cs ih =>
    have hc : c ≠ '[' := fun e => h (by simp [e])
    have hcs : '[' ∉ cs := fun e => h (by simp [e])
    simp [untilBracket, hc, ih hcs]

theorem takeDigits_append (ds r : Name) (c : Char) (hd : ∀ x ∈ ds, x.isDigit = true)
    (hc : c.isDigit = false) : takeDigits (ds ++ c :: r) = (ds, c :: r) := by
  induction ds with
  | nil => simp [takeDigits, hc]
  | cons x xs ih =>
    have hx : x.isDigit = true := hd x (by simp)
    have hxs : ∀ y ∈ xs, y.isDigit = true := fun y hy => hd y (by simp [hy])
    simp [takeDigits, hx, ih hxs]

theorem digits_isDigit (n : Nat) : ∀ c ∈ digits n, c.isDigit = true :=
  fun _ hc => Nat.isDigit_of_mem_toDigits (by decide) (by decide) hc

theorem digits_ne_nil (n : Nat) : digits n ≠ [] := Nat.toDigits_ne_nil

/-- the reader turns the listed name of an array element into the variable part the writer is
meant to use -/
theorem decompose_elem (ext : Name) (i : Nat) (h : '[' ∉ ext) :
    decompose (elemName ext i) = some (ext ++ idxTag ++ digits i) := by
  unfold decompose elemName
  rw [untilBracket_append ext _ h]
  simp only []
  rw [takeDigits_append (digits i) [] ']' (digits_isDigit i) (by decide)]
  cases hd : digits i with
  | nil => exact absurd hd (digits_ne_nil i)
  | cons d ds => simp

theorem decompose_plain (ext : Name) (h : '[' ∉ ext) : decompose ext = some ext := by
  unfold decompose
  rw [untilBracket_plain ext h]

/-! ### tables -/

theorem lookup_nil (k : Name) : lookup ([] : SymTab β) k = none := rfl

theorem lookup_cons (s : Name × Val β) (t : SymTab β) (k : Name) :
    lookup (s :: t) k = if s.1 = k then some s.2 else lookup t k := by
  unfold lookup
  by_cases h : s.1 = k
  · simp [List.find?, h]
  · have : (s.1 == k) = false := by simpa using h
    simp [List.find?, this, h]

def written (l : List (Name × Option (Val β))) : SymTab β :=
  l.filterMap fun s => s.2.map fun v => (s.1, v)

theorem lookup_written_absent (l : List (Name × Option (Val β))) (k : Name) (h : k ∉ l.map (·.1)) :
    lookup (written l) k = none := by
  induction l with
  | nil => rfl
  | cons s t ih =>
    have h1 : s.1 ≠ k := fun e => h (by simp [e])
    have h2 : k ∉ t.map (·.1) := fun e => h (by simp [e])
    cases hs : s.2 with
    | none => simpa [written, hs] using ih h2
    | some v =>
      have : written (s :: t) = (s.1, v) :: written t := by simp [written, hs]
      rw [this, lookup_cons]
      simp [h1, ih h2]

/-- in a table whose slot names are pairwise distinct, looking a slot up gives back what was put
in it (nothing when the slot was left empty) -/
theorem lookup_written (l : List (Name × Option (Val β))) (hd : (l.map (·.1)).Nodup)
    (k : Name) (ov : Option (Val β)) (hm : (k, ov) ∈ l) : lookup (written l) k = ov := by
  induction l with
  | nil => simp at hm
  | cons s t ih =>
    rw [List.map_cons, List.nodup_cons] at hd
    rcases List.mem_cons.mp hm with e | hmt
    · -- the slot is the head
      have hk : s.1 = k := by rw [← e]
      have hv : s.2 = ov := by rw [← e]
      have hnot : k ∉ t.map (·.1) := hk ▸ hd.1
      cases hov : ov with
      | none =>
        have : written (s :: t) = written t := by simp [written, hv, hov]
        rw [this]
        exact lookup_written_absent t k hnot
      | some v =>
        have : written (s :: t) = (s.1, v) :: written t := by simp [written, hv, hov]
        rw [this, lookup_cons]
        simp [hk]
    · -- the slot is in the tail: the head has another name
      have hne : s.1 ≠ k := by
        intro e
        apply hd.1
        rw [e]
        exact List.mem_map.mpr ⟨(k, ov), hmt, rfl⟩
      cases hs : s.2 with
      | none =>
        have : written (s :: t) = written t := by simp [written, hs]
        rw [this]
        exact ih hd.2 hmt
      | some v =>
        have : written (s :: t) = (s.1, v) :: written t := by simp [written, hs]
        rw [this, lookup_cons]
        simp [hne, ih hd.2 hmt]

theorem emit_eq_written (p : Name) (b : Block β) : emit p b = written (slots p b) := rfl

/-! ### sizes -/

theorem elems_length (n : Nat) (_h : 0 < n) : (elems n).length = n := by
  unfold elems
  split
  · next h1 => simp [h1]
  · simp

theorem expandNames_length (vs : List (VarD β)) (h : ∀ v ∈ vs, 0 < v.size) :
    (expandNames vs).length = totalSize vs := by
  induction vs with
  | nil => rfl
  | cons v t ih =>
    have hv : 0 < v.size := h v (by simp)
    have ht : ∀ w ∈ t, 0 < w.size := fun w hw => h w (by simp [hw])
    simp only [expandNames, List.flatMap_cons, List.length_append, List.length_map, totalSize,
      List.map_cons, List.sum_cons] at ih ⊢
    rw [elems_length v.size hv, ih ht]

theorem expandTypes_length (vs : List (VarD β)) : (expandTypes vs).length = totalSize vs := by
  induction vs with
  | nil => rfl
  | cons v t ih =>
    simp only [expandTypes, List.flatMap_cons, List.length_append, List.length_replicate, totalSize,
      List.map_cons, List.sum_cons] at ih ⊢
    rw [ih]

end TfelVerif.C45
