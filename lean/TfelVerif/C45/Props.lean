/-
  C45 — exported library metadata matches the declarations: property theorems.

  For EVERY block of declarations `b` (any number of material properties, internal / external
  state variables and parameters, any external names, type identifiers, array sizes, bounds,
  physical bounds and default values) written under ANY prefix `p` (`<f>` or `<f>_<Hypothesis>`):
  reading the symbols written by `emit p b` with the readers of ExternalLibraryManager gives back
  the declarations — the names arrays (array variables expanded as `v[i]`), the types arrays, and
  for every element of every variable its lower / upper bound, lower / upper physical bound and
  (parameters) default value, an undeclared item being reported absent.
  Hypothesis `Block.WF`: the flat names of the symbol slots are pairwise distinct (checked on every
  generated program by the driver), external names contain no `[`, array sizes are positive.
-/
import TfelVerif.C45.Spec
namespace TfelVerif.C45

variable {β : Type}

/-- **the two sides build the same symbol text**: the name the reader derives from a listed name
(`v` or `v[i]`) is the name the writer uses for that element. -/
theorem name_scheme (p ext : Name) (e : Option Nat) (sfx : String) (h : '[' ∉ ext) :
    readSym p (listedName ext e) sfx = some (varSym p ext e sfx) := by
  cases e with
  | none => simp [readSym, listedName, varSym, symVar, decompose_plain ext h]
  | some i => simp [readSym, listedName, varSym, symVar, decompose_elem ext i h]

/-- a listed name that is not of the form `v` or `v[digits]` is rejected by the reader -/
theorem decompose_rejects_unclosed (ext : Name) (h : '[' ∉ ext) (i : Nat) :
    decompose (ext ++ '[' :: digits i) = none := by
  unfold decompose
  rw [untilBracket_append ext _ h]
  simp only []
  have : takeDigits (digits i) = (digits i, []) := by
    have hd := digits_isDigit i
    generalize digits i = ds at hd
    induction ds with
    | nil => rfl
    | cons x xs ih =>
      have hx : x.isDigit = true := hd x (by simp)
      have hxs : ∀ y ∈ xs, y.isDigit = true := fun y hy => hd y (by simp [hy])
      simp [takeDigits, hx, ih hxs]
  rw [this]
  cases hd : digits i with
  | nil => rfl
  | cons d ds => rfl

section arrays

/-- names of the material properties, array variables expanded -/
theorem read_names_mps (p : Name) (b : Block β) (hwf : b.WF p) :
    readNames (emit p b) p "MaterialProperties" = some (expandNames b.mps) := by
  have h1 := lookup_head p b hwf _ _ (mem_head_slots p b (catSym p "nMaterialProperties") (.num (totalSize b.mps)) (by simp))
  have h2 := lookup_head p b hwf _ _ (mem_head_slots p b (catSym p "MaterialProperties") (.strs (expandNames b.mps)) (by simp))
  have hs : ∀ v ∈ b.mps, 0 < v.size := fun v hv => hwf.sizes v (by simp [allVars, hv])
  simp [readNames, getNum, getStrs, h1, h2, ← expandNames_length b.mps hs]

/-- names and types of the internal state variables -/
theorem read_names_isvs (p : Name) (b : Block β) (hwf : b.WF p) :
    readNames (emit p b) p "InternalStateVariables" = some (expandNames b.isvs) ∧
    readTypes (emit p b) p "InternalStateVariables" = some (expandTypes b.isvs) := by
  have h1 := lookup_head p b hwf _ _ (mem_head_slots p b (catSym p "nInternalStateVariables") (.num (totalSize b.isvs)) (by simp))
  have h2 := lookup_head p b hwf _ _ (mem_head_slots p b (catSym p "InternalStateVariables") (.strs (expandNames b.isvs)) (by simp))
  have h3 := lookup_head p b hwf _ _ (mem_head_slots p b (catSym p "InternalStateVariablesTypes") (.ints (expandTypes b.isvs)) (by simp))
  have hs : ∀ v ∈ b.isvs, 0 < v.size := fun v hv => hwf.sizes v (by simp [allVars, hv])
  constructor
  · simp [readNames, getNum, getStrs, h1, h2, ← expandNames_length b.isvs hs]
  · simp [readTypes, getNum, getInts, h1, h3, ← expandTypes_length b.isvs]

/-- names and types of the external state variables -/
theorem read_names_esvs (p : Name) (b : Block β) (hwf : b.WF p) :
    readNames (emit p b) p "ExternalStateVariables" = some (expandNames b.esvs) ∧
    readTypes (emit p b) p "ExternalStateVariables" = some (expandTypes b.esvs) := by
  have h1 := lookup_head p b hwf _ _ (mem_head_slots p b (catSym p "nExternalStateVariables") (.num (totalSize b.esvs)) (by simp))
  have h2 := lookup_head p b hwf _ _ (mem_head_slots p b (catSym p "ExternalStateVariables") (.strs (expandNames b.esvs)) (by simp))
  have h3 := lookup_head p b hwf _ _ (mem_head_slots p b (catSym p "ExternalStateVariablesTypes") (.ints (expandTypes b.esvs)) (by simp))
  have hs : ∀ v ∈ b.esvs, 0 < v.size := fun v hv => hwf.sizes v (by simp [allVars, hv])
  constructor
  · simp [readNames, getNum, getStrs, h1, h2, ← expandNames_length b.esvs hs]
  · simp [readTypes, getNum, getInts, h1, h3, ← expandTypes_length b.esvs]

/-- names and types of the parameters -/
theorem read_names_pars (p : Name) (b : Block β) (hwf : b.WF p) :
    readNames (emit p b) p "Parameters" = some (expandNames (pvars b)) ∧
    readTypes (emit p b) p "Parameters" = some (expandTypes (pvars b)) := by
  have h1 := lookup_head p b hwf _ _ (mem_head_slots p b (catSym p "nParameters") (.num (totalSize (pvars b))) (by simp))
  have h2 := lookup_head p b hwf _ _ (mem_head_slots p b (catSym p "Parameters") (.strs (expandNames (pvars b))) (by simp))
  have h3 := lookup_head p b hwf _ _ (mem_head_slots p b (catSym p "ParametersTypes") (.ints (expandTypes (pvars b))) (by simp))
  have hs : ∀ v ∈ pvars b, 0 < v.size := fun v hv => hwf.sizes v (by simp [allVars, hv])
  constructor
  · simp [readNames, getNum, getStrs, h1, h2, ← expandNames_length (pvars b) hs]
  · simp [readTypes, getNum, getInts, h1, h3, ← expandTypes_length (pvars b)]

end arrays

section values

/-- **bounds and physical bounds**: for every element of every declared variable (material
property, state variable, external state variable, parameter) the four readers return the declared
value, and report the bound absent exactly when it was not declared. -/
theorem read_bounds (p : Name) (b : Block β) (hwf : b.WF p) (v : VarD β) (hv : v ∈ allVars b)
    (e : Option Nat) (he : e ∈ elems v.size) :
    readValue (emit p b) p (listedName v.ext e) "LowerBound" = v.bounds.bind (·.lo) ∧
    readValue (emit p b) p (listedName v.ext e) "UpperBound" = v.bounds.bind (·.hi) ∧
    readValue (emit p b) p (listedName v.ext e) "LowerPhysicalBound" = v.phys.bind (·.lo) ∧
    readValue (emit p b) p (listedName v.ext e) "UpperPhysicalBound" = v.phys.bind (·.hi) := by
  have hnb := hwf.noBracket v hv
  have key : ∀ (sfx : String) (ox : Option β),
      (varSym p v.ext e sfx, ox.map Val.real) ∈ bndSlots p v →
      readValue (emit p b) p (listedName v.ext e) sfx = ox := by
    intro sfx ox hm
    unfold readValue
    rw [name_scheme p v.ext e sfx hnb]
    exact getReal_slot p b hwf _ ox (mem_bndSlots p b v hv _ hm)
  refine ⟨key _ _ ?_, key _ _ ?_, key _ _ ?_, key _ _ ?_⟩ <;>
    exact List.mem_flatMap.mpr ⟨e, he, by simp⟩

/-- **default values of the parameters**: the reader returns the declared default value of every
element (`p` for a scalar parameter, `p[i]` for an array). -/
theorem read_default (p : Name) (b : Block β) (hwf : b.WF p) (q : ParD β) (hq : q ∈ b.pars)
    (e : Option Nat) (he : e ∈ elems q.var.size) :
    readValue (emit p b) p (listedName q.var.ext e) "ParameterDefaultValue" = q.dflt[e.getD 0]? := by
  have hv : q.var ∈ allVars b := by
    simp only [allVars, pvars, List.mem_append, List.mem_map]
    exact Or.inl (Or.inr ⟨q, hq, rfl⟩)
  have hnb := hwf.noBracket q.var hv
  unfold readValue
  rw [name_scheme p q.var.ext e _ hnb]
  apply getReal_slot p b hwf
  apply mem_dfltSlots p b q hq
  unfold dfltSlots
  unfold elems at he
  by_cases h1 : q.var.size = 1
  · simp only [h1, if_true, List.mem_singleton] at he ⊢
    subst he
    simp
  · simp only [h1, if_false, List.mem_map, List.mem_range] at he ⊢
    obtain ⟨i, hi, rfl⟩ := he
    exact ⟨i, hi, by simp⟩

end values

/-! ### hypothesis-specialised symbols: lookup order -/

/-- the symbol specialised for the hypothesis wins over the common one -/
theorem lookup_order_specialised (t : SymTab β) (k₁ k₂ : Name) (v : Val β) (h : lookup t k₁ = some v) :
    lookup2 t k₁ k₂ = some v := by
  simp [lookup2, h]

/-- without specialised symbol the common one is used -/
theorem lookup_order_common (t : SymTab β) (k₁ k₂ : Name) (h : lookup t k₁ = none) :
    lookup2 t k₁ k₂ = lookup t k₂ := by
  simp [lookup2, h]

/-! ### non-vacuity -/

def exampleBlock : Block Int :=
  { mps := [⟨"YoungModulus".toList, 0, 1, none, some ⟨some 0, none⟩⟩],
    isvs := [⟨"AV".toList, 0, 2, some ⟨some 0, some 1⟩, none⟩, ⟨"q".toList, 1, 1, none, none⟩],
    esvs := [], pars := [⟨⟨"pa".toList, 0, 2, none, none⟩, [15, 25]⟩] }

example : exampleBlock.WF "B1".toList := ⟨by decide, by decide, by decide⟩
example : readNames (emit "B1".toList exampleBlock) "B1".toList "InternalStateVariables"
    = some ["AV[0]".toList, "AV[1]".toList, "q".toList] := by decide
example : readValue (emit "B1".toList exampleBlock) "B1".toList "AV[1]".toList "UpperBound" = some 1 := by decide
example : readValue (emit "B1".toList exampleBlock) "B1".toList "q".toList "UpperBound" = none := by decide
example : readValue (emit "B1".toList exampleBlock) "B1".toList "pa[1]".toList "ParameterDefaultValue" = some 25 := by decide

end TfelVerif.C45
