/-
  C45 — hypothesis of the property theorems (`Block.WF`) and the membership / lookup lemmas they use.
-/
import TfelVerif.C45.Lemmas
namespace TfelVerif.C45

variable {β : Type}

structure Block.WF (p : Name) (b : Block β) : Prop where
  distinct : ((slots p b).map (·.1)).Nodup
  noBracket : ∀ v ∈ allVars b, '[' ∉ v.ext
  sizes : ∀ v ∈ allVars b, 0 < v.size

theorem mem_head_slots (p : Name) (b : Block β) (k : Name) (v : Val β)
    (h : (k, some v) ∈
      [ (catSym p "nMaterialProperties", some (Val.num (totalSize b.mps))),
        (catSym p "MaterialProperties", some (.strs (expandNames b.mps))),
        (catSym p "nInternalStateVariables", some (.num (totalSize b.isvs))),
        (catSym p "InternalStateVariables", some (.strs (expandNames b.isvs))),
        (catSym p "InternalStateVariablesTypes", some (.ints (expandTypes b.isvs))),
        (catSym p "nExternalStateVariables", some (.num (totalSize b.esvs))),
        (catSym p "ExternalStateVariables", some (.strs (expandNames b.esvs))),
        (catSym p "ExternalStateVariablesTypes", some (.ints (expandTypes b.esvs))),
        (catSym p "nParameters", some (.num (totalSize (pvars b)))),
        (catSym p "Parameters", some (.strs (expandNames (pvars b)))),
        (catSym p "ParametersTypes", some (.ints (expandTypes (pvars b)))) ]) :
    (k, some v) ∈ slots p b := by
  unfold slots
  exact List.mem_append_left _ (List.mem_append_left _ h)

theorem lookup_head (p : Name) (b : Block β) (hwf : b.WF p) (k : Name) (v : Val β)
    (h : (k, some v) ∈ slots p b) : lookup (emit p b) k = some v :=
  lookup_written (slots p b) hwf.distinct k (some v) h

/-- value of a real-valued slot as the reader sees it -/
theorem getReal_slot (p : Name) (b : Block β) (hwf : b.WF p) (k : Name) (ox : Option β)
    (h : (k, ox.map Val.real) ∈ slots p b) : getReal (emit p b) k = ox := by
  have := lookup_written (slots p b) hwf.distinct k (ox.map Val.real) h
  unfold getReal
  rw [emit_eq_written, this]
  cases ox <;> rfl

theorem mem_bndSlots (p : Name) (b : Block β) (v : VarD β) (hv : v ∈ allVars b) (s : Name × Option (Val β))
    (hs : s ∈ bndSlots p v) : s ∈ slots p b := by
  unfold slots
  exact List.mem_append_right _ (List.mem_flatMap.mpr ⟨v, hv, hs⟩)

theorem mem_dfltSlots (p : Name) (b : Block β) (q : ParD β) (hq : q ∈ b.pars) (s : Name × Option (Val β))
    (hs : s ∈ dfltSlots p q) : s ∈ slots p b := by
  unfold slots
  exact List.mem_append_left _ (List.mem_append_right _ (List.mem_flatMap.mpr ⟨q, hq, hs⟩))

end TfelVerif.C45
