/-
  C06 — Closed-form derivative helpers are true derivatives.  Part 3: tensor product derivatives composed with a derivative (`tpld(B,C)`, `tprd(A,C)`).

  Property theorems only. `Gen.*` are the definitions regenerated on every run by instantiating the
  real TFEL templates with a recording scalar (harness/C06/trace.cxx), emitted over
  `[CommRing K] [Div K]` so that the generated code itself can be evaluated on the dual numbers
  `Dual K = K[ε]/(ε²)` (Lemmas.lean: a commutative ring, every axiom proved; `/` is the quotient rule).

  Shape of every theorem. For a helper `D` documented as the derivative of `f`:
      (f_code (x₀ + ε h₀) (x₁ + ε h₁) …).map eps = D_code(x) · h          for all x and all h,
  i.e. the ε part of the code of `f` run at `x + ε h` (formal directional derivative of the rational
  function computed by the code, along an arbitrary direction `h`) is the matrix returned by `D`
  applied to `h`. `⟨x, h⟩ : Dual K` is `x + ε h`; `mv m M h` is the flat row-major `m × |h|` matrix `M`
  times `h`. Symmetric tensors are differentiated with respect to their stored (Mandel) components,
  non symmetric ones with respect to their stored components, as the library does
  (`D(i,j) = ∂fᵢ/∂xⱼ`). PropsReal.lean turns each statement into `HasDerivAt` over ℝ.

  Standing hypotheses: `c * c = 2` (`c` is √2, `Cste<T>::sqrt2`), characteristic 0.
  Non-vacuity: ℝ with `c = √2` (Common/Model.lean, PropsReal.lean instantiates every theorem there).
-/
import TfelVerif.Common.Mandel
import TfelVerif.C06.Lemmas
import TfelVerif.C06.GenN1
import TfelVerif.C06.GenN2
import TfelVerif.C06.GenN3b
import TfelVerif.C06.GenN3c
import TfelVerif.C06.GenN3d

namespace TfelVerif.C06.PropsTC
open TfelVerif TfelVerif.Mandel TfelVerif.C06
set_option linter.unusedVariables false
set_option linter.unusedSectionVars false
set_option maxRecDepth 100000

variable {K : Type} [Field K] [CharZero K] (c c3 : K) (fn : Fns K)

/-- `t2tot2::tpld(B, C)`: derivative of `A * B` when `A` moves with derivative `C` and `B` is fixed -/
theorem N1_t_tpldC (hc : c * c = 2) (A0 A1 A2 B0 B1 B2 C00 C01 C02 C10 C11 C12 C20 C21 C22 h0 h1 h2 : K) :
    (Gen.N1_t_prod_all (Dual.const c) (Dual.const c3) (dualFns K) ⟨A0, dot [C00, C01, C02] [h0, h1, h2]⟩ ⟨A1, dot [C10, C11, C12] [h0, h1, h2]⟩ ⟨A2, dot [C20, C21, C22] [h0, h1, h2]⟩ (Dual.const B0) (Dual.const B1) (Dual.const B2)).map Dual.eps
      = mv 3 (Gen.N1_t_tpldC_all c c3 fn B0 B1 B2 C00 C01 C02 C10 C11 C12 C20 C21 C22) [h0, h1, h2] := by
  dual_eq hc

/-- `t2tot2::tprd(A, C)`: derivative of `A * B` when `B` moves with derivative `C` and `A` is fixed -/
theorem N1_t_tprdC (hc : c * c = 2) (A0 A1 A2 B0 B1 B2 C00 C01 C02 C10 C11 C12 C20 C21 C22 h0 h1 h2 : K) :
    (Gen.N1_t_prod_all (Dual.const c) (Dual.const c3) (dualFns K) (Dual.const A0) (Dual.const A1) (Dual.const A2) ⟨B0, dot [C00, C01, C02] [h0, h1, h2]⟩ ⟨B1, dot [C10, C11, C12] [h0, h1, h2]⟩ ⟨B2, dot [C20, C21, C22] [h0, h1, h2]⟩).map Dual.eps
      = mv 3 (Gen.N1_t_tprdC_all c c3 fn A0 A1 A2 C00 C01 C02 C10 C11 C12 C20 C21 C22) [h0, h1, h2] := by
  dual_eq hc

/-- `t2tot2::tpld(B, C)`: derivative of `A * B` when `A` moves with derivative `C` and `B` is fixed -/
theorem N2_t_tpldC (hc : c * c = 2) (A0 A1 A2 A3 A4 B0 B1 B2 B3 B4 C00 C01 C02 C03 C04 C10 C11 C12 C13 C14 C20 C21 C22 C23 C24 C30 C31 C32 C33 C34 C40 C41 C42 C43 C44 h0 h1 h2 h3 h4 : K) :
    (Gen.N2_t_prod_all (Dual.const c) (Dual.const c3) (dualFns K) ⟨A0, dot [C00, C01, C02, C03, C04] [h0, h1, h2, h3, h4]⟩ ⟨A1, dot [C10, C11, C12, C13, C14] [h0, h1, h2, h3, h4]⟩ ⟨A2, dot [C20, C21, C22, C23, C24] [h0, h1, h2, h3, h4]⟩ ⟨A3, dot [C30, C31, C32, C33, C34] [h0, h1, h2, h3, h4]⟩ ⟨A4, dot [C40, C41, C42, C43, C44] [h0, h1, h2, h3, h4]⟩ (Dual.const B0) (Dual.const B1) (Dual.const B2) (Dual.const B3) (Dual.const B4)).map Dual.eps
      = mv 5 (Gen.N2_t_tpldC_all c c3 fn B0 B1 B2 B3 B4 C00 C01 C02 C03 C04 C10 C11 C12 C13 C14 C20 C21 C22 C23 C24 C30 C31 C32 C33 C34 C40 C41 C42 C43 C44) [h0, h1, h2, h3, h4] := by
  dual_eq hc

/-- `t2tot2::tprd(A, C)`: derivative of `A * B` when `B` moves with derivative `C` and `A` is fixed -/
theorem N2_t_tprdC (hc : c * c = 2) (A0 A1 A2 A3 A4 B0 B1 B2 B3 B4 C00 C01 C02 C03 C04 C10 C11 C12 C13 C14 C20 C21 C22 C23 C24 C30 C31 C32 C33 C34 C40 C41 C42 C43 C44 h0 h1 h2 h3 h4 : K) :
    (Gen.N2_t_prod_all (Dual.const c) (Dual.const c3) (dualFns K) (Dual.const A0) (Dual.const A1) (Dual.const A2) (Dual.const A3) (Dual.const A4) ⟨B0, dot [C00, C01, C02, C03, C04] [h0, h1, h2, h3, h4]⟩ ⟨B1, dot [C10, C11, C12, C13, C14] [h0, h1, h2, h3, h4]⟩ ⟨B2, dot [C20, C21, C22, C23, C24] [h0, h1, h2, h3, h4]⟩ ⟨B3, dot [C30, C31, C32, C33, C34] [h0, h1, h2, h3, h4]⟩ ⟨B4, dot [C40, C41, C42, C43, C44] [h0, h1, h2, h3, h4]⟩).map Dual.eps
      = mv 5 (Gen.N2_t_tprdC_all c c3 fn A0 A1 A2 A3 A4 C00 C01 C02 C03 C04 C10 C11 C12 C13 C14 C20 C21 C22 C23 C24 C30 C31 C32 C33 C34 C40 C41 C42 C43 C44) [h0, h1, h2, h3, h4] := by
  dual_eq hc

/-- `t2tot2::tpld(B, C)`: derivative of `A * B` when `A` moves with derivative `C` and `B` is fixed -/
theorem N3_t_tpldC (hc : c * c = 2) (A0 A1 A2 A3 A4 A5 A6 A7 A8 B0 B1 B2 B3 B4 B5 B6 B7 B8 C00 C01 C02 C03 C04 C05 C06 C07 C08 C10 C11 C12 C13 C14 C15 C16 C17 C18 C20 C21 C22 C23 C24 C25 C26 C27 C28 C30 C31 C32 C33 C34 C35 C36 C37 C38 C40 C41 C42 C43 C44 C45 C46 C47 C48 C50 C51 C52 C53 C54 C55 C56 C57 C58 C60 C61 C62 C63 C64 C65 C66 C67 C68 C70 C71 C72 C73 C74 C75 C76 C77 C78 C80 C81 C82 C83 C84 C85 C86 C87 C88 h0 h1 h2 h3 h4 h5 h6 h7 h8 : K) :
    (Gen.N3_t_prod_all (Dual.const c) (Dual.const c3) (dualFns K) ⟨A0, dot [C00, C01, C02, C03, C04, C05, C06, C07, C08] [h0, h1, h2, h3, h4, h5, h6, h7, h8]⟩ ⟨A1, dot [C10, C11, C12, C13, C14, C15, C16, C17, C18] [h0, h1, h2, h3, h4, h5, h6, h7, h8]⟩ ⟨A2, dot [C20, C21, C22, C23, C24, C25, C26, C27, C28] [h0, h1, h2, h3, h4, h5, h6, h7, h8]⟩ ⟨A3, dot [C30, C31, C32, C33, C34, C35, C36, C37, C38] [h0, h1, h2, h3, h4, h5, h6, h7, h8]⟩ ⟨A4, dot [C40, C41, C42, C43, C44, C45, C46, C47, C48] [h0, h1, h2, h3, h4, h5, h6, h7, h8]⟩ ⟨A5, dot [C50, C51, C52, C53, C54, C55, C56, C57, C58] [h0, h1, h2, h3, h4, h5, h6, h7, h8]⟩ ⟨A6, dot [C60, C61, C62, C63, C64, C65, C66, C67, C68] [h0, h1, h2, h3, h4, h5, h6, h7, h8]⟩ ⟨A7, dot [C70, C71, C72, C73, C74, C75, C76, C77, C78] [h0, h1, h2, h3, h4, h5, h6, h7, h8]⟩ ⟨A8, dot [C80, C81, C82, C83, C84, C85, C86, C87, C88] [h0, h1, h2, h3, h4, h5, h6, h7, h8]⟩ (Dual.const B0) (Dual.const B1) (Dual.const B2) (Dual.const B3) (Dual.const B4) (Dual.const B5) (Dual.const B6) (Dual.const B7) (Dual.const B8)).map Dual.eps
      = mv 9 (Gen.N3_t_tpldC_all c c3 fn B0 B1 B2 B3 B4 B5 B6 B7 B8 C00 C01 C02 C03 C04 C05 C06 C07 C08 C10 C11 C12 C13 C14 C15 C16 C17 C18 C20 C21 C22 C23 C24 C25 C26 C27 C28 C30 C31 C32 C33 C34 C35 C36 C37 C38 C40 C41 C42 C43 C44 C45 C46 C47 C48 C50 C51 C52 C53 C54 C55 C56 C57 C58 C60 C61 C62 C63 C64 C65 C66 C67 C68 C70 C71 C72 C73 C74 C75 C76 C77 C78 C80 C81 C82 C83 C84 C85 C86 C87 C88) [h0, h1, h2, h3, h4, h5, h6, h7, h8] := by
  dual_eq hc

/-- `t2tot2::tprd(A, C)`: derivative of `A * B` when `B` moves with derivative `C` and `A` is fixed -/
theorem N3_t_tprdC (hc : c * c = 2) (A0 A1 A2 A3 A4 A5 A6 A7 A8 B0 B1 B2 B3 B4 B5 B6 B7 B8 C00 C01 C02 C03 C04 C05 C06 C07 C08 C10 C11 C12 C13 C14 C15 C16 C17 C18 C20 C21 C22 C23 C24 C25 C26 C27 C28 C30 C31 C32 C33 C34 C35 C36 C37 C38 C40 C41 C42 C43 C44 C45 C46 C47 C48 C50 C51 C52 C53 C54 C55 C56 C57 C58 C60 C61 C62 C63 C64 C65 C66 C67 C68 C70 C71 C72 C73 C74 C75 C76 C77 C78 C80 C81 C82 C83 C84 C85 C86 C87 C88 h0 h1 h2 h3 h4 h5 h6 h7 h8 : K) :
    (Gen.N3_t_prod_all (Dual.const c) (Dual.const c3) (dualFns K) (Dual.const A0) (Dual.const A1) (Dual.const A2) (Dual.const A3) (Dual.const A4) (Dual.const A5) (Dual.const A6) (Dual.const A7) (Dual.const A8) ⟨B0, dot [C00, C01, C02, C03, C04, C05, C06, C07, C08] [h0, h1, h2, h3, h4, h5, h6, h7, h8]⟩ ⟨B1, dot [C10, C11, C12, C13, C14, C15, C16, C17, C18] [h0, h1, h2, h3, h4, h5, h6, h7, h8]⟩ ⟨B2, dot [C20, C21, C22, C23, C24, C25, C26, C27, C28] [h0, h1, h2, h3, h4, h5, h6, h7, h8]⟩ ⟨B3, dot [C30, C31, C32, C33, C34, C35, C36, C37, C38] [h0, h1, h2, h3, h4, h5, h6, h7, h8]⟩ ⟨B4, dot [C40, C41, C42, C43, C44, C45, C46, C47, C48] [h0, h1, h2, h3, h4, h5, h6, h7, h8]⟩ ⟨B5, dot [C50, C51, C52, C53, C54, C55, C56, C57, C58] [h0, h1, h2, h3, h4, h5, h6, h7, h8]⟩ ⟨B6, dot [C60, C61, C62, C63, C64, C65, C66, C67, C68] [h0, h1, h2, h3, h4, h5, h6, h7, h8]⟩ ⟨B7, dot [C70, C71, C72, C73, C74, C75, C76, C77, C78] [h0, h1, h2, h3, h4, h5, h6, h7, h8]⟩ ⟨B8, dot [C80, C81, C82, C83, C84, C85, C86, C87, C88] [h0, h1, h2, h3, h4, h5, h6, h7, h8]⟩).map Dual.eps
      = mv 9 (Gen.N3_t_tprdC_all c c3 fn A0 A1 A2 A3 A4 A5 A6 A7 A8 C00 C01 C02 C03 C04 C05 C06 C07 C08 C10 C11 C12 C13 C14 C15 C16 C17 C18 C20 C21 C22 C23 C24 C25 C26 C27 C28 C30 C31 C32 C33 C34 C35 C36 C37 C38 C40 C41 C42 C43 C44 C45 C46 C47 C48 C50 C51 C52 C53 C54 C55 C56 C57 C58 C60 C61 C62 C63 C64 C65 C66 C67 C68 C70 C71 C72 C73 C74 C75 C76 C77 C78 C80 C81 C82 C83 C84 C85 C86 C87 C88) [h0, h1, h2, h3, h4, h5, h6, h7, h8] := by
  dual_eq hc

end TfelVerif.C06.PropsTC
