/-
  C06/LemmasEig.lean — helpers for the eigen-tensor derivative theorems (PropsEig.lean).

  * `eig_conj`, `proj_conj`: for an orthogonal `V`, identities between matrices written in the
    eigenbasis (`G E + Λ D' = g E + l D'`, `D' E + E D' = D'`) transport to the conjugated matrices
    `V · Vᵀ`. Stated for Mathlib matrices, used through the `M3.toMatrix_*` bridges.
  * `E0 E1 E2`: the elementary diagonal projectors; `dEig*`: the first order perturbation of the
    eigenprojector in the eigenbasis, `(D'ᵢ)ᵢⱼ = (D'ᵢ)ⱼᵢ = Gᵢⱼ / (λᵢ − λⱼ)`; `eigbasis*`: the first order
    eigenprojector equations in the eigenbasis (explicit entries, `field_simp; ring`).
-/
import Mathlib.Data.Matrix.Basic
import Mathlib.Data.Matrix.Mul
import TfelVerif.Common.M3

namespace TfelVerif.C06
open TfelVerif Matrix

section conj
variable {K : Type} [Field K] {n : Type} [Fintype n] [DecidableEq n]

theorem conj_mul (V X Y : Matrix n n K) (hV1 : Vᵀ * V = 1) :
    (V * X * Vᵀ) * (V * Y * Vᵀ) = V * (X * Y) * Vᵀ := by
  calc (V * X * Vᵀ) * (V * Y * Vᵀ) = V * X * (Vᵀ * V) * Y * Vᵀ := by simp only [Matrix.mul_assoc]
    _ = V * (X * Y) * Vᵀ := by rw [hV1]; simp only [Matrix.mul_one, Matrix.mul_assoc]

theorem conj_back (V H : Matrix n n K) (hV2 : V * Vᵀ = 1) : V * (Vᵀ * H * V) * Vᵀ = H := by
  calc V * (Vᵀ * H * V) * Vᵀ = (V * Vᵀ) * H * (V * Vᵀ) := by simp only [Matrix.mul_assoc]
    _ = H := by rw [hV2]; simp

/-- first order eigenvalue/eigenprojector equation, transported from the eigenbasis -/
theorem eig_conj (V H E L D : Matrix n n K) (g l : K) (hV1 : Vᵀ * V = 1) (hV2 : V * Vᵀ = 1)
    (h : (Vᵀ * H * V) * E + L * D = g • E + l • D) :
    H * (V * E * Vᵀ) + (V * L * Vᵀ) * (V * D * Vᵀ) = g • (V * E * Vᵀ) + l • (V * D * Vᵀ) := by
  have hH : H * (V * E * Vᵀ) = (V * (Vᵀ * H * V) * Vᵀ) * (V * E * Vᵀ) := by rw [conj_back V H hV2]
  rw [hH, conj_mul V _ _ hV1, conj_mul V _ _ hV1, ← Matrix.add_mul, ← Matrix.mul_add, h]
  simp only [Matrix.mul_add, Matrix.add_mul, Matrix.mul_smul, Matrix.smul_mul]

/-- first order idempotency equation, transported from the eigenbasis -/
theorem proj_conj (V E D : Matrix n n K) (hV1 : Vᵀ * V = 1) (h : D * E + E * D = D) :
    (V * D * Vᵀ) * (V * E * Vᵀ) + (V * E * Vᵀ) * (V * D * Vᵀ) = V * D * Vᵀ := by
  rw [conj_mul V _ _ hV1, conj_mul V _ _ hV1, ← Matrix.add_mul, ← Matrix.mul_add, h]
end conj

section basis
variable {K : Type} [Field K]
instance : Zero (M3 K) := ⟨⟨0, 0, 0, 0, 0, 0, 0, 0, 0⟩⟩
theorem zero3 : (0 : M3 K) = ⟨0, 0, 0, 0, 0, 0, 0, 0, 0⟩ := rfl
def E0 : M3 K := M3.diag 1 0 0
def E1 : M3 K := M3.diag 0 1 0
def E2 : M3 K := M3.diag 0 0 1
/-- derivative of the eigenprojector `i` in the eigenbasis, for the perturbation `G` (symmetric) -/
def dEig0 (G : M3 K) (l0 l1 l2 : K) : M3 K :=
  ⟨0, G.a01 / (l0 - l1), G.a02 / (l0 - l2), G.a01 / (l0 - l1), 0, 0, G.a02 / (l0 - l2), 0, 0⟩
def dEig1 (G : M3 K) (l0 l1 l2 : K) : M3 K :=
  ⟨0, G.a01 / (l1 - l0), 0, G.a01 / (l1 - l0), 0, G.a12 / (l1 - l2), 0, G.a12 / (l1 - l2), 0⟩
def dEig2 (G : M3 K) (l0 l1 l2 : K) : M3 K :=
  ⟨0, 0, G.a02 / (l2 - l0), 0, 0, G.a12 / (l2 - l1), G.a02 / (l2 - l0), G.a12 / (l2 - l1), 0⟩

variable (G : M3 K) (l0 l1 l2 : K)
theorem eigbasis0 (hs : G.transpose = G) (h01 : l0 ≠ l1) (h02 : l0 ≠ l2) :
    G * E0 + M3.diag l0 l1 l2 * dEig0 G l0 l1 l2 = G.a00 • E0 + l0 • dEig0 G l0 l1 l2 := by
  have e := congrArg M3.a01 hs; have e' := congrArg M3.a02 hs; have e'' := congrArg M3.a12 hs
  simp only [M3.transpose] at e e' e''
  have d1 := sub_ne_zero.mpr h01; have d2 := sub_ne_zero.mpr h02
  simp only [E0, dEig0, M3.diag, M3.mul_def, M3.mul, M3.add_def, M3.add, M3.smul_def, M3.smul, M3.mk.injEq, e, e', e'']
  refine ⟨?_, ?_, ?_, ?_, ?_, ?_, ?_, ?_, ?_⟩ <;> first | ring1 | (field_simp; ring1)
theorem eigbasis1 (hs : G.transpose = G) (h01 : l0 ≠ l1) (h12 : l1 ≠ l2) :
    G * E1 + M3.diag l0 l1 l2 * dEig1 G l0 l1 l2 = G.a11 • E1 + l1 • dEig1 G l0 l1 l2 := by
  have e := congrArg M3.a01 hs; have e' := congrArg M3.a02 hs; have e'' := congrArg M3.a12 hs
  simp only [M3.transpose] at e e' e''
  have d1 := sub_ne_zero.mpr h01.symm; have d2 := sub_ne_zero.mpr h12
  simp only [E1, dEig1, M3.diag, M3.mul_def, M3.mul, M3.add_def, M3.add, M3.smul_def, M3.smul, M3.mk.injEq, e, e', e'']
  refine ⟨?_, ?_, ?_, ?_, ?_, ?_, ?_, ?_, ?_⟩ <;> first | ring1 | (field_simp; ring1)
theorem eigbasis2 (hs : G.transpose = G) (h02 : l0 ≠ l2) (h12 : l1 ≠ l2) :
    G * E2 + M3.diag l0 l1 l2 * dEig2 G l0 l1 l2 = G.a22 • E2 + l2 • dEig2 G l0 l1 l2 := by
  have e := congrArg M3.a01 hs; have e' := congrArg M3.a02 hs; have e'' := congrArg M3.a12 hs
  simp only [M3.transpose] at e e' e''
  have d1 := sub_ne_zero.mpr h02.symm; have d2 := sub_ne_zero.mpr h12.symm
  simp only [E2, dEig2, M3.diag, M3.mul_def, M3.mul, M3.add_def, M3.add, M3.smul_def, M3.smul, M3.mk.injEq, e, e', e'']
  refine ⟨?_, ?_, ?_, ?_, ?_, ?_, ?_, ?_, ?_⟩ <;> first | ring1 | (field_simp; ring1)
theorem projbasis0 : dEig0 G l0 l1 l2 * E0 + E0 * dEig0 G l0 l1 l2 = dEig0 G l0 l1 l2 := by
  simp only [E0, dEig0, M3.diag, M3.mul_def, M3.mul, M3.add_def, M3.add, M3.mk.injEq]
  refine ⟨?_, ?_, ?_, ?_, ?_, ?_, ?_, ?_, ?_⟩ <;> ring1
theorem projbasis1 : dEig1 G l0 l1 l2 * E1 + E1 * dEig1 G l0 l1 l2 = dEig1 G l0 l1 l2 := by
  simp only [E1, dEig1, M3.diag, M3.mul_def, M3.mul, M3.add_def, M3.add, M3.mk.injEq]
  refine ⟨?_, ?_, ?_, ?_, ?_, ?_, ?_, ?_, ?_⟩ <;> ring1
theorem projbasis2 : dEig2 G l0 l1 l2 * E2 + E2 * dEig2 G l0 l1 l2 = dEig2 G l0 l1 l2 := by
  simp only [E2, dEig2, M3.diag, M3.mul_def, M3.mul, M3.add_def, M3.add, M3.mk.injEq]
  refine ⟨?_, ?_, ?_, ?_, ?_, ?_, ?_, ?_, ?_⟩ <;> ring1

/-! 2D: `V` and `H` are block diagonal, hence `G.a02 = G.a12 = 0`; only `λ₀ ≠ λ₁` is needed (the out of
plane eigenvalue may coincide with an in-plane one) -/
def dEig2D0 (G : M3 K) (l0 l1 : K) : M3 K := ⟨0, G.a01 / (l0 - l1), 0, G.a01 / (l0 - l1), 0, 0, 0, 0, 0⟩
def dEig2D1 (G : M3 K) (l0 l1 : K) : M3 K := ⟨0, G.a01 / (l1 - l0), 0, G.a01 / (l1 - l0), 0, 0, 0, 0, 0⟩
theorem eigbasis2D0 (hs : G.transpose = G) (h02 : G.a02 = 0) (h12 : G.a12 = 0) (h01 : l0 ≠ l1) :
    G * E0 + M3.diag l0 l1 l2 * dEig2D0 G l0 l1 = G.a00 • E0 + l0 • dEig2D0 G l0 l1 := by
  have e := congrArg M3.a01 hs; have e' := congrArg M3.a02 hs; have e'' := congrArg M3.a12 hs
  simp only [M3.transpose] at e e' e''
  have d1 := sub_ne_zero.mpr h01
  simp only [E0, dEig2D0, M3.diag, M3.mul_def, M3.mul, M3.add_def, M3.add, M3.smul_def, M3.smul, M3.mk.injEq, e, e', e'', h02, h12]
  refine ⟨?_, ?_, ?_, ?_, ?_, ?_, ?_, ?_, ?_⟩ <;> first | ring1 | (field_simp; ring1)
theorem eigbasis2D1 (hs : G.transpose = G) (h02 : G.a02 = 0) (h12 : G.a12 = 0) (h01 : l0 ≠ l1) :
    G * E1 + M3.diag l0 l1 l2 * dEig2D1 G l0 l1 = G.a11 • E1 + l1 • dEig2D1 G l0 l1 := by
  have e := congrArg M3.a01 hs; have e' := congrArg M3.a02 hs; have e'' := congrArg M3.a12 hs
  simp only [M3.transpose] at e e' e''
  have d1 := sub_ne_zero.mpr h01.symm
  simp only [E1, dEig2D1, M3.diag, M3.mul_def, M3.mul, M3.add_def, M3.add, M3.smul_def, M3.smul, M3.mk.injEq, e, e', e'', h02, h12]
  refine ⟨?_, ?_, ?_, ?_, ?_, ?_, ?_, ?_, ?_⟩ <;> first | ring1 | (field_simp; ring1)
theorem eigbasis2D2 (hs : G.transpose = G) (h02 : G.a02 = 0) (h12 : G.a12 = 0) :
    G * E2 + M3.diag l0 l1 l2 * (0 : M3 K) = G.a22 • E2 + l2 • (0 : M3 K) := by
  have e := congrArg M3.a01 hs; have e' := congrArg M3.a02 hs; have e'' := congrArg M3.a12 hs
  simp only [M3.transpose] at e e' e''
  simp only [E2, zero3, M3.diag, M3.mul_def, M3.mul, M3.add_def, M3.add, M3.smul_def, M3.smul, M3.mk.injEq, e, e', e'', h02, h12]
  refine ⟨?_, ?_, ?_, ?_, ?_, ?_, ?_, ?_, ?_⟩ <;> ring1
theorem projbasis2D0 : dEig2D0 G l0 l1 * E0 + E0 * dEig2D0 G l0 l1 = dEig2D0 G l0 l1 := by
  simp only [E0, dEig2D0, M3.diag, M3.mul_def, M3.mul, M3.add_def, M3.add, M3.mk.injEq]
  refine ⟨?_, ?_, ?_, ?_, ?_, ?_, ?_, ?_, ?_⟩ <;> ring1
theorem projbasis2D1 : dEig2D1 G l0 l1 * E1 + E1 * dEig2D1 G l0 l1 = dEig2D1 G l0 l1 := by
  simp only [E1, dEig2D1, M3.diag, M3.mul_def, M3.mul, M3.add_def, M3.add, M3.mk.injEq]
  refine ⟨?_, ?_, ?_, ?_, ?_, ?_, ?_, ?_, ?_⟩ <;> ring1
theorem projbasis2D2 : (0 : M3 K) * E2 + E2 * (0 : M3 K) = (0 : M3 K) := by
  simp only [E2, zero3, M3.diag, M3.mul_def, M3.mul, M3.add_def, M3.add, M3.mk.injEq]
  refine ⟨?_, ?_, ?_, ?_, ?_, ?_, ?_, ?_, ?_⟩ <;> ring1

/-- transport to `M3`: the two first order eigenprojector equations for `N = V E Vᵀ`, `D = V D' Vᵀ`,
`S = V Λ Vᵀ`, given them in the eigenbasis for `G = Vᵀ H V` -/
theorem eig_transport (V H E L D' : M3 K) (g l : K)
    (hV1 : V.transpose * V = 1) (hV2 : V * V.transpose = 1)
    (h1 : (V.transpose * H * V) * E + L * D' = g • E + l • D') (h2 : D' * E + E * D' = D') :
    H * (V * E * V.transpose) + (V * L * V.transpose) * (V * D' * V.transpose)
        = g • (V * E * V.transpose) + l • (V * D' * V.transpose)
      ∧ (V * D' * V.transpose) * (V * E * V.transpose) + (V * E * V.transpose) * (V * D' * V.transpose)
        = V * D' * V.transpose := by
  have a1 : V.toMatrixᵀ * V.toMatrix = 1 := by
    have := congrArg M3.toMatrix hV1
    simpa only [M3.toMatrix_mul, M3.toMatrix_transpose, M3.toMatrix_one] using this
  have a2 : V.toMatrix * V.toMatrixᵀ = 1 := by
    have := congrArg M3.toMatrix hV2
    simpa only [M3.toMatrix_mul, M3.toMatrix_transpose, M3.toMatrix_one] using this
  have b1 := congrArg M3.toMatrix h1
  have b2 := congrArg M3.toMatrix h2
  simp only [M3.toMatrix_mul, M3.toMatrix_add, M3.toMatrix_smul, M3.toMatrix_transpose] at b1 b2
  constructor
  · apply M3.toMatrix_injective
    simp only [M3.toMatrix_mul, M3.toMatrix_add, M3.toMatrix_smul, M3.toMatrix_transpose]
    exact eig_conj _ _ _ _ _ g l a1 a2 b1
  · apply M3.toMatrix_injective
    simp only [M3.toMatrix_mul, M3.toMatrix_add, M3.toMatrix_smul, M3.toMatrix_transpose]
    exact proj_conj _ _ _ a1 b2
end basis
end TfelVerif.C06
