/-
  C06 — Closed-form derivative helpers are true derivatives: analytic form over ℝ.

  Property theorems only. For every helper `D` of a function `f` (same pairs as PropsSt/T/TC/PK):
      HasDerivAt (fun t => (f_code (x + t h)).getD i 0) ((D_code(x) · h).getD i 0) 0      for all x, h, i,
  i.e. each component of the traced code of `f`, restricted to the line `t ↦ x + t h` through an
  arbitrary point `x` in an arbitrary direction `h`, is differentiable at `t = 0` and its derivative
  — the limit of the finite difference quotient `(f (x + t h) − f x) / t` — is the corresponding
  component of the matrix returned by the helper applied to `h`.

  Proof: `Tracks` (Lemmas.lean) relates, operation by operation, the real code along the line and
  the same code run on dual numbers (`track_list`, structural), which gives `HasDerivAt` with the
  ε part as derivative; the algebraic theorem of Props* identifies that ε part with `D · h`.
  `c` is any real with `c * c = 2` (√2: `TfelVerif.mandel_hypotheses_satisfiable`).
-/
import TfelVerif.Common.Model
import TfelVerif.C06.PropsTC
import TfelVerif.C06.PropsPK

namespace TfelVerif.C06.PropsReal2
open TfelVerif TfelVerif.Mandel TfelVerif.C06
open TfelVerif.C06.PropsTC TfelVerif.C06.PropsPK
set_option linter.unusedVariables false
set_option linter.unusedSectionVars false
set_option maxRecDepth 100000

variable (c c3 : ℝ) (fn : Fns ℝ)

/-- analytic form of `N1_t_tpldC`: derivative at `t = 0` of `t ↦ f (x + t h)`, component `i` -/
theorem N1_t_tpldC_hasDerivAt (hc : c * c = 2) (A0 A1 A2 B0 B1 B2 C00 C01 C02 C10 C11 C12 C20 C21 C22 h0 h1 h2 : ℝ) (i : ℕ) :
    HasDerivAt (fun t : ℝ => (Gen.N1_t_prod_all c c3 fn (A0 + t * (dot [C00, C01, C02] [h0, h1, h2])) (A1 + t * (dot [C10, C11, C12] [h0, h1, h2])) (A2 + t * (dot [C20, C21, C22] [h0, h1, h2])) B0 B1 B2).getD i 0)
      ((mv 3 (Gen.N1_t_tpldC_all c c3 fn B0 B1 B2 C00 C01 C02 C10 C11 C12 C20 C21 C22) [h0, h1, h2]).getD i 0) 0 := by
  rw [← N1_t_tpldC c c3 fn hc A0 A1 A2 B0 B1 B2 C00 C01 C02 C10 C11 C12 C20 C21 C22 h0 h1 h2]
  refine TracksL.hasDerivAt ?_ i
  simp only [gen_simp]
  track_list

/-- analytic form of `N1_t_tprdC`: derivative at `t = 0` of `t ↦ f (x + t h)`, component `i` -/
theorem N1_t_tprdC_hasDerivAt (hc : c * c = 2) (A0 A1 A2 B0 B1 B2 C00 C01 C02 C10 C11 C12 C20 C21 C22 h0 h1 h2 : ℝ) (i : ℕ) :
    HasDerivAt (fun t : ℝ => (Gen.N1_t_prod_all c c3 fn A0 A1 A2 (B0 + t * (dot [C00, C01, C02] [h0, h1, h2])) (B1 + t * (dot [C10, C11, C12] [h0, h1, h2])) (B2 + t * (dot [C20, C21, C22] [h0, h1, h2]))).getD i 0)
      ((mv 3 (Gen.N1_t_tprdC_all c c3 fn A0 A1 A2 C00 C01 C02 C10 C11 C12 C20 C21 C22) [h0, h1, h2]).getD i 0) 0 := by
  rw [← N1_t_tprdC c c3 fn hc A0 A1 A2 B0 B1 B2 C00 C01 C02 C10 C11 C12 C20 C21 C22 h0 h1 h2]
  refine TracksL.hasDerivAt ?_ i
  simp only [gen_simp]
  track_list

/-- analytic form of `N1_dpk1`: derivative at `t = 0` of `t ↦ f (x + t h)`, component `i` -/
theorem N1_dpk1_hasDerivAt (hc : c * c = 2) (ds00 ds01 ds02 ds10 ds11 ds12 ds20 ds21 ds22 F0 F1 F2 s0 s1 s2 h0 h1 h2 : ℝ) (i : ℕ) :
    HasDerivAt (fun t : ℝ => (Gen.N1_pk1_all c c3 fn (s0 + t * (dot [ds00, ds01, ds02] [h0, h1, h2])) (s1 + t * (dot [ds10, ds11, ds12] [h0, h1, h2])) (s2 + t * (dot [ds20, ds21, ds22] [h0, h1, h2])) (F0 + t * (h0)) (F1 + t * (h1)) (F2 + t * (h2))).getD i 0)
      ((mv 3 (Gen.N1_dpk1_all c c3 fn ds00 ds01 ds02 ds10 ds11 ds12 ds20 ds21 ds22 F0 F1 F2 s0 s1 s2) [h0, h1, h2]).getD i 0) 0 := by
  rw [← N1_dpk1 c c3 fn hc ds00 ds01 ds02 ds10 ds11 ds12 ds20 ds21 ds22 F0 F1 F2 s0 s1 s2 h0 h1 h2]
  refine TracksL.hasDerivAt ?_ i
  simp only [gen_simp]
  track_list

/-- analytic form of `N1_dtau`: derivative at `t = 0` of `t ↦ f (x + t h)`, component `i` -/
theorem N1_dtau_hasDerivAt (hc : c * c = 2) (dP00 dP01 dP02 dP10 dP11 dP12 dP20 dP21 dP22 F0 F1 F2 s0 s1 s2 h0 h1 h2 : ℝ) (hF0 : F0 ≠ 0) (hF1 : F1 ≠ 0) (hF2 : F2 ≠ 0) (i : ℕ) :
    HasDerivAt (fun t : ℝ => (Gen.N1_tau_all c c3 fn ((Gen.N1_pk1_r0 c c3 fn s0 s1 s2 F0 F1 F2) + t * (dot [dP00, dP01, dP02] [h0, h1, h2])) ((Gen.N1_pk1_r1 c c3 fn s0 s1 s2 F0 F1 F2) + t * (dot [dP10, dP11, dP12] [h0, h1, h2])) ((Gen.N1_pk1_r2 c c3 fn s0 s1 s2 F0 F1 F2) + t * (dot [dP20, dP21, dP22] [h0, h1, h2])) (F0 + t * (h0)) (F1 + t * (h1)) (F2 + t * (h2))).getD i 0)
      ((mv 3 (Gen.N1_dtau_all c c3 fn dP00 dP01 dP02 dP10 dP11 dP12 dP20 dP21 dP22 F0 F1 F2 s0 s1 s2) [h0, h1, h2]).getD i 0) 0 := by
  rw [← N1_dtau c c3 fn hc dP00 dP01 dP02 dP10 dP11 dP12 dP20 dP21 dP22 F0 F1 F2 s0 s1 s2 h0 h1 h2 hF0 hF1 hF2]
  refine TracksL.hasDerivAt ?_ i
  simp only [gen_simp]
  track_list
  all_goals (dual_simp; first | exact mul_ne_zero hF1 hF2 | exact mul_ne_zero hF0 hF2 | exact mul_ne_zero hF0 hF1)

/-- analytic form of `N2_t_tpldC`: derivative at `t = 0` of `t ↦ f (x + t h)`, component `i` -/
theorem N2_t_tpldC_hasDerivAt (hc : c * c = 2) (A0 A1 A2 A3 A4 B0 B1 B2 B3 B4 C00 C01 C02 C03 C04 C10 C11 C12 C13 C14 C20 C21 C22 C23 C24 C30 C31 C32 C33 C34 C40 C41 C42 C43 C44 h0 h1 h2 h3 h4 : ℝ) (i : ℕ) :
    HasDerivAt (fun t : ℝ => (Gen.N2_t_prod_all c c3 fn (A0 + t * (dot [C00, C01, C02, C03, C04] [h0, h1, h2, h3, h4])) (A1 + t * (dot [C10, C11, C12, C13, C14] [h0, h1, h2, h3, h4])) (A2 + t * (dot [C20, C21, C22, C23, C24] [h0, h1, h2, h3, h4])) (A3 + t * (dot [C30, C31, C32, C33, C34] [h0, h1, h2, h3, h4])) (A4 + t * (dot [C40, C41, C42, C43, C44] [h0, h1, h2, h3, h4])) B0 B1 B2 B3 B4).getD i 0)
      ((mv 5 (Gen.N2_t_tpldC_all c c3 fn B0 B1 B2 B3 B4 C00 C01 C02 C03 C04 C10 C11 C12 C13 C14 C20 C21 C22 C23 C24 C30 C31 C32 C33 C34 C40 C41 C42 C43 C44) [h0, h1, h2, h3, h4]).getD i 0) 0 := by
  rw [← N2_t_tpldC c c3 fn hc A0 A1 A2 A3 A4 B0 B1 B2 B3 B4 C00 C01 C02 C03 C04 C10 C11 C12 C13 C14 C20 C21 C22 C23 C24 C30 C31 C32 C33 C34 C40 C41 C42 C43 C44 h0 h1 h2 h3 h4]
  refine TracksL.hasDerivAt ?_ i
  simp only [gen_simp]
  track_list

/-- analytic form of `N2_t_tprdC`: derivative at `t = 0` of `t ↦ f (x + t h)`, component `i` -/
theorem N2_t_tprdC_hasDerivAt (hc : c * c = 2) (A0 A1 A2 A3 A4 B0 B1 B2 B3 B4 C00 C01 C02 C03 C04 C10 C11 C12 C13 C14 C20 C21 C22 C23 C24 C30 C31 C32 C33 C34 C40 C41 C42 C43 C44 h0 h1 h2 h3 h4 : ℝ) (i : ℕ) :
    HasDerivAt (fun t : ℝ => (Gen.N2_t_prod_all c c3 fn A0 A1 A2 A3 A4 (B0 + t * (dot [C00, C01, C02, C03, C04] [h0, h1, h2, h3, h4])) (B1 + t * (dot [C10, C11, C12, C13, C14] [h0, h1, h2, h3, h4])) (B2 + t * (dot [C20, C21, C22, C23, C24] [h0, h1, h2, h3, h4])) (B3 + t * (dot [C30, C31, C32, C33, C34] [h0, h1, h2, h3, h4])) (B4 + t * (dot [C40, C41, C42, C43, C44] [h0, h1, h2, h3, h4]))).getD i 0)
      ((mv 5 (Gen.N2_t_tprdC_all c c3 fn A0 A1 A2 A3 A4 C00 C01 C02 C03 C04 C10 C11 C12 C13 C14 C20 C21 C22 C23 C24 C30 C31 C32 C33 C34 C40 C41 C42 C43 C44) [h0, h1, h2, h3, h4]).getD i 0) 0 := by
  rw [← N2_t_tprdC c c3 fn hc A0 A1 A2 A3 A4 B0 B1 B2 B3 B4 C00 C01 C02 C03 C04 C10 C11 C12 C13 C14 C20 C21 C22 C23 C24 C30 C31 C32 C33 C34 C40 C41 C42 C43 C44 h0 h1 h2 h3 h4]
  refine TracksL.hasDerivAt ?_ i
  simp only [gen_simp]
  track_list

/-- analytic form of `N2_dpk1`: derivative at `t = 0` of `t ↦ f (x + t h)`, component `i` -/
theorem N2_dpk1_hasDerivAt (hc : c * c = 2) (ds00 ds01 ds02 ds03 ds04 ds10 ds11 ds12 ds13 ds14 ds20 ds21 ds22 ds23 ds24 ds30 ds31 ds32 ds33 ds34 F0 F1 F2 F3 F4 s0 s1 s2 s3 h0 h1 h2 h3 h4 : ℝ) (i : ℕ) :
    HasDerivAt (fun t : ℝ => (Gen.N2_pk1_all c c3 fn (s0 + t * (dot [ds00, ds01, ds02, ds03, ds04] [h0, h1, h2, h3, h4])) (s1 + t * (dot [ds10, ds11, ds12, ds13, ds14] [h0, h1, h2, h3, h4])) (s2 + t * (dot [ds20, ds21, ds22, ds23, ds24] [h0, h1, h2, h3, h4])) (s3 + t * (dot [ds30, ds31, ds32, ds33, ds34] [h0, h1, h2, h3, h4])) (F0 + t * (h0)) (F1 + t * (h1)) (F2 + t * (h2)) (F3 + t * (h3)) (F4 + t * (h4))).getD i 0)
      ((mv 5 (Gen.N2_dpk1_all c c3 fn ds00 ds01 ds02 ds03 ds04 ds10 ds11 ds12 ds13 ds14 ds20 ds21 ds22 ds23 ds24 ds30 ds31 ds32 ds33 ds34 F0 F1 F2 F3 F4 s0 s1 s2 s3) [h0, h1, h2, h3, h4]).getD i 0) 0 := by
  rw [← N2_dpk1 c c3 fn hc ds00 ds01 ds02 ds03 ds04 ds10 ds11 ds12 ds13 ds14 ds20 ds21 ds22 ds23 ds24 ds30 ds31 ds32 ds33 ds34 F0 F1 F2 F3 F4 s0 s1 s2 s3 h0 h1 h2 h3 h4]
  refine TracksL.hasDerivAt ?_ i
  simp only [gen_simp]
  track_list

/-- analytic form of `N2_dtau`: derivative at `t = 0` of `t ↦ f (x + t h)`, component `i` -/
theorem N2_dtau_hasDerivAt (hc : c * c = 2) (dP00 dP01 dP02 dP03 dP04 dP10 dP11 dP12 dP13 dP14 dP20 dP21 dP22 dP23 dP24 dP30 dP31 dP32 dP33 dP34 dP40 dP41 dP42 dP43 dP44 F0 F1 F2 F3 F4 s0 s1 s2 s3 h0 h1 h2 h3 h4 : ℝ) (hJ : Gen.N2_t_det_r c c3 fn F0 F1 F2 F3 F4 ≠ 0) (i : ℕ) :
    HasDerivAt (fun t : ℝ => (Gen.N2_tau_all c c3 fn ((Gen.N2_pk1_r0 c c3 fn s0 s1 s2 s3 F0 F1 F2 F3 F4) + t * (dot [dP00, dP01, dP02, dP03, dP04] [h0, h1, h2, h3, h4])) ((Gen.N2_pk1_r1 c c3 fn s0 s1 s2 s3 F0 F1 F2 F3 F4) + t * (dot [dP10, dP11, dP12, dP13, dP14] [h0, h1, h2, h3, h4])) ((Gen.N2_pk1_r2 c c3 fn s0 s1 s2 s3 F0 F1 F2 F3 F4) + t * (dot [dP20, dP21, dP22, dP23, dP24] [h0, h1, h2, h3, h4])) ((Gen.N2_pk1_r3 c c3 fn s0 s1 s2 s3 F0 F1 F2 F3 F4) + t * (dot [dP30, dP31, dP32, dP33, dP34] [h0, h1, h2, h3, h4])) ((Gen.N2_pk1_r4 c c3 fn s0 s1 s2 s3 F0 F1 F2 F3 F4) + t * (dot [dP40, dP41, dP42, dP43, dP44] [h0, h1, h2, h3, h4])) (F0 + t * (h0)) (F1 + t * (h1)) (F2 + t * (h2)) (F3 + t * (h3)) (F4 + t * (h4))).getD i 0)
      ((mv 4 (Gen.N2_dtau_all c c3 fn dP00 dP01 dP02 dP03 dP04 dP10 dP11 dP12 dP13 dP14 dP20 dP21 dP22 dP23 dP24 dP30 dP31 dP32 dP33 dP34 dP40 dP41 dP42 dP43 dP44 F0 F1 F2 F3 F4 s0 s1 s2 s3) [h0, h1, h2, h3, h4]).getD i 0) 0 := by
  rw [← N2_dtau c c3 fn hc dP00 dP01 dP02 dP03 dP04 dP10 dP11 dP12 dP13 dP14 dP20 dP21 dP22 dP23 dP24 dP30 dP31 dP32 dP33 dP34 dP40 dP41 dP42 dP43 dP44 F0 F1 F2 F3 F4 s0 s1 s2 s3 h0 h1 h2 h3 h4 hJ]
  refine TracksL.hasDerivAt ?_ i
  simp only [gen_simp]
  track_list
  all_goals (simp only [gen_simp] at hJ; dual_simp; exact hJ)

/-- analytic form of `N3_t_tpldC`: derivative at `t = 0` of `t ↦ f (x + t h)`, component `i` -/
theorem N3_t_tpldC_hasDerivAt (hc : c * c = 2) (A0 A1 A2 A3 A4 A5 A6 A7 A8 B0 B1 B2 B3 B4 B5 B6 B7 B8 C00 C01 C02 C03 C04 C05 C06 C07 C08 C10 C11 C12 C13 C14 C15 C16 C17 C18 C20 C21 C22 C23 C24 C25 C26 C27 C28 C30 C31 C32 C33 C34 C35 C36 C37 C38 C40 C41 C42 C43 C44 C45 C46 C47 C48 C50 C51 C52 C53 C54 C55 C56 C57 C58 C60 C61 C62 C63 C64 C65 C66 C67 C68 C70 C71 C72 C73 C74 C75 C76 C77 C78 C80 C81 C82 C83 C84 C85 C86 C87 C88 h0 h1 h2 h3 h4 h5 h6 h7 h8 : ℝ) (i : ℕ) :
    HasDerivAt (fun t : ℝ => (Gen.N3_t_prod_all c c3 fn (A0 + t * (dot [C00, C01, C02, C03, C04, C05, C06, C07, C08] [h0, h1, h2, h3, h4, h5, h6, h7, h8])) (A1 + t * (dot [C10, C11, C12, C13, C14, C15, C16, C17, C18] [h0, h1, h2, h3, h4, h5, h6, h7, h8])) (A2 + t * (dot [C20, C21, C22, C23, C24, C25, C26, C27, C28] [h0, h1, h2, h3, h4, h5, h6, h7, h8])) (A3 + t * (dot [C30, C31, C32, C33, C34, C35, C36, C37, C38] [h0, h1, h2, h3, h4, h5, h6, h7, h8])) (A4 + t * (dot [C40, C41, C42, C43, C44, C45, C46, C47, C48] [h0, h1, h2, h3, h4, h5, h6, h7, h8])) (A5 + t * (dot [C50, C51, C52, C53, C54, C55, C56, C57, C58] [h0, h1, h2, h3, h4, h5, h6, h7, h8])) (A6 + t * (dot [C60, C61, C62, C63, C64, C65, C66, C67, C68] [h0, h1, h2, h3, h4, h5, h6, h7, h8])) (A7 + t * (dot [C70, C71, C72, C73, C74, C75, C76, C77, C78] [h0, h1, h2, h3, h4, h5, h6, h7, h8])) (A8 + t * (dot [C80, C81, C82, C83, C84, C85, C86, C87, C88] [h0, h1, h2, h3, h4, h5, h6, h7, h8])) B0 B1 B2 B3 B4 B5 B6 B7 B8).getD i 0)
      ((mv 9 (Gen.N3_t_tpldC_all c c3 fn B0 B1 B2 B3 B4 B5 B6 B7 B8 C00 C01 C02 C03 C04 C05 C06 C07 C08 C10 C11 C12 C13 C14 C15 C16 C17 C18 C20 C21 C22 C23 C24 C25 C26 C27 C28 C30 C31 C32 C33 C34 C35 C36 C37 C38 C40 C41 C42 C43 C44 C45 C46 C47 C48 C50 C51 C52 C53 C54 C55 C56 C57 C58 C60 C61 C62 C63 C64 C65 C66 C67 C68 C70 C71 C72 C73 C74 C75 C76 C77 C78 C80 C81 C82 C83 C84 C85 C86 C87 C88) [h0, h1, h2, h3, h4, h5, h6, h7, h8]).getD i 0) 0 := by
  rw [← N3_t_tpldC c c3 fn hc A0 A1 A2 A3 A4 A5 A6 A7 A8 B0 B1 B2 B3 B4 B5 B6 B7 B8 C00 C01 C02 C03 C04 C05 C06 C07 C08 C10 C11 C12 C13 C14 C15 C16 C17 C18 C20 C21 C22 C23 C24 C25 C26 C27 C28 C30 C31 C32 C33 C34 C35 C36 C37 C38 C40 C41 C42 C43 C44 C45 C46 C47 C48 C50 C51 C52 C53 C54 C55 C56 C57 C58 C60 C61 C62 C63 C64 C65 C66 C67 C68 C70 C71 C72 C73 C74 C75 C76 C77 C78 C80 C81 C82 C83 C84 C85 C86 C87 C88 h0 h1 h2 h3 h4 h5 h6 h7 h8]
  refine TracksL.hasDerivAt ?_ i
  simp only [gen_simp]
  track_list

/-- analytic form of `N3_t_tprdC`: derivative at `t = 0` of `t ↦ f (x + t h)`, component `i` -/
theorem N3_t_tprdC_hasDerivAt (hc : c * c = 2) (A0 A1 A2 A3 A4 A5 A6 A7 A8 B0 B1 B2 B3 B4 B5 B6 B7 B8 C00 C01 C02 C03 C04 C05 C06 C07 C08 C10 C11 C12 C13 C14 C15 C16 C17 C18 C20 C21 C22 C23 C24 C25 C26 C27 C28 C30 C31 C32 C33 C34 C35 C36 C37 C38 C40 C41 C42 C43 C44 C45 C46 C47 C48 C50 C51 C52 C53 C54 C55 C56 C57 C58 C60 C61 C62 C63 C64 C65 C66 C67 C68 C70 C71 C72 C73 C74 C75 C76 C77 C78 C80 C81 C82 C83 C84 C85 C86 C87 C88 h0 h1 h2 h3 h4 h5 h6 h7 h8 : ℝ) (i : ℕ) :
    HasDerivAt (fun t : ℝ => (Gen.N3_t_prod_all c c3 fn A0 A1 A2 A3 A4 A5 A6 A7 A8 (B0 + t * (dot [C00, C01, C02, C03, C04, C05, C06, C07, C08] [h0, h1, h2, h3, h4, h5, h6, h7, h8])) (B1 + t * (dot [C10, C11, C12, C13, C14, C15, C16, C17, C18] [h0, h1, h2, h3, h4, h5, h6, h7, h8])) (B2 + t * (dot [C20, C21, C22, C23, C24, C25, C26, C27, C28] [h0, h1, h2, h3, h4, h5, h6, h7, h8])) (B3 + t * (dot [C30, C31, C32, C33, C34, C35, C36, C37, C38] [h0, h1, h2, h3, h4, h5, h6, h7, h8])) (B4 + t * (dot [C40, C41, C42, C43, C44, C45, C46, C47, C48] [h0, h1, h2, h3, h4, h5, h6, h7, h8])) (B5 + t * (dot [C50, C51, C52, C53, C54, C55, C56, C57, C58] [h0, h1, h2, h3, h4, h5, h6, h7, h8])) (B6 + t * (dot [C60, C61, C62, C63, C64, C65, C66, C67, C68] [h0, h1, h2, h3, h4, h5, h6, h7, h8])) (B7 + t * (dot [C70, C71, C72, C73, C74, C75, C76, C77, C78] [h0, h1, h2, h3, h4, h5, h6, h7, h8])) (B8 + t * (dot [C80, C81, C82, C83, C84, C85, C86, C87, C88] [h0, h1, h2, h3, h4, h5, h6, h7, h8]))).getD i 0)
      ((mv 9 (Gen.N3_t_tprdC_all c c3 fn A0 A1 A2 A3 A4 A5 A6 A7 A8 C00 C01 C02 C03 C04 C05 C06 C07 C08 C10 C11 C12 C13 C14 C15 C16 C17 C18 C20 C21 C22 C23 C24 C25 C26 C27 C28 C30 C31 C32 C33 C34 C35 C36 C37 C38 C40 C41 C42 C43 C44 C45 C46 C47 C48 C50 C51 C52 C53 C54 C55 C56 C57 C58 C60 C61 C62 C63 C64 C65 C66 C67 C68 C70 C71 C72 C73 C74 C75 C76 C77 C78 C80 C81 C82 C83 C84 C85 C86 C87 C88) [h0, h1, h2, h3, h4, h5, h6, h7, h8]).getD i 0) 0 := by
  rw [← N3_t_tprdC c c3 fn hc A0 A1 A2 A3 A4 A5 A6 A7 A8 B0 B1 B2 B3 B4 B5 B6 B7 B8 C00 C01 C02 C03 C04 C05 C06 C07 C08 C10 C11 C12 C13 C14 C15 C16 C17 C18 C20 C21 C22 C23 C24 C25 C26 C27 C28 C30 C31 C32 C33 C34 C35 C36 C37 C38 C40 C41 C42 C43 C44 C45 C46 C47 C48 C50 C51 C52 C53 C54 C55 C56 C57 C58 C60 C61 C62 C63 C64 C65 C66 C67 C68 C70 C71 C72 C73 C74 C75 C76 C77 C78 C80 C81 C82 C83 C84 C85 C86 C87 C88 h0 h1 h2 h3 h4 h5 h6 h7 h8]
  refine TracksL.hasDerivAt ?_ i
  simp only [gen_simp]
  track_list

/-- analytic form of `N3_dpk1`: derivative at `t = 0` of `t ↦ f (x + t h)`, component `i` -/
theorem N3_dpk1_hasDerivAt (hc : c * c = 2) (ds00 ds01 ds02 ds03 ds04 ds05 ds06 ds07 ds08 ds10 ds11 ds12 ds13 ds14 ds15 ds16 ds17 ds18 ds20 ds21 ds22 ds23 ds24 ds25 ds26 ds27 ds28 ds30 ds31 ds32 ds33 ds34 ds35 ds36 ds37 ds38 ds40 ds41 ds42 ds43 ds44 ds45 ds46 ds47 ds48 ds50 ds51 ds52 ds53 ds54 ds55 ds56 ds57 ds58 F0 F1 F2 F3 F4 F5 F6 F7 F8 s0 s1 s2 s3 s4 s5 h0 h1 h2 h3 h4 h5 h6 h7 h8 : ℝ) (i : ℕ) :
    HasDerivAt (fun t : ℝ => (Gen.N3_pk1_all c c3 fn (s0 + t * (dot [ds00, ds01, ds02, ds03, ds04, ds05, ds06, ds07, ds08] [h0, h1, h2, h3, h4, h5, h6, h7, h8])) (s1 + t * (dot [ds10, ds11, ds12, ds13, ds14, ds15, ds16, ds17, ds18] [h0, h1, h2, h3, h4, h5, h6, h7, h8])) (s2 + t * (dot [ds20, ds21, ds22, ds23, ds24, ds25, ds26, ds27, ds28] [h0, h1, h2, h3, h4, h5, h6, h7, h8])) (s3 + t * (dot [ds30, ds31, ds32, ds33, ds34, ds35, ds36, ds37, ds38] [h0, h1, h2, h3, h4, h5, h6, h7, h8])) (s4 + t * (dot [ds40, ds41, ds42, ds43, ds44, ds45, ds46, ds47, ds48] [h0, h1, h2, h3, h4, h5, h6, h7, h8])) (s5 + t * (dot [ds50, ds51, ds52, ds53, ds54, ds55, ds56, ds57, ds58] [h0, h1, h2, h3, h4, h5, h6, h7, h8])) (F0 + t * (h0)) (F1 + t * (h1)) (F2 + t * (h2)) (F3 + t * (h3)) (F4 + t * (h4)) (F5 + t * (h5)) (F6 + t * (h6)) (F7 + t * (h7)) (F8 + t * (h8))).getD i 0)
      ((mv 9 (Gen.N3_dpk1_all c c3 fn ds00 ds01 ds02 ds03 ds04 ds05 ds06 ds07 ds08 ds10 ds11 ds12 ds13 ds14 ds15 ds16 ds17 ds18 ds20 ds21 ds22 ds23 ds24 ds25 ds26 ds27 ds28 ds30 ds31 ds32 ds33 ds34 ds35 ds36 ds37 ds38 ds40 ds41 ds42 ds43 ds44 ds45 ds46 ds47 ds48 ds50 ds51 ds52 ds53 ds54 ds55 ds56 ds57 ds58 F0 F1 F2 F3 F4 F5 F6 F7 F8 s0 s1 s2 s3 s4 s5) [h0, h1, h2, h3, h4, h5, h6, h7, h8]).getD i 0) 0 := by
  rw [← N3_dpk1 c c3 fn hc ds00 ds01 ds02 ds03 ds04 ds05 ds06 ds07 ds08 ds10 ds11 ds12 ds13 ds14 ds15 ds16 ds17 ds18 ds20 ds21 ds22 ds23 ds24 ds25 ds26 ds27 ds28 ds30 ds31 ds32 ds33 ds34 ds35 ds36 ds37 ds38 ds40 ds41 ds42 ds43 ds44 ds45 ds46 ds47 ds48 ds50 ds51 ds52 ds53 ds54 ds55 ds56 ds57 ds58 F0 F1 F2 F3 F4 F5 F6 F7 F8 s0 s1 s2 s3 s4 s5 h0 h1 h2 h3 h4 h5 h6 h7 h8]
  refine TracksL.hasDerivAt ?_ i
  simp only [gen_simp]
  track_list

/-- analytic form of `N3_dtau`: derivative at `t = 0` of `t ↦ f (x + t h)`, component `i` -/
theorem N3_dtau_hasDerivAt (hc : c * c = 2) (dP00 dP01 dP02 dP03 dP04 dP05 dP06 dP07 dP08 dP10 dP11 dP12 dP13 dP14 dP15 dP16 dP17 dP18 dP20 dP21 dP22 dP23 dP24 dP25 dP26 dP27 dP28 dP30 dP31 dP32 dP33 dP34 dP35 dP36 dP37 dP38 dP40 dP41 dP42 dP43 dP44 dP45 dP46 dP47 dP48 dP50 dP51 dP52 dP53 dP54 dP55 dP56 dP57 dP58 dP60 dP61 dP62 dP63 dP64 dP65 dP66 dP67 dP68 dP70 dP71 dP72 dP73 dP74 dP75 dP76 dP77 dP78 dP80 dP81 dP82 dP83 dP84 dP85 dP86 dP87 dP88 F0 F1 F2 F3 F4 F5 F6 F7 F8 s0 s1 s2 s3 s4 s5 h0 h1 h2 h3 h4 h5 h6 h7 h8 : ℝ) (hJ : Gen.N3_t_det_r c c3 fn F0 F1 F2 F3 F4 F5 F6 F7 F8 ≠ 0) (i : ℕ) :
    HasDerivAt (fun t : ℝ => (Gen.N3_tau_all c c3 fn ((Gen.N3_pk1_r0 c c3 fn s0 s1 s2 s3 s4 s5 F0 F1 F2 F3 F4 F5 F6 F7 F8) + t * (dot [dP00, dP01, dP02, dP03, dP04, dP05, dP06, dP07, dP08] [h0, h1, h2, h3, h4, h5, h6, h7, h8])) ((Gen.N3_pk1_r1 c c3 fn s0 s1 s2 s3 s4 s5 F0 F1 F2 F3 F4 F5 F6 F7 F8) + t * (dot [dP10, dP11, dP12, dP13, dP14, dP15, dP16, dP17, dP18] [h0, h1, h2, h3, h4, h5, h6, h7, h8])) ((Gen.N3_pk1_r2 c c3 fn s0 s1 s2 s3 s4 s5 F0 F1 F2 F3 F4 F5 F6 F7 F8) + t * (dot [dP20, dP21, dP22, dP23, dP24, dP25, dP26, dP27, dP28] [h0, h1, h2, h3, h4, h5, h6, h7, h8])) ((Gen.N3_pk1_r3 c c3 fn s0 s1 s2 s3 s4 s5 F0 F1 F2 F3 F4 F5 F6 F7 F8) + t * (dot [dP30, dP31, dP32, dP33, dP34, dP35, dP36, dP37, dP38] [h0, h1, h2, h3, h4, h5, h6, h7, h8])) ((Gen.N3_pk1_r4 c c3 fn s0 s1 s2 s3 s4 s5 F0 F1 F2 F3 F4 F5 F6 F7 F8) + t * (dot [dP40, dP41, dP42, dP43, dP44, dP45, dP46, dP47, dP48] [h0, h1, h2, h3, h4, h5, h6, h7, h8])) ((Gen.N3_pk1_r5 c c3 fn s0 s1 s2 s3 s4 s5 F0 F1 F2 F3 F4 F5 F6 F7 F8) + t * (dot [dP50, dP51, dP52, dP53, dP54, dP55, dP56, dP57, dP58] [h0, h1, h2, h3, h4, h5, h6, h7, h8])) ((Gen.N3_pk1_r6 c c3 fn s0 s1 s2 s3 s4 s5 F0 F1 F2 F3 F4 F5 F6 F7 F8) + t * (dot [dP60, dP61, dP62, dP63, dP64, dP65, dP66, dP67, dP68] [h0, h1, h2, h3, h4, h5, h6, h7, h8])) ((Gen.N3_pk1_r7 c c3 fn s0 s1 s2 s3 s4 s5 F0 F1 F2 F3 F4 F5 F6 F7 F8) + t * (dot [dP70, dP71, dP72, dP73, dP74, dP75, dP76, dP77, dP78] [h0, h1, h2, h3, h4, h5, h6, h7, h8])) ((Gen.N3_pk1_r8 c c3 fn s0 s1 s2 s3 s4 s5 F0 F1 F2 F3 F4 F5 F6 F7 F8) + t * (dot [dP80, dP81, dP82, dP83, dP84, dP85, dP86, dP87, dP88] [h0, h1, h2, h3, h4, h5, h6, h7, h8])) (F0 + t * (h0)) (F1 + t * (h1)) (F2 + t * (h2)) (F3 + t * (h3)) (F4 + t * (h4)) (F5 + t * (h5)) (F6 + t * (h6)) (F7 + t * (h7)) (F8 + t * (h8))).getD i 0)
      ((mv 6 (Gen.N3_dtau_all c c3 fn dP00 dP01 dP02 dP03 dP04 dP05 dP06 dP07 dP08 dP10 dP11 dP12 dP13 dP14 dP15 dP16 dP17 dP18 dP20 dP21 dP22 dP23 dP24 dP25 dP26 dP27 dP28 dP30 dP31 dP32 dP33 dP34 dP35 dP36 dP37 dP38 dP40 dP41 dP42 dP43 dP44 dP45 dP46 dP47 dP48 dP50 dP51 dP52 dP53 dP54 dP55 dP56 dP57 dP58 dP60 dP61 dP62 dP63 dP64 dP65 dP66 dP67 dP68 dP70 dP71 dP72 dP73 dP74 dP75 dP76 dP77 dP78 dP80 dP81 dP82 dP83 dP84 dP85 dP86 dP87 dP88 F0 F1 F2 F3 F4 F5 F6 F7 F8 s0 s1 s2 s3 s4 s5) [h0, h1, h2, h3, h4, h5, h6, h7, h8]).getD i 0) 0 := by
  rw [← N3_dtau c c3 fn hc dP00 dP01 dP02 dP03 dP04 dP05 dP06 dP07 dP08 dP10 dP11 dP12 dP13 dP14 dP15 dP16 dP17 dP18 dP20 dP21 dP22 dP23 dP24 dP25 dP26 dP27 dP28 dP30 dP31 dP32 dP33 dP34 dP35 dP36 dP37 dP38 dP40 dP41 dP42 dP43 dP44 dP45 dP46 dP47 dP48 dP50 dP51 dP52 dP53 dP54 dP55 dP56 dP57 dP58 dP60 dP61 dP62 dP63 dP64 dP65 dP66 dP67 dP68 dP70 dP71 dP72 dP73 dP74 dP75 dP76 dP77 dP78 dP80 dP81 dP82 dP83 dP84 dP85 dP86 dP87 dP88 F0 F1 F2 F3 F4 F5 F6 F7 F8 s0 s1 s2 s3 s4 s5 h0 h1 h2 h3 h4 h5 h6 h7 h8 hJ]
  refine TracksL.hasDerivAt ?_ i
  simp only [gen_simp]
  track_list
  all_goals (simp only [gen_simp] at hJ; dual_simp; exact hJ)

end TfelVerif.C06.PropsReal2
