/-
  C06 — Closed-form derivative helpers are true derivatives.  Part 4: first Piola-Kirchhoff stress derivative conversions.

  Property theorems only. `Gen.*` are the definitions regenerated on every run by instantiating the
  real TFEL templates with a recording scalar (harness/C06/trace.cxx), emitted over
  `[CommRing K] [Div K]` so that the generated code itself can be evaluated on the dual numbers
  `Dual K = K[ε]/(ε²)` (Lemmas.lean: a commutative ring, every axiom proved; `/` is the quotient rule).

  Shape of every theorem. For a helper `D` documented as the derivative of `f`:
      (f_code (x₀ + ε h₀) (x₁ + ε h₁) …).map eps = D_code(x) · h          for all x and all h,
  i.e. the ε part of the code of `f` run at `x + ε h` (formal directional derivative of the rational
  function computed by the code, along an arbitrary direction `h`) is the matrix returned by `D`
  applied to `h`. `⟨x, h⟩ : Dual K` is `x + ε h`; `mv m M h` is the flat row-major `m × |h|` matrix `M`
  times `h`. Symmetric tensors are differentiated with respect to their stored (Mandel) components,
  non symmetric ones with respect to their stored components, as the library does
  (`D(i,j) = ∂fᵢ/∂xⱼ`). PropsReal.lean turns each statement into `HasDerivAt` over ℝ.

  Standing hypotheses: `c * c = 2` (`c` is √2, `Cste<T>::sqrt2`), characteristic 0.
  Non-vacuity: ℝ with `c = √2` (Common/Model.lean, PropsReal.lean instantiates every theorem there).
-/
import TfelVerif.Common.Mandel
import TfelVerif.C06.Lemmas
import TfelVerif.C06.GenN1
import TfelVerif.C06.GenN2
import TfelVerif.C06.GenN3b
import TfelVerif.C06.GenN3e
import TfelVerif.C06.GenN3f

namespace TfelVerif.C06.PropsPK
open TfelVerif TfelVerif.Mandel TfelVerif.C06
set_option linter.unusedVariables false
set_option linter.unusedSectionVars false
set_option maxRecDepth 100000

variable {K : Type} [Field K] [CharZero K] (c c3 : K) (fn : Fns K)

/-- `convertCauchyStressDerivativeToFirstPiolaKirchoffStressDerivative(ds, F, s)` is the derivative with respect to `F` of `convertCauchyStressToFirstPiolaKirchhoffStress(s(F), F)` when `ds` is the derivative of `s` -/
theorem N1_dpk1 (hc : c * c = 2) (ds00 ds01 ds02 ds10 ds11 ds12 ds20 ds21 ds22 F0 F1 F2 s0 s1 s2 h0 h1 h2 : K) :
    (Gen.N1_pk1_all (Dual.const c) (Dual.const c3) (dualFns K) ⟨s0, dot [ds00, ds01, ds02] [h0, h1, h2]⟩ ⟨s1, dot [ds10, ds11, ds12] [h0, h1, h2]⟩ ⟨s2, dot [ds20, ds21, ds22] [h0, h1, h2]⟩ ⟨F0, h0⟩ ⟨F1, h1⟩ ⟨F2, h2⟩).map Dual.eps
      = mv 3 (Gen.N1_dpk1_all c c3 fn ds00 ds01 ds02 ds10 ds11 ds12 ds20 ds21 ds22 F0 F1 F2 s0 s1 s2) [h0, h1, h2] := by
  dual_eq hc

/-- `convertFirstPiolaKirchoffStressDerivativeToKirchhoffStressDerivative(dP, F, s)` is the derivative with respect to `F` of the Kirchhoff stress `det(F) * convertFirstPiolaKirchhoffStressToCauchyStress(P(F), F)` when `dP` is the derivative of `P` and `P = convertCauchyStressToFirstPiolaKirchhoffStress(s, F)` at the point considered -/
theorem N1_dtau (hc : c * c = 2) (dP00 dP01 dP02 dP10 dP11 dP12 dP20 dP21 dP22 F0 F1 F2 s0 s1 s2 h0 h1 h2 : K) (hF0 : F0 ≠ 0) (hF1 : F1 ≠ 0) (hF2 : F2 ≠ 0) :
    (Gen.N1_tau_all (Dual.const c) (Dual.const c3) (dualFns K) ⟨(Gen.N1_pk1_r0 c c3 fn s0 s1 s2 F0 F1 F2), dot [dP00, dP01, dP02] [h0, h1, h2]⟩ ⟨(Gen.N1_pk1_r1 c c3 fn s0 s1 s2 F0 F1 F2), dot [dP10, dP11, dP12] [h0, h1, h2]⟩ ⟨(Gen.N1_pk1_r2 c c3 fn s0 s1 s2 F0 F1 F2), dot [dP20, dP21, dP22] [h0, h1, h2]⟩ ⟨F0, h0⟩ ⟨F1, h1⟩ ⟨F2, h2⟩).map Dual.eps
      = mv 3 (Gen.N1_dtau_all c c3 fn dP00 dP01 dP02 dP10 dP11 dP12 dP20 dP21 dP22 F0 F1 F2 s0 s1 s2) [h0, h1, h2] := by
  dual_eq_den1 hc

/-- `convertCauchyStressDerivativeToFirstPiolaKirchoffStressDerivative(ds, F, s)` is the derivative with respect to `F` of `convertCauchyStressToFirstPiolaKirchhoffStress(s(F), F)` when `ds` is the derivative of `s` -/
theorem N2_dpk1 (hc : c * c = 2) (ds00 ds01 ds02 ds03 ds04 ds10 ds11 ds12 ds13 ds14 ds20 ds21 ds22 ds23 ds24 ds30 ds31 ds32 ds33 ds34 F0 F1 F2 F3 F4 s0 s1 s2 s3 h0 h1 h2 h3 h4 : K) :
    (Gen.N2_pk1_all (Dual.const c) (Dual.const c3) (dualFns K) ⟨s0, dot [ds00, ds01, ds02, ds03, ds04] [h0, h1, h2, h3, h4]⟩ ⟨s1, dot [ds10, ds11, ds12, ds13, ds14] [h0, h1, h2, h3, h4]⟩ ⟨s2, dot [ds20, ds21, ds22, ds23, ds24] [h0, h1, h2, h3, h4]⟩ ⟨s3, dot [ds30, ds31, ds32, ds33, ds34] [h0, h1, h2, h3, h4]⟩ ⟨F0, h0⟩ ⟨F1, h1⟩ ⟨F2, h2⟩ ⟨F3, h3⟩ ⟨F4, h4⟩).map Dual.eps
      = mv 5 (Gen.N2_dpk1_all c c3 fn ds00 ds01 ds02 ds03 ds04 ds10 ds11 ds12 ds13 ds14 ds20 ds21 ds22 ds23 ds24 ds30 ds31 ds32 ds33 ds34 F0 F1 F2 F3 F4 s0 s1 s2 s3) [h0, h1, h2, h3, h4] := by
  dual_eq hc

/-- `convertFirstPiolaKirchoffStressDerivativeToKirchhoffStressDerivative(dP, F, s)` is the derivative with respect to `F` of the Kirchhoff stress `det(F) * convertFirstPiolaKirchhoffStressToCauchyStress(P(F), F)` when `dP` is the derivative of `P` and `P = convertCauchyStressToFirstPiolaKirchhoffStress(s, F)` at the point considered -/
theorem N2_dtau (hc : c * c = 2) (dP00 dP01 dP02 dP03 dP04 dP10 dP11 dP12 dP13 dP14 dP20 dP21 dP22 dP23 dP24 dP30 dP31 dP32 dP33 dP34 dP40 dP41 dP42 dP43 dP44 F0 F1 F2 F3 F4 s0 s1 s2 s3 h0 h1 h2 h3 h4 : K) (hJ : Gen.N2_t_det_r c c3 fn F0 F1 F2 F3 F4 ≠ 0) :
    (Gen.N2_tau_all (Dual.const c) (Dual.const c3) (dualFns K) ⟨(Gen.N2_pk1_r0 c c3 fn s0 s1 s2 s3 F0 F1 F2 F3 F4), dot [dP00, dP01, dP02, dP03, dP04] [h0, h1, h2, h3, h4]⟩ ⟨(Gen.N2_pk1_r1 c c3 fn s0 s1 s2 s3 F0 F1 F2 F3 F4), dot [dP10, dP11, dP12, dP13, dP14] [h0, h1, h2, h3, h4]⟩ ⟨(Gen.N2_pk1_r2 c c3 fn s0 s1 s2 s3 F0 F1 F2 F3 F4), dot [dP20, dP21, dP22, dP23, dP24] [h0, h1, h2, h3, h4]⟩ ⟨(Gen.N2_pk1_r3 c c3 fn s0 s1 s2 s3 F0 F1 F2 F3 F4), dot [dP30, dP31, dP32, dP33, dP34] [h0, h1, h2, h3, h4]⟩ ⟨(Gen.N2_pk1_r4 c c3 fn s0 s1 s2 s3 F0 F1 F2 F3 F4), dot [dP40, dP41, dP42, dP43, dP44] [h0, h1, h2, h3, h4]⟩ ⟨F0, h0⟩ ⟨F1, h1⟩ ⟨F2, h2⟩ ⟨F3, h3⟩ ⟨F4, h4⟩).map Dual.eps
      = mv 4 (Gen.N2_dtau_all c c3 fn dP00 dP01 dP02 dP03 dP04 dP10 dP11 dP12 dP13 dP14 dP20 dP21 dP22 dP23 dP24 dP30 dP31 dP32 dP33 dP34 dP40 dP41 dP42 dP43 dP44 F0 F1 F2 F3 F4 s0 s1 s2 s3) [h0, h1, h2, h3, h4] := by
  dual_eq_den hc with hJ

/-- `convertCauchyStressDerivativeToFirstPiolaKirchoffStressDerivative(ds, F, s)` is the derivative with respect to `F` of `convertCauchyStressToFirstPiolaKirchhoffStress(s(F), F)` when `ds` is the derivative of `s` -/
theorem N3_dpk1 (hc : c * c = 2) (ds00 ds01 ds02 ds03 ds04 ds05 ds06 ds07 ds08 ds10 ds11 ds12 ds13 ds14 ds15 ds16 ds17 ds18 ds20 ds21 ds22 ds23 ds24 ds25 ds26 ds27 ds28 ds30 ds31 ds32 ds33 ds34 ds35 ds36 ds37 ds38 ds40 ds41 ds42 ds43 ds44 ds45 ds46 ds47 ds48 ds50 ds51 ds52 ds53 ds54 ds55 ds56 ds57 ds58 F0 F1 F2 F3 F4 F5 F6 F7 F8 s0 s1 s2 s3 s4 s5 h0 h1 h2 h3 h4 h5 h6 h7 h8 : K) :
    (Gen.N3_pk1_all (Dual.const c) (Dual.const c3) (dualFns K) ⟨s0, dot [ds00, ds01, ds02, ds03, ds04, ds05, ds06, ds07, ds08] [h0, h1, h2, h3, h4, h5, h6, h7, h8]⟩ ⟨s1, dot [ds10, ds11, ds12, ds13, ds14, ds15, ds16, ds17, ds18] [h0, h1, h2, h3, h4, h5, h6, h7, h8]⟩ ⟨s2, dot [ds20, ds21, ds22, ds23, ds24, ds25, ds26, ds27, ds28] [h0, h1, h2, h3, h4, h5, h6, h7, h8]⟩ ⟨s3, dot [ds30, ds31, ds32, ds33, ds34, ds35, ds36, ds37, ds38] [h0, h1, h2, h3, h4, h5, h6, h7, h8]⟩ ⟨s4, dot [ds40, ds41, ds42, ds43, ds44, ds45, ds46, ds47, ds48] [h0, h1, h2, h3, h4, h5, h6, h7, h8]⟩ ⟨s5, dot [ds50, ds51, ds52, ds53, ds54, ds55, ds56, ds57, ds58] [h0, h1, h2, h3, h4, h5, h6, h7, h8]⟩ ⟨F0, h0⟩ ⟨F1, h1⟩ ⟨F2, h2⟩ ⟨F3, h3⟩ ⟨F4, h4⟩ ⟨F5, h5⟩ ⟨F6, h6⟩ ⟨F7, h7⟩ ⟨F8, h8⟩).map Dual.eps
      = mv 9 (Gen.N3_dpk1_all c c3 fn ds00 ds01 ds02 ds03 ds04 ds05 ds06 ds07 ds08 ds10 ds11 ds12 ds13 ds14 ds15 ds16 ds17 ds18 ds20 ds21 ds22 ds23 ds24 ds25 ds26 ds27 ds28 ds30 ds31 ds32 ds33 ds34 ds35 ds36 ds37 ds38 ds40 ds41 ds42 ds43 ds44 ds45 ds46 ds47 ds48 ds50 ds51 ds52 ds53 ds54 ds55 ds56 ds57 ds58 F0 F1 F2 F3 F4 F5 F6 F7 F8 s0 s1 s2 s3 s4 s5) [h0, h1, h2, h3, h4, h5, h6, h7, h8] := by
  dual_eq hc

/-- `convertFirstPiolaKirchoffStressDerivativeToKirchhoffStressDerivative(dP, F, s)` is the derivative with respect to `F` of the Kirchhoff stress `det(F) * convertFirstPiolaKirchhoffStressToCauchyStress(P(F), F)` when `dP` is the derivative of `P` and `P = convertCauchyStressToFirstPiolaKirchhoffStress(s, F)` at the point considered -/
theorem N3_dtau (hc : c * c = 2) (dP00 dP01 dP02 dP03 dP04 dP05 dP06 dP07 dP08 dP10 dP11 dP12 dP13 dP14 dP15 dP16 dP17 dP18 dP20 dP21 dP22 dP23 dP24 dP25 dP26 dP27 dP28 dP30 dP31 dP32 dP33 dP34 dP35 dP36 dP37 dP38 dP40 dP41 dP42 dP43 dP44 dP45 dP46 dP47 dP48 dP50 dP51 dP52 dP53 dP54 dP55 dP56 dP57 dP58 dP60 dP61 dP62 dP63 dP64 dP65 dP66 dP67 dP68 dP70 dP71 dP72 dP73 dP74 dP75 dP76 dP77 dP78 dP80 dP81 dP82 dP83 dP84 dP85 dP86 dP87 dP88 F0 F1 F2 F3 F4 F5 F6 F7 F8 s0 s1 s2 s3 s4 s5 h0 h1 h2 h3 h4 h5 h6 h7 h8 : K) (hJ : Gen.N3_t_det_r c c3 fn F0 F1 F2 F3 F4 F5 F6 F7 F8 ≠ 0) :
    (Gen.N3_tau_all (Dual.const c) (Dual.const c3) (dualFns K) ⟨(Gen.N3_pk1_r0 c c3 fn s0 s1 s2 s3 s4 s5 F0 F1 F2 F3 F4 F5 F6 F7 F8), dot [dP00, dP01, dP02, dP03, dP04, dP05, dP06, dP07, dP08] [h0, h1, h2, h3, h4, h5, h6, h7, h8]⟩ ⟨(Gen.N3_pk1_r1 c c3 fn s0 s1 s2 s3 s4 s5 F0 F1 F2 F3 F4 F5 F6 F7 F8), dot [dP10, dP11, dP12, dP13, dP14, dP15, dP16, dP17, dP18] [h0, h1, h2, h3, h4, h5, h6, h7, h8]⟩ ⟨(Gen.N3_pk1_r2 c c3 fn s0 s1 s2 s3 s4 s5 F0 F1 F2 F3 F4 F5 F6 F7 F8), dot [dP20, dP21, dP22, dP23, dP24, dP25, dP26, dP27, dP28] [h0, h1, h2, h3, h4, h5, h6, h7, h8]⟩ ⟨(Gen.N3_pk1_r3 c c3 fn s0 s1 s2 s3 s4 s5 F0 F1 F2 F3 F4 F5 F6 F7 F8), dot [dP30, dP31, dP32, dP33, dP34, dP35, dP36, dP37, dP38] [h0, h1, h2, h3, h4, h5, h6, h7, h8]⟩ ⟨(Gen.N3_pk1_r4 c c3 fn s0 s1 s2 s3 s4 s5 F0 F1 F2 F3 F4 F5 F6 F7 F8), dot [dP40, dP41, dP42, dP43, dP44, dP45, dP46, dP47, dP48] [h0, h1, h2, h3, h4, h5, h6, h7, h8]⟩ ⟨(Gen.N3_pk1_r5 c c3 fn s0 s1 s2 s3 s4 s5 F0 F1 F2 F3 F4 F5 F6 F7 F8), dot [dP50, dP51, dP52, dP53, dP54, dP55, dP56, dP57, dP58] [h0, h1, h2, h3, h4, h5, h6, h7, h8]⟩ ⟨(Gen.N3_pk1_r6 c c3 fn s0 s1 s2 s3 s4 s5 F0 F1 F2 F3 F4 F5 F6 F7 F8), dot [dP60, dP61, dP62, dP63, dP64, dP65, dP66, dP67, dP68] [h0, h1, h2, h3, h4, h5, h6, h7, h8]⟩ ⟨(Gen.N3_pk1_r7 c c3 fn s0 s1 s2 s3 s4 s5 F0 F1 F2 F3 F4 F5 F6 F7 F8), dot [dP70, dP71, dP72, dP73, dP74, dP75, dP76, dP77, dP78] [h0, h1, h2, h3, h4, h5, h6, h7, h8]⟩ ⟨(Gen.N3_pk1_r8 c c3 fn s0 s1 s2 s3 s4 s5 F0 F1 F2 F3 F4 F5 F6 F7 F8), dot [dP80, dP81, dP82, dP83, dP84, dP85, dP86, dP87, dP88] [h0, h1, h2, h3, h4, h5, h6, h7, h8]⟩ ⟨F0, h0⟩ ⟨F1, h1⟩ ⟨F2, h2⟩ ⟨F3, h3⟩ ⟨F4, h4⟩ ⟨F5, h5⟩ ⟨F6, h6⟩ ⟨F7, h7⟩ ⟨F8, h8⟩).map Dual.eps
      = mv 6 (Gen.N3_dtau_all c c3 fn dP00 dP01 dP02 dP03 dP04 dP05 dP06 dP07 dP08 dP10 dP11 dP12 dP13 dP14 dP15 dP16 dP17 dP18 dP20 dP21 dP22 dP23 dP24 dP25 dP26 dP27 dP28 dP30 dP31 dP32 dP33 dP34 dP35 dP36 dP37 dP38 dP40 dP41 dP42 dP43 dP44 dP45 dP46 dP47 dP48 dP50 dP51 dP52 dP53 dP54 dP55 dP56 dP57 dP58 dP60 dP61 dP62 dP63 dP64 dP65 dP66 dP67 dP68 dP70 dP71 dP72 dP73 dP74 dP75 dP76 dP77 dP78 dP80 dP81 dP82 dP83 dP84 dP85 dP86 dP87 dP88 F0 F1 F2 F3 F4 F5 F6 F7 F8 s0 s1 s2 s3 s4 s5) [h0, h1, h2, h3, h4, h5, h6, h7, h8] := by
  dual_eq_den hc with hJ

end TfelVerif.C06.PropsPK
