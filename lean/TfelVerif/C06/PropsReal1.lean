/-
  C06 — Closed-form derivative helpers are true derivatives: analytic form over ℝ.

  Property theorems only. For every helper `D` of a function `f` (same pairs as PropsSt/T/TC/PK):
      HasDerivAt (fun t => (f_code (x + t h)).getD i 0) ((D_code(x) · h).getD i 0) 0      for all x, h, i,
  i.e. each component of the traced code of `f`, restricted to the line `t ↦ x + t h` through an
  arbitrary point `x` in an arbitrary direction `h`, is differentiable at `t = 0` and its derivative
  — the limit of the finite difference quotient `(f (x + t h) − f x) / t` — is the corresponding
  component of the matrix returned by the helper applied to `h`.

  Proof: `Tracks` (Lemmas.lean) relates, operation by operation, the real code along the line and
  the same code run on dual numbers (`track_list`, structural), which gives `HasDerivAt` with the
  ε part as derivative; the algebraic theorem of Props* identifies that ε part with `D · h`.
  `c` is any real with `c * c = 2` (√2: `TfelVerif.mandel_hypotheses_satisfiable`).
-/
import TfelVerif.Common.Model
import TfelVerif.C06.PropsSt
import TfelVerif.C06.PropsT

namespace TfelVerif.C06.PropsReal1
open TfelVerif TfelVerif.Mandel TfelVerif.C06
open TfelVerif.C06.PropsSt TfelVerif.C06.PropsT
set_option linter.unusedVariables false
set_option linter.unusedSectionVars false
set_option maxRecDepth 100000

variable (c c3 : ℝ) (fn : Fns ℝ)

/-- analytic form of `N1_st_ddet`: derivative at `t = 0` of `t ↦ f (x + t h)`, component `i` -/
theorem N1_st_ddet_hasDerivAt (hc : c * c = 2) (s0 s1 s2 h0 h1 h2 : ℝ) (i : ℕ) :
    HasDerivAt (fun t : ℝ => (Gen.N1_st_det_all c c3 fn (s0 + t * (h0)) (s1 + t * (h1)) (s2 + t * (h2))).getD i 0)
      ((mv 1 (Gen.N1_st_ddet_all c c3 fn s0 s1 s2) [h0, h1, h2]).getD i 0) 0 := by
  rw [← N1_st_ddet c c3 fn hc s0 s1 s2 h0 h1 h2]
  refine TracksL.hasDerivAt ?_ i
  simp only [gen_simp]
  track_list

/-- analytic form of `N1_st_d2det`: derivative at `t = 0` of `t ↦ f (x + t h)`, component `i` -/
theorem N1_st_d2det_hasDerivAt (hc : c * c = 2) (s0 s1 s2 h0 h1 h2 : ℝ) (i : ℕ) :
    HasDerivAt (fun t : ℝ => (Gen.N1_st_ddet_all c c3 fn (s0 + t * (h0)) (s1 + t * (h1)) (s2 + t * (h2))).getD i 0)
      ((mv 3 (Gen.N1_st_d2det_all c c3 fn s0 s1 s2) [h0, h1, h2]).getD i 0) 0 := by
  rw [← N1_st_d2det c c3 fn hc s0 s1 s2 h0 h1 h2]
  refine TracksL.hasDerivAt ?_ i
  simp only [gen_simp]
  track_list

/-- analytic form of `N1_st_ddevdet`: derivative at `t = 0` of `t ↦ f (x + t h)`, component `i` -/
theorem N1_st_ddevdet_hasDerivAt (hc : c * c = 2) (s0 s1 s2 h0 h1 h2 : ℝ) (i : ℕ) :
    HasDerivAt (fun t : ℝ => (Gen.N1_st_devdet_all c c3 fn (s0 + t * (h0)) (s1 + t * (h1)) (s2 + t * (h2))).getD i 0)
      ((mv 1 (Gen.N1_st_ddevdet_all c c3 fn s0 s1 s2) [h0, h1, h2]).getD i 0) 0 := by
  rw [← N1_st_ddevdet c c3 fn hc s0 s1 s2 h0 h1 h2]
  refine TracksL.hasDerivAt ?_ i
  simp only [gen_simp]
  track_list

/-- analytic form of `N1_st_d2devdet`: derivative at `t = 0` of `t ↦ f (x + t h)`, component `i` -/
theorem N1_st_d2devdet_hasDerivAt (hc : c * c = 2) (s0 s1 s2 h0 h1 h2 : ℝ) (i : ℕ) :
    HasDerivAt (fun t : ℝ => (Gen.N1_st_ddevdet_all c c3 fn (s0 + t * (h0)) (s1 + t * (h1)) (s2 + t * (h2))).getD i 0)
      ((mv 3 (Gen.N1_st_d2devdet_all c c3 fn s0 s1 s2) [h0, h1, h2]).getD i 0) 0 := by
  rw [← N1_st_d2devdet c c3 fn hc s0 s1 s2 h0 h1 h2]
  refine TracksL.hasDerivAt ?_ i
  simp only [gen_simp]
  track_list

/-- analytic form of `N1_st_dsquare`: derivative at `t = 0` of `t ↦ f (x + t h)`, component `i` -/
theorem N1_st_dsquare_hasDerivAt (hc : c * c = 2) (s0 s1 s2 h0 h1 h2 : ℝ) (i : ℕ) :
    HasDerivAt (fun t : ℝ => (Gen.N1_st_square_all c c3 fn (s0 + t * (h0)) (s1 + t * (h1)) (s2 + t * (h2))).getD i 0)
      ((mv 3 (Gen.N1_st_dsquare_all c c3 fn s0 s1 s2) [h0, h1, h2]).getD i 0) 0 := by
  rw [← N1_st_dsquare c c3 fn hc s0 s1 s2 h0 h1 h2]
  refine TracksL.hasDerivAt ?_ i
  simp only [gen_simp]
  track_list

/-- analytic form of `N1_t_dCdF`: derivative at `t = 0` of `t ↦ f (x + t h)`, component `i` -/
theorem N1_t_dCdF_hasDerivAt (hc : c * c = 2) (F0 F1 F2 h0 h1 h2 : ℝ) (i : ℕ) :
    HasDerivAt (fun t : ℝ => (Gen.N1_t_C_all c c3 fn (F0 + t * (h0)) (F1 + t * (h1)) (F2 + t * (h2))).getD i 0)
      ((mv 3 (Gen.N1_t_dCdF_all c c3 fn F0 F1 F2) [h0, h1, h2]).getD i 0) 0 := by
  rw [← N1_t_dCdF c c3 fn hc F0 F1 F2 h0 h1 h2]
  refine TracksL.hasDerivAt ?_ i
  simp only [gen_simp]
  track_list

/-- analytic form of `N1_t_dBdF`: derivative at `t = 0` of `t ↦ f (x + t h)`, component `i` -/
theorem N1_t_dBdF_hasDerivAt (hc : c * c = 2) (F0 F1 F2 h0 h1 h2 : ℝ) (i : ℕ) :
    HasDerivAt (fun t : ℝ => (Gen.N1_t_B_all c c3 fn (F0 + t * (h0)) (F1 + t * (h1)) (F2 + t * (h2))).getD i 0)
      ((mv 3 (Gen.N1_t_dBdF_all c c3 fn F0 F1 F2) [h0, h1, h2]).getD i 0) 0 := by
  rw [← N1_t_dBdF c c3 fn hc F0 F1 F2 h0 h1 h2]
  refine TracksL.hasDerivAt ?_ i
  simp only [gen_simp]
  track_list

/-- analytic form of `N1_t_dGLdF`: derivative at `t = 0` of `t ↦ f (x + t h)`, component `i` -/
theorem N1_t_dGLdF_hasDerivAt (hc : c * c = 2) (F0 F1 F2 h0 h1 h2 : ℝ) (i : ℕ) :
    HasDerivAt (fun t : ℝ => (Gen.N1_t_GL_all c c3 fn (F0 + t * (h0)) (F1 + t * (h1)) (F2 + t * (h2))).getD i 0)
      ((mv 3 (Gen.N1_t_dGLdF_all c c3 fn F0 F1 F2) [h0, h1, h2]).getD i 0) 0 := by
  rw [← N1_t_dGLdF c c3 fn hc F0 F1 F2 h0 h1 h2]
  refine TracksL.hasDerivAt ?_ i
  simp only [gen_simp]
  track_list

/-- analytic form of `N1_t_ddet`: derivative at `t = 0` of `t ↦ f (x + t h)`, component `i` -/
theorem N1_t_ddet_hasDerivAt (hc : c * c = 2) (F0 F1 F2 h0 h1 h2 : ℝ) (i : ℕ) :
    HasDerivAt (fun t : ℝ => (Gen.N1_t_det_all c c3 fn (F0 + t * (h0)) (F1 + t * (h1)) (F2 + t * (h2))).getD i 0)
      ((mv 1 (Gen.N1_t_ddet_all c c3 fn F0 F1 F2) [h0, h1, h2]).getD i 0) 0 := by
  rw [← N1_t_ddet c c3 fn hc F0 F1 F2 h0 h1 h2]
  refine TracksL.hasDerivAt ?_ i
  simp only [gen_simp]
  track_list

/-- analytic form of `N1_t_d2det`: derivative at `t = 0` of `t ↦ f (x + t h)`, component `i` -/
theorem N1_t_d2det_hasDerivAt (hc : c * c = 2) (F0 F1 F2 h0 h1 h2 : ℝ) (i : ℕ) :
    HasDerivAt (fun t : ℝ => (Gen.N1_t_ddet_all c c3 fn (F0 + t * (h0)) (F1 + t * (h1)) (F2 + t * (h2))).getD i 0)
      ((mv 3 (Gen.N1_t_d2det_all c c3 fn F0 F1 F2) [h0, h1, h2]).getD i 0) 0 := by
  rw [← N1_t_d2det c c3 fn hc F0 F1 F2 h0 h1 h2]
  refine TracksL.hasDerivAt ?_ i
  simp only [gen_simp]
  track_list

/-- analytic form of `N1_st_dsquareC`: derivative at `t = 0` of `t ↦ f (x + t h)`, component `i` -/
theorem N1_st_dsquareC_hasDerivAt (hc : c * c = 2) (s0 s1 s2 C00 C01 C02 C10 C11 C12 C20 C21 C22 h0 h1 h2 : ℝ) (i : ℕ) :
    HasDerivAt (fun t : ℝ => (Gen.N1_st_square_all c c3 fn (s0 + t * (dot [C00, C01, C02] [h0, h1, h2])) (s1 + t * (dot [C10, C11, C12] [h0, h1, h2])) (s2 + t * (dot [C20, C21, C22] [h0, h1, h2]))).getD i 0)
      ((mv 3 (Gen.N1_st_dsquareC_all c c3 fn s0 s1 s2 C00 C01 C02 C10 C11 C12 C20 C21 C22) [h0, h1, h2]).getD i 0) 0 := by
  rw [← N1_st_dsquareC c c3 fn hc s0 s1 s2 C00 C01 C02 C10 C11 C12 C20 C21 C22 h0 h1 h2]
  refine TracksL.hasDerivAt ?_ i
  simp only [gen_simp]
  track_list

/-- analytic form of `N1_t_tpld`: derivative at `t = 0` of `t ↦ f (x + t h)`, component `i` -/
theorem N1_t_tpld_hasDerivAt (hc : c * c = 2) (A0 A1 A2 B0 B1 B2 h0 h1 h2 : ℝ) (i : ℕ) :
    HasDerivAt (fun t : ℝ => (Gen.N1_t_prod_all c c3 fn (A0 + t * (h0)) (A1 + t * (h1)) (A2 + t * (h2)) B0 B1 B2).getD i 0)
      ((mv 3 (Gen.N1_t_tpld_all c c3 fn B0 B1 B2) [h0, h1, h2]).getD i 0) 0 := by
  rw [← N1_t_tpld c c3 fn hc A0 A1 A2 B0 B1 B2 h0 h1 h2]
  refine TracksL.hasDerivAt ?_ i
  simp only [gen_simp]
  track_list

/-- analytic form of `N1_t_tprd`: derivative at `t = 0` of `t ↦ f (x + t h)`, component `i` -/
theorem N1_t_tprd_hasDerivAt (hc : c * c = 2) (A0 A1 A2 B0 B1 B2 h0 h1 h2 : ℝ) (i : ℕ) :
    HasDerivAt (fun t : ℝ => (Gen.N1_t_prod_all c c3 fn A0 A1 A2 (B0 + t * (h0)) (B1 + t * (h1)) (B2 + t * (h2))).getD i 0)
      ((mv 3 (Gen.N1_t_tprd_all c c3 fn A0 A1 A2) [h0, h1, h2]).getD i 0) 0 := by
  rw [← N1_t_tprd c c3 fn hc A0 A1 A2 B0 B1 B2 h0 h1 h2]
  refine TracksL.hasDerivAt ?_ i
  simp only [gen_simp]
  track_list

/-- analytic form of `N2_st_ddet`: derivative at `t = 0` of `t ↦ f (x + t h)`, component `i` -/
theorem N2_st_ddet_hasDerivAt (hc : c * c = 2) (s0 s1 s2 s3 h0 h1 h2 h3 : ℝ) (i : ℕ) :
    HasDerivAt (fun t : ℝ => (Gen.N2_st_det_all c c3 fn (s0 + t * (h0)) (s1 + t * (h1)) (s2 + t * (h2)) (s3 + t * (h3))).getD i 0)
      ((mv 1 (Gen.N2_st_ddet_all c c3 fn s0 s1 s2 s3) [h0, h1, h2, h3]).getD i 0) 0 := by
  rw [← N2_st_ddet c c3 fn hc s0 s1 s2 s3 h0 h1 h2 h3]
  refine TracksL.hasDerivAt ?_ i
  simp only [gen_simp]
  track_list

/-- analytic form of `N2_st_d2det`: derivative at `t = 0` of `t ↦ f (x + t h)`, component `i` -/
theorem N2_st_d2det_hasDerivAt (hc : c * c = 2) (s0 s1 s2 s3 h0 h1 h2 h3 : ℝ) (i : ℕ) :
    HasDerivAt (fun t : ℝ => (Gen.N2_st_ddet_all c c3 fn (s0 + t * (h0)) (s1 + t * (h1)) (s2 + t * (h2)) (s3 + t * (h3))).getD i 0)
      ((mv 4 (Gen.N2_st_d2det_all c c3 fn s0 s1 s2 s3) [h0, h1, h2, h3]).getD i 0) 0 := by
  rw [← N2_st_d2det c c3 fn hc s0 s1 s2 s3 h0 h1 h2 h3]
  refine TracksL.hasDerivAt ?_ i
  simp only [gen_simp]
  track_list

/-- analytic form of `N2_st_ddevdet`: derivative at `t = 0` of `t ↦ f (x + t h)`, component `i` -/
theorem N2_st_ddevdet_hasDerivAt (hc : c * c = 2) (s0 s1 s2 s3 h0 h1 h2 h3 : ℝ) (i : ℕ) :
    HasDerivAt (fun t : ℝ => (Gen.N2_st_devdet_all c c3 fn (s0 + t * (h0)) (s1 + t * (h1)) (s2 + t * (h2)) (s3 + t * (h3))).getD i 0)
      ((mv 1 (Gen.N2_st_ddevdet_all c c3 fn s0 s1 s2 s3) [h0, h1, h2, h3]).getD i 0) 0 := by
  rw [← N2_st_ddevdet c c3 fn hc s0 s1 s2 s3 h0 h1 h2 h3]
  refine TracksL.hasDerivAt ?_ i
  simp only [gen_simp]
  track_list

/-- analytic form of `N2_st_d2devdet`: derivative at `t = 0` of `t ↦ f (x + t h)`, component `i` -/
theorem N2_st_d2devdet_hasDerivAt (hc : c * c = 2) (s0 s1 s2 s3 h0 h1 h2 h3 : ℝ) (i : ℕ) :
    HasDerivAt (fun t : ℝ => (Gen.N2_st_ddevdet_all c c3 fn (s0 + t * (h0)) (s1 + t * (h1)) (s2 + t * (h2)) (s3 + t * (h3))).getD i 0)
      ((mv 4 (Gen.N2_st_d2devdet_all c c3 fn s0 s1 s2 s3) [h0, h1, h2, h3]).getD i 0) 0 := by
  rw [← N2_st_d2devdet c c3 fn hc s0 s1 s2 s3 h0 h1 h2 h3]
  refine TracksL.hasDerivAt ?_ i
  simp only [gen_simp]
  track_list

/-- analytic form of `N2_st_dsquare`: derivative at `t = 0` of `t ↦ f (x + t h)`, component `i` -/
theorem N2_st_dsquare_hasDerivAt (hc : c * c = 2) (s0 s1 s2 s3 h0 h1 h2 h3 : ℝ) (i : ℕ) :
    HasDerivAt (fun t : ℝ => (Gen.N2_st_square_all c c3 fn (s0 + t * (h0)) (s1 + t * (h1)) (s2 + t * (h2)) (s3 + t * (h3))).getD i 0)
      ((mv 4 (Gen.N2_st_dsquare_all c c3 fn s0 s1 s2 s3) [h0, h1, h2, h3]).getD i 0) 0 := by
  rw [← N2_st_dsquare c c3 fn hc s0 s1 s2 s3 h0 h1 h2 h3]
  refine TracksL.hasDerivAt ?_ i
  simp only [gen_simp]
  track_list

/-- analytic form of `N2_t_dCdF`: derivative at `t = 0` of `t ↦ f (x + t h)`, component `i` -/
theorem N2_t_dCdF_hasDerivAt (hc : c * c = 2) (F0 F1 F2 F3 F4 h0 h1 h2 h3 h4 : ℝ) (i : ℕ) :
    HasDerivAt (fun t : ℝ => (Gen.N2_t_C_all c c3 fn (F0 + t * (h0)) (F1 + t * (h1)) (F2 + t * (h2)) (F3 + t * (h3)) (F4 + t * (h4))).getD i 0)
      ((mv 4 (Gen.N2_t_dCdF_all c c3 fn F0 F1 F2 F3 F4) [h0, h1, h2, h3, h4]).getD i 0) 0 := by
  rw [← N2_t_dCdF c c3 fn hc F0 F1 F2 F3 F4 h0 h1 h2 h3 h4]
  refine TracksL.hasDerivAt ?_ i
  simp only [gen_simp]
  track_list

/-- analytic form of `N2_t_dBdF`: derivative at `t = 0` of `t ↦ f (x + t h)`, component `i` -/
theorem N2_t_dBdF_hasDerivAt (hc : c * c = 2) (F0 F1 F2 F3 F4 h0 h1 h2 h3 h4 : ℝ) (i : ℕ) :
    HasDerivAt (fun t : ℝ => (Gen.N2_t_B_all c c3 fn (F0 + t * (h0)) (F1 + t * (h1)) (F2 + t * (h2)) (F3 + t * (h3)) (F4 + t * (h4))).getD i 0)
      ((mv 4 (Gen.N2_t_dBdF_all c c3 fn F0 F1 F2 F3 F4) [h0, h1, h2, h3, h4]).getD i 0) 0 := by
  rw [← N2_t_dBdF c c3 fn hc F0 F1 F2 F3 F4 h0 h1 h2 h3 h4]
  refine TracksL.hasDerivAt ?_ i
  simp only [gen_simp]
  track_list

/-- analytic form of `N2_t_dGLdF`: derivative at `t = 0` of `t ↦ f (x + t h)`, component `i` -/
theorem N2_t_dGLdF_hasDerivAt (hc : c * c = 2) (F0 F1 F2 F3 F4 h0 h1 h2 h3 h4 : ℝ) (i : ℕ) :
    HasDerivAt (fun t : ℝ => (Gen.N2_t_GL_all c c3 fn (F0 + t * (h0)) (F1 + t * (h1)) (F2 + t * (h2)) (F3 + t * (h3)) (F4 + t * (h4))).getD i 0)
      ((mv 4 (Gen.N2_t_dGLdF_all c c3 fn F0 F1 F2 F3 F4) [h0, h1, h2, h3, h4]).getD i 0) 0 := by
  rw [← N2_t_dGLdF c c3 fn hc F0 F1 F2 F3 F4 h0 h1 h2 h3 h4]
  refine TracksL.hasDerivAt ?_ i
  simp only [gen_simp]
  track_list

/-- analytic form of `N2_t_ddet`: derivative at `t = 0` of `t ↦ f (x + t h)`, component `i` -/
theorem N2_t_ddet_hasDerivAt (hc : c * c = 2) (F0 F1 F2 F3 F4 h0 h1 h2 h3 h4 : ℝ) (i : ℕ) :
    HasDerivAt (fun t : ℝ => (Gen.N2_t_det_all c c3 fn (F0 + t * (h0)) (F1 + t * (h1)) (F2 + t * (h2)) (F3 + t * (h3)) (F4 + t * (h4))).getD i 0)
      ((mv 1 (Gen.N2_t_ddet_all c c3 fn F0 F1 F2 F3 F4) [h0, h1, h2, h3, h4]).getD i 0) 0 := by
  rw [← N2_t_ddet c c3 fn hc F0 F1 F2 F3 F4 h0 h1 h2 h3 h4]
  refine TracksL.hasDerivAt ?_ i
  simp only [gen_simp]
  track_list

/-- analytic form of `N2_t_d2det`: derivative at `t = 0` of `t ↦ f (x + t h)`, component `i` -/
theorem N2_t_d2det_hasDerivAt (hc : c * c = 2) (F0 F1 F2 F3 F4 h0 h1 h2 h3 h4 : ℝ) (i : ℕ) :
    HasDerivAt (fun t : ℝ => (Gen.N2_t_ddet_all c c3 fn (F0 + t * (h0)) (F1 + t * (h1)) (F2 + t * (h2)) (F3 + t * (h3)) (F4 + t * (h4))).getD i 0)
      ((mv 5 (Gen.N2_t_d2det_all c c3 fn F0 F1 F2 F3 F4) [h0, h1, h2, h3, h4]).getD i 0) 0 := by
  rw [← N2_t_d2det c c3 fn hc F0 F1 F2 F3 F4 h0 h1 h2 h3 h4]
  refine TracksL.hasDerivAt ?_ i
  simp only [gen_simp]
  track_list

/-- analytic form of `N2_st_dsquareC`: derivative at `t = 0` of `t ↦ f (x + t h)`, component `i` -/
theorem N2_st_dsquareC_hasDerivAt (hc : c * c = 2) (s0 s1 s2 s3 C00 C01 C02 C03 C10 C11 C12 C13 C20 C21 C22 C23 C30 C31 C32 C33 h0 h1 h2 h3 : ℝ) (i : ℕ) :
    HasDerivAt (fun t : ℝ => (Gen.N2_st_square_all c c3 fn (s0 + t * (dot [C00, C01, C02, C03] [h0, h1, h2, h3])) (s1 + t * (dot [C10, C11, C12, C13] [h0, h1, h2, h3])) (s2 + t * (dot [C20, C21, C22, C23] [h0, h1, h2, h3])) (s3 + t * (dot [C30, C31, C32, C33] [h0, h1, h2, h3]))).getD i 0)
      ((mv 4 (Gen.N2_st_dsquareC_all c c3 fn s0 s1 s2 s3 C00 C01 C02 C03 C10 C11 C12 C13 C20 C21 C22 C23 C30 C31 C32 C33) [h0, h1, h2, h3]).getD i 0) 0 := by
  rw [← N2_st_dsquareC c c3 fn hc s0 s1 s2 s3 C00 C01 C02 C03 C10 C11 C12 C13 C20 C21 C22 C23 C30 C31 C32 C33 h0 h1 h2 h3]
  refine TracksL.hasDerivAt ?_ i
  simp only [gen_simp]
  track_list

/-- analytic form of `N2_t_tpld`: derivative at `t = 0` of `t ↦ f (x + t h)`, component `i` -/
theorem N2_t_tpld_hasDerivAt (hc : c * c = 2) (A0 A1 A2 A3 A4 B0 B1 B2 B3 B4 h0 h1 h2 h3 h4 : ℝ) (i : ℕ) :
    HasDerivAt (fun t : ℝ => (Gen.N2_t_prod_all c c3 fn (A0 + t * (h0)) (A1 + t * (h1)) (A2 + t * (h2)) (A3 + t * (h3)) (A4 + t * (h4)) B0 B1 B2 B3 B4).getD i 0)
      ((mv 5 (Gen.N2_t_tpld_all c c3 fn B0 B1 B2 B3 B4) [h0, h1, h2, h3, h4]).getD i 0) 0 := by
  rw [← N2_t_tpld c c3 fn hc A0 A1 A2 A3 A4 B0 B1 B2 B3 B4 h0 h1 h2 h3 h4]
  refine TracksL.hasDerivAt ?_ i
  simp only [gen_simp]
  track_list

/-- analytic form of `N2_t_tprd`: derivative at `t = 0` of `t ↦ f (x + t h)`, component `i` -/
theorem N2_t_tprd_hasDerivAt (hc : c * c = 2) (A0 A1 A2 A3 A4 B0 B1 B2 B3 B4 h0 h1 h2 h3 h4 : ℝ) (i : ℕ) :
    HasDerivAt (fun t : ℝ => (Gen.N2_t_prod_all c c3 fn A0 A1 A2 A3 A4 (B0 + t * (h0)) (B1 + t * (h1)) (B2 + t * (h2)) (B3 + t * (h3)) (B4 + t * (h4))).getD i 0)
      ((mv 5 (Gen.N2_t_tprd_all c c3 fn A0 A1 A2 A3 A4) [h0, h1, h2, h3, h4]).getD i 0) 0 := by
  rw [← N2_t_tprd c c3 fn hc A0 A1 A2 A3 A4 B0 B1 B2 B3 B4 h0 h1 h2 h3 h4]
  refine TracksL.hasDerivAt ?_ i
  simp only [gen_simp]
  track_list

/-- analytic form of `N3_st_ddet`: derivative at `t = 0` of `t ↦ f (x + t h)`, component `i` -/
theorem N3_st_ddet_hasDerivAt (hc : c * c = 2) (s0 s1 s2 s3 s4 s5 h0 h1 h2 h3 h4 h5 : ℝ) (i : ℕ) :
    HasDerivAt (fun t : ℝ => (Gen.N3_st_det_all c c3 fn (s0 + t * (h0)) (s1 + t * (h1)) (s2 + t * (h2)) (s3 + t * (h3)) (s4 + t * (h4)) (s5 + t * (h5))).getD i 0)
      ((mv 1 (Gen.N3_st_ddet_all c c3 fn s0 s1 s2 s3 s4 s5) [h0, h1, h2, h3, h4, h5]).getD i 0) 0 := by
  rw [← N3_st_ddet c c3 fn hc s0 s1 s2 s3 s4 s5 h0 h1 h2 h3 h4 h5]
  refine TracksL.hasDerivAt ?_ i
  simp only [gen_simp]
  track_list

/-- analytic form of `N3_st_d2det`: derivative at `t = 0` of `t ↦ f (x + t h)`, component `i` -/
theorem N3_st_d2det_hasDerivAt (hc : c * c = 2) (s0 s1 s2 s3 s4 s5 h0 h1 h2 h3 h4 h5 : ℝ) (i : ℕ) :
    HasDerivAt (fun t : ℝ => (Gen.N3_st_ddet_all c c3 fn (s0 + t * (h0)) (s1 + t * (h1)) (s2 + t * (h2)) (s3 + t * (h3)) (s4 + t * (h4)) (s5 + t * (h5))).getD i 0)
      ((mv 6 (Gen.N3_st_d2det_all c c3 fn s0 s1 s2 s3 s4 s5) [h0, h1, h2, h3, h4, h5]).getD i 0) 0 := by
  rw [← N3_st_d2det c c3 fn hc s0 s1 s2 s3 s4 s5 h0 h1 h2 h3 h4 h5]
  refine TracksL.hasDerivAt ?_ i
  simp only [gen_simp]
  track_list

/-- analytic form of `N3_st_ddevdet`: derivative at `t = 0` of `t ↦ f (x + t h)`, component `i` -/
theorem N3_st_ddevdet_hasDerivAt (hc : c * c = 2) (s0 s1 s2 s3 s4 s5 h0 h1 h2 h3 h4 h5 : ℝ) (i : ℕ) :
    HasDerivAt (fun t : ℝ => (Gen.N3_st_devdet_all c c3 fn (s0 + t * (h0)) (s1 + t * (h1)) (s2 + t * (h2)) (s3 + t * (h3)) (s4 + t * (h4)) (s5 + t * (h5))).getD i 0)
      ((mv 1 (Gen.N3_st_ddevdet_all c c3 fn s0 s1 s2 s3 s4 s5) [h0, h1, h2, h3, h4, h5]).getD i 0) 0 := by
  rw [← N3_st_ddevdet c c3 fn hc s0 s1 s2 s3 s4 s5 h0 h1 h2 h3 h4 h5]
  refine TracksL.hasDerivAt ?_ i
  simp only [gen_simp]
  track_list

/-- analytic form of `N3_st_d2devdet`: derivative at `t = 0` of `t ↦ f (x + t h)`, component `i` -/
theorem N3_st_d2devdet_hasDerivAt (hc : c * c = 2) (s0 s1 s2 s3 s4 s5 h0 h1 h2 h3 h4 h5 : ℝ) (i : ℕ) :
    HasDerivAt (fun t : ℝ => (Gen.N3_st_ddevdet_all c c3 fn (s0 + t * (h0)) (s1 + t * (h1)) (s2 + t * (h2)) (s3 + t * (h3)) (s4 + t * (h4)) (s5 + t * (h5))).getD i 0)
      ((mv 6 (Gen.N3_st_d2devdet_all c c3 fn s0 s1 s2 s3 s4 s5) [h0, h1, h2, h3, h4, h5]).getD i 0) 0 := by
  rw [← N3_st_d2devdet c c3 fn hc s0 s1 s2 s3 s4 s5 h0 h1 h2 h3 h4 h5]
  refine TracksL.hasDerivAt ?_ i
  simp only [gen_simp]
  track_list

/-- analytic form of `N3_st_dsquare`: derivative at `t = 0` of `t ↦ f (x + t h)`, component `i` -/
theorem N3_st_dsquare_hasDerivAt (hc : c * c = 2) (s0 s1 s2 s3 s4 s5 h0 h1 h2 h3 h4 h5 : ℝ) (i : ℕ) :
    HasDerivAt (fun t : ℝ => (Gen.N3_st_square_all c c3 fn (s0 + t * (h0)) (s1 + t * (h1)) (s2 + t * (h2)) (s3 + t * (h3)) (s4 + t * (h4)) (s5 + t * (h5))).getD i 0)
      ((mv 6 (Gen.N3_st_dsquare_all c c3 fn s0 s1 s2 s3 s4 s5) [h0, h1, h2, h3, h4, h5]).getD i 0) 0 := by
  rw [← N3_st_dsquare c c3 fn hc s0 s1 s2 s3 s4 s5 h0 h1 h2 h3 h4 h5]
  refine TracksL.hasDerivAt ?_ i
  simp only [gen_simp]
  track_list

/-- analytic form of `N3_t_dCdF`: derivative at `t = 0` of `t ↦ f (x + t h)`, component `i` -/
theorem N3_t_dCdF_hasDerivAt (hc : c * c = 2) (F0 F1 F2 F3 F4 F5 F6 F7 F8 h0 h1 h2 h3 h4 h5 h6 h7 h8 : ℝ) (i : ℕ) :
    HasDerivAt (fun t : ℝ => (Gen.N3_t_C_all c c3 fn (F0 + t * (h0)) (F1 + t * (h1)) (F2 + t * (h2)) (F3 + t * (h3)) (F4 + t * (h4)) (F5 + t * (h5)) (F6 + t * (h6)) (F7 + t * (h7)) (F8 + t * (h8))).getD i 0)
      ((mv 6 (Gen.N3_t_dCdF_all c c3 fn F0 F1 F2 F3 F4 F5 F6 F7 F8) [h0, h1, h2, h3, h4, h5, h6, h7, h8]).getD i 0) 0 := by
  rw [← N3_t_dCdF c c3 fn hc F0 F1 F2 F3 F4 F5 F6 F7 F8 h0 h1 h2 h3 h4 h5 h6 h7 h8]
  refine TracksL.hasDerivAt ?_ i
  simp only [gen_simp]
  track_list

/-- analytic form of `N3_t_dBdF`: derivative at `t = 0` of `t ↦ f (x + t h)`, component `i` -/
theorem N3_t_dBdF_hasDerivAt (hc : c * c = 2) (F0 F1 F2 F3 F4 F5 F6 F7 F8 h0 h1 h2 h3 h4 h5 h6 h7 h8 : ℝ) (i : ℕ) :
    HasDerivAt (fun t : ℝ => (Gen.N3_t_B_all c c3 fn (F0 + t * (h0)) (F1 + t * (h1)) (F2 + t * (h2)) (F3 + t * (h3)) (F4 + t * (h4)) (F5 + t * (h5)) (F6 + t * (h6)) (F7 + t * (h7)) (F8 + t * (h8))).getD i 0)
      ((mv 6 (Gen.N3_t_dBdF_all c c3 fn F0 F1 F2 F3 F4 F5 F6 F7 F8) [h0, h1, h2, h3, h4, h5, h6, h7, h8]).getD i 0) 0 := by
  rw [← N3_t_dBdF c c3 fn hc F0 F1 F2 F3 F4 F5 F6 F7 F8 h0 h1 h2 h3 h4 h5 h6 h7 h8]
  refine TracksL.hasDerivAt ?_ i
  simp only [gen_simp]
  track_list

/-- analytic form of `N3_t_dGLdF`: derivative at `t = 0` of `t ↦ f (x + t h)`, component `i` -/
theorem N3_t_dGLdF_hasDerivAt (hc : c * c = 2) (F0 F1 F2 F3 F4 F5 F6 F7 F8 h0 h1 h2 h3 h4 h5 h6 h7 h8 : ℝ) (i : ℕ) :
    HasDerivAt (fun t : ℝ => (Gen.N3_t_GL_all c c3 fn (F0 + t * (h0)) (F1 + t * (h1)) (F2 + t * (h2)) (F3 + t * (h3)) (F4 + t * (h4)) (F5 + t * (h5)) (F6 + t * (h6)) (F7 + t * (h7)) (F8 + t * (h8))).getD i 0)
      ((mv 6 (Gen.N3_t_dGLdF_all c c3 fn F0 F1 F2 F3 F4 F5 F6 F7 F8) [h0, h1, h2, h3, h4, h5, h6, h7, h8]).getD i 0) 0 := by
  rw [← N3_t_dGLdF c c3 fn hc F0 F1 F2 F3 F4 F5 F6 F7 F8 h0 h1 h2 h3 h4 h5 h6 h7 h8]
  refine TracksL.hasDerivAt ?_ i
  simp only [gen_simp]
  track_list

/-- analytic form of `N3_t_ddet`: derivative at `t = 0` of `t ↦ f (x + t h)`, component `i` -/
theorem N3_t_ddet_hasDerivAt (hc : c * c = 2) (F0 F1 F2 F3 F4 F5 F6 F7 F8 h0 h1 h2 h3 h4 h5 h6 h7 h8 : ℝ) (i : ℕ) :
    HasDerivAt (fun t : ℝ => (Gen.N3_t_det_all c c3 fn (F0 + t * (h0)) (F1 + t * (h1)) (F2 + t * (h2)) (F3 + t * (h3)) (F4 + t * (h4)) (F5 + t * (h5)) (F6 + t * (h6)) (F7 + t * (h7)) (F8 + t * (h8))).getD i 0)
      ((mv 1 (Gen.N3_t_ddet_all c c3 fn F0 F1 F2 F3 F4 F5 F6 F7 F8) [h0, h1, h2, h3, h4, h5, h6, h7, h8]).getD i 0) 0 := by
  rw [← N3_t_ddet c c3 fn hc F0 F1 F2 F3 F4 F5 F6 F7 F8 h0 h1 h2 h3 h4 h5 h6 h7 h8]
  refine TracksL.hasDerivAt ?_ i
  simp only [gen_simp]
  track_list

/-- analytic form of `N3_t_d2det`: derivative at `t = 0` of `t ↦ f (x + t h)`, component `i` -/
theorem N3_t_d2det_hasDerivAt (hc : c * c = 2) (F0 F1 F2 F3 F4 F5 F6 F7 F8 h0 h1 h2 h3 h4 h5 h6 h7 h8 : ℝ) (i : ℕ) :
    HasDerivAt (fun t : ℝ => (Gen.N3_t_ddet_all c c3 fn (F0 + t * (h0)) (F1 + t * (h1)) (F2 + t * (h2)) (F3 + t * (h3)) (F4 + t * (h4)) (F5 + t * (h5)) (F6 + t * (h6)) (F7 + t * (h7)) (F8 + t * (h8))).getD i 0)
      ((mv 9 (Gen.N3_t_d2det_all c c3 fn F0 F1 F2 F3 F4 F5 F6 F7 F8) [h0, h1, h2, h3, h4, h5, h6, h7, h8]).getD i 0) 0 := by
  rw [← N3_t_d2det c c3 fn hc F0 F1 F2 F3 F4 F5 F6 F7 F8 h0 h1 h2 h3 h4 h5 h6 h7 h8]
  refine TracksL.hasDerivAt ?_ i
  simp only [gen_simp]
  track_list

/-- analytic form of `N3_st_dsquareC`: derivative at `t = 0` of `t ↦ f (x + t h)`, component `i` -/
theorem N3_st_dsquareC_hasDerivAt (hc : c * c = 2) (s0 s1 s2 s3 s4 s5 C00 C01 C02 C03 C04 C05 C10 C11 C12 C13 C14 C15 C20 C21 C22 C23 C24 C25 C30 C31 C32 C33 C34 C35 C40 C41 C42 C43 C44 C45 C50 C51 C52 C53 C54 C55 h0 h1 h2 h3 h4 h5 : ℝ) (i : ℕ) :
    HasDerivAt (fun t : ℝ => (Gen.N3_st_square_all c c3 fn (s0 + t * (dot [C00, C01, C02, C03, C04, C05] [h0, h1, h2, h3, h4, h5])) (s1 + t * (dot [C10, C11, C12, C13, C14, C15] [h0, h1, h2, h3, h4, h5])) (s2 + t * (dot [C20, C21, C22, C23, C24, C25] [h0, h1, h2, h3, h4, h5])) (s3 + t * (dot [C30, C31, C32, C33, C34, C35] [h0, h1, h2, h3, h4, h5])) (s4 + t * (dot [C40, C41, C42, C43, C44, C45] [h0, h1, h2, h3, h4, h5])) (s5 + t * (dot [C50, C51, C52, C53, C54, C55] [h0, h1, h2, h3, h4, h5]))).getD i 0)
      ((mv 6 (Gen.N3_st_dsquareC_all c c3 fn s0 s1 s2 s3 s4 s5 C00 C01 C02 C03 C04 C05 C10 C11 C12 C13 C14 C15 C20 C21 C22 C23 C24 C25 C30 C31 C32 C33 C34 C35 C40 C41 C42 C43 C44 C45 C50 C51 C52 C53 C54 C55) [h0, h1, h2, h3, h4, h5]).getD i 0) 0 := by
  rw [← N3_st_dsquareC c c3 fn hc s0 s1 s2 s3 s4 s5 C00 C01 C02 C03 C04 C05 C10 C11 C12 C13 C14 C15 C20 C21 C22 C23 C24 C25 C30 C31 C32 C33 C34 C35 C40 C41 C42 C43 C44 C45 C50 C51 C52 C53 C54 C55 h0 h1 h2 h3 h4 h5]
  refine TracksL.hasDerivAt ?_ i
  simp only [gen_simp]
  track_list

/-- analytic form of `N3_t_tpld`: derivative at `t = 0` of `t ↦ f (x + t h)`, component `i` -/
theorem N3_t_tpld_hasDerivAt (hc : c * c = 2) (A0 A1 A2 A3 A4 A5 A6 A7 A8 B0 B1 B2 B3 B4 B5 B6 B7 B8 h0 h1 h2 h3 h4 h5 h6 h7 h8 : ℝ) (i : ℕ) :
    HasDerivAt (fun t : ℝ => (Gen.N3_t_prod_all c c3 fn (A0 + t * (h0)) (A1 + t * (h1)) (A2 + t * (h2)) (A3 + t * (h3)) (A4 + t * (h4)) (A5 + t * (h5)) (A6 + t * (h6)) (A7 + t * (h7)) (A8 + t * (h8)) B0 B1 B2 B3 B4 B5 B6 B7 B8).getD i 0)
      ((mv 9 (Gen.N3_t_tpld_all c c3 fn B0 B1 B2 B3 B4 B5 B6 B7 B8) [h0, h1, h2, h3, h4, h5, h6, h7, h8]).getD i 0) 0 := by
  rw [← N3_t_tpld c c3 fn hc A0 A1 A2 A3 A4 A5 A6 A7 A8 B0 B1 B2 B3 B4 B5 B6 B7 B8 h0 h1 h2 h3 h4 h5 h6 h7 h8]
  refine TracksL.hasDerivAt ?_ i
  simp only [gen_simp]
  track_list

/-- analytic form of `N3_t_tprd`: derivative at `t = 0` of `t ↦ f (x + t h)`, component `i` -/
theorem N3_t_tprd_hasDerivAt (hc : c * c = 2) (A0 A1 A2 A3 A4 A5 A6 A7 A8 B0 B1 B2 B3 B4 B5 B6 B7 B8 h0 h1 h2 h3 h4 h5 h6 h7 h8 : ℝ) (i : ℕ) :
    HasDerivAt (fun t : ℝ => (Gen.N3_t_prod_all c c3 fn A0 A1 A2 A3 A4 A5 A6 A7 A8 (B0 + t * (h0)) (B1 + t * (h1)) (B2 + t * (h2)) (B3 + t * (h3)) (B4 + t * (h4)) (B5 + t * (h5)) (B6 + t * (h6)) (B7 + t * (h7)) (B8 + t * (h8))).getD i 0)
      ((mv 9 (Gen.N3_t_tprd_all c c3 fn A0 A1 A2 A3 A4 A5 A6 A7 A8) [h0, h1, h2, h3, h4, h5, h6, h7, h8]).getD i 0) 0 := by
  rw [← N3_t_tprd c c3 fn hc A0 A1 A2 A3 A4 A5 A6 A7 A8 B0 B1 B2 B3 B4 B5 B6 B7 B8 h0 h1 h2 h3 h4 h5 h6 h7 h8]
  refine TracksL.hasDerivAt ?_ i
  simp only [gen_simp]
  track_list

end TfelVerif.C06.PropsReal1
