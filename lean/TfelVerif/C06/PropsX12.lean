/-
  C06 — Closed-form derivative helpers are true derivatives.  Part 6 (1D, 2D): Kirchhoff/Cauchy stress derivative conversions, push-forward derivative, rate of deformation derivative (T2toST2/t2tost2.ixx), st2tost2::stpd.

  Property theorems only. `Gen.*` are the definitions regenerated on every run by instantiating the
  real TFEL templates with a recording scalar (harness/C06/trace.cxx), emitted over
  `[CommRing K] [Div K]` so that the generated code itself can be evaluated on the dual numbers
  `Dual K = K[ε]/(ε²)` (Lemmas.lean: a commutative ring, every axiom proved; `/` is the quotient rule).

  Shape of every theorem. For a helper `D` documented as the derivative of `f`:
      (f_code (x₀ + ε h₀) (x₁ + ε h₁) …).map eps = D_code(x) · h          for all x and all h,
  i.e. the ε part of the code of `f` run at `x + ε h` (formal directional derivative of the rational
  function computed by the code, along an arbitrary direction `h`) is the matrix returned by `D`
  applied to `h`. `⟨x, h⟩ : Dual K` is `x + ε h`; `mv m M h` is the flat row-major `m × |h|` matrix `M`
  times `h`. Symmetric tensors are differentiated with respect to their stored (Mandel) components,
  non symmetric ones with respect to their stored components, as the library does
  (`D(i,j) = ∂fᵢ/∂xⱼ`). PropsReal.lean turns each statement into `HasDerivAt` over ℝ.

  Standing hypotheses: `c * c = 2` (`c` is √2, `Cste<T>::sqrt2`), characteristic 0.
  Non-vacuity: ℝ with `c = √2` (Common/Model.lean, PropsReal.lean instantiates every theorem there).
-/
import TfelVerif.Common.Mandel
import TfelVerif.C06.Lemmas
import TfelVerif.C06.GenX12

namespace TfelVerif.C06.PropsX12
open TfelVerif TfelVerif.Mandel TfelVerif.C06
set_option linter.unusedVariables false
set_option linter.unusedSectionVars false
set_option maxRecDepth 100000

variable {K : Type} [Field K] [CharZero K] (c c3 : K) (fn : Fns K)

/-- `computeKirchhoffStressDerivativeFromCauchyStressDerivative(ds, s, F)` is the derivative with respect to `F` of the Kirchhoff stress `det(F) * s(F)` when `ds` is the derivative of the Cauchy stress `s` -/
theorem N1_dkirch (hc : c * c = 2) (ds00 ds01 ds02 ds10 ds11 ds12 ds20 ds21 ds22 s0 s1 s2 F0 F1 F2 h0 h1 h2 : K) :
    (Gen.N1_kirch_all (Dual.const c) (Dual.const c3) (dualFns K) ⟨s0, dot [ds00, ds01, ds02] [h0, h1, h2]⟩ ⟨s1, dot [ds10, ds11, ds12] [h0, h1, h2]⟩ ⟨s2, dot [ds20, ds21, ds22] [h0, h1, h2]⟩ ⟨F0, h0⟩ ⟨F1, h1⟩ ⟨F2, h2⟩).map Dual.eps
      = mv 3 (Gen.N1_dkirch_all c c3 fn ds00 ds01 ds02 ds10 ds11 ds12 ds20 ds21 ds22 s0 s1 s2 F0 F1 F2) [h0, h1, h2] := by
  dual_eq hc

/-- `computeCauchyStressDerivativeFromKirchhoffStressDerivative(dt, s, F)` is the derivative with respect to `F` of the Cauchy stress `tau(F) / det(F)` when `dt` is the derivative of the Kirchhoff stress `tau` and `tau = det(F) * s` at the point considered (`hJ`: the traced divisor `det(F)` of the helper is not zero) -/
theorem N1_dcauchy (hc : c * c = 2) (dt00 dt01 dt02 dt10 dt11 dt12 dt20 dt21 dt22 s0 s1 s2 F0 F1 F2 h0 h1 h2 : K) (hF0 : F0 ≠ 0) (hF1 : F1 ≠ 0) (hF2 : F2 ≠ 0) :
    (Gen.N1_cauchy_all (Dual.const c) (Dual.const c3) (dualFns K) ⟨(Gen.N1_kirch_r0 c c3 fn s0 s1 s2 F0 F1 F2), dot [dt00, dt01, dt02] [h0, h1, h2]⟩ ⟨(Gen.N1_kirch_r1 c c3 fn s0 s1 s2 F0 F1 F2), dot [dt10, dt11, dt12] [h0, h1, h2]⟩ ⟨(Gen.N1_kirch_r2 c c3 fn s0 s1 s2 F0 F1 F2), dot [dt20, dt21, dt22] [h0, h1, h2]⟩ ⟨F0, h0⟩ ⟨F1, h1⟩ ⟨F2, h2⟩).map Dual.eps
      = mv 3 (Gen.N1_dcauchy_all c c3 fn dt00 dt01 dt02 dt10 dt11 dt12 dt20 dt21 dt22 s0 s1 s2 F0 F1 F2) [h0, h1, h2] := by
  dual_eq_den1 hc

/-- `computePushForwardDerivative(K, S, F)` is the derivative with respect to `F` of the push-forward `push_forward(S(F), F) = F S Fᵀ` when `K` is the derivative of `S` -/
theorem N1_dpf (hc : c * c = 2) (K00 K01 K02 K10 K11 K12 K20 K21 K22 S0 S1 S2 F0 F1 F2 h0 h1 h2 : K) :
    (Gen.N1_pf_all (Dual.const c) (Dual.const c3) (dualFns K) ⟨S0, dot [K00, K01, K02] [h0, h1, h2]⟩ ⟨S1, dot [K10, K11, K12] [h0, h1, h2]⟩ ⟨S2, dot [K20, K21, K22] [h0, h1, h2]⟩ ⟨F0, h0⟩ ⟨F1, h1⟩ ⟨F2, h2⟩).map Dual.eps
      = mv 3 (Gen.N1_dpf_all c c3 fn K00 K01 K02 K10 K11 K12 K20 K21 K22 S0 S1 S2 F0 F1 F2) [h0, h1, h2] := by
  dual_eq hc

/-- `computeRateOfDeformationDerivative(F)` is the derivative with respect to the deformation gradient rate `G` of the rate of deformation `syme(G * invert(F))` (linear in `G`; `hJ`: the traced divisor of `invert(F)` is not zero) -/
theorem N1_drod (hc : c * c = 2) (G0 G1 G2 F0 F1 F2 h0 h1 h2 : K) (hF0 : F0 ≠ 0) (hF1 : F1 ≠ 0) (hF2 : F2 ≠ 0) :
    (Gen.N1_rod_all (Dual.const c) (Dual.const c3) (dualFns K) ⟨G0, h0⟩ ⟨G1, h1⟩ ⟨G2, h2⟩ (Dual.const F0) (Dual.const F1) (Dual.const F2)).map Dual.eps
      = mv 3 (Gen.N1_drod_all c c3 fn F0 F1 F2) [h0, h1, h2] := by
  dual_eq_den1 hc

/-- `st2tost2::stpd(s)` is the derivative with respect to `a` of `a*s + s*a = 2 * symmetric_product(a, s)` -/
theorem N1_stpd (hc : c * c = 2) (a0 a1 a2 s0 s1 s2 h0 h1 h2 : K) :
    (Gen.N1_sp2_all (Dual.const c) (Dual.const c3) (dualFns K) ⟨a0, h0⟩ ⟨a1, h1⟩ ⟨a2, h2⟩ (Dual.const s0) (Dual.const s1) (Dual.const s2)).map Dual.eps
      = mv 3 (Gen.N1_stpd_all c c3 fn s0 s1 s2) [h0, h1, h2] := by
  dual_eq hc

/-- `computeKirchhoffStressDerivativeFromCauchyStressDerivative(ds, s, F)` is the derivative with respect to `F` of the Kirchhoff stress `det(F) * s(F)` when `ds` is the derivative of the Cauchy stress `s` -/
theorem N2_dkirch (hc : c * c = 2) (ds00 ds01 ds02 ds03 ds04 ds10 ds11 ds12 ds13 ds14 ds20 ds21 ds22 ds23 ds24 ds30 ds31 ds32 ds33 ds34 s0 s1 s2 s3 F0 F1 F2 F3 F4 h0 h1 h2 h3 h4 : K) :
    (Gen.N2_kirch_all (Dual.const c) (Dual.const c3) (dualFns K) ⟨s0, dot [ds00, ds01, ds02, ds03, ds04] [h0, h1, h2, h3, h4]⟩ ⟨s1, dot [ds10, ds11, ds12, ds13, ds14] [h0, h1, h2, h3, h4]⟩ ⟨s2, dot [ds20, ds21, ds22, ds23, ds24] [h0, h1, h2, h3, h4]⟩ ⟨s3, dot [ds30, ds31, ds32, ds33, ds34] [h0, h1, h2, h3, h4]⟩ ⟨F0, h0⟩ ⟨F1, h1⟩ ⟨F2, h2⟩ ⟨F3, h3⟩ ⟨F4, h4⟩).map Dual.eps
      = mv 4 (Gen.N2_dkirch_all c c3 fn ds00 ds01 ds02 ds03 ds04 ds10 ds11 ds12 ds13 ds14 ds20 ds21 ds22 ds23 ds24 ds30 ds31 ds32 ds33 ds34 s0 s1 s2 s3 F0 F1 F2 F3 F4) [h0, h1, h2, h3, h4] := by
  dual_eq hc

/-- `computeCauchyStressDerivativeFromKirchhoffStressDerivative(dt, s, F)` is the derivative with respect to `F` of the Cauchy stress `tau(F) / det(F)` when `dt` is the derivative of the Kirchhoff stress `tau` and `tau = det(F) * s` at the point considered (`hJ`: the traced divisor `det(F)` of the helper is not zero) -/
theorem N2_dcauchy (hc : c * c = 2) (dt00 dt01 dt02 dt03 dt04 dt10 dt11 dt12 dt13 dt14 dt20 dt21 dt22 dt23 dt24 dt30 dt31 dt32 dt33 dt34 s0 s1 s2 s3 F0 F1 F2 F3 F4 h0 h1 h2 h3 h4 : K) (hJ : Gen.N2_dcauchy_den0 c c3 fn dt00 dt01 dt02 dt03 dt04 dt10 dt11 dt12 dt13 dt14 dt20 dt21 dt22 dt23 dt24 dt30 dt31 dt32 dt33 dt34 s0 s1 s2 s3 F0 F1 F2 F3 F4 ≠ 0) :
    (Gen.N2_cauchy_all (Dual.const c) (Dual.const c3) (dualFns K) ⟨(Gen.N2_kirch_r0 c c3 fn s0 s1 s2 s3 F0 F1 F2 F3 F4), dot [dt00, dt01, dt02, dt03, dt04] [h0, h1, h2, h3, h4]⟩ ⟨(Gen.N2_kirch_r1 c c3 fn s0 s1 s2 s3 F0 F1 F2 F3 F4), dot [dt10, dt11, dt12, dt13, dt14] [h0, h1, h2, h3, h4]⟩ ⟨(Gen.N2_kirch_r2 c c3 fn s0 s1 s2 s3 F0 F1 F2 F3 F4), dot [dt20, dt21, dt22, dt23, dt24] [h0, h1, h2, h3, h4]⟩ ⟨(Gen.N2_kirch_r3 c c3 fn s0 s1 s2 s3 F0 F1 F2 F3 F4), dot [dt30, dt31, dt32, dt33, dt34] [h0, h1, h2, h3, h4]⟩ ⟨F0, h0⟩ ⟨F1, h1⟩ ⟨F2, h2⟩ ⟨F3, h3⟩ ⟨F4, h4⟩).map Dual.eps
      = mv 4 (Gen.N2_dcauchy_all c c3 fn dt00 dt01 dt02 dt03 dt04 dt10 dt11 dt12 dt13 dt14 dt20 dt21 dt22 dt23 dt24 dt30 dt31 dt32 dt33 dt34 s0 s1 s2 s3 F0 F1 F2 F3 F4) [h0, h1, h2, h3, h4] := by
  dual_eq_den hc with hJ

/-- `computePushForwardDerivative(K, S, F)` is the derivative with respect to `F` of the push-forward `push_forward(S(F), F) = F S Fᵀ` when `K` is the derivative of `S` -/
theorem N2_dpf (hc : c * c = 2) (K00 K01 K02 K03 K04 K10 K11 K12 K13 K14 K20 K21 K22 K23 K24 K30 K31 K32 K33 K34 S0 S1 S2 S3 F0 F1 F2 F3 F4 h0 h1 h2 h3 h4 : K) :
    (Gen.N2_pf_all (Dual.const c) (Dual.const c3) (dualFns K) ⟨S0, dot [K00, K01, K02, K03, K04] [h0, h1, h2, h3, h4]⟩ ⟨S1, dot [K10, K11, K12, K13, K14] [h0, h1, h2, h3, h4]⟩ ⟨S2, dot [K20, K21, K22, K23, K24] [h0, h1, h2, h3, h4]⟩ ⟨S3, dot [K30, K31, K32, K33, K34] [h0, h1, h2, h3, h4]⟩ ⟨F0, h0⟩ ⟨F1, h1⟩ ⟨F2, h2⟩ ⟨F3, h3⟩ ⟨F4, h4⟩).map Dual.eps
      = mv 4 (Gen.N2_dpf_all c c3 fn K00 K01 K02 K03 K04 K10 K11 K12 K13 K14 K20 K21 K22 K23 K24 K30 K31 K32 K33 K34 S0 S1 S2 S3 F0 F1 F2 F3 F4) [h0, h1, h2, h3, h4] := by
  dual_eq hc

/-- `computeRateOfDeformationDerivative(F)` is the derivative with respect to the deformation gradient rate `G` of the rate of deformation `syme(G * invert(F))` (linear in `G`; `hJ`: the traced divisor of `invert(F)` is not zero) -/
theorem N2_drod (hc : c * c = 2) (G0 G1 G2 G3 G4 F0 F1 F2 F3 F4 h0 h1 h2 h3 h4 : K) (hJ : Gen.N2_drod_den0 c c3 fn F0 F1 F2 F3 F4 ≠ 0) (hF2 : F2 ≠ 0) :
    (Gen.N2_rod_all (Dual.const c) (Dual.const c3) (dualFns K) ⟨G0, h0⟩ ⟨G1, h1⟩ ⟨G2, h2⟩ ⟨G3, h3⟩ ⟨G4, h4⟩ (Dual.const F0) (Dual.const F1) (Dual.const F2) (Dual.const F3) (Dual.const F4)).map Dual.eps
      = mv 4 (Gen.N2_drod_all c c3 fn F0 F1 F2 F3 F4) [h0, h1, h2, h3, h4] := by
  dual_eq_den hc with hJ

/-- `st2tost2::stpd(s)` is the derivative with respect to `a` of `a*s + s*a = 2 * symmetric_product(a, s)` -/
theorem N2_stpd (hc : c * c = 2) (a0 a1 a2 a3 s0 s1 s2 s3 h0 h1 h2 h3 : K) :
    (Gen.N2_sp2_all (Dual.const c) (Dual.const c3) (dualFns K) ⟨a0, h0⟩ ⟨a1, h1⟩ ⟨a2, h2⟩ ⟨a3, h3⟩ (Dual.const s0) (Dual.const s1) (Dual.const s2) (Dual.const s3)).map Dual.eps
      = mv 4 (Gen.N2_stpd_all c c3 fn s0 s1 s2 s3) [h0, h1, h2, h3] := by
  dual_eq hc

end TfelVerif.C06.PropsX12
