/-
  C06 — Closed-form derivative helpers are true derivatives.  Part 6 (3D): push-forward derivative (T2toST2/t2tost2.ixx).

  Property theorems only. `Gen.*` are the definitions regenerated on every run by instantiating the
  real TFEL templates with a recording scalar (harness/C06/trace.cxx), emitted over
  `[CommRing K] [Div K]` so that the generated code itself can be evaluated on the dual numbers
  `Dual K = K[ε]/(ε²)` (Lemmas.lean: a commutative ring, every axiom proved; `/` is the quotient rule).

  Shape of every theorem. For a helper `D` documented as the derivative of `f`:
      (f_code (x₀ + ε h₀) (x₁ + ε h₁) …).map eps = D_code(x) · h          for all x and all h,
  i.e. the ε part of the code of `f` run at `x + ε h` (formal directional derivative of the rational
  function computed by the code, along an arbitrary direction `h`) is the matrix returned by `D`
  applied to `h`. `⟨x, h⟩ : Dual K` is `x + ε h`; `mv m M h` is the flat row-major `m × |h|` matrix `M`
  times `h`. Symmetric tensors are differentiated with respect to their stored (Mandel) components,
  non symmetric ones with respect to their stored components, as the library does
  (`D(i,j) = ∂fᵢ/∂xⱼ`). PropsReal.lean turns each statement into `HasDerivAt` over ℝ.

  Standing hypotheses: `c * c = 2` (`c` is √2, `Cste<T>::sqrt2`), characteristic 0.
  Non-vacuity: ℝ with `c = √2` (Common/Model.lean, PropsReal.lean instantiates every theorem there).
-/
import TfelVerif.Common.Mandel
import TfelVerif.C06.Lemmas
import TfelVerif.C06.GenX3b

namespace TfelVerif.C06.PropsX3b
open TfelVerif TfelVerif.Mandel TfelVerif.C06
set_option linter.unusedVariables false
set_option linter.unusedSectionVars false
set_option maxRecDepth 100000

variable {K : Type} [Field K] [CharZero K] (c c3 : K) (fn : Fns K)

/-- `computePushForwardDerivative(K, S, F)` is the derivative with respect to `F` of the push-forward `push_forward(S(F), F) = F S Fᵀ` when `K` is the derivative of `S` -/
theorem N3_dpf (hc : c * c = 2) (K00 K01 K02 K03 K04 K05 K06 K07 K08 K10 K11 K12 K13 K14 K15 K16 K17 K18 K20 K21 K22 K23 K24 K25 K26 K27 K28 K30 K31 K32 K33 K34 K35 K36 K37 K38 K40 K41 K42 K43 K44 K45 K46 K47 K48 K50 K51 K52 K53 K54 K55 K56 K57 K58 S0 S1 S2 S3 S4 S5 F0 F1 F2 F3 F4 F5 F6 F7 F8 h0 h1 h2 h3 h4 h5 h6 h7 h8 : K) :
    (Gen.N3_pf_all (Dual.const c) (Dual.const c3) (dualFns K) ⟨S0, dot [K00, K01, K02, K03, K04, K05, K06, K07, K08] [h0, h1, h2, h3, h4, h5, h6, h7, h8]⟩ ⟨S1, dot [K10, K11, K12, K13, K14, K15, K16, K17, K18] [h0, h1, h2, h3, h4, h5, h6, h7, h8]⟩ ⟨S2, dot [K20, K21, K22, K23, K24, K25, K26, K27, K28] [h0, h1, h2, h3, h4, h5, h6, h7, h8]⟩ ⟨S3, dot [K30, K31, K32, K33, K34, K35, K36, K37, K38] [h0, h1, h2, h3, h4, h5, h6, h7, h8]⟩ ⟨S4, dot [K40, K41, K42, K43, K44, K45, K46, K47, K48] [h0, h1, h2, h3, h4, h5, h6, h7, h8]⟩ ⟨S5, dot [K50, K51, K52, K53, K54, K55, K56, K57, K58] [h0, h1, h2, h3, h4, h5, h6, h7, h8]⟩ ⟨F0, h0⟩ ⟨F1, h1⟩ ⟨F2, h2⟩ ⟨F3, h3⟩ ⟨F4, h4⟩ ⟨F5, h5⟩ ⟨F6, h6⟩ ⟨F7, h7⟩ ⟨F8, h8⟩).map Dual.eps
      = mv 6 (Gen.N3_dpf_all c c3 fn K00 K01 K02 K03 K04 K05 K06 K07 K08 K10 K11 K12 K13 K14 K15 K16 K17 K18 K20 K21 K22 K23 K24 K25 K26 K27 K28 K30 K31 K32 K33 K34 K35 K36 K37 K38 K40 K41 K42 K43 K44 K45 K46 K47 K48 K50 K51 K52 K53 K54 K55 K56 K57 K58 S0 S1 S2 S3 S4 S5 F0 F1 F2 F3 F4 F5 F6 F7 F8) [h0, h1, h2, h3, h4, h5, h6, h7, h8] := by
  dual_eq hc

end TfelVerif.C06.PropsX3b
