/-
  C06/Lemmas.lean — dual numbers `K[ε]/(ε²)` and their link with the analytic derivative.

  * `Dual K` : pairs `⟨re, eps⟩` with the operations of `K[ε]/(ε²)`. It is a commutative ring
    (`instance : CommRing (Dual K)`, every axiom proved), and carries the division
    `⟨a,b⟩ / ⟨u,v⟩ = ⟨a/u, (b u − a v)/u²⟩` (the quotient rule; it is the ring inverse when `u ≠ 0`,
    `Dual.div_mul_cancel`). The generated definitions of C06 are polymorphic over
    `[CommRing K] [Div K]`, hence can be instantiated at `Dual K`: evaluating the *code* of `f` at
    `x + ε h` and reading the `ε` part is the formal directional derivative of `f` at `x` along `h`.
  * `Tracks g d` (over ℝ): `g 0 = d.re` and `HasDerivAt g d.eps 0`. It is closed under every
    operation of the generated expression language (`Tracks.add/sub/mul/neg/div/const/var`), so for
    each generated `f` the tactic `dual_track` proves
        `Tracks (fun t => f (x + t h)) (f ⟨x, h⟩)`
    by structural recursion on the code: the ε part computed in `Dual ℝ` *is* the derivative of
    `t ↦ f (x + t h)` at `0` (limit of the finite difference quotient). This is the bridge between
    the algebraic statements of Props.lean and the analytic reading of the property.
  * `mv`, `dot`: row-major matrix (as the flat `_all` list of a traced fourth order tensor)
    times vector.
-/
import Mathlib.Tactic.Ring
import Mathlib.Tactic.FieldSimp
import Mathlib.Tactic.LinearCombination
import Mathlib.Tactic.NormNum
import Mathlib.Analysis.Calculus.Deriv.Add
import Mathlib.Analysis.Calculus.Deriv.Mul
import Mathlib.Analysis.Calculus.Deriv.Inv
import Mathlib.Analysis.Calculus.Deriv.Pi
import TfelVerif.Common.Sym
import TfelVerif.Common.Mandel
import TfelVerif.Common.M3

namespace TfelVerif.C06

/-- dual numbers over `K`: `re + ε eps`, `ε² = 0` -/
@[ext] structure Dual (K : Type) where
  re : K
  eps : K

namespace Dual
variable {K : Type}

section ring
variable [CommRing K]

/-! raw operations; they are only used to build the `CommRing` instance below (and are then removed
from instance resolution, so that every `+`, `*`, numeral on `Dual K` — in the statements of this
file as in the generated code instantiated at `Dual K` — goes through `CommRing (Dual K)`) -/
instance instZero : Zero (Dual K) := ⟨⟨0, 0⟩⟩
instance instOne : One (Dual K) := ⟨⟨1, 0⟩⟩
instance instAdd : Add (Dual K) := ⟨fun x y => ⟨x.re + y.re, x.eps + y.eps⟩⟩
instance instNeg : Neg (Dual K) := ⟨fun x => ⟨-x.re, -x.eps⟩⟩
instance instSub : Sub (Dual K) := ⟨fun x y => ⟨x.re - y.re, x.eps - y.eps⟩⟩
instance instMul : Mul (Dual K) := ⟨fun x y => ⟨x.re * y.re, x.re * y.eps + x.eps * y.re⟩⟩
instance instNatCast : NatCast (Dual K) := ⟨fun n => ⟨n, 0⟩⟩
instance instIntCast : IntCast (Dual K) := ⟨fun n => ⟨n, 0⟩⟩
instance instSMulNat : SMul ℕ (Dual K) := ⟨fun n x => ⟨n * x.re, n * x.eps⟩⟩
instance instSMulInt : SMul ℤ (Dual K) := ⟨fun n x => ⟨n * x.re, n * x.eps⟩⟩

/-- the constant `a` (embedding of `K`) -/
def const (a : K) : Dual K := ⟨a, 0⟩

section raw
private theorem re_zero' : (0 : Dual K).re = 0 := rfl
private theorem eps_zero' : (0 : Dual K).eps = 0 := rfl
private theorem re_one' : (1 : Dual K).re = 1 := rfl
private theorem eps_one' : (1 : Dual K).eps = 0 := rfl
private theorem re_add' (x y : Dual K) : (x + y).re = x.re + y.re := rfl
private theorem eps_add' (x y : Dual K) : (x + y).eps = x.eps + y.eps := rfl
private theorem re_neg' (x : Dual K) : (-x).re = -x.re := rfl
private theorem eps_neg' (x : Dual K) : (-x).eps = -x.eps := rfl
private theorem re_sub' (x y : Dual K) : (x - y).re = x.re - y.re := rfl
private theorem eps_sub' (x y : Dual K) : (x - y).eps = x.eps - y.eps := rfl
private theorem re_mul' (x y : Dual K) : (x * y).re = x.re * y.re := rfl
private theorem eps_mul' (x y : Dual K) : (x * y).eps = x.re * y.eps + x.eps * y.re := rfl
private theorem re_natCast' (n : ℕ) : (n : Dual K).re = n := rfl
private theorem eps_natCast' (n : ℕ) : (n : Dual K).eps = 0 := rfl
private theorem re_intCast' (n : ℤ) : (n : Dual K).re = n := rfl
private theorem eps_intCast' (n : ℤ) : (n : Dual K).eps = 0 := rfl
private theorem re_nsmul' (n : ℕ) (x : Dual K) : (n • x).re = n * x.re := rfl
private theorem eps_nsmul' (n : ℕ) (x : Dual K) : (n • x).eps = n * x.eps := rfl
private theorem re_zsmul' (n : ℤ) (x : Dual K) : (n • x).re = n * x.re := rfl
private theorem eps_zsmul' (n : ℤ) (x : Dual K) : (n • x).eps = n * x.eps := rfl

local macro "dsimp'" : tactic =>
  `(tactic| simp [re_zero', eps_zero', re_one', eps_one', re_add', eps_add', re_neg', eps_neg', re_sub', eps_sub',
      re_mul', eps_mul', re_natCast', eps_natCast', re_intCast', eps_intCast', re_nsmul', eps_nsmul',
      re_zsmul', eps_zsmul'])

/-- `Dual K` is the commutative ring `K[ε]/(ε²)`: all ring axioms hold for the operations above. -/
instance instCommRing : CommRing (Dual K) where
  add_assoc a b c := by ext <;> dsimp' <;> ring
  zero_add a := by ext <;> dsimp'
  add_zero a := by ext <;> dsimp'
  add_comm a b := by ext <;> dsimp' <;> ring
  nsmul n x := n • x
  nsmul_zero x := by ext <;> dsimp'
  nsmul_succ n x := by ext <;> dsimp' <;> ring
  zsmul n x := n • x
  zsmul_zero' x := by ext <;> dsimp'
  zsmul_succ' n x := by ext <;> dsimp' <;> ring
  zsmul_neg' n x := by ext <;> dsimp' <;> ring
  neg_add_cancel a := by ext <;> dsimp'
  sub_eq_add_neg a b := by ext <;> dsimp' <;> ring
  mul_assoc a b c := by ext <;> dsimp' <;> ring
  one_mul a := by ext <;> dsimp'
  mul_one a := by ext <;> dsimp'
  zero_mul a := by ext <;> dsimp'
  mul_zero a := by ext <;> dsimp'
  left_distrib a b c := by ext <;> dsimp' <;> ring
  right_distrib a b c := by ext <;> dsimp' <;> ring
  mul_comm a b := by ext <;> dsimp' <;> ring
  natCast_zero := by ext <;> dsimp'
  natCast_succ n := by ext <;> dsimp'
  intCast_ofNat n := by ext <;> dsimp'
  intCast_negSucc n := by ext <;> dsimp'
end raw

attribute [-instance] instZero instOne instAdd instNeg instSub instMul instNatCast instIntCast instSMulNat instSMulInt

/-! unfolding lemmas; every operation below is the one of `CommRing (Dual K)` -/
@[simp] theorem re_zero : (0 : Dual K).re = 0 := rfl
@[simp] theorem eps_zero : (0 : Dual K).eps = 0 := rfl
@[simp] theorem re_one : (1 : Dual K).re = 1 := rfl
@[simp] theorem eps_one : (1 : Dual K).eps = 0 := rfl
@[simp] theorem re_add (x y : Dual K) : (x + y).re = x.re + y.re := rfl
@[simp] theorem eps_add (x y : Dual K) : (x + y).eps = x.eps + y.eps := rfl
@[simp] theorem re_neg (x : Dual K) : (-x).re = -x.re := rfl
@[simp] theorem eps_neg (x : Dual K) : (-x).eps = -x.eps := rfl
@[simp] theorem re_sub (x y : Dual K) : (x - y).re = x.re - y.re := rfl
@[simp] theorem eps_sub (x y : Dual K) : (x - y).eps = x.eps - y.eps := rfl
@[simp] theorem re_mul (x y : Dual K) : (x * y).re = x.re * y.re := rfl
@[simp] theorem eps_mul (x y : Dual K) : (x * y).eps = x.re * y.eps + x.eps * y.re := rfl
@[simp] theorem re_natCast (n : ℕ) : (n : Dual K).re = n := rfl
@[simp] theorem eps_natCast (n : ℕ) : (n : Dual K).eps = 0 := rfl
@[simp] theorem re_const (a : K) : (const a).re = a := rfl
@[simp] theorem eps_const (a : K) : (const a).eps = 0 := rfl
@[simp] theorem re_ofNat (n : ℕ) [n.AtLeastTwo] : (no_index (OfNat.ofNat n) : Dual K).re = OfNat.ofNat n := rfl
@[simp] theorem eps_ofNat (n : ℕ) [n.AtLeastTwo] : (no_index (OfNat.ofNat n) : Dual K).eps = 0 := rfl

@[simp] theorem re_pow (x : Dual K) (n : ℕ) : (x ^ n).re = x.re ^ n := by
  induction n with
  | zero => simp
  | succ k ih => simp [pow_succ, ih]
theorem eps_pow_succ (x : Dual K) (n : ℕ) : (x ^ (n + 1)).eps = (n + 1) * x.re ^ n * x.eps := by
  induction n with
  | zero => simp
  | succ k ih => rw [pow_succ, eps_mul, ih, re_pow]; push_cast; ring

/-- `x + ε h`: the point `x` perturbed along `h` -/
theorem mk_eq (x h : K) : (⟨x, h⟩ : Dual K) = const x + ⟨0, 1⟩ * const h := by
  ext <;> simp
/-- `ε² = 0` -/
theorem eps_sq : ((⟨0, 1⟩ : Dual K)) * ⟨0, 1⟩ = 0 := by ext <;> simp
end ring

section field
variable [Field K]
/-- quotient rule; the ring inverse of `y` when `y.re ≠ 0` -/
instance : Div (Dual K) :=
  ⟨fun x y => ⟨x.re / y.re, (x.eps * y.re - x.re * y.eps) / (y.re * y.re)⟩⟩
@[simp] theorem re_div (x y : Dual K) : (x / y).re = x.re / y.re := rfl
@[simp] theorem eps_div (x y : Dual K) :
    (x / y).eps = (x.eps * y.re - x.re * y.eps) / (y.re * y.re) := rfl
/-- the `Div` instance is the genuine division of the ring `K[ε]/(ε²)` -/
theorem div_mul_cancel (x y : Dual K) (h : y.re ≠ 0) : x / y * y = x := by
  ext
  · simp [h]
  · simp; field_simp; ring
end field
end Dual

/-- function symbols at `Dual K`: never used by the (polynomial / rational) units of C06; any value. -/
def dualFns (K : Type) [CommRing K] : Fns (Dual K) where
  sqrt := id
  cbrt := id
  abs := id
  exp := id
  log := id
  log10 := id
  cos := id
  sin := id
  tan := id
  acos := id
  asin := id
  atan := id
  cosh := id
  sinh := id
  tanh := id
  pow := fun x _ => x
  atan2 := fun x _ => x
  min := fun x _ => x
  max := fun x _ => x
  call := fun _ _ => 0

/-! ## flat matrices -/
section lists
variable {K : Type} [CommRing K]
/-- dot product of two lists -/
def dot : List K → List K → K
  | a :: as, b :: bs => a * b + dot as bs
  | _, _ => 0
/-- `mv n M h`: the flat row-major matrix `M` (`n` rows of length `h.length`) times the vector `h` -/
def mv : ℕ → List K → List K → List K
  | 0, _, _ => []
  | n + 1, M, h => dot (M.take h.length) h :: mv n (M.drop h.length) h
end lists

/-! ## bridge: the ε part is the derivative along the line `t ↦ x + t h` -/

/-- `g` takes the value `d.re` at `0` and has derivative `d.eps` there -/
def Tracks (g : ℝ → ℝ) (d : Dual ℝ) : Prop := g 0 = d.re ∧ HasDerivAt g d.eps 0

namespace Tracks
theorem hasDerivAt {g : ℝ → ℝ} {d : Dual ℝ} (h : Tracks g d) : HasDerivAt g d.eps 0 := h.2
theorem var (x h : ℝ) : Tracks (fun t => x + t * h) ⟨x, h⟩ := by
  refine ⟨by simp, ?_⟩
  simpa using ((hasDerivAt_id (0 : ℝ)).mul_const h).const_add x
theorem const (a : ℝ) : Tracks (fun _ => a) (Dual.const a) :=
  ⟨rfl, hasDerivAt_const _ _⟩
theorem ofNat (n : ℕ) [n.AtLeastTwo] : Tracks (fun _ => (OfNat.ofNat n : ℝ)) (OfNat.ofNat n : Dual ℝ) :=
  ⟨rfl, hasDerivAt_const _ _⟩
theorem one : Tracks (fun _ => (1 : ℝ)) (1 : Dual ℝ) := ⟨rfl, hasDerivAt_const _ _⟩
theorem zero : Tracks (fun _ => (0 : ℝ)) (0 : Dual ℝ) := ⟨rfl, hasDerivAt_const _ _⟩
theorem add {f g : ℝ → ℝ} {a b : Dual ℝ} (hf : Tracks f a) (hg : Tracks g b) :
    Tracks (fun t => f t + g t) (a + b) :=
  ⟨by simp [hf.1, hg.1], hf.2.add hg.2⟩
theorem sub {f g : ℝ → ℝ} {a b : Dual ℝ} (hf : Tracks f a) (hg : Tracks g b) :
    Tracks (fun t => f t - g t) (a - b) :=
  ⟨by simp [hf.1, hg.1], hf.2.sub hg.2⟩
theorem neg {f : ℝ → ℝ} {a : Dual ℝ} (hf : Tracks f a) : Tracks (fun t => -f t) (-a) :=
  ⟨by simp [hf.1], hf.2.neg⟩
theorem mul {f g : ℝ → ℝ} {a b : Dual ℝ} (hf : Tracks f a) (hg : Tracks g b) :
    Tracks (fun t => f t * g t) (a * b) := by
  refine ⟨by simp [hf.1, hg.1], ?_⟩
  have := hf.2.fun_mul hg.2
  rw [hf.1, hg.1] at this
  have e : (a * b).eps = a.eps * b.re + a.re * b.eps := by rw [Dual.eps_mul]; ring
  rw [e]; exact this
theorem div {f g : ℝ → ℝ} {a b : Dual ℝ} (hf : Tracks f a) (hg : Tracks g b) (hb : b.re ≠ 0) :
    Tracks (fun t => f t / g t) (a / b) := by
  refine ⟨by simp [hf.1, hg.1], ?_⟩
  have := hf.2.fun_div hg.2 (by rw [hg.1]; exact hb)
  rw [hf.1, hg.1] at this
  have e : (a / b).eps = (a.eps * b.re - a.re * b.eps) / b.re ^ 2 := by rw [Dual.eps_div, pow_two]
  rw [e]; exact this
theorem pow {f : ℝ → ℝ} {a : Dual ℝ} (hf : Tracks f a) (n : ℕ) : Tracks (fun t => f t ^ n) (a ^ n) := by
  induction n with
  | zero => simpa using one
  | succ k ih => simpa [pow_succ] using ih.mul hf
end Tracks

/-- componentwise `Tracks` for list valued code (`_all` lists) -/
def TracksL (g : ℝ → List ℝ) (l : List (Dual ℝ)) : Prop :=
  ∀ i : ℕ, Tracks (fun t => (g t).getD i 0) (l.getD i 0)
theorem TracksL.nil : TracksL (fun _ => []) [] := fun i => by simpa using Tracks.zero
theorem TracksL.cons {f : ℝ → ℝ} {a : Dual ℝ} {g : ℝ → List ℝ} {l : List (Dual ℝ)}
    (hf : Tracks f a) (hg : TracksL g l) : TracksL (fun t => f t :: g t) (a :: l) := by
  intro i
  cases i with
  | zero => simpa using hf
  | succ k => simpa using hg k
theorem getD_map_eps (l : List (Dual ℝ)) (i : ℕ) : (l.map Dual.eps).getD i 0 = (l.getD i 0).eps := by
  induction l generalizing i with
  | nil => simp
  | cons a l ih =>
    cases i with
    | zero => simp
    | succ k => simpa using ih k
/-- every component of `t ↦ g t` has at `0` the derivative given by the ε part of the dual evaluation -/
theorem TracksL.hasDerivAt {g : ℝ → List ℝ} {l : List (Dual ℝ)} (h : TracksL g l) (i : ℕ) :
    HasDerivAt (fun t => (g t).getD i 0) ((l.map Dual.eps).getD i 0) 0 := by
  rw [getD_map_eps]; exact (h i).2

/-- structural proof of `Tracks (fun t => code (x + t h)) (code ⟨x,h⟩)` for unfolded generated code;
side goals `(divisor).re ≠ 0` are left to the caller -/
macro "dual_track1" : tactic =>
  `(tactic| (first
      | exact Tracks.var _ _
      | exact Tracks.const _
      | exact Tracks.ofNat _
      | exact Tracks.one
      | exact Tracks.zero
      | apply Tracks.add
      | apply Tracks.sub
      | apply Tracks.mul
      | apply Tracks.neg
      | apply Tracks.pow
      | apply Tracks.div))
macro "dual_track" : tactic => `(tactic| repeat' dual_track1)

/-- `TracksL (fun t => [code₀ (x + t h), …]) [code₀ ⟨x,h⟩, …]` for unfolded generated lists; constant
divisors are discharged by `norm_num`, the others are left to the caller -/
macro "track_list" : tactic =>
  `(tactic| (repeat' (first | exact TracksL.nil | apply TracksL.cons)
             all_goals dual_track
             all_goals try (simp only [Dual.re_ofNat, Dual.re_const, Dual.re_one]; norm_num; done)))

/-- unfold generated code evaluated on dual numbers down to field expressions -/
macro "dual_simp" : tactic =>
  `(tactic| simp only [gen_simp, List.map, mv, dot, List.take_succ_cons, List.take_zero, List.drop_succ_cons,
      List.drop_zero, List.length_cons, List.length_nil, List.take_nil, List.drop_nil,
      Dual.re_zero, Dual.eps_zero, Dual.re_one, Dual.eps_one, Dual.re_add, Dual.eps_add, Dual.re_neg, Dual.eps_neg,
      Dual.re_sub, Dual.eps_sub, Dual.re_mul, Dual.eps_mul, Dual.re_ofNat, Dual.eps_ofNat, Dual.re_const,
      Dual.eps_const, Dual.re_div, Dual.eps_div, Dual.re_pow, List.cons.injEq, and_true])

/-- `dual_eq hc`: `(f_code ⟨x,h⟩ …).map eps = mv m (D_code x) h`, component by component, as
polynomial identities modulo `hc : c * c = 2` -/
macro "dual_eq" h:term : tactic =>
  `(tactic| (dual_simp; repeat' apply And.intro
             all_goals (first | rfl | mandel_ring $h)))

/-- same for rational code with one denominator, given `d : <traced divisor> ≠ 0`: the divisor is made
an atom (`generalize_ne`, Common/M3.lean), cleared by `field_simp`, and substituted back -/
macro "dual_eq_den" h:term " with " d:ident : tactic =>
  `(tactic| (simp only [gen_simp] at $d:ident
             dual_simp
             generalize_ne $d => e he
             repeat' apply And.intro
             all_goals (first | rfl | (field_simp; (try simp only [← he]); mandel_ring $h))))
/-- rational code whose divisors are products of variables assumed `≠ 0` in the context -/
macro "dual_eq_den1" h:term : tactic =>
  `(tactic| (dual_simp
             repeat' apply And.intro
             all_goals (first | rfl | (field_simp; mandel_ring $h))))

end TfelVerif.C06
