/-
  C06 — Closed-form derivative helpers are true derivatives.  Part 1: symmetric tensors (determinant, determinant of the deviator, square).

  Property theorems only. `Gen.*` are the definitions regenerated on every run by instantiating the
  real TFEL templates with a recording scalar (harness/C06/trace.cxx), emitted over
  `[CommRing K] [Div K]` so that the generated code itself can be evaluated on the dual numbers
  `Dual K = K[ε]/(ε²)` (Lemmas.lean: a commutative ring, every axiom proved; `/` is the quotient rule).

  Shape of every theorem. For a helper `D` documented as the derivative of `f`:
      (f_code (x₀ + ε h₀) (x₁ + ε h₁) …).map eps = D_code(x) · h          for all x and all h,
  i.e. the ε part of the code of `f` run at `x + ε h` (formal directional derivative of the rational
  function computed by the code, along an arbitrary direction `h`) is the matrix returned by `D`
  applied to `h`. `⟨x, h⟩ : Dual K` is `x + ε h`; `mv m M h` is the flat row-major `m × |h|` matrix `M`
  times `h`. Symmetric tensors are differentiated with respect to their stored (Mandel) components,
  non symmetric ones with respect to their stored components, as the library does
  (`D(i,j) = ∂fᵢ/∂xⱼ`). PropsReal.lean turns each statement into `HasDerivAt` over ℝ.

  Standing hypotheses: `c * c = 2` (`c` is √2, `Cste<T>::sqrt2`), characteristic 0.
  Non-vacuity: ℝ with `c = √2` (Common/Model.lean, PropsReal.lean instantiates every theorem there).
-/
import TfelVerif.Common.Mandel
import TfelVerif.C06.Lemmas
import TfelVerif.C06.GenN1
import TfelVerif.C06.GenN2
import TfelVerif.C06.GenN3a

namespace TfelVerif.C06.PropsSt
open TfelVerif TfelVerif.Mandel TfelVerif.C06
set_option linter.unusedVariables false
set_option linter.unusedSectionVars false
set_option maxRecDepth 100000

variable {K : Type} [Field K] [CharZero K] (c c3 : K) (fn : Fns K)

/-- `computeDeterminantDerivative(s)` is the derivative of `det(s)` (symmetric tensor, Mandel components) -/
theorem N1_st_ddet (hc : c * c = 2) (s0 s1 s2 h0 h1 h2 : K) :
    (Gen.N1_st_det_all (Dual.const c) (Dual.const c3) (dualFns K) ⟨s0, h0⟩ ⟨s1, h1⟩ ⟨s2, h2⟩).map Dual.eps
      = mv 1 (Gen.N1_st_ddet_all c c3 fn s0 s1 s2) [h0, h1, h2] := by
  dual_eq hc

/-- `computeDeterminantSecondDerivative(s)` is the derivative of `computeDeterminantDerivative(s)` -/
theorem N1_st_d2det (hc : c * c = 2) (s0 s1 s2 h0 h1 h2 : K) :
    (Gen.N1_st_ddet_all (Dual.const c) (Dual.const c3) (dualFns K) ⟨s0, h0⟩ ⟨s1, h1⟩ ⟨s2, h2⟩).map Dual.eps
      = mv 3 (Gen.N1_st_d2det_all c c3 fn s0 s1 s2) [h0, h1, h2] := by
  dual_eq hc

/-- `computeDeviatorDeterminantDerivative(s)` is the derivative of `det(deviator(s))` -/
theorem N1_st_ddevdet (hc : c * c = 2) (s0 s1 s2 h0 h1 h2 : K) :
    (Gen.N1_st_devdet_all (Dual.const c) (Dual.const c3) (dualFns K) ⟨s0, h0⟩ ⟨s1, h1⟩ ⟨s2, h2⟩).map Dual.eps
      = mv 1 (Gen.N1_st_ddevdet_all c c3 fn s0 s1 s2) [h0, h1, h2] := by
  dual_eq hc

/-- `computeDeviatorDeterminantSecondDerivative(s)` is the derivative of `computeDeviatorDeterminantDerivative(s)` -/
theorem N1_st_d2devdet (hc : c * c = 2) (s0 s1 s2 h0 h1 h2 : K) :
    (Gen.N1_st_ddevdet_all (Dual.const c) (Dual.const c3) (dualFns K) ⟨s0, h0⟩ ⟨s1, h1⟩ ⟨s2, h2⟩).map Dual.eps
      = mv 3 (Gen.N1_st_d2devdet_all c c3 fn s0 s1 s2) [h0, h1, h2] := by
  dual_eq hc

/-- `st2tost2::dsquare(s)` is the derivative of `square(s)` -/
theorem N1_st_dsquare (hc : c * c = 2) (s0 s1 s2 h0 h1 h2 : K) :
    (Gen.N1_st_square_all (Dual.const c) (Dual.const c3) (dualFns K) ⟨s0, h0⟩ ⟨s1, h1⟩ ⟨s2, h2⟩).map Dual.eps
      = mv 3 (Gen.N1_st_dsquare_all c c3 fn s0 s1 s2) [h0, h1, h2] := by
  dual_eq hc

/-- `st2tost2::dsquare(s, C)`: derivative of `square(s)` when `s` moves with derivative `C` (chain rule) -/
theorem N1_st_dsquareC (hc : c * c = 2) (s0 s1 s2 C00 C01 C02 C10 C11 C12 C20 C21 C22 h0 h1 h2 : K) :
    (Gen.N1_st_square_all (Dual.const c) (Dual.const c3) (dualFns K) ⟨s0, dot [C00, C01, C02] [h0, h1, h2]⟩ ⟨s1, dot [C10, C11, C12] [h0, h1, h2]⟩ ⟨s2, dot [C20, C21, C22] [h0, h1, h2]⟩).map Dual.eps
      = mv 3 (Gen.N1_st_dsquareC_all c c3 fn s0 s1 s2 C00 C01 C02 C10 C11 C12 C20 C21 C22) [h0, h1, h2] := by
  dual_eq hc

/-- `computeDeterminantDerivative(s)` is the derivative of `det(s)` (symmetric tensor, Mandel components) -/
theorem N2_st_ddet (hc : c * c = 2) (s0 s1 s2 s3 h0 h1 h2 h3 : K) :
    (Gen.N2_st_det_all (Dual.const c) (Dual.const c3) (dualFns K) ⟨s0, h0⟩ ⟨s1, h1⟩ ⟨s2, h2⟩ ⟨s3, h3⟩).map Dual.eps
      = mv 1 (Gen.N2_st_ddet_all c c3 fn s0 s1 s2 s3) [h0, h1, h2, h3] := by
  dual_eq hc

/-- `computeDeterminantSecondDerivative(s)` is the derivative of `computeDeterminantDerivative(s)` -/
theorem N2_st_d2det (hc : c * c = 2) (s0 s1 s2 s3 h0 h1 h2 h3 : K) :
    (Gen.N2_st_ddet_all (Dual.const c) (Dual.const c3) (dualFns K) ⟨s0, h0⟩ ⟨s1, h1⟩ ⟨s2, h2⟩ ⟨s3, h3⟩).map Dual.eps
      = mv 4 (Gen.N2_st_d2det_all c c3 fn s0 s1 s2 s3) [h0, h1, h2, h3] := by
  dual_eq hc

/-- `computeDeviatorDeterminantDerivative(s)` is the derivative of `det(deviator(s))` -/
theorem N2_st_ddevdet (hc : c * c = 2) (s0 s1 s2 s3 h0 h1 h2 h3 : K) :
    (Gen.N2_st_devdet_all (Dual.const c) (Dual.const c3) (dualFns K) ⟨s0, h0⟩ ⟨s1, h1⟩ ⟨s2, h2⟩ ⟨s3, h3⟩).map Dual.eps
      = mv 1 (Gen.N2_st_ddevdet_all c c3 fn s0 s1 s2 s3) [h0, h1, h2, h3] := by
  dual_eq hc

/-- `computeDeviatorDeterminantSecondDerivative(s)` is the derivative of `computeDeviatorDeterminantDerivative(s)` -/
theorem N2_st_d2devdet (hc : c * c = 2) (s0 s1 s2 s3 h0 h1 h2 h3 : K) :
    (Gen.N2_st_ddevdet_all (Dual.const c) (Dual.const c3) (dualFns K) ⟨s0, h0⟩ ⟨s1, h1⟩ ⟨s2, h2⟩ ⟨s3, h3⟩).map Dual.eps
      = mv 4 (Gen.N2_st_d2devdet_all c c3 fn s0 s1 s2 s3) [h0, h1, h2, h3] := by
  dual_eq hc

/-- `st2tost2::dsquare(s)` is the derivative of `square(s)` -/
theorem N2_st_dsquare (hc : c * c = 2) (s0 s1 s2 s3 h0 h1 h2 h3 : K) :
    (Gen.N2_st_square_all (Dual.const c) (Dual.const c3) (dualFns K) ⟨s0, h0⟩ ⟨s1, h1⟩ ⟨s2, h2⟩ ⟨s3, h3⟩).map Dual.eps
      = mv 4 (Gen.N2_st_dsquare_all c c3 fn s0 s1 s2 s3) [h0, h1, h2, h3] := by
  dual_eq hc

/-- `st2tost2::dsquare(s, C)`: derivative of `square(s)` when `s` moves with derivative `C` (chain rule) -/
theorem N2_st_dsquareC (hc : c * c = 2) (s0 s1 s2 s3 C00 C01 C02 C03 C10 C11 C12 C13 C20 C21 C22 C23 C30 C31 C32 C33 h0 h1 h2 h3 : K) :
    (Gen.N2_st_square_all (Dual.const c) (Dual.const c3) (dualFns K) ⟨s0, dot [C00, C01, C02, C03] [h0, h1, h2, h3]⟩ ⟨s1, dot [C10, C11, C12, C13] [h0, h1, h2, h3]⟩ ⟨s2, dot [C20, C21, C22, C23] [h0, h1, h2, h3]⟩ ⟨s3, dot [C30, C31, C32, C33] [h0, h1, h2, h3]⟩).map Dual.eps
      = mv 4 (Gen.N2_st_dsquareC_all c c3 fn s0 s1 s2 s3 C00 C01 C02 C03 C10 C11 C12 C13 C20 C21 C22 C23 C30 C31 C32 C33) [h0, h1, h2, h3] := by
  dual_eq hc

/-- `computeDeterminantDerivative(s)` is the derivative of `det(s)` (symmetric tensor, Mandel components) -/
theorem N3_st_ddet (hc : c * c = 2) (s0 s1 s2 s3 s4 s5 h0 h1 h2 h3 h4 h5 : K) :
    (Gen.N3_st_det_all (Dual.const c) (Dual.const c3) (dualFns K) ⟨s0, h0⟩ ⟨s1, h1⟩ ⟨s2, h2⟩ ⟨s3, h3⟩ ⟨s4, h4⟩ ⟨s5, h5⟩).map Dual.eps
      = mv 1 (Gen.N3_st_ddet_all c c3 fn s0 s1 s2 s3 s4 s5) [h0, h1, h2, h3, h4, h5] := by
  dual_eq hc

/-- `computeDeterminantSecondDerivative(s)` is the derivative of `computeDeterminantDerivative(s)` -/
theorem N3_st_d2det (hc : c * c = 2) (s0 s1 s2 s3 s4 s5 h0 h1 h2 h3 h4 h5 : K) :
    (Gen.N3_st_ddet_all (Dual.const c) (Dual.const c3) (dualFns K) ⟨s0, h0⟩ ⟨s1, h1⟩ ⟨s2, h2⟩ ⟨s3, h3⟩ ⟨s4, h4⟩ ⟨s5, h5⟩).map Dual.eps
      = mv 6 (Gen.N3_st_d2det_all c c3 fn s0 s1 s2 s3 s4 s5) [h0, h1, h2, h3, h4, h5] := by
  dual_eq hc

/-- `computeDeviatorDeterminantDerivative(s)` is the derivative of `det(deviator(s))` -/
theorem N3_st_ddevdet (hc : c * c = 2) (s0 s1 s2 s3 s4 s5 h0 h1 h2 h3 h4 h5 : K) :
    (Gen.N3_st_devdet_all (Dual.const c) (Dual.const c3) (dualFns K) ⟨s0, h0⟩ ⟨s1, h1⟩ ⟨s2, h2⟩ ⟨s3, h3⟩ ⟨s4, h4⟩ ⟨s5, h5⟩).map Dual.eps
      = mv 1 (Gen.N3_st_ddevdet_all c c3 fn s0 s1 s2 s3 s4 s5) [h0, h1, h2, h3, h4, h5] := by
  dual_eq hc

/-- `computeDeviatorDeterminantSecondDerivative(s)` is the derivative of `computeDeviatorDeterminantDerivative(s)` -/
theorem N3_st_d2devdet (hc : c * c = 2) (s0 s1 s2 s3 s4 s5 h0 h1 h2 h3 h4 h5 : K) :
    (Gen.N3_st_ddevdet_all (Dual.const c) (Dual.const c3) (dualFns K) ⟨s0, h0⟩ ⟨s1, h1⟩ ⟨s2, h2⟩ ⟨s3, h3⟩ ⟨s4, h4⟩ ⟨s5, h5⟩).map Dual.eps
      = mv 6 (Gen.N3_st_d2devdet_all c c3 fn s0 s1 s2 s3 s4 s5) [h0, h1, h2, h3, h4, h5] := by
  dual_eq hc

/-- `st2tost2::dsquare(s)` is the derivative of `square(s)` -/
theorem N3_st_dsquare (hc : c * c = 2) (s0 s1 s2 s3 s4 s5 h0 h1 h2 h3 h4 h5 : K) :
    (Gen.N3_st_square_all (Dual.const c) (Dual.const c3) (dualFns K) ⟨s0, h0⟩ ⟨s1, h1⟩ ⟨s2, h2⟩ ⟨s3, h3⟩ ⟨s4, h4⟩ ⟨s5, h5⟩).map Dual.eps
      = mv 6 (Gen.N3_st_dsquare_all c c3 fn s0 s1 s2 s3 s4 s5) [h0, h1, h2, h3, h4, h5] := by
  dual_eq hc

/-- `st2tost2::dsquare(s, C)`: derivative of `square(s)` when `s` moves with derivative `C` (chain rule) -/
theorem N3_st_dsquareC (hc : c * c = 2) (s0 s1 s2 s3 s4 s5 C00 C01 C02 C03 C04 C05 C10 C11 C12 C13 C14 C15 C20 C21 C22 C23 C24 C25 C30 C31 C32 C33 C34 C35 C40 C41 C42 C43 C44 C45 C50 C51 C52 C53 C54 C55 h0 h1 h2 h3 h4 h5 : K) :
    (Gen.N3_st_square_all (Dual.const c) (Dual.const c3) (dualFns K) ⟨s0, dot [C00, C01, C02, C03, C04, C05] [h0, h1, h2, h3, h4, h5]⟩ ⟨s1, dot [C10, C11, C12, C13, C14, C15] [h0, h1, h2, h3, h4, h5]⟩ ⟨s2, dot [C20, C21, C22, C23, C24, C25] [h0, h1, h2, h3, h4, h5]⟩ ⟨s3, dot [C30, C31, C32, C33, C34, C35] [h0, h1, h2, h3, h4, h5]⟩ ⟨s4, dot [C40, C41, C42, C43, C44, C45] [h0, h1, h2, h3, h4, h5]⟩ ⟨s5, dot [C50, C51, C52, C53, C54, C55] [h0, h1, h2, h3, h4, h5]⟩).map Dual.eps
      = mv 6 (Gen.N3_st_dsquareC_all c c3 fn s0 s1 s2 s3 s4 s5 C00 C01 C02 C03 C04 C05 C10 C11 C12 C13 C14 C15 C20 C21 C22 C23 C24 C25 C30 C31 C32 C33 C34 C35 C40 C41 C42 C43 C44 C45 C50 C51 C52 C53 C54 C55) [h0, h1, h2, h3, h4, h5] := by
  dual_eq hc

end TfelVerif.C06.PropsSt
