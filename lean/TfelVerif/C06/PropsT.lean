/-
  C06 — Closed-form derivative helpers are true derivatives.  Part 2: Cauchy-Green / Green-Lagrange tensors, tensor product, determinant of a non symmetric tensor.

  Property theorems only. `Gen.*` are the definitions regenerated on every run by instantiating the
  real TFEL templates with a recording scalar (harness/C06/trace.cxx), emitted over
  `[CommRing K] [Div K]` so that the generated code itself can be evaluated on the dual numbers
  `Dual K = K[ε]/(ε²)` (Lemmas.lean: a commutative ring, every axiom proved; `/` is the quotient rule).

  Shape of every theorem. For a helper `D` documented as the derivative of `f`:
      (f_code (x₀ + ε h₀) (x₁ + ε h₁) …).map eps = D_code(x) · h          for all x and all h,
  i.e. the ε part of the code of `f` run at `x + ε h` (formal directional derivative of the rational
  function computed by the code, along an arbitrary direction `h`) is the matrix returned by `D`
  applied to `h`. `⟨x, h⟩ : Dual K` is `x + ε h`; `mv m M h` is the flat row-major `m × |h|` matrix `M`
  times `h`. Symmetric tensors are differentiated with respect to their stored (Mandel) components,
  non symmetric ones with respect to their stored components, as the library does
  (`D(i,j) = ∂fᵢ/∂xⱼ`). PropsReal.lean turns each statement into `HasDerivAt` over ℝ.

  Standing hypotheses: `c * c = 2` (`c` is √2, `Cste<T>::sqrt2`), characteristic 0.
  Non-vacuity: ℝ with `c = √2` (Common/Model.lean, PropsReal.lean instantiates every theorem there).
-/
import TfelVerif.Common.Mandel
import TfelVerif.C06.Lemmas
import TfelVerif.C06.GenN1
import TfelVerif.C06.GenN2
import TfelVerif.C06.GenN3b

namespace TfelVerif.C06.PropsT
open TfelVerif TfelVerif.Mandel TfelVerif.C06
set_option linter.unusedVariables false
set_option linter.unusedSectionVars false
set_option maxRecDepth 100000

variable {K : Type} [Field K] [CharZero K] (c c3 : K) (fn : Fns K)

/-- `t2tost2::dCdF(F)` is the derivative of the right Cauchy-Green tensor `computeRightCauchyGreenTensor(F)` -/
theorem N1_t_dCdF (hc : c * c = 2) (F0 F1 F2 h0 h1 h2 : K) :
    (Gen.N1_t_C_all (Dual.const c) (Dual.const c3) (dualFns K) ⟨F0, h0⟩ ⟨F1, h1⟩ ⟨F2, h2⟩).map Dual.eps
      = mv 3 (Gen.N1_t_dCdF_all c c3 fn F0 F1 F2) [h0, h1, h2] := by
  dual_eq hc

/-- `t2tost2::dBdF(F)` is the derivative of the left Cauchy-Green tensor `computeLeftCauchyGreenTensor(F)` -/
theorem N1_t_dBdF (hc : c * c = 2) (F0 F1 F2 h0 h1 h2 : K) :
    (Gen.N1_t_B_all (Dual.const c) (Dual.const c3) (dualFns K) ⟨F0, h0⟩ ⟨F1, h1⟩ ⟨F2, h2⟩).map Dual.eps
      = mv 3 (Gen.N1_t_dBdF_all c c3 fn F0 F1 F2) [h0, h1, h2] := by
  dual_eq hc

/-- `t2tost2::dCdF(F) / 2` (as built in ConvertToPK1Derivative.ixx) is the derivative of `computeGreenLagrangeTensor(F)` -/
theorem N1_t_dGLdF (hc : c * c = 2) (F0 F1 F2 h0 h1 h2 : K) :
    (Gen.N1_t_GL_all (Dual.const c) (Dual.const c3) (dualFns K) ⟨F0, h0⟩ ⟨F1, h1⟩ ⟨F2, h2⟩).map Dual.eps
      = mv 3 (Gen.N1_t_dGLdF_all c c3 fn F0 F1 F2) [h0, h1, h2] := by
  dual_eq hc

/-- `computeDeterminantDerivative(F)` is the derivative of `det(F)` (non symmetric tensor) -/
theorem N1_t_ddet (hc : c * c = 2) (F0 F1 F2 h0 h1 h2 : K) :
    (Gen.N1_t_det_all (Dual.const c) (Dual.const c3) (dualFns K) ⟨F0, h0⟩ ⟨F1, h1⟩ ⟨F2, h2⟩).map Dual.eps
      = mv 1 (Gen.N1_t_ddet_all c c3 fn F0 F1 F2) [h0, h1, h2] := by
  dual_eq hc

/-- `computeDeterminantSecondDerivative(F)` (t2tot2) is the derivative of `computeDeterminantDerivative(F)` -/
theorem N1_t_d2det (hc : c * c = 2) (F0 F1 F2 h0 h1 h2 : K) :
    (Gen.N1_t_ddet_all (Dual.const c) (Dual.const c3) (dualFns K) ⟨F0, h0⟩ ⟨F1, h1⟩ ⟨F2, h2⟩).map Dual.eps
      = mv 3 (Gen.N1_t_d2det_all c c3 fn F0 F1 F2) [h0, h1, h2] := by
  dual_eq hc

/-- `t2tot2::tpld(B)` is the derivative of `A * B` with respect to `A` -/
theorem N1_t_tpld (hc : c * c = 2) (A0 A1 A2 B0 B1 B2 h0 h1 h2 : K) :
    (Gen.N1_t_prod_all (Dual.const c) (Dual.const c3) (dualFns K) ⟨A0, h0⟩ ⟨A1, h1⟩ ⟨A2, h2⟩ (Dual.const B0) (Dual.const B1) (Dual.const B2)).map Dual.eps
      = mv 3 (Gen.N1_t_tpld_all c c3 fn B0 B1 B2) [h0, h1, h2] := by
  dual_eq hc

/-- `t2tot2::tprd(A)` is the derivative of `A * B` with respect to `B` -/
theorem N1_t_tprd (hc : c * c = 2) (A0 A1 A2 B0 B1 B2 h0 h1 h2 : K) :
    (Gen.N1_t_prod_all (Dual.const c) (Dual.const c3) (dualFns K) (Dual.const A0) (Dual.const A1) (Dual.const A2) ⟨B0, h0⟩ ⟨B1, h1⟩ ⟨B2, h2⟩).map Dual.eps
      = mv 3 (Gen.N1_t_tprd_all c c3 fn A0 A1 A2) [h0, h1, h2] := by
  dual_eq hc

/-- `t2tost2::dCdF(F)` is the derivative of the right Cauchy-Green tensor `computeRightCauchyGreenTensor(F)` -/
theorem N2_t_dCdF (hc : c * c = 2) (F0 F1 F2 F3 F4 h0 h1 h2 h3 h4 : K) :
    (Gen.N2_t_C_all (Dual.const c) (Dual.const c3) (dualFns K) ⟨F0, h0⟩ ⟨F1, h1⟩ ⟨F2, h2⟩ ⟨F3, h3⟩ ⟨F4, h4⟩).map Dual.eps
      = mv 4 (Gen.N2_t_dCdF_all c c3 fn F0 F1 F2 F3 F4) [h0, h1, h2, h3, h4] := by
  dual_eq hc

/-- `t2tost2::dBdF(F)` is the derivative of the left Cauchy-Green tensor `computeLeftCauchyGreenTensor(F)` -/
theorem N2_t_dBdF (hc : c * c = 2) (F0 F1 F2 F3 F4 h0 h1 h2 h3 h4 : K) :
    (Gen.N2_t_B_all (Dual.const c) (Dual.const c3) (dualFns K) ⟨F0, h0⟩ ⟨F1, h1⟩ ⟨F2, h2⟩ ⟨F3, h3⟩ ⟨F4, h4⟩).map Dual.eps
      = mv 4 (Gen.N2_t_dBdF_all c c3 fn F0 F1 F2 F3 F4) [h0, h1, h2, h3, h4] := by
  dual_eq hc

/-- `t2tost2::dCdF(F) / 2` (as built in ConvertToPK1Derivative.ixx) is the derivative of `computeGreenLagrangeTensor(F)` -/
theorem N2_t_dGLdF (hc : c * c = 2) (F0 F1 F2 F3 F4 h0 h1 h2 h3 h4 : K) :
    (Gen.N2_t_GL_all (Dual.const c) (Dual.const c3) (dualFns K) ⟨F0, h0⟩ ⟨F1, h1⟩ ⟨F2, h2⟩ ⟨F3, h3⟩ ⟨F4, h4⟩).map Dual.eps
      = mv 4 (Gen.N2_t_dGLdF_all c c3 fn F0 F1 F2 F3 F4) [h0, h1, h2, h3, h4] := by
  dual_eq hc

/-- `computeDeterminantDerivative(F)` is the derivative of `det(F)` (non symmetric tensor) -/
theorem N2_t_ddet (hc : c * c = 2) (F0 F1 F2 F3 F4 h0 h1 h2 h3 h4 : K) :
    (Gen.N2_t_det_all (Dual.const c) (Dual.const c3) (dualFns K) ⟨F0, h0⟩ ⟨F1, h1⟩ ⟨F2, h2⟩ ⟨F3, h3⟩ ⟨F4, h4⟩).map Dual.eps
      = mv 1 (Gen.N2_t_ddet_all c c3 fn F0 F1 F2 F3 F4) [h0, h1, h2, h3, h4] := by
  dual_eq hc

/-- `computeDeterminantSecondDerivative(F)` (t2tot2) is the derivative of `computeDeterminantDerivative(F)` -/
theorem N2_t_d2det (hc : c * c = 2) (F0 F1 F2 F3 F4 h0 h1 h2 h3 h4 : K) :
    (Gen.N2_t_ddet_all (Dual.const c) (Dual.const c3) (dualFns K) ⟨F0, h0⟩ ⟨F1, h1⟩ ⟨F2, h2⟩ ⟨F3, h3⟩ ⟨F4, h4⟩).map Dual.eps
      = mv 5 (Gen.N2_t_d2det_all c c3 fn F0 F1 F2 F3 F4) [h0, h1, h2, h3, h4] := by
  dual_eq hc

/-- `t2tot2::tpld(B)` is the derivative of `A * B` with respect to `A` -/
theorem N2_t_tpld (hc : c * c = 2) (A0 A1 A2 A3 A4 B0 B1 B2 B3 B4 h0 h1 h2 h3 h4 : K) :
    (Gen.N2_t_prod_all (Dual.const c) (Dual.const c3) (dualFns K) ⟨A0, h0⟩ ⟨A1, h1⟩ ⟨A2, h2⟩ ⟨A3, h3⟩ ⟨A4, h4⟩ (Dual.const B0) (Dual.const B1) (Dual.const B2) (Dual.const B3) (Dual.const B4)).map Dual.eps
      = mv 5 (Gen.N2_t_tpld_all c c3 fn B0 B1 B2 B3 B4) [h0, h1, h2, h3, h4] := by
  dual_eq hc

/-- `t2tot2::tprd(A)` is the derivative of `A * B` with respect to `B` -/
theorem N2_t_tprd (hc : c * c = 2) (A0 A1 A2 A3 A4 B0 B1 B2 B3 B4 h0 h1 h2 h3 h4 : K) :
    (Gen.N2_t_prod_all (Dual.const c) (Dual.const c3) (dualFns K) (Dual.const A0) (Dual.const A1) (Dual.const A2) (Dual.const A3) (Dual.const A4) ⟨B0, h0⟩ ⟨B1, h1⟩ ⟨B2, h2⟩ ⟨B3, h3⟩ ⟨B4, h4⟩).map Dual.eps
      = mv 5 (Gen.N2_t_tprd_all c c3 fn A0 A1 A2 A3 A4) [h0, h1, h2, h3, h4] := by
  dual_eq hc

/-- `t2tost2::dCdF(F)` is the derivative of the right Cauchy-Green tensor `computeRightCauchyGreenTensor(F)` -/
theorem N3_t_dCdF (hc : c * c = 2) (F0 F1 F2 F3 F4 F5 F6 F7 F8 h0 h1 h2 h3 h4 h5 h6 h7 h8 : K) :
    (Gen.N3_t_C_all (Dual.const c) (Dual.const c3) (dualFns K) ⟨F0, h0⟩ ⟨F1, h1⟩ ⟨F2, h2⟩ ⟨F3, h3⟩ ⟨F4, h4⟩ ⟨F5, h5⟩ ⟨F6, h6⟩ ⟨F7, h7⟩ ⟨F8, h8⟩).map Dual.eps
      = mv 6 (Gen.N3_t_dCdF_all c c3 fn F0 F1 F2 F3 F4 F5 F6 F7 F8) [h0, h1, h2, h3, h4, h5, h6, h7, h8] := by
  dual_eq hc

/-- `t2tost2::dBdF(F)` is the derivative of the left Cauchy-Green tensor `computeLeftCauchyGreenTensor(F)` -/
theorem N3_t_dBdF (hc : c * c = 2) (F0 F1 F2 F3 F4 F5 F6 F7 F8 h0 h1 h2 h3 h4 h5 h6 h7 h8 : K) :
    (Gen.N3_t_B_all (Dual.const c) (Dual.const c3) (dualFns K) ⟨F0, h0⟩ ⟨F1, h1⟩ ⟨F2, h2⟩ ⟨F3, h3⟩ ⟨F4, h4⟩ ⟨F5, h5⟩ ⟨F6, h6⟩ ⟨F7, h7⟩ ⟨F8, h8⟩).map Dual.eps
      = mv 6 (Gen.N3_t_dBdF_all c c3 fn F0 F1 F2 F3 F4 F5 F6 F7 F8) [h0, h1, h2, h3, h4, h5, h6, h7, h8] := by
  dual_eq hc

/-- `t2tost2::dCdF(F) / 2` (as built in ConvertToPK1Derivative.ixx) is the derivative of `computeGreenLagrangeTensor(F)` -/
theorem N3_t_dGLdF (hc : c * c = 2) (F0 F1 F2 F3 F4 F5 F6 F7 F8 h0 h1 h2 h3 h4 h5 h6 h7 h8 : K) :
    (Gen.N3_t_GL_all (Dual.const c) (Dual.const c3) (dualFns K) ⟨F0, h0⟩ ⟨F1, h1⟩ ⟨F2, h2⟩ ⟨F3, h3⟩ ⟨F4, h4⟩ ⟨F5, h5⟩ ⟨F6, h6⟩ ⟨F7, h7⟩ ⟨F8, h8⟩).map Dual.eps
      = mv 6 (Gen.N3_t_dGLdF_all c c3 fn F0 F1 F2 F3 F4 F5 F6 F7 F8) [h0, h1, h2, h3, h4, h5, h6, h7, h8] := by
  dual_eq hc

/-- `computeDeterminantDerivative(F)` is the derivative of `det(F)` (non symmetric tensor) -/
theorem N3_t_ddet (hc : c * c = 2) (F0 F1 F2 F3 F4 F5 F6 F7 F8 h0 h1 h2 h3 h4 h5 h6 h7 h8 : K) :
    (Gen.N3_t_det_all (Dual.const c) (Dual.const c3) (dualFns K) ⟨F0, h0⟩ ⟨F1, h1⟩ ⟨F2, h2⟩ ⟨F3, h3⟩ ⟨F4, h4⟩ ⟨F5, h5⟩ ⟨F6, h6⟩ ⟨F7, h7⟩ ⟨F8, h8⟩).map Dual.eps
      = mv 1 (Gen.N3_t_ddet_all c c3 fn F0 F1 F2 F3 F4 F5 F6 F7 F8) [h0, h1, h2, h3, h4, h5, h6, h7, h8] := by
  dual_eq hc

/-- `computeDeterminantSecondDerivative(F)` (t2tot2) is the derivative of `computeDeterminantDerivative(F)` -/
theorem N3_t_d2det (hc : c * c = 2) (F0 F1 F2 F3 F4 F5 F6 F7 F8 h0 h1 h2 h3 h4 h5 h6 h7 h8 : K) :
    (Gen.N3_t_ddet_all (Dual.const c) (Dual.const c3) (dualFns K) ⟨F0, h0⟩ ⟨F1, h1⟩ ⟨F2, h2⟩ ⟨F3, h3⟩ ⟨F4, h4⟩ ⟨F5, h5⟩ ⟨F6, h6⟩ ⟨F7, h7⟩ ⟨F8, h8⟩).map Dual.eps
      = mv 9 (Gen.N3_t_d2det_all c c3 fn F0 F1 F2 F3 F4 F5 F6 F7 F8) [h0, h1, h2, h3, h4, h5, h6, h7, h8] := by
  dual_eq hc

/-- `t2tot2::tpld(B)` is the derivative of `A * B` with respect to `A` -/
theorem N3_t_tpld (hc : c * c = 2) (A0 A1 A2 A3 A4 A5 A6 A7 A8 B0 B1 B2 B3 B4 B5 B6 B7 B8 h0 h1 h2 h3 h4 h5 h6 h7 h8 : K) :
    (Gen.N3_t_prod_all (Dual.const c) (Dual.const c3) (dualFns K) ⟨A0, h0⟩ ⟨A1, h1⟩ ⟨A2, h2⟩ ⟨A3, h3⟩ ⟨A4, h4⟩ ⟨A5, h5⟩ ⟨A6, h6⟩ ⟨A7, h7⟩ ⟨A8, h8⟩ (Dual.const B0) (Dual.const B1) (Dual.const B2) (Dual.const B3) (Dual.const B4) (Dual.const B5) (Dual.const B6) (Dual.const B7) (Dual.const B8)).map Dual.eps
      = mv 9 (Gen.N3_t_tpld_all c c3 fn B0 B1 B2 B3 B4 B5 B6 B7 B8) [h0, h1, h2, h3, h4, h5, h6, h7, h8] := by
  dual_eq hc

/-- `t2tot2::tprd(A)` is the derivative of `A * B` with respect to `B` -/
theorem N3_t_tprd (hc : c * c = 2) (A0 A1 A2 A3 A4 A5 A6 A7 A8 B0 B1 B2 B3 B4 B5 B6 B7 B8 h0 h1 h2 h3 h4 h5 h6 h7 h8 : K) :
    (Gen.N3_t_prod_all (Dual.const c) (Dual.const c3) (dualFns K) (Dual.const A0) (Dual.const A1) (Dual.const A2) (Dual.const A3) (Dual.const A4) (Dual.const A5) (Dual.const A6) (Dual.const A7) (Dual.const A8) ⟨B0, h0⟩ ⟨B1, h1⟩ ⟨B2, h2⟩ ⟨B3, h3⟩ ⟨B4, h4⟩ ⟨B5, h5⟩ ⟨B6, h6⟩ ⟨B7, h7⟩ ⟨B8, h8⟩).map Dual.eps
      = mv 9 (Gen.N3_t_tprd_all c c3 fn A0 A1 A2 A3 A4 A5 A6 A7 A8) [h0, h1, h2, h3, h4, h5, h6, h7, h8] := by
  dual_eq hc

end TfelVerif.C06.PropsT
