/-
  C06 — Closed-form derivative helpers are true derivatives.  Part 6 (3D): rate of deformation derivative (T2toST2/t2tost2.ixx), st2tost2::stpd.

  Property theorems only. `Gen.*` are the definitions regenerated on every run by instantiating the
  real TFEL templates with a recording scalar (harness/C06/trace.cxx), emitted over
  `[CommRing K] [Div K]` so that the generated code itself can be evaluated on the dual numbers
  `Dual K = K[ε]/(ε²)` (Lemmas.lean: a commutative ring, every axiom proved; `/` is the quotient rule).

  Shape of every theorem. For a helper `D` documented as the derivative of `f`:
      (f_code (x₀ + ε h₀) (x₁ + ε h₁) …).map eps = D_code(x) · h          for all x and all h,
  i.e. the ε part of the code of `f` run at `x + ε h` (formal directional derivative of the rational
  function computed by the code, along an arbitrary direction `h`) is the matrix returned by `D`
  applied to `h`. `⟨x, h⟩ : Dual K` is `x + ε h`; `mv m M h` is the flat row-major `m × |h|` matrix `M`
  times `h`. Symmetric tensors are differentiated with respect to their stored (Mandel) components,
  non symmetric ones with respect to their stored components, as the library does
  (`D(i,j) = ∂fᵢ/∂xⱼ`). PropsReal.lean turns each statement into `HasDerivAt` over ℝ.

  Standing hypotheses: `c * c = 2` (`c` is √2, `Cste<T>::sqrt2`), characteristic 0.
  Non-vacuity: ℝ with `c = √2` (Common/Model.lean, PropsReal.lean instantiates every theorem there).
-/
import TfelVerif.Common.Mandel
import TfelVerif.C06.Lemmas
import TfelVerif.C06.GenX3c

namespace TfelVerif.C06.PropsX3c
open TfelVerif TfelVerif.Mandel TfelVerif.C06
set_option linter.unusedVariables false
set_option linter.unusedSectionVars false
set_option maxRecDepth 100000

variable {K : Type} [Field K] [CharZero K] (c c3 : K) (fn : Fns K)

/-- `computeRateOfDeformationDerivative(F)` is the derivative with respect to the deformation gradient rate `G` of the rate of deformation `syme(G * invert(F))` (linear in `G`; `hJ`: the traced divisor of `invert(F)` is not zero) -/
theorem N3_drod (hc : c * c = 2) (G0 G1 G2 G3 G4 G5 G6 G7 G8 F0 F1 F2 F3 F4 F5 F6 F7 F8 h0 h1 h2 h3 h4 h5 h6 h7 h8 : K) (hJ : Gen.N3_drod_den0 c c3 fn F0 F1 F2 F3 F4 F5 F6 F7 F8 ≠ 0) :
    (Gen.N3_rod_all (Dual.const c) (Dual.const c3) (dualFns K) ⟨G0, h0⟩ ⟨G1, h1⟩ ⟨G2, h2⟩ ⟨G3, h3⟩ ⟨G4, h4⟩ ⟨G5, h5⟩ ⟨G6, h6⟩ ⟨G7, h7⟩ ⟨G8, h8⟩ (Dual.const F0) (Dual.const F1) (Dual.const F2) (Dual.const F3) (Dual.const F4) (Dual.const F5) (Dual.const F6) (Dual.const F7) (Dual.const F8)).map Dual.eps
      = mv 6 (Gen.N3_drod_all c c3 fn F0 F1 F2 F3 F4 F5 F6 F7 F8) [h0, h1, h2, h3, h4, h5, h6, h7, h8] := by
  dual_eq_den hc with hJ

/-- `st2tost2::stpd(s)` is the derivative with respect to `a` of `a*s + s*a = 2 * symmetric_product(a, s)` -/
theorem N3_stpd (hc : c * c = 2) (a0 a1 a2 a3 a4 a5 s0 s1 s2 s3 s4 s5 h0 h1 h2 h3 h4 h5 : K) :
    (Gen.N3_sp2_all (Dual.const c) (Dual.const c3) (dualFns K) ⟨a0, h0⟩ ⟨a1, h1⟩ ⟨a2, h2⟩ ⟨a3, h3⟩ ⟨a4, h4⟩ ⟨a5, h5⟩ (Dual.const s0) (Dual.const s1) (Dual.const s2) (Dual.const s3) (Dual.const s4) (Dual.const s5)).map Dual.eps
      = mv 6 (Gen.N3_stpd_all c c3 fn s0 s1 s2 s3 s4 s5) [h0, h1, h2, h3, h4, h5] := by
  dual_eq hc

end TfelVerif.C06.PropsX3c
