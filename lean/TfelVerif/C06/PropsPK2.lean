/-
  C06 — Closed-form derivative helpers are true derivatives.  Part 5: second Piola-Kirchhoff stress derivative to first Piola-Kirchhoff stress derivative.

  Property theorems only. `Gen.*` are the definitions regenerated on every run by instantiating the
  real TFEL templates with a recording scalar (harness/C06/trace.cxx), emitted over
  `[CommRing K] [Div K]` so that the generated code itself can be evaluated on the dual numbers
  `Dual K = K[ε]/(ε²)` (Lemmas.lean: a commutative ring, every axiom proved; `/` is the quotient rule).

  Shape of every theorem. For a helper `D` documented as the derivative of `f`:
      (f_code (x₀ + ε h₀) (x₁ + ε h₁) …).map eps = D_code(x) · h          for all x and all h,
  i.e. the ε part of the code of `f` run at `x + ε h` (formal directional derivative of the rational
  function computed by the code, along an arbitrary direction `h`) is the matrix returned by `D`
  applied to `h`. `⟨x, h⟩ : Dual K` is `x + ε h`; `mv m M h` is the flat row-major `m × |h|` matrix `M`
  times `h`. Symmetric tensors are differentiated with respect to their stored (Mandel) components,
  non symmetric ones with respect to their stored components, as the library does
  (`D(i,j) = ∂fᵢ/∂xⱼ`). PropsReal.lean turns each statement into `HasDerivAt` over ℝ.

  Standing hypotheses: `c * c = 2` (`c` is √2, `Cste<T>::sqrt2`), characteristic 0.
  Non-vacuity: ℝ with `c = √2` (Common/Model.lean, PropsReal.lean instantiates every theorem there).
-/
import TfelVerif.Common.Mandel
import TfelVerif.C06.Lemmas
import TfelVerif.C06.GenN1
import TfelVerif.C06.GenN2
import TfelVerif.C06.GenN3b
import TfelVerif.C06.GenN3g

namespace TfelVerif.C06.PropsPK2
open TfelVerif TfelVerif.Mandel TfelVerif.C06
set_option linter.unusedVariables false
set_option linter.unusedSectionVars false
set_option maxRecDepth 100000

variable {K : Type} [Field K] [CharZero K] (c c3 : K) (fn : Fns K)

/-- `convertSecondPiolaKirchhoffStressDerivativeToFirstPiolaKirchoffStressDerivative(dS, F, s)` is the derivative with respect to `F` of
`P(F) = F * unsyme(S(E(F)))`, `E = computeGreenLagrangeTensor(F)`, for any `S(E)` whose derivative at the point is `dS` and whose value is
`convertCauchyStressToSecondPiolaKirchhoffStress(s, F)`: `eᵢ` is the ε part of `E(F + ε h)`, `Sᵢ = S₀ᵢ + ε (dS · e)ᵢ`, `u = unsyme(S)` -/
theorem N1_dpk1_pk2 (hc : c * c = 2) (dS00 dS01 dS02 dS10 dS11 dS12 dS20 dS21 dS22 F0 F1 F2 s0 s1 s2 h0 h1 h2 : K) :
    let e0 : K := (Gen.N1_t_GL_r0 (Dual.const c) (Dual.const c3) (dualFns K) ⟨F0, h0⟩ ⟨F1, h1⟩ ⟨F2, h2⟩).eps
    let e1 : K := (Gen.N1_t_GL_r1 (Dual.const c) (Dual.const c3) (dualFns K) ⟨F0, h0⟩ ⟨F1, h1⟩ ⟨F2, h2⟩).eps
    let e2 : K := (Gen.N1_t_GL_r2 (Dual.const c) (Dual.const c3) (dualFns K) ⟨F0, h0⟩ ⟨F1, h1⟩ ⟨F2, h2⟩).eps
    let S0 : Dual K := ⟨Gen.N1_pk2_r0 c c3 fn s0 s1 s2 F0 F1 F2, dot [dS00, dS01, dS02] [e0, e1, e2]⟩
    let S1 : Dual K := ⟨Gen.N1_pk2_r1 c c3 fn s0 s1 s2 F0 F1 F2, dot [dS10, dS11, dS12] [e0, e1, e2]⟩
    let S2 : Dual K := ⟨Gen.N1_pk2_r2 c c3 fn s0 s1 s2 F0 F1 F2, dot [dS20, dS21, dS22] [e0, e1, e2]⟩
    let u0 : Dual K := Gen.N1_unsyme_r0 (Dual.const c) (Dual.const c3) (dualFns K) S0 S1 S2
    let u1 : Dual K := Gen.N1_unsyme_r1 (Dual.const c) (Dual.const c3) (dualFns K) S0 S1 S2
    let u2 : Dual K := Gen.N1_unsyme_r2 (Dual.const c) (Dual.const c3) (dualFns K) S0 S1 S2
    (Gen.N1_t_prod_all (Dual.const c) (Dual.const c3) (dualFns K) ⟨F0, h0⟩ ⟨F1, h1⟩ ⟨F2, h2⟩ u0 u1 u2).map Dual.eps
      = mv 3 (Gen.N1_dpk1_pk2_all c c3 fn dS00 dS01 dS02 dS10 dS11 dS12 dS20 dS21 dS22 F0 F1 F2 s0 s1 s2) [h0, h1, h2] := by
  dsimp only
  generalize hT0 : Gen.N1_pk2_r0 c c3 fn s0 s1 s2 F0 F1 F2 = T0
  generalize hT1 : Gen.N1_pk2_r1 c c3 fn s0 s1 s2 F0 F1 F2 = T1
  generalize hT2 : Gen.N1_pk2_r2 c c3 fn s0 s1 s2 F0 F1 F2 = T2
  simp only [gen_simp] at hT0 hT1 hT2
  dual_simp
  simp only [hT0, hT1, hT2]
  repeat' apply And.intro
  all_goals (first | rfl | mandel_ring hc)

/-- `convertSecondPiolaKirchhoffStressDerivativeToFirstPiolaKirchoffStressDerivative(dS, F, s)` is the derivative with respect to `F` of
`P(F) = F * unsyme(S(E(F)))`, `E = computeGreenLagrangeTensor(F)`, for any `S(E)` whose derivative at the point is `dS` and whose value is
`convertCauchyStressToSecondPiolaKirchhoffStress(s, F)`: `eᵢ` is the ε part of `E(F + ε h)`, `Sᵢ = S₀ᵢ + ε (dS · e)ᵢ`, `u = unsyme(S)` -/
theorem N2_dpk1_pk2 (hc : c * c = 2) (dS00 dS01 dS02 dS03 dS10 dS11 dS12 dS13 dS20 dS21 dS22 dS23 dS30 dS31 dS32 dS33 F0 F1 F2 F3 F4 s0 s1 s2 s3 h0 h1 h2 h3 h4 : K) :
    let e0 : K := (Gen.N2_t_GL_r0 (Dual.const c) (Dual.const c3) (dualFns K) ⟨F0, h0⟩ ⟨F1, h1⟩ ⟨F2, h2⟩ ⟨F3, h3⟩ ⟨F4, h4⟩).eps
    let e1 : K := (Gen.N2_t_GL_r1 (Dual.const c) (Dual.const c3) (dualFns K) ⟨F0, h0⟩ ⟨F1, h1⟩ ⟨F2, h2⟩ ⟨F3, h3⟩ ⟨F4, h4⟩).eps
    let e2 : K := (Gen.N2_t_GL_r2 (Dual.const c) (Dual.const c3) (dualFns K) ⟨F0, h0⟩ ⟨F1, h1⟩ ⟨F2, h2⟩ ⟨F3, h3⟩ ⟨F4, h4⟩).eps
    let e3 : K := (Gen.N2_t_GL_r3 (Dual.const c) (Dual.const c3) (dualFns K) ⟨F0, h0⟩ ⟨F1, h1⟩ ⟨F2, h2⟩ ⟨F3, h3⟩ ⟨F4, h4⟩).eps
    let S0 : Dual K := ⟨Gen.N2_pk2_r0 c c3 fn s0 s1 s2 s3 F0 F1 F2 F3 F4, dot [dS00, dS01, dS02, dS03] [e0, e1, e2, e3]⟩
    let S1 : Dual K := ⟨Gen.N2_pk2_r1 c c3 fn s0 s1 s2 s3 F0 F1 F2 F3 F4, dot [dS10, dS11, dS12, dS13] [e0, e1, e2, e3]⟩
    let S2 : Dual K := ⟨Gen.N2_pk2_r2 c c3 fn s0 s1 s2 s3 F0 F1 F2 F3 F4, dot [dS20, dS21, dS22, dS23] [e0, e1, e2, e3]⟩
    let S3 : Dual K := ⟨Gen.N2_pk2_r3 c c3 fn s0 s1 s2 s3 F0 F1 F2 F3 F4, dot [dS30, dS31, dS32, dS33] [e0, e1, e2, e3]⟩
    let u0 : Dual K := Gen.N2_unsyme_r0 (Dual.const c) (Dual.const c3) (dualFns K) S0 S1 S2 S3
    let u1 : Dual K := Gen.N2_unsyme_r1 (Dual.const c) (Dual.const c3) (dualFns K) S0 S1 S2 S3
    let u2 : Dual K := Gen.N2_unsyme_r2 (Dual.const c) (Dual.const c3) (dualFns K) S0 S1 S2 S3
    let u3 : Dual K := Gen.N2_unsyme_r3 (Dual.const c) (Dual.const c3) (dualFns K) S0 S1 S2 S3
    let u4 : Dual K := Gen.N2_unsyme_r4 (Dual.const c) (Dual.const c3) (dualFns K) S0 S1 S2 S3
    (Gen.N2_t_prod_all (Dual.const c) (Dual.const c3) (dualFns K) ⟨F0, h0⟩ ⟨F1, h1⟩ ⟨F2, h2⟩ ⟨F3, h3⟩ ⟨F4, h4⟩ u0 u1 u2 u3 u4).map Dual.eps
      = mv 5 (Gen.N2_dpk1_pk2_all c c3 fn dS00 dS01 dS02 dS03 dS10 dS11 dS12 dS13 dS20 dS21 dS22 dS23 dS30 dS31 dS32 dS33 F0 F1 F2 F3 F4 s0 s1 s2 s3) [h0, h1, h2, h3, h4] := by
  dsimp only
  generalize hT0 : Gen.N2_pk2_r0 c c3 fn s0 s1 s2 s3 F0 F1 F2 F3 F4 = T0
  generalize hT1 : Gen.N2_pk2_r1 c c3 fn s0 s1 s2 s3 F0 F1 F2 F3 F4 = T1
  generalize hT2 : Gen.N2_pk2_r2 c c3 fn s0 s1 s2 s3 F0 F1 F2 F3 F4 = T2
  generalize hT3 : Gen.N2_pk2_r3 c c3 fn s0 s1 s2 s3 F0 F1 F2 F3 F4 = T3
  simp only [gen_simp] at hT0 hT1 hT2 hT3
  dual_simp
  simp only [hT0, hT1, hT2, hT3]
  repeat' apply And.intro
  all_goals (first | rfl | mandel_ring hc)

/-- `convertSecondPiolaKirchhoffStressDerivativeToFirstPiolaKirchoffStressDerivative(dS, F, s)` is the derivative with respect to `F` of
`P(F) = F * unsyme(S(E(F)))`, `E = computeGreenLagrangeTensor(F)`, for any `S(E)` whose derivative at the point is `dS` and whose value is
`convertCauchyStressToSecondPiolaKirchhoffStress(s, F)`: `eᵢ` is the ε part of `E(F + ε h)`, `Sᵢ = S₀ᵢ + ε (dS · e)ᵢ`, `u = unsyme(S)` -/
theorem N3_dpk1_pk2 (hc : c * c = 2) (dS00 dS01 dS02 dS03 dS04 dS05 dS10 dS11 dS12 dS13 dS14 dS15 dS20 dS21 dS22 dS23 dS24 dS25 dS30 dS31 dS32 dS33 dS34 dS35 dS40 dS41 dS42 dS43 dS44 dS45 dS50 dS51 dS52 dS53 dS54 dS55 F0 F1 F2 F3 F4 F5 F6 F7 F8 s0 s1 s2 s3 s4 s5 h0 h1 h2 h3 h4 h5 h6 h7 h8 : K) :
    let e0 : K := (Gen.N3_t_GL_r0 (Dual.const c) (Dual.const c3) (dualFns K) ⟨F0, h0⟩ ⟨F1, h1⟩ ⟨F2, h2⟩ ⟨F3, h3⟩ ⟨F4, h4⟩ ⟨F5, h5⟩ ⟨F6, h6⟩ ⟨F7, h7⟩ ⟨F8, h8⟩).eps
    let e1 : K := (Gen.N3_t_GL_r1 (Dual.const c) (Dual.const c3) (dualFns K) ⟨F0, h0⟩ ⟨F1, h1⟩ ⟨F2, h2⟩ ⟨F3, h3⟩ ⟨F4, h4⟩ ⟨F5, h5⟩ ⟨F6, h6⟩ ⟨F7, h7⟩ ⟨F8, h8⟩).eps
    let e2 : K := (Gen.N3_t_GL_r2 (Dual.const c) (Dual.const c3) (dualFns K) ⟨F0, h0⟩ ⟨F1, h1⟩ ⟨F2, h2⟩ ⟨F3, h3⟩ ⟨F4, h4⟩ ⟨F5, h5⟩ ⟨F6, h6⟩ ⟨F7, h7⟩ ⟨F8, h8⟩).eps
    let e3 : K := (Gen.N3_t_GL_r3 (Dual.const c) (Dual.const c3) (dualFns K) ⟨F0, h0⟩ ⟨F1, h1⟩ ⟨F2, h2⟩ ⟨F3, h3⟩ ⟨F4, h4⟩ ⟨F5, h5⟩ ⟨F6, h6⟩ ⟨F7, h7⟩ ⟨F8, h8⟩).eps
    let e4 : K := (Gen.N3_t_GL_r4 (Dual.const c) (Dual.const c3) (dualFns K) ⟨F0, h0⟩ ⟨F1, h1⟩ ⟨F2, h2⟩ ⟨F3, h3⟩ ⟨F4, h4⟩ ⟨F5, h5⟩ ⟨F6, h6⟩ ⟨F7, h7⟩ ⟨F8, h8⟩).eps
    let e5 : K := (Gen.N3_t_GL_r5 (Dual.const c) (Dual.const c3) (dualFns K) ⟨F0, h0⟩ ⟨F1, h1⟩ ⟨F2, h2⟩ ⟨F3, h3⟩ ⟨F4, h4⟩ ⟨F5, h5⟩ ⟨F6, h6⟩ ⟨F7, h7⟩ ⟨F8, h8⟩).eps
    let S0 : Dual K := ⟨Gen.N3_pk2_r0 c c3 fn s0 s1 s2 s3 s4 s5 F0 F1 F2 F3 F4 F5 F6 F7 F8, dot [dS00, dS01, dS02, dS03, dS04, dS05] [e0, e1, e2, e3, e4, e5]⟩
    let S1 : Dual K := ⟨Gen.N3_pk2_r1 c c3 fn s0 s1 s2 s3 s4 s5 F0 F1 F2 F3 F4 F5 F6 F7 F8, dot [dS10, dS11, dS12, dS13, dS14, dS15] [e0, e1, e2, e3, e4, e5]⟩
    let S2 : Dual K := ⟨Gen.N3_pk2_r2 c c3 fn s0 s1 s2 s3 s4 s5 F0 F1 F2 F3 F4 F5 F6 F7 F8, dot [dS20, dS21, dS22, dS23, dS24, dS25] [e0, e1, e2, e3, e4, e5]⟩
    let S3 : Dual K := ⟨Gen.N3_pk2_r3 c c3 fn s0 s1 s2 s3 s4 s5 F0 F1 F2 F3 F4 F5 F6 F7 F8, dot [dS30, dS31, dS32, dS33, dS34, dS35] [e0, e1, e2, e3, e4, e5]⟩
    let S4 : Dual K := ⟨Gen.N3_pk2_r4 c c3 fn s0 s1 s2 s3 s4 s5 F0 F1 F2 F3 F4 F5 F6 F7 F8, dot [dS40, dS41, dS42, dS43, dS44, dS45] [e0, e1, e2, e3, e4, e5]⟩
    let S5 : Dual K := ⟨Gen.N3_pk2_r5 c c3 fn s0 s1 s2 s3 s4 s5 F0 F1 F2 F3 F4 F5 F6 F7 F8, dot [dS50, dS51, dS52, dS53, dS54, dS55] [e0, e1, e2, e3, e4, e5]⟩
    let u0 : Dual K := Gen.N3_unsyme_r0 (Dual.const c) (Dual.const c3) (dualFns K) S0 S1 S2 S3 S4 S5
    let u1 : Dual K := Gen.N3_unsyme_r1 (Dual.const c) (Dual.const c3) (dualFns K) S0 S1 S2 S3 S4 S5
    let u2 : Dual K := Gen.N3_unsyme_r2 (Dual.const c) (Dual.const c3) (dualFns K) S0 S1 S2 S3 S4 S5
    let u3 : Dual K := Gen.N3_unsyme_r3 (Dual.const c) (Dual.const c3) (dualFns K) S0 S1 S2 S3 S4 S5
    let u4 : Dual K := Gen.N3_unsyme_r4 (Dual.const c) (Dual.const c3) (dualFns K) S0 S1 S2 S3 S4 S5
    let u5 : Dual K := Gen.N3_unsyme_r5 (Dual.const c) (Dual.const c3) (dualFns K) S0 S1 S2 S3 S4 S5
    let u6 : Dual K := Gen.N3_unsyme_r6 (Dual.const c) (Dual.const c3) (dualFns K) S0 S1 S2 S3 S4 S5
    let u7 : Dual K := Gen.N3_unsyme_r7 (Dual.const c) (Dual.const c3) (dualFns K) S0 S1 S2 S3 S4 S5
    let u8 : Dual K := Gen.N3_unsyme_r8 (Dual.const c) (Dual.const c3) (dualFns K) S0 S1 S2 S3 S4 S5
    (Gen.N3_t_prod_all (Dual.const c) (Dual.const c3) (dualFns K) ⟨F0, h0⟩ ⟨F1, h1⟩ ⟨F2, h2⟩ ⟨F3, h3⟩ ⟨F4, h4⟩ ⟨F5, h5⟩ ⟨F6, h6⟩ ⟨F7, h7⟩ ⟨F8, h8⟩ u0 u1 u2 u3 u4 u5 u6 u7 u8).map Dual.eps
      = mv 9 (Gen.N3_dpk1_pk2_all c c3 fn dS00 dS01 dS02 dS03 dS04 dS05 dS10 dS11 dS12 dS13 dS14 dS15 dS20 dS21 dS22 dS23 dS24 dS25 dS30 dS31 dS32 dS33 dS34 dS35 dS40 dS41 dS42 dS43 dS44 dS45 dS50 dS51 dS52 dS53 dS54 dS55 F0 F1 F2 F3 F4 F5 F6 F7 F8 s0 s1 s2 s3 s4 s5) [h0, h1, h2, h3, h4, h5, h6, h7, h8] := by
  dsimp only
  generalize hT0 : Gen.N3_pk2_r0 c c3 fn s0 s1 s2 s3 s4 s5 F0 F1 F2 F3 F4 F5 F6 F7 F8 = T0
  generalize hT1 : Gen.N3_pk2_r1 c c3 fn s0 s1 s2 s3 s4 s5 F0 F1 F2 F3 F4 F5 F6 F7 F8 = T1
  generalize hT2 : Gen.N3_pk2_r2 c c3 fn s0 s1 s2 s3 s4 s5 F0 F1 F2 F3 F4 F5 F6 F7 F8 = T2
  generalize hT3 : Gen.N3_pk2_r3 c c3 fn s0 s1 s2 s3 s4 s5 F0 F1 F2 F3 F4 F5 F6 F7 F8 = T3
  generalize hT4 : Gen.N3_pk2_r4 c c3 fn s0 s1 s2 s3 s4 s5 F0 F1 F2 F3 F4 F5 F6 F7 F8 = T4
  generalize hT5 : Gen.N3_pk2_r5 c c3 fn s0 s1 s2 s3 s4 s5 F0 F1 F2 F3 F4 F5 F6 F7 F8 = T5
  simp only [gen_simp] at hT0 hT1 hT2 hT3 hT4 hT5
  dual_simp
  simp only [hT0, hT1, hT2, hT3, hT4, hT5]
  repeat' apply And.intro
  all_goals (first | rfl | mandel_ring hc)

end TfelVerif.C06.PropsPK2
