/-
  C06 — Closed-form derivative helpers are true derivatives.  Part 6 (3D): Kirchhoff/Cauchy stress derivative conversions (T2toST2/t2tost2.ixx).

  Property theorems only. `Gen.*` are the definitions regenerated on every run by instantiating the
  real TFEL templates with a recording scalar (harness/C06/trace.cxx), emitted over
  `[CommRing K] [Div K]` so that the generated code itself can be evaluated on the dual numbers
  `Dual K = K[ε]/(ε²)` (Lemmas.lean: a commutative ring, every axiom proved; `/` is the quotient rule).

  Shape of every theorem. For a helper `D` documented as the derivative of `f`:
      (f_code (x₀ + ε h₀) (x₁ + ε h₁) …).map eps = D_code(x) · h          for all x and all h,
  i.e. the ε part of the code of `f` run at `x + ε h` (formal directional derivative of the rational
  function computed by the code, along an arbitrary direction `h`) is the matrix returned by `D`
  applied to `h`. `⟨x, h⟩ : Dual K` is `x + ε h`; `mv m M h` is the flat row-major `m × |h|` matrix `M`
  times `h`. Symmetric tensors are differentiated with respect to their stored (Mandel) components,
  non symmetric ones with respect to their stored components, as the library does
  (`D(i,j) = ∂fᵢ/∂xⱼ`). PropsReal.lean turns each statement into `HasDerivAt` over ℝ.

  Standing hypotheses: `c * c = 2` (`c` is √2, `Cste<T>::sqrt2`), characteristic 0.
  Non-vacuity: ℝ with `c = √2` (Common/Model.lean, PropsReal.lean instantiates every theorem there).
-/
import TfelVerif.Common.Mandel
import TfelVerif.C06.Lemmas
import TfelVerif.C06.GenX3a

namespace TfelVerif.C06.PropsX3a
open TfelVerif TfelVerif.Mandel TfelVerif.C06
set_option linter.unusedVariables false
set_option linter.unusedSectionVars false
set_option maxRecDepth 100000

variable {K : Type} [Field K] [CharZero K] (c c3 : K) (fn : Fns K)

/-- `computeKirchhoffStressDerivativeFromCauchyStressDerivative(ds, s, F)` is the derivative with respect to `F` of the Kirchhoff stress `det(F) * s(F)` when `ds` is the derivative of the Cauchy stress `s` -/
theorem N3_dkirch (hc : c * c = 2) (ds00 ds01 ds02 ds03 ds04 ds05 ds06 ds07 ds08 ds10 ds11 ds12 ds13 ds14 ds15 ds16 ds17 ds18 ds20 ds21 ds22 ds23 ds24 ds25 ds26 ds27 ds28 ds30 ds31 ds32 ds33 ds34 ds35 ds36 ds37 ds38 ds40 ds41 ds42 ds43 ds44 ds45 ds46 ds47 ds48 ds50 ds51 ds52 ds53 ds54 ds55 ds56 ds57 ds58 s0 s1 s2 s3 s4 s5 F0 F1 F2 F3 F4 F5 F6 F7 F8 h0 h1 h2 h3 h4 h5 h6 h7 h8 : K) :
    (Gen.N3_kirch_all (Dual.const c) (Dual.const c3) (dualFns K) ⟨s0, dot [ds00, ds01, ds02, ds03, ds04, ds05, ds06, ds07, ds08] [h0, h1, h2, h3, h4, h5, h6, h7, h8]⟩ ⟨s1, dot [ds10, ds11, ds12, ds13, ds14, ds15, ds16, ds17, ds18] [h0, h1, h2, h3, h4, h5, h6, h7, h8]⟩ ⟨s2, dot [ds20, ds21, ds22, ds23, ds24, ds25, ds26, ds27, ds28] [h0, h1, h2, h3, h4, h5, h6, h7, h8]⟩ ⟨s3, dot [ds30, ds31, ds32, ds33, ds34, ds35, ds36, ds37, ds38] [h0, h1, h2, h3, h4, h5, h6, h7, h8]⟩ ⟨s4, dot [ds40, ds41, ds42, ds43, ds44, ds45, ds46, ds47, ds48] [h0, h1, h2, h3, h4, h5, h6, h7, h8]⟩ ⟨s5, dot [ds50, ds51, ds52, ds53, ds54, ds55, ds56, ds57, ds58] [h0, h1, h2, h3, h4, h5, h6, h7, h8]⟩ ⟨F0, h0⟩ ⟨F1, h1⟩ ⟨F2, h2⟩ ⟨F3, h3⟩ ⟨F4, h4⟩ ⟨F5, h5⟩ ⟨F6, h6⟩ ⟨F7, h7⟩ ⟨F8, h8⟩).map Dual.eps
      = mv 6 (Gen.N3_dkirch_all c c3 fn ds00 ds01 ds02 ds03 ds04 ds05 ds06 ds07 ds08 ds10 ds11 ds12 ds13 ds14 ds15 ds16 ds17 ds18 ds20 ds21 ds22 ds23 ds24 ds25 ds26 ds27 ds28 ds30 ds31 ds32 ds33 ds34 ds35 ds36 ds37 ds38 ds40 ds41 ds42 ds43 ds44 ds45 ds46 ds47 ds48 ds50 ds51 ds52 ds53 ds54 ds55 ds56 ds57 ds58 s0 s1 s2 s3 s4 s5 F0 F1 F2 F3 F4 F5 F6 F7 F8) [h0, h1, h2, h3, h4, h5, h6, h7, h8] := by
  dual_eq hc

/-- `computeCauchyStressDerivativeFromKirchhoffStressDerivative(dt, s, F)` is the derivative with respect to `F` of the Cauchy stress `tau(F) / det(F)` when `dt` is the derivative of the Kirchhoff stress `tau` and `tau = det(F) * s` at the point considered (`hJ`: the traced divisor `det(F)` of the helper is not zero) -/
theorem N3_dcauchy (hc : c * c = 2) (dt00 dt01 dt02 dt03 dt04 dt05 dt06 dt07 dt08 dt10 dt11 dt12 dt13 dt14 dt15 dt16 dt17 dt18 dt20 dt21 dt22 dt23 dt24 dt25 dt26 dt27 dt28 dt30 dt31 dt32 dt33 dt34 dt35 dt36 dt37 dt38 dt40 dt41 dt42 dt43 dt44 dt45 dt46 dt47 dt48 dt50 dt51 dt52 dt53 dt54 dt55 dt56 dt57 dt58 s0 s1 s2 s3 s4 s5 F0 F1 F2 F3 F4 F5 F6 F7 F8 h0 h1 h2 h3 h4 h5 h6 h7 h8 : K) (hJ : Gen.N3_dcauchy_den0 c c3 fn dt00 dt01 dt02 dt03 dt04 dt05 dt06 dt07 dt08 dt10 dt11 dt12 dt13 dt14 dt15 dt16 dt17 dt18 dt20 dt21 dt22 dt23 dt24 dt25 dt26 dt27 dt28 dt30 dt31 dt32 dt33 dt34 dt35 dt36 dt37 dt38 dt40 dt41 dt42 dt43 dt44 dt45 dt46 dt47 dt48 dt50 dt51 dt52 dt53 dt54 dt55 dt56 dt57 dt58 s0 s1 s2 s3 s4 s5 F0 F1 F2 F3 F4 F5 F6 F7 F8 ≠ 0) :
    (Gen.N3_cauchy_all (Dual.const c) (Dual.const c3) (dualFns K) ⟨(Gen.N3_kirch_r0 c c3 fn s0 s1 s2 s3 s4 s5 F0 F1 F2 F3 F4 F5 F6 F7 F8), dot [dt00, dt01, dt02, dt03, dt04, dt05, dt06, dt07, dt08] [h0, h1, h2, h3, h4, h5, h6, h7, h8]⟩ ⟨(Gen.N3_kirch_r1 c c3 fn s0 s1 s2 s3 s4 s5 F0 F1 F2 F3 F4 F5 F6 F7 F8), dot [dt10, dt11, dt12, dt13, dt14, dt15, dt16, dt17, dt18] [h0, h1, h2, h3, h4, h5, h6, h7, h8]⟩ ⟨(Gen.N3_kirch_r2 c c3 fn s0 s1 s2 s3 s4 s5 F0 F1 F2 F3 F4 F5 F6 F7 F8), dot [dt20, dt21, dt22, dt23, dt24, dt25, dt26, dt27, dt28] [h0, h1, h2, h3, h4, h5, h6, h7, h8]⟩ ⟨(Gen.N3_kirch_r3 c c3 fn s0 s1 s2 s3 s4 s5 F0 F1 F2 F3 F4 F5 F6 F7 F8), dot [dt30, dt31, dt32, dt33, dt34, dt35, dt36, dt37, dt38] [h0, h1, h2, h3, h4, h5, h6, h7, h8]⟩ ⟨(Gen.N3_kirch_r4 c c3 fn s0 s1 s2 s3 s4 s5 F0 F1 F2 F3 F4 F5 F6 F7 F8), dot [dt40, dt41, dt42, dt43, dt44, dt45, dt46, dt47, dt48] [h0, h1, h2, h3, h4, h5, h6, h7, h8]⟩ ⟨(Gen.N3_kirch_r5 c c3 fn s0 s1 s2 s3 s4 s5 F0 F1 F2 F3 F4 F5 F6 F7 F8), dot [dt50, dt51, dt52, dt53, dt54, dt55, dt56, dt57, dt58] [h0, h1, h2, h3, h4, h5, h6, h7, h8]⟩ ⟨F0, h0⟩ ⟨F1, h1⟩ ⟨F2, h2⟩ ⟨F3, h3⟩ ⟨F4, h4⟩ ⟨F5, h5⟩ ⟨F6, h6⟩ ⟨F7, h7⟩ ⟨F8, h8⟩).map Dual.eps
      = mv 6 (Gen.N3_dcauchy_all c c3 fn dt00 dt01 dt02 dt03 dt04 dt05 dt06 dt07 dt08 dt10 dt11 dt12 dt13 dt14 dt15 dt16 dt17 dt18 dt20 dt21 dt22 dt23 dt24 dt25 dt26 dt27 dt28 dt30 dt31 dt32 dt33 dt34 dt35 dt36 dt37 dt38 dt40 dt41 dt42 dt43 dt44 dt45 dt46 dt47 dt48 dt50 dt51 dt52 dt53 dt54 dt55 dt56 dt57 dt58 s0 s1 s2 s3 s4 s5 F0 F1 F2 F3 F4 F5 F6 F7 F8) [h0, h1, h2, h3, h4, h5, h6, h7, h8] := by
  dual_eq_den hc with hJ

end TfelVerif.C06.PropsX3a
