/-
  C06 — Closed-form derivative helpers are true derivatives.
  Part 6 (3D, eigen tensor 2; the conventions are those of PropsEig.lean): `stensor::computeEigenTensorsDerivatives` (derivatives of the eigen tensors `nᵢ = vᵢ ⊗ vᵢ`).

  Property theorems only. The eigen tensors are not rational functions of the tensor, so the statement
  is the first order perturbation characterisation of an eigenprojector. Let `V` be orthogonal
  (`Vᵀ V = V Vᵀ = 1`, columns `vᵢ`: the `rotation_matrix m` given to the helper), `λ₀ λ₁ λ₂` the
  eigenvalues, `S = V diag(λ) Vᵀ` the tensor, `H` any symmetric direction, `Nᵢ` the eigen tensor
  returned by `computeEigenTensors(m)`, `Dᵢ = dnᵢ_ds · H` the helper's result applied to `H` and
  `dλᵢ = Nᵢ : H` (the helper documented as the eigenvalue derivative is the eigen tensor). Then
      H Nᵢ + S Dᵢ = dλᵢ Nᵢ + λᵢ Dᵢ          (ε part of  (S + εH)(Nᵢ + εDᵢ) = (λᵢ + ε dλᵢ)(Nᵢ + εDᵢ))
      Dᵢ Nᵢ + Nᵢ Dᵢ = Dᵢ                     (ε part of  (Nᵢ + εDᵢ)² = Nᵢ + εDᵢ)
  i.e. `Nᵢ + ε Dᵢ` is, to first order, the eigenprojector of `S + ε H` for the eigenvalue
  `λᵢ + ε dλᵢ`. When the eigenvalues are pairwise distinct these two linear equations have a unique
  symmetric solution `(dλᵢ, Dᵢ)` (multiply the first by `Nᵢ` to get `dλᵢ`, invert `S − λᵢ` on the
  range of `1 − Nᵢ`, and the second gives `Nᵢ Dᵢ Nᵢ = 0`), which is the derivative of the
  eigenprojector; this uniqueness argument and the differentiability of the eigenprojector (analytic
  perturbation theory) are NOT formalised: hence the suffix `_partial`.
  Full statement intended: `HasFDerivAt (S ↦ eigenprojectorᵢ S) (dnᵢ_ds) S` for pairwise distinct eigenvalues.

  Regime. The helper regularises `1/(λᵢ − λⱼ)` when `|λᵢ − λⱼ| ≤ eps` (its result is then deliberately
  not the derivative). The code is traced in concolic mode on the branch `|λᵢ − λⱼ| > eps` (path
  condition `Gen.N*_deig_path`); checks/C06.py verifies that the six orderings of the eigenvalues give
  the same expressions. 2D: only `λ₀ ≠ λ₁` is required (in-plane), `V` is block diagonal.
  1D: the eigen tensors are constant and the helper returns zero.
-/
import TfelVerif.Common.M3
import TfelVerif.C06.Lemmas
import TfelVerif.C06.LemmasEig
import TfelVerif.C06.GenEig

namespace TfelVerif.C06.PropsEig32
open TfelVerif TfelVerif.Mandel TfelVerif.C06
set_option linter.unusedVariables false
set_option linter.unusedSectionVars false
set_option maxRecDepth 100000

variable {K : Type} [Field K] [CharZero K] (c c3 : K) (fn : Fns K)

set_option maxHeartbeats 1000000 in
/-- `dn2_ds` of `stensor<3>::computeEigenTensorsDerivatives`: first order eigenprojector equations (see the header) -/
theorem N3_deig_dn2_partial (hc : c * c = 2) (m00 m01 m02 m10 m11 m12 m20 m21 m22 l0 l1 l2 eps h00 h11 h22 h01 h02 h12 : K)
    (hV1 : (M3.mk m00 m01 m02 m10 m11 m12 m20 m21 m22).transpose * (M3.mk m00 m01 m02 m10 m11 m12 m20 m21 m22) = 1) (hV2 : (M3.mk m00 m01 m02 m10 m11 m12 m20 m21 m22) * (M3.mk m00 m01 m02 m10 m11 m12 m20 m21 m22).transpose = 1) (hl02 : l0 ≠ l2) (hl12 : l1 ≠ l2) :
    let V : M3 K := (M3.mk m00 m01 m02 m10 m11 m12 m20 m21 m22)
    let H : M3 K := M3.sym h00 h11 h22 h01 h02 h12
    let S : M3 K := V * M3.diag l0 l1 l2 * V.transpose
    let N : M3 K := M3.ofMandel c [Gen.N3_eigtens_n2_0 c c3 fn m00 m01 m02 m10 m11 m12 m20 m21 m22, Gen.N3_eigtens_n2_1 c c3 fn m00 m01 m02 m10 m11 m12 m20 m21 m22, Gen.N3_eigtens_n2_2 c c3 fn m00 m01 m02 m10 m11 m12 m20 m21 m22, Gen.N3_eigtens_n2_3 c c3 fn m00 m01 m02 m10 m11 m12 m20 m21 m22, Gen.N3_eigtens_n2_4 c c3 fn m00 m01 m02 m10 m11 m12 m20 m21 m22, Gen.N3_eigtens_n2_5 c c3 fn m00 m01 m02 m10 m11 m12 m20 m21 m22]
    let D : M3 K := M3.ofMandel c
     [dot [Gen.N3_deig_dn2_0_0 c c3 fn l0 l1 l2 m00 m01 m02 m10 m11 m12 m20 m21 m22 eps, Gen.N3_deig_dn2_0_1 c c3 fn l0 l1 l2 m00 m01 m02 m10 m11 m12 m20 m21 m22 eps, Gen.N3_deig_dn2_0_2 c c3 fn l0 l1 l2 m00 m01 m02 m10 m11 m12 m20 m21 m22 eps, Gen.N3_deig_dn2_0_3 c c3 fn l0 l1 l2 m00 m01 m02 m10 m11 m12 m20 m21 m22 eps, Gen.N3_deig_dn2_0_4 c c3 fn l0 l1 l2 m00 m01 m02 m10 m11 m12 m20 m21 m22 eps, Gen.N3_deig_dn2_0_5 c c3 fn l0 l1 l2 m00 m01 m02 m10 m11 m12 m20 m21 m22 eps] (M3.mandel3 c H),
      dot [Gen.N3_deig_dn2_1_0 c c3 fn l0 l1 l2 m00 m01 m02 m10 m11 m12 m20 m21 m22 eps, Gen.N3_deig_dn2_1_1 c c3 fn l0 l1 l2 m00 m01 m02 m10 m11 m12 m20 m21 m22 eps, Gen.N3_deig_dn2_1_2 c c3 fn l0 l1 l2 m00 m01 m02 m10 m11 m12 m20 m21 m22 eps, Gen.N3_deig_dn2_1_3 c c3 fn l0 l1 l2 m00 m01 m02 m10 m11 m12 m20 m21 m22 eps, Gen.N3_deig_dn2_1_4 c c3 fn l0 l1 l2 m00 m01 m02 m10 m11 m12 m20 m21 m22 eps, Gen.N3_deig_dn2_1_5 c c3 fn l0 l1 l2 m00 m01 m02 m10 m11 m12 m20 m21 m22 eps] (M3.mandel3 c H),
      dot [Gen.N3_deig_dn2_2_0 c c3 fn l0 l1 l2 m00 m01 m02 m10 m11 m12 m20 m21 m22 eps, Gen.N3_deig_dn2_2_1 c c3 fn l0 l1 l2 m00 m01 m02 m10 m11 m12 m20 m21 m22 eps, Gen.N3_deig_dn2_2_2 c c3 fn l0 l1 l2 m00 m01 m02 m10 m11 m12 m20 m21 m22 eps, Gen.N3_deig_dn2_2_3 c c3 fn l0 l1 l2 m00 m01 m02 m10 m11 m12 m20 m21 m22 eps, Gen.N3_deig_dn2_2_4 c c3 fn l0 l1 l2 m00 m01 m02 m10 m11 m12 m20 m21 m22 eps, Gen.N3_deig_dn2_2_5 c c3 fn l0 l1 l2 m00 m01 m02 m10 m11 m12 m20 m21 m22 eps] (M3.mandel3 c H),
      dot [Gen.N3_deig_dn2_3_0 c c3 fn l0 l1 l2 m00 m01 m02 m10 m11 m12 m20 m21 m22 eps, Gen.N3_deig_dn2_3_1 c c3 fn l0 l1 l2 m00 m01 m02 m10 m11 m12 m20 m21 m22 eps, Gen.N3_deig_dn2_3_2 c c3 fn l0 l1 l2 m00 m01 m02 m10 m11 m12 m20 m21 m22 eps, Gen.N3_deig_dn2_3_3 c c3 fn l0 l1 l2 m00 m01 m02 m10 m11 m12 m20 m21 m22 eps, Gen.N3_deig_dn2_3_4 c c3 fn l0 l1 l2 m00 m01 m02 m10 m11 m12 m20 m21 m22 eps, Gen.N3_deig_dn2_3_5 c c3 fn l0 l1 l2 m00 m01 m02 m10 m11 m12 m20 m21 m22 eps] (M3.mandel3 c H),
      dot [Gen.N3_deig_dn2_4_0 c c3 fn l0 l1 l2 m00 m01 m02 m10 m11 m12 m20 m21 m22 eps, Gen.N3_deig_dn2_4_1 c c3 fn l0 l1 l2 m00 m01 m02 m10 m11 m12 m20 m21 m22 eps, Gen.N3_deig_dn2_4_2 c c3 fn l0 l1 l2 m00 m01 m02 m10 m11 m12 m20 m21 m22 eps, Gen.N3_deig_dn2_4_3 c c3 fn l0 l1 l2 m00 m01 m02 m10 m11 m12 m20 m21 m22 eps, Gen.N3_deig_dn2_4_4 c c3 fn l0 l1 l2 m00 m01 m02 m10 m11 m12 m20 m21 m22 eps, Gen.N3_deig_dn2_4_5 c c3 fn l0 l1 l2 m00 m01 m02 m10 m11 m12 m20 m21 m22 eps] (M3.mandel3 c H),
      dot [Gen.N3_deig_dn2_5_0 c c3 fn l0 l1 l2 m00 m01 m02 m10 m11 m12 m20 m21 m22 eps, Gen.N3_deig_dn2_5_1 c c3 fn l0 l1 l2 m00 m01 m02 m10 m11 m12 m20 m21 m22 eps, Gen.N3_deig_dn2_5_2 c c3 fn l0 l1 l2 m00 m01 m02 m10 m11 m12 m20 m21 m22 eps, Gen.N3_deig_dn2_5_3 c c3 fn l0 l1 l2 m00 m01 m02 m10 m11 m12 m20 m21 m22 eps, Gen.N3_deig_dn2_5_4 c c3 fn l0 l1 l2 m00 m01 m02 m10 m11 m12 m20 m21 m22 eps, Gen.N3_deig_dn2_5_5 c c3 fn l0 l1 l2 m00 m01 m02 m10 m11 m12 m20 m21 m22 eps] (M3.mandel3 c H)]
    H * N + S * D = N.frob H • N + l2 • D ∧ D * N + N * D = D := by
  intro V H S N D
  have hc0 : c ≠ 0 := c_ne_zero hc two_ne_zero
  have d1 := sub_ne_zero.mpr hl02.symm; have d2 := sub_ne_zero.mpr hl12.symm
  have hN : N = V * E2 * V.transpose := by
    simp only [N, V, E2, M3.ofMandel, M3.diag, M3.sym, M3.transpose, M3.mul_def, M3.mul, gen_simp, M3.mk.injEq]
    repeat' apply And.intro
    all_goals (first | trivial | ring1 | (field_simp; first | done | mandel_ring hc))
  have hf : N.frob H = (V.transpose * H * V).a22 := by
    simp only [N, V, H, M3.frob, M3.ofMandel, M3.sym, M3.transpose, M3.mul_def, M3.mul, gen_simp]
    first | ring1 | (field_simp; first | done | mandel_ring hc)
  have hs : (V.transpose * H * V).transpose = V.transpose * H * V := by
    simp only [V, H, M3.sym, M3.transpose, M3.mul_def, M3.mul, M3.mk.injEq]
    repeat' apply And.intro
    all_goals (first | trivial | ring1)
  have hD : D = V * dEig2 (V.transpose * H * V) l0 l1 l2 * V.transpose := by
    simp only [D, V, H, dEig0, dEig1, dEig2, dEig2D0, dEig2D1, zero3, M3.ofMandel, M3.mandel3, M3.mandel2, dot,
      M3.sym, M3.transpose, M3.mul_def, M3.mul, gen_simp, M3.mk.injEq]
    repeat' apply And.intro
    all_goals (first | trivial | ring1 | (field_simp; first | done | mandel_ring hc))
  rw [hf, hN, hD]
  exact eig_transport V H E2 (M3.diag l0 l1 l2) _ _ _ hV1 hV2 (eigbasis2 _ l0 l1 l2 hs hl02 hl12) (projbasis2 _ l0 l1 l2)

end TfelVerif.C06.PropsEig32
