/-
  C22 — property theorems, part B (thorough tier): homogeneity of the Drucker 1949 stress in 3D.
  * degree-one homogeneity of the Drucker 1949 stress (N = 1, 2, 3): the radicand of the traced
    `√3 · pow(·, 1/6)` is homogeneous of degree 6 in the stress (polynomial identity on the traced expression), hence
    `σeq(tσ) = t σeq(σ)` under the law `pow(t⁶ x, 1/6) = t pow(x, 1/6)` (a hypothesis on the uninterpreted `pow`,
    true for the real function when t ≥ 0, x ≥ 0);
  * Hosford with exponent 2 is the von Mises stress (1D = principal stresses), under `sqrt(x)² = x`,
    `sqrt(x) ≠ 0` for the von Mises radicand and `pow(1, 1/2) = 1` (field of characteristic zero).
  `scale S t ρ` multiplies the first `S` inputs (the stress components) by `t`.
-/
import Mathlib.Tactic.Ring
import Mathlib.Tactic.FieldSimp
import Mathlib.Tactic.LinearCombination
import Mathlib.Tactic.NormNum
import Mathlib.Algebra.CharZero.Defs
import TfelVerif.C22.Props

namespace TfelVerif.C22.Props
open TfelVerif TfelVerif.C22
set_option maxRecDepth 100000
set_option linter.unusedVariables false
set_option linter.unusedSimpArgs false
set_option linter.unusedTactic false
set_option linter.unreachableTactic false

variable {K : Type} [Field K] (c c3 : K) (fn : Fns K)

macro "radicand_homogeneous'" d:term : tactic => `(tactic| (
  simp only [$d:term]
  simp only [eval, scale, Nat.reduceLT, Nat.lt_irrefl, ↓reduceIte, Int.cast_ofNat, Int.cast_one, Int.cast_neg,
    Nat.cast_ofNat, Nat.cast_one]
  ring))

theorem Dr_N3_radicand (ρ : Nat → K) (t : K) :
    match Gen.Dr_N3_v.all with
    | [.mul .c3 (.powq a 1 6)] => eval c c3 fn (scale 6 t ρ) a = t ^ 6 * eval c c3 fn ρ a
    | _ => False := by
  radicand_homogeneous' Gen.Dr_N3_v.all


theorem Dr_N3_homogeneous (ρ : Nat → K) (t : K)
    (hpow : ∀ x : K, fn.pow (t ^ 6 * x) ((1 : K) / 6) = t * fn.pow x ((1 : K) / 6)) :
    match Gen.Dr_N3_v.all with
    | [v] => eval c c3 fn (scale 6 t ρ) v = t * eval c c3 fn ρ v
    | _ => False := by
  have h := Dr_N3_radicand c c3 fn ρ t
  simp only [Gen.Dr_N3_v.all] at h ⊢
  exact homog_of_radicand c c3 fn _ _ _ t h hpow

end TfelVerif.C22.Props
