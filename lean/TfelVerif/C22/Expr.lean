/-
  C22 — deep embedding of the scalar expression language recorded by the T1 tracer, its evaluation and its
  FORMAL DERIVATIVE (forward mode: value and derivative propagated together).

  `E` is the DAG node language (sharing is kept by the generator: every node is a named closed constant).
  `eval ρ e`   : value in a field `K`, function symbols through `Fns K` (uninterpreted).
  `evalD ρ δ e`: the pair (value, derivative) where `δ i` is the derivative of input `i` — the usual rules
                 for + − × ÷ and integer powers, and for the function symbols the laws
                     d sqrt u   = du / (2 sqrt u)
                     d cbrt u   = du / (3 cbrt u · cbrt u)
                     d pow(u,q) = q · pow(u,q) / u · du        (q a constant)
                 These laws are the DEFINITION of "formal derivative" here (they are the derivative laws of the
                 real functions wherever the real functions are differentiable, u > 0). `abs`, `pow` with a
                 non-constant exponent and the other symbols are not differentiated (`diffable` is false).
-/
import Mathlib.Algebra.Field.Defs
import TfelVerif.Common.Sym

namespace TfelVerif.C22

inductive E : Type
  | var (i : Nat)
  | rat (n : Int) (d : Nat)
  | c2 | c3 | c6
  | add (a b : E) | sub (a b : E) | mul (a b : E) | div (a b : E)
  | neg (a : E)
  | npow (a : E) (k : Nat)
  | powq (a : E) (n : Int) (d : Nat)
  | pow (a b : E)
  | sqrt (a : E) | cbrt (a : E) | abs (a : E)

variable {K : Type} [Field K]

/-- value; `c` is √2, `c3` is √3 -/
def eval (c c3 : K) (fn : Fns K) (ρ : Nat → K) : E → K
  | .var i => ρ i
  | .rat n d => (n : K) / (d : K)
  | .c2 => c | .c3 => c3 | .c6 => c * c3
  | .add a b => eval c c3 fn ρ a + eval c c3 fn ρ b
  | .sub a b => eval c c3 fn ρ a - eval c c3 fn ρ b
  | .mul a b => eval c c3 fn ρ a * eval c c3 fn ρ b
  | .div a b => eval c c3 fn ρ a / eval c c3 fn ρ b
  | .neg a => -eval c c3 fn ρ a
  | .npow a k => eval c c3 fn ρ a ^ k
  | .powq a n d => fn.pow (eval c c3 fn ρ a) ((n : K) / (d : K))
  | .pow a b => fn.pow (eval c c3 fn ρ a) (eval c c3 fn ρ b)
  | .sqrt a => fn.sqrt (eval c c3 fn ρ a)
  | .cbrt a => fn.cbrt (eval c c3 fn ρ a)
  | .abs a => fn.abs (eval c c3 fn ρ a)

/-- formal derivative along the direction `δ` of the inputs (second component; the first is the value) -/
def evalD (c c3 : K) (fn : Fns K) (ρ δ : Nat → K) : E → K × K
  | .var i => (ρ i, δ i)
  | .rat n d => ((n : K) / (d : K), 0)
  | .c2 => (c, 0) | .c3 => (c3, 0) | .c6 => (c * c3, 0)
  | .add a b => let x := evalD c c3 fn ρ δ a; let y := evalD c c3 fn ρ δ b; (x.1 + y.1, x.2 + y.2)
  | .sub a b => let x := evalD c c3 fn ρ δ a; let y := evalD c c3 fn ρ δ b; (x.1 - y.1, x.2 - y.2)
  | .mul a b => let x := evalD c c3 fn ρ δ a; let y := evalD c c3 fn ρ δ b; (x.1 * y.1, x.2 * y.1 + x.1 * y.2)
  | .div a b => let x := evalD c c3 fn ρ δ a; let y := evalD c c3 fn ρ δ b;
                (x.1 / y.1, (x.2 * y.1 - x.1 * y.2) / (y.1 * y.1))
  | .neg a => let x := evalD c c3 fn ρ δ a; (-x.1, -x.2)
  | .npow a k => let x := evalD c c3 fn ρ δ a; (x.1 ^ k, (k : K) * x.1 ^ (k - 1) * x.2)
  | .powq a n d => let x := evalD c c3 fn ρ δ a; let q : K := (n : K) / (d : K);
                (fn.pow x.1 q, q * fn.pow x.1 q / x.1 * x.2)
  | .pow a b => (fn.pow (evalD c c3 fn ρ δ a).1 (evalD c c3 fn ρ δ b).1, 0)
  | .sqrt a => let x := evalD c c3 fn ρ δ a; (fn.sqrt x.1, x.2 / (2 * fn.sqrt x.1))
  | .cbrt a => let x := evalD c c3 fn ρ δ a; (fn.cbrt x.1, x.2 / (3 * (fn.cbrt x.1 * fn.cbrt x.1)))
  | .abs a => (fn.abs (evalD c c3 fn ρ δ a).1, 0)

/-- expressions on which `evalD` is the formal derivative (no `abs`, no `pow` with a symbolic exponent) -/
def diffable : E → Bool
  | .var _ | .rat _ _ | .c2 | .c3 | .c6 => true
  | .add a b | .sub a b | .mul a b | .div a b => diffable a && diffable b
  | .neg a | .npow a _ | .powq a _ _ | .sqrt a | .cbrt a => diffable a
  | .pow _ _ | .abs _ => false

/-- the first component of `evalD` is `eval` -/
theorem evalD_fst (c c3 : K) (fn : Fns K) (ρ δ : Nat → K) (e : E) :
    (evalD c c3 fn ρ δ e).1 = eval c c3 fn ρ e := by
  induction e <;> simp_all [evalD, eval]

/-- environments: the list of input values, and the unit direction along input `j` -/
def env (l : List K) : Nat → K := fun i => l.getD i 0
def dir (j : Nat) : Nat → K := fun i => if i = j then 1 else 0

end TfelVerif.C22
