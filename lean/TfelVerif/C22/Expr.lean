/-
  C22 — deep embedding of the scalar expression language recorded by the T1 tracer, its evaluation and its
  FORMAL DERIVATIVE (forward mode).

  `E` is the DAG node language (sharing is kept by the generator: every node is a named closed constant).
  `eval ρ e`   : value in a field `K`, function symbols through `Fns K` (uninterpreted).
  `evalD ρ δ e`: the derivative of `e` along `δ` (`δ i` is the derivative of input `i`) — the usual rules
                 for + − × ÷ and integer powers, and for the function symbols the laws
                     d sqrt u   = du / (2 sqrt u)
                     d cbrt u   = du / (3 cbrt u · cbrt u)
                     d pow(u,q) = q · pow(u,q) / u · du        (q a constant)
                 These laws are the DEFINITION of "formal derivative" here (they are the derivative laws of the
                 real functions wherever the real functions are differentiable, u > 0). `abs`, `pow` with a
                 non-constant exponent and the trigonometric symbols (asin, cos, sin, tan: Mohr–Coulomb) are not
                 differentiated (`diffable` is false, `evalD` returns 0 for them).
-/
import Mathlib.Algebra.Field.Defs
import TfelVerif.Common.Sym

namespace TfelVerif.C22

inductive E : Type
  | var (i : Nat)
  | rat (n : Int) (d : Nat)
  | c2 | c3 | c6
  | add (a b : E) | sub (a b : E) | mul (a b : E) | div (a b : E)
  | neg (a : E)
  | npow (a : E) (k : Nat)
  | powq (a : E) (n : Int) (d : Nat)
  | pow (a b : E)
  | sqrt (a : E) | cbrt (a : E) | abs (a : E)
  | asin (a : E) | cos (a : E) | sin (a : E) | tan (a : E)

variable {K : Type} [Field K]

/-- value; `c` is √2, `c3` is √3 -/
def eval (c c3 : K) (fn : Fns K) (ρ : Nat → K) : E → K
  | .var i => ρ i
  | .rat n d => (n : K) / (d : K)
  | .c2 => c | .c3 => c3 | .c6 => c * c3
  | .add a b => eval c c3 fn ρ a + eval c c3 fn ρ b
  | .sub a b => eval c c3 fn ρ a - eval c c3 fn ρ b
  | .mul a b => eval c c3 fn ρ a * eval c c3 fn ρ b
  | .div a b => eval c c3 fn ρ a / eval c c3 fn ρ b
  | .neg a => -eval c c3 fn ρ a
  | .npow a k => eval c c3 fn ρ a ^ k
  | .powq a n d => fn.pow (eval c c3 fn ρ a) ((n : K) / (d : K))
  | .pow a b => fn.pow (eval c c3 fn ρ a) (eval c c3 fn ρ b)
  | .sqrt a => fn.sqrt (eval c c3 fn ρ a)
  | .cbrt a => fn.cbrt (eval c c3 fn ρ a)
  | .abs a => fn.abs (eval c c3 fn ρ a)
  | .asin a => fn.asin (eval c c3 fn ρ a)
  | .cos a => fn.cos (eval c c3 fn ρ a)
  | .sin a => fn.sin (eval c c3 fn ρ a)
  | .tan a => fn.tan (eval c c3 fn ρ a)

/-- formal derivative along the direction `δ` of the inputs -/
def evalD (c c3 : K) (fn : Fns K) (ρ δ : Nat → K) : E → K
  | .var i => δ i
  | .rat _ _ => 0
  | .c2 => 0 | .c3 => 0 | .c6 => 0
  | .add a b => evalD c c3 fn ρ δ a + evalD c c3 fn ρ δ b
  | .sub a b => evalD c c3 fn ρ δ a - evalD c c3 fn ρ δ b
  | .mul a b => evalD c c3 fn ρ δ a * eval c c3 fn ρ b + eval c c3 fn ρ a * evalD c c3 fn ρ δ b
  | .div a b => (evalD c c3 fn ρ δ a * eval c c3 fn ρ b - eval c c3 fn ρ a * evalD c c3 fn ρ δ b)
                  / (eval c c3 fn ρ b * eval c c3 fn ρ b)
  | .neg a => -evalD c c3 fn ρ δ a
  | .npow a k => (k : K) * eval c c3 fn ρ a ^ (k - 1) * evalD c c3 fn ρ δ a
  | .powq a n d => ((n : K) / (d : K)) * fn.pow (eval c c3 fn ρ a) ((n : K) / (d : K)) / eval c c3 fn ρ a
                  * evalD c c3 fn ρ δ a
  | .pow _ _ => 0
  | .sqrt a => evalD c c3 fn ρ δ a / (2 * fn.sqrt (eval c c3 fn ρ a))
  | .cbrt a => evalD c c3 fn ρ δ a / (3 * (fn.cbrt (eval c c3 fn ρ a) * fn.cbrt (eval c c3 fn ρ a)))
  | .abs _ => 0
  | .asin _ => 0 | .cos _ => 0 | .sin _ => 0 | .tan _ => 0

/-- expressions on which `evalD` is the formal derivative (no `abs`, no `pow` with a symbolic exponent) -/
def diffable : E → Bool
  | .var _ | .rat _ _ | .c2 | .c3 | .c6 => true
  | .add a b | .sub a b | .mul a b | .div a b => diffable a && diffable b
  | .neg a | .npow a _ | .powq a _ _ | .sqrt a | .cbrt a => diffable a
  | .pow _ _ | .abs _ | .asin _ | .cos _ | .sin _ | .tan _ => false

/-- every divisor occurring in an expression (side condition of the derivative theorems: the traced code never
divides by zero at the point considered) -/
def divisors : E → List E
  | .var _ | .rat _ _ | .c2 | .c3 | .c6 => []
  | .add a b | .sub a b | .mul a b | .pow a b => divisors a ++ divisors b
  | .div a b => b :: (divisors a ++ divisors b)
  | .neg a | .npow a _ | .abs a | .asin a | .cos a | .sin a | .tan a => divisors a
  | .powq a _ _ => a :: divisors a            -- d pow(u,q) divides by u
  | .sqrt a => .sqrt a :: divisors a          -- d sqrt u divides by sqrt u
  | .cbrt a => .cbrt a :: divisors a          -- d cbrt u divides by cbrt u

/-- all divisors of `e` (and those introduced by differentiating it) are nonzero at `ρ` -/
def regular (c c3 : K) (fn : Fns K) (ρ : Nat → K) (e : E) : Prop :=
  ∀ d ∈ divisors e, eval c c3 fn ρ d ≠ 0

/-- environments: the list of input values, and the unit direction along input `j` -/
def env (l : List K) : Nat → K := fun i => l.getD i 0
def dir (j : Nat) : Nat → K := fun i => if i = j then 1 else 0

end TfelVerif.C22
