/-
  C22 — property theorems, part B: documented invariances of the traced criteria.
  * degree-one homogeneity of the Drucker 1949 stress (N = 1, 2, 3): the radicand of the traced
    `√3 · pow(·, 1/6)` is homogeneous of degree 6 in the stress (polynomial identity on the traced expression), hence
    `σeq(tσ) = t σeq(σ)` under the law `pow(t⁶ x, 1/6) = t pow(x, 1/6)` (a hypothesis on the uninterpreted `pow`,
    true for the real function when t ≥ 0, x ≥ 0);
  * Hosford with exponent 2 is the von Mises stress (1D = principal stresses), under `sqrt(x)² = x`,
    `sqrt(x) ≠ 0` for the von Mises radicand and `pow(1, 1/2) = 1` (field of characteristic zero).
  `scale S t ρ` multiplies the first `S` inputs (the stress components) by `t`.
-/
import Mathlib.Tactic.Ring
import Mathlib.Tactic.FieldSimp
import Mathlib.Tactic.LinearCombination
import Mathlib.Tactic.NormNum
import Mathlib.Algebra.CharZero.Defs
import TfelVerif.C22.Gen

namespace TfelVerif.C22.Props
open TfelVerif TfelVerif.C22
set_option maxRecDepth 100000
set_option linter.unusedVariables false
set_option linter.unusedSimpArgs false
set_option linter.unusedTactic false
set_option linter.unreachableTactic false

variable {K : Type} [Field K] (c c3 : K) (fn : Fns K)

def scale (S : Nat) (t : K) (ρ : Nat → K) : Nat → K := fun i => if i < S then t * ρ i else ρ i

/-- from the homogeneity of the radicand to that of `√3 · pow(radicand, 1/6)` -/
theorem homog_of_radicand (a : E) (ρ ρ' : Nat → K) (t : K) (h : eval c c3 fn ρ' a = t ^ 6 * eval c c3 fn ρ a)
    (hpow : ∀ x : K, fn.pow (t ^ 6 * x) ((1 : K) / 6) = t * fn.pow x ((1 : K) / 6)) :
    eval c c3 fn ρ' (.mul .c3 (.powq a 1 6)) = t * eval c c3 fn ρ (.mul .c3 (.powq a 1 6)) := by
  simp only [eval, h, Int.cast_one, Nat.cast_ofNat, hpow]
  ring

macro "radicand_homogeneous" d:term : tactic => `(tactic| (
  simp only [$d:term]
  simp only [eval, scale, Nat.reduceLT, Nat.lt_irrefl, ↓reduceIte, Int.cast_ofNat, Int.cast_one, Int.cast_neg,
    Nat.cast_ofNat, Nat.cast_one]
  ring))

/-- Drucker 1949, N = 1: the traced value is `√3 · pow(a, 1/6)` with `a(tσ) = t⁶ a(σ)` -/
theorem Dr_N1_radicand (ρ : Nat → K) (t : K) :
    match Gen.Dr_N1_v.all with
    | [.mul .c3 (.powq a 1 6)] => eval c c3 fn (scale 3 t ρ) a = t ^ 6 * eval c c3 fn ρ a
    | _ => False := by
  radicand_homogeneous Gen.Dr_N1_v.all
theorem Dr_N2_radicand (ρ : Nat → K) (t : K) :
    match Gen.Dr_N2_v.all with
    | [.mul .c3 (.powq a 1 6)] => eval c c3 fn (scale 4 t ρ) a = t ^ 6 * eval c c3 fn ρ a
    | _ => False := by
  radicand_homogeneous Gen.Dr_N2_v.all
/-- degree-one homogeneity of the Drucker 1949 equivalent stress -/
theorem Dr_N1_homogeneous (ρ : Nat → K) (t : K)
    (hpow : ∀ x : K, fn.pow (t ^ 6 * x) ((1 : K) / 6) = t * fn.pow x ((1 : K) / 6)) :
    match Gen.Dr_N1_v.all with
    | [v] => eval c c3 fn (scale 3 t ρ) v = t * eval c c3 fn ρ v
    | _ => False := by
  have h := Dr_N1_radicand c c3 fn ρ t
  simp only [Gen.Dr_N1_v.all] at h ⊢
  exact homog_of_radicand c c3 fn _ _ _ t h hpow
theorem Dr_N2_homogeneous (ρ : Nat → K) (t : K)
    (hpow : ∀ x : K, fn.pow (t ^ 6 * x) ((1 : K) / 6) = t * fn.pow x ((1 : K) / 6)) :
    match Gen.Dr_N2_v.all with
    | [v] => eval c c3 fn (scale 4 t ρ) v = t * eval c c3 fn ρ v
    | _ => False := by
  have h := Dr_N2_radicand c c3 fn ρ t
  simp only [Gen.Dr_N2_v.all] at h ⊢
  exact homog_of_radicand c c3 fn _ _ _ t h hpow
/-- Hosford with exponent 2 (1D): the traced value is `S · pow(a, 1/2)` where `S` is the traced von Mises stress
`sqrt(m)` and `a = 1` as soon as `sqrt(m)² = m`, `sqrt(m) ≠ 0` -/
theorem Ho2_N1_structure [CharZero K] (ρ : Nat → K) :
    match Gen.Ho2_N1_v.all, Gen.Mises_N1.all with
    | [.mul s (.powq a 1 2)], [.sqrt m] =>
        eval c c3 fn ρ s = fn.sqrt (eval c c3 fn ρ m) ∧
        (fn.sqrt (eval c c3 fn ρ m) * fn.sqrt (eval c c3 fn ρ m) = eval c c3 fn ρ m →
          fn.sqrt (eval c c3 fn ρ m) ≠ 0 → eval c c3 fn ρ a = 1)
    | _, _ => False := by
  simp only [Gen.Ho2_N1_v.all, Gen.Mises_N1.all]
  refine ⟨by simp only [eval], ?_⟩
  simp only [eval, Int.cast_ofNat, Int.cast_one, Nat.cast_ofNat, Nat.cast_one, div_one]
  generalize fn.sqrt _ = S
  intro h1 h0
  field_simp
  first
    | linear_combination (-2 : K) * h1
    | linear_combination (2 : K) * h1
    | linear_combination (-1 : K) * h1
    | linear_combination (1 : K) * h1
    | linear_combination (-4 : K) * h1
    | linear_combination (4 : K) * h1

/-- Hosford(2) = von Mises -/
theorem Ho2_N1_eq_Mises [CharZero K] (ρ : Nat → K) (hpow1 : fn.pow 1 ((1 : K) / 2) = 1) :
    match Gen.Ho2_N1_v.all, Gen.Mises_N1.all with
    | [h], [.sqrt m] =>
        fn.sqrt (eval c c3 fn ρ m) * fn.sqrt (eval c c3 fn ρ m) = eval c c3 fn ρ m →
        fn.sqrt (eval c c3 fn ρ m) ≠ 0 → eval c c3 fn ρ h = eval c c3 fn ρ (.sqrt m)
    | _, _ => False := by
  have h := Ho2_N1_structure c c3 fn ρ
  simp only [Gen.Ho2_N1_v.all, Gen.Mises_N1.all] at h ⊢
  intro h1 h0
  obtain ⟨hs, ha⟩ := h
  rw [eval, eval, hs, ha h1 h0, eval]
  simp only [Int.cast_one, Nat.cast_ofNat, hpow1, mul_one]

end TfelVerif.C22.Props
