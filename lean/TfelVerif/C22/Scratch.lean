import Mathlib.Tactic.Ring
import Mathlib.Tactic.FieldSimp
import Mathlib.Tactic.NormNum
import TfelVerif.C22.Gen
namespace TfelVerif.C22.Props
open TfelVerif TfelVerif.C22
variable {K : Type} [Field K] (c c3 : K) (fn : Fns K)
set_option maxRecDepth 100000
set_option profiler true
set_option profiler.threshold 2000

theorem Dr_N1_normal (ρ : Nat → K) :
    match Gen.Dr_N1_v.all, Gen.Dr_N1_n.all with
    | [v], [r, n0, n1, n2] =>
        eval c c3 fn ρ r = eval c c3 fn ρ v ∧
        eval c c3 fn ρ n0 = evalD c c3 fn ρ (dir 0) v ∧
        eval c c3 fn ρ n1 = evalD c c3 fn ρ (dir 1) v ∧
        eval c c3 fn ρ n2 = evalD c c3 fn ρ (dir 2) v
    | _, _ => False := by
  simp only [Gen.Dr_N1_v.all, Gen.Dr_N1_n.all]
  refine ⟨?_, ?_, ?_, ?_⟩
  · simp only [eval]
    ring_nf
  all_goals
    simp only [eval, evalD]
    simp only [dir, Nat.reduceEqDiff, ↓reduceIte]
    ring_nf
end TfelVerif.C22.Props
