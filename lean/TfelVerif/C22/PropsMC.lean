/-
  C22 — property theorems, part A' (Mohr–Coulomb with the Abbo–Sloan corner rounding,
  include/TFEL/Material/MohrCoulombYieldCriterion.ixx): on each region of the Lode angle the value, normal and
  second-derivative variants return the SAME criterion value expression, and the normal returned by the
  second-derivative variant is the normal returned by the normal variant — for all stresses and all values of the
  parameter structure (its 14 fields are independent symbols), in every field; asin, cos, sin, tan, sqrt
  uninterpreted. One trace per region and space dimension (concolic: the shadow stress has its Lode angle in the
  region; the clamps `max(·, 1e-14)` etc. follow the shadow, i.e. the regular branch).
  `Gen.<unit>.all` is the list of output expressions of a traced unit, regenerated on every run.
-/
import Mathlib.Tactic.Ring
import Mathlib.Tactic.NormNum
import TfelVerif.C22.GenMC

namespace TfelVerif.C22.Props
open TfelVerif TfelVerif.C22
set_option maxRecDepth 100000
set_option linter.unusedVariables false
set_option linter.unusedSimpArgs false
set_option linter.unusedTactic false
set_option linter.unreachableTactic false

variable {K : Type} [Field K] (c c3 : K) (fn : Fns K)

/-- evaluate both sides: syntactically identical, or identical up to re-association of products (the variants share
their code text; no polynomial normalisation is attempted, so a discrepancy fails fast) -/
macro "same_expr_mc" : tactic => `(tactic| first
  | (simp only [eval]; done)
  | (simp only [eval, mul_assoc]; done))


/-- Mohr–Coulomb, |lode| < lodeT (no rounding), N = 1 -/
theorem MCmid_N1_variants (ρ : Nat → K) :
    match Gen.MCmid_N1_v.all, Gen.MCmid_N1_n.all, Gen.MCmid_N1_s.all with
    | [v], [r1, a0, a1, a2], r2 :: b0 :: b1 :: b2 :: d00 :: d01 :: d02 :: d10 :: d11 :: d12 :: d20 :: d21 :: d22 :: [] =>
        eval c c3 fn ρ r1 = eval c c3 fn ρ v ∧
        eval c c3 fn ρ r2 = eval c c3 fn ρ v ∧
        eval c c3 fn ρ b0 = eval c c3 fn ρ a0 ∧
        eval c c3 fn ρ b1 = eval c c3 fn ρ a1 ∧
        eval c c3 fn ρ b2 = eval c c3 fn ρ a2
    | _, _, _ => False := by
  simp only [Gen.MCmid_N1_v.all, Gen.MCmid_N1_n.all, Gen.MCmid_N1_s.all]
  refine ⟨?_, ?_, ?_, ?_, ?_⟩ <;> same_expr_mc

/-- Mohr–Coulomb, |lode| < lodeT (no rounding), N = 2 -/
theorem MCmid_N2_variants (ρ : Nat → K) :
    match Gen.MCmid_N2_v.all, Gen.MCmid_N2_n.all, Gen.MCmid_N2_s.all with
    | [v], [r1, a0, a1, a2, a3], r2 :: b0 :: b1 :: b2 :: b3 :: d00 :: d01 :: d02 :: d03 :: d10 :: d11 :: d12 :: d13 :: d20 :: d21 :: d22 :: d23 :: d30 :: d31 :: d32 :: d33 :: [] =>
        eval c c3 fn ρ r1 = eval c c3 fn ρ v ∧
        eval c c3 fn ρ r2 = eval c c3 fn ρ v ∧
        eval c c3 fn ρ b0 = eval c c3 fn ρ a0 ∧
        eval c c3 fn ρ b1 = eval c c3 fn ρ a1 ∧
        eval c c3 fn ρ b2 = eval c c3 fn ρ a2 ∧
        eval c c3 fn ρ b3 = eval c c3 fn ρ a3
    | _, _, _ => False := by
  simp only [Gen.MCmid_N2_v.all, Gen.MCmid_N2_n.all, Gen.MCmid_N2_s.all]
  refine ⟨?_, ?_, ?_, ?_, ?_, ?_⟩ <;> same_expr_mc

/-- Mohr–Coulomb, |lode| < lodeT (no rounding), N = 3 -/
theorem MCmid_N3_variants (ρ : Nat → K) :
    match Gen.MCmid_N3_v.all, Gen.MCmid_N3_n.all, Gen.MCmid_N3_s.all with
    | [v], [r1, a0, a1, a2, a3, a4, a5], r2 :: b0 :: b1 :: b2 :: b3 :: b4 :: b5 :: d00 :: d01 :: d02 :: d03 :: d04 :: d05 :: d10 :: d11 :: d12 :: d13 :: d14 :: d15 :: d20 :: d21 :: d22 :: d23 :: d24 :: d25 :: d30 :: d31 :: d32 :: d33 :: d34 :: d35 :: d40 :: d41 :: d42 :: d43 :: d44 :: d45 :: d50 :: d51 :: d52 :: d53 :: d54 :: d55 :: [] =>
        eval c c3 fn ρ r1 = eval c c3 fn ρ v ∧
        eval c c3 fn ρ r2 = eval c c3 fn ρ v ∧
        eval c c3 fn ρ b0 = eval c c3 fn ρ a0 ∧
        eval c c3 fn ρ b1 = eval c c3 fn ρ a1 ∧
        eval c c3 fn ρ b2 = eval c c3 fn ρ a2 ∧
        eval c c3 fn ρ b3 = eval c c3 fn ρ a3 ∧
        eval c c3 fn ρ b4 = eval c c3 fn ρ a4 ∧
        eval c c3 fn ρ b5 = eval c c3 fn ρ a5
    | _, _, _ => False := by
  simp only [Gen.MCmid_N3_v.all, Gen.MCmid_N3_n.all, Gen.MCmid_N3_s.all]
  refine ⟨?_, ?_, ?_, ?_, ?_, ?_, ?_, ?_⟩ <;> same_expr_mc

/-- Mohr–Coulomb, lode ≥ +lodeT (Abbo–Sloan rounding, triaxial compression side), N = 1 -/
theorem MCpos_N1_variants (ρ : Nat → K) :
    match Gen.MCpos_N1_v.all, Gen.MCpos_N1_n.all, Gen.MCpos_N1_s.all with
    | [v], [r1, a0, a1, a2], r2 :: b0 :: b1 :: b2 :: d00 :: d01 :: d02 :: d10 :: d11 :: d12 :: d20 :: d21 :: d22 :: [] =>
        eval c c3 fn ρ r1 = eval c c3 fn ρ v ∧
        eval c c3 fn ρ r2 = eval c c3 fn ρ v ∧
        eval c c3 fn ρ b0 = eval c c3 fn ρ a0 ∧
        eval c c3 fn ρ b1 = eval c c3 fn ρ a1 ∧
        eval c c3 fn ρ b2 = eval c c3 fn ρ a2
    | _, _, _ => False := by
  simp only [Gen.MCpos_N1_v.all, Gen.MCpos_N1_n.all, Gen.MCpos_N1_s.all]
  refine ⟨?_, ?_, ?_, ?_, ?_⟩ <;> same_expr_mc

/-- Mohr–Coulomb, lode ≥ +lodeT (Abbo–Sloan rounding, triaxial compression side), N = 2 -/
theorem MCpos_N2_variants (ρ : Nat → K) :
    match Gen.MCpos_N2_v.all, Gen.MCpos_N2_n.all, Gen.MCpos_N2_s.all with
    | [v], [r1, a0, a1, a2, a3], r2 :: b0 :: b1 :: b2 :: b3 :: d00 :: d01 :: d02 :: d03 :: d10 :: d11 :: d12 :: d13 :: d20 :: d21 :: d22 :: d23 :: d30 :: d31 :: d32 :: d33 :: [] =>
        eval c c3 fn ρ r1 = eval c c3 fn ρ v ∧
        eval c c3 fn ρ r2 = eval c c3 fn ρ v ∧
        eval c c3 fn ρ b0 = eval c c3 fn ρ a0 ∧
        eval c c3 fn ρ b1 = eval c c3 fn ρ a1 ∧
        eval c c3 fn ρ b2 = eval c c3 fn ρ a2 ∧
        eval c c3 fn ρ b3 = eval c c3 fn ρ a3
    | _, _, _ => False := by
  simp only [Gen.MCpos_N2_v.all, Gen.MCpos_N2_n.all, Gen.MCpos_N2_s.all]
  refine ⟨?_, ?_, ?_, ?_, ?_, ?_⟩ <;> same_expr_mc

/-- Mohr–Coulomb, lode ≥ +lodeT (Abbo–Sloan rounding, triaxial compression side), N = 3 -/
theorem MCpos_N3_variants (ρ : Nat → K) :
    match Gen.MCpos_N3_v.all, Gen.MCpos_N3_n.all, Gen.MCpos_N3_s.all with
    | [v], [r1, a0, a1, a2, a3, a4, a5], r2 :: b0 :: b1 :: b2 :: b3 :: b4 :: b5 :: d00 :: d01 :: d02 :: d03 :: d04 :: d05 :: d10 :: d11 :: d12 :: d13 :: d14 :: d15 :: d20 :: d21 :: d22 :: d23 :: d24 :: d25 :: d30 :: d31 :: d32 :: d33 :: d34 :: d35 :: d40 :: d41 :: d42 :: d43 :: d44 :: d45 :: d50 :: d51 :: d52 :: d53 :: d54 :: d55 :: [] =>
        eval c c3 fn ρ r1 = eval c c3 fn ρ v ∧
        eval c c3 fn ρ r2 = eval c c3 fn ρ v ∧
        eval c c3 fn ρ b0 = eval c c3 fn ρ a0 ∧
        eval c c3 fn ρ b1 = eval c c3 fn ρ a1 ∧
        eval c c3 fn ρ b2 = eval c c3 fn ρ a2 ∧
        eval c c3 fn ρ b3 = eval c c3 fn ρ a3 ∧
        eval c c3 fn ρ b4 = eval c c3 fn ρ a4 ∧
        eval c c3 fn ρ b5 = eval c c3 fn ρ a5
    | _, _, _ => False := by
  simp only [Gen.MCpos_N3_v.all, Gen.MCpos_N3_n.all, Gen.MCpos_N3_s.all]
  refine ⟨?_, ?_, ?_, ?_, ?_, ?_, ?_, ?_⟩ <;> same_expr_mc

/-- Mohr–Coulomb, lode ≤ −lodeT (Abbo–Sloan rounding, triaxial extension side), N = 1 -/
theorem MCneg_N1_variants (ρ : Nat → K) :
    match Gen.MCneg_N1_v.all, Gen.MCneg_N1_n.all, Gen.MCneg_N1_s.all with
    | [v], [r1, a0, a1, a2], r2 :: b0 :: b1 :: b2 :: d00 :: d01 :: d02 :: d10 :: d11 :: d12 :: d20 :: d21 :: d22 :: [] =>
        eval c c3 fn ρ r1 = eval c c3 fn ρ v ∧
        eval c c3 fn ρ r2 = eval c c3 fn ρ v ∧
        eval c c3 fn ρ b0 = eval c c3 fn ρ a0 ∧
        eval c c3 fn ρ b1 = eval c c3 fn ρ a1 ∧
        eval c c3 fn ρ b2 = eval c c3 fn ρ a2
    | _, _, _ => False := by
  simp only [Gen.MCneg_N1_v.all, Gen.MCneg_N1_n.all, Gen.MCneg_N1_s.all]
  refine ⟨?_, ?_, ?_, ?_, ?_⟩ <;> same_expr_mc

/-- Mohr–Coulomb, lode ≤ −lodeT (Abbo–Sloan rounding, triaxial extension side), N = 2 -/
theorem MCneg_N2_variants (ρ : Nat → K) :
    match Gen.MCneg_N2_v.all, Gen.MCneg_N2_n.all, Gen.MCneg_N2_s.all with
    | [v], [r1, a0, a1, a2, a3], r2 :: b0 :: b1 :: b2 :: b3 :: d00 :: d01 :: d02 :: d03 :: d10 :: d11 :: d12 :: d13 :: d20 :: d21 :: d22 :: d23 :: d30 :: d31 :: d32 :: d33 :: [] =>
        eval c c3 fn ρ r1 = eval c c3 fn ρ v ∧
        eval c c3 fn ρ r2 = eval c c3 fn ρ v ∧
        eval c c3 fn ρ b0 = eval c c3 fn ρ a0 ∧
        eval c c3 fn ρ b1 = eval c c3 fn ρ a1 ∧
        eval c c3 fn ρ b2 = eval c c3 fn ρ a2 ∧
        eval c c3 fn ρ b3 = eval c c3 fn ρ a3
    | _, _, _ => False := by
  simp only [Gen.MCneg_N2_v.all, Gen.MCneg_N2_n.all, Gen.MCneg_N2_s.all]
  refine ⟨?_, ?_, ?_, ?_, ?_, ?_⟩ <;> same_expr_mc

/-- Mohr–Coulomb, lode ≤ −lodeT (Abbo–Sloan rounding, triaxial extension side), N = 3 -/
theorem MCneg_N3_variants (ρ : Nat → K) :
    match Gen.MCneg_N3_v.all, Gen.MCneg_N3_n.all, Gen.MCneg_N3_s.all with
    | [v], [r1, a0, a1, a2, a3, a4, a5], r2 :: b0 :: b1 :: b2 :: b3 :: b4 :: b5 :: d00 :: d01 :: d02 :: d03 :: d04 :: d05 :: d10 :: d11 :: d12 :: d13 :: d14 :: d15 :: d20 :: d21 :: d22 :: d23 :: d24 :: d25 :: d30 :: d31 :: d32 :: d33 :: d34 :: d35 :: d40 :: d41 :: d42 :: d43 :: d44 :: d45 :: d50 :: d51 :: d52 :: d53 :: d54 :: d55 :: [] =>
        eval c c3 fn ρ r1 = eval c c3 fn ρ v ∧
        eval c c3 fn ρ r2 = eval c c3 fn ρ v ∧
        eval c c3 fn ρ b0 = eval c c3 fn ρ a0 ∧
        eval c c3 fn ρ b1 = eval c c3 fn ρ a1 ∧
        eval c c3 fn ρ b2 = eval c c3 fn ρ a2 ∧
        eval c c3 fn ρ b3 = eval c c3 fn ρ a3 ∧
        eval c c3 fn ρ b4 = eval c c3 fn ρ a4 ∧
        eval c c3 fn ρ b5 = eval c c3 fn ρ a5
    | _, _, _ => False := by
  simp only [Gen.MCneg_N3_v.all, Gen.MCneg_N3_n.all, Gen.MCneg_N3_s.all]
  refine ⟨?_, ?_, ?_, ?_, ?_, ?_, ?_, ?_⟩ <;> same_expr_mc

end TfelVerif.C22.Props
