/-
  C22 — property theorems, part A: the value / normal / second-derivative variants of each criterion return the
  SAME equivalent stress, and the normal returned by the second-derivative variant is the one returned by the
  normal variant — for every input (all stresses, all parameters), in every field; function symbols
  (pow, sqrt, cbrt) uninterpreted. `Gen.<unit>.all` is the list of output expressions of a traced unit
  (regenerated on every run); the `match` fixes the number of outputs (a change of arity makes the statement False).
  The traces of the normal / second-derivative variants are those of the regular branch (equivalent stress above
  the `seps` threshold: `Gen.<unit>.path`).
-/
import Mathlib.Tactic.Ring
import Mathlib.Tactic.NormNum
import TfelVerif.C22.Gen

namespace TfelVerif.C22.Props
open TfelVerif TfelVerif.C22
set_option maxRecDepth 100000
set_option linter.unusedVariables false
set_option linter.unusedSimpArgs false
set_option linter.unusedTactic false
set_option linter.unreachableTactic false

variable {K : Type} [Field K] (c c3 : K) (fn : Fns K)

/-- evaluate both sides; syntactically identical, or identical up to re-association of products (the variants share their code text; no polynomial normalisation is attempted, so a discrepancy fails fast) -/
macro "same_expr" : tactic => `(tactic| first
  | (simp only [eval]; done)
  | (simp only [eval, mul_assoc]; done))


/-- Drucker 1949, N = 1 -/
theorem Dr_N1_variants (ρ : Nat → K) :
    match Gen.Dr_N1_v.all, Gen.Dr_N1_n.all, Gen.Dr_N1_s.all with
    | [v], [r1, a0, a1, a2], r2 :: b0 :: b1 :: b2 :: d00 :: d01 :: d02 :: d10 :: d11 :: d12 :: d20 :: d21 :: d22 :: [] =>
        eval c c3 fn ρ r1 = eval c c3 fn ρ v ∧
        eval c c3 fn ρ r2 = eval c c3 fn ρ v ∧
        eval c c3 fn ρ b0 = eval c c3 fn ρ a0 ∧
        eval c c3 fn ρ b1 = eval c c3 fn ρ a1 ∧
        eval c c3 fn ρ b2 = eval c c3 fn ρ a2
    | _, _, _ => False := by
  simp only [Gen.Dr_N1_v.all, Gen.Dr_N1_n.all, Gen.Dr_N1_s.all]
  refine ⟨?_, ?_, ?_, ?_, ?_⟩ <;> same_expr

/-- Drucker 1949, N = 2 -/
theorem Dr_N2_variants (ρ : Nat → K) :
    match Gen.Dr_N2_v.all, Gen.Dr_N2_n.all, Gen.Dr_N2_s.all with
    | [v], [r1, a0, a1, a2, a3], r2 :: b0 :: b1 :: b2 :: b3 :: d00 :: d01 :: d02 :: d03 :: d10 :: d11 :: d12 :: d13 :: d20 :: d21 :: d22 :: d23 :: d30 :: d31 :: d32 :: d33 :: [] =>
        eval c c3 fn ρ r1 = eval c c3 fn ρ v ∧
        eval c c3 fn ρ r2 = eval c c3 fn ρ v ∧
        eval c c3 fn ρ b0 = eval c c3 fn ρ a0 ∧
        eval c c3 fn ρ b1 = eval c c3 fn ρ a1 ∧
        eval c c3 fn ρ b2 = eval c c3 fn ρ a2 ∧
        eval c c3 fn ρ b3 = eval c c3 fn ρ a3
    | _, _, _ => False := by
  simp only [Gen.Dr_N2_v.all, Gen.Dr_N2_n.all, Gen.Dr_N2_s.all]
  refine ⟨?_, ?_, ?_, ?_, ?_, ?_⟩ <;> same_expr

/-- Drucker 1949, N = 3 -/
theorem Dr_N3_variants (ρ : Nat → K) :
    match Gen.Dr_N3_v.all, Gen.Dr_N3_n.all, Gen.Dr_N3_s.all with
    | [v], [r1, a0, a1, a2, a3, a4, a5], r2 :: b0 :: b1 :: b2 :: b3 :: b4 :: b5 :: d00 :: d01 :: d02 :: d03 :: d04 :: d05 :: d10 :: d11 :: d12 :: d13 :: d14 :: d15 :: d20 :: d21 :: d22 :: d23 :: d24 :: d25 :: d30 :: d31 :: d32 :: d33 :: d34 :: d35 :: d40 :: d41 :: d42 :: d43 :: d44 :: d45 :: d50 :: d51 :: d52 :: d53 :: d54 :: d55 :: [] =>
        eval c c3 fn ρ r1 = eval c c3 fn ρ v ∧
        eval c c3 fn ρ r2 = eval c c3 fn ρ v ∧
        eval c c3 fn ρ b0 = eval c c3 fn ρ a0 ∧
        eval c c3 fn ρ b1 = eval c c3 fn ρ a1 ∧
        eval c c3 fn ρ b2 = eval c c3 fn ρ a2 ∧
        eval c c3 fn ρ b3 = eval c c3 fn ρ a3 ∧
        eval c c3 fn ρ b4 = eval c c3 fn ρ a4 ∧
        eval c c3 fn ρ b5 = eval c c3 fn ρ a5
    | _, _, _ => False := by
  simp only [Gen.Dr_N3_v.all, Gen.Dr_N3_n.all, Gen.Dr_N3_s.all]
  refine ⟨?_, ?_, ?_, ?_, ?_, ?_, ?_, ?_⟩ <;> same_expr

/-- Cazacu 2004 (isotropic), N = 1 -/
theorem C4i_N1_variants (ρ : Nat → K) :
    match Gen.C4i_N1_v.all, Gen.C4i_N1_n.all, Gen.C4i_N1_s.all with
    | [v], [r1, a0, a1, a2], r2 :: b0 :: b1 :: b2 :: d00 :: d01 :: d02 :: d10 :: d11 :: d12 :: d20 :: d21 :: d22 :: [] =>
        eval c c3 fn ρ r1 = eval c c3 fn ρ v ∧
        eval c c3 fn ρ r2 = eval c c3 fn ρ v ∧
        eval c c3 fn ρ b0 = eval c c3 fn ρ a0 ∧
        eval c c3 fn ρ b1 = eval c c3 fn ρ a1 ∧
        eval c c3 fn ρ b2 = eval c c3 fn ρ a2
    | _, _, _ => False := by
  simp only [Gen.C4i_N1_v.all, Gen.C4i_N1_n.all, Gen.C4i_N1_s.all]
  refine ⟨?_, ?_, ?_, ?_, ?_⟩ <;> same_expr

/-- Cazacu 2004 (isotropic), N = 2 -/
theorem C4i_N2_variants (ρ : Nat → K) :
    match Gen.C4i_N2_v.all, Gen.C4i_N2_n.all, Gen.C4i_N2_s.all with
    | [v], [r1, a0, a1, a2, a3], r2 :: b0 :: b1 :: b2 :: b3 :: d00 :: d01 :: d02 :: d03 :: d10 :: d11 :: d12 :: d13 :: d20 :: d21 :: d22 :: d23 :: d30 :: d31 :: d32 :: d33 :: [] =>
        eval c c3 fn ρ r1 = eval c c3 fn ρ v ∧
        eval c c3 fn ρ r2 = eval c c3 fn ρ v ∧
        eval c c3 fn ρ b0 = eval c c3 fn ρ a0 ∧
        eval c c3 fn ρ b1 = eval c c3 fn ρ a1 ∧
        eval c c3 fn ρ b2 = eval c c3 fn ρ a2 ∧
        eval c c3 fn ρ b3 = eval c c3 fn ρ a3
    | _, _, _ => False := by
  simp only [Gen.C4i_N2_v.all, Gen.C4i_N2_n.all, Gen.C4i_N2_s.all]
  refine ⟨?_, ?_, ?_, ?_, ?_, ?_⟩ <;> same_expr

/-- Cazacu 2004 (isotropic), N = 3 -/
theorem C4i_N3_variants (ρ : Nat → K) :
    match Gen.C4i_N3_v.all, Gen.C4i_N3_n.all, Gen.C4i_N3_s.all with
    | [v], [r1, a0, a1, a2, a3, a4, a5], r2 :: b0 :: b1 :: b2 :: b3 :: b4 :: b5 :: d00 :: d01 :: d02 :: d03 :: d04 :: d05 :: d10 :: d11 :: d12 :: d13 :: d14 :: d15 :: d20 :: d21 :: d22 :: d23 :: d24 :: d25 :: d30 :: d31 :: d32 :: d33 :: d34 :: d35 :: d40 :: d41 :: d42 :: d43 :: d44 :: d45 :: d50 :: d51 :: d52 :: d53 :: d54 :: d55 :: [] =>
        eval c c3 fn ρ r1 = eval c c3 fn ρ v ∧
        eval c c3 fn ρ r2 = eval c c3 fn ρ v ∧
        eval c c3 fn ρ b0 = eval c c3 fn ρ a0 ∧
        eval c c3 fn ρ b1 = eval c c3 fn ρ a1 ∧
        eval c c3 fn ρ b2 = eval c c3 fn ρ a2 ∧
        eval c c3 fn ρ b3 = eval c c3 fn ρ a3 ∧
        eval c c3 fn ρ b4 = eval c c3 fn ρ a4 ∧
        eval c c3 fn ρ b5 = eval c c3 fn ρ a5
    | _, _, _ => False := by
  simp only [Gen.C4i_N3_v.all, Gen.C4i_N3_n.all, Gen.C4i_N3_s.all]
  refine ⟨?_, ?_, ?_, ?_, ?_, ?_, ?_, ?_⟩ <;> same_expr

/-- Cazacu 2001 (orthotropic invariants), N = 1 -/
theorem C1_N1_variants (ρ : Nat → K) :
    match Gen.C1_N1_v.all, Gen.C1_N1_n.all, Gen.C1_N1_s.all with
    | [v], [r1, a0, a1, a2], r2 :: b0 :: b1 :: b2 :: d00 :: d01 :: d02 :: d10 :: d11 :: d12 :: d20 :: d21 :: d22 :: [] =>
        eval c c3 fn ρ r1 = eval c c3 fn ρ v ∧
        eval c c3 fn ρ r2 = eval c c3 fn ρ v ∧
        eval c c3 fn ρ b0 = eval c c3 fn ρ a0 ∧
        eval c c3 fn ρ b1 = eval c c3 fn ρ a1 ∧
        eval c c3 fn ρ b2 = eval c c3 fn ρ a2
    | _, _, _ => False := by
  simp only [Gen.C1_N1_v.all, Gen.C1_N1_n.all, Gen.C1_N1_s.all]
  refine ⟨?_, ?_, ?_, ?_, ?_⟩ <;> same_expr

/-- Cazacu 2001 (orthotropic invariants), N = 2 -/
theorem C1_N2_variants (ρ : Nat → K) :
    match Gen.C1_N2_v.all, Gen.C1_N2_n.all, Gen.C1_N2_s.all with
    | [v], [r1, a0, a1, a2, a3], r2 :: b0 :: b1 :: b2 :: b3 :: d00 :: d01 :: d02 :: d03 :: d10 :: d11 :: d12 :: d13 :: d20 :: d21 :: d22 :: d23 :: d30 :: d31 :: d32 :: d33 :: [] =>
        eval c c3 fn ρ r1 = eval c c3 fn ρ v ∧
        eval c c3 fn ρ r2 = eval c c3 fn ρ v ∧
        eval c c3 fn ρ b0 = eval c c3 fn ρ a0 ∧
        eval c c3 fn ρ b1 = eval c c3 fn ρ a1 ∧
        eval c c3 fn ρ b2 = eval c c3 fn ρ a2 ∧
        eval c c3 fn ρ b3 = eval c c3 fn ρ a3
    | _, _, _ => False := by
  simp only [Gen.C1_N2_v.all, Gen.C1_N2_n.all, Gen.C1_N2_s.all]
  refine ⟨?_, ?_, ?_, ?_, ?_, ?_⟩ <;> same_expr

/-- Cazacu 2004 (orthotropic), N = 1 -/
theorem C4o_N1_variants (ρ : Nat → K) :
    match Gen.C4o_N1_v.all, Gen.C4o_N1_n.all, Gen.C4o_N1_s.all with
    | [v], [r1, a0, a1, a2], r2 :: b0 :: b1 :: b2 :: d00 :: d01 :: d02 :: d10 :: d11 :: d12 :: d20 :: d21 :: d22 :: [] =>
        eval c c3 fn ρ r1 = eval c c3 fn ρ v ∧
        eval c c3 fn ρ r2 = eval c c3 fn ρ v ∧
        eval c c3 fn ρ b0 = eval c c3 fn ρ a0 ∧
        eval c c3 fn ρ b1 = eval c c3 fn ρ a1 ∧
        eval c c3 fn ρ b2 = eval c c3 fn ρ a2
    | _, _, _ => False := by
  simp only [Gen.C4o_N1_v.all, Gen.C4o_N1_n.all, Gen.C4o_N1_s.all]
  refine ⟨?_, ?_, ?_, ?_, ?_⟩ <;> same_expr

/-- Cazacu 2004 (orthotropic), N = 2 -/
theorem C4o_N2_variants (ρ : Nat → K) :
    match Gen.C4o_N2_v.all, Gen.C4o_N2_n.all, Gen.C4o_N2_s.all with
    | [v], [r1, a0, a1, a2, a3], r2 :: b0 :: b1 :: b2 :: b3 :: d00 :: d01 :: d02 :: d03 :: d10 :: d11 :: d12 :: d13 :: d20 :: d21 :: d22 :: d23 :: d30 :: d31 :: d32 :: d33 :: [] =>
        eval c c3 fn ρ r1 = eval c c3 fn ρ v ∧
        eval c c3 fn ρ r2 = eval c c3 fn ρ v ∧
        eval c c3 fn ρ b0 = eval c c3 fn ρ a0 ∧
        eval c c3 fn ρ b1 = eval c c3 fn ρ a1 ∧
        eval c c3 fn ρ b2 = eval c c3 fn ρ a2 ∧
        eval c c3 fn ρ b3 = eval c c3 fn ρ a3
    | _, _, _ => False := by
  simp only [Gen.C4o_N2_v.all, Gen.C4o_N2_n.all, Gen.C4o_N2_s.all]
  refine ⟨?_, ?_, ?_, ?_, ?_, ?_⟩ <;> same_expr

/-- Hosford 1972 in 1D (the eigenvalues are the stored components), symbolic exponent -/
theorem Ho_N1_variants (ρ : Nat → K) :
    match Gen.Ho_N1_v.all, Gen.Ho_N1_n.all, Gen.Ho_N1_s.all with
    | [v], [r1, a0, a1, a2], [r2, b0, b1, b2, d00, d01, d02, d10, d11, d12, d20, d21, d22] =>
        eval c c3 fn ρ r1 = eval c c3 fn ρ v ∧ eval c c3 fn ρ r2 = eval c c3 fn ρ v ∧
        eval c c3 fn ρ b0 = eval c c3 fn ρ a0 ∧ eval c c3 fn ρ b1 = eval c c3 fn ρ a1 ∧
        eval c c3 fn ρ b2 = eval c c3 fn ρ a2
    | _, _, _ => False := by
  simp only [Gen.Ho_N1_v.all, Gen.Ho_N1_n.all, Gen.Ho_N1_s.all]
  refine ⟨?_, ?_, ?_, ?_, ?_⟩ <;> same_expr

end TfelVerif.C22.Props
